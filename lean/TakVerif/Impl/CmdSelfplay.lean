import TakVerif.Impl.PTNReal
import TakVerif.Impl.TEIClient
import TakVerif.Impl.Result

/-! Mirror of `cmd/internal/selfplay` (`taktician selfplay`): `simulate.go` (`Simulate`, `startGames`, `worker` with ONE
worker thread), `readOpenings` / `writeGame` / `(*Command).Execute` of `main.go`.

A tournament: for every opening position, `Games` games (twice as many with `-swap`, player 1 then taking White in the
even and Black in the odd ones) between two players.  A game starts from the opening and runs for at most `Cutoff`
plies: the player of the colour to move is asked for a move; with a time control its clock is charged first (a clock at
or below one millisecond ends the game in favour of the OTHER colour, even when the call returned an error); an error
of the call is `log.Fatalf` (the process ends); the move is handed to `Position.Move` — a move it REJECTS is
`panic("illegal move: …")` in the worker goroutine (the process ends), a move it accepts (this includes the engine's
internal pass) is appended to the record — and the game ends when `GameOver` says so, with the winner `GameOver`
reports.  `Simulate` tallies the results.

Players are parameters (`Player σ`): whether the client starts, whether `NewGame(size)` succeeds, and for every call
the answer, the new state and the time the call took.  `tei.Client` / `tei.Player` / the engine behind them are the
subject of C17; the harness replaces them by in-process players (`harness/rewrite/cmd_selfplay_simulate.json`).

Not modelled: more than one worker (the order of `Stats.Games` then depends on the scheduler; the totals do not),
`-prefix`, `-merge`, `-mem-profile`, `-v`, `-debug`, the ELO / binomial lines of `printSummary` (floating point), the
per-game `rand.Rand` (created, never used). -/
namespace Tak.CmdSelfplay
open Go (Bytes lit)
open Tak.TEIClient (TimeControl)

/-- `selfplay.Config` as far as `Simulate` reads it (durations in nanoseconds) -/
structure Config where
  games : Int := 1
  swap : Bool := true
  cutoff : Int := 80
  limit : Int := 0
  gameTime : Int := 0
  increment : Int := 0
  initial : List Pos := []
deriving Inhabited

/-- what `TEIGetMove` returned -/
inductive Answer where
  | move (m : Move)
  | err
  /-- the player itself crashed (a panic inside the call) -/
  | crash (e : Err)
deriving Inhabited

/-- a player: `client` = `tei.NewClient` succeeds, `newGame size` = `NewGame` (`none`: it fails), `move s p tc deadline`
= one `TEIGetMove` (the clocks it is shown, whether the context carries a deadline, i.e. `-limit` is set): the
answer, the player's next state, and the time the call took (ns) -/
structure Player (σ : Type) where
  client : Bool
  newGame : Nat → Option σ
  move : σ → Pos → Option TimeControl → Bool → Answer × σ × Int

/-- `gameSpec` -/
structure Spec where
  opening : Pos
  oi : Nat
  i : Nat
  p1color : Color
deriving Inhabited

/-- `selfplay.Result` (+ the clocks shown at every call of the game: a ghost field for the correspondence) -/
structure Result where
  spec : Spec
  position : Pos
  moves : List Move
  winner : Color
  calls : List (Option TimeControl) := []
deriving Inhabited

/-- how the process ends -/
inductive Stop where
  | ok
  /-- `log.Fatalf("starting client…")` -/
  | fatalClient
  /-- `log.Fatalf("starting game…")` -/
  | fatalGame
  /-- `log.Fatalf("Get move: …")`: the player's call returned an error -/
  | fatalGetMove
  /-- `panic("illegal move: …")`: `Position.Move` rejected the player's answer -/
  | panicIllegal
  | crash (e : Err)
  /-- `log.Fatalf("parsing time control …")`, `log.Fatalf("-openings: …")` (`Execute`) -/
  | fatalTC
  | fatalOpenings
deriving Repr, DecidableEq, Inhabited

/-- `startGames`: the specifications in the order they are sent -/
def gamesOf (c : Config) (pi : Nat) (pos : Pos) : List Spec :=
  let n := if c.swap then c.games * 2 else c.games
  (List.range n.toNat).map fun g =>
    { opening := pos, oi := pi, i := g, p1color := if g % 2 == 0 || !c.swap then .white else .black }

def specsFrom (c : Config) : Nat → List Pos → List Spec
  | _, [] => []
  | pi, pos :: rest => gamesOf c pi pos ++ specsFrom c (pi + 1) rest

def specs (c : Config) : List Spec := specsFrom c 0 c.initial

/-- the clock block of `worker`: `none` = the mover is flagged, otherwise the control shown at the next call -/
def chargeClock (tc : TimeControl) (mover : Color) (dur : Int) : Option TimeControl :=
  if mover == .white then
    match TEIClient.clockStep tc.white tc.winc dur with
    | none => none
    | some w => some { tc with white := w }
  else
    match TEIClient.clockStep tc.black tc.binc dur with
    | none => none
    | some b => some { tc with black := b }

/-- the `for i := 0; i < g.c.Cutoff; i++` loop of `worker` (fuel = the plies left before the cut-off);
`s1` / `s2` = the states of player 1 / player 2, `p1white` = player 1 has White -/
def gameLoop {σ : Type} (basis : Array W) (P1 P2 : Player σ) (deadline : Bool) (sp : Spec) :
    Nat → σ → σ → Pos → Option TimeControl → List Move → List (Option TimeControl) → Except Stop Result
  | 0, _, _, p, _, ms, calls => .ok { spec := sp, position := p, moves := ms, winner := .none, calls := calls }
  | fuel + 1, s1, s2, p, tc, ms, calls =>
    let p1turn := (p.toMove == .white) == (sp.p1color == .white)
    let (ans, s', dur) := if p1turn then P1.move s1 p tc deadline else P2.move s2 p tc deadline
    let (s1, s2) := if p1turn then (s', s2) else (s1, s')
    let calls := calls ++ [tc]
    let charged : Option (Option TimeControl) :=
      match tc with
      | none => some none
      | some t => (chargeClock t p.toMove dur).map some
    match charged with
    | none => .ok { spec := sp, position := p, moves := ms, winner := p.toMove.flip, calls := calls }
    | some tc =>
      match ans with
      | .err => .error .fatalGetMove
      | .crash e => .error (.crash e)
      | .move m =>
        match p.apply basis m with
        | .error (.illegal _) => .error .panicIllegal
        | .error e => .error (.crash e)
        | .ok q =>
          let ms := ms ++ [m]
          if q.gameOver.1 then .ok { spec := sp, position := q, moves := ms, winner := q.gameOver.2, calls := calls }
          else gameLoop basis P1 P2 deadline sp fuel s1 s2 q tc ms calls

/-- one game of `worker`: both `NewGame` calls, the time control, the loop -/
def playGame {σ : Type} (basis : Array W) (c : Config) (P1 P2 : Player σ) (sp : Spec) : Except Stop Result :=
  match P1.newGame sp.opening.cfg.size with
  | none => .error .fatalGame
  | some s1 =>
    match P2.newGame sp.opening.cfg.size with
    | none => .error .fatalGame
    | some s2 =>
      let tc : Option TimeControl :=
        if c.gameTime != 0 then some { white := c.gameTime, black := c.gameTime, winc := c.increment, binc := c.increment }
        else none
      gameLoop basis P1 P2 (c.limit != 0) sp c.cutoff.toNat s1 s2 sp.opening tc [] []

/-- the games the worker completes, and how it stops -/
def runGames {σ : Type} (basis : Array W) (c : Config) (P1 P2 : Player σ) : List Spec → List Result × Stop
  | [] => ([], .ok)
  | sp :: rest =>
    match playGame basis c P1 P2 sp with
    | .error e => ([], e)
    | .ok r =>
      let (rs, stop) := runGames basis c P1 P2 rest
      (r :: rs, stop)

/-- `worker` (the one worker): the clients are started first -/
def worker {σ : Type} (basis : Array W) (c : Config) (P1 P2 : Player σ) : List Result × Stop :=
  if !P1.client then ([], .fatalClient) else
  if !P2.client then ([], .fatalClient) else
  runGames basis c P1 P2 (specs c)

/-! ### `Simulate`: the accounts -/

structure PStats where
  wins : Nat := 0
  whiteWins : Nat := 0
  blackWins : Nat := 0
  flatWins : Nat := 0
  roadWins : Nat := 0
  timeWins : Nat := 0
deriving Repr, DecidableEq, Inhabited

structure Stats where
  p1 : PStats := {}
  p2 : PStats := {}
  white : Nat := 0
  black : Nat := 0
  ties : Nat := 0
  cutoff : Nat := 0
deriving Repr, DecidableEq, Inhabited

/-- `Stats.Count` -/
def Stats.count (s : Stats) : Nat := s.white + s.black + s.ties + s.cutoff

/-- the `if r.Winner != tak.NoColor { … }` block for the credited player -/
def creditWin (ps : PStats) (r : Result) : PStats :=
  let ps := if r.winner == .white then { ps with whiteWins := ps.whiteWins + 1 }
            else if r.winner == .black then { ps with blackWins := ps.blackWins + 1 } else ps
  let ps := { ps with wins := ps.wins + 1 }
  let d := r.position.winDetails
  if d.over then
    match d.reason with
    | .flats => { ps with flatWins := ps.flatWins + 1 }
    | .road => { ps with roadWins := ps.roadWins + 1 }
  else { ps with timeWins := ps.timeWins + 1 }

/-- the body of `for r := range rc` in `Simulate` -/
def tally (st : Stats) (r : Result) : Stats :=
  let st :=
    if r.winner == .white then { st with white := st.white + 1 }
    else if r.winner == .black then { st with black := st.black + 1 }
    else if r.position.gameOver.1 then { st with ties := st.ties + 1 }
    else { st with cutoff := st.cutoff + 1 }
  if r.winner != .none then
    if r.winner == r.spec.p1color.flip then { st with p2 := creditWin st.p2 r }
    else { st with p1 := creditWin st.p1 r }
  else st

def tallyAll (rs : List Result) : Stats := rs.foldl tally {}

/-- `Simulate` with one worker: the totals, `Stats.Games`, and how the process ends -/
def simulate {σ : Type} (basis : Array W) (c : Config) (P1 P2 : Player σ) : Stats × List Result × Stop :=
  let (rs, stop) := worker basis c P1 P2
  (tallyAll rs, rs, stop)

/-! ### `readOpenings` -/

/-- `dropCR` of `bufio.ScanLines` -/
def dropCR (l : Bytes) : Bytes :=
  match l.getLast? with
  | some 13 => l.dropLast
  | _ => l

/-- the lines `bufio.Scanner` (default split function and buffer) delivers: the text between newlines without one
trailing `\r`, a last line without newline if it is not empty; the scanner stops — `Scan` returns false, and
`readOpenings` never looks at `Err` — at the first line of more than 65535 bytes (`bufio.MaxScanTokenSize` - 1) -/
def scanLines (input : Bytes) : List Bytes :=
  let segs := Go.split 10 input
  let segs := if segs.getLast? == some [] then segs.dropLast else segs
  (segs.takeWhile (fun l => l.length < PTN.maxScanTokenSize)).map dropCR

def parseAll (env : PTN.Env) : List Bytes → R (List Pos)
  | [] => .ok []
  | l :: rest =>
    match env.parseTPS l with
    | .error e => .error e
    | .ok p =>
      match parseAll env rest with
      | .error e => .error e
      | .ok ps => .ok (p :: ps)

/-- `readOpenings` on the bytes of the file -/
def readOpenings (env : PTN.Env) (file : Bytes) : R (List Pos) := parseAll env (scanLines file)

/-! ### `writeGame` -/

/-- `joinCmd` -/
def joinCmd (cmd : List Bytes) : Bytes :=
  (cmd.map fun w =>
    if w.contains 39 then [39] ++ w.flatMap (fun b => if b == 39 then [92, 39] else [b]) ++ [39] else w).intersperse [32] |>.flatten

/-- the `for i, m := range r.Moves` loop -/
def gameOps (startPly : Int) : Nat → List Move → List PTN.Op
  | _, [] => []
  | i, m :: ms =>
    let ply := startPly + i
    (if ply.tmod 2 == 0 || i == 0 then [PTN.Op.moveNumber [] (ply.tdiv 2 + 1)] else []) ++ [PTN.Op.move [] m []] ++
      gameOps startPly (i + 1) ms

/-- the `ptn.PTN` value `writeGame` builds -/
def gameFile (p1 p2 : List Bytes) (r : Result) : R PTN.File :=
  let (white, black) := if r.spec.p1color == .white then (p1, p2) else (p2, p1)
  let tags : List PTN.Tag := [⟨lit "Size", Go.itoa r.position.cfg.size⟩, ⟨lit "Player1", joinCmd white⟩, ⟨lit "Player2", joinCmd black⟩]
  let res : R (Option Bytes) :=
    if r.position.gameOver.1 then
      match r.position.resultFromGame with
      | .ok s => .ok (some (lit s))
      | .error e => .error e
    else .ok none
  match res with
  | .error e => .error e
  | .ok result =>
    let tags := match result with | some s => tags ++ [⟨lit "Result", s⟩] | none => tags
    let tps : R (List PTN.Tag) :=
      if r.spec.opening.move != 0 then
        match TPS.formatTPS r.spec.opening with
        | .ok t => .ok [⟨lit "TPS", t⟩]
        | .error e => .error e
      else .ok []
    match tps with
    | .error e => .error e
    | .ok tt =>
      let ops := gameOps r.spec.opening.move 0 r.moves
      let ops := match result with | some s => if s.isEmpty then ops else ops ++ [.result [] s] | none => ops
      .ok ⟨tags ++ tt, ops⟩

/-- the bytes of `<oi>-<i>.ptn` -/
def writeGame (env : PTN.Env) (p1 p2 : List Bytes) (r : Result) : R Bytes :=
  match gameFile p1 p2 r with
  | .error e => .error e
  | .ok f => .ok (PTN.render env f)

/-! ### `(*Command).Execute` -/

/-- the flags as `flag.Parse` leaves them; `tc` / `openings`: `none` = flag absent, `some none` = `-tc` does not parse /
the file cannot be opened -/
structure Flags where
  size : Int := 5
  games : Int := 1
  cutoff : Int := 80
  swap : Bool := true
  limit : Int := 0
  tc : Option (Option (Int × Int)) := none
  openings : Option (Option Bytes) := none
  out : Bool := false
  p1 : Bytes := lit "taktician tei"
  p2 : Bytes := lit "taktician tei"
deriving Inhabited

structure Report where
  stats : Stats
  games : List Result
  /-- `(name, bytes)` of the files under `-out`, in the order written -/
  files : List (String × Bytes)
  /-- `summary.json` is written (`-out` given, and some game created the directory: `writeGame` calls `MkdirAll`,
  `writeSummary` does not) -/
  summary : Bool
  /-- `-out` given, no game: `os.Create` fails, `writing summary:` is logged -/
  summaryFailed : Bool
  gameTime : Int
  increment : Int
deriving Inhabited

def execute {σ : Type} (env : PTN.Env) (f : Flags) (mk : List Bytes → Player σ) : Except Stop Report :=
  let tcv : Except Stop (Int × Int) :=
    match f.tc with
    | none => .ok (0, 0)
    | some none => .error .fatalTC
    | some (some v) => .ok v
  match tcv with
  | .error e => .error e
  | .ok (gt, inc) =>
    let opn : Except Stop (List Pos) :=
      match f.openings with
      | none => .ok []
      | some none => .error .fatalOpenings
      | some (some file) =>
        match readOpenings env file with
        | .ok ps => .ok ps
        | .error (.illegal _) => .error .fatalOpenings
        | .error e => .error (.crash e)
    match opn with
    | .error e => .error e
    | .ok ps =>
      let ps : Except Stop (List Pos) :=
        if ps.isEmpty then
          if f.size < 0 then .error (.crash (.panic "New: defaultPieces index")) else
          match Pos.new { size := f.size.toNat, pieces := 0, capstones := 0, blackWinsTies := false } with
          | .ok p => .ok [p]
          | .error e => .error (.crash e)
        else .ok ps
      match ps with
      | .error e => .error e
      | .ok ps =>
        let c : Config := { games := f.games, swap := f.swap, cutoff := f.cutoff, limit := f.limit, gameTime := gt, increment := inc, initial := ps }
        let p1 := Go.split 32 f.p1
        let p2 := Go.split 32 f.p2
        match simulate env.basis c (mk p1) (mk p2) with
        | (st, rs, .ok) =>
          let files : Except Stop (List (String × Bytes)) :=
            if f.out then
              rs.foldl (fun acc r =>
                match acc with
                | .error e => .error e
                | .ok l =>
                  match writeGame env p1 p2 r with
                  | .ok b => .ok (l ++ [(s!"{r.spec.oi}-{r.spec.i}.ptn", b)])
                  | .error e => .error (.crash e)) (.ok [])
            else .ok []
          match files with
          | .error e => .error e
          | .ok fs => .ok { stats := st, games := rs, files := fs, summary := f.out && !rs.isEmpty, summaryFailed := f.out && rs.isEmpty, gameTime := gt, increment := inc }
        | (_, _, stop) => .error stop

end Tak.CmdSelfplay
