import TakVerif.Impl.Move

/-! Mirror of `ai/mcts/mcts.go`: `cornerMove`, `populate`, `descend`, `update`, the main loop and the
final selection of `MonteCarloAI.GetMove`.

The model is of the tree **with** `fixes/C04-mcts-corner.diff` (`cornerMove` returns the drawn corner
`(row, col)`, not `(row, row)`).

The search tree is a pointer structure in Go; here it is an arena (`Array Node`) in which an index plays
the role of a `*tree`.  Everything the property does not depend on is an **oracle** (`Oracle`): the
clock (how many iterations run), `math/rand`, the floating-point UCB comparison (which child `descend`
follows), the rollout result, the order `sort.Sort` leaves the children in. -/
namespace Tak.MCTS

/-! ### corner forcing -/

/-- `len(p.At(x, y)) > 0` -/
def occupied (p : Pos) (x y : Nat) : Bool := (p.white ||| p.black).getLsbD (x + y * p.cfg.size)

/-- `cornerMove`: draws two bits per round (`r.Intn(2)` for the row, then for the column) until the
drawn corner is empty.  The bit stream is the oracle; running out of it is reported as `hang`
(the Go loop would simply draw again). -/
def cornerMove (p : Pos) : List Bool → R Move
  | b1 :: b2 :: rest =>
    let row := (p.cfg.size - 1) * (if b1 then 1 else 0)
    let col := (p.cfg.size - 1) * (if b2 then 1 else 0)
    if occupied p row col then cornerMove p rest
    else .ok { x := wrap8 row, y := wrap8 col, type := Facts.mtPlaceFlat, slides := 0 }
  | _ => .error (.hang "cornerMove: random bits exhausted")

/-! ### the tree -/

structure Node where
  pos : Pos
  move : Move
  sims : Int := 0
  proven : Int := 0
  value : Int := 0
  parent : Option Nat := none
  children : List Nat := []
deriving Inhabited

abbrev Arena := Array Node

/-- the `proven` mark `populate` gives a fresh child -/
def provenOf (child : Pos) : Int :=
  let (over, winner) := child.gameOver
  if over && winner != .none then (if winner == child.toMove then 1 else -1) else 0

/-- the legal successors in generation order: `AllMoves` filtered by `Move` succeeding -/
def legalChildren (basis : Array W) (p : Pos) : List (Move × Pos) :=
  p.allMoves.filterMap (fun m => match p.apply basis m with
    | .ok q => some (m, q)
    | .error _ => none)

/-- `populate(t)`: `t.children` becomes one fresh node per legal move (illegal candidates are skipped) -/
def populate (basis : Array W) (a : Arena) (t : Nat) : Arena :=
  match a[t]? with
  | none => a
  | some node =>
    let kids := legalChildren basis node.pos
    let fresh : List Node := kids.map (fun (m, q) =>
      { pos := q, move := m, parent := some t, proven := provenOf q })
    let ids := (List.range kids.length).map (· + a.size)
    (a.setIfInBounds t { node with children := ids }) ++ fresh.toArray

/-- `descend(t)`: follow `pick` (UCB + tie-breaking by `rand`) down to a node without children.
Whatever the floats say, the node followed is one of `t.children`. -/
def descend (pick : Nat → List Nat → Nat) : Nat → Arena → Nat → Nat
  | 0, _, t => t
  | fuel+1, a, t =>
    match a[t]? with
    | none => t
    | some node =>
      match node.children with
      | [] => t
      | c :: cs =>
        let ch := c :: cs
        descend pick fuel a (ch.getD (pick t ch % ch.length) c)

def setProven (a : Arena) (t : Nat) (v : Int) : Arena :=
  match a[t]? with
  | none => a
  | some n => a.setIfInBounds t { n with proven := v }

/-- `update(t, value)`: walk to the root, counting the simulation and backing up values / proofs -/
def update : Nat → Arena → Option Nat → Int → Arena
  | 0, a, _, _ => a
  | _, a, none, _ => a
  | fuel+1, a, some t, value =>
    match a[t]? with
    | none => a
    | some n0 =>
      let a := a.setIfInBounds t { n0 with sims := n0.sims + 1 }
      if n0.proven ≠ 0 then
        match n0.parent with
        | none => a
        | some par =>
          if n0.proven < 0 then
            update fuel (setProven a par 1) (some par) (- (-1))
          else
            let all := match a[par]? with
              | none => true
              | some pn => pn.children.all (fun ch => match a[ch]? with | some cn => cn.proven > 0 | none => true)
            let a := if all then setProven a par (-1) else a
            update fuel a (some par) (-1)
      else
        let a := match a[t]? with
          | none => a
          | some n1 => a.setIfInBounds t { n1 with value := n1.value + value }
        update fuel a n0.parent (-value)

/-- everything outside the model -/
structure Oracle where
  /-- how many times `time.Now().Before(deadline)` holds (at most; a proven root ends the loop earlier) -/
  iterations : Nat
  /-- which child `descend` follows: iteration, node, its children ↦ a position in that list -/
  pick : Nat → Nat → List Nat → Nat
  /-- the rollout result for a node in an iteration -/
  rollout : Nat → Nat → Int
  /-- the order `sort.Sort(bySims(..))` leaves the root's children in -/
  sorted : Arena → List Nat → List Nat
  /-- `r.Intn(i) == 0` in the final tie-break -/
  tie : Nat → Nat → Bool
  /-- the draws of `cornerMove` -/
  bits : List Bool
  /-- `ai.mm.GetMove` -/
  mmMove : Move

def simsOf (a : Arena) (i : Nat) : Int := match a[i]? with | some n => n.sims | none => 0
def provenAt (a : Arena) (i : Nat) : Int := match a[i]? with | some n => n.proven | none => 0

/-- the main loop: `for time.Now().Before(deadline) { … }`; `j` counts iterations done -/
def loop (basis : Array W) (o : Oracle) : Nat → Nat → Arena → Arena
  | 0, _, a => a
  | left+1, j, a =>
    let node := descend (o.pick j) (a.size + 1) a 0
    let a := populate basis a node
    if provenAt a 0 ≠ 0 then a else
    let val := if provenAt a node == 0 then o.rollout j node else 0
    let a := update (a.size + 1) a (some node) val
    loop basis o left (j+1) a

/-- the scan for the most simulated child with random tie-breaking -/
def pickBest (a : Arena) (tie : Nat → Nat → Bool) : List Nat → Nat → Nat → Nat
  | [], best, _ => best
  | c :: cs, best, i =>
    if simsOf a c > simsOf a best then pickBest a tie cs c 1
    else if simsOf a c == simsOf a best then
      if tie (i+1) c then pickBest a tie cs c 1 else pickBest a tie cs best (i+1)
    else pickBest a tie cs best i

/-- the scan for the child with the smallest `proven` -/
def pickProven (a : Arena) : List Nat → Nat → Nat
  | [], best => best
  | c :: cs, best => if provenAt a c < provenAt a best then pickProven a cs c else pickProven a cs best

/-- `MonteCarloAI.GetMove` -/
def getMove (basis : Array W) (forceCorners : Bool) (o : Oracle) (p : Pos) : R Move :=
  if forceCorners ∧ p.move < 2 then cornerMove p o.bits else
  let root : Node := { pos := p, move := { x := 0, y := 0, type := 0, slides := 0 } }
  let a := loop basis o o.iterations 0 #[root]
  match a[0]? with
  | none => .error (.panic "unreachable: no root")
  | some r =>
    match r.children with
    | [] => .error (.panic "tree.children[0]: index out of range")      -- no iteration completed / no legal move
    | c0 :: _ =>
      let kids := o.sorted a r.children
      match kids with
      | [] => .error (.panic "unreachable: sort lost the children")
      | k0 :: _ =>
        let best := pickBest a o.tie kids c0 0
        let answer := if r.proven ≠ 0 then pickProven a kids k0 else best
        match a[answer]? with
        | some n => .ok n.move
        | none => .error (.panic "unreachable: dangling child")

end Tak.MCTS
