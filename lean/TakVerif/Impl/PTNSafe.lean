import TakVerif.Impl.PTN

/-! The fragment of PTN values that survives `Render` followed by `ParsePTN`, as decidable predicates
(core Lean only: the driver evaluates them in the `ptnsafe` op, the theorems of `Props/C12.lean` are about them).

`Render` writes a tag as `[name "value"]` (dropping every `"` of the value), a move number as `\n<%d>.`,
a move as ` <FormatMove><modifiers>`, a comment as ` {text}`, a result as `\n<result>\n`.  What it cannot
represent, clause by clause:

* tag name containing a space (the reader splits name from value at the first space) or `]` (the reader cuts
  the tag at the first `]`);
* tag value containing `"` (dropped by `Render`) or `]`;
* comment containing `}` (the tokenizer ends the comment at the first `}`), or longer than 65534 bytes
  (`{`, text, `}` must fit the scanner's 64 KiB window);
* modifiers outside `?!'` (only these are split off a move token), or a move token — `FormatMove` output plus
  modifiers — of 65536 bytes or more (token and the white-space byte ending it must fit the window);
* result strings that `resultRE` does not match (they would be read as something else);
* (model only: `Number` outside the 64-bit `int`.)

`moveSafe` is the part that speaks about `FormatMove`/`ParseMove` rather than about the data. -/
namespace PTN
open Tak

/-- a tag the text form can carry: no space or `]` in the name, no `"` or `]` in the value -/
def tagSafe (t : Tag) : Bool :=
  t.name.all (fun b => b != 32 && b != 93) && t.value.all (fun b => b != 34 && b != 93)

/-- a move the text form can carry: `FormatMove` yields one clean token (not empty, not starting with `{` or
`[`, not ending in `.` or an annotation character, free of white space, not a result string) that `ParseMove`
reads back as the same move -/
def moveSafe (env : Env) (m : Move) : Bool :=
  let s := env.formatMove m
  (match s.head? with | some c => c != 123 && c != 91 | none => false) &&
  (match s.getLast? with | some l => l != 46 && !isModifier l | none => false) &&
  s.all (fun b => !isSpace b) &&
  !matchResult s &&
  (match env.parseMove s with | .ok m' => m' == m | .error _ => false)

/-- the token an op is rendered as -/
def tokOf (env : Env) : Op → Bytes
  | .moveNumber _ n => itoa n ++ [46]
  | .move _ m mods => env.formatMove m ++ mods
  | .comment _ c => 123 :: c ++ [125]
  | .result _ r => r

/-- the shape clauses of one op: what the characters must be -/
def opShape : Op → Bool
  | .moveNumber _ n => decide (-(2 ^ 63 : Int) ≤ n) && decide (n < 2 ^ 63)
  | .move _ _ mods => mods.all isModifier
  | .comment _ c => c.all (· != 125)
  | .result _ r => matchResult r

/-- the length clause of one op: the rendered token fits the scanner's window — an ordinary token together
with the white-space byte that ends it, a comment with both braces -/
def opFits (env : Env) : Op → Bool
  | .move _ m mods => decide ((env.formatMove m).length + mods.length < maxScanTokenSize)
  | .comment _ c => decide (c.length + 2 ≤ maxScanTokenSize)
  | _ => true

/-- the data clauses of one op -/
def opData (env : Env) (op : Op) : Bool := opShape op && opFits env op

/-- the clause about `FormatMove`/`ParseMove` -/
def opMove (env : Env) : Op → Bool
  | .move _ m _ => moveSafe env m
  | _ => true

/-- an op inside the fragment on which render/parse is lossless -/
def opSafe (env : Env) (op : Op) : Bool := opData env op && opMove env op

/-- the data of the file is representable -/
def dataSafe (env : Env) (f : File) : Bool := f.tags.all tagSafe && f.ops.all (opData env)

/-- every move of the file is `moveSafe` -/
def movesSafe (env : Env) (f : File) : Bool := f.ops.all (opMove env)

/-- the fragment of PTN values on which `Render` followed by `ParsePTN` is lossless (decidable) -/
def renderSafe (env : Env) (f : File) : Bool := f.tags.all tagSafe && f.ops.all (opSafe env)

/-- tags equal, ops equal up to the `src` field -/
def File.sameAs (g f : File) : Bool := g.tags == f.tags && g.ops.map Op.clearSrc == f.ops.map Op.clearSrc

end PTN
