import TakVerif.Impl.PTN
import TakVerif.Impl.PTNMove
import TakVerif.Impl.TPS

/-! The PTN-file model with its parameters filled in by the byte-level models of the functions it calls. -/
namespace PTN
open Tak

/-- `ptn.ParseMove`, `ptn.FormatMove`, `ptn.ParseTPS` as modelled in `Impl/PTNMove.lean`, `Impl/TPS.lean` -/
def realEnv (basis : Array W) : Env :=
  { parseMove := Tak.PTN.parseMove
    formatMove := fun m => Tak.PTN.formatMove m false
    parseTPS := Tak.TPS.parseTPS basis
    basis := basis }

end PTN
