import TakVerif.Impl.Move
import TakVerif.Impl.GoBytes

/-! Byte-level mirror of `ptn/move.go`: `ParseMove`, `FormatMove`, `FormatMoveLong` (`formatMove`),
and of `tak.MkSlides` (`tak/slide.go`).  (`moveRE` in that file is never used.) -/
namespace Tak

/-- `tak.MkSlides(drops...)`: panics on a drop above 8; more than eight drops shift out of the word -/
def mkSlides (drops : List Nat) : R (BitVec 32) :=
  drops.reverse.foldlM (fun out d =>
    if d > 8 then .error (.panic "MkSlides: bad drop") else .ok (Slides.prepend out d)) 0#32

namespace PTN
open Go

/-- `move[i]`, with Go's index panic -/
def idx (s : Bytes) (i : Nat) : R UInt8 :=
  match s[i]? with
  | some b => .ok b
  | none => .error (.panic "ParseMove: index out of range")

/-- `strings.ContainsRune("!?*'", rune(b))` (`rune(b)` of a byte ≥ 0x80 is U+0080..U+00FF: not contained) -/
def isAnnot (b : UInt8) : Bool := b == 33 || b == 63 || b == 42 || b == 39

def is18 (b : UInt8) : Bool := 49 ≤ b.toNat && b.toNat ≤ 56

/-- the drop-count loop `for ; i != len(move); i++` over the bytes not yet read -/
def dropLoop : Bytes → List Nat → Int → R (List Nat × Int)
  | [], slides, stack => .ok (slides, stack)
  | d :: rest, slides, stack =>
    if is18 d then dropLoop rest (slides ++ [d.toNat - 48]) (stack - ((d.toNat - 48 : Nat) : Int))
    else if isAnnot d then .ok (slides, stack)
    else .error (.illegal "malformed move: bad count")

/-- what the first `switch move[i]` leaves behind: `m.Type` (0 when a carry count was read), `stack`, `i` -/
def parseHead (b0 : UInt8) : Nat × Nat × Nat :=
  if b0 == 70 then (Facts.mtPlaceFlat, 0, 1)
  else if b0 == 83 then (Facts.mtPlaceStanding, 0, 1)
  else if b0 == 67 then (Facts.mtPlaceCapstone, 0, 1)
  else if is18 b0 then (0, b0.toNat - 48, 1)
  else (Facts.mtPlaceFlat, 0, 0)

/-- the second `switch move[i]`: the direction character -/
def parseDir (bd : UInt8) : R Nat :=
  if bd == 60 then .ok Facts.mtSlideLeft
  else if bd == 62 then .ok Facts.mtSlideRight
  else if bd == 43 then .ok Facts.mtSlideUp
  else if bd == 45 then .ok Facts.mtSlideDown
  else .error (.illegal "bad move")

/-- everything after the direction character: `rest = move[i+1:]`, `stack` the carry count read (0 = none) -/
def parseDrops (m : Move) (ty : Nat) (stack : Nat) (rest : Bytes) : R Move :=
  let stack := if stack == 0 then 1 else stack
  match dropLoop rest [] (stack : Int) with
  | .error e => .error e
  | .ok (slides, stack) =>
    let slides? : R (List Nat) :=
      if stack > 0 then .ok (slides ++ [stack.toNat])
      else if stack < 0 then .error (.illegal "malformed move: bad count")
      else .ok slides
    match slides? with
    | .error e => .error e
    | .ok slides =>
      match mkSlides slides with
      | .error e => .error e
      | .ok s => .ok { m with type := ty, slides := s }

/-- `ParseMove` -/
def parseMove (move : Bytes) : R Move :=
  if move.length < 2 then .error (.illegal "move too short") else
  match idx move 0 with
  | .error e => .error e
  | .ok b0 =>
  match parseHead b0 with
  | (ty, stack, i) =>
  if move.length < i + 2 then .error (.illegal "move too short") else
  match idx move i with
  | .error e => .error e
  | .ok bx =>
  if !(97 ≤ bx.toNat && bx.toNat ≤ 104) then .error (.illegal "illegal move") else
  match idx move (i + 1) with
  | .error e => .error e
  | .ok by_ =>
  if !is18 by_ then .error (.illegal "illegal move") else
  let m : Move := { x := ((bx.toNat - 97 : Nat) : Int), y := ((by_.toNat - 49 : Nat) : Int), type := ty, slides := 0#32 }
  let placeRet : R Move := if stack ≠ 0 then .error (.illegal "illegal move") else .ok m
  if i + 2 == move.length then placeRet else
  match idx move (i + 2) with
  | .error e => .error e
  | .ok bd =>
  if isAnnot bd then placeRet else
  match parseDir bd with
  | .error e => .error e
  | .ok ty => parseDrops m ty stack (move.drop (i + 3))

/-- `formatMove(m, long)`; `byte('a'+m.X)` is int8 addition followed by truncation: the low 8 bits of the sum -/
def formatMove (m : Move) (long : Bool) : Bytes :=
  let elems := Slides.elems m.slides
  let stack := elems.foldl (· + ·) 0
  let out : Bytes := []
  let out := if m.slides != 0#32 ∧ (long ∨ stack ≠ 1) then out ++ [UInt8.ofNat (48 + stack)] else out
  let out :=
    if m.type == Facts.mtPlaceFlat then (if long then out ++ [70] else out)
    else if m.type == Facts.mtPlaceCapstone then out ++ [67]
    else if m.type == Facts.mtPlaceStanding then out ++ [83]
    else out
  let out := out ++ [byteOfInt (97 + m.x)]
  let out := out ++ [byteOfInt (49 + m.y)]
  let out :=
    if m.type == Facts.mtSlideLeft then out ++ [60]
    else if m.type == Facts.mtSlideRight then out ++ [62]
    else if m.type == Facts.mtSlideUp then out ++ [43]
    else if m.type == Facts.mtSlideDown then out ++ [45]
    else out
  if m.slides != 0#32 ∧ (long ∨ Slides.len m.slides ≠ 1) then
    out ++ elems.map (fun e => UInt8.ofNat (48 + e))
  else out

end PTN
end Tak
