import TakVerif.Impl.MCTS

/-! Mirror of `ai/mcts/policy.go` (`findPlaceWins`, `placeWinMove`, `PlaceWins.Select`, `UniformRandom.Select`)
and of `rollout` in `ai/mcts/mcts.go`, as of /repo 8daad40 (`PlaceWins.Select` tries the capstone when the flat
is refused and falls back to the uniform policy; the pinned code panicked: `placeWinsSelectPinned`).

**Random numbers.**  `math/rand` is a stream `rnd : Nat → Nat` with a cursor `k` (number of draws so far);
`r.Int31n(n)` is modelled by its contract: `n ≤ 0` panics, otherwise the `k`-th draw reduced to `[0, n)`
(`rnd k % n`; the tie feeds the real `rand.Rand` a source whose `Int31n(n)` is exactly that).  Theorems
quantify over every stream.

**Storage** (`u.alloc = p`).  The policies own one scratch `*tak.Position` (`alloc`).  `Select(p)` writes the
successor into `alloc`, returns it, and keeps **`p` itself** as the next scratch: the position handed to
`Select` changes owner.  At the value level (this file) that is invisible: `Select` maps a position to a
position.  The heap-level obligation is stated on buffer identities in `selectBufs` / `rolloutBufs` below
(`C04.rollout_buffers`): a caller must (1) never pass the policy its own scratch buffer, (2) never read or
pass again a position it has handed to `Select`, (3) never hand over a position somebody else still reads —
`rollout` obeys all three because it starts from a `Clone()` and afterwards only passes what the previous
`Select` returned. -/
namespace Tak.MCTS

/-! ### `findPlaceWins` -/

/-- the four accumulators `l, r, b, t` of the loop over the groups -/
structure EdgeAcc where
  l : W
  r : W
  b : W
  t : W
deriving Repr, DecidableEq, Inhabited

/-- the body of `for _, g := range gs { … }` -/
def edgeStep (c : Consts) (a : EdgeAcc) (g : W) : EdgeAcc :=
  let a := if g &&& c.L != 0#64 then { a with l := a.l ||| g } else a
  let a := if g &&& c.R != 0#64 then { a with r := a.r ||| g } else a
  let a := if g &&& c.B != 0#64 then { a with b := a.b ||| g } else a
  if g &&& c.T != 0#64 then { a with t := a.t ||| g } else a

/-- `findPlaceWins(mask, empty, gs, c)`: the empty squares next to (or on) the left edge's road squares and
next to (or on) the right edge's, or the same for top and bottom -/
def findPlaceWins (c : Consts) (mask empty : W) (gs : List W) : W :=
  let a := gs.foldl (edgeStep c) ⟨mask &&& c.L, mask &&& c.R, mask &&& c.B, mask &&& c.T⟩
  let lf := Gen.grow c empty a.l ||| (c.L &&& empty)
  let rf := Gen.grow c empty a.r ||| (c.R &&& empty)
  let bf := Gen.grow c empty a.b ||| (c.B &&& empty)
  let tf := Gen.grow c empty a.t ||| (c.T &&& empty)
  (lf &&& rf) ||| (tf &&& bf)

/-- `bitboard.BitCoords`: panics unless exactly one bit is set (and divides by `c.Size`) -/
def bitCoords (c : Consts) (bits : W) : R (Nat × Nat) :=
  if bits == 0#64 || bits &&& (bits - 1#64) != 0#64 then .error (.panic "BitCoords: non-singular")
  else if c.Size == 0 then .error (.panic "BitCoords: integer divide by zero")
  else
    let n := trailingZeros bits
    .ok (n % c.Size, n / c.Size)

/-- the zero `tak.Move{}` -/
def zeroMove : Move := { x := 0, y := 0, type := 0, slides := 0 }

/-- the word `placeWinMove` computes: `findPlaceWins` on the mover's road squares (flats and capstones), the
empty squares and the mover's analysed groups -/
def placeWinsMask (c : Consts) (p : Pos) : W :=
  let myroad := if p.toMove == .white then p.white &&& ~~~p.standing else p.black &&& ~~~p.standing
  let gs := if p.toMove == .white then p.wgroups else p.bgroups
  let empty := c.Mask &&& ~~~(p.white ||| p.black)
  findPlaceWins c myroad empty gs

/-- `placeWinMove(c, p)`: a flat on the lowest square `findPlaceWins` reports, else the zero move -/
def placeWinMove (c : Consts) (p : Pos) : R Move :=
  let mask := placeWinsMask c p
  if mask != 0#64 then
    let bit := mask ^^^ (mask &&& (mask - 1#64))
    match bitCoords c bit with
    | .error e => .error e
    | .ok (x, y) => .ok { x := wrap8 x, y := wrap8 y, type := Facts.mtPlaceFlat, slides := 0 }
  else .ok zeroMove

/-! ### `UniformRandom.Select` -/

/-- the retry loop
```
for { r := Int31n(len(moves)); m := moves[r]
      if next, e = p.MovePreallocated(m, alloc); e == nil { break }
      moves[0], moves[r] = moves[r], moves[0]; moves = moves[1:] }
```
`Int31n(0)` panics when every candidate has been refused.  Fuel = the number of candidates (each refused try
drops one: `C04.uniformLoop_fuel`). -/
def uniformLoop (basis : Array W) (p : Pos) (rnd : Nat → Nat) : Nat → List Move → Nat → R (Pos × Nat)
  | _, [], _ => .error (.panic "Int31n: invalid argument (no candidate move left)")
  | 0, _ :: _, _ => .error (.hang "uniformLoop: fuel")
  | fuel+1, m0 :: rest, k =>
    let moves := m0 :: rest
    let r := rnd k % moves.length
    let m := moves.getD r m0
    match p.apply basis m with
    | .ok next => .ok (next, k + 1)
    | .error (.illegal _) => uniformLoop basis p rnd fuel ((moves.set r m0).tail) (k + 1)
    | .error e => .error e

/-- `UniformRandom.Select` (value level; the result is written into the scratch buffer, `p` becomes the scratch) -/
def uniformSelect (basis : Array W) (rnd : Nat → Nat) (p : Pos) (k : Nat) : R (Pos × Nat) :=
  uniformLoop basis p rnd p.allMoves.length p.allMoves k

/-! ### `PlaceWins.Select` -/

/-- `PlaceWins.Select` as fixed in 8daad40: the proposed flat; if refused the capstone on the same square; if
that is refused too, the uniform policy.  (`c` is the policy owner's `bitboard.Constants`, built for `cfg.Size`.) -/
def placeWinsSelect (basis : Array W) (c : Consts) (rnd : Nat → Nat) (p : Pos) (k : Nat) : R (Pos × Nat) :=
  match placeWinMove c p with
  | .error e => .error e
  | .ok move =>
    if move.type ≠ 0 then
      match p.apply basis move with
      | .ok out => .ok (out, k)
      | .error (.illegal _) =>
        match p.apply basis { move with type := Facts.mtPlaceCapstone } with
        | .ok out => .ok (out, k)
        | .error (.illegal _) => uniformSelect basis rnd p k
        | .error e => .error e
      | .error e => .error e
    else uniformSelect basis rnd p k

/-- the pinned `PlaceWins.Select` (before 8daad40): `panic("placeWinMove: bad move")` when the flat is refused -/
def placeWinsSelectPinned (basis : Array W) (c : Consts) (rnd : Nat → Nat) (p : Pos) (k : Nat) : R (Pos × Nat) :=
  match placeWinMove c p with
  | .error e => .error e
  | .ok move =>
    if move.type ≠ 0 then
      match p.apply basis move with
      | .ok out => .ok (out, k)
      | .error (.illegal _) => .error (.panic "placeWinMove: bad move")
      | .error e => .error e
    else uniformSelect basis rnd p k

/-- the two built-in policies (`policyMap`: "" and "uniform" ↦ uniform, "place_win") -/
inductive Policy where | uniform | placeWin
deriving Repr, DecidableEq, Inhabited

def Policy.select (pol : Policy) (basis : Array W) (c : Consts) (rnd : Nat → Nat) (p : Pos) (k : Nat) : R (Pos × Nat) :=
  match pol with
  | .uniform => uniformSelect basis rnd p k
  | .placeWin => placeWinsSelect basis c rnd p k

/-- the set of positions one `Select` step may return, over all random streams: every legal successor for
the uniform policy; for `place_win` the successor by the proposed placement when one of its two forms is
accepted (used by the tie when the real `math/rand` stream drives the code) -/
def Policy.mayReturn (pol : Policy) (basis : Array W) (c : Consts) (p : Pos) : List Pos :=
  let all := (legalChildren basis p).map (·.2)
  match pol with
  | .uniform => all
  | .placeWin =>
    match placeWinMove c p with
    | .error _ => []
    | .ok move =>
      if move.type ≠ 0 then
        match p.apply basis move with
        | .ok out => [out]
        | .error _ =>
          match p.apply basis { move with type := Facts.mtPlaceCapstone } with
          | .ok out => [out]
          | .error _ => all
      else all

/-! ### `rollout` -/

/-- the result of a finished game seen from the side to move at the node: `switch c { NoColor: 0; t.position.ToMove(): 1; default: -1 }` -/
def rolloutResult (root winner : Color) : Int :=
  match winner with
  | .none => 0
  | w => if w == root then 1 else -1

/-- the loop `for i := 0; i < MaxRollout; i++ { if over … ; next := policy.Select(p); p = next }` followed by the
evaluation threshold test.  `eval` is `ai.eval` = `MakeEvaluator(size, nil)` (`Tak.evaluateDefault` in the driver).
(The `next == nil → return 0` branch is dead for the two built-in policies, which never return nil.) -/
def rolloutLoop (select : Pos → Nat → R (Pos × Nat)) (eval : Pos → R Int) (threshold : Int) (root : Color) :
    Nat → Pos → Nat → R (Int × Nat)
  | 0, p, k =>
    match eval p with
    | .error e => .error e
    | .ok v => .ok (if v > threshold then 1 else if v < -threshold then -1 else 0, k)
  | n+1, p, k =>
    let (over, c) := p.gameOver
    if over then .ok (rolloutResult root c, k)
    else match select p k with
      | .error e => .error e
      | .ok (next, k') => rolloutLoop select eval threshold root n next k'

/-- `rollout(t)`: starts from `t.position.Clone()` (which re-runs `analyze`) -/
def rollout (select : Pos → Nat → R (Pos × Nat)) (eval : Pos → R Int) (maxRollout : Nat) (threshold : Int)
    (t : Pos) (k : Nat) : R (Int × Nat) :=
  match t.analyze with
  | none => .error (.hang "analyze")
  | some p => rolloutLoop select eval threshold t.toMove maxRollout p k

/-! ### `GetMove` with the modelled rollouts -/

/-- the main loop of `GetMove` (`Tak.MCTS.loop`) with `ai.rollout(node)` **run** instead of read from the oracle:
`roll` is `rollout` for the configured policy and evaluator, a crash of it ends `GetMove`.  The random cursor `k`
is threaded through; the values the rollouts returned are recorded (`vals`, one per iteration, 0 where the loop
skips the rollout of a proven node), so that `Tak.MCTS.loop` can replay the run (`C04.loopR_replay`). -/
def loopR (basis : Array W) (o : Oracle) (roll : Pos → Nat → R (Int × Nat)) :
    Nat → Nat → Arena → Nat → R (Arena × Nat × List Int)
  | 0, _, a, k => .ok (a, k, [])
  | left+1, j, a, k =>
    let node := descend (o.pick j) (a.size + 1) a 0
    let a := populate basis a node
    if provenAt a 0 ≠ 0 then .ok (a, k, []) else
    let r : R (Int × Nat) :=
      if provenAt a node == 0 then
        match a[node]? with
        | some nd => roll nd.pos k
        | none => .ok (0, k)     -- no such node: `descend` only returns indices of the arena
      else .ok (0, k)
    match r with
    | .error e => .error e
    | .ok (val, k') =>
      match loopR basis o roll left (j+1) (update (a.size + 1) a (some node) val) k' with
      | .error e => .error e
      | .ok (a', k'', vals) => .ok (a', k'', val :: vals)

/-- the oracle that replays recorded rollout values, iteration by iteration -/
def Oracle.replay (o : Oracle) (j0 : Nat) (vals : List Int) : Oracle :=
  { o with rollout := fun j _ => vals.getD (j - j0) 0 }

/-- `MonteCarloAI.GetMove` with the rollouts run: the loop with real rollouts (a crash of one is a crash of
`GetMove`), then the final selection of `Tak.MCTS.getMove` on the tree that loop built (`getMove` under the
replaying oracle rebuilds exactly that tree: `C04.loopR_replay`). -/
def getMoveR (basis : Array W) (forceCorners : Bool) (o : Oracle) (roll : Pos → Nat → R (Int × Nat)) (p : Pos)
    (k : Nat) : R Move :=
  if forceCorners ∧ p.move < 2 then cornerMove p o.bits else
  match loopR basis o roll o.iterations 0 #[{ pos := p, move := { x := 0, y := 0, type := 0, slides := 0 } }] k with
  | .error e => .error e
  | .ok (_, _, vals) => getMove basis forceCorners (o.replay 0 vals) p

/-! ### the buffer ping-pong, on buffer identities -/

/-- what `Select` does to storage: the successor lives in the policy's scratch `alloc`, and the buffer of the
argument becomes the scratch.  Returns (buffer of the result, new scratch). -/
def selectBufs (alloc arg : Nat) : Nat × Nat := (alloc, arg)

/-- the buffers `rollout` hands to `Select`, step by step: `cur` is the buffer of `p` (initially the clone),
`alloc` the policy's scratch; the trace lists (argument, scratch) at every call -/
def rolloutBufs : Nat → Nat → Nat → List (Nat × Nat)
  | 0, _, _ => []
  | n+1, cur, alloc =>
    let (out, alloc') := selectBufs alloc cur
    (cur, alloc) :: rolloutBufs n out alloc'

end Tak.MCTS
