import TakVerif.Impl.Move

/-! Model of `playtak/bot/bot.go`: `PlayGame` / `ObserveGame` / `handleMove` as a transition system.

One `St` is the state of one game as seen at a point where the protocol goroutine is blocked in the
`select` of `handleMove`.  The concurrency of the Go code is modelled by events:

* `deliver bits parsed accept` – the next line from `c.Recv()`, already `strings.Split(line, " ")`;
  `parsed` is what `playtak.ParseServer` answers for `bits[1:]` (wire parsing is another model's business),
  `accept` is what `Bot.AcceptUndo()` would answer;
* `close` – `c.Recv()` is closed;
* `grant k` – the thinker goroutine of invocation `k` obtains `g.moveLock` and enters `Bot.GetMove`;
* `aiReturns k m` – `GetMove` of thinker `k` returns `m` (at once, late, or long after it was cancelled);
  the goroutine puts `m` into its one-slot channel, cancels its context and releases the lock.  If the
  protocol goroutine is still selecting on exactly that channel it takes the answer in the same step
  (it is blocked in `select` with nothing else ready, so this is what the Go scheduler does; an answer that
  meets a busy protocol goroutine is indistinguishable from one that arrives just after);
* `timerFires` – the 500 ms `time.After` armed by the last applied server move expires.

Every `handleMove` invocation has its own thinker, channel and context; `cur` is the current one, `old`
are those of finished invocations (index = invocation number).  Each thinker is tagged with the position
it was started on.  `cfg.fixed = true` is the code with `fixes/C07-stale-answer.diff` (after a server move
is applied the loop stops listening to the thinker, `moves = nil`); `false` is the pinned tree.

Ghost state (not in the Go code, used to state the property): `srvPos/srvMoves`, the server's authoritative
history (it appends the moves it announces and the bot's transmitted moves that are legal and on turn, and
pops on `Undo`), and `log`, one record per transmitted move.  Lists are newest first. -/
namespace Tak.Bot

/-- an argument list of `Client.SendCommand` (after the `GameStr` word) -/
inductive Cmd where
  | move (m : Move)
  | requestUndo
deriving Repr, DecidableEq, Inhabited

/-- where a thinker goroutine is: `idle` = its position was already decided, it only waits for
`moveCtx.Done()`; `waiting` = blocked in (or on its way to) `g.moveLock.Lock()`; `running` = inside `GetMove`;
`done` = returned -/
inductive TSt where | idle | waiting | running | done
deriving Repr, DecidableEq, Inhabited

structure Thinker where
  pos : Pos             -- the position it was started on (`p` captured by the goroutine)
  mine : Int            -- clocks captured at the start (nanoseconds)
  theirs : Int
  cancelled : Bool      -- `moveCtx` of its invocation is cancelled
  st : TSt
  buf : Option Move     -- answer sitting in the invocation's `moves` channel (capacity 1)
deriving Repr, DecidableEq, Inhabited

inductive Status where
  | running
  | ended                -- `handleMove` returned true, `PlayGame` returned
  | crashed (e : Err)    -- a panic on the protocol goroutine
deriving Repr, DecidableEq, Inhabited

/-- ghost: the circumstances of one transmitted move -/
structure SentRec where
  move : Move
  recAt : Pos           -- the record's current position `g.p` when it was sent
  srvAt : Option Pos    -- the server's current position at that moment
  tag : Pos             -- the position the answering thinker had been started on
deriving Repr, DecidableEq, Inhabited

structure Conf where
  basis : Array W
  color : Color         -- `g.Color`; `.none` for `ObserveGame`
  gameStr : String      -- `g.GameStr`
  fixed : Bool

structure St where
  p : Pos                       -- `g.p`
  positions : List Pos          -- `g.Positions`, newest first
  moves : List Move             -- `g.Moves`, newest first
  mine : Int                    -- `g.times.mine`
  theirs : Int
  result : String               -- `g.Result`
  listening : Bool              -- `moves != nil` in the current invocation
  timeout : Bool                -- `timeout != nil` in the current invocation
  cur : Thinker
  old : List Thinker
  sent : List Cmd               -- oldest first
  status : Status
  srvPos : List Pos             -- ghost
  srvMoves : List Move          -- ghost
  log : List SentRec            -- ghost, oldest first
deriving Repr, Inhabited

inductive Ev where
  | deliver (bits : List String) (parsed : Option Move) (accept : Bool)
  | close
  | grant (k : Nat)
  | aiReturns (k : Nat) (m : Move)
  | timerFires
deriving Repr, Inhabited

/-! ### Go arithmetic used by the clock lines -/

def wrap64 (v : Int) : Int := (v + 9223372036854775808) % 18446744073709551616 - 9223372036854775808

/-- `strconv.Atoi` with the error dropped: 0 on a syntax error, the clamped value on a range error -/
def atoi (s : String) : Int :=
  let cs := s.toList
  let (neg, ds) : Bool × List Char := match cs with
    | '-' :: r => (true, r)
    | '+' :: r => (false, r)
    | r => (false, r)
  if ds.isEmpty || !ds.all Char.isDigit then 0 else
  let n : Nat := ds.foldl (fun a c => a * 10 + (c.toNat - 48)) 0
  if neg then (if n > 9223372036854775808 then -9223372036854775808 else -(n : Int))
  else (if n > 9223372036854775807 then 9223372036854775807 else (n : Int))

/-- `time.Duration(v) * time.Second` -/
def seconds (v : Int) : Int := wrap64 (wrap64 v * 1000000000)

/-! ### the ghost server -/

def srvCur (s : St) : Option Pos := s.srvPos.head?

/-- the server appends `m` to its history when `m` is legal in its current position -/
def srvPush (cfg : Conf) (s : St) (m : Move) : St :=
  match s.srvPos with
  | [] => s
  | q :: _ =>
    match q.apply cfg.basis m with
    | .ok q' => { s with srvPos := q' :: s.srvPos, srvMoves := m :: s.srvMoves }
    | .error _ => s

/-- a move transmitted by the bot is accepted when the server's game is not over, it is the bot's turn there
and the move is legal there -/
def srvAccept (cfg : Conf) (s : St) (m : Move) : St :=
  match s.srvPos with
  | [] => s
  | q :: _ => if q.gameOver.1 = false ∧ q.toMove = cfg.color then srvPush cfg s m else s

def srvPop (s : St) : St :=
  match s.srvMoves with
  | [] => s
  | _ :: ms => { s with srvMoves := ms, srvPos := s.srvPos.tail }

/-! ### the protocol goroutine -/

/-- a panic on the protocol goroutine: deferred `moveCancel()` and `b.GameOver()` run, the loop is gone -/
def St.crash (s : St) (e : Err) : St :=
  { s with status := .crashed e, cur := { s.cur with cancelled := true } }

/-- the head of `handleMove`: channel, context and thinker goroutine of a new invocation -/
def spawn (cfg : Conf) (s : St) : St :=
  { s with
    cur := { pos := s.p, mine := s.mine, theirs := s.theirs, cancelled := false,
             st := if s.p.gameOver.1 then .idle else .waiting, buf := none }
    listening := decide (s.p.toMove = cfg.color)
    timeout := false }

/-- `return false`: deferred `moveCancel()`, then `PlayGame` calls `handleMove` again -/
def retFalse (cfg : Conf) (s : St) : St :=
  spawn cfg { s with old := s.old ++ [{ s.cur with cancelled := true }] }

/-- `return true` -/
def retTrue (s : St) : St :=
  { s with status := .ended, cur := { s.cur with cancelled := true } }

/-- `case "P", "M":` -/
def onServerMove (cfg : Conf) (s : St) (parsed : Option Move) : St :=
  match parsed with
  | none => s.crash (.panic "ParseServer error")
  | some m =>
    let s := srvPush cfg s m
    match s.p.apply cfg.basis m with
    | .error _ => s.crash (.panic "server move rejected")
    | .ok q =>
      { s with p := q, positions := q :: s.positions, moves := m :: s.moves, timeout := true
               listening := if cfg.fixed then false else s.listening }

/-- `case "Time":` -/
def onTime (cfg : Conf) (s : St) (args : List String) : St :=
  match args with
  | w :: b :: _ =>
    let w := seconds (atoi w)
    let b := seconds (atoi b)
    let s := if cfg.color = .white then { s with mine := w, theirs := b } else { s with theirs := w, mine := b }
    if s.timeout then retFalse cfg s else s
  | _ => s.crash (.panic "bits[3]")

/-- `case "RequestUndo":` -/
def onRequestUndo (s : St) (accept : Bool) : St :=
  if accept then
    { s with sent := s.sent ++ [.requestUndo], cur := { s.cur with cancelled := true }, listening := false }
  else s

/-- `case "Undo":` three slice expressions, each of which can panic -/
def onUndo (cfg : Conf) (s : St) : St :=
  let s := srvPop s
  match s.positions with
  | [] => s.crash (.panic "Positions[:len-1]")
  | _ :: ps =>
    let s := { s with positions := ps }
    match s.moves with
    | [] => s.crash (.panic "Moves[:len-1]")
    | _ :: ms =>
      let s := { s with moves := ms }
      match ps with
      | [] => s.crash (.panic "Positions[len-1]")
      | q :: _ => retFalse cfg { s with p := q }

/-- `switch bits[1]` -/
def onGameLine (cfg : Conf) (s : St) (rest : List String) (parsed : Option Move) (accept : Bool) : St :=
  match rest with
  | [] => s.crash (.panic "bits[1]")
  | b1 :: args =>
    if b1 = "P" ∨ b1 = "M" then onServerMove cfg s parsed
    else if b1 = "Abandoned." then retTrue s
    else if b1 = "Over" then
      match args with
      | [] => s.crash (.panic "bits[2]")
      | r :: _ => retTrue { s with result := r }
    else if b1 = "Time" then onTime cfg s args
    else if b1 = "RequestUndo" then onRequestUndo s accept
    else if b1 = "Undo" then onUndo cfg s
    else s

/-- `switch bits[0]`: lines of this game and (there is no `continue` in that arm) `Tell` lines go on to
`switch bits[1]`; `Shout`, `ShoutRoom` and everything else are skipped -/
def onLine (cfg : Conf) (s : St) (bits : List String) (parsed : Option Move) (accept : Bool) : St :=
  match bits with
  | [] => s
  | b0 :: rest =>
    if b0 = cfg.gameStr then onGameLine cfg s rest parsed accept
    else if b0 = "Tell" then onGameLine cfg s rest parsed accept
    else s

/-- `case move := <-moves:` -/
def onAnswer (cfg : Conf) (s : St) (m : Move) : St :=
  match s.p.apply cfg.basis m with
  | .error (.illegal _) => retFalse cfg s          -- "ai returned bad move"
  | .error e => s.crash e
  | .ok q =>
    let s := { s with log := s.log ++ [{ move := m, recAt := s.p, srvAt := srvCur s, tag := s.cur.pos }] }
    let s := srvAccept cfg s m
    retFalse cfg { s with sent := s.sent ++ [.move m], p := q, positions := q :: s.positions, moves := m :: s.moves }

/-! ### thinkers -/

def lockFree (s : St) : Bool := s.cur.st != .running && s.old.all (fun t => t.st != .running)

def modAt (l : List Thinker) (k : Nat) (f : Thinker → Thinker) : List Thinker :=
  match l, k with
  | [], _ => []
  | t :: ts, 0 => f t :: ts
  | t :: ts, k+1 => t :: modAt ts k f

def Thinker.enter (t : Thinker) : Thinker := if t.st = .waiting then { t with st := .running } else t

def Thinker.leave (t : Thinker) (m : Move) : Thinker :=
  if t.st = .running then { t with st := .done, buf := some m, cancelled := true } else t

def grant (s : St) (k : Nat) : St :=
  if !lockFree s then s
  else if k < s.old.length then { s with old := modAt s.old k Thinker.enter }
  else if k = s.old.length then { s with cur := s.cur.enter }
  else s

def aiReturns (cfg : Conf) (s : St) (k : Nat) (m : Move) : St :=
  if k < s.old.length then { s with old := modAt s.old k (·.leave m) }
  else if k = s.old.length then
    if s.cur.st = .running then
      if s.status = .running ∧ s.listening = true then
        onAnswer cfg { s with cur := { s.cur with st := .done, cancelled := true } } m
      else { s with cur := s.cur.leave m }
    else s
  else s

/-! ### the transition system -/

def step (cfg : Conf) (s : St) : Ev → St
  | .deliver bits parsed accept => if s.status = .running then onLine cfg s bits parsed accept else s
  | .close => if s.status = .running then retTrue s else s
  | .timerFires => if s.status = .running ∧ s.timeout = true then retFalse cfg s else s
  | .grant k => grant s k
  | .aiReturns k m => aiReturns cfg s k m

def run (cfg : Conf) (s : St) (evs : List Ev) : St := evs.foldl (step cfg) s

/-- `PlayGame`/`ObserveGame` up to the first `select`: `tak.New`, `Positions = [p]`, clocks, first invocation -/
def start (cfg : Conf) (size : Nat) (secs : Int) : St :=
  match Pos.new { size := size, pieces := 0, capstones := 0, blackWinsTies := false } with
  | .error e => { (default : St) with status := .crashed e }
  | .ok p0 =>
    let t := seconds secs
    spawn cfg
      { p := p0, positions := [p0], moves := [], mine := t, theirs := t, result := "", listening := false, timeout := false
        cur := default, old := [], sent := [], status := .running, srvPos := [p0], srvMoves := [], log := [] }

/-! ### the schedule of the harness

The gated mock AI of the correspondence harness lets a thinker whose context is already cancelled when it
obtains the lock return at once; the others wait for an `aireturns` op.  `settle` plays exactly these
spontaneous steps, as events of the transition system above. -/

def zeroMove : Move := { x := 0, y := 0, type := 0, slides := 0 }

/-- index of the thinker inside `GetMove` -/
def runningIdx (s : St) : Option Nat :=
  match s.old.findIdx? (fun t => t.st = .running) with
  | some i => some i
  | none => if s.cur.st = .running then some s.old.length else none

def thinkers (s : St) : List Thinker := s.old ++ [s.cur]

def settleEvs (s : St) : List Ev :=
  if !lockFree s then [] else
  let ts := (thinkers s).zipIdx
  let dead := ts.filter (fun (t, _) => t.st = .waiting ∧ t.cancelled = true)
  let live := ts.find? (fun (t, _) => t.st = .waiting ∧ t.cancelled = false)
  dead.flatMap (fun (_, k) => [Ev.grant k, Ev.aiReturns k zeroMove]) ++
    (match live with | some (_, k) => [Ev.grant k] | none => [])

def settle (cfg : Conf) (s : St) : St := run cfg s (settleEvs s)

/-- one op of the harness: an event, then the spontaneous steps -/
def tieStep (cfg : Conf) (s : St) (e : Ev) : St := settle cfg (step cfg s e)

/-- a whole schedule of the harness -/
def tieRun (cfg : Conf) (s : St) (evs : List Ev) : St := evs.foldl (tieStep cfg) s

/-- what the driver keeps between ops: `noGame` = `tak.New` panicked before `Bot.NewGame` was called -/
structure Session where
  cfg : Conf
  st : St
  noGame : Bool := false

end Tak.Bot
