import TakVerif.Impl.Move

/-! Mirror of `cmd/internal/playtak/fpa.go` (the three first-player-advantage rules with their
remembered squares, `adjacent`, `dir`, `isCentered`, `isCenterAdjacent`, `distance`) and of the part of
`friendly.go` that drives them (`Friendly.GetMove` up to the point where the searching player is consulted).

The model is of the tree **with** `fixes/C20-doublestack-black.diff` and `fixes/C20-cairn.diff`:
* `DoubleStack.GetMove` ply 3 never places Black's second stone on the square White must return to;
* `isCenterAdjacent` on even boards uses `&&` (the 4×4 centre block without its corners);
* `Cairn.GetMove` ply 3 takes the first *free* square the rule accepts (diagonal towards the centre first);
* `Cairn.GetMove` ply 4 slides onto a centre square next to Black's stone.

The rules look at a position only through its size, its ply and `Top(x, y) == 0`; that is `View`,
so the same definitions run on the bit-level position and on the list-level state. -/
namespace Tak.FPA

/-- what the rules read off a `*tak.Position` -/
structure View where
  size : Nat
  ply : Int
  /-- `p.Top(x, y) == 0` -/
  empty : Int → Int → Bool

/-- `Top(x, y)` computes `uint(x + y*size)` and tests bit `1 << i`; a shift ≥ 64 (or a negative index
turned into a huge unsigned one) yields 0, i.e. "no piece". -/
def viewOfPos (p : Pos) : View :=
  { size := p.cfg.size
    ply := p.move
    empty := fun x y =>
      let i := x + y * (p.cfg.size : Int)
      if i < 0 ∨ i ≥ 64 then true else !(p.white ||| p.black).getLsbD i.toNat }

inductive Variant where | center | doubleStack | cairn
deriving Repr, DecidableEq, Inhabited

/-- the squares remembered by `DoubleStack` / `Cairn` (only `.x`, `.y` of the stored moves are ever read) -/
structure Rule where
  blackPlaceX : Int := 0
  blackPlaceY : Int := 0
  whitePlaceX : Int := 0
  whitePlaceY : Int := 0
  blackTmpX : Int := 0
  blackTmpY : Int := 0
  whiteTmpX : Int := 0
  whiteTmpY : Int := 0
deriving Repr, DecidableEq, Inhabited

/-- `int8(p.Size() / 2)` -/
def mid (v : View) : Int := ((v.size / 2 : Nat) : Int)

/-- `isCentered(p, m)` (reads `m.X`, `m.Y` only) -/
def isCentered (v : View) (x y : Int) : Bool :=
  if v.size % 2 == 1 then x == mid v && y == mid v
  else (x == mid v || x == mid v - 1) && (y == mid v || y == mid v - 1)

/-- `isCenterAdjacent(p, m)` -/
def isCenterAdjacent (v : View) (x y : Int) : Bool :=
  let m := mid v
  if v.size % 2 == 1 then
    ((x == m - 1 || x == m + 1) && y == m) || ((y == m - 1 || y == m + 1) && x == m)
  else if (x ≥ m - 1 && x ≤ m) && (y ≥ m - 2 && y ≤ m + 1) then true
  else if (x ≥ m - 2 && x ≤ m + 1) && (y ≥ m - 1 && y ≤ m) then true
  else false

/-- `|a|` in `int8` (`-(-128)` stays `-128`) -/
def abs8 (a : Int) : Int := if a < 0 then wrap8 (-a) else a

/-- `distance(x1, y1, x2, y2 int8) int8` -/
def distance (x1 y1 x2 y2 : Int) : Int :=
  wrap8 (abs8 (wrap8 (x1 - x2)) + abs8 (wrap8 (y1 - y2)))

/-- `dir(x, y, ex, ey)`: the slide type pointing from one square to the other; panics when they coincide -/
def dir (x y ex ey : Int) : R Nat :=
  if x < ex then .ok Facts.mtSlideRight
  else if x > ex then .ok Facts.mtSlideLeft
  else if y < ey then .ok Facts.mtSlideUp
  else if y > ey then .ok Facts.mtSlideDown
  else .error (.panic "bad dir() call")

/-- `adjacentAvoiding(p, x, y, ax, ay)`: an empty neighbour of `(x, y)` other than `(ax, ay)` -/
def adjacentAvoiding (v : View) (x y ax ay : Int) : R (Int × Int) :=
  let free := fun (cx cy : Int) => v.empty cx cy && !(cx == ax && cy == ay)
  if x > 0 && free (x - 1) y then .ok (x - 1, y)
  else if y > 0 && free x (y - 1) then .ok (x, y - 1)
  else if x + 1 < v.size && free (x + 1) y then .ok (x + 1, y)
  else if y + 1 < v.size && free x (y + 1) then .ok (x, y + 1)
  else .error (.panic "no empty adjacency")

/-- `adjacent(p, x, y)` -/
def adjacent (v : View) (x y : Int) : R (Int × Int) := adjacentAvoiding v x y (-1) (-1)

def slide1 : BitVec 32 := 1#32      -- `tak.MkSlides(1)`

/-- `m.Dest()`; panics on a type that is neither a placement nor a slide -/
def destOf (m : Move) : R (Int × Int) :=
  match m.dest with
  | some d => .ok d
  | none => .error (.panic "Dest: bad type")

/-! ### `LegalMove` -/

/-- `(*CenterBlack).LegalMove` -/
def centerLegal (v : View) (m : Move) : Bool :=
  if v.ply > 0 then true else isCentered v m.x m.y

/-- `(*DoubleStack).LegalMove`: the updated remembered squares and whether the move is accepted -/
def doubleStackLegal (r : Rule) (v : View) (m : Move) : R (Rule × Bool) :=
  if v.ply = 0 then .ok ({ r with blackPlaceX := m.x, blackPlaceY := m.y }, true)
  else if v.ply = 1 then .ok ({ r with whitePlaceX := m.x, whitePlaceY := m.y }, true)
  else if v.ply = 2 then do
    let (ex, ey) ← destOf m
    .ok ({ r with whiteTmpX := ex, whiteTmpY := ey }, m.isSlide)
  else if v.ply = 3 then
    if m.type ≠ Facts.mtPlaceFlat then .ok (r, false) else
    let dx := abs8 (wrap8 (m.x - r.blackPlaceX))
    let dy := abs8 (wrap8 (m.y - r.blackPlaceY))
    .ok ({ r with blackTmpX := m.x, blackTmpY := m.y }, (dx == 1 && dy == 0) || (dx == 0 && dy == 1))
  else if v.ply = 4 then
    if !m.isSlide then .ok (r, false) else do
    let (ex, ey) ← destOf m
    .ok (r, ex == r.whitePlaceX && ey == r.whitePlaceY)
  else if v.ply = 5 then
    if !m.isSlide then .ok (r, false) else do
    let (ex, ey) ← destOf m
    .ok (r, ex == r.blackPlaceX && ey == r.blackPlaceY)
  else .ok (r, true)

/-- `(*Cairn).LegalMove` -/
def cairnLegal (r : Rule) (v : View) (m : Move) : R (Rule × Bool) :=
  if v.ply = 0 ∨ v.ply = 1 then .ok (r, true)
  else if v.ply = 2 then
    if m.type ≠ Facts.mtPlaceFlat then .ok (r, false) else
    .ok ({ r with whitePlaceX := m.x, whitePlaceY := m.y }, isCenterAdjacent v m.x m.y)
  else if v.ply = 3 then
    if m.type ≠ Facts.mtPlaceFlat then .ok (r, false) else
    .ok ({ r with blackPlaceX := m.x, blackPlaceY := m.y },
         isCenterAdjacent v m.x m.y && distance m.x m.y r.whitePlaceX r.whitePlaceY == 2)
  else if v.ply = 4 then
    if !m.isSlide then .ok (r, false) else do
    let (dx, dy) ← destOf m
    if !isCentered v dx dy then .ok (r, false) else
    .ok ({ r with whitePlaceX := dx, whitePlaceY := dy }, distance dx dy r.blackPlaceX r.blackPlaceY == 1)
  else if v.ply = 5 then
    if !m.isSlide then .ok (r, false) else do
    let (dx, dy) ← destOf m
    .ok (r, !(m.x ≠ r.blackPlaceX || m.y ≠ r.blackPlaceY || dx ≠ r.whitePlaceX || dy ≠ r.whitePlaceY))
  else .ok (r, true)

/-- `FPARule.LegalMove` -/
def legalMove (var : Variant) (r : Rule) (v : View) (m : Move) : R (Rule × Bool) :=
  match var with
  | .center => .ok (r, centerLegal v m)
  | .doubleStack => doubleStackLegal r v m
  | .cairn => cairnLegal r v m

/-! ### `GetMove` -/

def place (x y : Int) : Move := { x := x, y := y, type := Facts.mtPlaceFlat, slides := 0 }

/-- the candidate offsets of `Cairn.GetMove` ply 3, the preferred diagonal first -/
def cairnOffsets (d0 : Int × Int) : List (Int × Int) :=
  [d0, (1, 1), (1, -1), (-1, 1), (-1, -1), (2, 0), (-2, 0), (0, 2), (0, -2)]

def cairnBlackSquare (v : View) (wx wy : Int) : List (Int × Int) → R Move
  | [] => .error (.panic "no square for black's cairn stone")
  | (ox, oy) :: rest =>
    let x := wrap8 (wx + ox)
    let y := wrap8 (wy + oy)
    if x < 0 ∨ y < 0 ∨ x ≥ v.size ∨ y ≥ v.size then cairnBlackSquare v wx wy rest
    else if v.empty x y && isCenterAdjacent v x y then .ok (place x y)
    else cairnBlackSquare v wx wy rest

def cairnWhiteSlide (v : View) (r : Rule) : List Nat → R Move
  | [] => .error (.panic "no center square between the cairn stones")
  | ty :: rest =>
    let m : Move := { x := r.whitePlaceX, y := r.whitePlaceY, type := ty, slides := slide1 }
    match m.dest with
    | none => .error (.panic "Dest: bad type")
    | some (dx, dy) =>
      if isCentered v dx dy && distance dx dy r.blackPlaceX r.blackPlaceY == 1 then .ok m
      else cairnWhiteSlide v r rest

/-- `FPARule.GetMove`: `none` = the rule has no scripted move here (`ok == false`) -/
def getMove (var : Variant) (r : Rule) (v : View) : R (Option Move) :=
  match var with
  | .center =>
    if v.ply > 0 then .ok none else .ok (some (place (mid v) (mid v)))
  | .doubleStack =>
    if v.ply = 2 then do
      let (ex, ey) ← adjacent v r.whitePlaceX r.whitePlaceY
      let ty ← dir r.whitePlaceX r.whitePlaceY ex ey
      .ok (some { x := r.whitePlaceX, y := r.whitePlaceY, type := ty, slides := slide1 })
    else if v.ply = 3 then do
      let (ex, ey) ← adjacentAvoiding v r.blackPlaceX r.blackPlaceY r.whitePlaceX r.whitePlaceY
      .ok (some (place (wrap8 ex) (wrap8 ey)))
    else if v.ply = 4 then do
      let ty ← dir r.whiteTmpX r.whiteTmpY r.whitePlaceX r.whitePlaceY
      .ok (some { x := wrap8 r.whiteTmpX, y := wrap8 r.whiteTmpY, type := ty, slides := slide1 })
    else if v.ply = 5 then do
      let ty ← dir r.blackTmpX r.blackTmpY r.blackPlaceX r.blackPlaceY
      .ok (some { x := wrap8 r.blackTmpX, y := wrap8 r.blackTmpY, type := ty, slides := slide1 })
    else .ok none
  | .cairn =>
    if v.ply = 2 then do
      let (x, y) ← adjacent v (mid v) (mid v)
      .ok (some (place (wrap8 x) (wrap8 y)))
    else if v.ply = 3 then
      let wx := r.whitePlaceX
      let wy := r.whitePlaceY
      let x := if wx < mid v then wrap8 (wx + 1) else wrap8 (wx - 1)
      let y := if wy < mid v then wrap8 (wy + 1) else wrap8 (wy - 1)
      match cairnBlackSquare v wx wy (cairnOffsets (wrap8 (x - wx), wrap8 (y - wy))) with
      | .ok m => .ok (some m)
      | .error e => .error e
    else if v.ply = 4 then
      match cairnWhiteSlide v r [Facts.mtSlideLeft, Facts.mtSlideRight, Facts.mtSlideUp, Facts.mtSlideDown] with
      | .ok m => .ok (some m)
      | .error e => .error e
    else if v.ply = 5 then do
      let ty ← dir r.blackPlaceX r.blackPlaceY r.whitePlaceX r.whitePlaceY
      .ok (some { x := r.blackPlaceX, y := r.blackPlaceY, type := ty, slides := slide1 })
    else .ok none

/-! ### `Friendly.GetMove` -/

/-- what `Friendly.GetMove` does with the rule before any searching -/
inductive Reply where
  | resign                 -- the rule rejected the previous move
  | notMyTurn              -- `return tak.Move{}`
  | scripted (m : Move)    -- the rule's own move
  | search                 -- the searching player is consulted
deriving Repr, DecidableEq, Inhabited

/-- `Friendly.GetMove(ctx, p, …)` with `f.fpa != nil`, up to the point where `f.ai` is asked.
`prev` = `(f.g.Positions[len-2], f.g.Moves[len-1])` when they exist. -/
def friendlyGetMove (var : Variant) (color : Color) (r : Rule) (view : View) (toMove : Color)
    (prev : Option (View × Move)) : R (Rule × Reply) := do
  let (r, ok) ← (if view.ply > 0 then
      match prev with
      | none => .error (.panic "Friendly.GetMove: g.Positions[len-2]")
      | some (pv, pm) => legalMove var r pv pm
    else pure (r, true) : R (Rule × Bool))
  if !ok then .ok (r, .resign) else
  if toMove ≠ color then .ok (r, .notMyTurn) else
  match ← getMove var r view with
  | some m => .ok (r, .scripted m)
  | none => .ok (r, .search)

end Tak.FPA
