import TakVerif.Impl.TEI
import TakVerif.Impl.TPS
import TakVerif.Impl.PTNMove

/-! Mirror of the **client** side of TEI: `tei/time.go` (`formatTime`), `tei/client.go`
(`sendCommand`, `NewGame`, `Player.TEIGetMove`, the `tei`/`teiok` handshake of `NewClient`) and the clock
bookkeeping of `cmd/internal/selfplay/simulate.go` (`worker`, the `if tc != nil { … }` block).

The model is of the tree **with** the repair proposed in `fixes/C17-client-movetime.diff`:
* `TEIGetMove` refuses a per-move time (context deadline) of less than a millisecond with the same
  `"Timeout too short"` error it returns for a sub-millisecond clock, instead of sending `movetime 0`
  (which the engine reads as "no per-move limit").  `goCmdPinned` keeps the pinned behaviour for the
  counterexample.

The client talks to *an engine*: anything that consumes one command line at a time and answers with
complete lines (`Peer`).  The model is synchronous: the engine has processed a line completely before the
client does its next step (what the in-process harness enforces; with two operating-system processes a write
to an engine that is just exiting may still succeed — the following read then fails, with the same outcome
class).  `serverPeer` plugs in the model of `tei/server.go` (`Tak.TEI.step`), `realEnv` the byte-level
models of `ptn.ParseTPS`, `ptn.ParseMove`, `ptn.FormatMove`.

Outcomes use `Tak.R`: `.illegal _` = an `error` return, `.panic _` = a Go panic, `.hang _` = the call never
returns (the client waits for a line the engine will not write). -/
namespace Tak.TEIClient
open Go Tak.TEI

/-! ### Go strings ↔ the `String`s of the server model (ASCII) -/

def chars (b : Bytes) : List Char := b.map (fun x => Char.ofNat x.toNat)
def str (b : Bytes) : String := String.ofList (chars b)

/-! ### `tei/time.go` -/

/-- `formatTime`: `ms := d / time.Millisecond` (truncating `int64` division), negative → 0,
`strconv.FormatUint(uint64(ms), 10)` -/
def formatTime (d : Int) : Bytes :=
  let ms := Int.tdiv d millisecond
  let ms := if ms < 0 then 0 else ms
  itoaNat ms.toNat

/-- `tei.TimeControl` (nanoseconds) -/
structure TimeControl where
  white : Int := 0
  black : Int := 0
  winc : Int := 0
  binc : Int := 0
deriving Repr, DecidableEq, Inhabited

/-! ### the `go` line -/

/-- the loop `for _, t := range times` of `TEIGetMove` -/
def timesLoop : List (Bytes × Int) → List Bytes → R (List Bytes)
  | [], acc => .ok acc
  | (key, dur) :: rest, acc =>
    if dur ≠ 0 then
      if dur < millisecond then .error (.illegal "Timeout too short")
      else timesLoop rest (acc ++ [key, formatTime dur])
    else timesLoop rest acc

def tcTimes (tc : TimeControl) : List (Bytes × Int) :=
  [(lit "wtime", tc.white), (lit "btime", tc.black), (lit "winc", tc.winc), (lit "binc", tc.binc)]

/-- the words of the `go` command for a remaining per-move time `rem` (`deadline.Sub(time.Now())` when the
context has a deadline) and an optional time control -/
def goCmd (rem : Option Int) (tc : Option TimeControl) : R (List Bytes) :=
  let start : R (List Bytes) := match rem with
    | none => .ok [lit "go"]
    | some r =>
      -- [fix C17-client-movetime] was: always `movetime formatTime(r)`, i.e. `movetime 0` below 1 ms
      if r < millisecond then .error (.illegal "Timeout too short")
      else .ok [lit "go", lit "movetime", formatTime r]
  match start with
  | .error e => .error e
  | .ok cmd =>
    match tc with
    | none => .ok cmd
    | some tc => timesLoop (tcTimes tc) cmd

/-- the pinned tree: the per-move time is formatted whatever it is -/
def goCmdPinned (rem : Option Int) (tc : Option TimeControl) : R (List Bytes) :=
  let cmd := match rem with
    | none => [lit "go"]
    | some r => [lit "go", lit "movetime", formatTime r]
  match tc with
  | none => .ok cmd
  | some tc => timesLoop (tcTimes tc) cmd

/-- `strings.Join(goCmd, " ")` -/
def goLine (words : List Bytes) : String := str (join 32 words)

/-! ### the connection -/

/-- the engine on the other end of the pipes: it consumes one command line and returns its new state,
the complete lines it wrote, and whether it is still running (`false`: `Run` returned or panicked, the
pipes are closed) -/
structure Peer (σ : Type) where
  feed : σ → String → σ × List String × Bool

/-- `tei.Client` together with what sits behind its pipes -/
structure Conn (σ : Type) where
  eng : σ
  alive : Bool := true
  /-- lines written by the engine and not yet read by the client -/
  unread : List String := []
  /-- `Client.gameid` -/
  gameid : Int := 0
  /-- every line the client wrote (or tried to write), in order -/
  wrote : List String := []

/-- the `for` loop of `sendCommand` over the lines available: `none` = ran out of lines -/
def readUntil (expect : String) : List String → Option (R (List String)) × List String
  | [] => (none, [])
  | l :: ls =>
    match fields l.toList with
    | [] => (some (.error (.panic "sendCommand: words[0] of an empty line")), ls)
    | w0 :: ws => if w0 = expect then (some (.ok (w0 :: ws)), ls) else readUntil expect ls

/-- `Client.sendCommand(cmd, expect)` -/
def sendCommand {σ} (P : Peer σ) (c : Conn σ) (cmd expect : String) : Conn σ × R (List String) :=
  let c := { c with wrote := c.wrote ++ [cmd] }
  if !c.alive then (c, .error (.illegal "write on a closed pipe")) else
  let (eng, out, alive) := P.feed c.eng cmd
  let c := { c with eng := eng, alive := alive, unread := c.unread ++ out }
  if expect = "" then (c, .ok []) else
  match readUntil expect c.unread with
  | (some r, rest) => ({ c with unread := rest }, r)
  | (none, _) =>
    ({ c with unread := [] },
     if c.alive then .error (.hang "sendCommand: the engine writes nothing more and waits for input")
     else .error (.illegal "EOF"))

/-- the handshake of `NewClient`: `sendCommand("tei", "teiok")` -/
def handshake {σ} (P : Peer σ) (c : Conn σ) : Conn σ × R Unit :=
  match sendCommand P c "tei" "teiok" with
  | (c, .ok _) => (c, .ok ())
  | (c, .error e) => (c, .error e)

/-- `tei.Player` -/
structure Player where
  gameid : Int
deriving Repr, DecidableEq, Inhabited

/-- `Client.NewGame(size)`: the game counter is bumped before the command is sent -/
def newGame {σ} (P : Peer σ) (c : Conn σ) (size : Int) : Conn σ × R Player :=
  let c := { c with gameid := c.gameid + 1 }
  match sendCommand P c ("teinewgame " ++ str (itoa size)) "" with
  | (c, .error e) => (c, .error e)
  | (c, .ok _) => (c, .ok { gameid := c.gameid })

/-- what `TEIGetMove` does with the words of the `bestmove` line -/
def readBestmove (bm : List String) : R Move :=
  match bm with
  | [_, mv] =>
    match PTN.parseMove (lit mv) with
    | .ok m => .ok m
    | .error (.illegal _) => .error (.illegal "tei: unparseable move")
    | .error e => .error e
  | _ => .error (.illegal "bad bestmove")

/-- `Player.TEIGetMove(ctx, pos, tc)`; `rem` = `deadline.Sub(time.Now())` if `ctx` has a deadline.
`goWords` is `goCmd` (the repaired code) or `goCmdPinned`. -/
def teiGetMoveWith {σ} (goWords : Option Int → Option TimeControl → R (List Bytes))
    (P : Peer σ) (c : Conn σ) (pl : Player) (pos : Pos) (rem : Option Int) (tc : Option TimeControl) :
    Conn σ × R Move :=
  if pl.gameid ≠ c.gameid then (c, .error (.panic "bad gameid: calling GetMove on a dead player")) else
  match TPS.formatTPS pos with
  | .error e => (c, .error e)
  | .ok tps =>
  match sendCommand P c ("position tps " ++ str tps) "" with
  | (c, .error e) => (c, .error e)                       -- "send position: …"
  | (c, .ok _) =>
  match goWords rem tc with
  | .error e => (c, .error e)                            -- "Timeout too short" (the position has been sent)
  | .ok words =>
  match sendCommand P c (goLine words) "bestmove" with
  | (c, .error e) => (c, .error e)                       -- "tei: server error: …"
  | (c, .ok bm) => (c, readBestmove bm)

def teiGetMove {σ} := @teiGetMoveWith σ goCmd

/-! ### the engine of `tei/server.go` as the peer -/

/-- the byte-level models of the collaborators, for the `String` interface of the server model -/
def realEnv (basis : Array W) (search : Nat → Pos → Option Int → SearchRes) : Env :=
  { basis := basis
    parseMove := fun s => PTN.parseMove (lit s)
    parseTPS := fun s => TPS.parseTPS basis (lit s)
    fmtMove := fun m => str (PTN.formatMove m false)
    search := search }

/-- the engine process: `Engine` state, number of command lines consumed, how `Run` ended (if it did),
the deadline installed by the last command -/
structure EngSt where
  st : Engine := {}
  k : Nat := 0
  exit : Option Exit := none
  deadline : Option Int := none
deriving Inhabited

/-- `Engine.Run` reads the line, `strings.TrimSpace`, `strings.Fields`, dispatches (`Tak.TEI.step`) -/
def serverPeer (env : Env) : Peer EngSt :=
  { feed := fun e line =>
      match step env e.k e.st (fields line.toList) with
      | .cont r => ({ st := r.st, k := e.k + 1, exit := none, deadline := r.deadline }, r.out, true)
      | .stop x r => ({ st := r.st, k := e.k + 1, exit := some x, deadline := r.deadline }, r.out, false) }

/-! ### `selfplay.worker`: the clock after a move -/

/-- `*tm = *tm - duration; if *tm <= time.Millisecond { flagged } ; *tm += inc`:
`none` = the mover lost on time, `some tm'` = the mover's clock when it is next asked -/
def clockStep (tm inc dur : Int) : Option Int :=
  if tm - dur ≤ millisecond then none else some (tm - dur + inc)

/-- the clocks over a game: `durs` = the time each successive `TEIGetMove` took, White moving first when
`whiteToMove`.  Returns the clocks at every call (the `TimeControl` handed to `TEIGetMove`), up to and
including the call after which a side is flagged (or the list ends). -/
def clockTrace (inc : Int) : Bool → Int → Int → List Int → List TimeControl
  | _, _, _, [] => []
  | whiteToMove, w, b, dur :: rest =>
    let tc : TimeControl := { white := w, black := b, winc := inc, binc := inc }
    if whiteToMove then
      match clockStep w inc dur with
      | none => [tc]
      | some w' => tc :: clockTrace inc false w' b rest
    else
      match clockStep b inc dur with
      | none => [tc]
      | some b' => tc :: clockTrace inc true w b' rest

end Tak.TEIClient
