import TakVerif.Impl.PN
import TakVerif.Impl.Evaluate
import Std.Data.TreeMap

/-! Mirror of `prove/dfpn.go` (depth-first proof-number search with a hash table).  `DFPNSolver.solve`
trusts `ai.CountThreats` (model: `Tak.countThreats`, `Impl/Evaluate.lean`; its soundness is C19) as a
proof of an immediate win.

Generic over the game like `Impl/PN.lean`, plus `hash : S → UInt64` (`Position.Hash`), the
immediate-win oracle `threats : S → Bool × Bool` (white, black have a winning move according to
`CountThreats`) and `scale : UInt32 → UInt32` (`uint32(float64(δ₂)·(1+ε))`, a `Float` computation in
the driver, arbitrary in the proofs).

The table `[]entry` is a map from slot index to entry (absent = the zero entry; a `Std.TreeMap`, which
the kernel can evaluate, so that whole runs on toy games can be `decide`d in `Props/C06_dfpn.lean`).  The position pool
(`alloc`/`release`) only recycles storage and is not modelled.  The recursion of `mid` carries fuel.

`St.ghostRep` is a ghost flag (no branch reads it): `checkRepetition` has fired at some time in the life
of the solver.  `Props/C06_dfpn.lean`: `disproven` is proved sound only while it is down.

The model is of the tree *with* `fixes/C06-dfpn-attacker.diff` (`Prove` reports from the attacker's
point of view when the attacker is not the side to move) and `fixes/C06-dfpn-finished-root.diff`
(`Prove` answers for a finished game instead of searching below it). -/
namespace Tak.DFPN
open Tak.PN (Game Eval)

def infinity : UInt32 := UInt32.ofNat Facts.dfpnInfinity

/-- `proofNumbers` -/
structure PNs where
  phi : UInt32
  delta : UInt32
deriving Repr, Inhabited, DecidableEq

/-- `exceeded` -/
def PNs.exceeded (pn other : PNs) : Bool := pn.phi >= other.phi || pn.delta >= other.delta

/-- `entry` -/
structure Entry (M : Type) where
  bounds : PNs
  hash : UInt64
  work : UInt64
  pv : Option M      -- `none` = the zero `tak.Move`
deriving Repr, Inhabited

/-- `dfpnChild` -/
structure Child (S M : Type) where
  data : Entry M
  move : M
  g : S

/-- `DFPNStats` -/
structure Stats where
  work : UInt64 := 0
  repetition : UInt64 := 0
  terminal : UInt64 := 0
  solved : UInt64 := 0
  hits : UInt64 := 0
  miss : UInt64 := 0
deriving Repr, Inhabited, DecidableEq

/-- the mutable part of `DFPNSolver` -/
structure St (M : Type) where
  table : Std.TreeMap Nat (Entry M)
  tableLen : Nat
  stats : Stats
  killers : Array (Option M)
  /-- ghost (not in the Go code, read by no branch): `checkRepetition` has fired at some time in the life
  of this solver, so the table may hold a bound that rests on a repetition on some earlier path -/
  ghostRep : Bool := false

def zeroEntry {M : Type} : Entry M := { bounds := ⟨0, 0⟩, hash := 0, work := 0, pv := none }

/-- `t.entries[i]` -/
def St.slot {M} (st : St M) (i : Nat) : Entry M := st.table.getD i zeroEntry

/-- `dfpnTable.lookup`; `tableLen = 0` is a division by zero in Go -/
def lookup {M} (st : St M) (h : UInt64) : Except Err (Option (Entry M)) :=
  if st.tableLen == 0 then .error (.panic "lookup: integer divide by zero") else
  let e := st.slot (h.toNat % st.tableLen)
  .ok (if e.hash == h then some e else none)

/-- `dfpnTable.store` -/
def store {M} (st : St M) (e : Entry M) : Except Err (St M) :=
  if st.tableLen == 0 then .error (.panic "store: integer divide by zero") else
  let i := e.hash.toNat % st.tableLen
  if (st.slot i).work <= e.work then .ok { st with table := st.table.insert i e } else .ok st

/-- `computePNs` -/
def computePNs {S M} (children : List (Child S M)) : PNs :=
  children.foldl (fun out ch =>
    let d := out.delta + ch.data.bounds.phi
    let d := if d > infinity then infinity else d
    { phi := if ch.data.bounds.delta < out.phi then ch.data.bounds.delta else out.phi, delta := d })
    { phi := infinity, delta := 0 }

def minU (l r : UInt32) : UInt32 := if l < r then l else r
def maxU (l r : UInt32) : UInt32 := if l > r then l else r

/-- the scan of `selectChild`: index of the first child with the least δ, that δ and the second-least -/
def selectScan {S M} : List (Child S M) → Nat → Option Nat → UInt32 → UInt32 → Option Nat × UInt32 × UInt32
  | [], _, best, d1, d2 => (best, d1, d2)
  | ch :: cs, i, best, d1, d2 =>
    if ch.data.bounds.delta < d1 then selectScan cs (i+1) (some i) ch.data.bounds.delta d1
    else if ch.data.bounds.delta < d2 then selectScan cs (i+1) best d1 ch.data.bounds.delta
    else selectScan cs (i+1) best d1 d2

/-- `selectChild`; `best = -1` would index out of range -/
def selectChild {S M} (scale : UInt32 → UInt32) (children : Array (Child S M)) (bounds pns : PNs) :
    Except Err (Nat × PNs) :=
  match selectScan children.toList 0 none infinity infinity with
  | (none, _, _) => .error (.panic "selectChild: index out of range")
  | (some best, _, delta2) =>
    match children[best]? with
    | none => .error (.panic "selectChild: index out of range")
    | some ch =>
      let phi1 := ch.data.bounds.phi
      .ok (best, { phi := bounds.delta + phi1 - pns.delta,
                   delta := minU bounds.phi (minU (maxU (delta2 + 1) (scale delta2)) infinity) })

/-- `dfpnFrame`, with the hash of the position kept beside it -/
structure Frame (S M : Type) where
  g : S
  h : UInt64
  m : M

section
variable {S M : Type} [DecidableEq M] (G : Game S M) (hash : S → UInt64) (threats : S → Bool × Bool)
  (scale : UInt32 → UInt32) (attacker : Color)

/-- `checkRepetition`: the stack is given top first; `d.stack[0]` (the bottom frame) is never compared -/
def checkRepetition (stack : List (Frame S M)) : Bool :=
  match stack with
  | [] => false
  | top :: _ => (stack.dropLast.filter (fun f => f.h == top.h)).length ≥ 3

/-- `terminalBounds` -/
def terminalBounds (g : S) (result : Color) : PNs :=
  let result := if result == .none then attacker.flip else result
  if result == G.toMove g then { phi := 0, delta := infinity } else { phi := infinity, delta := 0 }

/-- `solve` -/
def solve (p : S) : Option Color :=
  let (w, b) := threats p
  if w && G.toMove p == .white then some .white
  else if b && G.toMove p == .black then some .black
  else none

/-- the loop of `mid` that builds `children` -/
def genChildren (killer : Option M) (g : S) :
    List M → St M → Array (Child S M) → Except Err (St M × Array (Child S M))
  | [], st, children => .ok (st, children)
  | m :: ms, st, children =>
    match G.apply g m with
    | none => genChildren killer g ms st children
    | some p =>
      let h := hash p
      let r : Except Err (St M × Entry M) :=
        match G.over p with
        | some result =>
          .ok ({ st with stats := { st.stats with terminal := st.stats.terminal + 1 } },
               { bounds := terminalBounds G attacker p result, hash := h, work := 0, pv := none })
        | none =>
          match solve G threats p with
          | some result =>
            .ok ({ st with stats := { st.stats with solved := st.stats.solved + 1 } },
                 { bounds := terminalBounds G attacker p result, hash := h, work := 0, pv := none })
          | none =>
            match lookup st h with
            | .error e => .error e
            | .ok (some b) => .ok ({ st with stats := { st.stats with hits := st.stats.hits + 1 } }, b)
            | .ok none =>
              .ok ({ st with stats := { st.stats with miss := st.stats.miss + 1 } },
                   { bounds := { phi := 1, delta := UInt32.ofNat (G.moves p).length }, hash := h, work := 0, pv := none })
      match r with
      | .error e => .error e
      | .ok (st, childEntry) =>
        let children := children.push { data := childEntry, move := m, g := p }
        let children := if some m == killer then children.swapIfInBounds 0 (children.size - 1) else children
        if childEntry.bounds.delta == 0 then .ok (st, children) else genChildren killer g ms st children

mutual
/-- `mid(g, bounds, current)`; `stack` is `d.stack`, top first; returns the entry and the work done -/
def mid : Nat → St M → List (Frame S M) → S → PNs → Entry M → Except Err (St M × Entry M × UInt64)
  | 0, _, _, _, _, _ => .error (.hang "mid")
  | fuel+1, st, stack, g, bounds, current =>
    if current.bounds.exceeded bounds then .ok (st, current, 0) else
    if checkRepetition stack then
      .ok ({ st with stats := { st.stats with repetition := st.stats.repetition + 1 }, ghostRep := true },
           { current with bounds := terminalBounds G attacker g .none }, 0)
    else
      let depth := stack.length
      let killer : Option M := (st.killers[depth]?).join
      match genChildren G hash threats attacker killer g (G.moves g) st #[] with
      | .error e => .error e
      | .ok (st, children) =>
        match midLoop fuel st stack bounds current children 1 with
        | .error e => .error e
        | .ok (st, current, localWork) =>
          let st := if current.bounds.phi == 0 then
              let ks := st.killers ++ Array.replicate (depth + 1 - st.killers.size) none
              { st with killers := ks.setIfInBounds depth current.pv }
            else st
          match store st current with
          | .error e => .error e
          | .ok st => .ok (st, current, localWork)

/-- the `for { … }` loop of `mid` -/
def midLoop : Nat → St M → List (Frame S M) → PNs → Entry M → Array (Child S M) → UInt64 →
    Except Err (St M × Entry M × UInt64)
  | 0, _, _, _, _, _, _ => .error (.hang "mid loop")
  | fuel+1, st, stack, bounds, current, children, localWork =>
    let current := { current with bounds := computePNs children.toList }
    if current.bounds.exceeded bounds then .ok (st, current, localWork) else
    match selectChild scale children bounds current.bounds with
    | .error e => .error e
    | .ok (best, childBounds) =>
      match children[best]? with
      | none => .error (.panic "index out of range")
      | some ch =>
        let current := { current with pv := some ch.move }
        match mid fuel st ({ g := ch.g, h := ch.data.hash, m := ch.move } :: stack) ch.g childBounds ch.data with
        | .error e => .error e
        | .ok (st, newEntry, work) =>
          let children := children.setIfInBounds best { ch with data := newEntry }
          midLoop fuel st stack bounds { current with work := current.work + work } children (localWork + work)
end

/-- `ProofResult` and `DFPNStats` of `DFPNSolver.Prove` -/
structure Result (M : Type) where
  result : Eval
  move : Option M
  proof : UInt32
  disproof : UInt32
deriving Repr, Inhabited

end

section
variable {S M : Type} [DecidableEq M] (G : Game S M) (hash : S → UInt64) (threats : S → Bool × Bool)
  (scale : UInt32 → UInt32)

/-- a `DFPNSolver` between two calls of `Prove`: the configured attacker (`Color.none` until the first
call fixes it to that root's side to move) and what the solver keeps: table and killer moves -/
structure Solver (M : Type) where
  attacker : Color
  st : St M

/-- `NewDFPN(&DFPNConfig{Attacker: att, TableMem: entries·sizeof(entry)})` -/
def newSolver (att : Color) (entries : Nat) : Solver M :=
  { attacker := att, st := { table := {}, tableLen := entries, stats := {}, killers := #[] } }

/-- `d.Prove(g)`: also returns the solver as the call leaves it -/
def proveWith (fuel : Nat) (d : Solver M) (g : S) : Except Err (Result M × Stats × Solver M) :=
  let attacker := if d.attacker == .none then G.toMove g else d.attacker
  let st : St M := { d.st with stats := {} }
  let root : Entry M := { hash := hash g, work := 0, bounds := { phi := 1, delta := 1 }, pv := none }
  -- (fix) `mid` never looks at the end of the game for the position it is called on
  let r : Except Err (St M × Entry M × UInt64) :=
    match G.over g with
    | some result => .ok (st, { root with bounds := terminalBounds G attacker g result }, 0)
    | none => mid G hash threats scale attacker fuel st [] g { phi := infinity / 2, delta := infinity / 2 } root
  match r with
  | .error e => .error e
  | .ok (st, entry, work) =>
    -- (fix) the numbers are relative to the side to move; report for the attacker
    let (proof, disproof) :=
      if attacker != G.toMove g then (entry.bounds.delta, entry.bounds.phi) else (entry.bounds.phi, entry.bounds.delta)
    let result : Eval := if proof == 0 then .proven else if disproof == 0 then .disproven else .unknown
    .ok ({ result := result, move := entry.pv, proof := proof, disproof := disproof },
         { st.stats with work := work }, { attacker := attacker, st := st })

/-- `NewDFPN(cfg).Prove(g)` on a fresh solver with `entries` table slots; `att = Color.none` means
"the side to move" -/
def prove (fuel : Nat) (att : Color) (entries : Nat) (g : S) : Except Err (Result M × Stats) :=
  match proveWith G hash threats scale fuel (newSolver att entries) g with
  | .error e => .error e
  | .ok (r, s, _) => .ok (r, s)
end

/-- what `solve` reads: white has a threat, black has a threat -/
def takThreats (p : Pos) : Bool × Bool :=
  let t := Tak.countThreats p.c p      -- `ai.CountThreats(&d.c, p)` with `d.c = bitboard.Precompute(p.Size())`
  (t.wp + t.wt > 0, t.bp + t.bt > 0)

/-- `Position.Hash()` as a machine word -/
def takHash (p : Pos) : UInt64 := UInt64.ofNat p.hashOf.toNat

/-- `NewDFPN(&DFPNConfig{Attacker, TableMem = entries·sizeof(entry)}).Prove(pos)` -/
def takProve (basis : Array W) (scale : UInt32 → UInt32) (fuel : Nat) (att : Color) (entries : Nat) (pos : Pos) :
    Except Err (Result Move × Stats) :=
  prove (Tak.PN.takGame basis) takHash takThreats scale fuel att entries pos

/-- `d.Prove(pos)` on a solver that may have been used before (table, killers and attacker are kept) -/
def takProveWith (basis : Array W) (scale : UInt32 → UInt32) (fuel : Nat) (d : Solver Move) (pos : Pos) :
    Except Err (Result Move × Stats × Solver Move) :=
  proveWith (Tak.PN.takGame basis) takHash takThreats scale fuel d pos

end Tak.DFPN
