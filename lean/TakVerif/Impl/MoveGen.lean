import TakVerif.Generated.FactsAI
import TakVerif.Impl.Move

/-! Mirror of `ai/moves.go` (`moveGenerator.Next`) together with the engine state of
`ai/minimax.go` that the generator reads (table entry copy, PV hint, response map, `stack[ply-1].m`).

The search model is generic in the game: a `Game P M` packages exactly the calls the Go search makes
on a `*tak.Position` (`GameOver`, the evaluation callback, `MovePreallocated`, `AllMoves`, `Hash`,
`Move.Equal`, …).  `Impl/Minimax.lean` instantiates it with the bit-level Tak model.

What is *not* modelled, and how it is handled:
* `history` (a `map[tak.Move]int`) is read only by `sortMoves`; `sort.Sort` is not modelled.  Instead
  the order produced by the k-th `sortMoves` call is a parameter `Oracle.order k` (an arbitrary
  function; theorems assume only that it preserves membership).  Under `NoSort` (or depth ≤ 1) the
  code does not call `sortMoves` and the model is exact.
* the `mg.ms` cache across `Reset()` (second enumeration in `zwSearch` after multi-cut) is not kept: the
  second enumeration re-reads `AllMoves`; under `NoSort` this is the same list.
* the model is of the tree **after** `fixes/C05-stale-ttentry.diff`: the generator works on a *copy* of
  the table entry (`frame.te`), so `mg.te.m` is a value, not a pointer into the live table. -/
namespace Search
open Tak (Err)

/-- Go `uint64` position hashes -/
abbrev H := BitVec 64

/-- what the search calls on a position / move -/
structure Game (P M : Type) where
  /-- `over, _ := p.GameOver()` -/
  over : P → Bool
  /-- `ai.evaluate(&ai.c, p)` -/
  eval : P → Int
  /-- `p.MovePreallocated(m, …)` with value semantics -/
  apply : P → M → Except Err P
  /-- `p.AllMoves(…)` -/
  allMoves : P → List M
  /-- `p.Hash()` -/
  hash : P → H
  /-- `Move.Equal` -/
  moveEq : M → M → Bool
  /-- `tak.Move{}` -/
  zeroMove : M
  /-- `tak.Move{Type: tak.Pass}` -/
  passMove : M
  /-- `m.Type == tak.Pass` -/
  isPass : M → Bool
  /-- the position part of `nullMoveOK`: both sides ≥ 3 stones in reserve and ≥ 4 empty squares -/
  nullOK : P → Bool
  /-- the slide-reduction test of `zwSearch` on the previous move and the position -/
  reduceSlide : M → P → Except Err Bool
  /-- `p.MoveNumber()` -/
  moveNumber : P → Int
  /-- hashes of the distinct symmetric images (`symmetry.Symmetries(child)`), for `DedupSymmetry` -/
  symHashes : P → List H

/-- `tableEntry` (`depth` is an `int8` in Go; searches are at most `maxDepth` = 15 deep) -/
structure TEntry (M : Type) where
  hash : H
  value : Int
  m : M
  bound : Nat
  depth : Int
deriving Repr, DecidableEq, Inhabited

/-- `Stats` without the wall-clock field (`Generated`, `Extensions` are never written by the code) -/
structure Stats where
  depth : Int := 0
  canceled : Bool := false
  evaluated : Nat := 0
  scout : Nat := 0
  terminal : Nat := 0
  visited : Nat := 0
  cutNodes : Nat := 0
  nullSearch : Nat := 0
  nullCut : Nat := 0
  cut0 : Nat := 0
  cut1 : Nat := 0
  cutSearch : Nat := 0
  reSearch : Nat := 0
  allNodes : Nat := 0
  ttHits : Nat := 0
  ttShortcut : Nat := 0
  reducedSlides : Nat := 0
  mcSearch : Nat := 0
  mcCut : Nat := 0
deriving Repr, DecidableEq, Inhabited

/-- the option switches of `MinimaxConfig` that the search proper (`pvSearch`, `zwSearch`, the move generator) reads -/
structure SOpts where
  noSort : Bool := false
  noNullMove : Bool := false
  noReduceSlides : Bool := false
  multiCut : Bool := false
  dedupSymmetry : Bool := false
deriving Repr, DecidableEq, Inhabited

/-- `MinimaxConfig` after `NewMinimax`'s normalisation (`Depth 0 ↦ maxDepth`, `RandomizeScale 0 ↦ 1`).
`tableEntries = none` is `TableMem < 0`; `some n` is a table of `n` entries (`TableMem / 32`).
`Depth`, `MaxEvals` and the randomisation parameters are read by `Analyze`/`GetMove` only. -/
structure Cfg where
  depth : Int
  maxEvals : Nat := 0
  tableEntries : Option Nat := none
  randomizeWindow : Int := 0
  randomizeScale : Int := 1
  opts : SOpts := {}
deriving Repr, DecidableEq, Inhabited

/-- `MakePrecise` -/
def SOpts.makePrecise (c : SOpts) : SOpts :=
  { c with noNullMove := true, noReduceSlides := true, multiCut := false }

/-- the environment of one `Analyze`/`GetMove` call: what the model does not compute itself.
* `cancel loads evals`: the value an `atomic.LoadInt32(ai.cancel)` returns when it is the `loads`-th load
  of this call and `evals` leaf evaluations have been made so far (the watcher goroutine, or the harness's
  evaluation callback, sets the flag; it is never cleared during a call: monotone).
* `order k`: the permutation applied by the k-th `sortMoves`.
* `rnd k n`: the value of the k-th `rand.Int63n(n)`. -/
structure Oracle (M : Type) where
  cancel : Nat → Nat → Bool
  order : Nat → List M → List M
  rnd : Nat → Int → Int

/-- an oracle that never cancels and does not reorder -/
def Oracle.quiet {M : Type} : Oracle M := ⟨fun _ _ => false, fun _ l => l, fun _ _ => 0⟩

/-- the mutable part of `MinimaxAI` that survives between calls (`table`, `response`, the PV buffers
and `m` of the 15 preallocated frames) plus the per-call counters.  Of `stack[ply].pv` only element 0 is
ever read before being written (`best = best[:1]`), so only that element is kept. -/
structure Eng (M : Type) where
  hasTable : Bool
  table : Array (TEntry M)
  response : List (M × M)
  pv0 : Array M
  stackM : Array M
  st : Stats := {}
  loads : Nat := 0
  evals : Nat := 0
  sorts : Nat := 0
  rnds : Nat := 0
  /-- ghost (nothing reads it): the table writes `(index, entry)` of the current `Analyze`/`GetMove` call, newest
  first.  Written by `Eng.evict` and `Eng.setEntry`, the only two places that assign into `table`; cleared
  where the per-call counters are.  C16 states its table clause on it. -/
  wlog : List (Nat × TEntry M) := []
deriving Repr, Inhabited

def getA {α : Type} (a : Array α) (i : Nat) (site : String) : Except Err α :=
  match a[i]? with
  | some x => .ok x
  | none => .error (.panic site)

def setA {α : Type} (a : Array α) (i : Nat) (x : α) (site : String) : Except Err (Array α) :=
  if i < a.size then .ok (a.setIfInBounds i x) else .error (.panic site)

/-- `NewMinimax` (the parts that are state) -/
def Eng.new {P M : Type} (g : Game P M) (cfg : Cfg) : Eng M :=
  { hasTable := cfg.tableEntries.isSome
    table := Array.replicate (cfg.tableEntries.getD 0) ⟨0#64, 0, g.zeroMove, 0, 0⟩
    response := []
    pv0 := Array.replicate Facts.maxDepth g.zeroMove
    stackM := Array.replicate Facts.maxDepth g.zeroMove }

/-- Go map read `response[k]` -/
def respGet {M : Type} [DecidableEq M] : List (M × M) → M → Option M
  | [], _ => none
  | (k, v) :: rest, key => if k = key then some v else respGet rest key

/-- Go map write `response[k] = v` -/
def respPut {M : Type} [DecidableEq M] : List (M × M) → M → M → List (M × M)
  | [], key, v => [(key, v)]
  | (k, w) :: rest, key, v => if k = key then (k, v) :: rest else (k, w) :: respPut rest key v

/-- how a loop body ends: next iteration, `break`, or `return r` from the enclosing function -/
inductive Ctl (σ ρ : Type) where
  | next (a : σ)
  | brk (a : σ)
  | ret (r : ρ)

/-- the inputs of a `moveGenerator` literal -/
structure MG (M : Type) where
  ply : Nat
  depth : Int
  te : Option (TEntry M)
  pv : List M

section
variable {P M σ ρ : Type}

/-- the tail of `Next`: `child, e := mg.p.MovePreallocated(m, …); if e == nil { return m, child }` followed by
the caller's loop body.  A rejected candidate is skipped; a panic inside the move code propagates. -/
def tryMove (g : Game P M) (p : P)
    (body : M → P → σ → Eng M → Except Err (Ctl σ ρ × Eng M))
    (m : M) (a : σ) (s : Eng M) : Except Err (Ctl σ ρ × Eng M) :=
  match g.apply p m with
  | .ok child => body m child a s
  | .error (.illegal _) => .ok (.next a, s)
  | .error e => .error e

/-- sequencing of two parts of a loop: the second part runs only if the first ended with "next iteration" -/
def Ctl.andThen (r : Except Err (Ctl σ ρ × Eng M))
    (k : σ → Eng M → Except Err (Ctl σ ρ × Eng M)) : Except Err (Ctl σ ρ × Eng M) :=
  match r with
  | .error e => .error e
  | .ok (.next a, s) => k a s
  | .ok (.brk a, s) => .ok (.brk a, s)
  | .ok (.ret r, s) => .ok (.ret r, s)

/-- the `default:` stage of `Next` over the generated moves, with the three de-duplication tests -/
def runList (g : Game P M) (p : P)
    (body : M → P → σ → Eng M → Except Err (Ctl σ ρ × Eng M))
    (skip : M → Bool) : List M → σ → Eng M → Except Err (Ctl σ ρ × Eng M)
  | [], a, s => .ok (.next a, s)
  | m :: ms, a, s =>
    if skip m then runList g p body skip ms a s
    else Ctl.andThen (tryMove g p body m a s) (runList g p body skip ms)

/-- `mg.te != nil && mg.te.m.Equal(m)` -/
def MG.teEq (g : Game P M) (mg : MG M) (m : M) : Bool :=
  match mg.te with | some e => g.moveEq e.m m | none => false

/-- `len(mg.pv) != 0 && mg.pv[0].Equal(m)` -/
def MG.pvEq (g : Game P M) (mg : MG M) (m : M) : Bool :=
  match mg.pv with | x :: _ => g.moveEq x m | [] => false

/-- `mg.te != nil && m.Equal(mg.te.m)` (the test of `case 1`) -/
def MG.isTe (g : Game P M) (mg : MG M) (m : M) : Bool :=
  match mg.te with | some e => g.moveEq m e.m | none => false

/-- `case 0`: the move of the table entry (a copy, see the file header) -/
def stage0 (g : Game P M) (p : P) (mg : MG M)
    (body : M → P → σ → Eng M → Except Err (Ctl σ ρ × Eng M))
    (a : σ) (s : Eng M) : Except Err (Ctl σ ρ × Eng M) :=
  match mg.te with
  | some e => tryMove g p body e.m a s
  | none => .ok (.next a, s)

/-- `case 1`: the first move of the PV hint unless it is the table move -/
def stage1 (g : Game P M) (p : P) (mg : MG M)
    (body : M → P → σ → Eng M → Except Err (Ctl σ ρ × Eng M))
    (a : σ) (s : Eng M) : Except Err (Ctl σ ρ × Eng M) :=
  match mg.pv with
  | m :: _ =>
    if mg.isTe g m then .ok (.next a, s)
    else tryMove g p body m a s
  | [] => .ok (.next a, s)

/-- `mg.r, ok = mg.ai.response[mg.ai.stack[mg.ply-1].m]` (not at ply 0) -/
def respLookup [DecidableEq M] (ply : Nat) (s : Eng M) : Except Err (Option M) :=
  if ply == 0 then .ok none
  else match getA s.stackM (ply - 1) "stack[ply-1].m" with
    | .ok prev => .ok (respGet s.response prev)
    | .error e => .error e

/-- the de-duplication tests of the `default:` stage -/
def skipGen (g : Game P M) (mg : MG M) (r : M) (m : M) : Bool :=
  mg.teEq g m || mg.pvEq g m || g.moveEq r m

/-- `case 3` and `default:` the generated moves (sorted by history when `depth > 1 && !NoSort`) -/
def stage3 (g : Game P M) (cfg : SOpts) (o : Oracle M) (p : P) (mg : MG M)
    (body : M → P → σ → Eng M → Except Err (Ctl σ ρ × Eng M))
    (r? : Option M) (a : σ) (s : Eng M) : Except Err (Ctl σ ρ × Eng M) :=
  let ms := g.allMoves p
  let sorted := mg.depth > 1 && !cfg.noSort
  let ms := if sorted then o.order s.sorts ms else ms
  let s := if sorted then { s with sorts := s.sorts + 1 } else s
  runList g p body (skipGen g mg (r?.getD g.zeroMove)) ms a s

/-- `case 2` (response hint, looked up when the generator gets there) followed by the generated moves -/
def stage23 [DecidableEq M] (g : Game P M) (cfg : SOpts) (o : Oracle M) (p : P) (mg : MG M)
    (body : M → P → σ → Eng M → Except Err (Ctl σ ρ × Eng M))
    (a : σ) (s : Eng M) : Except Err (Ctl σ ρ × Eng M) :=
  match respLookup mg.ply s with
  | .error e => .error e
  | .ok r? =>
    Ctl.andThen
      (match r? with
       | some r => tryMove g p body r a s
       | none => .ok (.next a, s))
      (stage3 g cfg o p mg body r?)

/-- `for m, child := mg.Next(); child != nil; m, child = mg.Next() { body }` from a fresh (or `Reset`)
generator: stage 0 table move, stage 1 PV hint, stage 2 response hint, then the generated moves. -/
def iterate [DecidableEq M] (g : Game P M) (cfg : SOpts) (o : Oracle M) (p : P) (mg : MG M)
    (body : M → P → σ → Eng M → Except Err (Ctl σ ρ × Eng M))
    (a : σ) (s : Eng M) : Except Err (Ctl σ ρ × Eng M) :=
  Ctl.andThen (Ctl.andThen (stage0 g p mg body a s) (stage1 g p mg body)) (stage23 g cfg o p mg body)

end
end Search
