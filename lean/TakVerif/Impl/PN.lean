import TakVerif.Impl.Move
import TakVerif.Generated.FactsProve

/-! Mirror of `prove/pn.go` (proof-number search, PN², node and depth limits, preserve-solved).

The solver is written over an abstract game `Game S M` (the five things `pn.go` asks of a
`tak.Position`), so that the theorems of `Props/C06.lean` are about the very function the driver
runs; `takGame` instantiates it with the bit-level Tak model.

Go's mutable tree with parent pointers is a rose tree plus a zipper: `Cursor.focus` is the node
`p.checkNode`, `Cursor.up` the chain of parents (each with the siblings left and right of the
path), `Cursor.stack` is `p.stack` (top first).  `firstChild/sibling` chains are `List`s in chain
order (so `expand` prepends).  All loops carry fuel; `none`/`Err.hang` = fuel ran out.

The model is of the tree *with* `fixes/C06-pn-depth-limit.diff`: `evaluate` records that the depth
limit cut the tree (`depthLimited`) and `Prove` then reports `unknown` instead of `disproven`. -/
namespace Tak.PN

/-- what `pn.go`/`dfpn.go` use of a position -/
structure Game (S M : Type) where
  /-- `AllMoves` (pseudo-legal: `apply` may still reject) -/
  moves : S → List M
  /-- `MovePreallocated`; `none` = an error was returned -/
  apply : S → M → Option S
  /-- `GameOver()`: `some w` = over with winner `w` (`Color.none` = draw) -/
  over : S → Option Color
  toMove : S → Color
  /-- `Position.Equal` -/
  equal : S → S → Bool
  /-- `expand`: `m.IsSlide() && current.Top(m.Dest()).Kind() != Standing` -/
  reversible : S → M → Bool

inductive Eval where | unknown | proven | disproven
deriving DecidableEq, Repr, Inhabited

def Eval.code : Eval → Nat
  | .unknown => Facts.evalUnknown | .proven => Facts.evalTrue | .disproven => Facts.evalFalse

/-- `prove.node` without the parent pointer; `flags` split into its three bits -/
structure Node (M : Type) where
  move : M
  phi : UInt32
  delta : UInt32
  value : Eval
  irreversible : Bool
  expanded : Bool
  isAnd : Bool
  proofDepth : UInt16
  children : List (Node M)
deriving Repr, Inhabited

def maxU32 : UInt32 := 0xFFFFFFFF   -- math.MaxUint32

/-- `saturatingAdd` -/
def saturatingAdd (l r : UInt32) : UInt32 :=
  if l + r < l then maxU32 else l + r

def Node.proof {M} (n : Node M) : UInt32 := if n.isAnd then n.delta else n.phi
def Node.disproof {M} (n : Node M) : UInt32 := if n.isAnd then n.phi else n.delta

/-- `PNStats` -/
structure Stats where
  nodes : UInt64 := 0
  proved : UInt64 := 0
  disproved : UInt64 := 0
  dropped : UInt64 := 0
  expanded : UInt64 := 0
  maxDepth : UInt64 := 0
deriving Repr, Inhabited, DecidableEq

def Stats.live (s : Stats) : UInt64 := s.nodes - (s.proved + s.disproved + s.dropped)

/-- `prove.Config` (without `Debug`, `LogPrefix`) -/
structure Cfg where
  maxNodes : UInt64
  preserveSolved : Bool
  pn2 : Bool
  maxDepth : Int
deriving Repr, Inhabited

/-- one step of the path from the root to the focus: the parent (its own `children` field is not
used) and the siblings before (nearest first) and after the focus in the parent's child chain -/
structure Crumb (M : Type) where
  node : Node M
  left : List (Node M)
  right : List (Node M)
deriving Inhabited

/-- the mutable state of `Prover` -/
structure St (S M : Type) where
  cfg : Cfg
  stats : Stats
  focus : Node M
  up : List (Crumb M)
  /-- `p.stack`, top first: `stack.head` is the position of `focus` -/
  stack : List S
  /-- (fix) some node was cut off by `MaxDepth` -/
  depthLimited : Bool
  /-- ghost, never read by the solver: `expand` or the renumbering in `updateAncestors` reached a node
  whose numbers already had a zero (the selection descends into such a node only when a 32-bit sum
  has saturated at `MaxUint32`).  The soundness theorems assume it stays `false`. -/
  anomaly : Bool

section
variable {S M : Type} (G : Game S M) (attacker : Color)

/-- `p.depth()` -/
def St.depth (st : St S M) : Int := (st.stack.length : Int) - 1

/-- `checkRepetition(n)` for the focus: count earlier positions on the path equal to the current
one, walking up while the nodes passed are reversible -/
def repCount (cur : S) : Nat → List (Crumb M) → List S → Nat
  | count, cr :: ups, pos :: rest =>
    if !cr.node.irreversible && count < 3 then
      repCount cur (if G.equal pos cur then count + 1 else count) ups rest
    else count
  | count, _, _ => count

def checkRepetition (st : St S M) : Bool :=
  if st.focus.irreversible then false else
  match st.stack with
  | [] => false
  | cur :: rest => repCount G cur 1 st.up rest == 3

/-- `evaluate(node)` for the focus -/
def evaluate (st : St S M) : Option (St S M) :=
  if st.depth > st.cfg.maxDepth then
    some { st with focus := { st.focus with value := .disproven }, depthLimited := true }
  else
    match st.stack with
    | [] => none     -- `currentPosition`: the stack is never empty
    | cur :: _ =>
      match G.over cur with
      | some who =>
        some { st with focus := { st.focus with value := if who == attacker then .proven else .disproven } }
      | none =>
        if checkRepetition G st then some { st with focus := { st.focus with value := .disproven } }
        else some { st with focus := { st.focus with value := .unknown } }

/-- the loop of `setNumbers` over the children -/
def sumChildren : List (Node M) → UInt32 → UInt32 → UInt32 × UInt32
  | [], phi, delta => (phi, delta)
  | c :: cs, phi, delta =>
    sumChildren cs (if c.delta < phi then c.delta else phi) (saturatingAdd delta c.phi)

/-- `setNumbers(node)`; `cur` is `currentPosition(node)` (used only for unexpanded unknown nodes) -/
def setNumbers (cur : S) (n : Node M) : Node M :=
  if n.expanded then
    let (phi, delta) := sumChildren n.children maxU32 0
    { n with phi := phi, delta := delta }
  else
    match n.value with
    | .unknown => { n with phi := 1, delta := UInt32.ofNat (G.moves cur).length }
    | v =>
      if n.isAnd == (v == .proven) then { n with phi := maxU32, delta := 0 }
      else { n with phi := 0, delta := maxU32 }

/-- `tryDescend` to the `i`-th node of the focus's child chain (given as `left.reverse ++ c :: right`) -/
def descend (st : St S M) (left : List (Node M)) (c : Node M) (right : List (Node M)) : Option (St S M) :=
  match st.stack with
  | [] => none
  | cur :: _ =>
    match G.apply cur c.move with
    | none => none
    | some nxt =>
      some { st with focus := c, up := { node := st.focus, left := left, right := right } :: st.up,
                     stack := nxt :: st.stack }

/-- `ascend`: the parent gets the (possibly changed) focus back into its child chain -/
def ascend (st : St S M) : Option (St S M) :=
  match st.up, st.stack with
  | cr :: ups, _ :: rest =>
    some { st with focus := { cr.node with children := cr.left.reverse ++ st.focus :: cr.right },
                   up := ups, stack := rest }
  | _, _ => none

/-- first child with `c.delta == phi`, with the chain split around it -/
def findChild (phi : UInt32) : List (Node M) → List (Node M) → Option (List (Node M) × Node M × List (Node M))
  | _, [] => none
  | left, c :: cs => if c.delta == phi then some (left, c, cs) else findChild phi (c :: left) cs

/-- `selectMostProving(current)` with the cursor at `current` -/
def selectMostProving : Nat → St S M → Except Err (St S M)
  | 0, _ => .error (.hang "selectMostProving")
  | fuel+1, st =>
    if st.focus.expanded then
      match findChild st.focus.phi [] st.focus.children with
      | none => .error (.panic "consistency error")
      | some (left, c, right) =>
        match descend G st left c right with
        | none => .error (.panic "failed to descend")
        | some st' => selectMostProving fuel st'
    else .ok st

/-- the child loop of `expand`.  `n` is the node being expanded (cursor on it), `kids` its chain so far. -/
def expandLoop (st : St S M) (cur : S) : List M → Option (St S M)
  | [] => some st
  | m :: ms =>
    let n := st.focus
    let child : Node M :=
      { move := m, phi := 0, delta := 0, value := .unknown, irreversible := false, expanded := false,
        isAnd := false, proofDepth := 0, children := [] }
    match descend G st [] child [] with
    | none => expandLoop st cur ms       -- `continue`
    | some st1 =>
      let st1 := { st1 with stats := { st1.stats with nodes := st1.stats.nodes + 1 } }
      let child := { child with irreversible := !G.reversible cur m, isAnd := !n.isAnd }
      let st1 := { st1 with focus := child }
      match evaluate G attacker st1 with
      | none => none
      | some st2 =>
        match st2.stack with
        | [] => none
        | cpos :: _ =>
          let child := setNumbers G cpos st2.focus
          -- ascend, then `child.sibling = n.firstChild; n.firstChild = child`
          let st3 : St S M := { st2 with focus := { n with children := child :: n.children }, up := st.up, stack := st.stack }
          if child.delta == 0 then some st3 else expandLoop st3 cur ms

def collapse (c : Node M) : Node M := { c with expanded := false, children := [] }

/-- the proof depth `updateAncestors` assigns to a solved node; a child of a node with δ = 0 whose φ is
not 0 is `panic("inconsistent")` -/
def solvedDepth (node : Node M) : Except Err UInt16 :=
  if node.delta == 0 then
    if node.children.any (fun c => c.phi != 0) then .error (.panic "inconsistent")
    else .ok (node.children.foldl (fun d c => if c.proofDepth > d then c.proofDepth else d) 0 + 1)
  else
    .ok (node.children.foldl (fun d c => if c.delta != 0 then d else if c.proofDepth < d then c.proofDepth else d) (32768 : UInt16) + 1)

/-- the solved-node bookkeeping of `updateAncestors` (proof depth, statistics, dropping children) -/
def solvedUpdate (isRoot : Bool) (cfg : Cfg) (stats : Stats) (node : Node M) : Except Err (Stats × Node M) :=
  match solvedDepth node with
  | .error e => .error e
  | .ok d =>
    let node := { node with proofDepth := d }
    let stats := if node.proof == 0 then { stats with proved := stats.proved + 1 }
                 else { stats with disproved := stats.disproved + 1 }
    let stats := if node.phi == 0 then { stats with dropped := stats.dropped + UInt64.ofNat node.children.length } else stats
    let node := if !isRoot && !cfg.preserveSolved then { node with children := [] } else node
    .ok (stats, node)

/-- one round of the loop of `updateAncestors(node)`, cursor on `node`: renumber it; the flag says
whether the loop goes on with the parent (`false` = `return node`).  `base` = number of crumbs above `p.root`. -/
def updateStep (base : Nat) (st : St S M) : Except Err (Bool × St S M) :=
  match st.stack with
  | [] => .error (.panic "inconsistent current position")
  | cur :: _ =>
    let oldphi := st.focus.phi
    let olddelta := st.focus.delta
    -- ghost: a solved node without children (dropped, or never expanded) is numbered again
    let st := { st with anomaly := st.anomaly ||
      (st.focus.children.isEmpty && (oldphi == 0 || olddelta == 0)) }
    let node := setNumbers G cur st.focus
    let isRoot := st.up.length == base
    if node.phi == 0 || node.delta == 0 then
      match solvedUpdate isRoot st.cfg st.stats node with
      | .error e => .error e
      | .ok (stats, node) => .ok (!isRoot, { st with focus := node, stats := stats })
    else if node.phi == oldphi && node.delta == olddelta then .ok (false, { st with focus := node })
    else .ok (!isRoot, { st with focus := node })

/-- `updateAncestors(node)`, cursor on `node` -/
def updateAncestors (base : Nat) : Nat → St S M → Except Err (St S M)
  | 0, _ => .error (.hang "updateAncestors")
  | fuel+1, st =>
    match updateStep G base st with
    | .error e => .error e
    | .ok (false, st1) => .ok st1
    | .ok (true, st1) =>
      match ascend st1 with
      | none => .error (.panic "ascend")
      | some st2 => updateAncestors base fuel st2

/-- `for p.checkNode != p.root { p.ascend() }` -/
def ascendTo (base : Nat) : Nat → St S M → Option (St S M)
  | 0, st => if st.up.length == base then some st else none
  | fuel+1, st => if st.up.length == base then some st else (ascend st).bind (ascendTo base fuel)

/-- `p.root.phi`, `p.root.delta` seen from anywhere below the root -/
def rootNumbers (base : Nat) (st : St S M) : UInt32 × UInt32 :=
  if st.up.length == base then (st.focus.phi, st.focus.delta)
  else match st.up.drop (st.up.length - base - 1) with
    | cr :: _ => (cr.node.phi, cr.node.delta)
    | [] => (st.focus.phi, st.focus.delta)

mutual
/-- `search(ctx, maxNodes)` with `p.root` = the node `base` crumbs below the top; the cursor is on it. -/
def search (base : Nat) (maxNodes : UInt64) : Nat → St S M → Except Err (St S M)
  | 0, _ => .error (.hang "search")
  | fuel+1, st =>
    let (rphi, rdelta) := rootNumbers base st
    if rphi != 0 && rdelta != 0 then
      match selectMostProving G (fuel+1) st with
      | .error e => .error e
      | .ok st1 =>
        if maxNodes > 0 && st1.stats.live > maxNodes then
          match ascendTo base (fuel+1) st1 with
          | none => .error (.panic "ascend")
          | some st2 => .ok st2
        else
          match expand fuel st1 with
          | .error e => .error e
          | .ok st2 =>
            match updateAncestors G base (fuel+1) st2 with
            | .error e => .error e
            | .ok st3 => search base maxNodes fuel st3
    else
      match ascendTo base (fuel+1) st with
      | none => .error (.panic "ascend")
      | some st2 => .ok st2

/-- `expand(n)`, cursor on `n` -/
def expand : Nat → St S M → Except Err (St S M)
  | 0, _ => .error (.hang "expand")
  | fuel+1, st =>
    match st.stack with
    | [] => .error (.panic "inconsistent current position")
    | cur :: _ =>
      let st := { st with anomaly := st.anomaly || st.focus.phi == 0 || st.focus.delta == 0 }
      if st.cfg.pn2 && st.stats.nodes > UInt64.ofNat Facts.pn2Threshold then pn2 fuel st
      else
        match expandLoop G attacker st cur (G.moves cur) with
        | none => .error (.panic "inconsistent current position")
        | some st1 =>
          let d : UInt64 := UInt64.ofNat (st1.depth + 1).toNat
          let stats := { st1.stats with expanded := st1.stats.expanded + 1 }
          let stats := if d > stats.maxDepth then { stats with maxDepth := d } else stats
          .ok { st1 with stats := stats, focus := { st1.focus with expanded := true } }

/-- `pn2(n)`: a second-level search below `n`, after which `n` keeps only its children -/
def pn2 : Nat → St S M → Except Err (St S M)
  | 0, _ => .error (.hang "pn2")
  | fuel+1, st =>
    let oldStats := st.stats
    let lim : UInt64 :=
      if st.cfg.maxNodes > 0 then (oldStats.live * oldStats.live) / st.cfg.maxNodes else oldStats.live
    let st1 := { st with stats := {}, cfg := { st.cfg with pn2 := false } }
    match search st.up.length lim fuel st1 with
    | .error e => .error e
    | .ok st2 =>
      let n := st2.focus
      let n := if n.proof == 0 then { n with value := .proven }
               else if n.disproof == 0 then { n with value := .disproven } else n
      let oldStats := if st2.stats.maxDepth > oldStats.maxDepth then { oldStats with maxDepth := st2.stats.maxDepth } else oldStats
      let stats := { oldStats with nodes := oldStats.nodes + UInt64.ofNat n.children.length,
                                   expanded := oldStats.expanded + 1 }
      .ok { st2 with stats := stats, cfg := { st2.cfg with pn2 := true },
                     focus := { n with children := n.children.map collapse } }
end

/-- `ProofResult` (without `Duration`) -/
structure Result (M : Type) where
  result : Eval
  depth : UInt32
  proof : UInt32
  disproof : UInt32
  move : Option M
deriving Repr, Inhabited

/-- the state `prove()` builds before the search: the root evaluated and numbered -/
def initState [Inhabited M] (cfg : Cfg) (pos : S) : Option (St S M) :=
  let root : Node M :=
    { move := default, phi := 0, delta := 0, value := .unknown, irreversible := false, expanded := false,
      isAnd := false, proofDepth := 0, children := [] }
  let st : St S M := { cfg := cfg, stats := { nodes := 1 }, focus := root, up := [], stack := [pos],
                       depthLimited := false, anomaly := false }
  match evaluate G attacker st with
  | none => none
  | some st1 => some { st1 with focus := setNumbers G pos st1.focus }

/-- the configuration as `Prove` rewrites it -/
def effectiveCfg (cfg : Cfg) : Cfg :=
  let cfg := if cfg.maxDepth == 0 then { cfg with maxDepth := 32767 } else cfg   -- math.MaxInt16
  if cfg.pn2 then { cfg with maxNodes := cfg.maxNodes / 2 } else cfg

/-- what `Prove` reads off the root after the search -/
def readResult (st : St S M) : Result M × Stats :=
  let root := st.focus
  let (value, pv) : Eval × Option M :=
    if root.phi == 0 then
      (.proven, root.children.foldl (fun pv c => if c.delta == 0 then some c.move else pv) none)
    else if root.delta == 0 then
      let best : Option (Node M) := root.children.foldl (fun best c =>
        match best with
        | none => some c
        | some b => if b.proofDepth < c.proofDepth then some c else some b) none
      (.disproven, best.map (·.move))
    else (root.value, none)
  -- (fix) a disproof found under a depth limit shows only that there is no win within the limit
  let value := if value == .disproven && st.depthLimited then .unknown else value
  ({ result := value, depth := root.proofDepth.toUInt32, proof := root.proof, disproof := root.disproof, move := pv },
   st.stats)

/-- the state in which `Prove` reads the result: after `prove()` -/
def proveState [Inhabited M] (fuel : Nat) (cfg : Cfg) (pos : S) : Except Err (St S M) :=
  let cfg := effectiveCfg cfg
  match initState G attacker cfg pos with
  | none => .error (.panic "inconsistent current position")
  | some st0 => search G attacker 0 cfg.maxNodes fuel st0

/-- `Prover.Prove` on a fresh `Prover` -/
def prove [Inhabited M] (fuel : Nat) (cfg : Cfg) (pos : S) : Except Err (Result M × Stats) :=
  match proveState G attacker fuel cfg pos with
  | .error e => .error e
  | .ok st => .ok (readResult st)

/-- `p.Prove(ctx, pos)` on a `Prover` that may have been used before: all it keeps is its configuration,
as the earlier calls have rewritten it (`MaxDepth` 0 → `MaxInt16`, and `MaxNodes` halved by *every*
call when `PN2` is set).  Returns the configuration the call leaves behind. -/
def proveWith [Inhabited M] (fuel : Nat) (cfg : Cfg) (pos : S) : Except Err (Result M × Stats × Cfg) :=
  match proveState G attacker fuel cfg pos with
  | .error e => .error e
  | .ok st => .ok ((readResult st).1, (readResult st).2, st.cfg)

end

/-! ### the Tak instance -/

/-- `current.Top(dx, dy).Kind() != Standing` for a slide `m`; a non-slide is irreversible -/
def takReversible (p : Pos) (m : Move) : Bool :=
  m.isSlide &&
  (match m.dest with
   | none => false
   | some (dx, dy) =>
     match p.topAt (dx + dy * (p.cfg.size : Int)).toNat with
     | some pc => pc.kind != .standing
     | none => true)

def takGame (basis : Array W) : Game Pos Move where
  moves := Pos.allMoves
  apply := fun p m => match p.apply basis m with | .ok q => some q | .error _ => none
  over := fun p => let (o, w) := p.gameOver; if o then some w else none
  toMove := Pos.toMove
  equal := fun a b => a.equal b
  reversible := takReversible

/-- `prove.New(cfg).Prove(ctx, pos)`: the attacker of plain PN search is the side to move at the root -/
def takProve (basis : Array W) (fuel : Nat) (cfg : Cfg) (pos : Pos) : Except Err (Result Move × Stats) :=
  prove (takGame basis) pos.toMove fuel cfg pos

/-- `p.Prove(ctx, pos)` on a `Prover` whose configuration is `cfg` by now -/
def takProveWith (basis : Array W) (fuel : Nat) (cfg : Cfg) (pos : Pos) : Except Err (Result Move × Stats × Cfg) :=
  proveWith (takGame basis) pos.toMove fuel cfg pos

end Tak.PN
