import TakVerif.Impl.Bot
import TakVerif.Impl.Friendly
import TakVerif.Impl.FPATotal
import TakVerif.Impl.Minimax

/-! The playtak bot end to end: the protocol loop of `playtak/bot/bot.go` (`Impl/Bot.lean`) run with one of the two
real `Bot` implementations of `cmd/internal/playtak` (`Impl/Friendly.lean`: `Friendly`, `Taktician`) as its thinker
and ONE searching player object (`f.ai` / `t.ai`, created by `NewGame`) threaded through the whole game.

`Impl/Bot.lean` leaves the thinker open: `grant k` lets thinker `k` into `Bot.GetMove`, `aiReturns k m` lets it
return an arbitrary `m`.  Here the two events are refined:

* `enter k chk` – thinker `k` obtains `g.moveLock` and runs `GetMove` up to the point where the searching player is
  asked: `Friendly.GetMove` reads the game record **as it stands at that moment** (`f.g.Positions[len-2]`,
  `f.g.Moves[len-1]`), shows the FPA rule the older pairs of the record and lets it check the newest one (the rule's
  notes are rebuilt: `fixes/C07-fpa-record-notes.diff`; `replay = false` is the tree before it), resigns (the
  `Resign` command and the `Tell` go out at once, from inside `GetMove`), answers off turn, or takes the rule's
  scripted move; `chk` are the verdicts of Friendly's depth-3 check engine (`waitUndo`), the one oracle left.
  An index panic of that code is a panic on a thinker goroutine: the process is gone (`dead`).
* `leave k x` – `GetMove` of thinker `k` returns: the zero move (off turn; after a resignation, and then only once
  the context is cancelled: `<-ctx.Done()`), the scripted move, or the answer of the searching player for the
  position the thinker was started on, computed from the engine state the previous call left (`x`: what the model of
  the search does not compute itself — cancellation, `sort.Sort`, `math/rand`).

`moveLock` lets one thinker into `GetMove` at a time (`C07.lock_exclusive`), so between `enter k` and `leave k`
nobody else touches the rule's notes or the engine: running the prefix at `enter` and the search at `leave` is the
same as spreading them over the interval.

`guard = true` is `friendly.go` / `taktician.go` with `fixes/C07-stale-thinker.diff`: a `GetMove` that finds its
context cancelled on entry returns the zero move at once (its `handleMove` invocation is over, nobody listens to its
channel).  `false` is the tree before that fix: such a call runs the whole of `GetMove` on a record that may have
shrunk since, or - after `PlayGame` returned and `GameOver` set `f.g = nil` - on no game at all.

Outside: the `level` chat command (it replaces `f.ai` in mid-game), the opening-book wrapper (`wrapWithBook`),
`Friendly.GameOver`'s survey `Tell`, real time (floors and deadlines are part of the `Action`, nobody waits). -/
namespace Tak.Compose
open Tak Tak.Bot Tak.Glue Tak.FPA

/-- the searching player: a state that survives between calls and one call (`GetMove(ctx, p)`); `χ` is what a
call needs beyond the position (oracles) -/
structure Searcher (σ χ : Type) where
  run : χ → Pos → σ → Except Err (Move × σ)

/-- the alpha-beta player `ai.NewMinimax(cfg)` on `*tak.Position` -/
def minimaxSearcher (basis : Array W) (ev : Pos → Int) (sym : Pos → List Search.H) (scfg : Search.Cfg) :
    Searcher (Search.Eng Move) (Search.Oracle Move) :=
  { run := fun o p s => Search.getMove (Search.takGame basis ev sym) scfg o p s }

/-- a searcher that answers what it is told (the correspondence harness replaces `f.ai` by such a stub) -/
def stubSearcher : Searcher Unit Move := { run := fun m _ s => .ok (m, s) }

inductive Who where
  | friendly (var : Option Variant)
  | taktician (cfg : TakticianCfg)
deriving Repr, Inhabited

structure Conf where
  bot : Bot.Conf
  size : Nat
  who : Who
  /-- `fixes/C07-stale-thinker.diff` applied -/
  guard : Bool
  /-- `ObserveGame` instead of `PlayGame` (`bot.color = .none`): the bot is not asked for a configuration -/
  observe : Bool := false
  /-- `fixes/C07-fpa-record-notes.diff` applied (`false`: the tree before it, kept for the counterexamples) -/
  replay : Bool := true
  /-- `fixes/C07-fpa-script-declines.diff` applied: a script of the double-stack / cairn rule that panics declines instead
  (`Impl/FPATotal.lean`; `false`: the tree before it - /repo fefa081 -, kept for the counterexamples) -/
  decline : Bool := true

/-- `Bot.AcceptUndo()` -/
def Conf.acceptUndo (c : Conf) : Bool :=
  match c.who with
  | .friendly _ => true
  | .taktician _ => false

/-- `config(b, g)`: `Friendly` is a `Configger`, `Taktician` is not -/
def Conf.takCfg (c : Conf) : Cfg :=
  if c.observe then { size := c.size, pieces := 0, capstones := 0, blackWinsTies := false } else
  match c.who with
  | .friendly var => friendlyConfig var.isSome c.size
  | .taktician _ => { size := c.size, pieces := 0, capstones := 0, blackWinsTies := false }

/-- ghost: one `GetMove` call, with everything it read on entry -/
structure Call where
  k : Nat                         -- the thinker (= `handleMove` invocation) that made it
  pos : Pos                       -- the position handed in
  mine : Int
  fpa : Option (Variant × Rule)   -- the rule's notes on entry
  positions : List Pos            -- the record as it stood on entry (newest first)
  moves : List Move
  chk : CheckOracle
  fpa' : Option (Variant × Rule)  -- the rule's notes after the check
  act : Action                    -- the branch taken
deriving Repr, Inhabited

/-- ghost: a `GetMove` call that has returned -/
structure Ret (σ χ : Type) where
  call : Call
  eng : σ                -- the engine state the search (if any) started from
  x : Option χ           -- the oracles of the search (`none`: the searcher was not consulted)
  move : Move            -- the move returned

/-- a command on the wire, in the order of the `SendCommand` calls -/
inductive Wire where
  | bot (c : Cmd)        -- sent by the protocol goroutine: a move, `RequestUndo`
  | resign               -- `f.client.SendCommand(f.g.GameStr, "Resign")`
  | tell (msg : Msg)     -- `f.client.Tell(f.g.Opponent, err.Error())`
deriving Repr, DecidableEq, Inhabited

structure St (σ χ : Type) where
  b : Bot.St
  fpa : Option (Variant × Rule)      -- `f.fpa` with its remembered squares
  eng : σ                            -- the one searching player of this game
  inside : Option Call               -- the call in progress (its thinker holds `moveLock`)
  wire : List Wire                   -- oldest first
  dead : Option Err                  -- a thinker goroutine panicked
  entered : Nat                      -- how often `moveLock` was taken
  calls : List Call                  -- ghost: every call made, oldest first
  rets : List (Ret σ χ)              -- ghost: every call that returned, oldest first

inductive Ev (χ : Type) where
  | deliver (bits : List String) (parsed : Option Move)
  | close
  | timerFires
  | enter (k : Nat) (chk : CheckOracle)
  | leave (k : Nat) (x : χ)

variable {σ χ : Type}

def thinkerAt (b : Bot.St) (k : Nat) : Option Thinker := (thinkers b)[k]?

/-- `*bot.Game` as `GetMove` sees it -/
def recOf (c : Conf) (b : Bot.St) : GameRec :=
  { color := c.bot.color, size := c.size, positions := b.positions, moves := b.moves }

/-- `(*Friendly).GetMove` of the tree with `fixes/C07-fpa-record-notes.diff`: with the declining scripts of
`fixes/C07-fpa-script-declines.diff` (`decline = true`) or with the scripts that panic (`false`: /repo fefa081) -/
def friendlyOf (c : Conf) (fpa : Option (Variant × Rule)) (g : GameRec) (p : Pos) (chk : CheckOracle) :
    R (Option (Variant × Rule) × Action) :=
  if c.decline then friendlyGetMoveD fpa g p chk else friendlyGetMove fpa g p chk

/-- `g.bot.GetMove(moveCtx, p, mine, theirs)` up to the search, as a function of what it reads: the rule's notes, the
record, the position and clock handed in, the check engine's verdicts -/
def glueOn (c : Conf) (fpa : Option (Variant × Rule)) (positions : List Pos) (moves : List Move) (p : Pos) (mine : Int)
    (chk : CheckOracle) : R (Option (Variant × Rule) × Action) :=
  match c.who with
  | .friendly _ =>
    if c.replay then friendlyOf c fpa { color := c.bot.color, size := c.size, positions := positions, moves := moves } p chk
    else friendlyGetMovePinned fpa { color := c.bot.color, size := c.size, positions := positions, moves := moves } p chk
  | .taktician tc => .ok (fpa, takticianGetMove tc c.bot.color c.size p mine)

def glueCall (c : Conf) (fpa : Option (Variant × Rule)) (b : Bot.St) (t : Thinker) (chk : CheckOracle) :
    R (Option (Variant × Rule) × Action) :=
  glueOn c fpa b.positions b.moves t.pos t.mine chk

/-- the protocol goroutine's commands that `b'` has and `b` had not -/
def newSent (b b' : Bot.St) : List Wire := (b'.sent.drop b.sent.length).map .bot

/-- an event of the loop itself -/
def loopStep (c : Conf) (s : St σ χ) (e : Bot.Ev) : St σ χ :=
  let b' := Bot.step c.bot s.b e
  { s with b := b', wire := s.wire ++ newSent s.b b' }

def resignWire : Action → List Wire
  | .resign msg => [.resign, .tell msg]
  | _ => []

def enter (c : Conf) (s : St σ χ) (k : Nat) (chk : CheckOracle) : St σ χ :=
  match thinkerAt s.b k with
  | none => s
  | some t =>
    if !lockFree s.b || t.st != .waiting || s.inside.isSome then s else
    if c.guard && t.cancelled then
      -- `GetMove` finds `ctx.Err() != nil` and returns `tak.Move{}`: lock taken and released, nothing else
      { s with b := Bot.aiReturns c.bot (Bot.grant s.b k) k Bot.zeroMove, entered := s.entered + 1 }
    else if s.b.status != .running then
      -- `PlayGame` has returned and its deferred `b.GameOver()` has set `f.g = nil` (`t.g = nil`): the first thing
      -- `GetMove` does with the record is a nil dereference
      { s with b := Bot.grant s.b k, dead := some (.panic "GetMove after GameOver: f.g == nil"), entered := s.entered + 1 }
    else
    match glueCall c s.fpa s.b t chk with
    | .error e => { s with b := Bot.grant s.b k, dead := some e, entered := s.entered + 1 }
    | .ok (fpa', act) =>
      let call : Call := { k := k, pos := t.pos, mine := t.mine, fpa := s.fpa, positions := s.b.positions,
                           moves := s.b.moves, chk := chk, fpa' := fpa', act := act }
      { s with b := Bot.grant s.b k, fpa := fpa', inside := some call, calls := s.calls ++ [call], entered := s.entered + 1,
               wire := s.wire ++ resignWire act }

/-- `GetMove` returns `m` -/
def ret (c : Conf) (s : St σ χ) (call : Call) (x : Option χ) (m : Move) (eng' : σ) : St σ χ :=
  let b' := Bot.aiReturns c.bot s.b call.k m
  { s with b := b', eng := eng', inside := none, wire := s.wire ++ newSent s.b b',
           rets := s.rets ++ [{ call := call, eng := s.eng, x := x, move := m }] }

def leave (c : Conf) (S : Searcher σ χ) (s : St σ χ) (k : Nat) (x : χ) : St σ χ :=
  match s.inside with
  | none => s
  | some call =>
    if call.k != k then s else
    match thinkerAt s.b k with
    | none => s
    | some t =>
      if t.st != .running then s else
      match call.act with
      | .resign _ => if t.cancelled then ret c s call none Bot.zeroMove s.eng else s     -- `<-ctx.Done()`
      | .noMove => ret c s call none Bot.zeroMove s.eng
      | .move m => ret c s call none m s.eng
      | .think _ _ =>
        match S.run x call.pos s.eng with
        | .error e => { s with dead := some e }
        | .ok (m, eng') => ret c s call (some x) m eng'

def step (c : Conf) (S : Searcher σ χ) (s : St σ χ) (e : Ev χ) : St σ χ :=
  if s.dead.isSome then s else
  match e with
  | .deliver bits parsed => loopStep c s (.deliver bits parsed c.acceptUndo)
  | .close => loopStep c s .close
  | .timerFires => loopStep c s .timerFires
  | .enter k chk => enter c s k chk
  | .leave k x => leave c S s k x

def run (c : Conf) (S : Searcher σ χ) (s : St σ χ) (evs : List (Ev χ)) : St σ χ := evs.foldl (step c S) s

/-- `Bot.start` with the configuration the `Bot` asks for (`Bot.start` is the case without `Configger`) -/
def startBot (c : Conf) (secs : Int) : Bot.St :=
  match Pos.new c.takCfg with
  | .error e => { (default : Bot.St) with status := .crashed e }
  | .ok p0 =>
    let t := seconds secs
    spawn c.bot
      { p := p0, positions := [p0], moves := [], mine := t, theirs := t, result := "", listening := false, timeout := false
        cur := default, old := [], sent := [], status := .running, srvPos := [p0], srvMoves := [], log := [] }

/-- `PlayGame` up to the first `select`; `eng0` is what `NewGame` built (`ai.NewMinimax(…)`), the rule's notes are
those of a fresh rule object -/
def start (c : Conf) (secs : Int) (eng0 : σ) : St σ χ :=
  { b := startBot c secs
    fpa := match c.who with | .friendly (some var) => some (var, {}) | _ => none
    eng := eng0, inside := none, wire := [], dead := none, entered := 0, calls := [], rets := [] }

/-! ### the schedule of the correspondence harness

The harness runs the real `PlayGame` with the real `Friendly` / `Taktician`; only the searching player is a stub that
waits for the scheduler, and the check engine answers what the scheduler says.  Thinkers take `moveLock` in the order
in which they were started (they are parked on the mutex one event apart) and everything in `GetMove` that does not
wait happens at once.  `settle` plays these spontaneous steps. -/

/-- the first thinker parked on the mutex -/
def firstWaiting (b : Bot.St) : Option Nat := (thinkers b).findIdx? (fun t => t.st = .waiting)

/-- the harness parks every `GetMove` call beyond this many per game (a rule that scripts an illegal move makes the
real loop ask again for ever) -/
def callCap : Nat := 200

/-- one spontaneous step, if there is one: the call in progress returns unless it waits for the searching player
(`think`) or for its context (`resign`, not yet cancelled); with the lock free the first parked thinker takes it -/
def spont [Inhabited χ] (c : Conf) (S : Searcher σ χ) (chk : CheckOracle) (s : St σ χ) : Option (St σ χ) :=
  if s.dead.isSome then none else
  match s.inside with
  | some call =>
    match call.act with
    | .think _ _ => none
    | _ =>
      let s' := leave c S s call.k default
      if s'.inside.isNone then some s' else none
  | none =>
    if !lockFree s.b || s.entered ≥ callCap then none else
    match firstWaiting s.b with
    | some k => some (enter c s k chk)
    | none => none

def settleN [Inhabited χ] (c : Conf) (S : Searcher σ χ) (chk : CheckOracle) : Nat → St σ χ → St σ χ
  | 0, s => s
  | n + 1, s =>
    match spont c S chk s with
    | none => s
    | some s' => settleN c S chk n s'

def settle [Inhabited χ] (c : Conf) (S : Searcher σ χ) (chk : CheckOracle) (s : St σ χ) : St σ χ :=
  settleN c S chk 2000 s

/-- one op of the harness: an event, then the spontaneous steps -/
def tieStep [Inhabited χ] (c : Conf) (S : Searcher σ χ) (chk : CheckOracle) (s : St σ χ) (e : Ev χ) : St σ χ :=
  settle c S chk (step c S s e)

/-- what the driver keeps between ops -/
structure Session where
  c : Conf
  st : St Unit Move
  chk : CheckOracle := { curV := 0, curDepth := 3, prevV := 0 }
  noGame : Bool := false

end Tak.Compose
