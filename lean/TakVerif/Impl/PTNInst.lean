import TakVerif.Impl.PTN

/-! Simple executable instances of the operations that `Impl/PTN.lean` takes as parameters, so that the
driver can run the PTN-file model on whole files.  They mirror `ptn.ParseMove` and `ptn.FormatMove`
(`ptn/move.go`); the byte-level models of those functions proper (C11/C13) belong to another work
package and can be substituted for these.  `ParseTPS` has no instance here: the driver gets its
answer for the one `TPS` tag of a file from the harness (see `Driver/OpsPTN.lean`). -/
namespace PTN.Inst
open Tak PTN

def isAnnot (b : UInt8) : Bool := b == 33 || b == 63 || b == 42 || b == 39    -- "!?*'"

/-- `tak.MkSlides` (every drop here is ≤ 8, so its panic is out of reach) -/
def mkSlides (drops : List Nat) : BitVec 32 :=
  drops.foldr (fun d out => Slides.prepend out d) 0#32

/-- the drop-count loop of `ParseMove`: `none` = "bad count" -/
def parseDrops : Bytes → List Nat → Int → Option (List Nat × Int)
  | [], slides, stack => some (slides, stack)
  | d :: ds, slides, stack =>
    if 49 ≤ d && d ≤ 56 then parseDrops ds (slides ++ [d.toNat - 48]) (stack - ((d.toNat - 48 : Nat) : Int))
    else if isAnnot d then some (slides, stack)
    else none

/-- `ptn.ParseMove`, every `return tak.Move{}, errors.New(…)` being `none` -/
def parseMove? (mv : Bytes) : Option Move :=
  let bad : Option Move := none
  if mv.length < 2 then bad else
  match mv with
  | [] => bad
  | c :: rest0 =>
    -- (type so far, stack, rest = move[i:])
    let hd : Nat × Int × Bytes :=
      if c == 70 then (Facts.mtPlaceFlat, 0, rest0)
      else if c == 83 then (Facts.mtPlaceStanding, 0, rest0)
      else if c == 67 then (Facts.mtPlaceCapstone, 0, rest0)
      else if 49 ≤ c && c ≤ 56 then (0, ((c.toNat - 48 : Nat) : Int), rest0)
      else (Facts.mtPlaceFlat, 0, mv)
    let ty := hd.1
    let stack := hd.2.1
    match hd.2.2 with
    | fx :: fy :: tail =>
      if !(97 ≤ fx && fx ≤ 104) then bad else
      if !(49 ≤ fy && fy ≤ 56) then bad else
      let x : Int := ((fx.toNat - 97 : Nat) : Int)
      let y : Int := ((fy.toNat - 49 : Nat) : Int)
      match tail with
      | [] => if stack != 0 then bad else some ⟨x, y, ty, 0#32⟩
      | d :: ds =>
        if isAnnot d then (if stack != 0 then bad else some ⟨x, y, ty, 0#32⟩) else
        let ty? : Option Nat :=
          if d == 60 then some Facts.mtSlideLeft
          else if d == 62 then some Facts.mtSlideRight
          else if d == 43 then some Facts.mtSlideUp
          else if d == 45 then some Facts.mtSlideDown
          else none
        match ty? with
        | none => bad
        | some ty =>
          let stack := if stack == 0 then 1 else stack
          match parseDrops ds [] stack with
          | none => bad
          | some (slides, stack) =>
            if stack < 0 then bad else
            let slides := if stack > 0 then slides ++ [stack.toNat] else slides
            some ⟨x, y, ty, mkSlides slides⟩
    | _ => bad                              -- len(move) < i+2

/-- `ptn.ParseMove` -/
def parseMove (mv : Bytes) : R Move :=
  match parseMove? mv with
  | some m => .ok m
  | none => .error (.illegal "ParseMove")

/-- `byte(c + v)` in `int8` arithmetic -/
def byteAdd (c : Nat) (v : Int) : UInt8 := UInt8.ofNat (((c : Int) + v) % 256).toNat

/-- `ptn.FormatMove` (`formatMove(m, false)`) -/
def formatMove (m : Move) : Bytes :=
  let elems := Slides.elems m.slides
  let stack := elems.foldl (· + ·) 0
  let out : Bytes := if m.slides != 0#32 && stack != 1 then [UInt8.ofNat ((48 + stack) % 256)] else []
  let out := out ++ (if m.type == Facts.mtPlaceCapstone then [67] else if m.type == Facts.mtPlaceStanding then [83] else [])
  let out := out ++ [byteAdd 97 m.x, byteAdd 49 m.y]
  let out := out ++ (if m.type == Facts.mtSlideLeft then [60] else if m.type == Facts.mtSlideRight then [62]
                     else if m.type == Facts.mtSlideUp then [43] else if m.type == Facts.mtSlideDown then [45] else [])
  let out := out ++ (if m.slides != 0#32 && elems.length != 1 then elems.map (fun e => UInt8.ofNat (48 + e)) else [])
  out

end PTN.Inst
