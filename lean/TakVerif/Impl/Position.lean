import TakVerif.Impl.Bitboard
import TakVerif.Generated.Facts

/-! Mirror of `tak/game.go`, `tak/hash.go`, `tak/pieces.go`: the bit-level position. -/
namespace Tak

/-- outcome classes of a Go call: a returned error, or a run-time panic at a named site -/
inductive Err where
  | illegal (why : String)
  | panic (site : String)
  | hang (site : String)
deriving Repr, DecidableEq, Inhabited

abbrev R := Except Err

/-- Go's `uint8`, `byte` -/
abbrev U8 := BitVec 8

/-- colours as in `tak/pieces.go` -/
inductive Color where | white | black | none
deriving Repr, DecidableEq, Inhabited

def Color.flip : Color → Color
  | .white => .black | .black => .white | .none => .none

def Color.code : Color → Nat
  | .white => Facts.colorWhite | .black => Facts.colorBlack | .none => 0

inductive Kind where | flat | standing | capstone
deriving Repr, DecidableEq, Inhabited

def Kind.code : Kind → Nat
  | .flat => Facts.kindFlat | .standing => Facts.kindStanding | .capstone => Facts.kindCapstone

/-- a piece is colour + kind (`MakePiece`); `Piece 0` (no piece) is `Option.none` in the model -/
structure Piece where
  color : Color
  kind : Kind
deriving Repr, DecidableEq, Inhabited

def Piece.code (p : Piece) : Nat := p.color.code ||| p.kind.code

def Piece.ofCode (n : Nat) : Option Piece :=
  let c := n &&& Facts.colorMask
  let k := n &&& Facts.typeMask
  let col := if c == Facts.colorWhite then some Color.white else if c == Facts.colorBlack then some Color.black else none
  let kd := if k == Facts.kindFlat then some Kind.flat else if k == Facts.kindStanding then some Kind.standing
            else if k == Facts.kindCapstone then some Kind.capstone else none
  match col, kd with
  | some c, some k => if n < 256 then some ⟨c, k⟩ else none
  | _, _ => none

def Piece.isRoad (p : Piece) : Bool := p.kind == .flat || p.kind == .capstone

/-- `tak.Config` -/
structure Cfg where
  size : Nat
  pieces : Nat
  capstones : Nat
  blackWinsTies : Bool
deriving Repr, DecidableEq, Inhabited

/-- `tak.Position`, field for field.  `wgroups/bgroups` are `analysis.WhiteGroups/BlackGroups`. -/
structure Pos where
  cfg : Cfg
  c : Consts
  whiteStones : U8
  whiteCaps : U8
  blackStones : U8
  blackCaps : U8
  move : Int
  white : W
  black : W
  standing : W
  caps : W
  height : Array U8
  stacks : Array W
  wgroups : List W
  bgroups : List W
  hash : W
deriving Repr, DecidableEq, Inhabited

def bit (i : Nat) : W := 1#64 <<< i

def Pos.size (p : Pos) : Nat := p.cfg.size

def Pos.toMove (p : Pos) : Color := if p.move % 2 == 0 then .white else .black

/-! ### hashing (`tak/hash.go`) -/

def hashAtRaw (basis : Array W) (height : Array U8) (stacks : Array W) (i : Nat) : W :=
  let h := height.getD i 0
  if h.toNat ≤ 1 then 0#64
  else Gen.hash64 (Gen.hash8 (basis.getD i 0) h) (stacks.getD i 0)

def Pos.hashAt (basis : Array W) (p : Pos) (i : Nat) : W := hashAtRaw basis p.height p.stacks i

/-- `Position.Hash()` -/
def Pos.hashOf (p : Pos) : W :=
  let h := p.hash
  let h := Gen.hash64 h p.white
  let h := Gen.hash64 h p.black
  let h := Gen.hash64 h p.standing
  let h := Gen.hash64 h p.caps
  Gen.hash8 h (BitVec.ofNat 8 p.toMove.code)

/-- `Position.Equal` -/
def Pos.equal (p q : Pos) : Bool :=
  p.cfg.size == q.cfg.size && p.hash == q.hash && p.white == q.white && p.black == q.black &&
  p.standing == q.standing && p.caps == q.caps && p.toMove == q.toMove &&
  (List.range p.height.size).all (fun i => p.height.getD i 0 == q.height.getD i 0 && p.stacks.getD i 0 == q.stacks.getD i 0)

/-! ### analysis and game end (`tak/game.go`) -/

/-- `analyze()`; `none` only if the flood fuel ran out (never, see `Proofs.Flood`) -/
def Pos.analyze (p : Pos) : Option Pos :=
  let wr := p.white &&& ~~~p.standing
  let br := p.black &&& ~~~p.standing
  match floodGroups p.c wr, floodGroups p.c br with
  | some wg, some bg => some { p with wgroups := wg, bgroups := bg }
  | _, _ => none

def isRoadGroup (c : Consts) (g : W) : Bool :=
  ((g &&& c.T != 0#64) && (g &&& c.B != 0#64)) || ((g &&& c.L != 0#64) && (g &&& c.R != 0#64))

/-- `hasRoad()` -/
def Pos.hasRoad (p : Pos) : Color × Bool :=
  let white := p.wgroups.any (isRoadGroup p.c)
  let black := p.bgroups.any (isRoadGroup p.c)
  if white && black then
    (if p.toMove == .white then (.black, true) else (.white, true))
  else if white then (.white, true)
  else if black then (.black, true)
  else (.white, false)

def Pos.countFlats (p : Pos) : Nat × Nat :=
  (popcount (p.white &&& ~~~(p.standing ||| p.caps)), popcount (p.black &&& ~~~(p.standing ||| p.caps)))

def Pos.flatsWinner (p : Pos) : Color :=
  let (cw, cb) := p.countFlats
  if cw > cb then .white else if cb > cw then .black
  else if p.cfg.blackWinsTies then .black else .none

/-- `GameOver()` (with fix C02-reserve-wrap: each reserve is tested counter by counter; the byte sum
`whiteStones+whiteCaps` wrapped to 0 for stones+capstones = 256) -/
def Pos.gameOver (p : Pos) : Bool × Color :=
  let (col, ok) := p.hasRoad
  if ok then (true, col)
  else if (p.whiteStones != 0#8 || p.whiteCaps != 0#8) && (p.blackStones != 0#8 || p.blackCaps != 0#8) &&
          (p.white ||| p.black) != p.c.Mask then (false, .none)
  else (true, p.flatsWinner)

inductive WinReason where | road | flats
deriving Repr, DecidableEq, Inhabited

structure WinDetails where
  over : Bool
  reason : WinReason
  winner : Color
  whiteFlats : Nat
  blackFlats : Nat
deriving Repr, DecidableEq, Inhabited

def Pos.winDetails (p : Pos) : WinDetails :=
  let (over, c) := p.gameOver
  let (w, b) := p.countFlats
  { over := over, winner := c, whiteFlats := w, blackFlats := b,
    reason := if p.hasRoad.2 then .road else .flats }

/-! ### construction -/

/-- `tak.New`; sizes outside 3..8 panic in `alloc` (and sizes > 8 already in the table lookups) -/
def Pos.new (cfg : Cfg) : R Pos :=
  if cfg.size ≥ Facts.defaultPieces.length then .error (.panic "New: defaultPieces index") else
  let pieces := if cfg.pieces == 0 then Facts.defaultPieces.getD cfg.size 0 else cfg.pieces
  let caps := if cfg.capstones == 0 then Facts.defaultCaps.getD cfg.size 0 else cfg.capstones
  if cfg.size < 3 ∨ cfg.size > 8 then .error (.panic "alloc: illegal size") else
  let n := cfg.size * cfg.size
  .ok { cfg := { cfg with pieces := pieces, capstones := caps }
        c := Gen.precompute cfg.size
        whiteStones := BitVec.ofNat 8 pieces, whiteCaps := BitVec.ofNat 8 caps
        blackStones := BitVec.ofNat 8 pieces, blackCaps := BitVec.ofNat 8 caps
        move := 0, white := 0, black := 0, standing := 0, caps := 0
        height := Array.replicate n 0#8, stacks := Array.replicate n 0#64
        wgroups := [], bgroups := [], hash := BitVec.ofNat 64 Facts.fnvBasis }

/-- `Position.Top` on an index -/
def Pos.topAt (p : Pos) (i : Nat) : Option Piece :=
  let c := if p.white.getLsbD i then some Color.white else if p.black.getLsbD i then some Color.black else none
  match c with
  | none => none
  | some c =>
    let k := if p.standing.getLsbD i then Kind.standing else if p.caps.getLsbD i then Kind.capstone else Kind.flat
    some ⟨c, k⟩

/-- `Position.At` on an index: the stack top first, then buried flats from just under the top down -/
def Pos.squareAt (p : Pos) (i : Nat) : List Piece :=
  match p.topAt i with
  | none => []
  | some t =>
    let h := (p.height.getD i 0).toNat
    let s := p.stacks.getD i 0
    t :: (List.range (h - 1)).map (fun j => if s.getLsbD j then ⟨.black, .flat⟩ else ⟨.white, .flat⟩)

/-- `FromSquares`: `board` row-major (a1 first), each square top first, pieces as raw bytes. -/
def Pos.fromSquares (basis : Array W) (cfg : Cfg) (board : List (List Nat)) (move : Int) : R Pos := do
  let p0 ← Pos.new cfg
  let p0 := { p0 with move := move }
  let n := cfg.size * cfg.size
  if board.length < n then .error (.panic "FromSquares: board index") else
  let rec go (i : Nat) (rest : List (List Nat)) (p : Pos) : R Pos :=
    match rest with
    | [] => .ok p
    | sq :: rest =>
      if i ≥ n then .ok p else
      match sq with
      | [] => go (i+1) rest p
      | top :: _ =>
        let tc := top &&& Facts.colorMask
        let tk := top &&& Facts.typeMask
        let p := if tc == Facts.colorWhite then { p with white := p.white ||| bit i }
                 else if tc == Facts.colorBlack then { p with black := p.black ||| bit i } else p
        let p := if tk == Facts.kindCapstone then { p with caps := p.caps ||| bit i }
                 else if tk == Facts.kindStanding then { p with standing := p.standing ||| bit i } else p
        let rec pieces (j : Nat) (l : List Nat) (p : Pos) : R Pos :=
          match l with
          | [] => .ok p
          | pc :: l =>
            let wC := Facts.colorWhite ||| Facts.kindCapstone
            let bC := Facts.colorBlack ||| Facts.kindCapstone
            let wF := Facts.colorWhite ||| Facts.kindFlat
            let wS := Facts.colorWhite ||| Facts.kindStanding
            let bF := Facts.colorBlack ||| Facts.kindFlat
            let bS := Facts.colorBlack ||| Facts.kindStanding
            let p? : Option Pos :=
              if pc == wC then some { p with whiteCaps := p.whiteCaps - 1 }
              else if pc == bC then some { p with blackCaps := p.blackCaps - 1 }
              else if pc == wF || pc == wS then some { p with whiteStones := p.whiteStones - 1 }
              else if pc == bF || pc == bS then some { p with blackStones := p.blackStones - 1 }
              else none
            match p? with
            | none => .error (.illegal "bad stone")
            | some p =>
              let p := if j ≠ 0 ∧ (pc &&& Facts.colorMask) == Facts.colorBlack
                       then { p with stacks := p.stacks.setIfInBounds i (p.stacks.getD i 0 ||| bit (j-1)) } else p
              pieces (j+1) l p
        match pieces 0 sq p with
        | .error e => .error e
        | .ok p =>
          let p := { p with height := p.height.setIfInBounds i (BitVec.ofNat 8 sq.length) }
          let p := { p with hash := p.hash ^^^ p.hashAt basis i }
          go (i+1) rest p
  let p ← go 0 board p0
  match p.analyze with
  | some p => .ok p
  | none => .error (.hang "analyze")

end Tak
