import TakVerif.Impl.Bot

/-! The grace timers of `handleMove` under real time (work package c07timer).

`Impl/Bot.lean` has one timer event, `timerFires`: "the `time.After` channel the variable `timeout` holds
delivers".  That is all the loop can see, but it is not all there is: every server move applied by the loop calls
`time.After(500ms)` and OVERWRITES `timeout`; the channel it held before, and the channel a finished invocation
held when it returned, stay armed in the runtime and expire later with nobody selecting on them.  Real time is
monotone and all grace periods have the same length, so timers expire in the order of their creation: before
the timer `timeout` holds can deliver, every older one has expired.  In a world described without timestamps the
only event the clock can produce is therefore

* `expire` - the OLDEST timer that was created and has not expired yet expires.

It is independent of the program (the environment does not need to know which channel the program still looks
at), so a program that arms its timers differently meets the same events and shows a different behaviour: the
tie runs this event (`ev timer`, `harness/verifh/ops_bot.go`) against the real loop, whose `time.After` calls all
go to the scheduler's queue.  In the code as it is an expiry of an older ("stale") timer does nothing - the grace
period runs from the LAST server move -; this layer says so: `stale` counts the armed timers nobody looks at, all
of them older than the live one, and `expire` pops one of them before it lets `timerFires` happen.

`TakVerif/Props/C07_timer.lean`: the `St` component of every timed run is an untimed run (`Bot.run`) of the
events with the stale expiries erased, so all theorems about `Bot.run` hold for the timed system. -/
namespace Tak.Bot

/-- does this event make the loop call `time.After`?  The one call site is the end of `case "P", "M"`:
a line of this game (or a `Tell` line, whose arm has no `continue`) with `bits[1]` = `P`/`M` whose move
`ParseServer` accepts and `g.p.Move` applies. -/
def arms (cfg : Conf) (s : St) : Ev → Bool
  | .deliver (b0 :: b1 :: _) (some m) _ =>
    decide (s.status = .running) && (decide (b0 = cfg.gameStr) || decide (b0 = "Tell")) &&
      (decide (b1 = "P") || decide (b1 = "M")) &&
      (match s.p.apply cfg.basis m with | .ok _ => true | .error _ => false)
  | _ => false

/-- the newest timer is looked at: the loop runs and `timeout != nil` in the current invocation -/
def live (s : St) : Bool := decide (s.status = .running) && s.timeout

/-- the bot with its clock: `stale` = timers armed (created, not expired) that no `select` will ever look at -/
structure Timed where
  st : St
  stale : Nat := 0
deriving Inhabited

inductive TEv where
  | ev (e : Ev)     -- anything but the clock (`ev .timerFires` is not an event of the timed system: ignored)
  | expire          -- the oldest armed timer expires
deriving Inhabited

def isTimer : Ev → Bool
  | .timerFires => true
  | _ => false

/-- the live timer is abandoned by this step: overwritten by a new one, or its invocation returned
(`return false`: a new invocation, `timeout` is a fresh nil variable), or the loop is gone -/
def abandons (cfg : Conf) (s : St) (e : Ev) : Bool :=
  live s && (arms cfg s e || (step cfg s e).old.length != s.old.length || decide ((step cfg s e).status ≠ .running))

def tstep (cfg : Conf) (t : Timed) : TEv → Timed
  | .ev e =>
    if isTimer e then t
    else { st := step cfg t.st e, stale := t.stale + (if abandons cfg t.st e then 1 else 0) }
  | .expire =>
    if t.stale > 0 then { t with stale := t.stale - 1 }   -- a stale timer: nobody receives from its channel
    else { t with st := step cfg t.st .timerFires }       -- the live one (if any): `case <-timeout:`

def trun (cfg : Conf) (t : Timed) (evs : List TEv) : Timed := evs.foldl (tstep cfg) t

/-- the untimed events a timed schedule amounts to: stale expiries (and stray `timerFires`) erased -/
def erase (cfg : Conf) : Timed → List TEv → List Ev
  | _, [] => []
  | t, .ev e :: r => (if isTimer e then [] else [e]) ++ erase cfg (tstep cfg t (.ev e)) r
  | t, .expire :: r => (if t.stale > 0 then [] else [Ev.timerFires]) ++ erase cfg (tstep cfg t .expire) r

/-- what the clock op of the tie answers -/
def expireResult (t : Timed) : String :=
  if t.stale > 0 then "stale" else if live t.st then "fired" else "idle"

/-- one op of the harness: an event, then the spontaneous thinker steps (`Bot.settleEvs`).  A stale expiry wakes
nobody up: no thinker step follows it. -/
def ttieStep (cfg : Conf) (t : Timed) (e : TEv) : Timed :=
  let t1 := tstep cfg t e
  match e with
  | .expire => if t.stale > 0 then t1 else trun cfg t1 ((settleEvs t1.st).map .ev)
  | .ev _ => trun cfg t1 ((settleEvs t1.st).map .ev)

def ttieRun (cfg : Conf) (t : Timed) (evs : List TEv) : Timed := evs.foldl (ttieStep cfg) t

/-- "a long time passes": every armed timer expires, oldest first (`ev drain` of the tie; fuel = number of armed
timers + 1) -/
def drain (cfg : Conf) (t : Timed) : Timed :=
  ttieRun cfg t (List.replicate (t.stale + 1) .expire)

end Tak.Bot
