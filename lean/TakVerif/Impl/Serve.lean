import TakVerif.Impl.Minimax
import TakVerif.Impl.TPS
import TakVerif.Impl.PTNMove
import TakVerif.Impl.Symmetry
import TakVerif.Impl.Evaluate

/-! Mirror of `cmd/internal/serve/main.go`: the three gRPC handlers `Analyze`, `Canonicalize`, `IsPositionInTak`
of the `server` type and the engine cache `cache.getPlayer` they share.

The handlers are glue: everything they call is modelled elsewhere (`ptn.ParseTPS` = `Tak.TPS.parseTPS`,
`MinimaxAI.Analyze` = `Search.analyze`, `ptn.ParseMove/FormatMove` = `Tak.PTN.parseMove/formatMove`,
`symmetry.Canonical` = `Tak.canonical`, the evaluator `MakeEvaluator(size, nil)` = `Tak.evaluateDefault`).  The model
is therefore written against an `Env` that packages exactly those calls, and `takEnv` plugs the existing models in;
the theorems (`Props/C05_serve.lean`, `Props/C15_serve.lean`) are about the glue and hold for every `Env`.

Outcomes: `.ok resp` = the handler returns a response; `.error (.illegal _)` = it returns an error (the RPC fails,
the server lives on); `.error (.panic _)` = a Go panic inside the handler (grpc-go installs no recovery: the process
dies).  The mutex of each cache serialises the requests; the model is sequential.

Not modelled: the network, protobuf (un)marshalling, `Debug: 1` logging, the request context (the harness, like an
unary RPC without deadline, passes a context that is never cancelled). -/
namespace Tak.Serve
open Search Go

/-- the calls the handlers make outside their own file -/
structure Env (P M : Type) where
  /-- `ptn.ParseTPS(req.Position)` -/
  parseTPS : Bytes → R P
  /-- `p.Size()` -/
  size : P → Nat
  /-- what an engine built by `ai.NewMinimax(MinimaxConfig{Size: n, …})` calls on positions: the rules and the
  default evaluator `MakeEvaluator(n, nil)` -/
  game : Nat → Game P M
  /-- `p.Move(tak.Move{Type: tak.Pass})` -/
  pass : P → R P
  /-- `ptn.ParseMove` -/
  parseMove : Bytes → R M
  /-- `ptn.FormatMove` -/
  formatMove : M → Bytes
  /-- `symmetry.Canonical(int(req.Size), ms)` -/
  canonical : Int → List M → R (List M)
  /-- `defaultTableMem / sizeof(tableEntry)`: the table length `NewMinimax` allocates for `TableMem == 0` -/
  tableEntries : Nat

/-- `*ai.MinimaxAI` as the cache holds it: `Cfg.Size`, the normalised configuration, the state -/
structure Player (M : Type) where
  size : Nat
  cfg : Search.Cfg
  eng : Eng M

/-- `type cache struct { player; cfg; precise }` (of `cfg` only `Size` and `Depth` are ever compared).  The zero value
is what `&server{}` starts with. -/
structure Cache (M : Type) where
  size : Int := 0
  depth : Int := 0
  precise : Bool := false
  player : Option (Player M) := none

/-- `type server struct { analyzeCache, istakCache cache }` -/
structure Server (M : Type) where
  analyzeCache : Cache M := {}
  istakCache : Cache M := {}

instance {M : Type} : Inhabited (Cache M) := ⟨{}⟩
instance {M : Type} : Inhabited (Server M) := ⟨{}⟩

/-- the configuration `getPlayer` builds, after `NewMinimax`'s normalisation: `MinimaxConfig{Size, Depth, Debug: 1}`
(sorting, null move, slide reduction on; multi-cut, symmetry de-duplication off; default table), then `MakePrecise`
when asked -/
def playerCfg (tableEntries : Nat) (depth : Int) (precise : Bool) : Search.Cfg :=
  let opts : SOpts := {}
  { depth := if depth == 0 then Facts.maxDepth else depth
    tableEntries := some tableEntries
    opts := if precise then opts.makePrecise else opts }

/-- `ai.NewMinimax(c.cfg)` -/
def newPlayer {P M : Type} (env : Env P M) (size : Nat) (depth : Int) (precise : Bool) : Player M :=
  let cfg := playerCfg env.tableEntries depth precise
  { size := size, cfg := cfg, eng := Eng.new (env.game size) cfg }

/-- `cache.getPlayer(size, depth, precise)`: the engine is REPLACED when any of the three differs from the remembered
key, otherwise the cached one (with whatever its table holds by now) is handed out again.  Returns the new cache;
the player handed out is its `player` field. -/
def Cache.getPlayer {P M : Type} (env : Env P M) (c : Cache M) (size : Nat) (depth : Int) (precise : Bool) : Cache M :=
  if c.size != (size : Int) || c.depth != depth || c.precise != precise then
    { size := size, depth := depth, precise := precise, player := some (newPlayer env size depth precise) }
  else c

/-- did this `getPlayer` call build a new engine? -/
def Cache.replaces {M : Type} (c : Cache M) (size : Nat) (depth : Int) (precise : Bool) : Bool :=
  c.size != (size : Int) || c.depth != depth || c.precise != precise

inductive Resp where
  /-- `AnalyzeResponse{Pv, Value}` -/
  | analyze (pv : List Bytes) (value : Int)
  /-- `CanonicalizeResponse{Moves}` -/
  | canonicalize (moves : List Bytes)
  /-- `IsPositionInTakResponse{InTak, TakMove}` -/
  | isInTak (inTak : Bool) (takMove : Bytes)
deriving Repr, DecidableEq, Inhabited

/-- `player.Analyze(ctx, p)` on the cached engine: `Analyze` panics when the sizes differ, a nil player is a nil
dereference; the engine state after the call is the cached one from now on.  After a panic the process is gone; the
model keeps the key and drops the engine.  (The cache is taken apart and rebuilt so that the compiled driver updates
the engine's table in place instead of copying it.) -/
def callPlayer {P M : Type} [DecidableEq M] (env : Env P M) (o : Oracle M) (c : Cache M) (p : P) :
    Except Err (List M × Int) × Cache M :=
  match c with
  | ⟨size, depth, precise, none⟩ => (.error (.panic "nil *MinimaxAI"), ⟨size, depth, precise, none⟩)
  | ⟨size, depth, precise, some ⟨psize, cfg, eng⟩⟩ =>
    if psize != env.size p then (.error (.panic "Analyze: wrong size"), ⟨size, depth, precise, none⟩) else
    match Search.analyze (env.game psize) cfg o p eng with
    | .error e => (.error e, ⟨size, depth, precise, none⟩)
    | .ok ((pv, v, _), eng) => (.ok (pv, v), ⟨size, depth, precise, some ⟨psize, cfg, eng⟩⟩)

/-- `(*server).Analyze`.  `o` is the environment of the one `MinimaxAI.Analyze` call (move order of `sort.Sort`;
the cancel flag stays clear for a context that is never cancelled). -/
def analyze {P M : Type} [DecidableEq M] (env : Env P M) (o : Oracle M) (s : Server M)
    (position : Bytes) (depth : Int) (precise : Bool) : Except Err Resp × Server M :=
  match env.parseTPS position with
  | .error e => (.error e, s)
  | .ok p =>
    match s with
    | ⟨ac, ic⟩ =>
      match callPlayer env o (ac.getPlayer env (env.size p) depth precise) p with
      | (.error e, c) => (.error e, ⟨c, ic⟩)
      | (.ok (pv, v), c) => (.ok (.analyze (pv.map env.formatMove) v), ⟨c, ic⟩)

/-- the loop `for _, mstr := range req.Moves { mv, e := ptn.ParseMove(mstr); if e != nil { return nil, e } … }` -/
def parseMoves {P M : Type} (env : Env P M) : List Bytes → R (List M)
  | [] => .ok []
  | b :: rest =>
    match env.parseMove b with
    | .error e => .error e
    | .ok m =>
      match parseMoves env rest with
      | .error e => .error e
      | .ok ms => .ok (m :: ms)

/-- `(*server).Canonicalize` (touches no server state) -/
def canonicalize {P M : Type} (env : Env P M) (size : Int) (moves : List Bytes) : Except Err Resp :=
  match parseMoves env moves with
  | .error e => .error e
  | .ok ms =>
    match env.canonical size ms with
    | .error e => .error e
    | .ok out => .ok (.canonicalize (out.map env.formatMove))

/-- `(*server).IsPositionInTak`: a depth-1 precise analysis of the position after a pass; `pass, e := p.Move(Pass)`
ignores `e` (a failed pass would hand `nil` to `Analyze`); `pv[0]` is indexed without a length check -/
def isPositionInTak {P M : Type} [DecidableEq M] (env : Env P M) (o : Oracle M) (s : Server M)
    (position : Bytes) : Except Err Resp × Server M :=
  match env.parseTPS position with
  | .error e => (.error e, s)
  | .ok p =>
    match s with
    | ⟨ac, ic⟩ =>
      let c := ic.getPlayer env (env.size p) 1 true
      match env.pass p with
      | .error _ => (.error (.panic "Analyze: nil position"), ⟨ac, c⟩)
      | .ok q =>
        match callPlayer env o c q with
        | (.error e, c) => (.error e, ⟨ac, c⟩)
        | (.ok (pv, v), c) =>
          if v > Facts.winThreshold then
            match pv with
            | [] => (.error (.panic "pv[0]: index out of range"), ⟨ac, c⟩)
            | m :: _ => (.ok (.isInTak true (env.formatMove m)), ⟨ac, c⟩)
          else (.ok (.isInTak false []), ⟨ac, c⟩)

/-- one RPC; `analyze` and `isInTak` carry the environment of their engine call -/
inductive Req (M : Type) where
  | analyze (position : Bytes) (depth : Int) (precise : Bool) (o : Oracle M)
  | canonicalize (size : Int) (moves : List Bytes)
  | isInTak (position : Bytes) (o : Oracle M)

def Server.step {P M : Type} [DecidableEq M] (env : Env P M) (s : Server M) : Req M → Except Err Resp × Server M
  | .analyze position depth precise o => analyze env o s position depth precise
  | .canonicalize size moves => (canonicalize env size moves, s)
  | .isInTak position o => isPositionInTak env o s position

/-- a sequence of RPCs on one server object; a panic ends the process (the remaining requests get no answer) -/
def Server.run {P M : Type} [DecidableEq M] (env : Env P M) : Server M → List (Req M) → List (Except Err Resp) × Server M
  | s, [] => ([], s)
  | s, r :: rest =>
    match s.step env r with
    | (.error (.panic site), s') => ([.error (.panic site)], s')
    | (out, s') =>
      let (outs, s'') := Server.run env s' rest
      (out :: outs, s'')

/-! ### the Tak instance: the existing models plugged in -/

/-- `MakeEvaluator(size, nil)(&m.c, p)`.  `evaluate` can only fail where the Go code would panic (an index into the
weight vector or `p.Stacks`); `C18.eval_total` proves that this does not happen on well-formed positions (`RoadWF`,
which `ParseTPS`/`FromSquares` establish and `Move` keeps: C02/C01), so the `0` is never produced there; the
correspondence compares the values of depth-1 responses exactly. -/
def takEval (p : Pos) : Int :=
  match evaluateDefault p.c p with
  | .ok v => v
  | .error _ => 0

/-- `sizeof(tableEntry)`: `hash uint64, value int64, m tak.Move (8 bytes), bound uint8, depth int8`, padded to 32.
The correspondence compares `len(m.table)` of the real engines with `takEnv.tableEntries`. -/
def tableEntrySize : Nat := 32

def takEnv (basis : Array W) : Env Pos Move where
  parseTPS := TPS.parseTPS basis
  size p := p.cfg.size
  game _ := takGame basis takEval
  pass p := p.apply basis ⟨0, 0, Facts.mtPass, 0#32⟩
  parseMove := PTN.parseMove
  formatMove m := PTN.formatMove m false
  canonical size ms :=
    -- `tak.New(tak.Config{Size: size})` indexes `defaultPieces[size]` first
    if size < 0 then .error (.panic "New: defaultPieces index") else Tak.canonical basis size.toNat ms
  tableEntries := Facts.defaultTableMem / tableEntrySize

end Tak.Serve
