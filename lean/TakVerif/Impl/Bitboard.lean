import TakVerif.Generated.Funcs

/-! Mirror of `bitboard/bits.go` (the parts that are loops; `Precompute` and `Grow`
are regenerated from the source into `Gen`). -/
namespace Tak

abbrev W := BitVec 64
abbrev Consts := Gen.Constants

/-- `bitboard.Flood`: iterate `Grow` to a fixpoint.  The Go loop is unbounded; the model carries fuel
(65 suffices when `seed ⊆ within`, see `Proofs.Flood`) and reports `none` when it runs out. -/
def floodFuel (c : Consts) (within : W) : Nat → W → Option W
  | 0, _ => none
  | n+1, seed =>
    let next := Gen.grow c within seed
    if next == seed then some next else floodFuel c within n next

def flood (c : Consts) (within seed : W) : Option W := floodFuel c within 66 seed

/-- `bitboard.FloodGroups`; loop over the set bits of `bits` from the lowest, fuel 65. -/
def floodGroupsFuel (c : Consts) (all : W) : Nat → W → W → List W → Option (List W)
  | 0, bits, _, out => if bits == 0#64 then some out else none
  | n+1, bits, seen, out =>
    if bits == 0#64 then some out else
    let next := bits &&& (bits - 1#64)
    let bit := bits &&& ~~~next
    if seen &&& bit == 0#64 then
      -- NB Go floods within the *remaining* bits (`bits` is reassigned each round)
      match flood c bits bit with
      | none => none
      | some g =>
        let out := if g != bit then out ++ [g] else out
        floodGroupsFuel c all n next (seen ||| g) out
    else floodGroupsFuel c all n next seen out

def floodGroups (c : Consts) (bits : W) : Option (List W) :=
  floodGroupsFuel c bits 65 bits 0#64 []

def popcountFuel : Nat → W → Nat
  | 0, _ => 0
  | n+1, x => if x == 0#64 then 0 else 1 + popcountFuel n (x &&& (x - 1#64))

/-- `bitboard.Popcount` (any correct popcount: compared by correspondence). -/
def popcount (x : W) : Nat := popcountFuel 64 x

/-- index of lowest set bit (`TrailingZeros`), 64 for 0 -/
def tzFuel : Nat → Nat → W → Nat
  | 0, k, _ => k
  | n+1, k, x => if x.getLsbD 0 then k else tzFuel n (k+1) (x >>> 1)
def trailingZeros (x : W) : Nat := if x == 0#64 then 64 else tzFuel 64 0 x

/-- `bitboard.Dimensions`.  The Go loops `for bits&b == 0 { b >>= 1 }` do not terminate when `bits`
has no bit inside the board (b becomes 0 and stays 0); modelled with fuel, `none` = hang. -/
def dimSkip (bits : W) (sh : Nat) : Nat → W → Option W
  | 0, _ => none
  | n+1, b => if bits &&& b == 0#64 then dimSkip bits sh n (b >>> sh) else some b
def dimCount (bits : W) (sh : Nat) : Nat → W → Nat → Nat
  | 0, _, k => k
  | n+1, b, k => if b != 0#64 && (bits &&& b != 0#64) then dimCount bits sh n (b >>> sh) (k+1) else k

def dimensions (c : Consts) (bits : W) : Option (Nat × Nat) :=
  if bits == 0#64 then some (0, 0) else
  match dimSkip bits 1 70 c.L with
  | none => none
  | some b =>
    let w := dimCount bits 1 70 b 0
    match dimSkip bits c.Size 70 c.T with
    | none => none
    | some b2 =>
      let h := dimCount bits c.Size 70 b2 0
      some (w, h)

end Tak
