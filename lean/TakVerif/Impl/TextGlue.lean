import TakVerif.Impl.PTN
import TakVerif.Generated.FactsEval

/-! Mirror of the glue around two library decoders:
`playtak/client.go` `ParseTell/ParseShout/ParseShoutRoom` (around `regexp.FindStringSubmatch`) and
`ai/json.go` `(*Weights).UnmarshalJSON` (around `encoding/json.Unmarshal`).
The libraries themselves are parameters with their documented contract as an explicit predicate;
`regexp` and `encoding/json` internals are assumed total and are not modelled. -/
namespace TextGlue
open Tak PTN

/-! ### chat lines -/

/-- `(*Regexp).FindStringSubmatch`: `none` = nil (no match), else the match and its groups -/
structure RegexpLib where
  findSubmatch : (re : String) → Bytes → Option (List Bytes)

/-- number of capturing groups: unescaped `(` not followed by `?` (enough for the three literals) -/
def numGroups (re : String) : Nat :=
  let rec go : List Char → Nat
    | [] => 0
    | '\\' :: _ :: cs => go cs
    | '(' :: '?' :: cs => go cs
    | '(' :: cs => 1 + go cs
    | _ :: cs => go cs
  go re.toList

/-- documented contract of `FindStringSubmatch`: a non-nil result has one entry per group plus one -/
def RegexpLib.Contract (lib : RegexpLib) : Prop :=
  ∀ re line gs, lib.findSubmatch re line = some gs → gs.length = numGroups re + 1

/-- `gs[i]` with Go's bounds check -/
def idx (gs : List Bytes) (i : Nat) : R Bytes :=
  match gs[i]? with
  | some g => .ok g
  | none => .error (.panic "index out of range")

/-- `playtak.ParseTell` -/
def parseTell (lib : RegexpLib) (line : Bytes) : R (List Bytes) :=
  match lib.findSubmatch Facts.tellRE line with
  | none => .ok [[], []]
  | some gs => do
    let a ← idx gs 1
    let b ← idx gs 2
    pure [a, b]

/-- `playtak.ParseShout` -/
def parseShout (lib : RegexpLib) (line : Bytes) : R (List Bytes) :=
  match lib.findSubmatch Facts.shoutRE line with
  | none => .ok [[], []]
  | some gs => do
    let a ← idx gs 1
    let b ← idx gs 2
    pure [a, b]

/-- `playtak.ParseShoutRoom` -/
def parseShoutRoom (lib : RegexpLib) (line : Bytes) : R (List Bytes) :=
  match lib.findSubmatch Facts.shoutRoomRE line with
  | none => .ok [[], [], []]
  | some gs => do
    let a ← idx gs 1
    let b ← idx gs 2
    let c ← idx gs 3
    pure [a, b, c]

/-! An executable reading of the three regular expressions (used by the driver; compared with the real
`regexp` package on every run).  All three are anchored and have a unique parse:
a negated class / `\S` run is maximal because the byte after it must be outside the class. -/

def stripPrefix (p s : Bytes) : Option Bytes :=
  if p.isPrefixOf s then some (s.drop p.length) else none

/-- `<([^> ]+)> (.+)$` on the remaining bytes: the two groups -/
def matchWhoMsg (s : Bytes) : Option (Bytes × Bytes) :=
  match s with
  | 60 :: s =>
    let who := s.takeWhile (fun b => b != 62 && b != 32)
    if who.isEmpty then none else
    match s.drop who.length with
    | 62 :: 32 :: msg => if msg.isEmpty || msg.contains 10 then none else some (who, msg)
    | _ => none
  | _ => none

/-- Perl class `\s` = `[\t\n\f\r ]` -/
def isPerlSpace (b : UInt8) : Bool := b == 9 || b == 10 || b == 12 || b == 13 || b == 32

/-- the bytes of an ASCII string literal -/
def bytesOf (s : String) : Bytes := s.toList.map (fun c => UInt8.ofNat c.toNat)

def matchRE (re : String) (line : Bytes) : Option (List Bytes) :=
  if re == Facts.tellRE then
    (stripPrefix (bytesOf "Tell ") line).bind fun s => (matchWhoMsg s).map fun (a, b) => [line, a, b]
  else if re == Facts.shoutRE then
    (stripPrefix (bytesOf "Shout ") line).bind fun s => (matchWhoMsg s).map fun (a, b) => [line, a, b]
  else if re == Facts.shoutRoomRE then
    (stripPrefix (bytesOf "ShoutRoom ") line).bind fun s =>
      let room := s.takeWhile (fun b => !isPerlSpace b)
      if room.isEmpty then none else
      match s.drop room.length with
      | 32 :: s => (matchWhoMsg s).map fun (a, b) => [line, room, a, b]
      | _ => none
  else none

def regexpInst : RegexpLib := ⟨matchRE⟩

/-! ### evaluation-weight JSON -/

/-- `json.Unmarshal(bs, &h)` with `h : map[string]int64`: an error, or the decoded map as an
association list with distinct keys, in the (arbitrary) order in which `range h` visits it -/
structure JsonLib where
  unmarshalMap : Bytes → R (List (Bytes × Int))

/-- the names `Feature(i).String()` for `i < MaxFeature`, cut out of stringer's tables -/
def featureNames : List Bytes :=
  let blob := bytesOf Facts.featureNameBlob
  (List.range Facts.maxFeature).map fun i =>
    let a := Facts.featureIndex.getD i 0
    let b := Facts.featureIndex.getD (i + 1) 0
    (blob.drop a).take (b - a)

/-- `featureNames[k]` for the map built by `init` from the name table `names`: the index of the key -/
def lookupFeature (names : List Bytes) (k : Bytes) : Option Nat :=
  let i := names.findIdx (· == k)
  if i < names.length then some i else none

/-- the body of the `for k, v := range h` loop of `UnmarshalJSON` (`ws[f] = v` with Go's bounds check) -/
def assignOne (names : List Bytes) (ws : Array Int) (k : Bytes) (v : Int) : R (Array Int) :=
  match lookupFeature names k with
  | none => .error (.illegal "Unknown feature")
  | some f =>
    if f < ws.size then .ok (ws.setIfInBounds f v)
    else .error (.panic "Weights index out of range")

/-- the `for k, v := range h` loop -/
def assignLoop (names : List Bytes) : List (Bytes × Int) → Array Int → R (Array Int)
  | [], ws => .ok ws
  | (k, v) :: h, ws =>
    match assignOne names ws k v with
    | .error e => .error e
    | .ok ws => assignLoop names h ws

/-- `(*Weights).UnmarshalJSON`; `names` is the feature-name table (`featureNames` in the real program),
`ws` the receiver array of `MaxFeature` entries -/
def unmarshalWeights (lib : JsonLib) (names : List Bytes) (ws : Array Int) (bs : Bytes) : R (Array Int) :=
  match lib.unmarshalMap bs with
  | .error e => .error e
  | .ok h => assignLoop names h ws

end TextGlue
