import TakVerif.Impl.Symmetry

/-! Mirror of `ai/opening.go`: `BuildOpeningBook` and `OpeningBook.GetMove`.
The book is taken as a list of move sequences (the PTN text of each move is parsed by
`ptn.ParseMove`, which is the subject of C11); `math/rand` is an arbitrary oracle. -/
namespace Tak

/-- `child` -/
structure BookChild where
  move : Move
  weight : Nat
deriving Repr, DecidableEq, Inhabited

/-- `openingPosition`, together with its key in the `book` map -/
structure BookPos where
  hash : W
  p : Pos
  moves : List BookChild
deriving Repr, Inhabited

/-- `OpeningBook`; the Go map is only ever read by key, so an association list in insertion order -/
structure Book where
  size : Nat
  entries : List BookPos
deriving Repr, Inhabited

def Book.find (b : Book) (h : W) : Option BookPos := b.entries.find? (fun e => e.hash == h)

/-- the child update: `ch.weight++` on the child `Equal` to `sm`, appended with weight 0 first if absent -/
def bumpChild (sm : Move) : List BookChild → List BookChild
  | [] => [{ move := sm, weight := 1 }]
  | c :: cs => if c.move.equal sm then { c with weight := c.weight + 1 } :: cs else c :: bumpChild sm cs

/-- body of `for _, sym := range rs` for one image -/
def Book.addImage (size : Nat) (b : Book) (q : Pos) (k : Fin 8) (m : Move) : R Book := do
  let h := q.hashOf
  let sm ← transformMove size [k] m
  match b.find h with
  | some _ =>
    pure { b with entries := b.entries.map (fun e => if e.hash == h then { e with moves := bumpChild sm e.moves } else e) }
  | none =>
    pure { b with entries := b.entries ++ [{ hash := h, p := q, moves := bumpChild sm [] }] }

/-- one book line, from position `p` -/
def Book.addLine (basis : Array W) (size : Nat) : List Move → Pos → Book → R Book
  | [], _, b => .ok b
  | m :: ms, p, b => do
    let rs ← symmetries basis p
    let b ← rs.foldlM (fun b (qk : Pos × Fin 8) => Book.addImage size b qk.1 qk.2 m) b
    let p ← p.apply basis m
    Book.addLine basis size ms p b

/-- `BuildOpeningBook(size, lines)` -/
def buildOpeningBook (basis : Array W) (size : Nat) (lines : List (List Move)) : R Book :=
  lines.foldlM (fun b line => do
    let p ← Pos.new { size := size, pieces := 0, capstones := 0, blackWinsTies := false }
    Book.addLine basis size line p b) { size := size, entries := [] }

/-- the selection loop of `GetMove`; `rnd i n` stands for the `i`-th call `r.Int31n(n)` -/
def pickChild (rnd : Nat → Nat → Nat) : List BookChild → Nat → Nat → Move → R Move
  | [], _, _, out => .ok out
  | ch :: rest, i, sum, out =>
    let sum := sum + ch.weight
    -- `Int31n` panics on a non-positive argument (`int32(sum)` wraps at 2^31)
    if sum % 4294967296 = 0 ∨ sum % 4294967296 ≥ 2147483648 then .error (.panic "Int31n: invalid argument") else
    let out := if rnd i sum < ch.weight then ch.move else out
    pickChild rnd rest (i + 1) sum out

/-- `OpeningBook.GetMove(p, r)`: `none` is `(Move{}, false)` -/
def Book.getMove (b : Book) (p : Pos) (rnd : Nat → Nat → Nat) : R (Option Move) :=
  match b.find p.hashOf with
  | none => .ok none
  | some e => do
    let m ← pickChild rnd e.moves 0 0 { x := 0, y := 0, type := 0, slides := 0#32 }
    pure (some m)

end Tak
