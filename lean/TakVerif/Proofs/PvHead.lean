import TakVerif.Proofs.SearchLoop

/-! Where the moves of a principal variation come from (C04, every configuration).

The search never invents a move value: whatever it returns in a PV or stores in the engine state (table
entries, response map, PV buffers) is a move the generator produced for some visited position, or a hint it
found in the engine state / was handed by the caller.  And a hint is only ever *played* after
`MovePreallocated` accepted it.  This file fixes the vocabulary and proves the rule for the generator loop:

* `Accepts g p m` – `MovePreallocated(m)` succeeds in `p`; `Replays g p l` – the line `l` replays from `p`.
* `Prov g o Q N D` – the hypotheses of the induction, all of them trivially true in the degenerate cases:
  `Q` a predicate on move values that holds for every generated move of a position of `N` (and is kept by the
  sort oracle), `N` a set of positions closed under applied moves (the positions a search from the root
  visits), `D` a set of positions such that a move accepted in a visited position is accepted in every
  position of `D` with the same hash (`D = ∅`: nothing assumed; `D = N` with an injective hash: the
  no-collision hypothesis among the positions the engine ever sees).
* `EngOK g Q D s` – the engine state holds only `Q`-moves as hints, and the move of every *exact* table entry is
  accepted in every position of `D` that would find the entry.
* `iterate_q` – the loop rule: the body only ever sees `(m, child)` with `apply p m = ok child` **and** `Q m`. -/
namespace Search
open Tak (Err)

variable {P M : Type}

/-- `MovePreallocated(m)` succeeds in `p` -/
def Accepts (g : Game P M) (p : P) (m : M) : Prop := ∃ c, g.apply p m = .ok c

/-- the line replays from `p`: every move is accepted in the position the previous ones lead to -/
def Replays (g : Game P M) : P → List M → Prop
  | _, [] => True
  | p, m :: ms => ∃ c, g.apply p m = .ok c ∧ Replays g c ms

theorem Replays.head {g : Game P M} {p : P} {m : M} {ms : List M} (h : Replays g p (m :: ms)) : Accepts g p m := by
  obtain ⟨c, hc, _⟩ := h
  exact ⟨c, hc⟩

theorem Replays.single {g : Game P M} {p : P} {m : M} (h : Accepts g p m) : Replays g p [m] := by
  obtain ⟨c, hc⟩ := h
  exact ⟨c, hc, trivial⟩

/-- the hypotheses under which the provenance induction runs -/
structure Prov (g : Game P M) (o : Oracle M) (Q : M → Prop) (N D : P → Prop) : Prop where
  /-- generated moves of visited positions are `Q`-moves -/
  gen : ∀ p, N p → ∀ m ∈ g.allMoves p, Q m
  /-- `sort.Sort` does not invent moves -/
  ord : ∀ k l x, (∀ y ∈ l, Q y) → x ∈ o.order k l → Q x
  /-- the visited positions are closed under applied moves (also the null move) -/
  closed : ∀ p m c, N p → g.apply p m = .ok c → N c
  /-- a move accepted in a visited position is accepted in the positions of `D` with the same hash -/
  compat : ∀ p q m, N p → D q → g.hash q = g.hash p → Accepts g p m → Accepts g q m

/-- a table entry: its move is a `Q`-move; an exact entry's move is accepted wherever (in `D`) the entry is found -/
def EntryOK (g : Game P M) (Q : M → Prop) (D : P → Prop) (e : TEntry M) : Prop :=
  Q e.m ∧ (e.bound = Facts.exactBound → ∀ q, D q → g.hash q = e.hash → Accepts g q e.m)

/-- the hints an engine state holds -/
structure EngOK (g : Game P M) (Q : M → Prop) (D : P → Prop) (s : Eng M) : Prop where
  table : ∀ (i : Nat) (e : TEntry M), s.table[i]? = some e → EntryOK g Q D e
  resp : ∀ k v, (k, v) ∈ s.response → Q v
  pv0 : ∀ (i : Nat) (x : M), s.pv0[i]? = some x → Q x

section eng
variable {g : Game P M} {Q : M → Prop} {D : P → Prop}

/-- `EngOK` looks at the table, the response map and the PV buffers only -/
theorem EngOK.of_eq {s s1 : Eng M} (h : EngOK g Q D s) (ht : s1.table = s.table) (hr : s1.response = s.response)
    (hp : s1.pv0 = s.pv0) : EngOK g Q D s1 :=
  ⟨fun i e hi => h.table i e (by rw [← ht]; exact hi), fun k v hv => h.resp k v (by rw [← hr]; exact hv),
   fun i x hi => h.pv0 i x (by rw [← hp]; exact hi)⟩

theorem EngOK.setEntry {s : Eng M} (h : EngOK g Q D s) (i : Nat) (e : TEntry M) (he : EntryOK g Q D e) :
    EngOK g Q D (s.setEntry i e) := by
  refine ⟨?_, h.resp, h.pv0⟩
  intro j e' hj
  unfold Eng.setEntry at hj
  dsimp only at hj
  rw [Array.getElem?_setIfInBounds] at hj
  split at hj
  · split at hj
    · cases hj; exact he
    · cases hj
  · exact h.table j e' hj

theorem EngOK.evict {s : Eng M} (h : EngOK g Q D s) (k : H) : EngOK g Q D (s.evict k) := by
  unfold Eng.evict
  split
  · exact h
  · rename_i e1 he1
    split
    · refine ⟨?_, h.resp, h.pv0⟩
      intro j e' hj
      dsimp only at hj
      rw [Array.getElem?_setIfInBounds] at hj
      split at hj
      · split at hj
        · cases hj; exact h.table _ e1 he1
        · cases hj
      · exact h.table j e' hj
    · exact h

theorem EngOK.setPv0 {s : Eng M} (h : EngOK g Q D s) (ply : Nat) (x : M) (hx : Q x) (site : String) :
    Sat (setA s.pv0 ply x site) (fun pv0 => EngOK g Q D { s with pv0 := pv0 }) := by
  unfold setA
  split
  · refine Sat.ok ⟨h.table, h.resp, ?_⟩
    intro j y hj
    dsimp only at hj
    rw [Array.getElem?_setIfInBounds] at hj
    split at hj
    · first
        | (cases hj; exact hx)
        | (split at hj
           · cases hj; exact hx
           · cases hj)
    · exact h.pv0 j y hj
  · exact Sat.error

theorem EngOK.getPv0 {s : Eng M} (h : EngOK g Q D s) (ply : Nat) (site : String) :
    Sat (getA s.pv0 ply site) (fun x => Q x) := by
  unfold getA
  split
  · rename_i x hx; exact Sat.ok (h.pv0 ply x hx)
  · exact Sat.error

theorem respGet_mem_pair [DecidableEq M] (l : List (M × M)) (k v : M) (h : respGet l k = some v) : (k, v) ∈ l := by
  induction l with
  | nil => cases h
  | cons kv rest ih =>
    obtain ⟨k', v'⟩ := kv
    simp only [respGet] at h
    split at h
    · rename_i hk; cases h; subst hk; exact List.mem_cons_self
    · exact List.mem_cons_of_mem _ (ih h)

theorem respPut_mem [DecidableEq M] (l : List (M × M)) (k v : M) (x : M × M) (h : x ∈ respPut l k v) :
    x ∈ l ∨ x = (k, v) := by
  induction l with
  | nil =>
    simp only [respPut, List.mem_cons, List.not_mem_nil, or_false] at h
    exact Or.inr h
  | cons kv rest ih =>
    obtain ⟨k', v'⟩ := kv
    simp only [respPut] at h
    split at h
    · rename_i hk
      rcases List.mem_cons.mp h with h | h
      · subst hk; exact Or.inr h
      · exact Or.inl (List.mem_cons_of_mem _ h)
    · rcases List.mem_cons.mp h with h | h
      · exact Or.inl (h ▸ List.mem_cons_self)
      · rcases ih h with h | h
        · exact Or.inl (List.mem_cons_of_mem _ h)
        · exact Or.inr h

theorem EngOK.recordCut [DecidableEq M] {s : Eng M} (h : EngOK g Q D s) (m : M) (hm : Q m) (mv ply : Nat) :
    Sat (recordCut s m mv ply) (fun s' => EngOK g Q D s') := by
  unfold Search.recordCut
  dsimp only
  split
  · split
    · exact Sat.error
    · refine Sat.ok ⟨h.table, ?_, h.pv0⟩
      intro k v hkv
      rcases respPut_mem _ _ _ _ hkv with h1 | h1
      · exact h.resp k v h1
      · cases h1; exact hm
  · exact Sat.ok ⟨h.table, h.resp, h.pv0⟩

theorem EngOK.load {s : Eng M} (h : EngOK g Q D s) (o : Oracle M) : EngOK g Q D (load o s).2 :=
  h.of_eq rfl rfl rfl

/-- `ttGet` hands out an entry of the table, and only under its own hash -/
theorem ttGet_q {s : Eng M} (h : EngOK g Q D s) (k : H) :
    Sat (ttGet s k) (fun te => ∀ e, te = some e → EntryOK g Q D e ∧ e.hash = k) := by
  unfold ttGet
  split
  · exact Sat.ok (fun e he => by cases he)
  · split
    · exact Sat.error
    · split
      · rename_i e1 e2 h1 h2
        split
        · rename_i hh
          refine Sat.ok (fun e he => ?_)
          cases he
          exact ⟨h.table _ e1 h1, by simpa using hh⟩
        · split
          · rename_i hh
            refine Sat.ok (fun e he => ?_)
            cases he
            exact ⟨h.table _ e2 h2, by simpa using hh⟩
          · exact Sat.ok (fun e he => by cases he)
      · exact Sat.error

theorem ttPut_q (o : Oracle M) {s : Eng M} (h : EngOK g Q D s) (k : H) :
    Sat (ttPut o s k) (fun x => EngOK g Q D x.2) := by
  unfold ttPut
  split
  · exact Sat.ok h
  · dsimp only
    split
    · exact Sat.ok (h.load o)
    · intro x hx
      cases hi : ttSlotIdx (Search.load o s).2 k with
      | error e => rw [hi] at hx; cases hx
      | ok i =>
        rw [hi] at hx
        have : x = (some i, (Search.load o s).2.evict k) := (Except.ok.inj hx).symm
        rw [this]
        exact (h.load o).evict k

/-- a new engine holds the zero move only (and no exact entry: fresh entries carry `lowerBound`) -/
theorem engOK_new (hz : Q g.zeroMove) (cfg : Cfg) : EngOK g Q D (Eng.new g cfg) := by
  refine ⟨?_, ?_, ?_⟩
  · intro i e hi
    simp only [Eng.new] at hi
    rw [Array.getElem?_replicate] at hi
    split at hi
    · cases hi
      exact ⟨hz, fun hb => by simp [Facts.exactBound] at hb⟩
    · cases hi
  · intro k v hkv
    simp only [Eng.new] at hkv
    cases hkv
  · intro i x hi
    simp only [Eng.new] at hi
    rw [Array.getElem?_replicate] at hi
    split at hi
    · cases hi; exact hz
    · cases hi

end eng

/-! ### the generator loop hands the body `Q`-moves only -/

section loop
variable {σ ρ : Type}

/-- postcondition of a loop: the invariant on normal exit, `Qb`/`Qr` on `break`/`return` -/
def LoopOut (I : σ → Eng M → Prop) (Qb : σ → Eng M → Prop) (Qr : ρ → Eng M → Prop) : Ctl σ ρ × Eng M → Prop
  | (.next a, s) => I a s
  | (.brk a, s) => Qb a s
  | (.ret r, s) => Qr r s

variable {g : Game P M} {p : P} {body : M → P → σ → Eng M → Except Err (Ctl σ ρ × Eng M)} {Q : M → Prop}
  {I : σ → Eng M → Prop} {Qb : σ → Eng M → Prop} {Qr : ρ → Eng M → Prop}

/-- contract of a loop body for `iterate_q` -/
def BodyQ (g : Game P M) (p : P) (body : M → P → σ → Eng M → Except Err (Ctl σ ρ × Eng M)) (Q : M → Prop)
    (I : σ → Eng M → Prop) (Qb : σ → Eng M → Prop) (Qr : ρ → Eng M → Prop) : Prop :=
  ∀ m c a s, g.apply p m = .ok c → Q m → I a s → Sat (body m c a s) (LoopOut I Qb Qr)

theorem tryMove_q (hb : BodyQ g p body Q I Qb Qr) (m : M) (hm : Q m) (a : σ) (s : Eng M) (hi : I a s) :
    Sat (tryMove g p body m a s) (LoopOut I Qb Qr) := by
  unfold tryMove
  cases h : g.apply p m with
  | ok c => exact hb m c a s h hm hi
  | error e =>
    cases e with
    | illegal w => exact Sat.ok hi
    | panic w => exact Sat.error
    | hang w => exact Sat.error

theorem andThen_q {r : Except Err (Ctl σ ρ × Eng M)} {k : σ → Eng M → Except Err (Ctl σ ρ × Eng M)}
    (h1 : Sat r (LoopOut I Qb Qr)) (h2 : ∀ a s, I a s → Sat (k a s) (LoopOut I Qb Qr)) :
    Sat (Ctl.andThen r k) (LoopOut I Qb Qr) := by
  unfold Ctl.andThen
  cases r with
  | error e => exact Sat.error
  | ok v =>
    rcases v with ⟨c, s⟩
    have h1' := h1 _ rfl
    cases c with
    | next a => exact h2 a s h1'
    | brk a => exact Sat.ok h1'
    | ret r => exact Sat.ok h1'

theorem runList_q (hb : BodyQ g p body Q I Qb Qr) (skip : M → Bool) (ms : List M) (hms : ∀ m ∈ ms, Q m) :
    ∀ (a : σ) (s : Eng M), I a s → Sat (runList g p body skip ms a s) (LoopOut I Qb Qr) := by
  induction ms with
  | nil => intro a s hi; exact Sat.ok hi
  | cons m ms ih =>
    intro a s hi
    simp only [runList]
    have ih' := ih (fun x hx => hms x (List.mem_cons_of_mem _ hx))
    split
    · exact ih' a s hi
    · exact andThen_q (tryMove_q hb m (hms m List.mem_cons_self) a s hi) ih'

/-- **the loop rule with provenance**: if the table hint, the PV hint, the response map of every state the loop
passes through and the generated moves are `Q`-moves, the body is run on accepted `Q`-moves only -/
theorem iterate_q [DecidableEq M] (hb : BodyQ g p body Q I Qb Qr) (cfg : SOpts) (o : Oracle M) (mg : MG M)
    (hte : ∀ e, mg.te = some e → Q e.m) (hpv : ∀ x rest, mg.pv = x :: rest → Q x)
    (hresp : ∀ a s, I a s → ∀ k v, (k, v) ∈ s.response → Q v)
    (hgen : ∀ m ∈ g.allMoves p, Q m) (hord : ∀ k l x, (∀ y ∈ l, Q y) → x ∈ o.order k l → Q x)
    (hsorts : ∀ a s k, I a s → I a { s with sorts := k })
    (a : σ) (s : Eng M) (hi : I a s) :
    Sat (iterate g cfg o p mg body a s) (LoopOut I Qb Qr) := by
  unfold iterate
  have h0 : Sat (stage0 g p mg body a s) (LoopOut I Qb Qr) := by
    unfold stage0
    cases hte' : mg.te with
    | none => exact Sat.ok hi
    | some e => exact tryMove_q hb e.m (hte e hte') a s hi
  have h1 : ∀ a s, I a s → Sat (stage1 g p mg body a s) (LoopOut I Qb Qr) := by
    intro a s hi
    unfold stage1
    cases hpv' : mg.pv with
    | nil => exact Sat.ok hi
    | cons m rest =>
      dsimp only
      split
      · exact Sat.ok hi
      · exact tryMove_q hb m (hpv m rest hpv') a s hi
  have h3 : ∀ r? a s, I a s → Sat (stage3 g cfg o p mg body r? a s) (LoopOut I Qb Qr) := by
    intro r? a s hi
    unfold stage3
    dsimp only
    split
    · exact runList_q hb _ _ (fun m hm => hord _ _ m hgen hm) a _ (hsorts a s _ hi)
    · exact runList_q hb _ _ hgen a s hi
  have h23 : ∀ a s, I a s → Sat (stage23 g cfg o p mg body a s) (LoopOut I Qb Qr) := by
    intro a s hi
    unfold stage23
    cases hr : respLookup mg.ply s with
    | error e => exact Sat.error
    | ok r? =>
      dsimp only
      refine andThen_q ?_ (h3 r?)
      cases r? with
      | none => exact Sat.ok hi
      | some r =>
        refine tryMove_q hb r ?_ a s hi
        unfold respLookup at hr
        split at hr
        · cases hr
        · split at hr
          · rename_i prev _
            have hr' : respGet s.response prev = some r := by
              injection hr
            exact hresp a s hi prev r (respGet_mem_pair _ _ _ hr')
          · cases hr
  exact andThen_q (andThen_q h0 h1) h23

end loop
end Search
