import TakVerif.Proofs.Stack
import TakVerif.Proofs.Norm

/-! How the blocks of `Pos.apply` act on the per-square view: one cell changes, all others stay. -/
namespace Tak

theorem Cell.ext' {a b : Cell} (h1 : a.w = b.w) (h2 : a.b = b.b) (h3 : a.s = b.s) (h4 : a.c = b.c)
    (h5 : a.h = b.h) (h6 : a.st = b.st) : a = b := by
  cases a; cases b; simp_all

/-- the cell after placing `pc` on an empty square -/
def Cell.place (c : Cell) (pc : Piece) : Cell :=
  { w := c.w || decide (pc.color = .white)
    b := c.b || !decide (pc.color = .white)
    s := c.s || decide (pc.kind = .standing)
    c := c.c || decide (pc.kind = .capstone)
    h := c.h + 1
    st := c.st }

theorem placed_cell (p next : Pos) (i : Nat) (pc : Piece) (hi : i < 64) (hh : i < next.height.size) (j : Nat) :
    (placed p next i pc).cell j = if j = i then (next.cell i).place pc else next.cell j := by
  by_cases hji : j = i
  · subst hji
    simp only [if_true]
    apply Cell.ext' <;> simp only [Pos.cell, placed, Cell.place]
    · split <;> simp [-BitVec.getLsbD_eq_getElem, setBit_getLsbD, hi, *]
    · split <;> simp [-BitVec.getLsbD_eq_getElem, setBit_getLsbD, hi, *]
    · split <;> simp [-BitVec.getLsbD_eq_getElem, setBit_getLsbD, hi, *]
    · split <;> simp [-BitVec.getLsbD_eq_getElem, setBit_getLsbD, hi, *]
    · rw [getD_setIfInBounds_eq _ _ _ _ hh]
  · simp only [hji, if_false]
    apply Cell.ext' <;> simp only [Pos.cell, placed]
    · split <;> simp [-BitVec.getLsbD_eq_getElem, setBit_getLsbD, hji]
    · split <;> simp [-BitVec.getLsbD_eq_getElem, setBit_getLsbD, hji]
    · split <;> simp [-BitVec.getLsbD_eq_getElem, setBit_getLsbD, hji]
    · split <;> simp [-BitVec.getLsbD_eq_getElem, setBit_getLsbD, hji]
    · rw [getD_setIfInBounds_ne _ _ _ _ _ hji]

theorem liftFrom_cell (basis : Array W) (next : Pos) (stack : W) (ct i : Nat) (hi : i < 64)
    (hh : i < next.height.size) (hs : i < next.stacks.size) (j : Nat) :
    (liftFrom basis next stack (next.height.getD i 0).toNat ct i).cell j =
      if j = i then (next.cell i).lift stack ct else next.cell j := by
  rw [liftFrom_eq]
  by_cases hji : j = i
  · subst hji
    simp only [if_true]
    apply Cell.ext' <;> simp only [Pos.cell, Pos.setStack, Cell.lift]
    · split
      · simp_all [-BitVec.getLsbD_eq_getElem, clrBit_getLsbD]
      · cases hb : stack.getLsbD ct <;> simp_all [-BitVec.getLsbD_eq_getElem, setBit_getLsbD, clrBit_getLsbD]
    · split
      · simp_all [-BitVec.getLsbD_eq_getElem, clrBit_getLsbD]
      · cases hb : stack.getLsbD ct <;> simp_all [-BitVec.getLsbD_eq_getElem, setBit_getLsbD, clrBit_getLsbD]
    · simp [-BitVec.getLsbD_eq_getElem, clrBit_getLsbD]
    · simp [-BitVec.getLsbD_eq_getElem, clrBit_getLsbD]
    · rw [getD_setIfInBounds_eq _ _ _ _ hh]
    · rw [getD_setIfInBounds_eq _ _ _ _ hs]
  · simp only [hji, if_false]
    apply Cell.ext' <;> simp only [Pos.cell, Pos.setStack]
    · split
      · simp_all [-BitVec.getLsbD_eq_getElem, clrBit_getLsbD]
      · cases hb : stack.getLsbD ct <;> simp_all [-BitVec.getLsbD_eq_getElem, setBit_getLsbD, clrBit_getLsbD]
    · split
      · simp_all [-BitVec.getLsbD_eq_getElem, clrBit_getLsbD]
      · cases hb : stack.getLsbD ct <;> simp_all [-BitVec.getLsbD_eq_getElem, setBit_getLsbD, clrBit_getLsbD]
    · simp [-BitVec.getLsbD_eq_getElem, clrBit_getLsbD, hji]
    · simp [-BitVec.getLsbD_eq_getElem, clrBit_getLsbD, hji]
    · rw [getD_setIfInBounds_ne _ _ _ _ _ hji]
    · rw [getD_setIfInBounds_ne _ _ _ _ _ hji]

theorem dropOn_cell (basis : Array W) (next : Pos) (top : Piece) (stack : W) (ct c i : Nat) (hi : i < 64)
    (hh : i < next.height.size) (hs : i < next.stacks.size) (j : Nat) :
    (dropOn basis next top stack ct c i).cell j =
      if j = i then (next.cell i).drop top stack ct c else next.cell j := by
  rw [dropOn_eq]
  by_cases hji : j = i
  · subst hji
    simp only [if_true]
    apply Cell.ext' <;> simp only [Pos.cell, Pos.setStack, Cell.drop]
    · split <;> simp [-BitVec.getLsbD_eq_getElem, setBit_getLsbD, clrBit_getLsbD, hi, *]
    · split <;> simp [-BitVec.getLsbD_eq_getElem, setBit_getLsbD, clrBit_getLsbD, hi, *]
    · split <;> simp [-BitVec.getLsbD_eq_getElem, setBit_getLsbD, hi, *]
    · split <;> simp [-BitVec.getLsbD_eq_getElem, setBit_getLsbD, hi, *]
    · rw [getD_setIfInBounds_eq _ _ _ _ hh]
    · rw [getD_setIfInBounds_eq _ _ _ _ hs]; rfl
  · simp only [hji, if_false]
    apply Cell.ext' <;> simp only [Pos.cell, Pos.setStack]
    · split <;> simp [-BitVec.getLsbD_eq_getElem, setBit_getLsbD, clrBit_getLsbD, hji]
    · split <;> simp [-BitVec.getLsbD_eq_getElem, setBit_getLsbD, clrBit_getLsbD, hji]
    · split <;> simp [-BitVec.getLsbD_eq_getElem, setBit_getLsbD, hji]
    · split <;> simp [-BitVec.getLsbD_eq_getElem, setBit_getLsbD, hji]
    · rw [getD_setIfInBounds_ne _ _ _ _ _ hji]
    · rw [getD_setIfInBounds_ne _ _ _ _ _ hji]

end Tak
