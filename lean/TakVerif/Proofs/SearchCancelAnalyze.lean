import TakVerif.Proofs.SearchCancel

/-! C16 at the level of `Analyze`: a cancelled call returns what the last completed iteration returned. -/
namespace Search
open Tak (Err)

variable {P M : Type} [DecidableEq M]

/-- the same configuration with another depth limit -/
def Cfg.withDepth (cfg : Cfg) (d : Int) : Cfg := { cfg with depth := d }

omit [DecidableEq M] in
theorem FalseUpTo.of_load {o : Oracle M} (hm : o.Monotone) {s : Eng M} (h : (load o s).1 = false) :
    FalseUpTo o (load o s).2 := by
  intro l e hl he
  have hl' : l ≤ s.loads := by have : (load o s).2.loads = s.loads + 1 := rfl; omega
  have he' : e ≤ s.evals := he
  cases hc : o.cancel l e with
  | false => rfl
  | true =>
    have := hm l s.loads e s.evals hl' he' hc
    have h2 : (load o s).1 = o.cancel s.loads s.evals := rfl
    rw [h2, this] at h
    cases h

/-- what a step under `o` (started in `s`) tells about the step under `o.never` -/
def StepPost (g : Game P M) (cfg : Cfg) (o : Oracle M) (p : P) (base i : Int) (a : ALoop M) (s : Eng M) :
    AOut M → Prop
  | .go a' s' => FalseUpTo o s' ∧ s'.hasTable = s.hasTable ∧ s.evals ≤ s'.evals ∧ a'.st.depth = i + base ∧
      analyzeStep g cfg o.never p base i a s = .ok (.go a' s')
  | .done a' s' => FalseUpTo o s' ∧ s'.hasTable = s.hasTable ∧ s.evals ≤ s'.evals ∧ a'.st.depth = i + base ∧
      analyzeStep g cfg o.never p base i a s = .ok (.done a' s')
  | .cancelled s' => s'.hasTable = s.hasTable ∧ s.evals ≤ s'.evals

/-- a completed iteration (`go`/`done`) saw the flag clear throughout, and is the iteration of the run in which
the flag is never set; it leaves `Stats.Depth` of the running statistics at `i + base` -/
theorem analyzeStep_loc (g : Game P M) (cfg : Cfg) {o : Oracle M} (hm : o.Monotone)
    (p : P) (base i : Int) (a : ALoop M) (s : Eng M) (x : AOut M)
    (h : analyzeStep g cfg o p base i a s = .ok x) : StepPost g cfg o p base i a s x := by
  have hloc := (search_loc (o := o) g cfg.opts (Facts.maxDepth - 0)).1 p 0 (i + base) a.ms
    (Facts.minEval - 1) (Facts.maxEval + 1) { s with st := { depth := i + base } }
  have hdef : ∀ o' : Oracle M, analyzeStep g cfg o' p base i a s =
      ((search g cfg.opts o' (Facts.maxDepth - 0)).1 p 0 (i + base) a.ms (Facts.minEval - 1)
        (Facts.maxEval + 1) { s with st := { depth := i + base } }).bind
        fun r => .ok (iterEnd cfg o' base i a r) := fun _ => rfl
  rw [hdef] at h
  cases hr : (search g cfg.opts o (Facts.maxDepth - 0)).1 p 0 (i + base) a.ms (Facts.minEval - 1)
      (Facts.maxEval + 1) { s with st := { depth := i + base } } with
  | error e => rw [hr] at h; cases h
  | ok r =>
    obtain ⟨⟨next, nv⟩, s1⟩ := r
    rw [hr] at h
    obtain ⟨hl1, he1, hd1, hh1, hsame⟩ := hloc (next, nv) s1 hr
    dsimp only at hl1 he1 hd1 hh1
    have hx : x = iterEnd cfg o base i a ((next, nv), s1) := (Except.ok.inj h).symm
    subst hx
    unfold iterEnd
    cases next with
    | none => exact ⟨hh1, he1⟩
    | some nx =>
      dsimp only
      cases hc : (load o s1).1 with
      | true =>
        simp only [if_true]
        exact ⟨hh1, he1⟩
      | false =>
        simp only [Bool.false_eq_true, if_false]
        have hfu := FalseUpTo.of_load hm hc
        have hfu1 : FalseUpTo o s1 := hfu.weaken (Nat.le_succ _) (Nat.le_refl _)
        have hnever := hsame hfu1
        have hl2 : (load o s1).2.hasTable = s.hasTable := hh1
        have hAd : (iterAcc i a nx nv (load o s1).2).st.depth = i + base := hd1
        have hnv : analyzeStep g cfg o.never p base i a s =
            .ok (iterDone cfg base i a nx nv (load o s1).2) := by
          rw [hdef, hnever]
          show Except.ok (iterEnd cfg o.never base i a ((some nx, nv), s1)) = _
          unfold iterEnd
          dsimp only
          rw [load_never]
          simp only [Bool.false_eq_true, if_false]
        rcases iterDone_cases cfg base i a nx nv (load o s1).2 with hcase | hcase
        · rw [hcase] at hnv ⊢
          exact ⟨hfu, hl2, he1, hAd, hnv⟩
        · rw [hcase] at hnv ⊢
          exact ⟨hfu, hl2, he1, hAd, hnv⟩


omit [DecidableEq M] in
/-- an iteration that goes on, at a depth that is not the configured limit, goes on under any other limit too -/
theorem iterDone_withDepth (cfg : Cfg) (base i : Int) (a : ALoop M) (nx : List M) (nv : Int) (s : Eng M)
    (A : ALoop M) (s' : Eng M) (h : iterDone cfg base i a nx nv s = .go A s') (hne : i + base ≠ cfg.depth)
    (D' : Int) : iterDone (cfg.withDepth D') base i a nx nv s = .go A s' := by
  unfold iterDone at h ⊢
  unfold Cfg.withDepth
  dsimp only at h ⊢
  by_cases hdec : (decide (nv > Facts.winThreshold) || decide (nv < -Facts.winThreshold)) = true
  · rw [if_pos hdec] at h; cases h
  · rw [if_neg hdec] at h ⊢
    by_cases hme : cfg.maxEvals > 0
    · by_cases hbig : s.st.evaluated *
          (if i > 2 then (iterAcc i a nx nv s).branchSum / (i - 1).toNat else 5) > cfg.maxEvals
      · -- under the configured limit the loop would have stopped here
        have : (decide (cfg.maxEvals > 0) && (i + base != cfg.depth)) = true := by simp [hme, hne]
        rw [if_pos this, if_pos hbig] at h
        cases h
      · have hgo : AOut.go (iterAcc i a nx nv s) s = AOut.go A s' := by
          have : (decide (cfg.maxEvals > 0) && (i + base != cfg.depth)) = true := by simp [hme, hne]
          rw [if_pos this, if_neg hbig] at h
          exact h
        by_cases hD : (decide (cfg.maxEvals > 0) && (i + base != D')) = true
        · rw [if_pos hD, if_neg hbig]; exact hgo
        · rw [if_neg hD]; exact hgo
    · have h1 : (decide (cfg.maxEvals > 0) && (i + base != cfg.depth)) = false := by simp [hme]
      have h2 : (decide (cfg.maxEvals > 0) && (i + base != D')) = false := by simp [hme]
      rw [h1] at h
      rw [h2]
      simpa using h

/-- a `go` step under `o.never` below the configured limit is a `go` step under any other depth limit -/
theorem analyzeStep_withDepth (g : Game P M) (cfg : Cfg) (o : Oracle M) (p : P) (base i : Int) (a : ALoop M)
    (s : Eng M) (A : ALoop M) (s' : Eng M)
    (h : analyzeStep g cfg o.never p base i a s = .ok (.go A s')) (hne : i + base ≠ cfg.depth) (D' : Int) :
    analyzeStep g (cfg.withDepth D') o.never p base i a s = .ok (.go A s') := by
  have hdef : ∀ c : Cfg, c.opts = cfg.opts → analyzeStep g c o.never p base i a s =
      ((search g cfg.opts o.never (Facts.maxDepth - 0)).1 p 0 (i + base) a.ms (Facts.minEval - 1)
        (Facts.maxEval + 1) { s with st := { depth := i + base } }).bind
        fun r => .ok (iterEnd c o.never base i a r) := by
    intro c hc; unfold analyzeStep pvSearch; rw [hc]
  rw [hdef cfg rfl] at h
  rw [hdef (cfg.withDepth D') rfl]
  cases hr : (search g cfg.opts o.never (Facts.maxDepth - 0)).1 p 0 (i + base) a.ms (Facts.minEval - 1)
      (Facts.maxEval + 1) { s with st := { depth := i + base } } with
  | error e => rw [hr] at h; cases h
  | ok r =>
    rw [hr] at h
    have hx : iterEnd cfg o.never base i a r = .go A s' := Except.ok.inj h
    show Except.ok (iterEnd (cfg.withDepth D') o.never base i a r) = _
    congr 1
    unfold iterEnd at hx ⊢
    cases hn : r.1.1 with
    | none => rw [hn] at hx; cases hx
    | some nx =>
      rw [hn] at hx
      dsimp only at hx ⊢
      rw [load_never] at hx ⊢
      simp only [Bool.false_eq_true, if_false] at hx ⊢
      exact iterDone_withDepth cfg base i a nx r.1.2 _ A s' hx hne D'


/-- the deepening loop under a monotone cancel oracle: either it is the loop of the run whose flag is never set,
or it was cancelled in some iteration and then returns, marked `Canceled`, exactly what the never-cancelled loop
limited to the depth `d` of the last completed iteration returns (`d` is the `Depth` it reports) -/
theorem analyzeLoop_cancel (g : Game P M) (cfg : Cfg) {o : Oracle M} (hm : o.Monotone) (p : P) (base : Int) :
    ∀ (n : Nat) (i : Int) (a : ALoop M) (s : Eng M) (r : ALoop M × Eng M),
      a.st.depth = i - 1 + base →
      analyzeLoop g cfg o p base n i a s = .ok r →
      analyzeLoop g cfg o.never p base n i a s = .ok r ∨
      ∃ aj sj, r.1 = { aj with st := { aj.st with canceled := true } } ∧ aj.st.depth ≤ cfg.depth ∧
        i - 1 + base ≤ aj.st.depth ∧
        analyzeLoop g (cfg.withDepth aj.st.depth) o.never p base n i a s = .ok (aj, sj) := by
  intro n
  induction n with
  | zero =>
    intro i a s r _ h
    left
    simpa [analyzeLoop] using h
  | succ n ih =>
    intro i a s r hdep h
    simp only [analyzeLoop] at h ⊢
    by_cases hcond : (!decide (i + base ≤ cfg.depth)) = true
    · rw [if_pos hcond] at h ⊢
      exact Or.inl h
    · rw [if_neg hcond] at h ⊢
      have hle : i + base ≤ cfg.depth := by simpa using hcond
      cases hstep : analyzeStep g cfg o p base i a s with
      | error e => rw [hstep] at h; cases h
      | ok x =>
        rw [hstep] at h
        have hpost := analyzeStep_loc g cfg hm p base i a s x hstep
        cases x with
        | cancelled s' =>
          dsimp only at h
          right
          refine ⟨a, s, (congrArg Prod.fst (Except.ok.inj h)).symm, by omega, by omega, ?_⟩
          -- limited to the depth already reached, the never-cancelled loop stops before this iteration
          have : (!decide (i + base ≤ (cfg.withDepth a.st.depth).depth)) = true := by
            unfold Cfg.withDepth; simp only [Bool.not_eq_true', decide_eq_false_iff_not]; omega
          simp only [this, if_true]
        | done a' s' =>
          dsimp only at h
          obtain ⟨_, _, _, _, hnv⟩ := hpost
          left
          rw [hnv]
          exact h
        | go a' s' =>
          dsimp only at h
          obtain ⟨_, _, _, hd', hnv⟩ := hpost
          rw [hnv]
          dsimp only
          rcases ih (i + 1) a' s' r (by omega) h with hA | ⟨aj, sj, h1, h2, hlim, h3⟩
          · exact Or.inl hA
          · right
            have hlim : i + base ≤ aj.st.depth := by omega
            refine ⟨aj, sj, h1, h2, by omega, ?_⟩
            -- the limited loop: this iteration is below or at the limit and goes on as before
            · have hc2 : (!decide (i + base ≤ (cfg.withDepth aj.st.depth).depth)) = false := by
                unfold Cfg.withDepth; simpa using hlim
              simp only [hc2, Bool.false_eq_true, if_false]
              by_cases hne : i + base = cfg.depth
              · -- then the limit is the configured depth itself
                have : cfg.withDepth aj.st.depth = cfg := by
                  unfold Cfg.withDepth
                  have : aj.st.depth = cfg.depth := by omega
                  rw [this]
                rw [this] at h3 ⊢
                rw [hnv]
                exact h3
              · rw [analyzeStep_withDepth g cfg o p base i a s a' s' hnv hne]
                exact h3


/-- enough fuel is enough: the loop bound `n` only has to cover the iterations up to `Cfg.Depth` -/
theorem analyzeLoop_fuel (g : Game P M) (cfg : Cfg) (o : Oracle M) (p : P) (base : Int) :
    ∀ (n : Nat) (i : Int) (a : ALoop M) (s : Eng M), cfg.depth + 1 ≤ i + base + n →
      analyzeLoop g cfg o p base (n + 1) i a s = analyzeLoop g cfg o p base n i a s := by
  intro n
  induction n with
  | zero =>
    intro i a s h
    have : (!decide (i + base ≤ cfg.depth)) = true := by
      simp only [Bool.not_eq_true', decide_eq_false_iff_not]; omega
    simp only [analyzeLoop, this, if_true]
  | succ n ih =>
    intro i a s h
    rw [analyzeLoop]
    conv => rhs; rw [analyzeLoop]
    split
    · rfl
    · cases analyzeStep g cfg o p base i a s with
      | error e => rfl
      | ok x =>
        cases x with
        | cancelled s' => rfl
        | done a' s' => rfl
        | go a' s' =>
          dsimp only
          exact ih (i + 1) a' s' (by omega)

theorem analyzeLoop_fuel_le (g : Game P M) (cfg : Cfg) (o : Oracle M) (p : P) (base : Int)
    (n n' : Nat) (hn : n ≤ n') (i : Int) (a : ALoop M) (s : Eng M) (h : cfg.depth + 1 ≤ i + base + n) :
    analyzeLoop g cfg o p base n' i a s = analyzeLoop g cfg o p base n i a s := by
  induction n' with
  | zero => have : n = 0 := by omega
            subst this; rfl
  | succ k ih =>
    by_cases hk : n = k + 1
    · subst hk; rfl
    · rw [analyzeLoop_fuel g cfg o p base k i a s (by omega)]
      exact ih (by omega)

/-- the deepening from a seed under a monotone oracle: the never-cancelled result, or the never-cancelled result
limited to the reported depth, marked `Canceled` -/
theorem analyzeFrom_cancel (g : Game P M) (cfg : Cfg) {o : Oracle M} (hm : o.Monotone) (p : P)
    (seed : Int × List M × Int) (s : Eng M)
    (ms : List M) (v : Int) (st : Stats) (s' : Eng M)
    (h : analyzeFrom g cfg o p seed s = .ok ((ms, v, st), s')) :
    analyzeFrom g cfg o.never p seed s = .ok ((ms, v, st), s') ∨
    (st.canceled = true ∧ st.depth ≤ cfg.depth ∧
      ∃ st0 s'', st = { st0 with canceled := true } ∧
        analyzeFrom g (cfg.withDepth st.depth) o.never p seed s = .ok ((ms, v, st0), s'')) := by
  obtain ⟨base, ms0, v0⟩ := seed
  unfold analyzeFrom at h ⊢
  dsimp only at h ⊢
  cases hl : analyzeLoop g cfg o p base (cfg.depth - base).toNat 1 ⟨ms0, v0, { depth := base }, 0, 0⟩ s with
  | error e => rw [hl] at h; cases h
  | ok r =>
    rw [hl] at h
    obtain ⟨af, sf⟩ := r
    dsimp only at h
    have hres : ((af.ms, af.v, af.st), sf) = ((ms, v, st), s') := Except.ok.inj h
    have h1 : af.ms = ms := congrArg (fun x => x.1.1) hres
    have h2 : af.v = v := congrArg (fun x => x.1.2.1) hres
    have h3 : af.st = st := congrArg (fun x => x.1.2.2) hres
    rcases analyzeLoop_cancel g cfg hm p base _ 1 _ _ (af, sf) (by dsimp only; omega) hl with
      hA | ⟨aj, sj, hr1, hr2, hr3, hr4⟩
    · left
      rw [hA]
      exact h
    · right
      dsimp only at hr1 hr3
      have hd : st.depth = aj.st.depth := by rw [← h3, hr1]
      have hc : st.canceled = true := by rw [← h3, hr1]
      refine ⟨hc, by omega, aj.st, sj, by rw [← h3, hr1], ?_⟩
      rw [hd]
      -- the limited call has less fuel, which is still enough
      have hfuel := analyzeLoop_fuel_le g (cfg.withDepth aj.st.depth) o.never p base
        ((cfg.withDepth aj.st.depth).depth - base).toNat (cfg.depth - base).toNat
        (by unfold Cfg.withDepth; dsimp only; omega) 1 ⟨ms0, v0, { depth := base }, 0, 0⟩ s
        (by unfold Cfg.withDepth; dsimp only; omega)
      rw [← hfuel, hr4]
      dsimp only
      have : aj.ms = ms := by rw [← h1, hr1]
      have hv : aj.v = v := by rw [← h2, hr1]
      rw [this, hv]

/-- **cancellation only truncates** (`Analyze`, any configuration, table or not, any engine state): under an
oracle whose flag stays set once set, `Analyze` returns either exactly what it returns when the flag is never
set, or — marked `Canceled` — the PV, value, depth and statistics that the never-cancelled `Analyze` limited to
the reported depth `d` returns (for `d` = the table-seeded start depth that is: nothing searched, the seeded move
or no move). -/
theorem cancel_truncates_analyze (g : Game P M) (cfg : Cfg) {o : Oracle M} (hm : o.Monotone) (p : P) (s : Eng M)
    (ms : List M) (v : Int) (st : Stats) (s' : Eng M)
    (h : analyze g cfg o p s = .ok ((ms, v, st), s')) :
    analyze g cfg o.never p s = .ok ((ms, v, st), s') ∨
    (st.canceled = true ∧ st.depth ≤ cfg.depth ∧
      ∃ st0 s'', st = { st0 with canceled := true } ∧
        analyze g (cfg.withDepth st.depth) o.never p s = .ok ((ms, v, st0), s'')) := by
  unfold analyze at h ⊢
  cases hg : ttGet { s with loads := 0, evals := 0, sorts := 0, rnds := 0, wlog := [] } (g.hash p) with
  | error e => rw [hg] at h; cases h
  | ok te =>
    rw [hg] at h
    exact analyzeFrom_cancel g cfg hm p (seedOf te) _ ms v st s' h


/-- `Analyze` neither creates nor drops the transposition table -/
theorem analyzeLoop_hasTable (g : Game P M) (cfg : Cfg) {o : Oracle M} (hm : o.Monotone) (p : P) (base : Int) :
    ∀ (n : Nat) (i : Int) (a : ALoop M) (s : Eng M) (r : ALoop M × Eng M),
      analyzeLoop g cfg o p base n i a s = .ok r → r.2.hasTable = s.hasTable := by
  intro n
  induction n with
  | zero => intro i a s r h; simp only [analyzeLoop] at h; cases h; rfl
  | succ n ih =>
    intro i a s r h
    simp only [analyzeLoop] at h
    split at h
    · cases h; rfl
    · cases hstep : analyzeStep g cfg o p base i a s with
      | error e => rw [hstep] at h; cases h
      | ok x =>
        rw [hstep] at h
        have hpost := analyzeStep_loc g cfg hm p base i a s x hstep
        cases x with
        | cancelled s' => dsimp only at h; cases h; exact hpost.1
        | done a' s' => dsimp only at h; cases h; exact hpost.2.1
        | go a' s' =>
          dsimp only at h
          rw [ih (i + 1) a' s' r h]
          exact hpost.2.1

theorem analyze_hasTable (g : Game P M) (cfg : Cfg) {o : Oracle M} (hm : o.Monotone) (p : P) (s : Eng M)
    (r : List M × Int × Stats) (s' : Eng M) (h : analyze g cfg o p s = .ok (r, s')) :
    s'.hasTable = s.hasTable := by
  unfold analyze at h
  cases hg : ttGet { s with loads := 0, evals := 0, sorts := 0, rnds := 0, wlog := [] } (g.hash p) with
  | error e => rw [hg] at h; cases h
  | ok te =>
    rw [hg] at h
    have h' : analyzeFrom g cfg o p (seedOf te) { s with loads := 0, evals := 0, sorts := 0, rnds := 0, wlog := [] } =
        .ok (r, s') := h
    unfold analyzeFrom at h'
    cases hl : analyzeLoop g cfg o p (seedOf te).1 (cfg.depth - (seedOf te).1).toNat 1
        ⟨(seedOf te).2.1, (seedOf te).2.2, { depth := (seedOf te).1 }, 0, 0⟩
        { s with loads := 0, evals := 0, sorts := 0, rnds := 0, wlog := [] } with
    | error e => rw [hl] at h'; cases h'
    | ok x =>
      rw [hl] at h'
      obtain ⟨af, sf⟩ := x
      dsimp only at h'
      have : sf = s' := congrArg Prod.snd (Except.ok.inj h')
      rw [← this]
      exact analyzeLoop_hasTable g cfg hm p _ _ _ _ _ _ hl

end Search
