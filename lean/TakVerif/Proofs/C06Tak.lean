import TakVerif.Spec.ForcedWin

/-! The Tak model is an alternating game: every accepted move hands the turn to the other player. -/
namespace C06
open Tak Tak.PN Spec.Game

theorem analyze_move (p q : Pos) (h : p.analyze = some q) : q.move = p.move := by
  unfold Pos.analyze at h
  simp only at h
  split at h
  · injection h with h; subst h; rfl
  · exact absurd h (by simp)

theorem finish_move (n q : Pos) (h : finish n = .ok q) : q.move = n.move := by
  unfold finish at h
  split at h
  · rename_i q' ha
    injection h with h; subst h
    exact analyze_move n _ ha
  · exact absurd h (by simp)

theorem slideStep_move (basis : Array W) (p : Pos) (top : Piece) (stack : W) (dx dy : Int) (st st' : SlideSt) (c : Nat)
    (h : slideStep basis p top stack dx dy st c = .ok st') : st'.next.move = st.next.move := by
  unfold slideStep at h
  simp only at h
  split at h
  · exact absurd h (by simp)
  · split at h
    · exact absurd h (by simp)
    · split at h
      · exact absurd h (by simp)
      · rename_i next hb
        have hn : next.move = st.next.move := by
          split at hb
          · exact absurd hb (by simp)
          · split at hb
            · split at hb
              · exact absurd hb (by simp)
              · injection hb with hb; subst hb; rfl
            · injection hb with hb; subst hb; rfl
        injection h with h
        subst h
        simp only
        repeat' split
        all_goals simp [hn]


theorem slideLoop_move (basis : Array W) (p : Pos) (top : Piece) (stack : W) (dx dy : Int) :
    ∀ (cs : List Nat) (st st' : SlideSt), slideLoop basis p top stack dx dy cs st = .ok st' →
      st'.next.move = st.next.move := by
  intro cs
  induction cs with
  | nil => intro st st' h; simp only [slideLoop] at h; injection h with h; subst h; rfl
  | cons c cs ih =>
    intro st st' h
    simp only [slideLoop, bind, Except.bind] at h
    split at h
    · exact absurd h (by simp)
    · rename_i st1 h1
      rw [ih st1 st' h, slideStep_move basis p top stack dx dy st st1 c h1]

theorem apply_move (basis : Array W) (p q : Pos) (m : Move) (h : p.apply basis m = .ok q) :
    q.move = p.move + 1 := by
  unfold Pos.apply at h
  dsimp only at h
  split at h
  · exact finish_move _ q h
  · split at h
    · exact absurd h (by simp)
    · split at h
      · exact absurd h (by simp)
      · split at h
        · exact absurd h (by simp)
        · split at h
          · -- placement
            split at h
            · exact absurd h (by simp)
            · split at h
              · exact absurd h (by simp)
              · rw [finish_move _ q h]
                simp only
                repeat' split
                all_goals rfl
          · -- slide
            split at h
            · exact absurd h (by simp)
            · split at h
              · exact absurd h (by simp)
              · split at h
                · exact absurd h (by simp)
                · split at h
                  · exact absurd h (by simp)
                  · split at h
                    · exact absurd h (by simp)
                    · split at h
                      · exact absurd h (by simp)
                      · rename_i st hl
                        rw [finish_move _ q h, slideLoop_move _ _ _ _ _ _ _ _ st hl]
                        simp only
                        repeat' split
                        all_goals rfl

theorem takGame_alternating (basis : Array W) : Alternating (takGame basis) where
  binary := fun p => by
    simp only [takGame, Pos.toMove]
    split <;> simp
  flips := fun p m q h => by
    simp only [takGame] at h
    split at h
    · rename_i q' ha
      injection h with h; subst h
      have := apply_move basis p _ m ha
      simp only [takGame, Pos.toMove, this]
      have e : (p.move + 1) % 2 = if p.move % 2 = 0 then 1 else 0 := by split <;> omega
      by_cases hp : p.move % 2 = 0
      · simp [hp, e, Color.flip]
      · have hp1 : p.move % 2 = 1 := by omega
        simp [hp1, e, Color.flip]
    · exact absurd h (by simp)

end C06
