import TakVerif.Spec.ForcedWin
import TakVerif.Proofs.ApplyCfg

/-! The Tak model is an alternating game: every accepted move hands the turn to the other player. -/
namespace C06
open Tak Tak.PN Spec.Game

theorem finish_move {n q : Pos} (h : finish n = .ok q) : q.move = n.move := by rw [finish_ok h]

theorem enterSquare_move {next q : Pos} {top : Piece} {ct i : Nat}
    (h : Tak.enterSquare next top ct i = .ok q) : q.move = next.move := by
  unfold Tak.enterSquare at h
  split at h
  · cases h
  · split at h
    · split at h
      · cases h
      · cases h; rfl
    · cases h; rfl

theorem slideStep_move {basis : Array W} {p : Pos} {top : Piece} {stack : W} {dx dy : Int} {st st' : SlideSt} {c : Nat}
    (h : slideStep basis p top stack dx dy st c = .ok st') : st'.next.move = st.next.move := by
  unfold slideStep at h
  dsimp only at h
  split at h
  · cases h
  split at h
  · cases h
  split at h
  · cases h
  · rename_i next he
    cases h
    have := congrArg (·.2.2.2.2.2.2) (dropOn_scalars basis next top stack st.ct c
      (st.x + dx + (st.y + dy) * (p.cfg.size : Int)).toNat)
    simp only [Pos.scalars] at this
    rw [this]
    exact enterSquare_move he

theorem slideLoop_move {basis : Array W} {p : Pos} {top : Piece} {stack : W} {dx dy : Int} (drops : List Nat)
    {st st' : SlideSt} (h : slideLoop basis p top stack dx dy drops st = .ok st') : st'.next.move = st.next.move := by
  induction drops generalizing st with
  | nil => simp only [slideLoop] at h; cases h; rfl
  | cons c cs ih =>
    simp only [slideLoop] at h
    split at h
    · cases h
    · rename_i st1 h1
      rw [ih h, slideStep_move h1]

/-- every accepted move (the pass move included) advances the ply counter by one -/
theorem apply_move (basis : Array W) (p q : Pos) (m : Move) (h : p.apply basis m = .ok q) :
    q.move = p.move + 1 := by
  unfold Pos.apply at h
  dsimp only at h
  split at h
  · rw [finish_move h]
  split at h
  · cases h
  split at h
  · cases h
  split at h
  · cases h
  split at h
  · rw [placeOn_eq] at h
    split at h
    · cases h
    split at h
    · cases h
    · rw [finish_move h]; rfl
  · unfold slideFrom at h
    dsimp only at h
    split at h
    · cases h
    split at h
    · cases h
    split at h
    · cases h
    split at h
    · cases h
    split at h
    · cases h
    split at h
    · cases h
    · rename_i st hst
      rw [finish_move h, slideLoop_move _ hst]
      have := congrArg (·.2.2.2.2.2.2) (liftFrom_scalars basis { p with move := p.move + 1 }
        ((p.stacks.getD (m.x + m.y * (p.cfg.size : Int)).toNat 0 <<< 1) |||
          (if (‹Piece›).color == Color.black then 1#64 else 0#64))
        (p.height.getD (m.x + m.y * (p.cfg.size : Int)).toNat 0).toNat
        (List.foldl (· + ·) 0 (Slides.elems m.slides)) (m.x + m.y * (p.cfg.size : Int)).toNat)
      simp only [Pos.scalars] at this
      exact this

theorem takGame_alternating (basis : Array W) : Alternating (takGame basis) where
  binary := fun p => by
    simp only [takGame, Pos.toMove]
    split <;> simp
  flips := fun p m q h => by
    simp only [takGame] at h
    split at h
    · rename_i q' ha
      injection h with h; subst h
      have := apply_move basis p _ m ha
      simp only [takGame, Pos.toMove, this]
      have e : (p.move + 1) % 2 = if p.move % 2 = 0 then 1 else 0 := by split <;> omega
      by_cases hp : p.move % 2 = 0
      · simp [hp, e, Color.flip]
      · have hp1 : p.move % 2 = 1 := by omega
        simp [hp1, e, Color.flip]
    · exact absurd h (by simp)

end C06
