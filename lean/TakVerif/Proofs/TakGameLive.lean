import TakVerif.Proofs.C06Tak
import TakVerif.Proofs.Groups
import TakVerif.Proofs.WF

/-! An unfinished well-formed Tak position has a legal non-pass move (a placement on an empty square), and the
side condition that makes this true during the two opening plies (`OpenOK`) is an invariant of play. -/
namespace Tak

/-- during the two opening plies the colour whose flat must be placed still has a flat in reserve
(ply 0: White places a black flat; ply 1: Black places a white flat) -/
def OpenOK (p : Pos) : Prop := (p.move < 1 → p.blackStones ≠ 0#8) ∧ (p.move < 2 → p.whiteStones ≠ 0#8)

/-- what `GameOver() = false` says, field by field -/
theorem gameOver_false {p : Pos} (hov : p.gameOver.1 = false) :
    (p.whiteStones ≠ 0#8 ∨ p.whiteCaps ≠ 0#8) ∧ (p.blackStones ≠ 0#8 ∨ p.blackCaps ≠ 0#8) ∧
      (p.white ||| p.black) ≠ p.c.Mask := by
  unfold Pos.gameOver at hov
  dsimp only at hov
  split at hov
  · cases hov
  · split at hov
    · rename_i h
      simp only [Bool.and_eq_true, Bool.or_eq_true, bne_iff_ne, ne_eq] at h
      exact ⟨h.1.1, h.1.2, h.2⟩
    · cases hov

/-- a well-formed position whose board is not full has an empty square on the board -/
theorem exists_empty (basis : Array W) (p : Pos) (hwf : WF basis p) (hne : (p.white ||| p.black) ≠ p.c.Mask) :
    ∃ i, i < p.cfg.size * p.cfg.size ∧ (p.white ||| p.black).getLsbD i = false := by
  have hmask : ∀ k, p.c.Mask.getLsbD k = decide (k < p.cfg.size * p.cfg.size) := by
    intro k; rw [hwf.consts]; exact Roads.Mask_bitN _ ⟨hwf.size_ge, hwf.size_le⟩ k
  apply Classical.byContradiction
  intro hno
  apply hne
  apply BitVec.eq_of_getLsbD_eq
  intro k _
  rw [hmask]
  by_cases hk : k < p.cfg.size * p.cfg.size
  · simp only [hk, decide_true]
    cases hb : (p.white ||| p.black).getLsbD k
    · exact absurd ⟨k, hk, hb⟩ hno
    · rfl
  · have := hwf.mask k (by omega)
    simp only [hk, decide_false, BitVec.getLsbD_or, this.1, this.2.1, Bool.or_self]

theorem finish_exists (p : Pos) : ∃ q, finish p = .ok q := by
  unfold finish
  split
  · exact ⟨_, rfl⟩
  · rename_i h; exact absurd h (Roads.analyze_ne_none p)

/-- the placement of kind `ty` on the empty square `i` is accepted once the opening rule lets it through and the
reserve it draws on is not empty -/
theorem place_accepted (basis : Array W) (p : Pos) (hsz : 0 < p.cfg.size) (i : Nat) (hi : i < p.cfg.size * p.cfg.size)
    (he : (p.white ||| p.black).getLsbD i = false) (ty : Nat) (pc pc' : Piece)
    (hty : ty ≠ Facts.mtPass)
    (hd : dispatch p.toMove ⟨(i % p.cfg.size : Nat), (i / p.cfg.size : Nat), ty, 0⟩ = some (some pc, 0, 0))
    (ho : openingRule p (some pc) = .ok (some pc'))
    (hr : placeReserve p { p with move := p.move + 1 } pc' ≠ 0#8) :
    ∃ m q, m.type ≠ Facts.mtPass ∧ p.apply basis m = .ok q := by
  obtain ⟨q, hq⟩ := finish_exists (placed p { p with move := p.move + 1 } i pc')
  refine ⟨⟨(i % p.cfg.size : Nat), (i / p.cfg.size : Nat), ty, 0⟩, q, hty, ?_⟩
  have hdiv : i / p.cfg.size < p.cfg.size := Nat.div_lt_of_lt_mul hi
  have hmod : i % p.cfg.size < p.cfg.size := Nat.mod_lt _ hsz
  have hidx : (((i % p.cfg.size : Nat) : Int) + ((i / p.cfg.size : Nat) : Int) * (p.cfg.size : Int)).toNat = i := by
    have := Nat.mod_add_div i p.cfg.size
    have e : ((i % p.cfg.size : Nat) : Int) + ((i / p.cfg.size : Nat) : Int) * (p.cfg.size : Int)
        = ((i % p.cfg.size + i / p.cfg.size * p.cfg.size : Nat) : Int) := by
      simp only [Int.natCast_add, Int.natCast_mul]
    rw [e, Int.toNat_natCast, Nat.mul_comm]; exact this
  have hnb : ∀ a b : Nat, a < p.cfg.size → b < p.cfg.size →
      ¬ ((a : Int) < 0 ∨ (a : Int) ≥ (p.cfg.size : Int) ∨ (b : Int) < 0 ∨ (b : Int) ≥ (p.cfg.size : Int)) := by
    intro a b ha hb; omega
  unfold Pos.apply
  dsimp only
  rw [if_neg (by simpa using hty), hd]
  dsimp only
  rw [ho]
  dsimp only
  rw [if_neg (hnb _ _ hmod hdiv), hidx, placeOn_eq, he]
  simp only [Bool.false_eq_true, if_false]
  rw [if_neg (by simpa using hr)]
  exact hq

/-- an unfinished well-formed position has a legal (non-pass) move: gameOver false ⇒ some square of the board is empty
and the mover has a stone or a capstone in reserve; from ply 2 placing a flat (or, with no flat left, the capstone)
there is accepted; in the opening the other colour's flat is placed (OpenOK) -/
theorem tak_has_move (basis : Array W) (p : Pos) (hwf : WF basis p) (hopen : OpenOK p) (hov : p.gameOver.1 = false) :
    ∃ m q, m.type ≠ Facts.mtPass ∧ p.apply basis m = .ok q := by
  obtain ⟨hw, hb, hne⟩ := gameOver_false hov
  obtain ⟨i, hi, he⟩ := exists_empty basis p hwf hne
  have hsz : 0 < p.cfg.size := by have := hwf.size_ge; omega
  have h0 := hwf.move_nonneg
  by_cases h2 : p.move < 2
  · -- opening: the other colour's flat
    refine place_accepted basis p hsz i hi he Facts.mtPlaceFlat ⟨p.toMove, .flat⟩ ⟨p.toMove.flip, .flat⟩ (by decide)
      (by simp [dispatch]) (by simp [openingRule, h2]) ?_
    by_cases h1 : p.move < 1
    · have hm : p.move = 0 := by omega
      have ht : p.toMove = .white := by simp [Pos.toMove, hm]
      simpa [placeReserve, ht, Color.flip] using hopen.1 h1
    · have hm : p.move = 1 := by omega
      have ht : p.toMove = .black := by simp [Pos.toMove, hm]
      simpa [placeReserve, ht, Color.flip] using hopen.2 h2
  · have hor : openingRule p (some ⟨p.toMove, .flat⟩) = .ok (some ⟨p.toMove, .flat⟩) := by simp [openingRule, h2]
    have hoc : openingRule p (some ⟨p.toMove, .capstone⟩) = .ok (some ⟨p.toMove, .capstone⟩) := by
      simp [openingRule, h2]
    rcases toMove_cases p with ht | ht
    · by_cases hs : p.whiteStones = 0#8
      · have hc : p.whiteCaps ≠ 0#8 := by rcases hw with h | h; exact absurd hs h; exact h
        refine place_accepted basis p hsz i hi he Facts.mtPlaceCapstone ⟨p.toMove, .capstone⟩ ⟨p.toMove, .capstone⟩
          (by decide) (by simp [dispatch, Facts.mtPlaceCapstone, Facts.mtPlaceFlat, Facts.mtPlaceStanding]) hoc ?_
        simpa [placeReserve, ht] using hc
      · refine place_accepted basis p hsz i hi he Facts.mtPlaceFlat ⟨p.toMove, .flat⟩ ⟨p.toMove, .flat⟩ (by decide)
          (by simp [dispatch]) hor ?_
        simpa [placeReserve, ht] using hs
    · by_cases hs : p.blackStones = 0#8
      · have hc : p.blackCaps ≠ 0#8 := by rcases hb with h | h; exact absurd hs h; exact h
        refine place_accepted basis p hsz i hi he Facts.mtPlaceCapstone ⟨p.toMove, .capstone⟩ ⟨p.toMove, .capstone⟩
          (by decide) (by simp [dispatch, Facts.mtPlaceCapstone, Facts.mtPlaceFlat, Facts.mtPlaceStanding]) hoc ?_
        simpa [placeReserve, ht] using hc
      · refine place_accepted basis p hsz i hi he Facts.mtPlaceFlat ⟨p.toMove, .flat⟩ ⟨p.toMove, .flat⟩ (by decide)
          (by simp [dispatch]) hor ?_
        simpa [placeReserve, ht] using hs

/-- OpenOK is kept by every applied non-pass move -/
theorem openOK_apply (basis : Array W) (p q : Pos) (m : Move) (hwf : WF basis p) (hopen : OpenOK p)
    (hnp : m.type ≠ Facts.mtPass) (h : p.apply basis m = .ok q) : OpenOK q := by
  have hmv := C06.apply_move basis p q m h
  have h0 := hwf.move_nonneg
  refine ⟨fun hlt => by omega, fun hlt => ?_⟩
  have hm : p.move = 0 := by omega
  have ht : p.toMove = .white := by simp [Pos.toMove, hm]
  have hws := hopen.2 (by omega)
  unfold Pos.apply at h
  dsimp only at h
  rw [if_neg (by simpa using hnp)] at h
  split at h
  · cases h
  rename_i place dx dy hd
  split at h
  · cases h
  rename_i place' ho
  split at h
  · cases h
  -- the opening rule lets only a flat through, recoloured
  unfold openingRule at ho
  rw [if_pos (by omega)] at ho
  split at ho
  · rename_i pc
    split at ho
    · cases ho
    · rename_i hk
      cases ho
      dsimp only at h
      rw [placeOn_eq] at h
      split at h
      · cases h
      split at h
      · cases h
      · rw [finish_ok h]
        -- the piece is a black flat: dispatch gave the mover's (White's) colour
        have hcol : pc.color = .white := by
          unfold dispatch at hd
          rw [ht] at hd
          split at hd
          · cases hd; rfl
          split at hd
          · cases hd; rfl
          split at hd
          · cases hd; rfl
          split at hd
          · cases hd
          split at hd
          · cases hd
          split at hd
          · cases hd
          split at hd
          · cases hd
          · cases hd
        simp only [placed, hcol, Color.flip]
        simpa using hws
  · cases ho

/-- `New` positions satisfy it, provided the configured reserve does not wrap to 0 in the `byte` counter
(`Config.Pieces` is an `int`, the counters are `byte(pieces)`: a multiple of 256 gives an empty reserve) -/
theorem openOK_new (cfg : Cfg) (p : Pos) (hp : cfg.pieces = 0 ∨ cfg.pieces % 256 ≠ 0) (h : Pos.new cfg = .ok p) :
    OpenOK p := by
  obtain ⟨h3, h8, hp'⟩ := new_ok h
  have key : BitVec.ofNat 8 (if cfg.pieces == 0 then Facts.defaultPieces.getD cfg.size 0 else cfg.pieces) ≠ 0#8 := by
    intro hc
    have := congrArg BitVec.toNat hc
    simp only [BitVec.toNat_ofNat] at this
    rcases hp with hz | hz
    · rw [hz] at this
      have hs : cfg.size = 3 ∨ cfg.size = 4 ∨ cfg.size = 5 ∨ cfg.size = 6 ∨ cfg.size = 7 ∨ cfg.size = 8 := by omega
      rcases hs with e | e | e | e | e | e <;> rw [e] at this <;> revert this <;> decide
    · have hne : (cfg.pieces == 0) = false := by
        simp only [beq_eq_false_iff_ne, ne_eq]; intro e; rw [e] at hz; omega
      rw [hne] at this
      simp only [Bool.false_eq_true, if_false] at this
      omega
  rw [hp']
  exact ⟨fun _ => key, fun _ => key⟩

end Tak
