import TakVerif.Proofs.BotPos

/-! # Thinkers keep their number and their position (helper for `Props/C07_compose.lean`)

`thinkers s = s.old ++ [s.cur]` only ever grows at the end, and no event changes the position a thinker was started on:
thinker `k` of a state is thinker `k` of every later state, started on the same position. -/
namespace Tak.Bot
open Tak

/-- the positions the thinkers were started on, by thinker number -/
def tposs (s : St) : List Pos := (thinkers s).map (·.pos)

def tview (s : St) : List Pos × Pos := (s.old.map (·.pos), s.cur.pos)

theorem tposs_eq (s : St) : tposs s = s.old.map (·.pos) ++ [s.cur.pos] := by
  simp [tposs, thinkers]

/-- `t` has the thinkers of `s`, with their positions, and possibly more -/
def TExt (s t : St) : Prop := ∃ ext, tposs t = tposs s ++ ext

theorem TExt.refl (s : St) : TExt s s := ⟨[], by simp⟩

theorem TExt.trans {s t u : St} (h1 : TExt s t) (h2 : TExt t u) : TExt s u := by
  obtain ⟨e1, h1⟩ := h1
  obtain ⟨e2, h2⟩ := h2
  exact ⟨e1 ++ e2, by rw [h2, h1, List.append_assoc]⟩

theorem TExt.of_tview {s t : St} (h : tview t = tview s) : TExt s t := by
  simp only [tview, Prod.mk.injEq] at h
  exact ⟨[], by rw [tposs_eq, tposs_eq, h.1, h.2]; simp⟩

theorem TExt.retFalse (cfg : Conf) {s t : St} (h : tview t = tview s) : TExt s (retFalse cfg t) := by
  simp only [tview, Prod.mk.injEq] at h
  refine ⟨[t.p], ?_⟩
  rw [tposs_eq, tposs_eq]
  show List.map (·.pos) (t.old ++ [{ t.cur with cancelled := true }]) ++ [t.p] = _
  rw [List.map_append, h.1]
  simp [h.2]

theorem tview_srvPush (cfg : Conf) (s : St) (m : Move) : tview (srvPush cfg s m) = tview s := by
  unfold srvPush
  split
  · rfl
  · split <;> rfl

theorem tview_srvAccept (cfg : Conf) (s : St) (m : Move) : tview (srvAccept cfg s m) = tview s := by
  unfold srvAccept
  split
  · rfl
  · split
    · exact tview_srvPush cfg s m
    · rfl

theorem tview_srvPop (s : St) : tview (srvPop s) = tview s := by
  unfold srvPop
  split <;> rfl

theorem text_onServerMove (cfg : Conf) (s : St) (parsed : Option Move) : TExt s (onServerMove cfg s parsed) := by
  unfold onServerMove
  cases parsed with
  | none => exact .of_tview rfl
  | some m =>
    dsimp only
    cases ha : (srvPush cfg s m).p.apply cfg.basis m with
    | error e => exact .of_tview (tview_srvPush cfg s m)
    | ok q => exact .of_tview (tview_srvPush cfg s m)

theorem text_onTime (cfg : Conf) (s : St) (args : List String) : TExt s (onTime cfg s args) := by
  unfold onTime
  split
  · dsimp only
    split
    · split
      · exact .retFalse cfg rfl
      · exact .of_tview rfl
    · split
      · exact .retFalse cfg rfl
      · exact .of_tview rfl
  · exact .of_tview rfl

theorem text_onRequestUndo (s : St) (accept : Bool) : TExt s (onRequestUndo s accept) := by
  unfold onRequestUndo
  split
  · exact .of_tview rfl
  · exact .refl s

theorem text_onUndo (cfg : Conf) (s : St) : TExt s (onUndo cfg s) := by
  unfold onUndo
  dsimp only
  split
  · exact .of_tview (tview_srvPop s)
  · split
    · exact .of_tview (tview_srvPop s)
    · split
      · exact .of_tview (tview_srvPop s)
      · exact .retFalse cfg (tview_srvPop s)

theorem text_onGameLine (cfg : Conf) (s : St) (rest : List String) (parsed : Option Move) (accept : Bool) :
    TExt s (onGameLine cfg s rest parsed accept) := by
  unfold onGameLine
  split
  · exact .of_tview rfl
  · split
    · exact text_onServerMove cfg s parsed
    · split
      · exact .of_tview rfl
      · split
        · split
          · exact .of_tview rfl
          · exact .of_tview rfl
        · split
          · exact text_onTime cfg s _
          · split
            · exact text_onRequestUndo s accept
            · split
              · exact text_onUndo cfg s
              · exact .refl s

theorem text_onLine (cfg : Conf) (s : St) (bits : List String) (parsed : Option Move) (accept : Bool) :
    TExt s (onLine cfg s bits parsed accept) := by
  unfold onLine
  split
  · exact .refl s
  · split
    · exact text_onGameLine cfg s _ parsed accept
    · split
      · exact text_onGameLine cfg s _ parsed accept
      · exact .refl s

theorem text_onAnswer (cfg : Conf) (s : St) (m : Move) : TExt s (onAnswer cfg s m) := by
  unfold onAnswer
  cases ha : s.p.apply cfg.basis m with
  | error e =>
    cases e with
    | illegal w => exact .retFalse cfg rfl
    | panic w => exact .of_tview rfl
    | hang w => exact .of_tview rfl
  | ok q =>
    dsimp only
    exact .retFalse cfg (tview_srvAccept cfg _ m)

theorem map_pos_modAt {f : Thinker → Thinker} (hf : ∀ t, (f t).pos = t.pos) :
    ∀ (l : List Thinker) (k : Nat), (modAt l k f).map (·.pos) = l.map (·.pos)
  | [], _ => rfl
  | u :: us, 0 => by simp [modAt, hf]
  | u :: us, k+1 => by simp [modAt, map_pos_modAt hf us k]

theorem text_step (cfg : Conf) (s : St) (e : Ev) : TExt s (step cfg s e) := by
  cases e with
  | deliver bits parsed accept =>
    simp only [step]
    split
    · exact text_onLine cfg s bits parsed accept
    · exact .refl s
  | close =>
    simp only [step]
    split
    · exact .of_tview rfl
    · exact .refl s
  | timerFires =>
    simp only [step]
    split
    · exact .retFalse cfg rfl
    · exact .refl s
  | grant k =>
    simp only [step, grant]
    split
    · exact .refl s
    · split
      · exact .of_tview (by simp only [tview, map_pos_modAt enter_pos])
      · split
        · exact .of_tview (by simp only [tview, enter_pos])
        · exact .refl s
  | aiReturns k m =>
    simp only [step, aiReturns]
    split
    · exact .of_tview (by simp only [tview, map_pos_modAt (leave_pos m)])
    · split
      · split
        · split
          · have h1 : TExt s { s with cur := { s.cur with st := .done, cancelled := true } } := .of_tview rfl
            exact h1.trans (text_onAnswer cfg _ m)
          · exact .of_tview (by simp only [tview, leave_pos])
        · exact .refl s
      · exact .refl s

theorem text_run (cfg : Conf) (s : St) (evs : List Ev) : TExt s (run cfg s evs) := by
  induction evs generalizing s with
  | nil => exact .refl s
  | cons e es ih => exact (text_step cfg s e).trans (ih (step cfg s e))

/-- thinker `k` of `s` is thinker `k` of `t`, started on the same position -/
theorem TExt.thinker {s t : St} (h : TExt s t) {k : Nat} {u : Thinker} (hu : (thinkers s)[k]? = some u) :
    ∃ u', (thinkers t)[k]? = some u' ∧ u'.pos = u.pos := by
  obtain ⟨ext, he⟩ := h
  have h1 : (tposs s)[k]? = some u.pos := by simp [tposs, hu]
  have h2 : (tposs t)[k]? = some u.pos := by
    rw [he, List.getElem?_append_left]
    · exact h1
    · have := List.getElem?_eq_some_iff.mp h1
      exact this.1
  simp only [tposs, List.getElem?_map] at h2
  cases hk : (thinkers t)[k]? with
  | none => rw [hk] at h2; cases h2
  | some u' => rw [hk] at h2; exact ⟨u', rfl, by simpa using h2⟩

end Tak.Bot
