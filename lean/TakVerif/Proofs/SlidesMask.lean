import TakVerif.Proofs.Slides

/-! # The edge-distance mask of `AllMoves` (C03, part 2)

`mask := ^Slides((1 << (4*c)) - 1)`; `s & mask == 0` holds exactly when the slide word `s` has at most `c`
drops, i.e. when a slide of that shape started `c` squares from the edge stays on the board. -/
namespace Tak.Proofs
open Tak Spec

theorem and_not_eq_zero_iff (s m : BitVec 32) : s &&& ~~~m = 0#32 ↔ s &&& m = s := by
  constructor
  · intro h
    apply BitVec.eq_of_getLsbD_eq
    intro i hi
    have := congrArg (fun v => v.getLsbD i) h
    simp only [BitVec.getLsbD_and, BitVec.getLsbD_not, BitVec.getLsbD_zero, hi, decide_true, Bool.true_and] at this ⊢
    cases hs : s.getLsbD i <;> cases hm : m.getLsbD i <;> simp_all
  · intro h
    apply BitVec.eq_of_getLsbD_eq
    intro i hi
    have := congrArg (fun v => v.getLsbD i) h
    simp only [BitVec.getLsbD_and, BitVec.getLsbD_not, BitVec.getLsbD_zero, hi, decide_true, Bool.true_and] at this ⊢
    cases hs : s.getLsbD i <;> cases hm : m.getLsbD i <;> simp_all

theorem mask_toNat : ∀ c : Fin 9, ((1#32 <<< (4*c.val)) - 1#32).toNat = 2^(4*c.val) - 1 := by decide

/-- the edge-distance mask of `AllMoves`: a word passes iff it fits in `c` nibbles -/
theorem mask_test_toNat (s : BitVec 32) (c : Nat) (hc : c ≤ 8) :
    s &&& ~~~((1#32 <<< (4*c)) - 1#32) = 0#32 ↔ s.toNat < 2^(4*c) := by
  rw [and_not_eq_zero_iff]
  have hm := mask_toNat ⟨c, by omega⟩
  simp only at hm
  constructor
  · intro h
    have := congrArg BitVec.toNat h
    rw [BitVec.toNat_and, hm, Nat.and_two_pow_sub_one_eq_mod] at this
    have hp : 0 < 2^(4*c) := Nat.two_pow_pos _
    have := Nat.mod_lt s.toNat hp
    omega
  · intro h
    apply BitVec.eq_of_toNat_eq
    rw [BitVec.toNat_and, hm, Nat.and_two_pow_sub_one_eq_mod, Nat.mod_eq_of_lt h]

/-- exact size of an encoded list of non-zero nibbles -/
theorem encode_ge : ∀ (l : List Nat), l.length ≤ 8 → (∀ d ∈ l, 1 ≤ d ∧ d ≤ 15) → l ≠ [] →
    2^(4 * (l.length - 1)) ≤ (encodeDrops l).toNat
  | [], _, _, h => absurd rfl h
  | [d], _, hd, _ => by
    have := hd d (by simp)
    show _ ≤ (Slides.prepend 0#32 d).toNat
    rw [prepend_toNat _ _ this.2]; simp; omega
  | d :: e :: es, hl, hd, _ => by
    have ih := encode_ge (e :: es) (by simp at hl ⊢; omega) (fun x hx => hd x (by simp [hx])) (by simp)
    have hlt := encode_lt (e :: es) (by simp at hl ⊢; omega) (fun x hx => (hd x (by simp [hx])).2)
    have hd0 := hd d (by simp)
    show _ ≤ (Slides.prepend (encodeDrops (e :: es)) d).toNat
    rw [prepend_toNat _ _ hd0.2]
    have hlen : (e :: es).length ≤ 7 := by simp at hl ⊢; omega
    have h28 : (encodeDrops (e :: es)).toNat < 2^28 :=
      calc _ < 2^(4*(e :: es).length) := hlt
        _ ≤ 2^28 := Nat.pow_le_pow_right (by omega) (by omega)
    rw [Nat.mod_eq_of_lt h28]
    have h2 : 2^(4*((d :: e :: es).length - 1)) = 2^(4*((e :: es).length - 1)) * 16 := by
      simp only [List.length_cons, Nat.add_sub_cancel]
      rw [Nat.mul_add, Nat.pow_add]
    rw [h2]; omega

theorem mask_test_encode (l : List Nat) (hl : l.length ≤ 8) (hd : ∀ d ∈ l, 1 ≤ d ∧ d ≤ 15) (c : Nat) (hc : c ≤ 8) :
    encodeDrops l &&& ~~~((1#32 <<< (4*c)) - 1#32) = 0#32 ↔ l.length ≤ c := by
  rw [mask_test_toNat _ c hc]
  constructor
  · intro h
    by_cases hne : l = []
    · simp [hne]
    · have := encode_ge l hl hd hne
      have h3 : 2^(4*(l.length - 1)) < 2^(4*c) := by omega
      have := (Nat.pow_lt_pow_iff_right (by omega : 1 < 2)).1 h3
      omega
  · intro h
    calc _ < 2^(4*l.length) := encode_lt l hl (fun d hd' => (hd d hd').2)
      _ ≤ 2^(4*c) := Nat.pow_le_pow_right (by omega) (by omega)

/-- **mask test** for table entries: `s & ^((1 << 4c) - 1) == 0` iff the slide has at most `c` drops -/
theorem mask_test (h : Nat) (hh : h ≤ 8) (s : BitVec 32) (hs : s ∈ slidesTable.getD h []) (c : Nat) (hc : c ≤ 8) :
    s &&& ~~~((1#32 <<< (4*c)) - 1#32) = 0#32 ↔ (Slides.elems s).length ≤ c := by
  obtain ⟨hne, hp, hsum, henc⟩ := (slides_table h hh s).1 hs
  have hlen := length_le_sum _ (fun d hd => (hp d hd).1)
  have := mask_test_encode (Slides.elems s) (by omega) (fun d hd => ⟨(hp d hd).1, by have := (hp d hd).2; omega⟩) c hc
  rw [← henc] at this
  exact this

end Tak.Proofs
