import TakVerif.Spec.Symmetry

/-! Coordinate-level facts about the eight maps: case eliminator, inverse, composition table,
on-board preservation, action on unit steps. -/
namespace Spec

/-- case split over the eight maps -/
theorem Sym.cases8 {P : Sym → Prop} (h0 : P 0) (h1 : P 1) (h2 : P 2) (h3 : P 3) (h4 : P 4)
    (h5 : P 5) (h6 : P 6) (h7 : P 7) : ∀ k, P k := by
  intro ⟨k, hk⟩
  match k, hk with
  | 0, _ => exact h0
  | 1, _ => exact h1
  | 2, _ => exact h2
  | 3, _ => exact h3
  | 4, _ => exact h4
  | 5, _ => exact h5
  | 6, _ => exact h6
  | 7, _ => exact h7
  | n+8, h => omega

theorem Sym.app_inv (k : Sym) (n x y : Int) :
    k.inv.app n (k.app n x y).1 (k.app n x y).2 = (x, y) := by
  induction k using Sym.cases8 <;> simp [Sym.app, Sym.inv] <;> omega

theorem Sym.inv_app (k : Sym) (n x y : Int) :
    k.app n (k.inv.app n x y).1 (k.inv.app n x y).2 = (x, y) := by
  induction k using Sym.cases8 <;> simp [Sym.app, Sym.inv] <;> omega

theorem Sym.inv_inv (k : Sym) : k.inv.inv = k := by
  revert k; decide

/-- the table `Sym.mul` is composition of the maps -/
theorem Sym.mul_app (a b : Sym) (n x y : Int) :
    (Sym.mul a b).app n x y = a.app n (b.app n x y).1 (b.app n x y).2 := by
  induction a using Sym.cases8 <;> induction b using Sym.cases8 <;>
    simp [Sym.app, Sym.mul, show ((4:Fin 8):Nat) = 4 from rfl, show ((5:Fin 8):Nat) = 5 from rfl,
      show ((6:Fin 8):Nat) = 6 from rfl, show ((7:Fin 8):Nat) = 7 from rfl] <;> (try constructor) <;> omega

theorem Sym.app_injective (k : Sym) (n x y x' y' : Int) (h : k.app n x y = k.app n x' y') :
    x = x' ∧ y = y' := by
  have h1 := Sym.app_inv k n x y
  have h2 := Sym.app_inv k n x' y'
  rw [h] at h1
  rw [h1] at h2
  exact ⟨(Prod.mk.inj h2).1, (Prod.mk.inj h2).2⟩

def onB (n : Int) (x y : Int) : Prop := 0 ≤ x ∧ x < n ∧ 0 ≤ y ∧ y < n

theorem Sym.onB_app (k : Sym) (n x y : Int) :
    onB n (k.app n x y).1 (k.app n x y).2 ↔ onB n x y := by
  induction k using Sym.cases8 <;> simp [Sym.app, onB] <;> omega

theorem State.onBoard_iff (s : State) (x y : Int) : s.onBoard x y = true ↔ onB s.size x y := by
  simp [State.onBoard, onB, and_assoc]

/-- a unit step is mapped to the unit step in the mapped direction -/
theorem Sym.app_step (k : Sym) (n x y : Int) (d : Dir) :
    k.app n (x + d.dx) (y + d.dy) =
      ((k.app n x y).1 + (k.dir d).dx, (k.app n x y).2 + (k.dir d).dy) := by
  induction k using Sym.cases8 <;> cases d <;> simp [Sym.app, Sym.dir, Dir.dx, Dir.dy] <;> omega

theorem Sym.dir_mul (a b : Sym) (d : Dir) : (Sym.mul a b).dir d = a.dir (b.dir d) := by
  cases d <;> revert a b <;> decide

theorem Sym.dir_inv (k : Sym) (d : Dir) : k.inv.dir (k.dir d) = d := by
  cases d <;> revert k <;> decide

/-! group laws of the table (finite: `decide`) -/
theorem Sym.mul_assoc (a b c : Sym) : Sym.mul (Sym.mul a b) c = Sym.mul a (Sym.mul b c) := by
  revert a b c; decide
theorem Sym.one_mul (a : Sym) : Sym.mul 0 a = a := by revert a; decide
theorem Sym.mul_one (a : Sym) : Sym.mul a 0 = a := by revert a; decide
theorem Sym.inv_mul (a : Sym) : Sym.mul a.inv a = 0 := by revert a; decide
theorem Sym.mul_inv (a : Sym) : Sym.mul a a.inv = 0 := by revert a; decide

end Spec
