import TakVerif.Proofs.NegamaxRules

/-! Forced wins within a number of plies are the same in the bit-level Tak game and in the rule book's
(`winIn_abs`, `winIn_of_abs`: the bounded forms of `C06.plainWin_abs`, `plainWin_of_abs`), hence the verdicts of
depth-limited negamax are verdicts about Tak by the rule book (`negamax_rules`), and `Search.Win` / `Search.Loss` (some
depth-limited value is decisive) are forced wins of `Spec.ruleGame` (`win_iff_rules`, `loss_iff_rules`). -/
namespace Search
open Tak Tak.Proofs Spec.Game
open Spec (abs ruleGame)

theorem winIn_abs {basis : Array W} {att : Color} {d : Nat} {p : Pos} (h : C06.TakOK basis p)
    (w : WinIn (Tak.PN.takGame basis) att d p) : WinIn ruleGame att d (abs p) := by
  induction w with
  | terminal ho => exact .terminal (by rw [← C06.over_abs h]; exact ho)
  | attacker ho ht hs _ ih =>
    obtain ⟨hq, hs'⟩ := C06.succ_abs h hs
    exact .attacker (by rw [← C06.over_abs h]; exact ho) ht hs' (ih hq)
  | defender ho ht _ ih =>
    refine .defender (by rw [← C06.over_abs h]; exact ho) ht ?_
    intro s' hs'
    obtain ⟨q, hq, rfl⟩ := C06.succ_of_abs h hs'
    exact ih q hq (C06.succ_abs h hq).1

theorem winIn_of_abs {basis : Array W} {att : Color} {d : Nat} {s : Spec.State} (w : WinIn ruleGame att d s) :
    ∀ p, C06.TakOK basis p → abs p = s → WinIn (Tak.PN.takGame basis) att d p := by
  induction w with
  | terminal ho => intro p h e; subst e; exact .terminal (by rw [C06.over_abs h]; exact ho)
  | attacker ho ht hs _ ih =>
    intro p h e; subst e
    obtain ⟨q, hq, hqe⟩ := C06.succ_of_abs h hs
    exact .attacker (by rw [C06.over_abs h]; exact ho) ht hq (ih q (C06.succ_abs h hq).1 hqe)
  | defender ho ht _ ih =>
    intro p h e; subst e
    refine .defender (by rw [C06.over_abs h]; exact ho) ht ?_
    intro q hq
    obtain ⟨hq', hs'⟩ := C06.succ_abs h hq
    exact ih _ hs' q hq' rfl

/-- **same forced wins within `d` plies in the engine's game and in the rule book's** -/
theorem winIn_tak_iff_rules (basis : Array W) (p : Pos) (h : C06.TakOK basis p) (att : Color) (d : Nat) :
    WinIn (Tak.PN.takGame basis) att d p ↔ WinIn ruleGame att d (abs p) :=
  ⟨winIn_abs h, fun w => winIn_of_abs w p h rfl⟩

variable (basis : Array W) (ev : Pos → Int) (sym : Pos → List H)

/-- **the verdict of depth-limited negamax, by the rule book**: for an evaluator that gives the verdict of finished
games up to ply `N` (`EvVerdict`), a position `p` of C01's invariant (≤ 64 pieces) with analysed groups and
`ply + d ≤ N`: the value at depth `d` is above `WinThreshold` iff the side to move can force a win within `d` plies in
`Spec.ruleGame`, below `-WinThreshold` iff the other side can, and in between iff neither can. -/
theorem negamax_rules (N : Int) (hev : EvVerdict basis ev N) (p : Pos) (hp : C06.TakOK basis p) (d : Nat)
    (hN : p.move + d ≤ N) :
    (negamax (takGame basis ev sym) d p > Facts.winThreshold ↔ WinIn ruleGame p.toMove d (abs p)) ∧
    (negamax (takGame basis ev sym) d p < -Facts.winThreshold ↔ WinIn ruleGame p.toMove.flip d (abs p)) ∧
    ((-Facts.winThreshold ≤ negamax (takGame basis ev sym) d p ∧
        negamax (takGame basis ev sym) d p ≤ Facts.winThreshold) ↔
      (¬ WinIn ruleGame p.toMove d (abs p) ∧ ¬ WinIn ruleGame p.toMove.flip d (abs p))) := by
  obtain ⟨h1, h2⟩ := negamax_winIn basis ev sym N (fun q hq hqN => hev q hq.wf hq.2 hqN) d p hp hN
  rw [winIn_tak_iff_rules basis p hp] at h1 h2
  refine ⟨h1, h2, ?_⟩
  rw [← h1, ← h2]
  constructor
  · intro h; exact ⟨by omega, by omega⟩
  · intro h; exact ⟨by omega, by omega⟩

/-- for an evaluator that gives the verdict at every ply (`EvaluateWinner`): `Search.Win` (some depth-limited value
is above the threshold) is a forced win of the side to move by the rule book -/
theorem win_iff_rules (hev : ∀ N, EvVerdict basis ev N) (p : Pos) (hp : C06.TakOK basis p) :
    Win (takGame basis ev sym) p ↔ PlainWin ruleGame p.toMove (abs p) := by
  rw [plainWin_iff_exists_winIn]
  constructor
  · rintro ⟨d, h⟩
    exact ⟨d, (negamax_rules basis ev sym (p.move + d) (hev _) p hp d (Int.le_refl _)).1.mp h⟩
  · rintro ⟨d, h⟩
    exact ⟨d, (negamax_rules basis ev sym (p.move + d) (hev _) p hp d (Int.le_refl _)).1.mpr h⟩

/-- … and `Search.Loss` a forced win of the other side -/
theorem loss_iff_rules (hev : ∀ N, EvVerdict basis ev N) (p : Pos) (hp : C06.TakOK basis p) :
    Loss (takGame basis ev sym) p ↔ PlainWin ruleGame p.toMove.flip (abs p) := by
  rw [plainWin_iff_exists_winIn]
  constructor
  · rintro ⟨d, h⟩
    exact ⟨d, (negamax_rules basis ev sym (p.move + d) (hev _) p hp d (Int.le_refl _)).2.1.mp h⟩
  · rintro ⟨d, h⟩
    exact ⟨d, (negamax_rules basis ev sym (p.move + d) (hev _) p hp d (Int.le_refl _)).2.1.mpr h⟩

theorem goodPos_takOK {basis : Array W} {p : Pos} (h : GoodPos basis p) : C06.TakOK basis p := ⟨h.1, h.2.2⟩

end Search
