import TakVerif.Proofs.WF

/-! An executable well-formedness check, sound for `WF`; used to exhibit concrete well-formed positions. -/
namespace Tak

def Cell.wfB (c : Cell) : Bool :=
  !(c.w && c.b) && !(c.s && c.c) && (!(c.s || c.c) || (c.w || c.b)) &&
  ((c.h == 0#8) == (!c.w && !c.b)) && decide (c.h.toNat ≤ 64) && (c.st >>> (c.h.toNat - 1) == 0#64)

theorem Cell.wfB_sound {c : Cell} (h : c.wfB = true) : c.WF := by
  unfold Cell.wfB at h
  simp only [Bool.and_eq_true, decide_eq_true_eq, beq_iff_eq] at h
  obtain ⟨⟨⟨⟨⟨h1, h2⟩, h3⟩, h4⟩, h5⟩, h6⟩ := h
  refine { wb := ?_, sc := ?_, kind_occ := ?_, h_zero := ?_, h_le := h5, st_hi := ?_ }
  · intro ⟨a, b⟩; simp [a, b] at h1
  · intro ⟨a, b⟩; simp [a, b] at h2
  · intro hk
    cases hw : c.w <;> cases hb : c.b <;> simp_all
  · cases hw : c.w <;> cases hb : c.b <;> simp_all
  · intro k hk
    have : (c.st >>> (c.h.toNat - 1)).getLsbD (k - (c.h.toNat - 1)) = false := by rw [h6]; simp
    rw [BitVec.getLsbD_ushiftRight] at this
    rw [← this]; congr 1; omega

def Pos.wfB (basis : Array W) (p : Pos) : Bool :=
  decide (3 ≤ p.cfg.size) && decide (p.cfg.size ≤ 8) && (p.c == Gen.precompute p.cfg.size) &&
  (p.height.size == p.cfg.size * p.cfg.size) && (p.stacks.size == p.cfg.size * p.cfg.size) &&
  (List.range 64).all (fun j => (p.cell j).wfB) && (p.hash == scratchHash basis p) && decide (0 ≤ p.move)

theorem Pos.wfB_sound {basis : Array W} {p : Pos} (h : p.wfB basis = true) : WF basis p := by
  unfold Pos.wfB at h
  simp only [Bool.and_eq_true, decide_eq_true_eq, beq_iff_eq, List.all_eq_true, List.mem_range] at h
  obtain ⟨⟨⟨⟨⟨⟨⟨h1, h2⟩, h3⟩, h4⟩, h5⟩, h6⟩, h7⟩, h8⟩ := h
  refine { size_ge := h1, size_le := h2, consts := h3, height_size := h4, stacks_size := h5, cell := ?_,
           hash := h7, move_nonneg := h8 }
  intro j
  by_cases hj : j < 64
  · exact Cell.wfB_sound (h6 j hj)
  · have hn : p.cfg.size * p.cfg.size ≤ 64 := by have := Nat.mul_le_mul h2 h2; omega
    have : p.cell j = Cell.empty := by
      apply Cell.ext' <;> simp only [Pos.cell, Cell.empty]
      · exact BitVec.getLsbD_of_ge _ _ (by omega)
      · exact BitVec.getLsbD_of_ge _ _ (by omega)
      · exact BitVec.getLsbD_of_ge _ _ (by omega)
      · exact BitVec.getLsbD_of_ge _ _ (by omega)
      · exact getD_oob _ _ _ (by omega)
      · exact getD_oob _ _ _ (by omega)
    rw [this]; exact Cell.empty_wf

end Tak
