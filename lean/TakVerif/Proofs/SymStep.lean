import TakVerif.Proofs.SymState

/-! Equivariance of the rule book `Spec.step` under the eight maps. -/
namespace Spec

theorem Sym.state_decReserve (k : Sym) (s : State) (c : Tak.Color) (cap : Bool) :
    k.state (s.decReserve c cap) = (k.state s).decReserve c cap := by
  cases c <;> cases cap <;> rfl

theorem Sym.state_incPly (k : Sym) (s : State) :
    k.state { s with ply := s.ply + 1 } = { k.state s with ply := (k.state s).ply + 1 } := rfl

theorem State.decReserve_WF {s : State} (hs : s.WF) (c : Tak.Color) (cap : Bool) : (s.decReserve c cap).WF := by
  cases c <;> cases cap <;> exact hs

@[simp] theorem State.decReserve_size (s : State) (c : Tak.Color) (cap : Bool) : (s.decReserve c cap).size = s.size := by
  cases c <;> cases cap <;> rfl

/-- what a carried stack finds when it enters a square (`none`: it may not enter) -/
def enterSquare (target : Square) (carried : List Tak.Piece) : Option Square :=
  match target with
  | [] => some []
  | t :: rest =>
    match t.kind with
    | .capstone => none
    | .standing =>
      (match carried with
       | [cp] => if cp.kind == .capstone then some (⟨t.color, .flat⟩ :: rest) else none
       | _ => none)
    | .flat => some target

theorem dropLoop_cons (s : State) (x y : Int) (d : Dir) (carried : List Tak.Piece) (c : Nat) (cs : List Nat) :
    dropLoop s x y d carried (c :: cs) =
      if !s.onBoard (x + d.dx) (y + d.dy) then none else
      if c < 1 ∨ c > carried.length then none else
      match enterSquare (s.at (x + d.dx) (y + d.dy)) carried with
      | none => none
      | some target =>
        dropLoop (s.setAt (x + d.dx) (y + d.dy) (carried.drop (carried.length - c) ++ target))
          (x + d.dx) (y + d.dy) d (carried.take (carried.length - c)) cs := by
  rfl

/-- the drop loop commutes with the map: start square and direction are mapped, drops are unchanged -/
theorem Sym.dropLoop_equivariant (k : Sym) (d : Dir) (drops : List Nat) :
    ∀ (s : State) (_ : s.WF) (x y : Int) (carried : List Tak.Piece),
      dropLoop (k.state s) (k.app s.size x y).1 (k.app s.size x y).2 (k.dir d) carried drops =
        (dropLoop s x y d carried drops).map k.state := by
  induction drops with
  | nil => intro s _ x y carried; simp only [dropLoop]; split <;> simp
  | cons c cs ih =>
    intro s hs x y carried
    rw [dropLoop_cons, dropLoop_cons]
    have hstep := Sym.app_step k s.size x y d
    have e1 : (k.app s.size x y).1 + (k.dir d).dx = (k.app s.size (x + d.dx) (y + d.dy)).1 := by rw [hstep]
    have e2 : (k.app s.size x y).2 + (k.dir d).dy = (k.app s.size (x + d.dx) (y + d.dy)).2 := by rw [hstep]
    simp only [e1, e2, Sym.state_onBoard]
    have hob : s.onBoard (k.app s.size (x + d.dx) (y + d.dy)).1 (k.app s.size (x + d.dx) (y + d.dy)).2
        = s.onBoard (x + d.dx) (y + d.dy) := by
      rw [Bool.eq_iff_iff, State.onBoard_iff, State.onBoard_iff]; exact Sym.onB_app k _ _ _
    rw [hob]
    by_cases hb : s.onBoard (x + d.dx) (y + d.dy) = true
    · have hB : onB s.size (x + d.dx) (y + d.dy) := (State.onBoard_iff _ _ _).1 hb
      simp only [hb, Bool.not_true, Bool.false_eq_true, if_false]
      by_cases hc : c < 1 ∨ c > carried.length
      · simp only [hc, if_true, Option.map_none]
      · simp only [hc, if_false]
        rw [Sym.state_at k s hB]
        cases enterSquare (s.at (x + d.dx) (y + d.dy)) carried with
        | none => simp
        | some target =>
          simp only
          rw [← Sym.state_setAt k hs hB]
          exact ih (s.setAt (x + d.dx) (y + d.dy) (List.drop (carried.length - c) carried ++ target))
            (State.setAt_WF hs _ _ _) (x + d.dx) (y + d.dy) (List.take (carried.length - c) carried)
    · simp [hb]

def State.incPly (s : State) : State := { s with ply := s.ply + 1 }

theorem Sym.state_incPly' (k : Sym) (s : State) : k.state s.incPly = (k.state s).incPly := rfl

theorem step_place (s : State) (x y : Int) (kd : Tak.Kind) :
    step s (.place x y kd) =
      if !s.onBoard x y then none else
      if s.ply < 2 ∧ kd ≠ .flat then none else
      if !(s.at x y).isEmpty then none else
      if s.reserve (if s.ply < 2 then s.toMove.flip else s.toMove) (kd == .capstone) == 0 then none else
      some (((s.decReserve (if s.ply < 2 then s.toMove.flip else s.toMove) (kd == .capstone)).setAt x y
        [⟨if s.ply < 2 then s.toMove.flip else s.toMove, kd⟩]).incPly) := rfl

/-- the part of a slide after the origin square has been read -/
def slideFrom (s : State) (x y : Int) (d : Dir) (drops : List Nat) (sq : Square) : Option State :=
  match sq with
  | [] => none
  | t :: _ =>
    if t.color ≠ s.toMove then none else
    match dropLoop (s.setAt x y (sq.drop (drops.foldl (· + ·) 0))) x y d (sq.take (drops.foldl (· + ·) 0)) drops with
    | none => none
    | some s => some s.incPly

theorem step_slide (s : State) (x y : Int) (d : Dir) (drops : List Nat) :
    step s (.slide x y d drops) =
      if s.ply < 2 then none else
      if !s.onBoard x y then none else
      if drops.isEmpty ∨ drops.any (· == 0) then none else
      if drops.foldl (· + ·) 0 > s.size ∨ drops.foldl (· + ·) 0 > (s.at x y).length then none else
      slideFrom s x y d drops (s.at x y) := by
  simp only [step, slideFrom]
  cases s.at x y <;> rfl

theorem onBoard_app_eq (k : Sym) (s : State) (x y : Int) :
    s.onBoard (k.app s.size x y).1 (k.app s.size x y).2 = s.onBoard x y := by
  rw [Bool.eq_iff_iff, State.onBoard_iff, State.onBoard_iff]; exact Sym.onB_app k _ _ _

theorem Sym.place_core (k : Sym) {s : State} (hs : s.WF) {x y : Int} (hB : onB s.size x y)
    (col : Tak.Color) (cap : Bool) (q : Square) :
    k.state (((s.decReserve col cap).setAt x y q).incPly) =
      (((k.state s).decReserve col cap).setAt (k.app s.size x y).1 (k.app s.size x y).2 q).incPly := by
  have e := Sym.state_setAt k (State.decReserve_WF hs col cap) (x := x) (y := y) (by simpa using hB) q
  simp only [State.decReserve_size] at e
  rw [Sym.state_incPly', e, Sym.state_decReserve]

theorem Sym.slideFrom_equivariant (k : Sym) {s : State} (hs : s.WF) {x y : Int} (hB : onB s.size x y)
    (d : Dir) (drops : List Nat) (sq : Square) :
    slideFrom (k.state s) (k.app s.size x y).1 (k.app s.size x y).2 (k.dir d) drops sq
      = (slideFrom s x y d drops sq).map k.state := by
  unfold slideFrom
  cases sq with
  | nil => simp
  | cons t rest =>
    simp only [Sym.state_toMove]
    by_cases hc : t.color ≠ s.toMove
    · simp [hc]
    · simp only [hc, if_false]
      rw [← Sym.state_setAt k hs hB]
      have := Sym.dropLoop_equivariant k d drops
        (s.setAt x y (List.drop (List.foldl (· + ·) 0 drops) (t :: rest)))
        (State.setAt_WF hs _ _ _) x y (List.take (List.foldl (· + ·) 0 drops) (t :: rest))
      simp only [State.setAt_size] at this
      rw [this]
      cases dropLoop (s.setAt x y (List.drop (List.foldl (· + ·) 0 drops) (t :: rest))) x y d
        (List.take (List.foldl (· + ·) 0 drops) (t :: rest)) drops with
      | none => simp
      | some s' => simp [Sym.state_incPly']

/-- **Equivariance of the rules**: applying the mapped move to the mapped state is the map of applying
the move to the state — in particular the mapped move is legal exactly when the move is. -/
theorem Sym.step_equivariant (k : Sym) (s : State) (hs : s.WF) (m : Move) :
    step (k.state s) (k.move s.size m) = (step s m).map k.state := by
  cases m with
  | invalid => simp [Sym.move, step]
  | place x y kd =>
    simp only [Sym.move]
    rw [step_place, step_place]
    by_cases hb : s.onBoard x y = true
    · have hB : onB s.size x y := (State.onBoard_iff _ _ _).1 hb
      have hb' : (k.state s).onBoard (k.app (↑s.size) x y).fst (k.app (↑s.size) x y).snd = true := by
        rw [Sym.state_onBoard, onBoard_app_eq]; exact hb
      have hat : (k.state s).at (k.app (↑s.size) x y).fst (k.app (↑s.size) x y).snd = s.at x y :=
        Sym.state_at k s hB
      simp only [hb, hb', hat, Sym.state_ply, Sym.state_toMove, Sym.state_reserve,
        Bool.not_true, Bool.false_eq_true, if_false]
      simp only [apply_ite (Option.map (Sym.state k)), Option.map_none, Option.map_some, Sym.place_core k hs hB]
      rfl
    · have hb' : (k.state s).onBoard (k.app (↑s.size) x y).fst (k.app (↑s.size) x y).snd = false := by
        rw [Sym.state_onBoard, onBoard_app_eq]; simpa using hb
      simp [hb, hb']
  | slide x y d drops =>
    simp only [Sym.move]
    rw [step_slide, step_slide]
    by_cases hb : s.onBoard x y = true
    · have hB : onB s.size x y := (State.onBoard_iff _ _ _).1 hb
      have hb' : (k.state s).onBoard (k.app (↑s.size) x y).fst (k.app (↑s.size) x y).snd = true := by
        rw [Sym.state_onBoard, onBoard_app_eq]; exact hb
      have hat : (k.state s).at (k.app (↑s.size) x y).fst (k.app (↑s.size) x y).snd = s.at x y :=
        Sym.state_at k s hB
      simp only [hb, hb', hat, Sym.state_ply, Bool.not_true, Bool.false_eq_true, if_false]
      rw [Sym.slideFrom_equivariant k hs hB]
      simp only [apply_ite (Option.map (Sym.state k)), Option.map_none]
      rfl
    · have hb' : (k.state s).onBoard (k.app (↑s.size) x y).fst (k.app (↑s.size) x y).snd = false := by
        rw [Sym.state_onBoard, onBoard_app_eq]; simpa using hb
      simp [hb, hb']

end Spec
