import TakVerif.Proofs.C06Update

/-! The search loop (`search`, `expand`, `pn2`) keeps the search state sound. -/
namespace C06
open Tak Tak.PN Spec.Game

variable {S M : Type} (G : Game S M) (att : Color) (root : S)

theorem descend_same (st st' : St S M) (l : List (Node M)) (c : Node M) (r : List (Node M))
    (h : descend G st l c r = some st') : SameRest st st' := by
  unfold descend at h
  split at h
  · exact absurd h (by simp)
  · split at h
    · exact absurd h (by simp)
    · injection h with h; subst h; exact ⟨rfl, rfl, rfl, rfl⟩

theorem select_same : ∀ (fuel : Nat) (st st' : St S M),
    selectMostProving G fuel st = .ok st' → SameRest st st' := by
  intro fuel
  induction fuel with
  | zero => intro st st' h; simp [selectMostProving] at h
  | succ fuel ih =>
    intro st st' h
    simp only [selectMostProving] at h
    split at h
    · split at h
      · exact absurd h (by simp)
      · split at h
        · exact absurd h (by simp)
        · rename_i st1 hd
          exact (descend_same G st st1 _ _ _ hd).trans (ih st1 st' h)
    · injection h with h; subst h; exact SameRest.rfl' st

theorem select_unexpanded : ∀ (fuel : Nat) (st st' : St S M),
    selectMostProving G fuel st = .ok st' → st'.focus.expanded = false := by
  intro fuel
  induction fuel with
  | zero => intro st st' h; simp [selectMostProving] at h
  | succ fuel ih =>
    intro st st' h
    simp only [selectMostProving] at h
    split at h
    · split at h
      · exact absurd h (by simp)
      · split at h
        · exact absurd h (by simp)
        · rename_i st1 hd
          exact ih st1 st' h
    · rename_i hx
      injection h with h; subst h; simpa using hx

theorem ascendTo_same (base : Nat) : ∀ (fuel : Nat) (st st' : St S M),
    ascendTo base fuel st = some st' → SameRest st st' := by
  intro fuel
  induction fuel with
  | zero =>
    intro st st' h
    simp only [ascendTo] at h
    split at h
    · injection h with h; subst h; exact SameRest.rfl' st
    · exact absurd h (by simp)
  | succ fuel ih =>
    intro st st' h
    simp only [ascendTo] at h
    split at h
    · injection h with h; subst h; exact SameRest.rfl' st
    · cases ha : ascend st with
      | none => rw [ha] at h; simp at h
      | some st1 =>
        rw [ha] at h
        simp only [Option.bind_some] at h
        exact (ascend_same st st1 ha).trans (ih st1 st' h)

theorem evaluate_anomaly (st st' : St S M) (h : PN.evaluate G att st = some st') : st'.anomaly = st.anomaly := by
  unfold PN.evaluate at h
  split at h
  · injection h with h; subst h; rfl
  · split at h
    · exact absurd h (by simp)
    · split at h
      · injection h with h; subst h; rfl
      · split at h <;> (injection h with h; subst h; rfl)

theorem expandLoop_anomaly (cur : S) : ∀ (ms : List M) (st st' : St S M),
    expandLoop G att st cur ms = some st' → st'.anomaly = st.anomaly := by
  intro ms
  induction ms with
  | nil => intro st st' h; simp only [expandLoop] at h; injection h with h; subst h; rfl
  | cons m ms ih =>
    intro st st' h
    simp only [expandLoop] at h
    split at h
    · exact ih st st' h
    · rename_i st1 hd
      have hs := descend_same G st st1 _ _ _ hd
      split at h
      · exact absurd h (by simp)
      · rename_i st2 hev
        have h2 := evaluate_anomaly G att _ st2 hev
        simp only at h2
        split at h
        · exact absurd h (by simp)
        · split at h
          · injection h with h; subst h
            simp only
            rw [h2]; exact hs.2.2.2
          · have := ih _ st' h
            simp only at this
            rw [this, h2]; exact hs.2.2.2


/-- the end of `pn2`: the second-level root gets its value and its children are cut back to leaves -/
theorem pn2_finish_ok (st : St S M) (v : Eval)
    (hz : ZipOK G att root st)
    (hv : v = st.focus.value ∨ (v = .proven ∧ st.focus.proof = 0) ∨ (v = .disproven ∧ st.focus.disproof = 0)) :
    ZipOK G att root { st with focus := { st.focus with value := v, children := st.focus.children.map collapse } } := by
  obtain ⟨s, hs, hst, ht, hc⟩ := hz
  rw [TreeOK_iff] at ht
  obtain ⟨hnum, hkids, hcov, hnil⟩ := ht
  refine ⟨s, hs, hst, ?_, ?_⟩
  · rw [TreeOK_iff]
    refine ⟨⟨hnum.proof, hnum.disproof, ?_, ?_, ?_, hnum.side, hnum.notBoth, hnum.live⟩, ?_, ?_, ?_⟩
    · intro hp
      simp only at hp
      rcases hv with h | ⟨_, h⟩ | ⟨h, _⟩
      · exact hnum.valueP (by rw [← h]; exact hp)
      · exact hnum.proof h
      · rw [h] at hp; exact absurd hp (by simp)
    · intro hdl hp
      simp only at hp
      rcases hv with h | ⟨h, _⟩ | ⟨_, h⟩
      · exact hnum.valueD hdl (by rw [← h]; exact hp)
      · rw [h] at hp; exact absurd hp (by simp)
      · exact hnum.disproof hdl h
    · intro hp
      simp only at hp
      rcases hv with h | ⟨h, _⟩ | ⟨h, _⟩
      · exact hnum.valueU (by rw [← h]; exact hp)
      · rw [h] at hp; exact absurd hp (by simp)
      · rw [h] at hp; exact absurd hp (by simp)
    · intro c' hc'
      simp only [List.mem_map] at hc'
      obtain ⟨c, hcm, rfl⟩ := hc'
      obtain ⟨s', q1, q2⟩ := hkids c hcm
      refine ⟨s', q1, ?_⟩
      rw [TreeOK_iff] at q2 ⊢
      obtain ⟨cn, _, _, _⟩ := q2
      refine ⟨⟨cn.proof, cn.disproof, cn.valueP, cn.valueD, cn.valueU, cn.side, cn.notBoth, ?_⟩, ?_, ?_, ?_⟩
      · rcases cn.live with h | ⟨_, h⟩
        · exact Or.inl h
        · exact Or.inr ⟨rfl, h⟩
      · intro x hx; simp [collapse] at hx
      · intro hx; simp [collapse] at hx
      · intro _; rfl
    · intro hx
      rcases hcov hx with h | ⟨h1, h2⟩
      · left
        rcases h with h | ⟨c, hcm, q1, q2⟩
        · left
          intro m hm s' hs'
          obtain ⟨c, hcm, hmv⟩ := h m hm s' hs'
          exact ⟨collapse c, List.mem_map.mpr ⟨c, hcm, rfl⟩, hmv⟩
        · right
          exact ⟨collapse c, List.mem_map.mpr ⟨c, hcm, rfl⟩, rfl, q2⟩
      · right
        exact ⟨by simp [h1], h2⟩
    · intro hx
      simp only at hx ⊢
      rw [hnil hx]; rfl
  · exact CrumbsOK.replace G att root hc rfl rfl (fun h1 h2 => ⟨h1, h2⟩)

/-- what the three mutually recursive functions guarantee -/
def OpOK (st st' : St S M) : Prop :=
  (st'.anomaly = false → st.anomaly = false) ∧ (ZipOK G att root st → st'.anomaly = false → ZipOK G att root st')

theorem OpOK.trans {a b c : St S M} (h1 : OpOK G att root a b) (h2 : OpOK G att root b c) : OpOK G att root a c :=
  ⟨fun h => h1.1 (h2.1 h), fun hz h => h2.2 (h1.2 hz (h2.1 h)) h⟩

theorem OpOK.of_same {a b : St S M} (hs : SameRest a b) (hz : ZipOK G att root a → ZipOK G att root b) : OpOK G att root a b :=
  ⟨fun h => by rw [← hs.2.2.2]; exact h, fun z _ => hz z⟩

theorem search_all (halt : Alternating G) (hatt : att = .white ∨ att = .black) (hsb : SmallFrom G root) :
    ∀ fuel : Nat,
      (∀ (base : Nat) (mn : UInt64) (st st' : St S M), search G att base mn fuel st = .ok st' →
        OpOK G att root st st' ∧ (ZipOK G att root st → st'.anomaly = false → st'.up.length = base)) ∧
      (∀ (st st' : St S M), expand G att fuel st = .ok st' → st.focus.expanded = false → OpOK G att root st st') ∧
      (∀ (st st' : St S M), pn2 G att fuel st = .ok st' → OpOK G att root st st') := by
  intro fuel
  induction fuel with
  | zero =>
    refine ⟨?_, ?_, ?_⟩
    · intro base mn st st' h; simp [search] at h
    · intro st st' h; simp [expand] at h
    · intro st st' h; simp [pn2] at h
  | succ fuel ih =>
    obtain ⟨ihS, ihE, ihP⟩ := ih
    -- pn2 first (it uses `search` at the smaller fuel), then expand, then search
    have hP : ∀ (st st' : St S M), pn2 G att (fuel+1) st = .ok st' → OpOK G att root st st' := by
      intro st st' h
      simp only [pn2] at h
      split at h
      · exact absurd h (by simp)
      · rename_i st2 hs
        injection h with h
        obtain ⟨⟨hm, hzz⟩, _⟩ := ihS _ _ _ st2 hs
        subst h
        constructor
        · intro han; exact hm han
        · intro hz han
          have hz2 : ZipOK G att root st2 := hzz ((ZipOK_congr G att root rfl rfl rfl rfl).mp hz) han
          have := pn2_finish_ok G att root st2
            (if st2.focus.proof == 0 then .proven else if st2.focus.disproof == 0 then .disproven else st2.focus.value)
            hz2 (by
              by_cases h1 : st2.focus.proof = 0
              · right; left; simp [h1]
              · by_cases h2 : st2.focus.disproof = 0
                · right; right; simp [h1, h2]
                · left; simp [h1, h2])
          refine (ZipOK_congr G att root ?_ ?_ ?_ ?_).mp this
          · simp only
            by_cases h1 : st2.focus.proof = 0
            · simp [h1]
            · by_cases h2 : st2.focus.disproof = 0
              · simp [h1, h2]
              · simp only [beq_iff_eq, h1, h2, if_false]
          · rfl
          · rfl
          · rfl
    have hE : ∀ (st st' : St S M), expand G att (fuel+1) st = .ok st' → st.focus.expanded = false →
        OpOK G att root st st' := by
      intro st st' h hunexp
      simp only [expand] at h
      split at h
      · exact absurd h (by simp)
      · rename_i cur rest hst
        split at h
        · -- PN²
          have := ihP _ st' h
          constructor
          · intro han
            have := this.1 han
            simp only [Bool.or_eq_false_iff] at this
            exact this.1.1
          · intro hz han
            exact this.2 ((ZipOK_congr G att root rfl rfl rfl rfl).mp hz) han
        · split at h
          · exact absurd h (by simp)
          · rename_i st1 hl
            injection h with h
            subst h
            have han1 := expandLoop_anomaly G att cur _ _ st1 hl
            simp only at han1
            constructor
            · intro han
              simp only at han
              rw [han1] at han
              simp only [Bool.or_eq_false_iff] at han
              exact han.1.1
            · intro hz han
              simp only at han
              rw [han1] at han
              simp only [Bool.or_eq_false_iff, beq_eq_false_iff_ne] at han
              have hz' : ZipOK G att root { st with anomaly := st.anomaly || st.focus.phi == 0 || st.focus.delta == 0 } :=
                (ZipOK_congr G att root rfl rfl rfl rfl).mp hz
              have := expand_normal_ok G att root halt hatt hsb _ st1 cur rest hz' hst hunexp han.1.2 han.2 hl
              exact (ZipOK_congr G att root rfl rfl rfl rfl).mp (this _ st1.anomaly)
    refine ⟨?_, hE, hP⟩
    intro base mn st st' h
    simp only [search] at h
    split at h
    · split at h
      · exact absurd h (by simp)
      · rename_i st1 hsel
        have hs1 := select_same G _ st st1 hsel
        have o1 : OpOK G att root st st1 :=
          OpOK.of_same G att root hs1 (fun z => (select_ok G att root _ st st1 z hsel).1)
        split at h
        · split at h
          · exact absurd h (by simp)
          · rename_i st2 hasc
            injection h with h; subst h
            have hs2 := ascendTo_same base _ st1 _ hasc
            have o2 : OpOK G att root st1 _ := OpOK.of_same G att root hs2 (fun z => (ascendTo_ok G att root base _ st1 _ z hasc).1)
            refine ⟨o1.trans G att root o2, ?_⟩
            intro hz han
            exact (ascendTo_ok G att root base _ st1 _ (o1.2 hz (o2.1 han)) hasc).2.1
        · split at h
          · exact absurd h (by simp)
          · rename_i st2 hexp
            split at h
            · exact absurd h (by simp)
            · rename_i st3 hupd
              obtain ⟨o4, hlen⟩ := ihS base mn st3 st' h
              have o3 : OpOK G att root st2 st3 :=
                ⟨updateAncestors_mono G base _ st2 st3 hupd,
                 fun z han => updateAncestors_ok G att root hsb base _ st2 st3 z hupd han⟩
              -- the node handed to `expand` is not expanded
              have o2 : OpOK G att root st1 st2 := ihE st1 st2 hexp (select_unexpanded G _ st st1 hsel)
              have o := (o1.trans G att root o2).trans G att root (o3.trans G att root o4)
              refine ⟨o, ?_⟩
              intro hz han
              have z3 := ((o1.trans G att root o2).trans G att root o3).2 hz (o4.1 han)
              exact hlen z3 han
    · split at h
      · exact absurd h (by simp)
      · rename_i st2 hasc
        injection h with h; subst h
        have hs2 := ascendTo_same base _ st _ hasc
        refine ⟨OpOK.of_same G att root hs2 (fun z => (ascendTo_ok G att root base _ st _ z hasc).1), ?_⟩
        intro hz _
        exact (ascendTo_ok G att root base _ st _ hz hasc).2.1

end C06
