import TakVerif.Impl.Bot

/-! An invariant of the bot loop about the MOVES of its record (`Proofs/BotPos.lean` is about the positions): every move
entered the record through `Position.Move` (`onServerMove`, `onAnswer`), which accepts placements, slides and the pass.  So
as long as no event carries the pass — `playtak.ParseServer` builds placements and slides only, engines answer from
`AllMoves` — every move of the record is a placement or a slide (`Move.Dest()` does not panic on it). -/
namespace Tak.Bot
open Tak

/-- `Position.Move` accepts only the pass, placements and slides -/
theorem apply_ok_shape {basis : Array W} {p q : Pos} {m : Move} (h : p.apply basis m = .ok q)
    (hn : m.type ≠ Facts.mtPass) : m.dest.isSome = true := by
  unfold Pos.apply at h
  have hp : (m.type == Facts.mtPass) = false := by simpa using hn
  simp only [hp, Bool.false_eq_true, if_false] at h
  cases hd : dispatch p.toMove m with
  | none => rw [hd] at h; cases h
  | some x =>
    unfold dispatch at hd
    unfold Move.dest
    by_cases h1 : (m.type == Facts.mtPlaceFlat) = true
    · simp [h1]
    by_cases h2 : (m.type == Facts.mtPlaceStanding) = true
    · simp [h2]
    by_cases h3 : (m.type == Facts.mtPlaceCapstone) = true
    · simp [h3]
    by_cases h4 : (m.type == Facts.mtSlideLeft) = true
    · simp [h1, h2, h3, h4]
    by_cases h5 : (m.type == Facts.mtSlideRight) = true
    · simp [h1, h2, h3, h4, h5]
    by_cases h6 : (m.type == Facts.mtSlideUp) = true
    · simp [h1, h2, h3, h4, h5, h6]
    by_cases h7 : (m.type == Facts.mtSlideDown) = true
    · simp [h1, h2, h3, h4, h5, h6, h7]
    · simp [h1, h2, h3, h4, h5, h6, h7] at hd

/-- every move of the record is a placement or a slide -/
def MInv (s : St) : Prop := ∀ m ∈ s.moves, m.dest.isSome = true

/-- the event does not carry the pass -/
def EvNoPass : Ev → Prop
  | .deliver _ (some m) _ => m.type ≠ Facts.mtPass
  | .aiReturns _ m => m.type ≠ Facts.mtPass
  | _ => True

theorem MInv.of_moves {s t : St} (h : MInv s) (he : t.moves = s.moves) : MInv t := by
  intro m hm; rw [he] at hm; exact h m hm

theorem crash_moves (s : St) (e : Err) : (s.crash e).moves = s.moves := rfl
theorem spawn_moves (cfg : Conf) (s : St) : (spawn cfg s).moves = s.moves := rfl
theorem retFalse_moves (cfg : Conf) (s : St) : (retFalse cfg s).moves = s.moves := rfl
theorem retTrue_moves (s : St) : (retTrue s).moves = s.moves := rfl

theorem srvPush_moves (cfg : Conf) (s : St) (m : Move) : (srvPush cfg s m).moves = s.moves := by
  unfold srvPush
  split
  · rfl
  · split <;> rfl

theorem srvPush_p (cfg : Conf) (s : St) (m : Move) : (srvPush cfg s m).p = s.p := by
  unfold srvPush
  split
  · rfl
  · split <;> rfl

theorem srvAccept_moves (cfg : Conf) (s : St) (m : Move) : (srvAccept cfg s m).moves = s.moves := by
  unfold srvAccept
  split
  · rfl
  · split
    · exact srvPush_moves cfg s m
    · rfl

theorem srvPop_moves (s : St) : (srvPop s).moves = s.moves := by
  unfold srvPop
  split <;> rfl

theorem minv_onServerMove (cfg : Conf) {s : St} (h : MInv s) (parsed : Option Move)
    (hp : ∀ m, parsed = some m → m.type ≠ Facts.mtPass) : MInv (onServerMove cfg s parsed) := by
  unfold onServerMove
  cases parsed with
  | none => exact h.of_moves (crash_moves _ _)
  | some m =>
    dsimp only
    cases ha : (srvPush cfg s m).p.apply cfg.basis m with
    | error e => exact h.of_moves (by rw [crash_moves, srvPush_moves])
    | ok q =>
      intro x hx
      have hx' : x ∈ m :: (srvPush cfg s m).moves := hx
      rw [srvPush_moves] at hx'
      rcases List.mem_cons.mp hx' with rfl | hx'
      · exact apply_ok_shape ha (hp _ rfl)
      · exact h x hx'

theorem minv_onTime (cfg : Conf) {s : St} (h : MInv s) (args : List String) : MInv (onTime cfg s args) := by
  unfold onTime
  split
  · dsimp only
    split
    · split
      · exact h.of_moves (by rw [retFalse_moves])
      · exact h.of_moves rfl
    · split
      · exact h.of_moves (by rw [retFalse_moves])
      · exact h.of_moves rfl
  · exact h.of_moves (crash_moves _ _)

theorem minv_onRequestUndo {s : St} (h : MInv s) (accept : Bool) : MInv (onRequestUndo s accept) := by
  unfold onRequestUndo
  split
  · exact h.of_moves rfl
  · exact h

theorem minv_onUndo (cfg : Conf) {s : St} (h : MInv s) : MInv (onUndo cfg s) := by
  have h' : MInv (srvPop s) := h.of_moves (srvPop_moves s)
  unfold onUndo
  dsimp only
  generalize srvPop s = s1 at h'
  split
  · exact h'.of_moves (crash_moves _ _)
  · split
    · exact h'.of_moves (crash_moves _ _)
    · rename_i m0 ms hms
      have hms' : s1.moves = m0 :: ms := hms
      have ht : ∀ x ∈ ms, x.dest.isSome = true := fun x hx => h' x (by rw [hms']; exact List.mem_cons_of_mem _ hx)
      split
      · intro x hx
        exact ht x hx
      · intro x hx
        exact ht x hx

theorem minv_onGameLine (cfg : Conf) {s : St} (h : MInv s) (rest : List String) (parsed : Option Move) (accept : Bool)
    (hp : ∀ m, parsed = some m → m.type ≠ Facts.mtPass) : MInv (onGameLine cfg s rest parsed accept) := by
  unfold onGameLine
  split
  · exact h.of_moves (crash_moves _ _)
  · split
    · exact minv_onServerMove cfg h parsed hp
    · split
      · exact h.of_moves (retTrue_moves _)
      · split
        · split
          · exact h.of_moves (crash_moves _ _)
          · exact h.of_moves (retTrue_moves _)
        · split
          · exact minv_onTime cfg h _
          · split
            · exact minv_onRequestUndo h accept
            · split
              · exact minv_onUndo cfg h
              · exact h

theorem minv_onLine (cfg : Conf) {s : St} (h : MInv s) (bits : List String) (parsed : Option Move) (accept : Bool)
    (hp : ∀ m, parsed = some m → m.type ≠ Facts.mtPass) : MInv (onLine cfg s bits parsed accept) := by
  unfold onLine
  split
  · exact h
  · split
    · exact minv_onGameLine cfg h _ parsed accept hp
    · split
      · exact minv_onGameLine cfg h _ parsed accept hp
      · exact h

theorem minv_onAnswer (cfg : Conf) {s : St} (h : MInv s) (m : Move) (hm : m.type ≠ Facts.mtPass) :
    MInv (onAnswer cfg s m) := by
  unfold onAnswer
  cases ha : s.p.apply cfg.basis m with
  | error e =>
    cases e with
    | illegal _ => exact h.of_moves (retFalse_moves _ _)
    | panic _ => exact h.of_moves (crash_moves _ _)
    | hang _ => exact h.of_moves (crash_moves _ _)
  | ok q =>
    dsimp only
    intro x hx
    rw [retFalse_moves] at hx
    have hx' : x ∈ m :: (srvAccept cfg { s with log := s.log ++ [{ move := m, recAt := s.p, srvAt := srvCur s, tag := s.cur.pos }] } m).moves := hx
    rw [srvAccept_moves] at hx'
    rcases List.mem_cons.mp hx' with rfl | hx'
    · exact apply_ok_shape ha hm
    · exact h x hx'

theorem minv_step (cfg : Conf) {s : St} (h : MInv s) (e : Ev) (he : EvNoPass e) : MInv (step cfg s e) := by
  cases e with
  | deliver bits parsed accept =>
    show MInv (if s.status = .running then onLine cfg s bits parsed accept else s)
    split
    · refine minv_onLine cfg h bits parsed accept ?_
      intro m hm
      subst hm
      exact he
    · exact h
  | close =>
    show MInv (if s.status = .running then retTrue s else s)
    split
    · exact h.of_moves (retTrue_moves _)
    · exact h
  | timerFires =>
    show MInv (if s.status = .running ∧ s.timeout = true then retFalse cfg s else s)
    split
    · exact h.of_moves (retFalse_moves _ _)
    · exact h
  | grant k =>
    show MInv (grant s k)
    unfold grant
    split
    · exact h
    · split
      · exact h.of_moves rfl
      · split
        · exact h.of_moves rfl
        · exact h
  | aiReturns k m =>
    show MInv (aiReturns cfg s k m)
    unfold aiReturns
    split
    · exact h.of_moves rfl
    · split
      · split
        · split
          · exact minv_onAnswer cfg (s := { s with cur := { s.cur with st := .done, cancelled := true } }) (h.of_moves rfl) m he
          · exact h.of_moves rfl
        · exact h
      · exact h

theorem minv_run (cfg : Conf) (evs : List Ev) : ∀ (s : St), MInv s → (∀ e ∈ evs, EvNoPass e) → MInv (run cfg s evs) := by
  induction evs with
  | nil => intro s h _; exact h
  | cons e es ih =>
    intro s h he
    exact ih (step cfg s e) (minv_step cfg h e (he e (List.mem_cons_self ..)))
      (fun e' he' => he e' (List.mem_cons_of_mem _ he'))

end Tak.Bot
