import TakVerif.Proofs.SearchTable
import TakVerif.Proofs.SearchCancelAnalyze

/-! Completeness of verdicts with a transposition table (C05): besides being *sound* (`SearchTable.lean`), every
table entry and every search result also *covers* its depth: an upper/exact value that is not a win excludes a
forced win within the entry's depth, a lower/exact value that is not a loss excludes a forced loss within it.
This file: the depth-monotonicity facts, the entry/table/result predicates and the steps that read or write the
table. -/
namespace Search
open Tak (Err)

variable {P M : Type}

local notation "W" => Facts.winThreshold

theorem W_pos : (0 : Int) < Facts.winThreshold := by simp only [Facts.winThreshold]; omega

/-! ### forced results and depth -/

theorem loss_mono_le {g : Game P M} (he : EvalOK g) (p : P) (d d' : Nat) (hd : d ≤ d')
    (h : negamax g d p < -W) : negamax g d' p < -W := by
  induction d' with
  | zero => have : d = 0 := by omega
            subst this; exact h
  | succ k ih =>
    by_cases hk : d = k + 1
    · subst hk; exact h
    · exact (decisive_mono he k p).2 (ih (by omega))

/-- no forced win within `d'` plies: none within fewer -/
theorem noWin_mono {g : Game P M} (he : EvalOK g) (p : P) (d d' : Nat) (hd : d ≤ d')
    (h : negamax g d' p ≤ W) : negamax g d p ≤ W := by
  by_cases hw : negamax g d p > W
  · have := win_mono_le he p d d' hd hw; omega
  · omega

theorem noLoss_mono {g : Game P M} (he : EvalOK g) (p : P) (d d' : Nat) (hd : d ≤ d')
    (h : -W ≤ negamax g d' p) : -W ≤ negamax g d p := by
  by_cases hw : negamax g d p < -W
  · have := loss_mono_le he p d d' hd hw; omega
  · omega

/-- a lost position is not won at any depth -/
theorem loss_noWin {g : Game P M} (he : EvalOK g) {p : P} (h : Loss g p) (d : Nat) : negamax g d p ≤ W := by
  obtain ⟨d1, h1⟩ := h
  by_cases hw : negamax g d p > W
  · have h2 := win_mono_le he p d (max d d1) (Nat.le_max_left _ _) hw
    have h3 := loss_mono_le he p d1 (max d d1) (Nat.le_max_right _ _) h1
    have := W_pos
    omega
  · omega

theorem win_noLoss {g : Game P M} (he : EvalOK g) {p : P} (h : Win g p) (d : Nat) : -W ≤ negamax g d p := by
  obtain ⟨d1, h1⟩ := h
  by_cases hw : negamax g d p < -W
  · have h2 := loss_mono_le he p d (max d d1) (Nat.le_max_left _ _) hw
    have h3 := win_mono_le he p d1 (max d d1) (Nat.le_max_right _ _) h1
    have := W_pos
    omega
  · omega

/-- a legal move to a position that is not won within `d` keeps the mover from losing within `d + 1` -/
theorem noLoss_of_child {g : Game P M} (hg : GameOK g) {p : P} (hov : g.over p = false) {m : M} {c : P}
    (hap : g.apply p m = .ok c) {d : Nat} (h : negamax g d c ≤ W) : -W ≤ negamax g (d + 1) p := by
  obtain ⟨m', hm', hap'⟩ := hg.complete p m c hap
  rw [negamax_succ g d p hov]
  have := maxOver_ge (fun c => -(negamax g d c.2)) (Facts.minEval - 1) (kids g p) (m', c) (mem_kids.mpr ⟨hm', hap'⟩)
  dsimp only at this
  omega

/-- if no legal move leads to a position lost within `d`, the mover has no forced win within `d + 1` -/
theorem noWin_of_children {g : Game P M} (he : EvalOK g) {p : P} (hov : g.over p = false) {d : Nat}
    (h : ∀ x ∈ kids g p, -W ≤ negamax g d x.2) : negamax g (d + 1) p ≤ W := by
  rw [negamax_succ g d p hov]
  obtain ⟨x, hx, hmx⟩ := maxOver_attained (fun c => -(negamax g d c.2)) (Facts.minEval - 1) (kids g p) (he.live p hov)
  have := h x hx
  rw [hmx]
  omega

/-! ### entries, tables, results -/

/-- the depth clause of a table entry read for position `p` -/
def CoversE (g : Game P M) (e : TEntry M) (p : P) : Prop :=
  ((e.bound = Facts.upperBound ∨ e.bound = Facts.exactBound) → e.value ≤ W → negamax g e.depth.toNat p ≤ W) ∧
  ((e.bound = Facts.lowerBound ∨ e.bound = Facts.exactBound) → -W ≤ e.value → -W ≤ negamax g e.depth.toNat p)

def GoodE (g : Game P M) (e : TEntry M) (p : P) : Prop := SoundE g e p ∧ CoversE g e p

/-- an entry that is good for `p` is good for every position with the hash of `p` -/
theorem GoodE.congr {g : Game P M} (hk : HashOK g) {p q : P} (e : g.hash q = g.hash p) {te : TEntry M}
    (h : GoodE g te p) : GoodE g te q := by
  refine ⟨SoundE.congr hk e h.1, ?_, ?_⟩
  · intro hb hv
    have h1 := h.2.1 hb hv
    have h2 := (hk q p e te.depth.toNat).1
    omega
  · intro hb hv
    have h1 := h.2.2 hb hv
    have h2 := (hk q p e te.depth.toNat).2
    omega

/-- every entry is sound and covers its depth for every unfinished position that would find it -/
def TableGood (g : Game P M) (s : Eng M) : Prop :=
  ∀ (i : Nat) (e : TEntry M), s.table[i]? = some e → ∀ p, g.hash p = e.hash → g.over p = false → GoodE g e p

/-- what a search result `r` of a depth-`d` search of `p` with window `(α, β)` may be trusted for -/
structure ResGood (g : Game P M) (p : P) (d : Nat) (α β r : Int) : Prop where
  win : α < r → r > W → Win g p
  loss : r < β → r < -W → Loss g p
  noWin : r < β → r ≤ W → negamax g d p ≤ W
  noLoss : α < r → -W ≤ r → -W ≤ negamax g d p

/-- what a node has established about its position when it stores / returns `v` -/
structure NodeGood (g : Game P M) (p : P) (d : Nat) (improved : Bool) (v β : Int) : Prop where
  win : improved = true → v > W → Win g p
  loss : (improved = false ∨ v < β) → v < -W → Loss g p
  noLoss : improved = true → -W ≤ v → -W ≤ negamax g d p
  noWin : (improved = false ∨ v < β) → v ≤ W → negamax g d p ≤ W

theorem TableGood.setEntry {g : Game P M} {s : Eng M} (h : TableGood g s) (i : Nat) (e : TEntry M)
    (he : ∀ p, g.hash p = e.hash → g.over p = false → GoodE g e p) : TableGood g (s.setEntry i e) := by
  intro j e' hj p hp hov
  unfold Eng.setEntry at hj
  dsimp only at hj
  rw [Array.getElem?_setIfInBounds] at hj
  split at hj
  · split at hj
    · cases hj; exact he p hp hov
    · cases hj
  · exact h j e' hj p hp hov

theorem TableGood.evict {g : Game P M} {s : Eng M} (h : TableGood g s) (k : H) : TableGood g (s.evict k) := by
  unfold Eng.evict
  split
  · exact h
  · rename_i e1 he1
    split
    · intro j e' hj p hp hov
      dsimp only at hj
      rw [Array.getElem?_setIfInBounds] at hj
      split at hj
      · split at hj
        · cases hj; exact h _ e1 he1 p hp hov
        · cases hj
      · exact h j e' hj p hp hov
    · exact h

/-- a state with the same table -/
theorem TableGood.of_table {g : Game P M} {s s1 : Eng M} (h : TableGood g s) (ht : s1.table = s.table) :
    TableGood g s1 := by
  intro i e hi; rw [ht] at hi; exact h i e hi

theorem ttGet_good {g : Game P M} {s : Eng M} (h : TableGood g s) (p : P) (hov : g.over p = false) :
    Sat (ttGet s (g.hash p)) (fun te => ∀ e, te = some e → GoodE g e p) := by
  unfold ttGet
  split
  · exact Sat.ok (fun e he => by cases he)
  · split
    · exact Sat.error
    · split
      · rename_i e1 e2 h1 h2
        split
        · rename_i hh
          refine Sat.ok (fun e he => ?_)
          cases he
          exact h _ e1 h1 p (by have := hh; simp only [beq_iff_eq] at this; exact this.symm) hov
        · split
          · rename_i hh
            refine Sat.ok (fun e he => ?_)
            cases he
            exact h _ e2 h2 p (by have := hh; simp only [beq_iff_eq] at this; exact this.symm) hov
          · exact Sat.ok (fun e he => by cases he)
      · exact Sat.error

theorem teSuffices_good {g : Game P M} (he : EvalOK g) {e : TEntry M} {p : P} (hge : GoodE g e p)
    (depth α β : Int) (h : teSuffices e depth α β = true) : ResGood g p depth.toNat α β e.value := by
  have hs := teSuffices_sound hge.1 depth α β h
  unfold teSuffices at h
  simp only [Bool.or_eq_true, Bool.and_eq_true, decide_eq_true_eq, beq_iff_eq] at h
  obtain ⟨hs1, hs2⟩ := hge.1
  obtain ⟨h1, h2⟩ := hge.2
  have hpos := W_pos
  refine ⟨hs.1, hs.2, ?_, ?_⟩
  · intro hb hv
    rcases h with ⟨hd, (hb' | ⟨_, hb'⟩) | ⟨hvb, _⟩⟩ | ⟨hb', hdec⟩
    · exact noWin_mono he p _ _ (by omega) (h1 (Or.inr hb') hv)
    · exact noWin_mono he p _ _ (by omega) (h1 (Or.inl hb') hv)
    · omega
    · rcases hdec with hdec | hdec
      · omega
      · exact loss_noWin he (hs2 (Or.inr hb') hdec) _
  · intro ha hv
    rcases h with ⟨hd, (hb' | ⟨hva, _⟩) | ⟨_, hb'⟩⟩ | ⟨hb', hdec⟩
    · exact noLoss_mono he p _ _ (by omega) (h2 (Or.inr hb') hv)
    · omega
    · exact noLoss_mono he p _ _ (by omega) (h2 (Or.inl hb') hv)
    · rcases hdec with hdec | hdec
      · exact win_noLoss he (hs1 (Or.inr hb') hdec) _
      · omega

theorem ttProbe_good {g : Game P M} (he : EvalOK g) (p : P) (hov : g.over p = false) (ply : Nat) (depth α β : Int)
    {s : Eng M} (h : TableGood g s) :
    Sat (ttProbe g p ply depth α β s) (fun x => TableGood g x.2 ∧
      match x.1 with
      | .inl r => ResGood g p depth.toNat α β r.2
      | .inr _ => True) := by
  unfold ttProbe
  apply Sat.bind
  refine (ttGet_good h p hov).mono ?_
  intro te hte
  cases te with
  | none => exact Sat.pure ⟨h, trivial⟩
  | some e =>
    dsimp only
    split
    · rename_i hsuff
      split
      · apply Sat.bind; intro pv0 _
        exact Sat.pure ⟨h, teSuffices_good he (hte e rfl) depth α β hsuff⟩
      · exact Sat.pure ⟨h, trivial⟩
      · exact Sat.throw
    · exact Sat.pure ⟨h, trivial⟩

/-- the leaf exit (`depth ≤ 0` or the game is over) -/
theorem leaf_good {g : Game P M} (p : P) (depth α β : Int) (hl : depth ≤ 0 ∨ g.over p = true) {s : Eng M}
    (h : TableGood g s) :
    TableGood g (leaf g p (g.over p) s).2 ∧ ResGood g p depth.toNat α β (leaf g p (g.over p) s).1.2 := by
  refine ⟨h, ?_⟩
  have hv : (leaf g p (g.over p) s).1.2 = g.eval p := rfl
  have hn : negamax g depth.toNat p = g.eval p := by
    rcases hl with hl | hl
    · have : depth.toNat = 0 := by omega
      rw [this]; rfl
    · exact negamax_over g _ p hl
  rw [hv]
  exact ⟨fun _ hw => ⟨0, hw⟩, fun _ hl' => ⟨0, hl'⟩, fun _ h1 => by rw [hn]; exact h1, fun _ h1 => by rw [hn]; exact h1⟩

theorem Sat.bind_eq {α β : Type} {x : Except Err α} {f : α → Except Err β} {Q : β → Prop}
    (h : ∀ a, x = .ok a → Sat (f a) Q) : Sat (x >>= f) Q := by
  intro b hb
  cases x with
  | error e => cases hb
  | ok a => exact h a rfl b hb

theorem ttPut_good {g : Game P M} (o : Oracle M) {s : Eng M} (h : TableGood g s) (k : H) :
    Sat (ttPut o s k) (fun x => TableGood g x.2) := by
  unfold ttPut
  split
  · exact Sat.ok h
  · dsimp only
    split
    · exact Sat.ok h
    · intro x hx
      cases hi : ttSlotIdx (load o s).2 k with
      | error e => rw [hi] at hx; cases hx
      | ok i =>
        rw [hi] at hx
        have : x = (some i, (load o s).2.evict k) := (Except.ok.inj hx).symm
        rw [this]
        exact TableGood.evict (s := (load o s).2) h k

/-- the entry a PV node stores is good for the position it was computed for -/
theorem pvEntry_good {g : Game P M} {p : P} {depth β : Int} {a : PvAcc M} (b0 : M)
    (hf : NodeGood g p depth.toNat a.improved a.α β) :
    GoodE g ⟨g.hash p, a.α, b0, if !a.improved then Facts.upperBound
      else if a.α ≥ β then Facts.lowerBound else Facts.exactBound, depth⟩ p := by
  cases hi : a.improved with
  | false =>
    simp only [Bool.not_false, if_true]
    refine ⟨⟨?_, ?_⟩, ⟨?_, ?_⟩⟩
    · intro hb; simp only [Facts.upperBound, Facts.lowerBound, Facts.exactBound] at hb; omega
    · intro _ hl; exact hf.loss (Or.inl hi) hl
    · intro _ hv; exact hf.noWin (Or.inl hi) hv
    · intro hb; simp only [Facts.upperBound, Facts.lowerBound, Facts.exactBound] at hb; omega
  | true =>
    simp only [Bool.not_true, Bool.false_eq_true, if_false]
    by_cases hge : a.α ≥ β
    · simp only [hge, if_true]
      refine ⟨⟨?_, ?_⟩, ⟨?_, ?_⟩⟩
      · intro _ hw; exact hf.win hi hw
      · intro hb; simp only [Facts.upperBound, Facts.lowerBound, Facts.exactBound] at hb; omega
      · intro hb; simp only [Facts.upperBound, Facts.lowerBound, Facts.exactBound] at hb; omega
      · intro _ hv; exact hf.noLoss hi hv
    · simp only [hge, if_false]
      refine ⟨⟨?_, ?_⟩, ⟨?_, ?_⟩⟩
      · intro _ hw; exact hf.win hi hw
      · intro _ hl; exact hf.loss (Or.inr (by omega)) hl
      · intro _ hv; exact hf.noWin (Or.inr (by omega)) hv
      · intro _ hv; exact hf.noLoss hi hv

/-- the table store at the end of `pvSearch`: the facts about the node are needed only if `ttPut` hands out a slot -/
theorem pvStore_good {g : Game P M} (hinj : HashOK g) (o : Oracle M) (p : P) (depth β : Int) (a : PvAcc M)
    {s : Eng M} (h : TableGood g s)
    (hf : (∃ slot s1, ttPut o s (g.hash p) = .ok (some slot, s1)) → NodeGood g p depth.toNat a.improved a.α β) :
    Sat (pvStore o (g.hash p) depth β a s) (fun x => TableGood g x.2 ∧ x.1.2 = a.α) := by
  unfold pvStore
  apply Sat.bind_eq
  rintro ⟨slot?, s1⟩ hput
  have hs1 : TableGood g s1 := ttPut_good o h (g.hash p) _ hput
  dsimp only
  cases slot? with
  | none => exact Sat.pure ⟨hs1, rfl⟩
  | some slot =>
    have hf' := hf ⟨slot, s1, hput⟩
    dsimp only
    split
    · rename_i old b0 rest _ _
      split
      · refine Sat.pure ⟨?_, rfl⟩
        have hs1' : TableGood g (if (!a.improved) = true then
            { s1 with st := { s1.st with allNodes := s1.st.allNodes + 1 } } else s1) := by
          split
          · exact hs1.of_table rfl
          · exact hs1
        refine TableGood.setEntry hs1' slot _ ?_
        intro q hq _
        dsimp only at hq
        exact GoodE.congr hinj hq (pvEntry_good b0 hf')
      · exact Sat.pure ⟨hs1, rfl⟩
    · exact Sat.throw

/-- the entry a zero-window node stores -/
theorem zwEntry_good {g : Game P M} {p : P} {depth α : Int} {a : ZwAcc M} (b0 : M)
    (hwin : a.didCut = true → α > W → Win g p)
    (hnl : a.didCut = true → -W ≤ α → -W ≤ negamax g depth.toNat p)
    (hloss : a.didCut = false → α < -W → Loss g p)
    (hnw : a.didCut = false → α ≤ W → negamax g depth.toNat p ≤ W) :
    GoodE g ⟨g.hash p, α, b0, if a.didCut then Facts.lowerBound else Facts.upperBound, depth⟩ p := by
  cases hd : a.didCut with
  | true =>
    simp only [if_true]
    refine ⟨⟨?_, ?_⟩, ⟨?_, ?_⟩⟩
    · intro _ hw; exact hwin hd hw
    · intro hb; simp only [Facts.upperBound, Facts.lowerBound, Facts.exactBound] at hb; omega
    · intro hb; simp only [Facts.upperBound, Facts.lowerBound, Facts.exactBound] at hb; omega
    · intro _ hv; exact hnl hd hv
  | false =>
    simp only [Bool.false_eq_true, if_false]
    refine ⟨⟨?_, ?_⟩, ⟨?_, ?_⟩⟩
    · intro hb; simp only [Facts.upperBound, Facts.lowerBound, Facts.exactBound] at hb; omega
    · intro _ hl; exact hloss hd hl
    · intro _ hv; exact hnw hd hv
    · intro hb; simp only [Facts.upperBound, Facts.lowerBound, Facts.exactBound] at hb; omega

theorem zwStore_good {g : Game P M} (hinj : HashOK g) (o : Oracle M) (p : P) (depth α : Int) (a : ZwAcc M)
    {s : Eng M} (h : TableGood g s)
    (hf : (∃ slot s1, ttPut o s (g.hash p) = .ok (some slot, s1)) →
      (a.didCut = true → α > W → Win g p) ∧ (a.didCut = true → -W ≤ α → -W ≤ negamax g depth.toNat p) ∧
      (a.didCut = false → α < -W → Loss g p) ∧ (a.didCut = false → α ≤ W → negamax g depth.toNat p ≤ W)) :
    Sat (zwStore o (g.hash p) depth α a s)
      (fun x => TableGood g x.2 ∧ x.1.2 = if a.didCut then α + 1 else α) := by
  unfold zwStore
  apply Sat.bind_eq
  rintro ⟨slot?, s1⟩ hput
  have hs1 : TableGood g s1 := ttPut_good o h (g.hash p) _ hput
  dsimp only
  cases slot? with
  | none => exact Sat.pure ⟨hs1, rfl⟩
  | some slot =>
    obtain ⟨f1, f2, f3, f4⟩ := hf ⟨slot, s1, hput⟩
    dsimp only
    split
    · rename_i b0 rest
      refine Sat.pure ⟨?_, rfl⟩
      have hs1' : TableGood g (if a.didCut = true then s1 else
          { s1 with st := { s1.st with allNodes := s1.st.allNodes + 1 } }) := by
        split
        · exact hs1
        · exact hs1.of_table rfl
      refine TableGood.setEntry hs1' slot _ ?_
      intro q hq _
      dsimp only at hq
      exact GoodE.congr hinj hq (zwEntry_good (g := g) (p := p) (depth := depth) (α := α) (a := a) _ f1 f2 f3 f4)
    · exact Sat.throw

/-- a new engine's table (all entries zero: value 0, lower bound, depth 0) is good -/
theorem tableGood_new {g : Game P M} (he : EvalOK g) (cfg : Cfg) : TableGood g (Eng.new g cfg) := by
  intro i e hi p _ hov
  unfold Eng.new at hi
  dsimp only at hi
  have : e = ⟨0#64, 0, g.zeroMove, 0, 0⟩ := by
    rw [Array.getElem?_replicate] at hi
    split at hi
    · exact (Option.some.inj hi).symm
    · cases hi
  subst this
  have hin := he.inside p hov
  refine ⟨⟨?_, ?_⟩, ⟨?_, ?_⟩⟩
  · intro _ h; simp only [Facts.winThreshold] at h; omega
  · intro _ h; simp only [Facts.winThreshold] at h; omega
  · intro hb; simp only [Facts.upperBound, Facts.lowerBound, Facts.exactBound] at hb; omega
  · intro _ _
    show -W ≤ negamax g 0 p
    rw [negamax_zero]; exact hin.1

end Search
