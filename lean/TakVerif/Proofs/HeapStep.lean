import TakVerif.Proofs.HeapRefine

/-! C09, layer 5: one op of the session preserves `Separated ∧ Refines`, and both interpreters report the
same outcome. -/
namespace Tak

/-- the invariant of a session -/
def SessInv (s : HState) (ps : PState) : Prop := Separated s ∧ Refines s ps

/-- what one op must establish -/
def StepOK (basis : Array W) (s : HState) (ps : PState) (op : Op) : Prop :=
  SessInv (s.step basis op).1 (ps.step basis op).1 ∧ (s.step basis op).2 = (ps.step basis op).2

theorem Pos.new_groups {cfg : Cfg} {p : Pos} (h : Pos.new cfg = .ok p) : p.wgroups = [] ∧ p.bgroups = [] := by
  unfold Pos.new at h
  split at h
  · cases h
  · extract_lets pieces caps at h
    split at h
    · cases h
    · cases h; exact ⟨rfl, rfl⟩

theorem Heap.observe_of {h : Heap} {i : Nat} {o : PObj} (ho : h.objs[i]? = some o) :
    h.observe i = some { o.val with wgroups := h.readSlice o.wg, bgroups := h.readSlice o.bg } := by
  simp only [Heap.observe, ho]

theorem SepWith.cons {owner h live} (S : SepWith owner h live) {n : Nat} {o : PObj} (ho : h.objs[n]? = some o)
    (hb : o.bg = Slice.nil ∨
      (owner o.bg.arr = some n ∧ h.InBounds o.bg ∧ (o.bg.arr = o.wg.arr → o.wg.off + o.wg.len ≤ o.bg.off))) :
    SepWith owner h (n :: live) := by
  refine ⟨S.wg, fun i hi => ?_, fun i oi hil hi => ?_⟩
  · rcases List.mem_cons.mp hi with rfl | hi
    · exact Heap.lt_size_of_getElem? ho
    · exact S.liveObj i hi
  · rcases List.mem_cons.mp hil with rfl | hil
    · rw [ho] at hi; cases hi; exact hb
    · exact S.bg i oi hil hi

theorem step_new (basis : Array W) {s : HState} {ps : PState} (I : SessInv s ps) (cfg : Cfg) :
    StepOK basis s ps (.new cfg) := by
  obtain ⟨⟨owner, S⟩, R⟩ := I
  obtain ⟨h, live⟩ := s
  simp only at S
  unfold StepOK
  simp only [HState.step, PState.step, Heap.new]
  cases hp : Pos.new cfg with
  | error e => exact ⟨⟨⟨owner, S⟩, R⟩, rfl⟩
  | ok p =>
    simp only [Heap.allocFrom_snd]
    have S1 := S.allocFrom p Slice.nil
    have ho1 : (h.allocFrom p Slice.nil).1.objs[h.objs.size]? = some ⟨p, ⟨h.arrs.size, 0, 0, 2 * p.cfg.size⟩, Slice.nil, h.arrs.size⟩ := by
      rw [Heap.allocFrom_fst_objs]; simp
    have S2 : Separated ⟨(h.allocFrom p Slice.nil).1, h.objs.size :: live⟩ := ⟨_, S1.cons ho1 (.inl rfl)⟩
    refine ⟨⟨S2, R.push_some ?_ (fun j hj => S.observe_allocFrom p _ hj) ?_⟩, ?_⟩
    · rw [Heap.allocFrom_fst_objs]; simp
    · obtain ⟨hw, hb⟩ := Pos.new_groups hp
      rw [Heap.observe_of ho1]
      simp only [Heap.readSlice_len_zero _ _ (rfl : Slice.nil.len = 0),
        Heap.readSlice_len_zero _ ⟨h.arrs.size, 0, 0, 2 * p.cfg.size⟩ rfl]
      cases p; simp_all
    · have := R.size; simp only at this; simp [this]

theorem step_fromValue (basis : Array W) {s : HState} {ps : PState} (I : SessInv s ps) (p : Pos) :
    StepOK basis s ps (.fromValue p) := by
  obtain ⟨⟨owner, S⟩, R⟩ := I
  obtain ⟨h, live⟩ := s
  simp only at S
  unfold StepOK
  simp only [HState.step, PState.step, Heap.allocFrom_snd]
  cases hr : p.analyze with
  | none =>
    simp only [Heap.alloc_analyze_none h p Slice.nil hr]
    exact ⟨⟨⟨owner, S⟩, R⟩, trivial⟩
  | some r =>
    obtain ⟨h', han, S', R'⟩ := S.alloc_analyze R p Slice.nil hr
    simp only [han]
    have := R.size; simp only at this
    exact ⟨⟨S', R'⟩, by simp [this]⟩

/-- what a live source handle gives us -/
theorem Refines.src {s : HState} {ps : PState} (R : Refines s ps) {src : Nat} (hl : src ∈ s.live) :
    ∃ pv o, ps.get src = some pv ∧ s.heap.observe src = some pv ∧ s.heap.objs[src]? = some o ∧
      pv = { o.val with wgroups := s.heap.readSlice o.wg, bgroups := s.heap.readSlice o.bg } := by
  obtain ⟨pv, hpv⟩ := (R.live src).mp hl
  have hobs := R.obs src pv hpv
  obtain ⟨o, ho, he⟩ := Heap.observe_some hobs
  exact ⟨pv, o, hpv, hobs, ho, he⟩

theorem Refines.not_src {s : HState} {ps : PState} (R : Refines s ps) {src : Nat} (hl : src ∉ s.live) :
    ps.get src = none := by
  cases hg : ps.get src with
  | none => rfl
  | some p => exact absurd ((R.live src).mpr ⟨p, hg⟩) hl

theorem step_clone (basis : Array W) {s : HState} {ps : PState} (I : SessInv s ps) (src : Nat) :
    StepOK basis s ps (.clone src) := by
  obtain ⟨⟨owner, S⟩, R⟩ := I
  unfold StepOK
  simp only [HState.step, PState.step]
  by_cases hl : src ∈ s.live
  · obtain ⟨pv, o, hpv, hobs, ho, he⟩ := R.src hl
    obtain ⟨h, live⟩ := s
    simp only at S hl hobs ho he
    simp only [hl, if_true, hpv, Heap.clone, ho, Heap.allocFrom_snd]
    have han : pv.analyze = o.val.analyze := by rw [he]; exact Pos.analyze_setGroups ..
    cases hr : pv.analyze with
    | none =>
      simp only [Heap.alloc_analyze_none h o.val o.bg (han ▸ hr)]
      exact ⟨⟨⟨owner, S⟩, R⟩, trivial⟩
    | some r =>
      obtain ⟨h', han', S', R'⟩ := S.alloc_analyze R o.val o.bg (han ▸ hr)
      simp only [han']
      have := R.size; simp only at this
      exact ⟨⟨S', R'⟩, by simp [this]⟩
  · simp only [hl, if_false, R.not_src hl]
    exact ⟨⟨⟨owner, S⟩, R⟩, trivial⟩

/-! ### `Move` / `MovePreallocated` -/

theorem Heap.move_fresh_eq {basis : Array W} {h : Heap} {src : Nat} {m : Move} {o : PObj} {pv : Pos}
    (ho : h.objs[src]? = some o) (hobs : h.observe src = some pv) :
    h.move basis src m none =
      match pv.apply basis m with
      | .error _ => some ((h.allocFrom o.val o.bg).1, none)
      | .ok q =>
        match Heap.analyze { (h.allocFrom o.val o.bg).1 with
            objs := (h.allocFrom o.val o.bg).1.objs.setIfInBounds h.objs.size
              { (⟨o.val, ⟨h.arrs.size, 0, 0, 2 * o.val.cfg.size⟩, o.bg, h.arrs.size⟩ : PObj) with val := q } } h.objs.size with
        | some h' => some (h', some h.objs.size)
        | none => none := by
  have ho1 : (h.allocFrom o.val o.bg).1.objs[h.objs.size]? = some ⟨o.val, ⟨h.arrs.size, 0, 0, 2 * o.val.cfg.size⟩, o.bg, h.arrs.size⟩ := by
    rw [Heap.allocFrom_fst_objs]; simp
  simp only [Heap.move, ho, hobs]
  cases pv.apply basis m with
  | error e => rfl
  | ok q => simp only [Heap.allocFrom_snd, ho1]; rfl

/-- the buffer after `copyPosition(src, buf)` -/
def PObj.copied (ob o : PObj) : PObj := { ob with val := o.val, wg := { ob.wg with len := 0 }, bg := o.bg }

theorem Heap.move_buf_eq {basis : Array W} {h : Heap} {src b : Nat} {m : Move} {o ob : PObj} {pv : Pos}
    (ho : h.objs[src]? = some o) (hobs : h.observe src = some pv) (hob : h.objs[b]? = some ob) :
    h.move basis src m (some b) =
      match pv.apply basis m with
      | .error _ => some ({ h with objs := h.objs.setIfInBounds b (ob.copied o) }, none)
      | .ok q =>
        match Heap.analyze { h with objs := h.objs.setIfInBounds b { ob.copied o with val := q } } b with
        | some h' => some (h', some b)
        | none => none := by
  have blt := Heap.lt_size_of_getElem? hob
  simp only [Heap.move, ho, hobs, Heap.copyPosition, hob, Option.map]
  cases pv.apply basis m with
  | error e => rfl
  | ok q => simp [blt, PObj.copied]; rfl


theorem step_move (basis : Array W) {s : HState} {ps : PState} (I : SessInv s ps) (src : Nat) (m : Move) :
    StepOK basis s ps (.move src m) := by
  obtain ⟨⟨owner, S⟩, R⟩ := I
  unfold StepOK
  simp only [HState.step, PState.step]
  by_cases hl : src ∈ s.live
  · obtain ⟨pv, o, hpv, hobs, ho, he⟩ := R.src hl
    obtain ⟨h, live⟩ := s
    simp only at S hl hobs ho he
    have hsize := R.size; simp only at hsize
    simp only [hl, if_true, hpv, Heap.move_fresh_eq ho hobs]
    have S1 := S.allocFrom o.val o.bg
    have ho1 : (h.allocFrom o.val o.bg).1.objs[h.objs.size]? = some ⟨o.val, ⟨h.arrs.size, 0, 0, 2 * o.val.cfg.size⟩, o.bg, h.arrs.size⟩ := by
      rw [Heap.allocFrom_fst_objs]; simp
    have hsz1 : (h.allocFrom o.val o.bg).1.objs.size = h.objs.size + 1 := by
      rw [Heap.allocFrom_fst_objs]; simp
    cases ha : pv.apply basis m with
    | error e =>
      -- the move is refused: the scratch object exists but nobody holds it
      refine ⟨⟨⟨_, S1⟩, R.push_none hsz1 (fun j hj => S.observe_allocFrom _ _ hj)⟩, rfl⟩
    | ok q =>
      obtain ⟨h', han, S', hobs', hsz', hpres⟩ := S1.set_val_analyze ho1 R.not_live_size (Pos.apply_analyzed ha)
      simp only [han]
      refine ⟨⟨S', R.push_some (by rw [hsz', hsz1]) (fun j hj => ?_) hobs'⟩, by simp [hsize]⟩
      rw [hpres j hj]; exact S.observe_allocFrom _ _ hj
  · simp only [hl, if_false, R.not_src hl]
    exact ⟨⟨⟨owner, S⟩, R⟩, trivial⟩

theorem step_movepre (basis : Array W) {s : HState} {ps : PState} (I : SessInv s ps) (src : Nat) (m : Move) (b : Nat) :
    StepOK basis s ps (.movepre src m b) := by
  obtain ⟨⟨owner, S⟩, R⟩ := I
  unfold StepOK
  simp only [HState.step, PState.step]
  have hsize := R.size
  by_cases hl : src ∈ s.live
  · obtain ⟨pv, o, hpv, hobs, ho, he⟩ := R.src hl
    by_cases hc : b ≠ src ∧ b < s.heap.objs.size
    · obtain ⟨h, live⟩ := s
      simp only at S hl hobs ho he hc hsize
      obtain ⟨hne, blt⟩ := hc
      obtain ⟨ob, hob⟩ : ∃ ob, h.objs[b]? = some ob := ⟨h.objs[b], by simp [blt]⟩
      simp only [hl, hne, blt, hsize, ne_eq, not_false_eq_true, and_self, if_true, hpv, Heap.move_buf_eq ho hobs hob]
      -- the buffer stops being a position the moment it is handed in
      have S0 : SepWith owner h (live.filter (· != b)) := S.mono (fun i hi => (mem_filter_ne.mp hi).1)
      have hbn : b ∉ live.filter (· != b) := fun hm => (mem_filter_ne.mp hm).2 rfl
      have hwb := (S.wg b ob hob).2
      cases ha : pv.apply basis m with
      | error e =>
        have S1 := S0.setObj (o' := ob.copied o) hob hbn rfl rfl rfl (Nat.zero_le _)
        refine ⟨⟨⟨_, S1⟩, R.set_none blt (by simp) (fun j hj => ?_)⟩, rfl⟩
        exact Heap.observe_setObj_ne h b j _ (fun e => hbn (e ▸ hj))
      | ok q =>
        have S1 := S0.setObj (o' := { ob.copied o with val := q }) hob hbn rfl rfl rfl (Nat.zero_le _)
        have ho1 : (Heap.objs { h with objs := h.objs.setIfInBounds b { ob.copied o with val := q } })[b]? =
            some { ob.copied o with val := q } := by simp [blt]
        obtain ⟨h', han, S', hobs', hsz', hpres⟩ := S1.analyze ho1 hbn (Pos.apply_analyzed ha)
        simp only [han]
        refine ⟨⟨⟨_, S'⟩, R.set_some blt (by rw [hsz']; simp) (fun j hj => ?_) hobs'⟩, trivial⟩
        rw [hpres j hj]
        exact Heap.observe_setObj_ne h b j _ (fun e => hbn (e ▸ hj))
    · have hc' : ¬ (b ≠ src ∧ b < ps.size) := by rw [hsize]; exact hc
      simp only [hl, true_and, hc, hc', if_false, hpv]
      exact ⟨⟨⟨owner, S⟩, R⟩, trivial⟩
  · simp only [hl, false_and, if_false, R.not_src hl]
    exact ⟨⟨⟨owner, S⟩, R⟩, trivial⟩

/-- every op keeps the session invariant, and the two interpreters agree on the outcome -/
theorem step_ok (basis : Array W) {s : HState} {ps : PState} (I : SessInv s ps) (op : Op) : StepOK basis s ps op := by
  cases op with
  | new cfg => exact step_new basis I cfg
  | fromValue p => exact step_fromValue basis I p
  | clone src => exact step_clone basis I src
  | move src m => exact step_move basis I src m
  | movepre src m b => exact step_movepre basis I src m b

end Tak
