import TakVerif.Proofs.GenApplySlide

set_option linter.unusedSimpArgs false

/-! Helper lemmas for `C01.movePreallocated_is_source`, third part: the function as a whole, by move type. -/
namespace GenApply
open Tak GenMove

/-- the regenerated `MovePreallocated` on the fields of `p` (`nextNil`: the Go argument `next` was nil) -/
def genApply (basis : Array W) (p : Pos) (m : Gen.Move) (nextNil : Bool) : Option (Except Unit NextT) :=
  Gen.movePreallocated basis p.black p.caps p.height p.cfg.size p.stacks p.standing p.white p.blackCaps p.blackStones
    p.cfg.size p.c p.hash p.move p.whiteCaps p.whiteStones m nextNil

theorem type_eq (m : Move) (hm : m.type < 256) (k : Nat) (hk : k < 256) :
    ((genMove m).Type_ == BitVec.ofNat 8 k) = (m.type == k) := by
  simp only [genMove]; exact ofNat8_eq _ _ hm hk

theorem apply_pass (basis : Array W) (p : Pos) (m : Move) (nn : Bool) (ht : m.type = 1) :
    genApply basis p (genMove m) nn = encR (p.apply basis m) := by
  have t1 : ((genMove m).Type_ == 1#8) = true := by simp [genMove, ht]
  unfold genApply Gen.movePreallocated Pos.apply
  simp only [ite_self, t1, ↓reduceIte, ht, Facts.mtPass, BEq.rfl]
  rw [← finish_is_source]
  simp only []
  cases Gen.positionAnalyze p.black p.standing p.white p.c with
  | none => rfl
  | some r => obtain ⟨bg, wg⟩ := r; rfl

theorem apply_bad (basis : Array W) (p : Pos) (m : Move) (nn : Bool) (hm : m.type < 256)
    (ht : ∀ k, 1 ≤ k → k ≤ 8 → m.type ≠ k) :
    genApply basis p (genMove m) nn = encR (p.apply basis m) := by
  have t : ∀ k, 1 ≤ k → k ≤ 8 → ((genMove m).Type_ == BitVec.ofNat 8 k) = false := by
    intro k h1 h8; rw [type_eq m hm k (by omega)]; simpa using ht k h1 h8
  have t1 := t 1 (by omega) (by omega); have t2 := t 2 (by omega) (by omega); have t3 := t 3 (by omega) (by omega)
  have t4 := t 4 (by omega) (by omega); have t5 := t 5 (by omega) (by omega); have t6 := t 6 (by omega) (by omega)
  have t7 := t 7 (by omega) (by omega); have t8 := t 8 (by omega) (by omega)
  have n : ∀ k, 1 ≤ k → k ≤ 8 → (m.type == k) = false := by intro k h1 h8; simpa using ht k h1 h8
  unfold genApply Gen.movePreallocated Pos.apply dispatch
  simp only [ite_self, BitVec.ofNat_eq_ofNat] at t1 t2 t3 t4 t5 t6 t7 t8 ⊢
  simp only [t1, t2, t3, t4, t5, t6, t7, t8, Bool.false_eq_true, ↓reduceIte, Facts.mtPass, Facts.mtPlaceFlat, Facts.mtPlaceStanding,
    Facts.mtPlaceCapstone, Facts.mtSlideLeft, Facts.mtSlideRight, Facts.mtSlideUp, Facts.mtSlideDown,
    n 1 (by omega) (by omega), n 2 (by omega) (by omega), n 3 (by omega) (by omega), n 4 (by omega) (by omega),
    n 5 (by omega) (by omega), n 6 (by omega) (by omega), n 7 (by omega) (by omega), n 8 (by omega) (by omega)]
  rfl

theorem beq8_1_1 : ((1#8 : BitVec 8) == 1#8) = true := by decide
theorem bne8_1_1 : ((1#8 : BitVec 8) != 1#8) = false := by decide
theorem beq8_1_2 : ((1#8 : BitVec 8) == 2#8) = false := by decide
theorem bne8_1_2 : ((1#8 : BitVec 8) != 2#8) = true := by decide
theorem beq8_1_3 : ((1#8 : BitVec 8) == 3#8) = false := by decide
theorem bne8_1_3 : ((1#8 : BitVec 8) != 3#8) = true := by decide
theorem beq8_2_1 : ((2#8 : BitVec 8) == 1#8) = false := by decide
theorem bne8_2_1 : ((2#8 : BitVec 8) != 1#8) = true := by decide
theorem beq8_2_2 : ((2#8 : BitVec 8) == 2#8) = true := by decide
theorem bne8_2_2 : ((2#8 : BitVec 8) != 2#8) = false := by decide
theorem beq8_2_3 : ((2#8 : BitVec 8) == 3#8) = false := by decide
theorem bne8_2_3 : ((2#8 : BitVec 8) != 3#8) = true := by decide
theorem beq8_3_1 : ((3#8 : BitVec 8) == 1#8) = false := by decide
theorem bne8_3_1 : ((3#8 : BitVec 8) != 1#8) = true := by decide
theorem beq8_3_2 : ((3#8 : BitVec 8) == 2#8) = false := by decide
theorem bne8_3_2 : ((3#8 : BitVec 8) != 2#8) = true := by decide
theorem beq8_3_3 : ((3#8 : BitVec 8) == 3#8) = true := by decide
theorem bne8_3_3 : ((3#8 : BitVec 8) != 3#8) = false := by decide
theorem beq8_128_128 : ((128#8 : BitVec 8) == 128#8) = true := by decide
theorem beq8_128_64 : ((128#8 : BitVec 8) == 64#8) = false := by decide
theorem beq8_64_128 : ((64#8 : BitVec 8) == 128#8) = false := by decide
theorem beq8_64_64 : ((64#8 : BitVec 8) == 64#8) = true := by decide

theorem kindByte_flat : C01.kindByte Kind.flat = 1#8 := rfl
theorem kindByte_standing : C01.kindByte Kind.standing = 2#8 := rfl
theorem kindByte_capstone : C01.kindByte Kind.capstone = 3#8 := rfl
theorem colorByte_white : C01.colorByte Color.white = 128#8 := rfl
theorem colorByte_black : C01.colorByte Color.black = 64#8 := rfl

theorem pieceByte_ne_zero (k : Kind) :
    (C01.pieceByte ⟨.white, k⟩ != 0#8) = true ∧ (C01.pieceByte ⟨.black, k⟩ != 0#8) = true := by
  cases k <;> decide

theorem le0_eq (v : U8) : decide (v ≤ 0#8) = (v == 0#8) := by revert v; decide

theorem toMove_cases (p : Pos) : p.toMove = .white ∨ p.toMove = .black := by
  unfold Pos.toMove; split <;> simp

/-- the placement branch: the regenerated block (the reserve chosen through the `stones` pointer, resolved per path) is
the model's `placeOn` -/
theorem apply_place (basis : Array W) (p : Pos) (m : Move) (nn : Bool)
    (hsz : p.cfg.size ≤ 8) (hH : p.cfg.size * p.cfg.size ≤ p.height.size) (k : Kind)
    (hk : (m.type = 2 ∧ k = .flat) ∨ (m.type = 3 ∧ k = .standing) ∨ (m.type = 4 ∧ k = .capstone)) :
    genApply basis p (genMove m) nn = encR (p.apply basis m) := by
  have wsz : Gen.wrap8 (p.cfg.size : Int) = p.cfg.size := wrap8_id _ (by omega) (by omega)
  have hX : (genMove m).X = m.x := rfl
  have hY : (genMove m).Y = m.y := rfl
  have hpp := C01.pieceParts_is_source
  have hfl := C01.colorFlip_is_source
  have hmk2 : ∀ c k, Gen.makePiece (C01.colorByte c) (C01.kindByte k) = C01.pieceByte ⟨c, k⟩ :=
    fun c k => (C01.makePiece_is_source ⟨c, k⟩).symm
  have hmkf : ∀ c, Gen.makePiece (C01.colorByte c) 1#8 = C01.pieceByte ⟨c, .flat⟩ := fun c => hmk2 c .flat
  have hmks : ∀ c, Gen.makePiece (C01.colorByte c) 2#8 = C01.pieceByte ⟨c, .standing⟩ := fun c => hmk2 c .standing
  have hmkc : ∀ c, Gen.makePiece (C01.colorByte c) 3#8 = C01.pieceByte ⟨c, .capstone⟩ := fun c => hmk2 c .capstone
  have cc : ∀ c : Color, C02.colorByte c = C01.colorByte c := fun _ => rfl
  have hm : m.type < 256 := by rcases hk with h | h | h <;> omega
  have te : ∀ j, j < 256 → ((genMove m).Type_ == BitVec.ofNat 8 j) = (m.type == j) := fun j hj => type_eq m hm j hj
  have t1 := te 1 (by omega); have t2 := te 2 (by omega); have t3 := te 3 (by omega); have t4 := te 4 (by omega)
  unfold genApply Gen.movePreallocated Pos.apply dispatch openingRule
  rcases hk with ⟨ht, rfl⟩ | ⟨ht, rfl⟩ | ⟨ht, rfl⟩
  all_goals
    simp only [ite_self, t1, t2, t3, t4, Bool.false_eq_true, ↓reduceIte, ht, Facts.mtPass, Facts.mtPlaceFlat, Facts.mtPlaceStanding,
      Facts.mtPlaceCapstone, BEq.rfl, ← C02.toMove_is_source, hX, hY, wsz, Nat.reduceBEq, cc]
    simp only [hmkf, hmks, hmkc, (hpp _).1, (hpp _).2.1, hfl, hmk2]
  all_goals
    rcases toMove_cases p with htm | htm <;> by_cases hop : p.move < 2 <;>
      simp only [htm, hop, decide_true, decide_false, ↓reduceIte, Color.flip, Bool.false_eq_true, encR,
        (pieceByte_ne_zero _).1, (pieceByte_ne_zero _).2, (hpp _).1, (hpp _).2.1, le0_eq,
        kindByte_flat, kindByte_standing, kindByte_capstone, colorByte_white, colorByte_black, beq8_1_1, bne8_1_1, beq8_1_2, bne8_1_2, beq8_1_3, bne8_1_3, beq8_2_1, bne8_2_1, beq8_2_2, bne8_2_2, beq8_2_3, bne8_2_3, beq8_3_1, bne8_3_1, beq8_3_2, bne8_3_2, beq8_3_3, bne8_3_3, beq8_128_128, beq8_128_64, beq8_64_128, beq8_64_64,
        ne_eq, not_true_eq_false, reduceCtorEq, not_false_eq_true]
  all_goals
    simp only [Bool.or_eq_true, decide_eq_true_eq, ge_iff_le, or_assoc]
    by_cases hb : m.x < 0 ∨ (p.cfg.size : Int) ≤ m.x ∨ m.y < 0 ∨ (p.cfg.size : Int) ≤ m.y
    · simp only [hb, ↓reduceIte, encR]
    simp only [hb, ↓reduceIte]
    have hb' : 0 ≤ m.x ∧ m.x < p.cfg.size ∧ 0 ≤ m.y ∧ m.y < p.cfg.size := by omega
    obtain ⟨hj, hjlt⟩ := idx_conv p.cfg.size hsz m.x m.y hb'.1 hb'.2.1 hb'.2.2.1 hb'.2.2.2
    rw [wsz] at hj
    simp only [hj, shl_bit, and_bit_ne]
    generalize (m.x + m.y * (p.cfg.size : Int)).toNat = j at hjlt ⊢
    have hjH : j < p.height.size := by omega
    unfold placeOn
    cases hocc : (p.white ||| p.black).getLsbD j
    case true => simp only [↓reduceIte, encR]
    simp only [Bool.false_eq_true, ↓reduceIte, hjH, decide_true, Bool.not_true, beq_self_eq_true, BEq.rfl, htm]
  all_goals
    simp only [show (Kind.flat == Kind.capstone) = false from rfl, show (Kind.standing == Kind.capstone) = false from rfl,
      show (Kind.capstone == Kind.capstone) = true from rfl, show (Color.white == Color.black) = false from rfl,
      show (Color.black == Color.black) = true from rfl, show (Color.black == Color.white) = false from rfl,
      show (Color.white == Color.white) = true from rfl, ↓reduceIte, Bool.false_eq_true]
    split
    · rename_i h0
      simp only [h0, ↓reduceIte, encR]
    · rename_i h0
      try simp only [h0, ↓reduceIte, Bool.false_eq_true]
      refine Eq.trans ?_ (finish_is_source _)
      rfl

end GenApply
