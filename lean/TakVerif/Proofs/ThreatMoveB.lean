import TakVerif.Proofs.ThreatMoveBase

/-! C19, step 3 (black mover): `Pos.apply` on a one-step slide of a single flat.  One lemma per direction;
the three branches of the origin update (stack of one / next piece white / next piece black) are
separated before `Pos.apply` is unfolded, so that every intermediate position stays a plain record. -/
namespace C19
open Tak Roads Spec
set_option linter.unusedSimpArgs false

theorem apply_slide_right_b (basis : Array W) (p : Pos) (x y : Nat) (hx : x + 1 < p.cfg.size) (hy : y < p.cfg.size)
    (h64 : p.cfg.size * p.cfg.size ≤ 64) (hply : 2 ≤ p.move) (hw : p.toMove = .black)
    (hdis : ∀ k, p.white.getLsbD k = true → p.black.getLsbD k = true → False)
    (hown : p.black.getLsbD (x + y * p.cfg.size) = true)
    (hnw : p.white.getLsbD (x + y * p.cfg.size) = false)
    (hns : p.standing.getLsbD (x + y * p.cfg.size) = false)
    (hnc : p.caps.getLsbD (x + y * p.cfg.size) = false)
    (hh : 1 ≤ (p.height[x + y * p.cfg.size]?.getD 0#8).toNat)
    (hts : p.standing.getLsbD (x + 1 + (y) * p.cfg.size) = false)
    (htc : p.caps.getLsbD (x + 1 + (y) * p.cfg.size) = false) :
    ∃ q, p.apply basis ⟨x, y, Facts.mtSlideRight, 1#32⟩ = .ok q ∧
      After p q (x + y * p.cfg.size) (x + 1 + (y) * p.cfg.size) p.black q.black p.white q.white := by
  have h2 : ¬ (p.move < 2) := by omega
  have hx' : ¬ ((p.cfg.size : Int) ≤ x) := by omega
  have hy' : ¬ ((p.cfg.size : Int) ≤ y) := by omega
  have hxn : ¬ ((x : Int) < 0) := by omega
  have hyn : ¬ ((y : Int) < 0) := by omega
  have hidx := idx_toNat x y p.cfg.size
  have htop : p.topAt (x + y * p.cfg.size) = some ⟨.black, .flat⟩ := by
    unfold Pos.topAt; simp [hown, hns, hnc, hnw]
  have hsz : ¬ (p.cfg.size = 0) := by omega
  have hh0 : ¬ ((p.height[x + y * p.cfg.size]?.getD 0#8).toNat = 0) := by omega
  have hidx2 : ((x : Int) + 1 + ((y : Int)) * (p.cfg.size : Int)).toNat = x + 1 + (y) * p.cfg.size := by
    have := idx_toNat (x + 1) (y) p.cfg.size
    have e1 : (((x + 1 : Nat)) : Int) = (x : Int) + 1 := by omega
    have e2 : (((y : Nat)) : Int) = (y : Int) := by omega
    rw [e1, e2] at this; exact this
  have hb1 : ¬ ((p.cfg.size : Int) ≤ (x : Int) + 1) := by omega
  have hb2 : ¬ ((x : Int) + 1 < 0) := by omega
  have hb3 : ¬ ((p.cfg.size : Int) ≤ (y : Int)) := by omega
  have hb4 : ¬ ((y : Int) < 0) := by omega
  have hrow : ∀ a b : Nat, a < p.cfg.size → b < p.cfg.size → a + b * p.cfg.size < 64 := by
    intro a b ha hb
    have : b * p.cfg.size + p.cfg.size ≤ p.cfg.size * p.cfg.size := by
      rw [← Nat.succ_mul]; exact Nat.mul_le_mul_right _ hb
    omega
  have hj64 : x + y * p.cfg.size < 64 := hrow x y (by omega) (by omega)
  have hs64 : x + 1 + (y) * p.cfg.size < 64 := hrow (x + 1) (y) (by omega) (by omega)
  have hne : x + 1 + (y) * p.cfg.size ≠ x + y * p.cfg.size := by
    omega
  have c1 : (clrBit p.caps (x + y * p.cfg.size)).getLsbD (x + 1 + (y) * p.cfg.size) = false := by
    rw [getLsbD_clrBit _ _ _ hj64, htc]; rfl
  have c2 : (clrBit p.standing (x + y * p.cfg.size)).getLsbD (x + 1 + (y) * p.cfg.size) = false := by
    rw [getLsbD_clrBit _ _ _ hj64, hts]; rfl
  by_cases hh1 : (p.height[x + y * p.cfg.size]?.getD 0#8).toNat = 1
  · unfold Pos.apply
    simp [Facts.mtSlideRight, Facts.mtSlideLeft, Facts.mtSlideUp, Facts.mtSlideDown, Facts.mtPass, Facts.mtPlaceFlat,
      Facts.mtPlaceStanding, Facts.mtPlaceCapstone,
      hw, h2, hx', hy', hxn, hyn, hidx, elems_one, hown, htop, hsz, hh1, slideLoop, slideStep, dispatch, openingRule, slideFrom, liftFrom, dropOn, enterSquare, Pos.setStack, hidx2, hb1, hb2, hb3, hb4,
      c1, c2, bind, Except.bind]
    apply finish_exists
    intro wg bg hwg hbg
    constructor <;> simp only [] <;> first | rfl | assumption | after_bits hj64 hs64 hne
  · by_cases hb : (p.stacks[x + y * p.cfg.size]?.getD 0#64)[0] = false
    · unfold Pos.apply
      simp [Facts.mtSlideRight, Facts.mtSlideLeft, Facts.mtSlideUp, Facts.mtSlideDown, Facts.mtPass, Facts.mtPlaceFlat,
        Facts.mtPlaceStanding, Facts.mtPlaceCapstone,
        hw, h2, hx', hy', hxn, hyn, hidx, elems_one, hown, htop, hsz, hh1, hh0, hb, slideLoop, slideStep, dispatch, openingRule, slideFrom, liftFrom, dropOn, enterSquare, Pos.setStack, hidx2, hb1, hb2,
        hb3, hb4, c1, c2, bind, Except.bind]
      apply finish_exists
      intro wg bg hwg hbg
      constructor <;> simp only [] <;> first | rfl | assumption | after_bits hj64 hs64 hne
    · unfold Pos.apply
      simp [Facts.mtSlideRight, Facts.mtSlideLeft, Facts.mtSlideUp, Facts.mtSlideDown, Facts.mtPass, Facts.mtPlaceFlat,
        Facts.mtPlaceStanding, Facts.mtPlaceCapstone,
        hw, h2, hx', hy', hxn, hyn, hidx, elems_one, hown, htop, hsz, hh1, hh0, hb, slideLoop, slideStep, dispatch, openingRule, slideFrom, liftFrom, dropOn, enterSquare, Pos.setStack, hidx2, hb1, hb2,
        hb3, hb4, c1, c2, bind, Except.bind]
      apply finish_exists
      intro wg bg hwg hbg
      constructor <;> simp only [] <;> first | rfl | assumption | after_bits hj64 hs64 hne

theorem apply_slide_left_b (basis : Array W) (p : Pos) (x y : Nat) (hx0' : 1 ≤ x) (hx : x < p.cfg.size) (hy : y < p.cfg.size)
    (h64 : p.cfg.size * p.cfg.size ≤ 64) (hply : 2 ≤ p.move) (hw : p.toMove = .black)
    (hdis : ∀ k, p.white.getLsbD k = true → p.black.getLsbD k = true → False)
    (hown : p.black.getLsbD (x + y * p.cfg.size) = true)
    (hnw : p.white.getLsbD (x + y * p.cfg.size) = false)
    (hns : p.standing.getLsbD (x + y * p.cfg.size) = false)
    (hnc : p.caps.getLsbD (x + y * p.cfg.size) = false)
    (hh : 1 ≤ (p.height[x + y * p.cfg.size]?.getD 0#8).toNat)
    (hts : p.standing.getLsbD (x - 1 + (y) * p.cfg.size) = false)
    (htc : p.caps.getLsbD (x - 1 + (y) * p.cfg.size) = false) :
    ∃ q, p.apply basis ⟨x, y, Facts.mtSlideLeft, 1#32⟩ = .ok q ∧
      After p q (x + y * p.cfg.size) (x - 1 + (y) * p.cfg.size) p.black q.black p.white q.white := by
  have h2 : ¬ (p.move < 2) := by omega
  have hx' : ¬ ((p.cfg.size : Int) ≤ x) := by omega
  have hy' : ¬ ((p.cfg.size : Int) ≤ y) := by omega
  have hxn : ¬ ((x : Int) < 0) := by omega
  have hyn : ¬ ((y : Int) < 0) := by omega
  have hidx := idx_toNat x y p.cfg.size
  have htop : p.topAt (x + y * p.cfg.size) = some ⟨.black, .flat⟩ := by
    unfold Pos.topAt; simp [hown, hns, hnc, hnw]
  have hsz : ¬ (p.cfg.size = 0) := by omega
  have hh0 : ¬ ((p.height[x + y * p.cfg.size]?.getD 0#8).toNat = 0) := by omega
  have hidx2 : ((x : Int) + -1 + ((y : Int)) * (p.cfg.size : Int)).toNat = x - 1 + (y) * p.cfg.size := by
    have := idx_toNat (x - 1) (y) p.cfg.size
    have e1 : (((x - 1 : Nat)) : Int) = (x : Int) + -1 := by omega
    have e2 : (((y : Nat)) : Int) = (y : Int) := by omega
    rw [e1, e2] at this; exact this
  have hb1 : ¬ ((p.cfg.size : Int) ≤ (x : Int) + -1) := by omega
  have hb2 : ¬ ((x : Int) + -1 < 0) := by omega
  have hb3 : ¬ ((p.cfg.size : Int) ≤ (y : Int)) := by omega
  have hb4 : ¬ ((y : Int) < 0) := by omega
  have hrow : ∀ a b : Nat, a < p.cfg.size → b < p.cfg.size → a + b * p.cfg.size < 64 := by
    intro a b ha hb
    have : b * p.cfg.size + p.cfg.size ≤ p.cfg.size * p.cfg.size := by
      rw [← Nat.succ_mul]; exact Nat.mul_le_mul_right _ hb
    omega
  have hj64 : x + y * p.cfg.size < 64 := hrow x y (by omega) (by omega)
  have hs64 : x - 1 + (y) * p.cfg.size < 64 := hrow (x - 1) (y) (by omega) (by omega)
  have hne : x - 1 + (y) * p.cfg.size ≠ x + y * p.cfg.size := by
    omega
  have c1 : (clrBit p.caps (x + y * p.cfg.size)).getLsbD (x - 1 + (y) * p.cfg.size) = false := by
    rw [getLsbD_clrBit _ _ _ hj64, htc]; rfl
  have c2 : (clrBit p.standing (x + y * p.cfg.size)).getLsbD (x - 1 + (y) * p.cfg.size) = false := by
    rw [getLsbD_clrBit _ _ _ hj64, hts]; rfl
  by_cases hh1 : (p.height[x + y * p.cfg.size]?.getD 0#8).toNat = 1
  · unfold Pos.apply
    simp [Facts.mtSlideRight, Facts.mtSlideLeft, Facts.mtSlideUp, Facts.mtSlideDown, Facts.mtPass, Facts.mtPlaceFlat,
      Facts.mtPlaceStanding, Facts.mtPlaceCapstone,
      hw, h2, hx', hy', hxn, hyn, hidx, elems_one, hown, htop, hsz, hh1, slideLoop, slideStep, dispatch, openingRule, slideFrom, liftFrom, dropOn, enterSquare, Pos.setStack, hidx2, hb1, hb2, hb3, hb4,
      c1, c2, bind, Except.bind]
    apply finish_exists
    intro wg bg hwg hbg
    constructor <;> simp only [] <;> first | rfl | assumption | after_bits hj64 hs64 hne
  · by_cases hb : (p.stacks[x + y * p.cfg.size]?.getD 0#64)[0] = false
    · unfold Pos.apply
      simp [Facts.mtSlideRight, Facts.mtSlideLeft, Facts.mtSlideUp, Facts.mtSlideDown, Facts.mtPass, Facts.mtPlaceFlat,
        Facts.mtPlaceStanding, Facts.mtPlaceCapstone,
        hw, h2, hx', hy', hxn, hyn, hidx, elems_one, hown, htop, hsz, hh1, hh0, hb, slideLoop, slideStep, dispatch, openingRule, slideFrom, liftFrom, dropOn, enterSquare, Pos.setStack, hidx2, hb1, hb2,
        hb3, hb4, c1, c2, bind, Except.bind]
      apply finish_exists
      intro wg bg hwg hbg
      constructor <;> simp only [] <;> first | rfl | assumption | after_bits hj64 hs64 hne
    · unfold Pos.apply
      simp [Facts.mtSlideRight, Facts.mtSlideLeft, Facts.mtSlideUp, Facts.mtSlideDown, Facts.mtPass, Facts.mtPlaceFlat,
        Facts.mtPlaceStanding, Facts.mtPlaceCapstone,
        hw, h2, hx', hy', hxn, hyn, hidx, elems_one, hown, htop, hsz, hh1, hh0, hb, slideLoop, slideStep, dispatch, openingRule, slideFrom, liftFrom, dropOn, enterSquare, Pos.setStack, hidx2, hb1, hb2,
        hb3, hb4, c1, c2, bind, Except.bind]
      apply finish_exists
      intro wg bg hwg hbg
      constructor <;> simp only [] <;> first | rfl | assumption | after_bits hj64 hs64 hne

theorem apply_slide_up_b (basis : Array W) (p : Pos) (x y : Nat) (hx : x < p.cfg.size) (hy : y + 1 < p.cfg.size)
    (h64 : p.cfg.size * p.cfg.size ≤ 64) (hply : 2 ≤ p.move) (hw : p.toMove = .black)
    (hdis : ∀ k, p.white.getLsbD k = true → p.black.getLsbD k = true → False)
    (hown : p.black.getLsbD (x + y * p.cfg.size) = true)
    (hnw : p.white.getLsbD (x + y * p.cfg.size) = false)
    (hns : p.standing.getLsbD (x + y * p.cfg.size) = false)
    (hnc : p.caps.getLsbD (x + y * p.cfg.size) = false)
    (hh : 1 ≤ (p.height[x + y * p.cfg.size]?.getD 0#8).toNat)
    (hts : p.standing.getLsbD (x + (y + 1) * p.cfg.size) = false)
    (htc : p.caps.getLsbD (x + (y + 1) * p.cfg.size) = false) :
    ∃ q, p.apply basis ⟨x, y, Facts.mtSlideUp, 1#32⟩ = .ok q ∧
      After p q (x + y * p.cfg.size) (x + (y + 1) * p.cfg.size) p.black q.black p.white q.white := by
  have h2 : ¬ (p.move < 2) := by omega
  have hx' : ¬ ((p.cfg.size : Int) ≤ x) := by omega
  have hy' : ¬ ((p.cfg.size : Int) ≤ y) := by omega
  have hxn : ¬ ((x : Int) < 0) := by omega
  have hyn : ¬ ((y : Int) < 0) := by omega
  have hidx := idx_toNat x y p.cfg.size
  have htop : p.topAt (x + y * p.cfg.size) = some ⟨.black, .flat⟩ := by
    unfold Pos.topAt; simp [hown, hns, hnc, hnw]
  have hsz : ¬ (p.cfg.size = 0) := by omega
  have hh0 : ¬ ((p.height[x + y * p.cfg.size]?.getD 0#8).toNat = 0) := by omega
  have hidx2 : ((x : Int) + ((y : Int) + 1) * (p.cfg.size : Int)).toNat = x + (y + 1) * p.cfg.size := by
    have := idx_toNat (x) (y + 1) p.cfg.size
    have e1 : (((x : Nat)) : Int) = (x : Int) := by omega
    have e2 : (((y + 1 : Nat)) : Int) = (y : Int) + 1 := by omega
    rw [e1, e2] at this; exact this
  have hb1 : ¬ ((p.cfg.size : Int) ≤ (x : Int)) := by omega
  have hb2 : ¬ ((x : Int) < 0) := by omega
  have hb3 : ¬ ((p.cfg.size : Int) ≤ (y : Int) + 1) := by omega
  have hb4 : ¬ ((y : Int) + 1 < 0) := by omega
  have hrow : ∀ a b : Nat, a < p.cfg.size → b < p.cfg.size → a + b * p.cfg.size < 64 := by
    intro a b ha hb
    have : b * p.cfg.size + p.cfg.size ≤ p.cfg.size * p.cfg.size := by
      rw [← Nat.succ_mul]; exact Nat.mul_le_mul_right _ hb
    omega
  have hj64 : x + y * p.cfg.size < 64 := hrow x y (by omega) (by omega)
  have hs64 : x + (y + 1) * p.cfg.size < 64 := hrow (x) (y + 1) (by omega) (by omega)
  have hne : x + (y + 1) * p.cfg.size ≠ x + y * p.cfg.size := by
    have : (y + 1) * p.cfg.size = y * p.cfg.size + p.cfg.size := Nat.succ_mul _ _
    omega
  have c1 : (clrBit p.caps (x + y * p.cfg.size)).getLsbD (x + (y + 1) * p.cfg.size) = false := by
    rw [getLsbD_clrBit _ _ _ hj64, htc]; rfl
  have c2 : (clrBit p.standing (x + y * p.cfg.size)).getLsbD (x + (y + 1) * p.cfg.size) = false := by
    rw [getLsbD_clrBit _ _ _ hj64, hts]; rfl
  by_cases hh1 : (p.height[x + y * p.cfg.size]?.getD 0#8).toNat = 1
  · unfold Pos.apply
    simp [Facts.mtSlideRight, Facts.mtSlideLeft, Facts.mtSlideUp, Facts.mtSlideDown, Facts.mtPass, Facts.mtPlaceFlat,
      Facts.mtPlaceStanding, Facts.mtPlaceCapstone,
      hw, h2, hx', hy', hxn, hyn, hidx, elems_one, hown, htop, hsz, hh1, slideLoop, slideStep, dispatch, openingRule, slideFrom, liftFrom, dropOn, enterSquare, Pos.setStack, hidx2, hb1, hb2, hb3, hb4,
      c1, c2, bind, Except.bind]
    apply finish_exists
    intro wg bg hwg hbg
    constructor <;> simp only [] <;> first | rfl | assumption | after_bits hj64 hs64 hne
  · by_cases hb : (p.stacks[x + y * p.cfg.size]?.getD 0#64)[0] = false
    · unfold Pos.apply
      simp [Facts.mtSlideRight, Facts.mtSlideLeft, Facts.mtSlideUp, Facts.mtSlideDown, Facts.mtPass, Facts.mtPlaceFlat,
        Facts.mtPlaceStanding, Facts.mtPlaceCapstone,
        hw, h2, hx', hy', hxn, hyn, hidx, elems_one, hown, htop, hsz, hh1, hh0, hb, slideLoop, slideStep, dispatch, openingRule, slideFrom, liftFrom, dropOn, enterSquare, Pos.setStack, hidx2, hb1, hb2,
        hb3, hb4, c1, c2, bind, Except.bind]
      apply finish_exists
      intro wg bg hwg hbg
      constructor <;> simp only [] <;> first | rfl | assumption | after_bits hj64 hs64 hne
    · unfold Pos.apply
      simp [Facts.mtSlideRight, Facts.mtSlideLeft, Facts.mtSlideUp, Facts.mtSlideDown, Facts.mtPass, Facts.mtPlaceFlat,
        Facts.mtPlaceStanding, Facts.mtPlaceCapstone,
        hw, h2, hx', hy', hxn, hyn, hidx, elems_one, hown, htop, hsz, hh1, hh0, hb, slideLoop, slideStep, dispatch, openingRule, slideFrom, liftFrom, dropOn, enterSquare, Pos.setStack, hidx2, hb1, hb2,
        hb3, hb4, c1, c2, bind, Except.bind]
      apply finish_exists
      intro wg bg hwg hbg
      constructor <;> simp only [] <;> first | rfl | assumption | after_bits hj64 hs64 hne

theorem apply_slide_down_b (basis : Array W) (p : Pos) (x y : Nat) (hx : x < p.cfg.size) (hy0' : 1 ≤ y) (hy : y < p.cfg.size)
    (h64 : p.cfg.size * p.cfg.size ≤ 64) (hply : 2 ≤ p.move) (hw : p.toMove = .black)
    (hdis : ∀ k, p.white.getLsbD k = true → p.black.getLsbD k = true → False)
    (hown : p.black.getLsbD (x + y * p.cfg.size) = true)
    (hnw : p.white.getLsbD (x + y * p.cfg.size) = false)
    (hns : p.standing.getLsbD (x + y * p.cfg.size) = false)
    (hnc : p.caps.getLsbD (x + y * p.cfg.size) = false)
    (hh : 1 ≤ (p.height[x + y * p.cfg.size]?.getD 0#8).toNat)
    (hts : p.standing.getLsbD (x + (y - 1) * p.cfg.size) = false)
    (htc : p.caps.getLsbD (x + (y - 1) * p.cfg.size) = false) :
    ∃ q, p.apply basis ⟨x, y, Facts.mtSlideDown, 1#32⟩ = .ok q ∧
      After p q (x + y * p.cfg.size) (x + (y - 1) * p.cfg.size) p.black q.black p.white q.white := by
  have h2 : ¬ (p.move < 2) := by omega
  have hx' : ¬ ((p.cfg.size : Int) ≤ x) := by omega
  have hy' : ¬ ((p.cfg.size : Int) ≤ y) := by omega
  have hxn : ¬ ((x : Int) < 0) := by omega
  have hyn : ¬ ((y : Int) < 0) := by omega
  have hidx := idx_toNat x y p.cfg.size
  have htop : p.topAt (x + y * p.cfg.size) = some ⟨.black, .flat⟩ := by
    unfold Pos.topAt; simp [hown, hns, hnc, hnw]
  have hsz : ¬ (p.cfg.size = 0) := by omega
  have hh0 : ¬ ((p.height[x + y * p.cfg.size]?.getD 0#8).toNat = 0) := by omega
  have hidx2 : ((x : Int) + ((y : Int) + -1) * (p.cfg.size : Int)).toNat = x + (y - 1) * p.cfg.size := by
    have := idx_toNat (x) (y - 1) p.cfg.size
    have e1 : (((x : Nat)) : Int) = (x : Int) := by omega
    have e2 : (((y - 1 : Nat)) : Int) = (y : Int) + -1 := by omega
    rw [e1, e2] at this; exact this
  have hb1 : ¬ ((p.cfg.size : Int) ≤ (x : Int)) := by omega
  have hb2 : ¬ ((x : Int) < 0) := by omega
  have hb3 : ¬ ((p.cfg.size : Int) ≤ (y : Int) + -1) := by omega
  have hb4 : ¬ ((y : Int) + -1 < 0) := by omega
  have hrow : ∀ a b : Nat, a < p.cfg.size → b < p.cfg.size → a + b * p.cfg.size < 64 := by
    intro a b ha hb
    have : b * p.cfg.size + p.cfg.size ≤ p.cfg.size * p.cfg.size := by
      rw [← Nat.succ_mul]; exact Nat.mul_le_mul_right _ hb
    omega
  have hj64 : x + y * p.cfg.size < 64 := hrow x y (by omega) (by omega)
  have hs64 : x + (y - 1) * p.cfg.size < 64 := hrow (x) (y - 1) (by omega) (by omega)
  have hne : x + (y - 1) * p.cfg.size ≠ x + y * p.cfg.size := by
    have : (y - 1 + 1) * p.cfg.size = (y - 1) * p.cfg.size + p.cfg.size := Nat.succ_mul _ _
    have e : y - 1 + 1 = y := by omega
    rw [e] at this; omega
  have c1 : (clrBit p.caps (x + y * p.cfg.size)).getLsbD (x + (y - 1) * p.cfg.size) = false := by
    rw [getLsbD_clrBit _ _ _ hj64, htc]; rfl
  have c2 : (clrBit p.standing (x + y * p.cfg.size)).getLsbD (x + (y - 1) * p.cfg.size) = false := by
    rw [getLsbD_clrBit _ _ _ hj64, hts]; rfl
  by_cases hh1 : (p.height[x + y * p.cfg.size]?.getD 0#8).toNat = 1
  · unfold Pos.apply
    simp [Facts.mtSlideRight, Facts.mtSlideLeft, Facts.mtSlideUp, Facts.mtSlideDown, Facts.mtPass, Facts.mtPlaceFlat,
      Facts.mtPlaceStanding, Facts.mtPlaceCapstone,
      hw, h2, hx', hy', hxn, hyn, hidx, elems_one, hown, htop, hsz, hh1, slideLoop, slideStep, dispatch, openingRule, slideFrom, liftFrom, dropOn, enterSquare, Pos.setStack, hidx2, hb1, hb2, hb3, hb4,
      c1, c2, bind, Except.bind]
    apply finish_exists
    intro wg bg hwg hbg
    constructor <;> simp only [] <;> first | rfl | assumption | after_bits hj64 hs64 hne
  · by_cases hb : (p.stacks[x + y * p.cfg.size]?.getD 0#64)[0] = false
    · unfold Pos.apply
      simp [Facts.mtSlideRight, Facts.mtSlideLeft, Facts.mtSlideUp, Facts.mtSlideDown, Facts.mtPass, Facts.mtPlaceFlat,
        Facts.mtPlaceStanding, Facts.mtPlaceCapstone,
        hw, h2, hx', hy', hxn, hyn, hidx, elems_one, hown, htop, hsz, hh1, hh0, hb, slideLoop, slideStep, dispatch, openingRule, slideFrom, liftFrom, dropOn, enterSquare, Pos.setStack, hidx2, hb1, hb2,
        hb3, hb4, c1, c2, bind, Except.bind]
      apply finish_exists
      intro wg bg hwg hbg
      constructor <;> simp only [] <;> first | rfl | assumption | after_bits hj64 hs64 hne
    · unfold Pos.apply
      simp [Facts.mtSlideRight, Facts.mtSlideLeft, Facts.mtSlideUp, Facts.mtSlideDown, Facts.mtPass, Facts.mtPlaceFlat,
        Facts.mtPlaceStanding, Facts.mtPlaceCapstone,
        hw, h2, hx', hy', hxn, hyn, hidx, elems_one, hown, htop, hsz, hh1, hh0, hb, slideLoop, slideStep, dispatch, openingRule, slideFrom, liftFrom, dropOn, enterSquare, Pos.setStack, hidx2, hb1, hb2,
        hb3, hb4, c1, c2, bind, Except.bind]
      apply finish_exists
      intro wg bg hwg hbg
      constructor <;> simp only [] <;> first | rfl | assumption | after_bits hj64 hs64 hne

end C19
