import TakVerif.Proofs.GenApply

set_option linter.unusedSimpArgs false

/-! Helper lemmas for `C01.movePreallocated_is_source`, second part: the drop loop of `MovePreallocated`
(`Gen.movePreallocated_loop1`) is the model's `slideLoop` (Impl/Move.lean: `slideStep` = `enterSquare` + `dropOn`). -/
namespace GenApply
open Tak GenMove

/-- the state of the regenerated drop loop for a model state (`i`, `it`: the index variable and the iterator) -/
def encSt (st : SlideSt) (i : Nat) (it : BitVec 32) :
    Nat × Nat × BitVec 32 × BitVec 64 × BitVec 64 × Array (BitVec 8) × Array (BitVec 64) × BitVec 64 × BitVec 64 × BitVec 64 × Int × Int :=
  (st.ct, i, it, st.next.black, st.next.caps, st.next.height, st.next.stacks, st.next.standing, st.next.white,
   st.next.hash, st.x, st.y)

/-- what the loop needs of its state: the square walked from is on the board, the arrays cover it -/
structure Inv (basis : Array W) (p : Pos) (st : SlideSt) : Prop where
  x0 : 0 ≤ st.x
  x1 : st.x < p.cfg.size
  y0 : 0 ≤ st.y
  y1 : st.y < p.cfg.size
  hH : p.cfg.size * p.cfg.size ≤ st.next.height.size
  hS : p.cfg.size * p.cfg.size ≤ st.next.stacks.size

theorem wrap8_id (v : Int) (h0 : -128 ≤ v) (h1 : v ≤ 127) : Gen.wrap8 v = v := by unfold Gen.wrap8; omega

/-- Go's `uint(x + y*int8(p.Size()))` for a square of a board of size ≤ 8 -/
theorem idx_conv (sz : Nat) (hsz : sz ≤ 8) (x y : Int) (x0 : 0 ≤ x) (x1 : x < sz) (y0 : 0 ≤ y) (y1 : y < sz) :
    Int.toNat ((Gen.wrap8 (x + (Gen.wrap8 (y * (Gen.wrap8 (sz : Int))))) % 18446744073709551616)) = (x + y * sz).toNat ∧
    (x + y * sz).toNat < sz * sz := by
  have hy : y * (sz : Int) ≤ 7 * 8 := by
    have : y ≤ 7 := by omega
    have h2 : (sz : Int) ≤ 8 := by omega
    exact Int.mul_le_mul this h2 (by omega) (by omega)
  have hy0 : 0 ≤ y * (sz : Int) := Int.mul_nonneg y0 (by omega)
  rw [wrap8_id (sz : Int) (by omega) (by omega), wrap8_id (y * sz) (by omega) (by omega), wrap8_id _ (by omega) (by omega)]
  constructor
  · rw [Int.emod_eq_of_lt (by omega) (by omega)]
  · have h1 : y * (sz : Int) ≤ ((sz : Int) - 1) * sz := Int.mul_le_mul_of_nonneg_right (by omega) (by omega)
    have h2 : ((sz : Int) - 1) * sz = (sz : Int) * sz - sz := by rw [Int.sub_mul]; omega
    have h3 : ((sz * sz : Nat) : Int) = (sz : Int) * sz := by simp
    omega

/-- `hashAt` on raw arrays -/
theorem hashAt_raw (basis : Array W) (H : Array U8) (S : Array W) (i : Nat) (hh : i < H.size) (hs : i < S.size) (hb : i < basis.size) :
    Gen.positionHashAt basis H S i = some (hashAtRaw basis H S i) := by
  unfold Gen.positionHashAt hashAtRaw
  simp only [hh, hs, hb, decide_true, Bool.not_true, Bool.false_eq_true, ↓reduceIte, Bool.or_self]
  generalize H.getD i 0#8 = hv
  have e : (hv ≤ 1#8) ↔ hv.toNat ≤ 1 := by rw [BitVec.le_def]; simp
  simp only [decide_eq_true_eq, e]
  split <;> rfl

theorem elem_conv (s : BitVec 32) : Int.toNat (Gen.slideIterElem s % 18446744073709551616) = (s &&& 0xf#32).toNat := by
  unfold Gen.slideIterElem
  have := (s &&& 15#32).isLt
  simp only [Int.ofNat_eq_natCast]
  rw [Int.emod_eq_of_lt (by omega) (by omega)]; simp

theorem shl_bit (i : Nat) : Gen.shl 1#64 i = bit i := by rw [Gen.shl_eq]; rfl

theorem and_bit_ne (w : W) (i : Nat) : ((w &&& bit i) != 0#64) = w.getLsbD i := Gen.and_bit_ne_zero w i
theorem and_bit_eq (w : W) (i : Nat) : ((w &&& bit i) == 0#64) = !w.getLsbD i := by
  rw [← and_bit_ne]; simp [bne]

theorem getD_set {α} (a : Array α) (i : Nat) (v d : α) (h : i < a.size) : (a.setIfInBounds i v).getD i d = v := by
  simp [Array.getD, h]

theorem set_set {α} (a : Array α) (i : Nat) (v w : α) : (a.setIfInBounds i v).setIfInBounds i w = a.setIfInBounds i w := by
  apply Array.ext_getElem?
  intro k
  simp only [Array.getElem?_setIfInBounds, Array.size_setIfInBounds]
  by_cases h : i = k <;> simp [h]

/-- one iteration of the regenerated drop loop is the model's `slideStep` -/
theorem loop1_step (basis : Array W) (p : Pos) (hB : p.cfg.size * p.cfg.size ≤ basis.size) (hsz : p.cfg.size ≤ 8) (top : Piece) (stack : W) (dx dy : Int)
    (hdx : -1 ≤ dx ∧ dx ≤ 1) (hdy : -1 ≤ dy ∧ dy ≤ 1) (st : SlideSt) (inv : Inv basis p st) (i : Nat) (s : BitVec 32) (hs : s ≠ 0#32)
    (fuel : Nat) :
    Gen.movePreallocated_loop1 dx dy basis p.cfg.size p.cfg.size stack (C01.pieceByte top) (fuel + 1) (encSt st i s) =
      match slideStep basis p top stack dx dy st (s &&& 0xf#32).toNat with
      | .error _ => some (.error (Except.error ()))
      | .ok st' => Gen.movePreallocated_loop1 dx dy basis p.cfg.size p.cfg.size stack (C01.pieceByte top) fuel
          (encSt st' ((st.x + dx) + (st.y + dy) * p.cfg.size).toNat (s >>> 4)) := by
  obtain ⟨x0, x1, y0, y1, hH, hS⟩ := inv
  have hok : Gen.slideIterOk s = true := by unfold Gen.slideIterOk; simpa using hs
  have wsz : Gen.wrap8 (p.cfg.size : Int) = p.cfg.size := wrap8_id _ (by omega) (by omega)
  have wx : Gen.wrap8 (st.x + dx) = st.x + dx := wrap8_id _ (by omega) (by omega)
  have wy : Gen.wrap8 (st.y + dy) = st.y + dy := wrap8_id _ (by omega) (by omega)
  rw [Gen.movePreallocated_loop1]
  unfold slideStep
  simp only [encSt, hok, ↓reduceIte, elem_conv, wx, wy, wsz]
  have e15 : (15#32 : BitVec 32) = 0xf#32 := rfl
  rw [e15]
  generalize (s &&& 0xf#32).toNat = c
  have hc1 : (Int.ofNat c < 1) ↔ c < 1 := by simp only [Int.ofNat_eq_natCast]; omega
  simp only [Bool.or_eq_true, decide_eq_true_eq, ge_iff_le, gt_iff_lt, or_assoc, hc1]
  by_cases hb : st.x + dx < 0 ∨ (p.cfg.size : Int) ≤ st.x + dx ∨ st.y + dy < 0 ∨ (p.cfg.size : Int) ≤ st.y + dy
  · simp only [hb, ↓reduceIte]
  simp only [hb, ↓reduceIte]
  have hb' : 0 ≤ st.x + dx ∧ st.x + dx < p.cfg.size ∧ 0 ≤ st.y + dy ∧ st.y + dy < p.cfg.size := by omega
  obtain ⟨hj, hjlt⟩ := idx_conv p.cfg.size hsz (st.x + dx) (st.y + dy) hb'.1 hb'.2.1 hb'.2.2.1 hb'.2.2.2
  rw [wsz] at hj
  simp only [hj]
  generalize (st.x + dx + (st.y + dy) * (p.cfg.size : Int)).toNat = j at hjlt ⊢
  by_cases hcc : c < 1 ∨ st.ct < c
  · simp only [hcc, ↓reduceIte]
  simp only [hcc, ↓reduceIte]
  have hjH : j < st.next.height.size := by omega
  have hjS : j < st.next.stacks.size := by omega
  have hjB : j < basis.size := by omega
  have hk := (C01.pieceParts_is_source top).2.1
  unfold enterSquare
  simp only [hk, shl_bit, and_bit_ne]
  cases hcap : st.next.caps.getLsbD j
  case true => simp only [↓reduceIte]
  simp only [Bool.false_eq_true, ↓reduceIte]
  have kf : C01.kindByte Kind.flat = 1#8 := rfl
  have ks : C01.kindByte Kind.standing = 2#8 := rfl
  have kc : C01.kindByte Kind.capstone = 3#8 := rfl
  have d13 : (1#8 == 3#8) = false := by decide
  have d23 : (2#8 == 3#8) = false := by decide
  have d33 : (3#8 == 3#8) = true := by decide
  have d12 : (1#8 == 2#8) = false := by decide
  have d22 : (2#8 == 2#8) = true := by decide
  have n13 : (1#8 != 3#8) = true := by decide
  have n23 : (2#8 != 3#8) = true := by decide
  have n33 : (3#8 != 3#8) = false := by decide
  cases hst : st.next.standing.getLsbD j
  · simp only [Bool.false_eq_true, ↓reduceIte]
    rw [hashAt_raw basis _ _ j hjH hjS hjB]
    simp only [hjS, hjH, decide_true, Bool.not_true, Bool.false_eq_true, ↓reduceIte, Array.size_setIfInBounds]
    cases hw : st.next.white.getLsbD j <;> cases hbk : st.next.black.getLsbD j <;>
      cases hsb : stack.getLsbD (st.ct - c) <;> cases hz : (st.ct - c == 0) <;> cases hkd : top.kind <;>
      simp only [dropOn, Pos.setStack, Pos.hashAt, hw, hbk, hsb, hz, hkd, kf, ks, kc, hjS, hjH, hjB, decide_true, Bool.not_true,
        Bool.false_eq_true, ↓reduceIte, Array.size_setIfInBounds, hashAt_raw, getD_set, set_set, Gen.shl_eq, Gen.shr_eq,
        setBit, clrBit, Gen.slideIterNext, bit, reduceCtorEq, d13, d23, d33, d12, d22] <;> rfl
  · by_cases h1 : st.ct = 1
    · cases hkd : top.kind
      · simp only [hkd, kf, n13, or_true, ↓reduceIte, ne_eq, reduceCtorEq, not_false_eq_true]
      · simp only [hkd, ks, n23, or_true, ↓reduceIte, ne_eq, reduceCtorEq, not_false_eq_true]
      · have e1 : (st.ct != 1) = false := by simp [h1]
        simp only [hkd, kc, n33, e1, Bool.false_eq_true, or_self, ↓reduceIte, ne_eq, h1, not_true_eq_false]
        rw [hashAt_raw basis _ _ j hjH hjS hjB]
        simp only [hjS, hjH, decide_true, Bool.not_true, Bool.false_eq_true, ↓reduceIte, Array.size_setIfInBounds]
        cases hw : st.next.white.getLsbD j <;> cases hbk : st.next.black.getLsbD j <;>
          cases hsb : stack.getLsbD (1 - c) <;> cases hz : (1 - c == 0) <;>
          simp only [dropOn, Pos.setStack, Pos.hashAt, hw, hbk, hsb, hz, hkd, kf, ks, kc, hjS, hjH, hjB, decide_true, Bool.not_true,
            Bool.false_eq_true, ↓reduceIte, Array.size_setIfInBounds, hashAt_raw, getD_set, set_set, Gen.shl_eq, Gen.shr_eq,
            setBit, clrBit, Gen.slideIterNext, bit, reduceCtorEq, d13, d23, d33, d12, d22] <;> rfl
    · have e1 : (st.ct != 1) = true := by simpa using h1
      simp only [e1, true_or, ↓reduceIte, ne_eq, h1, not_false_eq_true]

theorem dropOn_sizes (basis : Array W) (nx : Pos) (top : Piece) (stack : W) (ct c i : Nat) :
    (dropOn basis nx top stack ct c i).height.size = nx.height.size ∧
    (dropOn basis nx top stack ct c i).stacks.size = nx.stacks.size := by
  unfold dropOn Pos.setStack
  simp only []
  split <;> split <;> (try split) <;> simp

/-- the invariant survives an iteration -/
theorem slideStep_inv (basis : Array W) (p : Pos) (top : Piece) (stack : W) (dx dy : Int) (st st' : SlideSt) (c : Nat)
    (inv : Inv basis p st) (h : slideStep basis p top stack dx dy st c = .ok st') : Inv basis p st' := by
  obtain ⟨x0, x1, y0, y1, hH, hS⟩ := inv
  unfold slideStep at h
  simp only [] at h
  split at h
  · cases h
  split at h
  · cases h
  split at h
  · cases h
  rename_i nx hnx
  have hsz : nx.height.size = st.next.height.size ∧ nx.stacks.size = st.next.stacks.size := by
    unfold enterSquare at hnx
    split at hnx
    · cases hnx
    split at hnx
    · split at hnx
      · cases hnx
      · cases hnx; exact ⟨rfl, rfl⟩
    · cases hnx; exact ⟨rfl, rfl⟩
  cases h
  have hd := dropOn_sizes basis nx top stack st.ct c (st.x + dx + (st.y + dy) * (p.cfg.size : Int)).toNat
  refine ⟨?_, ?_, ?_, ?_, ?_, ?_⟩ <;> simp only [] <;> omega

/-- what the drop loop never touches: reserves, ply, configuration -/
def Untouched (a b : Pos) : Prop :=
  b.cfg = a.cfg ∧ b.c = a.c ∧ b.whiteStones = a.whiteStones ∧ b.whiteCaps = a.whiteCaps ∧ b.blackStones = a.blackStones ∧
  b.blackCaps = a.blackCaps ∧ b.move = a.move

theorem Untouched.refl (a : Pos) : Untouched a a := ⟨rfl, rfl, rfl, rfl, rfl, rfl, rfl⟩
theorem Untouched.trans {a b c : Pos} (h1 : Untouched a b) (h2 : Untouched b c) : Untouched a c := by
  obtain ⟨a1, a2, a3, a4, a5, a6, a7⟩ := h1
  obtain ⟨b1, b2, b3, b4, b5, b6, b7⟩ := h2
  exact ⟨b1.trans a1, b2.trans a2, b3.trans a3, b4.trans a4, b5.trans a5, b6.trans a6, b7.trans a7⟩

theorem dropOn_frame (basis : Array W) (nx : Pos) (top : Piece) (stack : W) (ct c i : Nat) :
    Untouched nx (dropOn basis nx top stack ct c i) := by
  unfold dropOn Pos.setStack Untouched
  simp only []
  split <;> split <;> (try split) <;> simp

theorem slideStep_frame (basis : Array W) (p : Pos) (top : Piece) (stack : W) (dx dy : Int) (st st' : SlideSt) (c : Nat)
    (h : slideStep basis p top stack dx dy st c = .ok st') : Untouched st.next st'.next := by
  unfold slideStep at h
  simp only [] at h
  split at h
  · cases h
  split at h
  · cases h
  split at h
  · cases h
  rename_i nx hnx
  have hf : Untouched st.next nx := by
    unfold enterSquare at hnx
    split at hnx
    · cases hnx
    split at hnx
    · split at hnx
      · cases hnx
      · cases hnx; exact ⟨rfl, rfl, rfl, rfl, rfl, rfl, rfl⟩
    · cases hnx; exact Untouched.refl _
  cases h
  exact hf.trans (dropOn_frame basis nx top stack st.ct c _)

theorem slideLoop_frame (basis : Array W) (p : Pos) (top : Piece) (stack : W) (dx dy : Int) (l : List Nat) :
    ∀ (st st' : SlideSt), slideLoop basis p top stack dx dy l st = .ok st' → Untouched st.next st'.next := by
  induction l with
  | nil => intro st st' h; simp only [slideLoop] at h; cases h; exact Untouched.refl _
  | cons c cs ih =>
    intro st st' h
    simp only [slideLoop] at h
    split at h
    · cases h
    · rename_i st1 h1
      exact (slideStep_frame basis p top stack dx dy st st1 c h1).trans (ih st1 st' h)

theorem liftFrom_frame (basis : Array W) (nx : Pos) (stack : W) (h ct i : Nat) :
    Untouched nx (liftFrom basis nx stack h ct i) ∧ (liftFrom basis nx stack h ct i).height.size = nx.height.size ∧
    (liftFrom basis nx stack h ct i).stacks.size = nx.stacks.size := by
  unfold liftFrom Pos.setStack Untouched
  simp only []
  split <;> (try split) <;> simp

theorem slideStep_illegal (basis : Array W) (p : Pos) (top : Piece) (stack : W) (dx dy : Int) (st : SlideSt) (c : Nat) (e : Err)
    (h : slideStep basis p top stack dx dy st c = .error e) : ∃ w, e = .illegal w := by
  unfold slideStep at h
  simp only [] at h
  split at h
  · cases h; exact ⟨_, rfl⟩
  split at h
  · cases h; exact ⟨_, rfl⟩
  split at h
  · rename_i e' he
    cases h
    unfold enterSquare at he
    split at he
    · cases he; exact ⟨_, rfl⟩
    split at he
    · split at he
      · cases he; exact ⟨_, rfl⟩
      · cases he
    · cases he
  · cases h

theorem slideLoop_illegal (basis : Array W) (p : Pos) (top : Piece) (stack : W) (dx dy : Int) (l : List Nat) :
    ∀ (st : SlideSt) (e : Err), slideLoop basis p top stack dx dy l st = .error e → ∃ w, e = .illegal w := by
  induction l with
  | nil => intro st e h; simp only [slideLoop] at h; cases h
  | cons c cs ih =>
    intro st e h
    simp only [slideLoop] at h
    split at h
    · rename_i e' he; cases h; exact slideStep_illegal basis p top stack dx dy st c _ he
    · rename_i st1 h1; exact ih st1 e h

/-- **the drop loop**: with fuel `n + 1` on an iterator word of at most `n` nibbles, the regenerated loop ends like the
model's `slideLoop` over the nibbles: the same error class, or the same state (the index variable and the iterator
are dead after the loop) -/
theorem loop1_eq (basis : Array W) (p : Pos) (hB : p.cfg.size * p.cfg.size ≤ basis.size) (hsz : p.cfg.size ≤ 8) (top : Piece) (stack : W) (dx dy : Int)
    (hdx : -1 ≤ dx ∧ dx ≤ 1) (hdy : -1 ≤ dy ∧ dy ≤ 1) (n : Nat) :
    ∀ (s : BitVec 32) (_ : s >>> (4 * n) = 0#32) (st : SlideSt) (_ : Inv basis p st) (i : Nat),
    (∀ e, slideLoop basis p top stack dx dy (slideElems n s) st = .error e →
      Gen.movePreallocated_loop1 dx dy basis p.cfg.size p.cfg.size stack (C01.pieceByte top) (n + 1) (encSt st i s) =
        some (.error (Except.error ()))) ∧
    (∀ st', slideLoop basis p top stack dx dy (slideElems n s) st = .ok st' →
      ∃ i' it', Gen.movePreallocated_loop1 dx dy basis p.cfg.size p.cfg.size stack (C01.pieceByte top) (n + 1) (encSt st i s) =
        some (.ok (encSt st' i' it'))) := by
  induction n with
  | zero =>
    intro s hs st _ i
    have : s = 0#32 := by simpa using hs
    subst this
    have e : Gen.movePreallocated_loop1 dx dy basis p.cfg.size p.cfg.size stack (C01.pieceByte top) 1 (encSt st i 0#32) =
        some (.ok (encSt st i 0#32)) := by
      rw [Gen.movePreallocated_loop1]; simp [encSt, Gen.slideIterOk]
    simp only [slideElems, slideLoop]
    exact ⟨fun _ h => (by cases h), fun st' h => (by cases h; exact ⟨i, 0#32, e⟩)⟩
  | succ n ih =>
    intro s hs st inv i
    by_cases hz : s = 0#32
    · subst hz
      have e : Gen.movePreallocated_loop1 dx dy basis p.cfg.size p.cfg.size stack (C01.pieceByte top) (n + 1 + 1) (encSt st i 0#32) =
          some (.ok (encSt st i 0#32)) := by
        rw [Gen.movePreallocated_loop1]; simp [encSt, Gen.slideIterOk]
      have e2 : slideElems (n + 1) 0#32 = [] := by simp [slideElems]
      simp only [e2, slideLoop]
      exact ⟨fun _ h => (by cases h), fun st' h => (by cases h; exact ⟨i, 0#32, e⟩)⟩
    · have hb' : (s == 0#32) = false := by simpa using hz
      have e2 : slideElems (n + 1) s = (s &&& 0xf#32).toNat :: slideElems n (s >>> 4) := by simp [slideElems, hb']
      rw [loop1_step basis p hB hsz top stack dx dy hdx hdy st inv i s hz (n + 1), e2]
      simp only [slideLoop]
      cases hstep : slideStep basis p top stack dx dy st (s &&& 0xf#32).toNat with
      | error e => exact ⟨fun _ _ => rfl, fun st' h => (by cases h)⟩
      | ok st1 =>
        simp only []
        exact ih (s >>> 4) (shift_zero_of s n hs) st1 (slideStep_inv basis p top stack dx dy st st1 _ inv hstep) _

end GenApply
