import TakVerif.Proofs.PvHead

/-! The provenance induction through `pvSearch`/`zwSearch`, **every configuration** (sorting, table of any size and
content, null move, slide reduction, multi-cut, symmetry de-duplication), every oracle (cancellation at any load,
not necessarily monotone; any membership-preserving move order), any engine state that is `EngOK`.

What a `pvSearch` call at `p` with window `(α, β)` returns (`PvSpec`), when it returns a PV `l` (not `nil`):
* `l` is not empty and consists of `Q`-moves; the engine state is `EngOK` again;
* if the value is above `α`, the head of `l` is accepted in `p` (the node improved on a played move, or a table
  entry's move was re-validated); if it is not, `l` is the node's initial `best`: when the caller's PV hint was
  not empty and its head is accepted in `p`, so is the head of `l`;
* if the value is strictly inside `(α, β)`, the **whole** line `l` replays from `p`.
`zwSearch` (`ZwSpec`): `Q`-moves and `EngOK` only — a zero-window result's PV tail is the stale buffer content. -/
namespace Search
open Tak (Err)

variable {P M : Type}

section
variable (g : Game P M) (Q : M → Prop) (N D : P → Prop)

/-- what a returned PV `l` of a `pvSearch(p, …, pv, α, β)` with value `v` satisfies -/
structure PvRes (p : P) (pv : List M) (α β : Int) (l : List M) (v : Int) : Prop where
  ne : l ≠ []
  q : ∀ x ∈ l, Q x
  above : α < v → ∃ x rest, l = x :: rest ∧ Accepts g p x
  hint : ∀ x' rest', pv = x' :: rest' → Accepts g p x' → ∃ x rest, l = x :: rest ∧ Accepts g p x
  inside : α < v → v < β → Replays g p l

def PvSpec (f : PvFn P M) : Prop :=
  ∀ p ply depth pv α β s, N p → (∀ x ∈ pv, Q x) → EngOK g Q D s →
    Sat (f p ply depth pv α β s) (fun r => EngOK g Q D r.2 ∧ ∀ l, r.1.1 = some l → PvRes g Q p pv α β l r.1.2)

def ZwSpec (f : ZwFn P M) : Prop :=
  ∀ p ply depth pv α cut s, N p → (∀ x ∈ pv, Q x) → EngOK g Q D s →
    Sat (f p ply depth pv α cut s) (fun r => EngOK g Q D r.2 ∧ ∀ l, r.1.1 = some l → ∀ x ∈ l, Q x)

end

section nodes
variable {g : Game P M} {o : Oracle M} {Q : M → Prop} {N D : P → Prop}

theorem leaf_q (p : P) (over : Bool) {s : Eng M} (h : EngOK g Q D s) :
    EngOK g Q D (leaf g p over s).2 ∧ (leaf g p over s).1.1 = none :=
  ⟨h.of_eq rfl rfl rfl, rfl⟩

/-- the table probe: a shortcut returns the re-validated move of an entry; a hint entry carries a `Q`-move -/
theorem ttProbe_q (p : P) (ply : Nat) (depth α β : Int) {s : Eng M} (h : EngOK g Q D s) :
    Sat (ttProbe g p ply depth α β s) (fun x => EngOK g Q D x.2 ∧
      match x.1 with
      | .inl r => ∃ m, r.1 = some [m] ∧ Q m ∧ Accepts g p m
      | .inr te => ∀ e, te = some e → Q e.m) := by
  unfold ttProbe
  apply Sat.bind
  refine (ttGet_q h (g.hash p)).mono ?_
  intro te hte
  cases te with
  | none => exact Sat.pure ⟨h, fun e he => by cases he⟩
  | some e =>
    have heq : Q e.m := (hte e rfl).1.1
    dsimp only
    have h1 : EngOK g Q D { s with st := { s.st with ttHits := s.st.ttHits + 1 } } := h.of_eq rfl rfl rfl
    split
    · split
      · rename_i c hc
        apply Sat.bind
        have h2 : EngOK g Q D { s with st := { s.st with ttHits := s.st.ttHits + 1, ttShortcut := s.st.ttShortcut + 1 } } :=
          h.of_eq rfl rfl rfl
        refine (h2.setPv0 ply e.m heq _).mono ?_
        intro pv0 hpv0
        exact Sat.pure ⟨hpv0, e.m, rfl, heq, c, hc⟩
      · exact Sat.pure ⟨h1, fun e he => by cases he⟩
      · exact Sat.throw
    · exact Sat.pure ⟨h1, fun e' he' => by cases he'; exact heq⟩

/-- `best := append(stack[ply].pv[:0], pv...)`: the caller's hint, or the stale first element of the buffer -/
theorem pvInitBest_q (ply : Nat) (pv : List M) (hpv : ∀ x ∈ pv, Q x) {s : Eng M} (h : EngOK g Q D s) :
    Sat (pvInitBest ply pv s) (fun x => EngOK g Q D x.2 ∧ x.1 ≠ [] ∧ (∀ y ∈ x.1, Q y) ∧ (pv ≠ [] → x.1 = pv)) := by
  unfold pvInitBest
  cases pv with
  | nil =>
    dsimp only
    apply Sat.bind
    refine (h.getPv0 ply _).mono ?_
    intro x hx
    refine Sat.pure ⟨h, by simp, ?_, fun hne => absurd rfl hne⟩
    intro y hy
    simp only [List.mem_cons, List.not_mem_nil, or_false] at hy
    subst hy; exact hx
  | cons x rest =>
    dsimp only
    apply Sat.bind
    refine (h.setPv0 ply x (hpv x List.mem_cons_self) _).mono ?_
    intro pv0 hpv0
    exact Sat.pure ⟨hpv0, by simp, hpv, fun _ => rfl⟩

/-- the value one child contributes in `pvSearch` -/
theorem pvChild_q {cpv : PvFn P M} {czw : ZwFn P M} (hp : PvSpec g Q N D cpv) (hz : ZwSpec g Q N D czw)
    (i : Nat) (c : P) (ply : Nat) (depth : Int) (tail : List M) (α β : Int) (s : Eng M)
    (hN : N c) (htail : ∀ x ∈ tail, Q x) (hs : EngOK g Q D s) :
    Sat (pvChild cpv czw i c ply depth tail α β s) (fun r => EngOK g Q D r.2 ∧
      ∀ l, r.1.1 = some l → (∀ x ∈ l, Q x) ∧ (α < -r.1.2 → -r.1.2 < β → Replays g c l)) := by
  have hfull : ∀ s', EngOK g Q D s' →
      Sat (cpv c (ply + 1) (depth - 1) tail (-β) (-α) s') (fun r => EngOK g Q D r.2 ∧
        ∀ l, r.1.1 = some l → (∀ x ∈ l, Q x) ∧ (α < -r.1.2 → -r.1.2 < β → Replays g c l)) := by
    intro s' hs'
    refine (hp c (ply + 1) (depth - 1) tail (-β) (-α) s' hN htail hs').mono ?_
    rintro r ⟨h1, h2⟩
    refine ⟨h1, fun l hl => ⟨(h2 l hl).q, fun ha hb => (h2 l hl).inside (by omega) (by omega)⟩⟩
  unfold pvChild
  split
  · apply Sat.bind
    refine (hz c (ply + 1) (depth - 1) tail (-α - 1) true s hN htail hs).mono ?_
    rintro ⟨⟨ms, v⟩, s1⟩ ⟨h1, h2⟩
    dsimp only at h1 h2 ⊢
    split
    · exact hfull _ (h1.of_eq rfl rfl rfl)
    · rename_i hnot
      refine Sat.pure ⟨h1, fun l hl => ⟨h2 l hl, fun ha hb => ?_⟩⟩
      exfalso
      apply hnot
      dsimp only at ha hb
      simp only [Bool.and_eq_true, decide_eq_true_eq]
      exact ⟨ha, hb⟩
  · exact hfull s hs

/-- the loop invariant of `pvSearch`'s child loop -/
structure PvLI (g : Game P M) (Q : M → Prop) (D : P → Prop) (p : P) (best0 : List M) (α0 β : Int)
    (a : PvAcc M) (s : Eng M) : Prop where
  eng : EngOK g Q D s
  bestQ : ∀ x ∈ a.best, Q x
  ne : a.best ≠ []
  imp : a.improved = true → ∃ b rest, a.best = b :: rest ∧ Accepts g p b
  nimp : a.improved = false → a.best = best0 ∧ a.α = α0
  up : a.improved = true → α0 < a.α
  rep : α0 < a.α → a.α < β → Replays g p a.best

theorem PvLI.congr {p : P} {best0 : List M} {α0 β : Int} {a a' : PvAcc M} {s s' : Eng M}
    (h : PvLI g Q D p best0 α0 β a s) (hb : a'.best = a.best) (hi : a'.improved = a.improved) (ha : a'.α = a.α)
    (hs : EngOK g Q D s') : PvLI g Q D p best0 α0 β a' s' :=
  ⟨hs, by rw [hb]; exact h.bestQ, by rw [hb]; exact h.ne, by rw [hi, hb]; exact h.imp,
   by rw [hi, hb, ha]; exact h.nimp, by rw [hi, ha]; exact h.up, by rw [ha, hb]; exact h.rep⟩

theorem afterChild_q {σ : Type} {I : σ → Eng M → Prop} {Qb : σ → Eng M → Prop} (a : σ) (s : Eng M)
    (hi : I a (load o s).2) (hs : EngOK g Q D s) :
    LoopOut I Qb (fun (r : Res M) s' => EngOK g Q D s' ∧ r.1 = none) (afterChild o a s) := by
  unfold afterChild
  dsimp only
  split
  · exact ⟨hs.load o, rfl⟩
  · exact hi

/-- `pvBody` after the symmetry de-duplication test (the accumulator already carries the new `seen` list) -/
def pvBodyCore [DecidableEq M] (o : Oracle M) (cpv : PvFn P M) (czw : ZwFn P M)
    (ply : Nat) (depth β : Int)
    (m : M) (child : P) (a : PvAcc M) (s : Eng M) : Except Err (Ctl (PvAcc M) (Res M) × Eng M) := do
  let a := { a with i := a.i + 1 }
  let sm ← setA s.stackM ply m "stack[ply].m"
  let r ← pvChild cpv czw a.i child ply depth (a.best.drop 1) a.α β { s with stackM := sm }
  let ms := r.1.1
  let v := -r.1.2
  let s := r.2
  if v > a.α then do
    let pv0 ← setA s.pv0 ply m "stack[ply].pv"
    let s := { s with pv0 := pv0 }
    let a := { a with improved := true, best := m :: ms.getD [], α := v }
    if v ≥ β then do
      let s ← recordCut s m a.i ply
      pure (.brk a, s)
    else pure (afterChild o a s)
  else pure (afterChild o a s)

theorem pvBody_eq [DecidableEq M] (cpv : PvFn P M) (czw : ZwFn P M) (ply : Nat) (depth β : Int) (dedup : Bool)
    (m : M) (c : P) (a : PvAcc M) (s : Eng M) :
    pvBody g o cpv czw ply depth β dedup m c a s =
      if dedup && a.seen.contains (g.hash c) then pure (.next a, s)
      else pvBodyCore o cpv czw ply depth β m c
        (if dedup then { a with seen := a.seen ++ g.symHashes c } else a) s := rfl

theorem pvBodyCore_q [DecidableEq M] (hP : Prov g o Q N D) {cpv : PvFn P M} {czw : ZwFn P M}
    (hp : PvSpec g Q N D cpv) (hz : ZwSpec g Q N D czw) (p : P) (hN : N p) (ply : Nat) (depth β : Int)
    (best0 : List M) (α0 : Int) (m : M) (c : P) (a : PvAcc M) (s : Eng M)
    (hap : g.apply p m = .ok c) (hm : Q m) (hI : PvLI g Q D p best0 α0 β a s) :
    Sat (pvBodyCore o cpv czw ply depth β m c a s)
      (LoopOut (PvLI g Q D p best0 α0 β) (PvLI g Q D p best0 α0 β)
        (fun (r : Res M) s' => EngOK g Q D s' ∧ r.1 = none)) := by
  unfold pvBodyCore
  apply Sat.bind
  intro sm _
  apply Sat.bind
  have hs1 : EngOK g Q D { s with stackM := sm } := hI.eng.of_eq rfl rfl rfl
  have htail : ∀ x ∈ a.best.drop 1, Q x := fun x hx => hI.bestQ x (List.mem_of_mem_drop hx)
  refine (pvChild_q hp hz _ c ply depth _ _ β _ (hP.closed p m c hN hap) htail hs1).mono ?_
  rintro r ⟨hr1, hr2⟩
  dsimp only
  split
  · rename_i hgt
    apply Sat.bind
    refine (hr1.setPv0 ply m hm _).mono ?_
    intro pv0 hpv0
    have hbq : ∀ x ∈ m :: r.1.1.getD [], Q x := by
      intro x hx
      rcases List.mem_cons.mp hx with h | h
      · subst h; exact hm
      · cases hms : r.1.1 with
        | none => rw [hms] at h; cases h
        | some l => rw [hms] at h; exact (hr2 l hms).1 x h
    have hup : α0 < -r.1.2 := by
      cases hi : a.improved with
      | true => have := hI.up hi; omega
      | false => have := (hI.nimp hi).2; omega
    have hnew : ∀ s', EngOK g Q D s' → (-r.1.2 < β → Replays g p (m :: r.1.1.getD [])) →
        PvLI g Q D p best0 α0 β
          { improved := true, best := m :: r.1.1.getD [], α := -r.1.2, i := a.i + 1, seen := a.seen } s' :=
      fun s' hs' hrep =>
        ⟨hs', hbq, (by simp), fun _ => ⟨m, _, rfl, c, hap⟩, (fun h => by cases h), fun _ => hup, fun _ hb => hrep hb⟩
    have hrep : -r.1.2 < β → Replays g p (m :: r.1.1.getD []) := by
      intro hb
      refine ⟨c, hap, ?_⟩
      cases hms : r.1.1 with
      | none => exact trivial
      | some l => exact (hr2 l hms).2 hgt hb
    split
    · rename_i hge
      apply Sat.bind
      refine (EngOK.recordCut hpv0 m hm _ ply).mono ?_
      intro s2 hs2
      exact Sat.pure (hnew s2 hs2 (fun hb => by omega))
    · exact Sat.pure (afterChild_q _ _ (hnew _ (hpv0.load o) hrep) hpv0)
  · exact Sat.pure (afterChild_q _ _ (hI.congr rfl rfl rfl (hr1.load o)) hr1)

theorem pvBody_q [DecidableEq M] (hP : Prov g o Q N D) {cpv : PvFn P M} {czw : ZwFn P M}
    (hp : PvSpec g Q N D cpv) (hz : ZwSpec g Q N D czw) (p : P) (hN : N p) (ply : Nat) (depth β : Int) (dedup : Bool)
    (best0 : List M) (α0 : Int) :
    BodyQ g p (pvBody g o cpv czw ply depth β dedup) Q (PvLI g Q D p best0 α0 β) (PvLI g Q D p best0 α0 β)
      (fun (r : Res M) s' => EngOK g Q D s' ∧ r.1 = none) := by
  intro m c a s hap hm hI
  rw [pvBody_eq]
  split
  · exact Sat.pure hI
  · refine pvBodyCore_q hP hp hz p hN ply depth β best0 α0 m c _ s hap hm ?_
    split
    · exact hI.congr rfl rfl rfl hI.eng
    · exact hI

/-- the table store at the end of `pvSearch` -/
theorem pvStore_q (hP : Prov g o Q N D) (p : P) (hN : N p) (depth β : Int) (best0 : List M) (α0 : Int)
    (a : PvAcc M) (s : Eng M) (hI : PvLI g Q D p best0 α0 β a s) :
    Sat (pvStore o (g.hash p) depth β a s) (fun r => EngOK g Q D r.2 ∧ r.1 = (some a.best, a.α)) := by
  unfold pvStore
  apply Sat.bind
  refine (ttPut_q o hI.eng (g.hash p)).mono ?_
  rintro ⟨slot?, s1⟩ hs1
  dsimp only at hs1 ⊢
  cases slot? with
  | none => exact Sat.pure ⟨hs1, rfl⟩
  | some slot =>
    dsimp only
    split
    · rename_i old b0 rest hold hbest
      split
      · refine Sat.pure ⟨?_, rfl⟩
        have hs1' : EngOK g Q D (if (!a.improved) = true then
            { s1 with st := { s1.st with allNodes := s1.st.allNodes + 1 } } else s1) := by
          split
          · exact hs1.of_eq rfl rfl rfl
          · exact hs1
        refine hs1'.setEntry slot _ ⟨hI.bestQ b0 (by rw [hbest]; exact List.mem_cons_self), ?_⟩
        intro hb q hq hh
        dsimp only at hb hh
        cases hi : a.improved with
        | false =>
          rw [hi] at hb
          simp [Facts.upperBound, Facts.exactBound] at hb
        | true =>
          obtain ⟨b, rest', hb', hacc⟩ := hI.imp hi
          rw [hbest] at hb'
          cases hb'
          exact hP.compat p q b0 hN hq hh hacc
      · exact Sat.pure ⟨hs1, rfl⟩
    · exact Sat.throw

theorem pvNode_q [DecidableEq M] (hP : Prov g o Q N D) (cfg : SOpts) (frame : Bool) {cpv : PvFn P M} {czw : ZwFn P M}
    (hp : PvSpec g Q N D cpv) (hz : ZwSpec g Q N D czw) : PvSpec g Q N D (pvNode g cfg o frame cpv czw) := by
  intro p ply depth pv α β s hN hpv hs
  unfold pvNode
  dsimp only
  split
  · refine Sat.pure ⟨(leaf_q p _ hs).1, fun l hl => ?_⟩
    cases hl
  · split
    · exact Sat.throw
    · apply Sat.bind
      refine (ttProbe_q (Q := Q) (D := D) p ply depth α β ?_).mono ?_
      · exact hs.of_eq rfl rfl rfl
      rintro ⟨probe, s1⟩ ⟨hs1, hprobe⟩
      dsimp only at hs1 hprobe ⊢
      cases probe with
      | inl r =>
        dsimp only at hprobe ⊢
        obtain ⟨m, hr, hqm, hacc⟩ := hprobe
        refine Sat.pure ⟨hs1, fun l hl => ?_⟩
        rw [hr] at hl
        cases hl
        refine ⟨by simp, ?_, fun _ => ⟨m, [], rfl, hacc⟩, fun _ _ _ _ => ⟨m, [], rfl, hacc⟩,
          fun _ _ => Replays.single hacc⟩
        intro x hx
        simp only [List.mem_cons, List.not_mem_nil, or_false] at hx
        subst hx; exact hqm
      | inr te =>
        dsimp only at hprobe ⊢
        apply Sat.bind
        refine (pvInitBest_q ply pv hpv hs1).mono ?_
        rintro ⟨best, s2⟩ ⟨hs2, hne, hbq, hbpv⟩
        dsimp only at hs2 hne hbq hbpv ⊢
        apply Sat.bind
        have hI0 : PvLI g Q D p best α β ⟨α, best, false, 0, []⟩ s2 :=
          ⟨hs2, hbq, hne, (fun h => by cases h), fun _ => ⟨rfl, rfl⟩, (fun h => by cases h),
           fun h => absurd h (Int.lt_irrefl _)⟩
        refine (iterate_q (pvBody_q hP hp hz p hN ply depth β _ best α) cfg o ⟨ply, depth, te, pv⟩
          hprobe (fun x rest h => hpv x (by dsimp only at h; rw [h]; exact List.mem_cons_self))
          (fun a s h => h.eng.resp) (hP.gen p hN) hP.ord
          (fun a s k h => h.congr rfl rfl rfl (h.eng.of_eq rfl rfl rfl)) _ s2 hI0).mono ?_
        rintro ⟨c, s3⟩ hc
        dsimp only
        -- what the final accumulator gives for the returned pair
        have hfin : ∀ a : PvAcc M, PvLI g Q D p best α β a s3 →
            Sat (pvStore o (g.hash p) depth β a s3) (fun r => EngOK g Q D r.2 ∧
              ∀ l, r.1.1 = some l → PvRes g Q p pv α β l r.1.2) := by
          intro a hI
          refine (pvStore_q hP p hN depth β best α a s3 hI).mono ?_
          rintro r ⟨hr1, hr2⟩
          refine ⟨hr1, fun l hl => ?_⟩
          rw [hr2] at hl ⊢
          cases hl
          dsimp only
          refine ⟨hI.ne, hI.bestQ, ?_, ?_, hI.rep⟩
          · intro hab
            cases hi : a.improved with
            | true => exact hI.imp hi
            | false => have := (hI.nimp hi).2; omega
          · intro x' rest' hpv' hacc'
            cases hi : a.improved with
            | true => exact hI.imp hi
            | false =>
              have h1 := (hI.nimp hi).1
              have h2 := hbpv (by rw [hpv']; simp)
              exact ⟨x', rest', by rw [h1, h2, hpv'], hacc'⟩
        cases c with
        | ret r =>
          obtain ⟨h1, h2⟩ := hc
          refine Sat.pure ⟨h1, fun l hl => ?_⟩
          rw [h2] at hl; cases hl
        | next a => exact hfin a hc
        | brk a => exact hfin a hc

/-! ### zwSearch -/

theorem nullMove_q (hP : Prov g o Q N D) (cfg : SOpts) {czw : ZwFn P M} (hz : ZwSpec g Q N D czw)
    (p : P) (hN : N p) (ply : Nat) (depth α : Int) (s : Eng M) (hs : EngOK g Q D s) :
    Sat (nullMove g cfg czw p ply depth α s) (fun x => EngOK g Q D x.2 ∧ ∀ r, x.1 = some r → r.1 = none) := by
  unfold nullMove
  apply Sat.bind
  intro ok _
  split
  · exact Sat.pure ⟨hs, fun r hr => by cases hr⟩
  · apply Sat.bind
    intro sm _
    have hs1 : EngOK g Q D { s with stackM := sm } := hs.of_eq rfl rfl rfl
    dsimp only
    cases hap : g.apply p g.passMove with
    | error e =>
      cases e with
      | illegal w => exact Sat.pure ⟨hs1, fun r hr => by cases hr⟩
      | panic w => exact Sat.throw
      | hang w => exact Sat.throw
    | ok child =>
      dsimp only
      apply Sat.bind
      refine (hz child (ply + 1) (depth - 3) [] (-α - 1) true _ (hP.closed p _ child hN hap)
        (fun x hx => by cases hx) ?_).mono ?_
      · exact hs1.of_eq rfl rfl rfl
      rintro r ⟨hr1, _⟩
      split
      · exact Sat.pure ⟨hr1.of_eq rfl rfl rfl, fun r' hr' => by cases hr'; rfl⟩
      · exact Sat.pure ⟨hr1, fun r' hr' => by cases hr'⟩

theorem slideReduction_q (cfg : SOpts) (p : P) (ply : Nat) (depth : Int) (s : Eng M) (hs : EngOK g Q D s) :
    Sat (slideReduction g cfg p ply depth s) (fun x => EngOK g Q D x.2) := by
  unfold slideReduction
  split
  · apply Sat.bind; intro prev _
    apply Sat.bind; intro red _
    split
    · exact Sat.pure (hs.of_eq rfl rfl rfl)
    · exact Sat.pure hs
  · exact Sat.pure hs

theorem mcBody_q (hP : Prov g o Q N D) {czw : ZwFn P M} (hz : ZwSpec g Q N D czw) (p : P) (hN : N p)
    (ply : Nat) (depth α : Int) (cut : Bool) :
    BodyQ g p (mcBody czw ply depth α cut) Q (fun (_ : McAcc M) s => EngOK g Q D s)
      (fun (_ : McAcc M) s => EngOK g Q D s) (fun (r : Res M) s' => EngOK g Q D s' ∧ r.1 = none) := by
  intro m c a s hap _ hs
  unfold mcBody
  split
  · exact Sat.pure hs
  · apply Sat.bind
    intro sm _
    apply Sat.bind
    refine (hz c (ply + 1) (depth - 1 - 2) [] (-α - 1) (!cut) _ (hP.closed p m c hN hap)
      (fun x hx => by cases hx) (hs.of_eq (s1 := { s with stackM := sm }) rfl rfl rfl)).mono ?_
    rintro r ⟨hr1, _⟩
    dsimp only
    split
    · split
      · exact Sat.pure ⟨hr1.of_eq rfl rfl rfl, rfl⟩
      · exact Sat.pure hr1
    · exact Sat.pure hr1

theorem multiCut_q [DecidableEq M] (hP : Prov g o Q N D) (cfg : SOpts) {czw : ZwFn P M} (hz : ZwSpec g Q N D czw)
    (p : P) (hN : N p) (mg : MG M) (hte : ∀ e, mg.te = some e → Q e.m) (hpv : ∀ x rest, mg.pv = x :: rest → Q x)
    (α : Int) (cut : Bool) (s : Eng M) (hs : EngOK g Q D s) :
    Sat (multiCut g cfg o czw p mg α cut s) (fun x => EngOK g Q D x.2 ∧ ∀ r, x.1 = some r → r.1 = none) := by
  unfold multiCut
  split
  · apply Sat.bind
    refine (iterate_q (mcBody_q hP hz p hN mg.ply mg.depth α cut) cfg o mg hte hpv
      (fun _ s h => h.resp) (hP.gen p hN) hP.ord (fun _ s k h => h.of_eq rfl rfl rfl)
      (⟨0, 0, none⟩ : McAcc M) _ ?_).mono ?_
    · exact hs.of_eq rfl rfl rfl
    rintro ⟨c, s1⟩ hc
    dsimp only
    cases c with
    | ret r => exact Sat.pure ⟨hc.1, fun r' hr' => by cases hr'; exact hc.2⟩
    | next a => exact Sat.pure ⟨hc, fun r' hr' => by cases hr'⟩
    | brk a => exact Sat.pure ⟨hc, fun r' hr' => by cases hr'⟩
  · exact Sat.pure ⟨hs, fun r hr => by cases hr⟩

/-- the loop invariant of `zwSearch`'s child loop -/
def ZwLI (g : Game P M) (Q : M → Prop) (D : P → Prop) (a : ZwAcc M) (s : Eng M) : Prop :=
  EngOK g Q D s ∧ ∀ x ∈ a.best, Q x

theorem zwBody_q [DecidableEq M] (hP : Prov g o Q N D) {czw : ZwFn P M} (hz : ZwSpec g Q N D czw) (p : P) (hN : N p)
    (ply : Nat) (depth α : Int) (cut : Bool) :
    BodyQ g p (zwBody o czw ply depth α cut) Q (ZwLI g Q D) (ZwLI g Q D)
      (fun (r : Res M) s' => EngOK g Q D s' ∧ r.1 = none) := by
  intro m c a s hap hm hI
  unfold zwBody
  apply Sat.bind
  intro sm _
  apply Sat.bind
  have htail : ∀ x ∈ a.best.drop 1, Q x := fun x hx => hI.2 x (List.mem_of_mem_drop hx)
  refine (hz c (ply + 1) (depth - 1) _ (-α - 1) (!cut) _ (hP.closed p m c hN hap) htail
    (hI.1.of_eq (s1 := { s with stackM := sm }) rfl rfl rfl)).mono ?_
  rintro r ⟨hr1, hr2⟩
  dsimp only
  split
  · apply Sat.bind
    refine (EngOK.recordCut hr1 m hm _ ply).mono ?_
    intro s2 hs2
    apply Sat.bind
    refine (hs2.setPv0 ply m hm _).mono ?_
    intro pv0 hpv0
    refine Sat.pure ⟨hpv0, ?_⟩
    intro x hx
    dsimp only at hx
    rcases List.mem_cons.mp hx with h | h
    · subst h; exact hm
    · cases hms : r.1.1 with
      | none => rw [hms] at h; cases h
      | some l => rw [hms] at h; exact hr2 l hms x h
  · exact Sat.pure (afterChild_q (I := ZwLI g Q D) _ _ ⟨hr1.load o, hI.2⟩ hr1)

theorem zwStore_q (k : H) (depth α : Int) (a : ZwAcc M) (s : Eng M) (hI : ZwLI g Q D a s) :
    Sat (zwStore o k depth α a s) (fun r => EngOK g Q D r.2 ∧ r.1.1 = some a.best) := by
  unfold zwStore
  dsimp only
  apply Sat.bind
  refine (ttPut_q o hI.1 k).mono ?_
  rintro ⟨slot?, s1⟩ hs1
  dsimp only at hs1 ⊢
  cases slot? with
  | none => exact Sat.pure ⟨hs1, rfl⟩
  | some slot =>
    dsimp only
    split
    · rename_i b0 rest hbest
      refine Sat.pure ⟨?_, rfl⟩
      have hs1' : EngOK g Q D (if a.didCut = true then s1 else
          { s1 with st := { s1.st with allNodes := s1.st.allNodes + 1 } }) := by
        split
        · exact hs1
        · exact hs1.of_eq rfl rfl rfl
      refine hs1'.setEntry slot _ ⟨hI.2 b0 (by rw [hbest]; exact List.mem_cons_self), ?_⟩
      intro hb
      dsimp only at hb
      split at hb <;> simp [Facts.lowerBound, Facts.upperBound, Facts.exactBound] at hb
    · exact Sat.throw

theorem zwNode_q [DecidableEq M] (hP : Prov g o Q N D) (cfg : SOpts) (frame : Bool) {czw : ZwFn P M}
    (hz : ZwSpec g Q N D czw) : ZwSpec g Q N D (zwNode g cfg o frame czw) := by
  intro p ply depth pv α cut s hN hpv hs
  unfold zwNode
  dsimp only
  split
  · refine Sat.pure ⟨(leaf_q p _ hs).1, fun l hl => ?_⟩
    cases hl
  · split
    · exact Sat.throw
    · apply Sat.bind
      refine (ttProbe_q (Q := Q) (D := D) p ply depth α (α + 1) ?_).mono ?_
      · exact hs.of_eq rfl rfl rfl
      rintro ⟨probe, s1⟩ ⟨hs1, hprobe⟩
      dsimp only at hs1 hprobe ⊢
      cases probe with
      | inl r =>
        dsimp only at hprobe ⊢
        obtain ⟨m, hr, hqm, _⟩ := hprobe
        refine Sat.pure ⟨hs1, fun l hl => ?_⟩
        rw [hr] at hl
        cases hl
        intro x hx
        simp only [List.mem_cons, List.not_mem_nil, or_false] at hx
        subst hx; exact hqm
      | inr te =>
        dsimp only at hprobe ⊢
        apply Sat.bind
        refine (nullMove_q hP cfg hz p hN ply depth α s1 hs1).mono ?_
        rintro ⟨nm, s2⟩ ⟨hs2, hnm⟩
        dsimp only at hs2 hnm ⊢
        cases nm with
        | some r =>
          refine Sat.pure ⟨hs2, fun l hl => ?_⟩
          rw [hnm r rfl] at hl; cases hl
        | none =>
          dsimp only
          apply Sat.bind
          refine (slideReduction_q cfg p ply depth s2 hs2).mono ?_
          rintro ⟨depth', s3⟩ hs3
          dsimp only at hs3 ⊢
          apply Sat.bind
          have hpvh : ∀ x rest, pv = x :: rest → Q x := fun x rest h => hpv x (by rw [h]; exact List.mem_cons_self)
          refine (multiCut_q hP cfg hz p hN ⟨ply, depth', te, pv⟩ hprobe hpvh α cut s3 hs3).mono ?_
          rintro ⟨mc, s4⟩ ⟨hs4, hmc⟩
          dsimp only at hs4 hmc ⊢
          cases mc with
          | some r =>
            refine Sat.pure ⟨hs4, fun l hl => ?_⟩
            rw [hmc r rfl] at hl; cases hl
          | none =>
            dsimp only
            apply Sat.bind
            refine (hs4.getPv0 ply _).mono ?_
            intro x hx
            apply Sat.bind
            have hI0 : ZwLI g Q D (⟨[x], 0, false⟩ : ZwAcc M) s4 := by
              refine ⟨hs4, ?_⟩
              intro y hy
              simp only [List.mem_cons, List.not_mem_nil, or_false] at hy
              subst hy; exact hx
            refine (iterate_q (zwBody_q hP hz p hN ply depth' α cut) cfg o ⟨ply, depth', te, pv⟩ hprobe hpvh
              (fun a s h => h.1.resp) (hP.gen p hN) hP.ord
              (fun a s k h => ⟨h.1.of_eq rfl rfl rfl, h.2⟩) _ s4 hI0).mono ?_
            rintro ⟨c, s5⟩ hc
            dsimp only
            have hfin : ∀ a : ZwAcc M, ZwLI g Q D a s5 →
                Sat (zwStore o (g.hash p) depth' α a s5) (fun r => EngOK g Q D r.2 ∧
                  ∀ l, r.1.1 = some l → ∀ x ∈ l, Q x) := by
              intro a hI
              refine (zwStore_q (g.hash p) depth' α a s5 hI).mono ?_
              rintro r ⟨hr1, hr2⟩
              refine ⟨hr1, fun l hl => ?_⟩
              rw [hr2] at hl
              cases hl
              exact hI.2
            cases c with
            | ret r =>
              obtain ⟨h1, h2⟩ := hc
              refine Sat.pure ⟨h1, fun l hl => ?_⟩
              rw [h2] at hl; cases hl
            | next a => exact hfin a hc
            | brk a => exact hfin a hc

/-- **the provenance induction**, for every number of free frames -/
theorem search_q [DecidableEq M] (hP : Prov g o Q N D) (cfg : SOpts) :
    ∀ n, PvSpec g Q N D (search g cfg o n).1 ∧ ZwSpec g Q N D (search g cfg o n).2 := by
  intro n
  induction n with
  | zero =>
    have hze : ZwSpec g Q N D (fun _ _ _ _ _ _ _ =>
        (.error (.panic "ai.stack[ply]: index out of range") : Except Err (Res M × Eng M))) :=
      fun _ _ _ _ _ _ _ _ _ _ => Sat.error
    have hpe : PvSpec g Q N D (fun _ _ _ _ _ _ _ =>
        (.error (.panic "ai.stack[ply]: index out of range") : Except Err (Res M × Eng M))) :=
      fun _ _ _ _ _ _ _ _ _ _ => Sat.error
    exact ⟨pvNode_q hP cfg false hpe hze, zwNode_q hP cfg false hze⟩
  | succ n ih => exact ⟨pvNode_q hP cfg true ih.1 ih.2, zwNode_q hP cfg true ih.2⟩

/-- `ai.pvSearch(p, ply, …)` -/
theorem pvSearch_q [DecidableEq M] (hP : Prov g o Q N D) (cfg : SOpts) (ply : Nat) :
    PvSpec g Q N D (fun p _ depth pv α β s => pvSearch g cfg o ply p depth pv α β s) := by
  intro p _ depth pv α β s hN hpv hs
  exact (search_q hP cfg (Facts.maxDepth - ply)).1 p ply depth pv α β s hN hpv hs

end nodes
end Search
