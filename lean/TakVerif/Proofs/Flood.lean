import TakVerif.Proofs.Grow
import TakVerif.Proofs.Adj

/-! `bitboard.Flood` terminates within the model's fuel and computes connectivity. -/
namespace Roads
open Tak

/-- number of set bits, as a count over the 64 positions (proof-side popcount) -/
def cnt (x : W) : Nat := (List.range 64).countP (fun i => x.getLsbD i)

theorem cnt_le (x : W) : cnt x ≤ 64 := by
  unfold cnt
  have := @List.countP_le_length _ (fun i => x.getLsbD i) (List.range 64)
  simpa using this

theorem countP_lt {α : Type} (p q : α → Bool) (l : List α) (h : ∀ a ∈ l, p a = true → q a = true)
    (a : α) (ha : a ∈ l) (hq : q a = true) (hp : p a = false) : l.countP p < l.countP q := by
  induction l with
  | nil => cases ha
  | cons b l ih =>
    simp only [List.countP_cons]
    have hmono : l.countP p ≤ l.countP q :=
      List.countP_mono_left (fun x hx => h x (List.mem_cons_of_mem _ hx))
    rcases List.mem_cons.mp ha with rfl | hal
    · simp [hq, hp]; omega
    · have := ih (fun x hx => h x (List.mem_cons_of_mem _ hx)) hal
      have hb := h b (List.mem_cons_self)
      by_cases hpb : p b = true
      · simp [hpb, hb hpb]; omega
      · by_cases hqb : q b = true <;> simp [hpb, hqb] <;> omega

theorem Sub.antisymm {x y : W} (h1 : Sub x y) (h2 : Sub y x) : x = y := by
  apply BitVec.eq_of_getLsbD_eq
  intro i _
  cases hx : x.getLsbD i <;> cases hy : y.getLsbD i <;> simp_all [Sub]
  · have := h2 i hy; simp_all
  · have := h1 i hx; simp_all

theorem cnt_mono {x y : W} (h : Sub x y) : cnt x ≤ cnt y :=
  List.countP_mono_left (fun i _ hi => h i hi)

theorem cnt_lt {x y : W} (h : Sub x y) (hne : x ≠ y) : cnt x < cnt y := by
  have : ∃ i, i < 64 ∧ y.getLsbD i = true ∧ x.getLsbD i = false := by
    apply Classical.byContradiction
    intro hno
    apply hne
    apply Sub.antisymm h
    intro i hi
    have hi64 : i < 64 := by
      apply Classical.byContradiction; intro hge
      rw [BitVec.getLsbD_of_ge _ _ (by omega)] at hi; cases hi
    cases hx : x.getLsbD i with
    | true => rfl
    | false => exact absurd ⟨i, hi64, hi, hx⟩ hno
  obtain ⟨i, hi, hy, hx⟩ := this
  exact countP_lt _ _ _ (fun a _ ha => h a ha) i (List.mem_range.mpr hi) hy hx

/-! ### one round -/

theorem grow_infl (c : Consts) (within seed : W) (h : Sub seed within) :
    Sub seed (Gen.grow c within seed) := by
  intro i hi
  unfold Gen.grow
  simp only [BitVec.getLsbD_and, BitVec.getLsbD_or, hi, h i hi, Bool.true_or, Bool.and_self]

theorem grow_sub (c : Consts) (within seed : W) : Sub (Gen.grow c within seed) within := by
  intro i hi
  unfold Gen.grow at hi
  simp only [BitVec.getLsbD_and, Bool.and_eq_true] at hi
  exact hi.2

/-! ### the loop -/

/-- Generic loop lemma: with `seed ⊆ within` and enough fuel for the bits still missing, the loop returns
a fixpoint of `grow` between `seed` and `within`; any property preserved by one round carries over. -/
theorem floodFuel_spec (c : Consts) (within : W) (P : W → Prop)
    (hP : ∀ s, Sub s within → P s → P (Gen.grow c within s)) :
    ∀ (fuel : Nat) (seed : W), Sub seed within → P seed → 64 - cnt seed < fuel →
      ∃ r, floodFuel c within fuel seed = some r ∧ P r ∧ Sub seed r ∧ Sub r within ∧
        Gen.grow c within r = r := by
  intro fuel
  induction fuel with
  | zero => intro seed _ _ h; omega
  | succ n ih =>
    intro seed hsub hp hfuel
    unfold floodFuel
    by_cases heq : Gen.grow c within seed = seed
    · simp only [heq, beq_self_eq_true, if_true]
      exact ⟨seed, rfl, hp, Sub.refl _, hsub, heq⟩
    · have hne : (Gen.grow c within seed == seed) = false := by simpa using heq
      simp only [hne]
      have hinfl := grow_infl c within seed hsub
      have hlt := cnt_lt hinfl (fun e => heq e.symm)
      have hle := cnt_le (Gen.grow c within seed)
      obtain ⟨r, hr, hpr, hsr, hrw, hfix⟩ :=
        ih (Gen.grow c within seed) (grow_sub c within seed) (hP seed hsub hp) (by omega)
      exact ⟨r, hr, hpr, Sub.trans hinfl hsr, hrw, hfix⟩

/-- **Termination** (any constants): `Flood` returns within the model's 66 rounds whenever `seed ⊆ within`
(each round that does not stop adds a bit; there are 64). -/
theorem flood_isSome (c : Consts) (within seed : W) (h : Sub seed within) :
    (flood c within seed).isSome = true := by
  obtain ⟨r, hr, _⟩ := floodFuel_spec c within (fun _ => True) (fun _ _ _ => trivial) 66 seed h trivial
    (by have := cnt_le seed; omega)
  unfold flood; rw [hr]; rfl

/-! ### what the fixpoint is (sizes 3..8, the real masks) -/

theorem lt_of_mask {n : Nat} (hn : SizeOK n) {w : W} (hw : Sub w (Gen.precompute n).Mask) {k : Nat}
    (hk : w.getLsbD k = true) : k < n * n := by
  have := hw k hk
  rw [Mask_bitN n hn] at this
  simpa using this

/-- one round of `Grow`, as a statement about squares -/
theorem grow_mem (n : Nat) (hn : SizeOK n) (w s : W) (hw : Sub w (Gen.precompute n).Mask)
    (hs : Sub s w) (k : Nat) :
    (Gen.grow (Gen.precompute n) w s).getLsbD k = true ↔
      w.getLsbD k = true ∧ (s.getLsbD k = true ∨ ∃ j ∈ Spec.neighbours n k, s.getLsbD j = true) := by
  rw [grow_spec n hn w s hw (Sub.trans hs hw)]
  simp only [Bool.and_eq_true, Bool.or_eq_true, List.any_eq_true]

/-- **`Flood` computes connectivity**: on a board of size 3..8 with `seed ⊆ within ⊆ board`, the call
returns, and square `k` is in the result iff it is joined to some seed square by a chain of adjacent
squares all inside `within`. -/
theorem flood_reach (n : Nat) (hn : SizeOK n) (within seed : W)
    (hw : Sub within (Gen.precompute n).Mask) (hs : Sub seed within) :
    ∃ r, flood (Gen.precompute n) within seed = some r ∧
      ∀ k, r.getLsbD k = true ↔
        ∃ i, seed.getLsbD i = true ∧ Spec.Conn n (fun j => within.getLsbD j = true) i k := by
  let P : W → Prop := fun s => ∀ k, s.getLsbD k = true →
    ∃ i, seed.getLsbD i = true ∧ Spec.Conn n (fun j => within.getLsbD j = true) i k
  have hP : ∀ s, Sub s within → P s → P (Gen.grow (Gen.precompute n) within s) := by
    intro s hsw hps k hk
    rw [grow_mem n hn within s hw hsw] at hk
    obtain ⟨hwk, hsk | ⟨j, hj, hsj⟩⟩ := hk
    · exact hps k hsk
    · obtain ⟨i, hi, hc⟩ := hps j hsj
      have hk' := lt_of_mask hn hw hwk
      exact ⟨i, hi, Spec.Conn.step hc (neighbours_symm hk' hj) hwk⟩
  have hP0 : P seed := fun k hk =>
    ⟨k, hk, Spec.Conn.refl (lt_of_mask hn hw (hs k hk)) (hs k hk)⟩
  obtain ⟨r, hr, hpr, hsr, hrw, hfix⟩ :=
    floodFuel_spec (Gen.precompute n) within P hP 66 seed hs hP0 (by have := cnt_le seed; omega)
  refine ⟨r, hr, fun k => ⟨hpr k, ?_⟩⟩
  rintro ⟨i, hi, hc⟩
  refine Spec.Conn.closed (fun k => r.getLsbD k = true) ?_ (hsr i hi) hc
  intro j k hj hjlt hk hok
  rw [← hfix, grow_mem n hn within r hw hrw]
  exact ⟨hok, Or.inr ⟨j, neighbours_symm hjlt hk, hj⟩⟩

end Roads
