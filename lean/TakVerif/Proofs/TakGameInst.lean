import TakVerif.Proofs.TakGame
import TakVerif.Proofs.TakGameLive
import TakVerif.Proofs.TakGameEval
import TakVerif.Proofs.TakGameTransfer
import TakVerif.Proofs.HeapValue

/-! The facts about the Tak rules and evaluators that the relativised search theorems ask for, on the domain
`takS basis D N`: liveness (`tak_has_move` + completeness of `AllMoves`), evaluation bounds (C18); and the root
hypothesis of the Tak theorems, `GoodPos`: what holds of `New` positions and is kept by every applied move. -/
namespace Search
open Tak Tak.Proofs

/-- the part of the domain that is about the position alone, besides `InvB`: the opening-reserve condition of
`tak_has_move` and "the stored group lists are the analysed ones" (what C18's bounds need) -/
def TakD (p : Pos) : Prop := OpenOK p ∧ p.analyze = some p

/-- **the hypothesis on the analysed position** of the Tak theorems: C01's invariant `WF`, at most 64 pieces in
the game (so that no stack can exceed the 64-bit representation; automatic for the default 3×3 … 6×6 games),
`OpenOK`, analysed group lists.  Holds of `New` positions (`goodPos_new`), is kept by every applied non-pass move
(`goodPos_apply`), hence holds of every position reached by play (`goodPos_reachable`). -/
def GoodPos (basis : Array W) (p : Pos) : Prop := InvB basis p ∧ TakD p

/-- an evaluator stays in `[MinEval, MaxEval]` on well-formed analysed positions up to ply 2·10^6 -/
def EvBounded (basis : Array W) (ev : Pos → Int) : Prop :=
  ∀ q, WF basis q → q.analyze = some q → q.move ≤ 2000000 → Facts.minEval ≤ ev q ∧ ev q ≤ Facts.maxEval

/-- an evaluator is not decisive on unfinished well-formed analysed positions -/
def EvInside (basis : Array W) (ev : Pos → Int) : Prop :=
  ∀ q, WF basis q → q.analyze = some q → q.gameOver.1 = false →
    -Facts.winThreshold ≤ ev q ∧ ev q ≤ Facts.winThreshold

theorem evBounded_winner (basis : Array W) : EvBounded basis evalWinner := fun q _ _ _ => evalWinner_bounded q
theorem evInside_winner (basis : Array W) : EvInside basis evalWinner := fun q _ _ h => evalWinner_inside q h
theorem evBounded_mat (basis : Array W) : EvBounded basis evalMat := fun q h _ hN => evalMat_bounded basis q h hN
theorem evInside_mat (basis : Array W) : EvInside basis evalMat := fun q h _ ho => evalMat_inside basis q h ho
theorem evBounded_default (basis : Array W) : EvBounded basis evalDefault :=
  fun q h ha hN => evalDefault_bounded basis q h ha hN
theorem evInside_default (basis : Array W) : EvInside basis evalDefault :=
  fun q h ha ho => evalDefault_inside basis q h ha ho

variable (basis : Array W) (ev : Pos → Int) (sym : Pos → List H)

/-- **`tak_live`**: an unfinished well-formed position (with the opening-reserve condition) has a generated legal
move -/
theorem tak_kids_ne (p : Pos) (hwf : WF basis p) (hopen : OpenOK p) (hov : p.gameOver.1 = false) :
    kids (takGame basis ev sym) p ≠ [] := by
  obtain ⟨m, q, hnp, hap⟩ := tak_has_move basis p hwf hopen hov
  obtain ⟨m', hm', he⟩ := C03.allMoves_complete_wf basis p hwf m q hnp hap
  have hk : (m', q) ∈ kids (takGame basis ev sym) p :=
    mem_kids.mpr ⟨hm', by show p.apply basis m' = .ok q; rw [apply_of_equal basis p m' m he]; exact hap⟩
  intro h
  rw [h] at hk
  cases hk

theorem domClosed_takD : DomClosed basis TakD :=
  fun p q m hwf hd hnp hap => ⟨openOK_apply basis p q m hwf hd.1 hnp hap, Pos.apply_analyzed hap⟩

theorem domClosed_and {D1 D2 : Pos → Prop} (h1 : DomClosed basis D1) (h2 : DomClosed basis D2) :
    DomClosed basis (fun q => D1 q ∧ D2 q) :=
  fun p q m hwf hd hnp hap => ⟨h1 p q m hwf hd.1 hnp hap, h2 p q m hwf hd.2 hnp hap⟩

theorem goodPos_apply {p q : Pos} {m : Move} (h : GoodPos basis p) (hnp : m.type ≠ Facts.mtPass)
    (hap : p.apply basis m = .ok q) : GoodPos basis q :=
  ⟨invB_apply h.1 hnp hap, domClosed_takD basis p q m h.1.1 h.2 hnp hap⟩

/-- `New` stores the analysed (empty) group lists (as `Tak.Pos.new_analysed` of `Proofs/HeapRun.lean`, which cannot be
imported beside `Proofs/PosFactsInst.lean`: both declare a `Tak.foldl_inv`) -/
theorem new_analysed' {cfg : Tak.Cfg} {p : Pos} (h : Pos.new cfg = .ok p) : p.analyze = some p := by
  unfold Pos.new at h
  split at h
  · cases h
  · extract_lets pieces caps at h
    split at h
    · cases h
    · cases h
      simp [Pos.analyze, floodGroups, floodGroupsFuel]

/-- the start position of a default 3×3 … 6×6 game -/
theorem goodPos_new (size : Nat) (bwt : Bool) (p : Pos) (hs : size ≤ 6) (h : Pos.new ⟨size, 0, 0, bwt⟩ = .ok p) :
    GoodPos basis p :=
  ⟨⟨new_wf basis h, by have := new_budget_default size bwt p hs h; omega⟩,
   openOK_new _ p (Or.inl rfl) h, new_analysed' h⟩

/-- every position reached from a good one by applied non-pass moves -/
theorem goodPos_reachable : ∀ (ms : List Move) (p q : Pos), GoodPos basis p → (∀ m ∈ ms, m.type ≠ Facts.mtPass) →
    p.applyAll basis ms = .ok q → GoodPos basis q := by
  intro ms
  induction ms with
  | nil => intro p q hp _ h; simp only [Pos.applyAll] at h; cases h; exact hp
  | cons m ms ih =>
    intro p q hp hnp h
    simp only [Pos.applyAll] at h
    cases hap : p.apply basis m with
    | error e => rw [hap] at h; cases h
    | ok p1 =>
      rw [hap] at h
      exact ih p1 q (goodPos_apply basis hp (hnp m (by simp)) hap) (fun x hx => hnp x (by simp [hx])) h

variable (D : Pos → Prop) (N : Option Int)

theorem tak_live (hDt : ∀ q, D q → TakD q) :
    ∀ p, takS basis D N 1 p → (takGame basis ev sym).over p = false → kids (takGame basis ev sym) p ≠ [] :=
  fun p hp hov => tak_kids_ne basis ev sym p hp.1.1 (hDt p hp.2.1).1 hov

theorem tak_evBounded (hDt : ∀ q, D q → TakD q) (hev : EvBounded basis ev) :
    ∀ q, takS basis D (some 2000000) 0 q →
      Facts.minEval ≤ (takGame basis ev sym).eval q ∧ (takGame basis ev sym).eval q ≤ Facts.maxEval := by
  intro q hq
  have := hq.2.2 2000000 rfl
  exact hev q hq.1.1 (hDt q hq.2.1).2 (by omega)

theorem tak_evInside (hDt : ∀ q, D q → TakD q) (hev : EvInside basis ev) :
    ∀ q, takS basis D N 0 q → (takGame basis ev sym).over q = false →
      -Facts.winThreshold ≤ (takGame basis ev sym).eval q ∧ (takGame basis ev sym).eval q ≤ Facts.winThreshold :=
  fun q hq hov => hev q hq.1.1 (hDt q hq.2.1).2 hov

/-- a good position has rank `k` in the domain with the ply bound when its ply allows -/
theorem goodPos_rank {p : Pos} (h : GoodPos basis p) {k : Nat} (hk : p.move + k ≤ 2000000) :
    takS basis TakD (some 2000000) k p := takS_some basis TakD h.1 h.2 hk

/-- the good positions that satisfy `D` (a set closed under applied moves: `DomClosed`) -/
def TakDom (basis : Array W) (D : Pos → Prop) (q : Pos) : Prop := InvB basis q ∧ D q

/-- equal hashes ⇒ alike for the search's verdicts, among the good positions satisfying `D` -/
def TakHashOK (basis : Array W) (ev : Pos → Int) (sym : Pos → List H) (D : Pos → Prop) : Prop :=
  HashOKOn (takGame basis ev sym) (TakDom basis D)

theorem takS_none_iff (basis : Array W) (D : Pos → Prop) (k : Nat) (q : Pos) :
    takS basis D none k q ↔ TakDom basis D q :=
  ⟨fun h => ⟨h.1, h.2.1⟩, fun h => ⟨h.1, h.2, fun n hn => by cases hn⟩⟩

theorem takHashOK_dom {basis : Array W} {ev : Pos → Int} {sym : Pos → List H} {D : Pos → Prop}
    (h : TakHashOK basis ev sym D) : HashOKOn (takGame basis ev sym) (takS basis D none 0) :=
  fun p q hp hq => h p q ((takS_none_iff basis D 0 p).mp hp) ((takS_none_iff basis D 0 q).mp hq)


end Search
