import TakVerif.Proofs.Outcome

/-! `FromSquares` establishes the invariant `RoadWF` that the C02 theorems assume. -/
namespace Roads
open Tak Spec

/-- bitboards while `FromSquares` fills the board: nothing at or above the current index `i`, nothing
outside the `n` squares, no square in both colours -/
structure BInv (cfg : Cfg) (n i : Nat) (p : Pos) : Prop where
  cfg_eq : p.cfg.size = cfg.size
  consts : p.c = Gen.precompute cfg.size
  white_lt : ∀ k, p.white.getLsbD k = true → k < i ∧ k < n
  black_lt : ∀ k, p.black.getLsbD k = true → k < i ∧ k < n
  disjoint : ∀ k, ¬ (p.white.getLsbD k = true ∧ p.black.getLsbD k = true)

/-- the inner loop over the pieces of one square touches reserves and `Stacks` only -/
theorem pieces_frame (i : Nat) : ∀ (l : List Nat) (j : Nat) (p q : Pos),
    Pos.fromSquares.go.pieces i j l p = .ok q →
      q.white = p.white ∧ q.black = p.black ∧ q.c = p.c ∧ q.cfg = p.cfg := by
  intro l
  induction l with
  | nil => intro j p q h; unfold Pos.fromSquares.go.pieces at h; injection h with h; subst h; exact ⟨rfl, rfl, rfl, rfl⟩
  | cons pc l ih =>
    intro j p q h
    unfold Pos.fromSquares.go.pieces at h
    simp only at h
    split at h
    · cases h
    · rename_i p1 hp1
      have hfr : p1.white = p.white ∧ p1.black = p.black ∧ p1.c = p.c ∧ p1.cfg = p.cfg := by
        split at hp1
        · injection hp1 with e; subst e; exact ⟨rfl, rfl, rfl, rfl⟩
        · split at hp1
          · injection hp1 with e; subst e; exact ⟨rfl, rfl, rfl, rfl⟩
          · split at hp1
            · injection hp1 with e; subst e; exact ⟨rfl, rfl, rfl, rfl⟩
            · split at hp1
              · injection hp1 with e; subst e; exact ⟨rfl, rfl, rfl, rfl⟩
              · cases hp1
      obtain ⟨a', b', c', d'⟩ := hfr
      split at h
      · obtain ⟨a, b, c, d⟩ := ih _ _ _ h
        simp only at a b c d
        exact ⟨a.trans a', b.trans b', c.trans c', d.trans d'⟩
      · obtain ⟨a, b, c, d⟩ := ih _ _ _ h
        exact ⟨a.trans a', b.trans b', c.trans c', d.trans d'⟩


theorem BInv.next {cfg : Cfg} {n i : Nat} {p p' : Pos} (h : BInv cfg n i p) (hi : i < n) (hn : n ≤ 64)
    (hc : p'.cfg = p.cfg) (hcc : p'.c = p.c)
    (hwb : (p'.white = p.white ||| bit i ∧ p'.black = p.black) ∨
           (p'.white = p.white ∧ p'.black = p.black ||| bit i) ∨
           (p'.white = p.white ∧ p'.black = p.black)) : BInv cfg n (i + 1) p' := by
  have hbit : ∀ k, (bit i).getLsbD k = decide (k = i) := fun k => bit_getLsbD i k (by omega)
  have hwi : p.white.getLsbD i = false := by
    cases hb : p.white.getLsbD i with
    | false => rfl
    | true => have := (h.white_lt i hb).1; omega
  have hbi : p.black.getLsbD i = false := by
    cases hb : p.black.getLsbD i with
    | false => rfl
    | true => have := (h.black_lt i hb).1; omega
  refine ⟨by rw [hc]; exact h.cfg_eq, by rw [hcc]; exact h.consts, ?_, ?_, ?_⟩
  · intro k hk
    rcases hwb with ⟨e, _⟩ | ⟨e, _⟩ | ⟨e, _⟩ <;> rw [e] at hk
    · simp only [BitVec.getLsbD_or, hbit, Bool.or_eq_true, decide_eq_true_eq] at hk
      rcases hk with hk | hk
      · have := h.white_lt k hk; omega
      · omega
    · have := h.white_lt k hk; omega
    · have := h.white_lt k hk; omega
  · intro k hk
    rcases hwb with ⟨_, e⟩ | ⟨_, e⟩ | ⟨_, e⟩ <;> rw [e] at hk
    · have := h.black_lt k hk; omega
    · simp only [BitVec.getLsbD_or, hbit, Bool.or_eq_true, decide_eq_true_eq] at hk
      rcases hk with hk | hk
      · have := h.black_lt k hk; omega
      · omega
    · have := h.black_lt k hk; omega
  · intro k ⟨hw, hb⟩
    rcases hwb with ⟨e1, e2⟩ | ⟨e1, e2⟩ | ⟨e1, e2⟩ <;> rw [e1] at hw <;> rw [e2] at hb
    · simp only [BitVec.getLsbD_or, hbit, Bool.or_eq_true, decide_eq_true_eq] at hw
      rcases hw with hw | hw
      · exact h.disjoint k ⟨hw, hb⟩
      · subst hw; rw [hbi] at hb; cases hb
    · simp only [BitVec.getLsbD_or, hbit, Bool.or_eq_true, decide_eq_true_eq] at hb
      rcases hb with hb | hb
      · exact h.disjoint k ⟨hw, hb⟩
      · subst hb; rw [hwi] at hw; cases hw
    · exact h.disjoint k ⟨hw, hb⟩

theorem BInv.weaken {cfg : Cfg} {n i : Nat} {p : Pos} (h : BInv cfg n i p) : BInv cfg n (i + 1) p :=
  ⟨h.cfg_eq, h.consts, fun k hk => by have := h.white_lt k hk; omega,
    fun k hk => by have := h.black_lt k hk; omega, h.disjoint⟩

/-- the two `switch` statements at the head of `FromSquares`' loop body -/
def colourSet (p : Pos) (i top : Nat) : Pos :=
  let tc := top &&& Facts.colorMask
  if tc == Facts.colorWhite then { p with white := p.white ||| bit i }
  else if tc == Facts.colorBlack then { p with black := p.black ||| bit i } else p

def kindSet (p : Pos) (i top : Nat) : Pos :=
  let tk := top &&& Facts.typeMask
  if tk == Facts.kindCapstone then { p with caps := p.caps ||| bit i }
  else if tk == Facts.kindStanding then { p with standing := p.standing ||| bit i } else p

theorem kindSet_frame (p : Pos) (i top : Nat) :
    (kindSet p i top).white = p.white ∧ (kindSet p i top).black = p.black ∧
    (kindSet p i top).c = p.c ∧ (kindSet p i top).cfg = p.cfg := by
  unfold kindSet; simp only; split
  · exact ⟨rfl, rfl, rfl, rfl⟩
  · split <;> exact ⟨rfl, rfl, rfl, rfl⟩

theorem colourSet_frame (p : Pos) (i top : Nat) :
    (colourSet p i top).c = p.c ∧ (colourSet p i top).cfg = p.cfg ∧
    (((colourSet p i top).white = p.white ||| bit i ∧ (colourSet p i top).black = p.black) ∨
     ((colourSet p i top).white = p.white ∧ (colourSet p i top).black = p.black ||| bit i) ∨
     ((colourSet p i top).white = p.white ∧ (colourSet p i top).black = p.black)) := by
  unfold colourSet; simp only; split
  · exact ⟨rfl, rfl, Or.inl ⟨rfl, rfl⟩⟩
  · split
    · exact ⟨rfl, rfl, Or.inr (Or.inl ⟨rfl, rfl⟩)⟩
    · exact ⟨rfl, rfl, Or.inr (Or.inr ⟨rfl, rfl⟩)⟩

theorem go_inv (basis : Array W) (cfg : Cfg) (n : Nat) (hn : n ≤ 64) :
    ∀ (rest : List (List Nat)) (i : Nat) (p q : Pos), BInv cfg n i p →
      Pos.fromSquares.go basis n i rest p = .ok q → ∃ i', BInv cfg n i' q := by
  intro rest
  induction rest with
  | nil => intro i p q hinv h; unfold Pos.fromSquares.go at h; injection h with h; subst h; exact ⟨i, hinv⟩
  | cons sq rest ih =>
    intro i p q hinv h
    unfold Pos.fromSquares.go at h
    split at h
    · injection h with h; subst h; exact ⟨i, hinv⟩
    · rename_i hi
      cases sq with
      | nil => simp only at h; exact ih _ _ _ hinv.weaken h
      | cons top tl =>
        simp only at h
        split at h
        · cases h
        · rename_i p3 hp3
          have hp3' : Pos.fromSquares.go.pieces i 0 (top :: tl) (kindSet (colourSet p i top) i top) = .ok p3 := hp3
          obtain ⟨a, b, c, d⟩ := pieces_frame _ _ _ _ _ hp3'
          obtain ⟨ka, kb, kc, kd⟩ := kindSet_frame (colourSet p i top) i top
          obtain ⟨cc, cd, cwb⟩ := colourSet_frame p i top
          refine ih _ _ _ ?_ h
          refine hinv.next (by omega) hn ?_ ?_ ?_
          · show p3.cfg = p.cfg
            rw [d, kd, cd]
          · show p3.c = p.c
            rw [c, kc, cc]
          · show (p3.white = _ ∧ p3.black = _) ∨ (p3.white = _ ∧ p3.black = _) ∨ (p3.white = _ ∧ p3.black = _)
            rw [a, b, ka, kb]
            exact cwb


theorem analyze_fields (p q : Pos) (h : p.analyze = some q) :
    q.cfg = p.cfg ∧ q.c = p.c ∧ q.white = p.white ∧ q.black = p.black ∧
    q.whiteStones = p.whiteStones ∧ q.whiteCaps = p.whiteCaps ∧
    q.blackStones = p.blackStones ∧ q.blackCaps = p.blackCaps := by
  unfold Pos.analyze at h
  simp only at h
  split at h
  · injection h with h; subst h; exact ⟨rfl, rfl, rfl, rfl, rfl, rfl, rfl, rfl⟩
  · cases h

theorem new_fields (cfg : Cfg) (p : Pos) (h : Pos.new cfg = .ok p) :
    SizeOK cfg.size ∧ p.cfg.size = cfg.size ∧ p.c = Gen.precompute cfg.size ∧
    p.white = 0#64 ∧ p.black = 0#64 := by
  unfold Pos.new at h
  split at h
  · cases h
  · simp only at h
    split at h
    · cases h
    · injection h with h
      subst h
      exact ⟨by unfold SizeOK; omega, rfl, rfl, rfl, rfl⟩

/-- **Constructed positions**: whatever `FromSquares` returns (for any input it accepts) satisfies the
invariant that the road / game-end theorems need. -/
theorem fromSquares_roadWF (basis : Array W) (cfg : Cfg) (board : List (List Nat)) (move : Int) (p : Pos)
    (h : Pos.fromSquares basis cfg board move = .ok p) : RoadWF p := by
  unfold Pos.fromSquares at h
  cases hnew : Pos.new cfg with
  | error e => rw [hnew] at h; cases h
  | ok p0 =>
    rw [hnew] at h
    simp only [bind, Except.bind] at h
    obtain ⟨hsz, hc0, hcc0, hw0, hb0⟩ := new_fields cfg p0 hnew
    have h64 := sq_le _ hsz
    split at h
    · cases h
    · cases hgo : Pos.fromSquares.go basis (cfg.size * cfg.size) 0 board { p0 with move := move } with
      | error e => rw [hgo] at h; cases h
      | ok p1 =>
        rw [hgo] at h
        simp only at h
        have hinv0 : BInv cfg (cfg.size * cfg.size) 0 { p0 with move := move } :=
          ⟨hc0, hcc0, fun k hk => by rw [show ({ p0 with move := move } : Pos).white = p0.white from rfl, hw0] at hk; simp at hk,
            fun k hk => by rw [show ({ p0 with move := move } : Pos).black = p0.black from rfl, hb0] at hk; simp at hk,
            fun k ⟨hk, _⟩ => by rw [show ({ p0 with move := move } : Pos).white = p0.white from rfl, hw0] at hk; simp at hk⟩
        obtain ⟨i', hinv⟩ := go_inv basis cfg _ h64 board 0 _ p1 hinv0 hgo
        split at h
        · rename_i q hq
          injection h with h; subst h
          obtain ⟨e1, e2, e3, e4, _⟩ := analyze_fields p1 _ hq
          have hsize : q.cfg.size = cfg.size := by rw [e1]; exact hinv.cfg_eq
          have hmask : ∀ k, q.c.Mask.getLsbD k = decide (k < cfg.size * cfg.size) := by
            intro k; rw [e2, hinv.consts]; exact Mask_bitN _ hsz k
          refine ⟨by rw [hsize]; exact hsz, by rw [e2, hsize]; exact hinv.consts, ?_, ?_, ?_,
            analyze_idem p1 _ hq⟩
          · intro k hk; rw [e3] at hk; rw [hmask]; simpa using (hinv.white_lt k hk).2
          · intro k hk; rw [e4] at hk; rw [hmask]; simpa using (hinv.black_lt k hk).2
          · apply BitVec.eq_of_getLsbD_eq; intro k _
            rw [e3, e4]
            simp only [BitVec.getLsbD_and, BitVec.getLsbD_zero]
            cases hwk : p1.white.getLsbD k with
            | false => rfl
            | true =>
              cases hbk : p1.black.getLsbD k with
              | false => rfl
              | true => exact absurd ⟨hwk, hbk⟩ (hinv.disjoint k)
        · cases h

end Roads
