import TakVerif.Proofs.AllMovesComplete

/-! # Shape of the generated moves (C03, part 4d): the direction from the list to the rules -/
namespace Tak.Proofs
open Tak Spec

/-- the colour test of `AllMoves` on the origin of a generated slide -/
theorem sqMoves_slide_bits (p : Pos) (x y : Nat) (m : Move) (hm : m ∈ sqMoves p x y)
    (h0 : p.height.getD (y * p.cfg.size + x) 0 ≠ 0#8) :
    (p.toMove = .white → p.white.getLsbD (y * p.cfg.size + x) = true) ∧
    (p.toMove = .black → p.black.getLsbD (y * p.cfg.size + x) = true) := by
  unfold sqMoves at hm
  simp only [] at hm
  have e0 : (p.height.getD (y * p.cfg.size + x) 0 == 0#8) = false := by simpa using h0
  rw [e0] at hm
  simp only [Bool.false_eq_true, if_false] at hm
  by_cases h1 : p.move < 2
  · simp [h1] at hm
  simp only [h1, if_false] at hm
  by_cases h2 : (p.toMove == Color.white) = true ∧ (!BitVec.getLsbD p.white (y * p.cfg.size + x)) = true
  · simp [h2] at hm
  simp only [h2, if_false] at hm
  by_cases h3 : (p.toMove == Color.black) = true ∧ (!BitVec.getLsbD p.black (y * p.cfg.size + x)) = true
  · simp [h3] at hm
  constructor
  · intro e
    cases hb : p.white.getLsbD (y * p.cfg.size + x)
    · exact absurd ⟨by simp [e], by simp [hb]⟩ h2
    · rfl
  · intro e
    cases hb : p.black.getLsbD (y * p.cfg.size + x)
    · exact absurd ⟨by simp [e], by simp [hb]⟩ h3
    · rfl

/-- shape of a generated slide: the drops are a composition of at most `min(height, size)`,
taken from a stack owned by the side to move, after the opening -/
def SlideShape (p : Pos) (m : Move) : Prop :=
  let i := m.y.toNat * p.cfg.size + m.x.toNat
  p.move ≥ 2 ∧ Slides.elems m.slides ≠ [] ∧ (∀ d ∈ Slides.elems m.slides, 1 ≤ d) ∧
  (Slides.elems m.slides).sum ≤ (p.height.getD i 0).toNat ∧ (Slides.elems m.slides).sum ≤ p.cfg.size ∧
  (p.toMove = .white → p.white.getLsbD i = true) ∧ (p.toMove = .black → p.black.getLsbD i = true)

/-- shape of a generated placement: on a square of height 0; walls and capstones only after the opening,
capstones only while the mover's capstone reserve byte is non-zero -/
def PlaceShape (p : Pos) (m : Move) : Prop :=
  let i := m.y.toNat * p.cfg.size + m.x.toNat
  p.height.getD i 0 = 0#8 ∧ m.slides = 0#32 ∧
  (m.type ≠ Facts.mtPlaceFlat → p.move ≥ 2) ∧
  (m.type = Facts.mtPlaceCapstone → capFlag p = true)

theorem allMoves_sound_shape' (p : Pos) (hs8 : p.cfg.size ≤ 8) (m : Move) (hm : m ∈ p.allMoves) :
    (m.isSlide = false ∧ PlaceShape p m) ∨ (m.isSlide = true ∧ SlideShape p m) := by
  have tc := types_cases
  rw [mem_allMoves] at hm
  obtain ⟨x, hx, y, hy, hm⟩ := hm
  obtain ⟨ex, ey⟩ := sqMoves_xy p x y m hm
  have ex' : m.x.toNat = x := by omega
  have ey' : m.y.toNat = y := by omega
  rcases mem_sqMoves p x y m hm with ⟨h0, h⟩ | ⟨h0, h2, h⟩
  · left
    rw [mem_placeMoves] at h
    unfold PlaceShape
    rw [ex', ey']
    rcases h with rfl | ⟨hp, rfl⟩ | ⟨hp, hc, rfl⟩
    · exact ⟨by simp [Move.isSlide, tc], h0, rfl, by simp, by simp [tc]⟩
    · exact ⟨by simp [Move.isSlide, tc], h0, rfl, fun _ => hp, by simp [tc]⟩
    · exact ⟨by simp [Move.isSlide, tc], h0, rfl, fun _ => hp, fun _ => hc⟩
  · right
    obtain ⟨hw, hb⟩ := sqMoves_slide_bits p x y m hm h0
    rw [mem_slideMoves] at h
    obtain ⟨dc, hdc, s, hs, _, rfl⟩ := h
    have hc := carryAt_le p (y * p.cfg.size + x)
    obtain ⟨hne, hp, hsum, _⟩ := (slides_table _ (by omega) s).1 hs
    constructor
    · rw [mem_dirList] at hdc
      rcases hdc with rfl | rfl | rfl | rfl <;> simp [Move.isSlide, tc]
    · unfold SlideShape
      simp only [] at ex' ey' ⊢
      rw [ex', ey']
      refine ⟨h2, hne, fun d hd => (hp d hd).1, ?_, by omega, hw, hb⟩
      unfold carryAt at hsum
      split at hsum <;> omega

end Tak.Proofs
