import TakVerif.Proofs.HeapInv

/-! C09, layer 4: the heap interpreter refines the value interpreter, op by op. -/
namespace Tak

/-- every live position's header arrays are its own (see `SepWith`) -/
def Separated (s : HState) : Prop := ∃ owner, SepWith owner s.heap s.live

/-- the heap state represents the pure state: same handles, and every handle that denotes a value on the
pure side is live on the heap side and observes exactly that value -/
structure Refines (s : HState) (ps : PState) : Prop where
  size : ps.size = s.heap.objs.size
  live : ∀ i, i ∈ s.live ↔ ∃ p, ps.get i = some p
  obs : ∀ i p, ps.get i = some p → s.heap.observe i = some p

/-! ### `PState.get` -/

theorem PState.get_push (ps : PState) (v : Option Pos) (i : Nat) :
    PState.get (ps.push v) i = if i = ps.size then v else ps.get i := by
  simp only [PState.get, Array.getElem?_push]
  split <;> simp

theorem PState.get_set (ps : PState) (b : Nat) (v : Option Pos) (i : Nat) :
    PState.get (ps.setIfInBounds b v) i = if i = b ∧ b < ps.size then v else ps.get i := by
  simp only [PState.get, Array.getElem?_setIfInBounds]
  by_cases hb : b = i
  · subst hb
    by_cases hlt : b < ps.size <;> simp [hlt]
  · have : ¬ i = b := fun e => hb e.symm
    simp [hb, this]

theorem PState.get_lt {ps : PState} {i : Nat} {p : Pos} (h : ps.get i = some p) : i < ps.size := by
  unfold PState.get at h
  cases hi : ps[i]? with
  | none => rw [hi] at h; cases h
  | some v =>
    rcases Array.getElem?_eq_some_iff.mp hi with ⟨hlt, _⟩
    exact hlt

theorem Heap.observe_some {h : Heap} {i : Nat} {p : Pos} (ho : h.observe i = some p) :
    ∃ o, h.objs[i]? = some o ∧ p = { o.val with wgroups := h.readSlice o.wg, bgroups := h.readSlice o.bg } := by
  unfold Heap.observe at ho
  cases hi : h.objs[i]? with
  | none => rw [hi] at ho; cases ho
  | some o => rw [hi] at ho; cases ho; exact ⟨o, rfl, rfl⟩

/-! ### assembling `Refines` after an op -/

theorem Refines.push_some {h h' : Heap} {live : List Nat} {ps : PState} {r : Pos} (R : Refines ⟨h, live⟩ ps)
    (hsz : h'.objs.size = h.objs.size + 1)
    (hpres : ∀ j, j ∈ live → h'.observe j = h.observe j)
    (hnew : h'.observe h.objs.size = some r) :
    Refines ⟨h', h.objs.size :: live⟩ (ps.push (some r)) := by
  have hs := R.size
  simp only at hs
  refine ⟨by simp [hsz, hs], fun i => ?_, fun i p hp => ?_⟩
  · simp only [List.mem_cons, PState.get_push, hs]
    by_cases hi : i = h.objs.size
    · simp [hi]
    · simp only [hi, false_or, if_false]; exact R.live i
  · rw [PState.get_push, hs] at hp
    by_cases hi : i = h.objs.size
    · rw [if_pos hi] at hp; cases hp; rw [hi]; exact hnew
    · rw [if_neg hi] at hp
      show h'.observe i = some p
      rw [hpres i ((R.live i).mpr ⟨p, hp⟩)]
      exact R.obs i p hp

theorem Refines.push_none {h h' : Heap} {live : List Nat} {ps : PState} (R : Refines ⟨h, live⟩ ps)
    (hsz : h'.objs.size = h.objs.size + 1)
    (hpres : ∀ j, j ∈ live → h'.observe j = h.observe j) :
    Refines ⟨h', live⟩ (ps.push none) := by
  have hs := R.size
  simp only at hs
  have hlive : ∀ i, i ∈ live → i ≠ h.objs.size := by
    intro i hi e
    obtain ⟨p, hp⟩ := (R.live i).mp hi
    have := PState.get_lt hp
    omega
  refine ⟨by simp [hsz, hs], fun i => ?_, fun i p hp => ?_⟩
  · simp only [PState.get_push, hs]
    by_cases hi : i = h.objs.size
    · simp only [hi, if_true]
      constructor
      · intro hm; exact absurd rfl (hlive _ hm)
      · rintro ⟨p, hp⟩; cases hp
    · simp only [hi, if_false]; exact R.live i
  · rw [PState.get_push, hs] at hp
    by_cases hi : i = h.objs.size
    · rw [if_pos hi] at hp; cases hp
    · rw [if_neg hi] at hp
      show h'.observe i = some p
      rw [hpres i ((R.live i).mpr ⟨p, hp⟩)]
      exact R.obs i p hp

theorem mem_filter_ne {live : List Nat} {b i : Nat} : i ∈ live.filter (· != b) ↔ i ∈ live ∧ i ≠ b := by
  simp [List.mem_filter]

theorem Refines.set_some {h h' : Heap} {live : List Nat} {ps : PState} {r : Pos} {b : Nat} (R : Refines ⟨h, live⟩ ps)
    (hb : b < h.objs.size) (hsz : h'.objs.size = h.objs.size)
    (hpres : ∀ j, j ∈ live.filter (· != b) → h'.observe j = h.observe j)
    (hnew : h'.observe b = some r) :
    Refines ⟨h', b :: live.filter (· != b)⟩ (ps.setIfInBounds b (some r)) := by
  have hs := R.size
  simp only at hs
  refine ⟨by simp [hsz, hs], fun i => ?_, fun i p hp => ?_⟩
  · simp only [List.mem_cons, PState.get_set, hs, mem_filter_ne]
    by_cases hi : i = b
    · simp [hi, hb]
    · simp only [hi, false_and, if_false, false_or, ne_eq, not_false_eq_true, and_true]; exact R.live i
  · rw [PState.get_set, hs] at hp
    by_cases hi : i = b
    · rw [if_pos ⟨hi, hb⟩] at hp; cases hp; rw [hi]; exact hnew
    · rw [if_neg (fun e => hi e.1)] at hp
      show h'.observe i = some p
      rw [hpres i (mem_filter_ne.mpr ⟨(R.live i).mpr ⟨p, hp⟩, hi⟩)]
      exact R.obs i p hp

theorem Refines.set_none {h h' : Heap} {live : List Nat} {ps : PState} {b : Nat} (R : Refines ⟨h, live⟩ ps)
    (hb : b < h.objs.size) (hsz : h'.objs.size = h.objs.size)
    (hpres : ∀ j, j ∈ live.filter (· != b) → h'.observe j = h.observe j) :
    Refines ⟨h', live.filter (· != b)⟩ (ps.setIfInBounds b none) := by
  have hs := R.size
  simp only at hs
  refine ⟨by simp [hsz, hs], fun i => ?_, fun i p hp => ?_⟩
  · simp only [PState.get_set, hs, mem_filter_ne]
    by_cases hi : i = b
    · simp [hi, hb]
    · simp only [hi, false_and, if_false, ne_eq, not_false_eq_true, and_true]; exact R.live i
  · rw [PState.get_set, hs] at hp
    by_cases hi : i = b
    · rw [if_pos ⟨hi, hb⟩] at hp; cases hp
    · rw [if_neg (fun e => hi e.1)] at hp
      show h'.observe i = some p
      rw [hpres i (mem_filter_ne.mpr ⟨(R.live i).mpr ⟨p, hp⟩, hi⟩)]
      exact R.obs i p hp

/-! ### the building blocks shared by the ops -/

theorem Refines.not_live_size {h : Heap} {live : List Nat} {ps : PState} (R : Refines ⟨h, live⟩ ps) :
    h.objs.size ∉ live := by
  intro hm
  obtain ⟨p, hp⟩ := (R.live _).mp hm
  have := PState.get_lt hp
  have := R.size
  simp only at this
  omega

/-- `alloc(tpl)` followed by `analyze()` (FromSquares' tail, Clone): a new live handle observing `analyze(tpl)` -/
theorem SepWith.alloc_analyze {owner h live} {ps : PState} (S : SepWith owner h live) (R : Refines ⟨h, live⟩ ps)
    (v : Pos) (b : Slice) {r : Pos} (hr : v.analyze = some r) :
    ∃ h', (h.allocFrom v b).1.analyze h.objs.size = some h' ∧ Separated ⟨h', h.objs.size :: live⟩ ∧
      Refines ⟨h', h.objs.size :: live⟩ (ps.push (some r)) := by
  have S1 := S.allocFrom v b
  have ho1 : (h.allocFrom v b).1.objs[h.objs.size]? = some ⟨v, ⟨h.arrs.size, 0, 0, 2 * v.cfg.size⟩, b, h.arrs.size⟩ := by
    rw [Heap.allocFrom_fst_objs]; simp
  obtain ⟨h', han, S', hobs, hsz, hpres⟩ := S1.analyze ho1 R.not_live_size hr
  refine ⟨h', han, ⟨_, S'⟩, R.push_some ?_ (fun j hj => ?_) hobs⟩
  · rw [hsz, Heap.allocFrom_fst_objs]; simp
  · rw [hpres j hj]; exact S.observe_allocFrom v b hj

theorem Heap.analyze_none {h : Heap} {t : Nat} {o : PObj} (ho : h.objs[t]? = some o) (hr : o.val.analyze = none) :
    h.analyze t = none := by
  simp only [Pos.analyze] at hr
  simp only [Heap.analyze, ho]
  split at hr
  · cases hr
  · rename_i hno
    split
    · rename_i wl bl hw hb
      exact absurd hb (hno wl bl hw)
    · rfl

theorem Heap.alloc_analyze_none (h : Heap) (v : Pos) (b : Slice) (hr : v.analyze = none) :
    (h.allocFrom v b).1.analyze h.objs.size = none := by
  have ho1 : (h.allocFrom v b).1.objs[h.objs.size]? = some ⟨v, ⟨h.arrs.size, 0, 0, 2 * v.cfg.size⟩, b, h.arrs.size⟩ := by
    rw [Heap.allocFrom_fst_objs]; simp
  exact Heap.analyze_none ho1 hr

/-- the tail of a successful `MovePreallocated`: store the new scalars/Height/Stacks into the (non-live)
target, then `analyze()` it -/
theorem SepWith.set_val_analyze {owner h live} (S : SepWith owner h live) {t : Nat} {o : PObj} {q : Pos}
    (ho : h.objs[t]? = some o) (ht : t ∉ live) (hq : q.analyze = some q) :
    ∃ h', Heap.analyze { h with objs := h.objs.setIfInBounds t { o with val := q } } t = some h' ∧
      (∃ owner', SepWith owner' h' (t :: live)) ∧ h'.observe t = some q ∧ h'.objs.size = h.objs.size ∧
      ∀ j, j ∈ live → h'.observe j = h.observe j := by
  have hw := (S.wg t o ho).2
  have S2 := S.setObj (o' := { o with val := q }) ho ht rfl rfl rfl hw.len
  have tlt := Heap.lt_size_of_getElem? ho
  have ho2 : (Heap.objs { h with objs := h.objs.setIfInBounds t { o with val := q } })[t]? = some { o with val := q } := by
    simp [tlt]
  obtain ⟨h', han, S', hobs, hsz, hpres⟩ := S2.analyze ho2 ht hq
  refine ⟨h', han, ⟨_, S'⟩, hobs, by rw [hsz]; simp, fun j hj => ?_⟩
  rw [hpres j hj]
  exact Heap.observe_setObj_ne h t j _ (fun e => ht (e ▸ hj))

end Tak
