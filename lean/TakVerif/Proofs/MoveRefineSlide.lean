import TakVerif.Proofs.SlideSim

/-! C01, slide moves: `Pos.apply` agrees with `Spec.step` and preserves `WF` (below the 64-piece limit). -/
namespace Tak
open Spec (abs decode)

theorem foldl_add (l : List Nat) (a : Nat) : l.foldl (· + ·) a = a + l.foldl (· + ·) 0 := by
  induction l generalizing a with
  | nil => simp
  | cons x xs ih => simp only [List.foldl_cons]; rw [ih (a + x), ih (0 + x)]; omega

/-- the whole drop loop: same verdict, and on success the final states are in simulation -/
theorem slideLoop_sim {basis : Array W} {p : Pos} {top : Piece} {stack : W} {d : Spec.Dir} (hp8 : p.cfg.size ≤ 8)
    (drops : List Nat) {st : SlideSt} {s : Spec.State} (hsim : Sim basis p st.next s)
    (hsum : drops.foldl (· + ·) 0 = st.ct) :
    match slideLoop basis p top stack d.dx d.dy drops st,
          Spec.dropLoop s st.x st.y d (carriedList top stack st.ct) drops with
    | .error (.illegal _), none => True
    | .ok st', some s' => Sim basis p st'.next s'
    | _, _ => False := by
  induction drops generalizing st s with
  | nil =>
    simp only [slideLoop, dropLoop_nil]
    have : st.ct = 0 := by simpa using hsum.symm
    rw [this]
    exact hsim
  | cons c cs ih =>
    rw [dropLoop_cons]
    simp only [slideLoop]
    have hstep := slideStep_sim (top := top) (stack := stack) (d := d) hp8 hsim c
    cases hms : slideStep basis p top stack d.dx d.dy st c with
    | error e =>
      cases hds : dropStep s st.x st.y d (carriedList top stack st.ct) c with
      | none =>
        rw [hms, hds] at hstep
        cases e <;> first | trivial | exact hstep
      | some r =>
        rw [hms, hds] at hstep
        obtain ⟨s', x', y', carried'⟩ := r
        cases e <;> exact hstep.elim
    | ok st' =>
      cases hds : dropStep s st.x st.y d (carriedList top stack st.ct) c with
      | none => rw [hms, hds] at hstep; exact hstep.elim
      | some r =>
        obtain ⟨s', x', y', carried'⟩ := r
        rw [hms, hds] at hstep
        obtain ⟨hsim', rfl, rfl, rfl, hct⟩ := hstep
        dsimp only
        apply ih hsim'
        simp only [List.foldl_cons] at hsum
        rw [foldl_add] at hsum
        omega

theorem step_slide_none (s : Spec.State) (x y : Int) (d : Spec.Dir) (drops : List Nat)
    (h : s.ply < 2 ∨ s.onBoard x y = false ∨ drops.isEmpty = true ∨ drops.any (· == 0) = true ∨
         drops.foldl (· + ·) 0 > s.size ∨ drops.foldl (· + ·) 0 > (s.at x y).length ∨
         (∀ t tl, s.at x y = t :: tl → t.color ≠ s.toMove)) :
    Spec.step s (.slide x y d drops) = none := by
  simp only [Spec.step]
  split
  · rfl
  split
  · rfl
  split
  · rfl
  split
  · rfl
  rename_i h1 h2 h3 h4
  split
  · rfl
  · rename_i t tl hat
    split
    · rfl
    · rename_i hcol
      exfalso
      rcases h with h | h | h | h | h | h | h
      · exact h1 h
      · simp [h] at h2
      · exact h3 (.inl h)
      · exact h3 (.inr h)
      · exact h4 (.inl h)
      · exact h4 (.inr h)
      · exact h t tl hat (by simpa using hcol)

theorem step_slide_ok (s : Spec.State) (x y : Int) (d : Spec.Dir) (drops : List Nat) (t : Piece) (tl : List Piece)
    (h1 : ¬ s.ply < 2) (h2 : s.onBoard x y = true) (h3 : drops.isEmpty = false) (h4 : drops.any (· == 0) = false)
    (h5 : drops.foldl (· + ·) 0 ≤ s.size) (h6 : drops.foldl (· + ·) 0 ≤ (s.at x y).length)
    (hat : s.at x y = t :: tl) (hcol : t.color = s.toMove) :
    Spec.step s (.slide x y d drops) =
      (Spec.dropLoop (s.setAt x y ((s.at x y).drop (drops.foldl (· + ·) 0))) x y d
        ((s.at x y).take (drops.foldl (· + ·) 0)) drops).map (fun s => { s with ply := s.ply + 1 }) := by
  simp only [Spec.step]
  rw [if_neg h1, if_neg (by simp [h2]), if_neg (by simp [h3, h4]), if_neg (by omega)]
  generalize hsq : s.at x y = sq at hat ⊢
  subst hat
  simp only [hcol, ne_eq, not_true_eq_false, if_false]
  cases Spec.dropLoop _ x y d _ drops <;> rfl

/-- the move-type code of a slide in direction `d` -/
def slideCode : Spec.Dir → Nat
  | .left => Facts.mtSlideLeft
  | .right => Facts.mtSlideRight
  | .up => Facts.mtSlideUp
  | .down => Facts.mtSlideDown

theorem decode_slide (m : Move) (d : Spec.Dir) (h : m.type = slideCode d) :
    decode m = .slide m.x m.y d (Slides.elems m.slides) := by
  cases d <;> simp [decode, h, slideCode, Facts.mtPlaceFlat, Facts.mtPlaceStanding, Facts.mtPlaceCapstone,
    Facts.mtSlideLeft, Facts.mtSlideRight, Facts.mtSlideUp, Facts.mtSlideDown]

theorem apply_slide_eq (basis : Array W) (p : Pos) (m : Move) (d : Spec.Dir) (h : m.type = slideCode d) :
    Pos.apply basis p m =
      if p.move < 2 then .error (.illegal "illegal opening")
      else if m.x < 0 ∨ m.x ≥ (p.cfg.size : Int) ∨ m.y < 0 ∨ m.y ≥ (p.cfg.size : Int) then .error (.illegal "off board")
      else slideFrom basis p { p with move := p.move + 1 } m (m.x + m.y * (p.cfg.size : Int)).toNat d.dx d.dy := by
  unfold Pos.apply dispatch openingRule
  by_cases ho : p.move < 2 <;> cases d <;>
    simp [h, ho, slideCode, Facts.mtPass, Facts.mtPlaceFlat, Facts.mtPlaceStanding, Facts.mtPlaceCapstone,
      Facts.mtSlideLeft, Facts.mtSlideRight, Facts.mtSlideUp, Facts.mtSlideDown, Spec.Dir.dx, Spec.Dir.dy]

/-- the simulation holds right after lifting the carried pieces off the origin -/
theorem Sim.init {basis : Array W} {p : Pos} (hwf : WF basis p) (x y : Int)
    (hi : (x + y * (p.cfg.size : Int)).toNat < p.cfg.size * p.cfg.size) (top : Piece)
    (htop : (p.cell (x + y * (p.cfg.size : Int)).toNat).top = some top) (ct : Nat) (h1 : 1 ≤ ct) (h8 : ct ≤ 8)
    (hh : ct ≤ (p.height.getD (x + y * (p.cfg.size : Int)).toNat 0).toNat) :
    Sim basis p
      (liftFrom basis { p with move := p.move + 1 } ((p.cell (x + y * (p.cfg.size : Int)).toNat).stackWord top)
        (p.height.getD (x + y * (p.cfg.size : Int)).toNat 0).toNat ct (x + y * (p.cfg.size : Int)).toNat)
      ((abs p).setAt x y ((p.cell (x + y * (p.cfg.size : Int)).toNat).square.drop ct)) := by
  generalize hidx : (x + y * (p.cfg.size : Int)).toNat = i at *
  have h64 : i < 64 := by have := hwf.toFrame.n_le; omega
  have hhs : i < p.height.size := by rw [hwf.height_size]; exact hi
  have hss : i < p.stacks.size := by rw [hwf.stacks_size]; exact hi
  have hcell := liftFrom_cell basis { p with move := p.move + 1 } ((p.cell i).stackWord top) ct i h64 hhs hss
  have hsq : ((abs p).setAt x y ((p.cell i).square.drop ct)).squares =
      (abs p).squares.set i ((p.cell i).square.drop ct) := by
    rw [setAt_squares (abs p) x y _ p.cfg.size rfl, hidx]
  refine { scalars := ?_, height_size := ?_, stacks_size := ?_, hash := ?_, s_scalars := rfl, s_len := ?_,
           cells := ?_, outside := ?_ }
  · rw [liftFrom_scalars]
  · rw [liftFrom_eq]; simp only [Pos.setStack, Array.size_setIfInBounds]; exact hwf.height_size
  · rw [liftFrom_eq]; simp only [Pos.setStack, Array.size_setIfInBounds]; exact hwf.stacks_size
  · rw [liftFrom_eq]; exact HashOK.setStack (hwf.hash.congr rfl rfl rfl) i _ _
  · rw [hsq, List.length_set, abs_squares_length]
  · intro j hj
    have := hcell j
    rw [show ({ p with move := p.move + 1 } : Pos).height.getD i 0 = p.height.getD i 0 from rfl] at this
    rw [this, hsq, getD_set]
    by_cases hji : j = i
    · subst hji
      simp only [if_true, true_and]
      rw [if_pos (by rw [abs_squares_length]; exact hi)]
      have hc : (p.cell j).WF := hwf.cell j
      have hhh : ct ≤ (p.cell j).h.toNat := hh
      rw [← Cell.lift_square hc htop ct h1 hhh (by omega)]
      exact CellSim.of_wf (Cell.lift_wf hc _ ct h1 hhh)
    · simp only [hji, if_false, false_and]
      rw [abs_squares_getD p j hj]
      exact CellSim.of_wf (hwf.cell j)
  · intro j hj
    have hji : j ≠ i := by omega
    have := hcell j
    rw [show ({ p with move := p.move + 1 } : Pos).height.getD i 0 = p.height.getD i 0 from rfl] at this
    rw [this]
    simp only [hji, if_false]
    rfl

/-- at the end of the loop, if no stack of the rule-book state exceeds 64 pieces, the model's position is
well-formed and abstracts to that state -/
theorem Sim.final {basis : Array W} {p next : Pos} {s' : Spec.State} (hwf : WF basis p) (hsim : Sim basis p next s')
    (hlim : ∀ j, j < p.cfg.size * p.cfg.size → (s'.squares.getD j []).length ≤ 64) :
    WF basis next ∧ abs next = { s' with ply := s'.ply + 1 } := by
  have hsc := hsim.scalars
  simp only [Pos.scalars, Prod.mk.injEq] at hsc
  obtain ⟨hcfg, hc, hws, hwc, hbs, hbc, hmv⟩ := hsc
  have hss := hsim.s_scalars
  simp only [sscalars, Prod.mk.injEq] at hss
  obtain ⟨s1, s2, s3, s4, s5, s6, s7⟩ := hss
  constructor
  · refine { size_ge := by rw [hcfg]; exact hwf.size_ge, size_le := by rw [hcfg]; exact hwf.size_le,
             consts := by rw [hc, hcfg]; exact hwf.consts,
             height_size := by rw [hcfg]; exact hsim.height_size,
             stacks_size := by rw [hcfg]; exact hsim.stacks_size,
             cell := ?_, hash := hsim.hash, move_nonneg := by rw [hmv]; have := hwf.move_nonneg; omega }
    intro j
    by_cases hj : j < p.cfg.size * p.cfg.size
    · exact ((hsim.cells j hj).2.2 (hlim j hj)).1
    · rw [hsim.outside j (by omega)]; exact hwf.cell j
  · apply State_ext
    · show next.cfg.size = s'.size; rw [hcfg, s1]; rfl
    · show next.cfg.blackWinsTies = s'.blackWinsTies; rw [hcfg, s2]; rfl
    · apply squares_ext
      · rw [hcfg]; exact hsim.s_len
      · intro j hj
        rw [hcfg] at hj
        exact ((hsim.cells j hj).2.2 (hlim j hj)).2
    · show next.move = s'.ply + 1; rw [hmv, s3]; rfl
    · show next.whiteStones.toNat = s'.whiteStones; rw [hws, s4]; rfl
    · show next.whiteCaps.toNat = s'.whiteCaps; rw [hwc, s5]; rfl
    · show next.blackStones.toNat = s'.blackStones; rw [hbs, s6]; rfl
    · show next.blackCaps.toNat = s'.blackCaps; rw [hbc, s7]; rfl

end Tak
