import TakVerif.Proofs.FPAFrameRule

/-! The frame property of the cairn variant: every move the cairn rule scripts from ply 2 on, and every legal
move it accepts at plies 2..5, is `MoveNear`. -/
set_option linter.unusedSimpArgs false
set_option linter.unusedVariables false
namespace Proofs.FPAFrame
open Tak Tak.FPA Spec Spec.FPA Proofs.FPA Proofs.FPAMini Proofs.FPAFast

/-! ### scripted moves -/

theorem adjacent_mid_cases (v : View) (x y : Int) (h : adjacent v (mid v) (mid v) = .ok (x, y)) :
    ∃ dx dy : Int, x = mid v + dx ∧ y = mid v + dy ∧
      ((dx = -1 ∧ dy = 0) ∨ (dx = 0 ∧ dy = -1) ∨ (dx = 1 ∧ dy = 0) ∨ (dx = 0 ∧ dy = 1)) := by
  unfold adjacent adjacentAvoiding at h
  simp only [] at h
  split at h
  · cases h; exact ⟨-1, 0, by omega, by omega, by omega⟩
  · split at h
    · cases h; exact ⟨0, -1, by omega, by omega, by omega⟩
    · split at h
      · cases h; exact ⟨1, 0, by omega, by omega, by omega⟩
      · split at h
        · cases h; exact ⟨0, 1, by omega, by omega, by omega⟩
        · cases h

theorem cairnBlackSquare_ok (v : View) (wx wy : Int) (m : Tak.Move) : ∀ l : List (Int × Int),
    cairnBlackSquare v wx wy l = .ok m → m.type = Facts.mtPlaceFlat ∧ isCenterAdjacent v m.x m.y = true := by
  intro l
  induction l with
  | nil => intro h; cases h
  | cons o rest ih =>
    obtain ⟨ox, oy⟩ := o
    intro h
    simp only [cairnBlackSquare] at h
    split at h
    · exact ih h
    · split at h
      · rename_i hc
        cases h
        simp only [Bool.and_eq_true] at hc
        exact ⟨rfl, hc.2⟩
      · exact ih h

theorem cairnWhiteSlide_ok (v : View) (r : Rule) (m : Tak.Move) : ∀ l : List Nat,
    (∀ ty ∈ l, ty ≥ Facts.mtSlideLeft) →
    cairnWhiteSlide v r l = .ok m →
      m.isSlide = true ∧ m.slides = slide1 ∧ ∃ dx dy, m.dest = some (dx, dy) ∧ isCentered v dx dy = true := by
  intro l
  induction l with
  | nil => intro _ h; cases h
  | cons ty rest ih =>
    intro hl h
    simp only [cairnWhiteSlide] at h
    split at h
    · cases h
    · rename_i dx dy hd
      split at h
      · rename_i hc
        cases h
        simp only [Bool.and_eq_true] at hc
        refine ⟨?_, rfl, dx, dy, hd, hc.1⟩
        unfold Move.isSlide
        exact decide_eq_true (hl ty (by simp))
      · exact ih (fun t ht => hl t (by simp [ht])) h

theorem slide1_len : Slides.len slide1 = 1 := by decide

/-- a one-step slide onto a centre square starts on a near square -/
theorem near_of_slide1 (n : Nat) (h64 : n ≤ 64) (m : Tak.Move) (hs : m.isSlide = true) (hl : Slides.len m.slides = 1)
    (dx dy : Int) (hd : m.dest = some (dx, dy)) (hc : isCentered (coreView n) dx dy = true)
    (hb : onB n m.x m.y = true) : nearS n m.x m.y = true := by
  rcases slide_decode m hs with ⟨_, hnone⟩ | ⟨d, _, hdest⟩
  · rw [hnone] at hd; cases hd
  · rw [hdest n h64 hb, hl] at hd
    cases hd
    apply near_of_step n d
    simpa using hc

theorem distance_one (wx wy bx by' : Int) (n : Nat) (h64 : n ≤ 64)
    (hw : 0 ≤ wx ∧ wx < n ∧ 0 ≤ wy ∧ wy < n) (hb : 0 ≤ bx ∧ bx < n ∧ 0 ≤ by' ∧ by' < n)
    (h : distance wx wy bx by' = 1) :
    (wx = bx + 1 ∧ wy = by') ∨ (wx = bx - 1 ∧ wy = by') ∨ (wx = bx ∧ wy = by' + 1) ∨ (wx = bx ∧ wy = by' - 1) := by
  unfold distance abs8 wrap8 at h
  split at h <;> split at h <;> omega

theorem centered_onB (n : Nat) (h4 : 4 ≤ n) (x y : Int) (h : isCentered (coreView n) x y = true) :
    0 ≤ x ∧ x < n ∧ 0 ≤ y ∧ y < n := by
  rw [centered_iff] at h
  omega

/-- **every move the cairn rule scripts from ply 2 on is near** -/
theorem scripted_near (r : Rule) (v : View) (m : Tak.Move) (h4 : 4 ≤ v.size) (h64 : v.size ≤ 64) (h2 : 2 ≤ v.ply)
    (h5 : v.ply = 5 → isCentered v r.whitePlaceX r.whitePlaceY = true ∧
      distance r.whitePlaceX r.whitePlaceY r.blackPlaceX r.blackPlaceY = 1)
    (hg : getMove .cairn r v = .ok (some m)) : MoveNear v.size m := by
  unfold getMove at hg
  simp only [] at hg
  by_cases p2 : v.ply = 2
  · rw [if_pos p2] at hg
    cases ha : adjacent v (mid v) (mid v) with
    | error e => rw [ha] at hg; cases hg
    | ok xy =>
      obtain ⟨x, y⟩ := xy
      rw [ha] at hg
      simp only [bind, Except.bind] at hg
      cases hg
      obtain ⟨dx, dy, rfl, rfl, hd⟩ := adjacent_mid_cases v x y ha
      have hm : mid v = ((v.size / 2 : Nat) : Int) := rfl
      have hn := mid_neighbours v.size h4 dx dy hd
      rw [← hm] at hn
      have hb := (onB_iff _ _ _).1 hn.1
      have e1 : wrap8 (mid v + dx) = mid v + dx := by unfold wrap8; omega
      have e2 : wrap8 (mid v + dy) = mid v + dy := by unfold wrap8; omega
      left
      refine ⟨rfl, ?_⟩
      show nearS v.size (wrap8 (mid v + dx)) (wrap8 (mid v + dy)) = true
      rw [e1, e2]
      exact hn.2
  rw [if_neg p2] at hg
  by_cases p3 : v.ply = 3
  · rw [if_pos p3] at hg
    split at hg
    · rename_i m' hm'
      cases hg
      obtain ⟨ht, hadj⟩ := cairnBlackSquare_ok v _ _ _ _ hm'
      left
      refine ⟨ht, ?_⟩
      rw [nearS_iff]; left; rw [← isCenterAdjacent_core]; exact hadj
    · cases hg
  rw [if_neg p3] at hg
  by_cases p4 : v.ply = 4
  · rw [if_pos p4] at hg
    split at hg
    · rename_i m' hm'
      cases hg
      obtain ⟨hs, hsl, dx, dy, hd, hc⟩ := cairnWhiteSlide_ok v r _ _ (by
        intro ty hty
        simp only [List.mem_cons, List.mem_nil_iff, or_false] at hty
        rcases hty with rfl | rfl | rfl | rfl <;> decide) hm'
      right
      refine ⟨hs, fun hb => ⟨?_, dx, dy, hd, hc⟩⟩
      exact near_of_slide1 v.size h64 _ hs (by rw [hsl]; exact slide1_len) dx dy hd hc hb
    · cases hg
  rw [if_neg p4] at hg
  by_cases p5 : v.ply = 5
  · rw [if_pos p5] at hg
    obtain ⟨hcw, hdist⟩ := h5 p5
    cases hdir : dir r.blackPlaceX r.blackPlaceY r.whitePlaceX r.whitePlaceY with
    | error e => rw [hdir] at hg; cases hg
    | ok ty =>
      rw [hdir] at hg
      simp only [bind, Except.bind] at hg
      cases hg
      have hty : ty ≥ Facts.mtSlideLeft := by
        unfold dir at hdir
        split at hdir
        · cases hdir; decide
        · split at hdir
          · cases hdir; decide
          · split at hdir
            · cases hdir; decide
            · split at hdir
              · cases hdir; decide
              · cases hdir
      have hs : Move.isSlide ⟨r.blackPlaceX, r.blackPlaceY, ty, slide1⟩ = true := by
        unfold Move.isSlide; exact decide_eq_true hty
      right
      refine ⟨hs, fun hb => ?_⟩
      have hbb := (onB_iff _ _ _).1 hb
      simp only [] at hbb
      have hww := centered_onB v.size h4 _ _ hcw
      have hone := distance_one _ _ _ _ v.size h64 hww hbb hdist
      have hdest : Move.dest ⟨r.blackPlaceX, r.blackPlaceY, ty, slide1⟩ = some (r.whitePlaceX, r.whitePlaceY) := by
        unfold dir at hdir
        have hl : ((Slides.len slide1 : Nat) : Int) = 1 := by rw [slide1_len]; rfl
        split at hdir
        · cases hdir
          simp only [Move.dest, hl]
          have : wrap8 (r.blackPlaceX + 1) = r.blackPlaceX + 1 := by unfold wrap8; omega
          simp [Facts.mtPlaceFlat, Facts.mtPlaceStanding, Facts.mtPlaceCapstone, Facts.mtSlideLeft, Facts.mtSlideRight, this]
          omega
        · split at hdir
          · cases hdir
            simp only [Move.dest, hl]
            have : wrap8 (r.blackPlaceX - 1) = r.blackPlaceX - 1 := by unfold wrap8; omega
            simp [Facts.mtPlaceFlat, Facts.mtPlaceStanding, Facts.mtPlaceCapstone, Facts.mtSlideLeft, Facts.mtSlideRight, this]
            omega
          · split at hdir
            · cases hdir
              simp only [Move.dest, hl]
              have : wrap8 (r.blackPlaceY + 1) = r.blackPlaceY + 1 := by unfold wrap8; omega
              simp [Facts.mtPlaceFlat, Facts.mtPlaceStanding, Facts.mtPlaceCapstone, Facts.mtSlideLeft, Facts.mtSlideRight, Facts.mtSlideUp, this]
              omega
            · split at hdir
              · cases hdir
                simp only [Move.dest, hl]
                have : wrap8 (r.blackPlaceY - 1) = r.blackPlaceY - 1 := by unfold wrap8; omega
                simp [Facts.mtPlaceFlat, Facts.mtPlaceStanding, Facts.mtPlaceCapstone, Facts.mtSlideLeft, Facts.mtSlideRight, Facts.mtSlideUp, Facts.mtSlideDown, this]
                omega
              · cases hdir
      refine ⟨?_, _, _, hdest, hcw⟩
      exact near_of_slide1 v.size h64 _ hs slide1_len _ _ hdest hcw hb
  · rw [if_neg p5] at hg
    cases hg

/-! ### accepted moves -/

theorem foldl_add_ge (l : List Nat) : ∀ acc : Nat, (∀ e ∈ l, 1 ≤ e) → acc + l.length ≤ l.foldl (· + ·) acc := by
  induction l with
  | nil => intro acc _; simp
  | cons a rest ih =>
    intro acc h
    have h1 := h a (by simp)
    have h2 := ih (acc + a) (fun e he => h e (by simp [he]))
    simp only [List.foldl_cons, List.length_cons]
    omega

/-- a legal slide from a stack of at most one piece is a single step -/
theorem legal_slide_len1 (b : MB) (x y : Int) (d : Dir) (drops : List Nat)
    (hst : (mstep b (.slide x y d drops)).isSome = true) (hlow : (b.at x y).length ≤ 1) : drops.length = 1 := by
  rw [mstep_slide] at hst
  by_cases c1 : b.ply < 2
  · rw [if_pos c1] at hst; cases hst
  rw [if_neg c1] at hst
  by_cases c2 : (!b.onBoard x y) = true
  · rw [if_pos c2] at hst; cases hst
  rw [if_neg c2] at hst
  by_cases c3 : drops.isEmpty = true ∨ (drops.any (· == 0)) = true
  · rw [if_pos c3] at hst; cases hst
  rw [if_neg c3] at hst
  by_cases c4 : drops.foldl (· + ·) 0 > b.size ∨ drops.foldl (· + ·) 0 > (b.at x y).length
  · rw [if_pos c4] at hst; cases hst
  have hne : drops ≠ [] := by
    intro he; apply c3; left; rw [he]; rfl
  have hpos : ∀ e ∈ drops, 1 ≤ e := by
    intro e he
    cases e with
    | zero =>
      exfalso; apply c3; right
      rw [List.any_eq_true]
      exact ⟨0, he, rfl⟩
    | succ k => omega
  have hge := foldl_add_ge drops 0 hpos
  have : drops.length ≤ 1 := by omega
  cases drops with
  | nil => exact absurd rfl hne
  | cons a rest =>
    simp only [List.length_cons] at this ⊢
    omega

/-- what a passed check of the ply-4 move leaves in the rule: White's stone stands on a centre square next
to Black's -/
theorem rule_at_5 (r0 r : Rule) (pv : View) (pm : Tak.Move) (hp : pv.ply = 4)
    (h : cairnLegal r0 pv pm = .ok (r, true)) :
    isCentered pv r.whitePlaceX r.whitePlaceY = true ∧
    distance r.whitePlaceX r.whitePlaceY r.blackPlaceX r.blackPlaceY = 1 := by
  unfold cairnLegal at h
  have n01 : ¬ (pv.ply = 0 ∨ pv.ply = 1) := by omega
  have n2 : ¬ pv.ply = 2 := by omega
  have n3 : ¬ pv.ply = 3 := by omega
  rw [if_neg n01, if_neg n2, if_neg n3, if_pos hp] at h
  split at h
  · cases h
  · cases hd : destOf pm with
    | error e => rw [hd] at h; cases h
    | ok dxy =>
      obtain ⟨dx, dy⟩ := dxy
      rw [hd] at h
      simp only [bind, Except.bind] at h
      split at h
      · cases h
      · rename_i hc
        simp only [Except.ok.injEq, Prod.mk.injEq, beq_iff_eq] at h
        obtain ⟨h1, hdist⟩ := h
        subst h1
        refine ⟨?_, hdist⟩
        cases hq : isCentered pv dx dy with
        | true => rfl
        | false => rw [hq] at hc; exact absurd rfl hc

theorem accepted_ok {var : Variant} {r : Rule} {v : View} {m : Tak.Move} (h : accepted var r v m = true) :
    ∃ r', legalMove var r v m = .ok (r', true) := by
  unfold accepted at h
  split at h
  · rename_i r' ok heq
    subst h
    exact ⟨r', heq⟩
  · cases h

/-- **every legal move the cairn rule accepts at plies 2..5 is near** (at ply 5 given what `rule_at_5`
provides; `hfar`: the squares that are not near carry at most one piece) -/
theorem accepted_near (r : Rule) (b : MB) (m : Tak.Move) (h2 : 2 ≤ b.ply) (h5 : b.ply ≤ 5) (h64 : b.size ≤ 64)
    (hr5 : b.ply = 5 → isCentered (coreView b.size) r.whitePlaceX r.whitePlaceY = true)
    (hfar : ∀ x y, onB b.size x y = true → nearS b.size x y = false → (b.at x y).length ≤ 1)
    (hacc : accepted .cairn r (mview b) m = true)
    (hst : (mstep b (Spec.decode m)).isSome = true) : MoveNear b.size m := by
  have hply : (mview b).ply = b.ply := rfl
  have hsize : (mview b).size = b.size := rfl
  -- the slide part, shared by plies 4 and 5
  have slide_case : m.isSlide = true → ∀ dx dy, m.dest = some (dx, dy) →
      isCentered (coreView b.size) dx dy = true → MoveNear b.size m := by
    intro hs dx dy hd hc
    right
    refine ⟨hs, fun hb => ⟨?_, dx, dy, hd, hc⟩⟩
    cases hn : nearS b.size m.x m.y with
    | true => rfl
    | false =>
      have hlow := hfar _ _ hb hn
      rcases slide_decode m hs with ⟨_, hnone⟩ | ⟨d, hdec, hdest⟩
      · rw [hnone] at hd; cases hd
      · rw [hdec] at hst
        have hl := legal_slide_len1 b _ _ _ _ hst hlow
        have := near_of_slide1 b.size h64 m hs hl dx dy hd hc hb
        rw [hn] at this; exact this
  obtain ⟨r', hacc⟩ := accepted_ok hacc
  unfold legalMove cairnLegal at hacc
  simp only [hply] at hacc
  have n01 : ¬ (b.ply = 0 ∨ b.ply = 1) := by omega
  rw [if_neg n01] at hacc
  by_cases p2 : b.ply = 2
  · rw [if_pos p2] at hacc
    split at hacc
    · simp at hacc
    · rename_i ht
      simp only [Except.ok.injEq, Prod.mk.injEq] at hacc
      left
      exact ⟨Decidable.of_not_not ht, by rw [nearS_iff]; left; rw [← hsize, ← isCenterAdjacent_core]; exact hacc.2⟩
  rw [if_neg p2] at hacc
  by_cases p3 : b.ply = 3
  · rw [if_pos p3] at hacc
    split at hacc
    · simp at hacc
    · rename_i ht
      simp only [Except.ok.injEq, Prod.mk.injEq, Bool.and_eq_true] at hacc
      left
      exact ⟨Decidable.of_not_not ht, by rw [nearS_iff]; left; rw [← hsize, ← isCenterAdjacent_core]; exact hacc.2.1⟩
  rw [if_neg p3] at hacc
  by_cases p4 : b.ply = 4
  · rw [if_pos p4] at hacc
    split at hacc
    · simp at hacc
    · rename_i hs
      have hs' : m.isSlide = true := by
        cases hq : m.isSlide with
        | true => rfl
        | false => rw [hq] at hs; exact absurd rfl hs
      cases hd : m.dest with
      | none => simp [destOf, hd, bind, Except.bind] at hacc
      | some dxy =>
        obtain ⟨dx, dy⟩ := dxy
        simp only [destOf, hd, bind, Except.bind] at hacc
        split at hacc
        · simp at hacc
        · rename_i hc
          have hc' : isCentered (mview b) dx dy = true := by
            cases hq : isCentered (mview b) dx dy with
            | true => rfl
            | false => rw [hq] at hc; exact absurd rfl hc
          exact slide_case hs' dx dy hd hc'
  rw [if_neg p4] at hacc
  have p5 : b.ply = 5 := by omega
  rw [if_pos p5] at hacc
  split at hacc
  · simp at hacc
  · rename_i hs
    have hs' : m.isSlide = true := by
      cases hq : m.isSlide with
      | true => rfl
      | false => rw [hq] at hs; exact absurd rfl hs
    cases hd : m.dest with
    | none => simp [destOf, hd, bind, Except.bind] at hacc
    | some dxy =>
      obtain ⟨dx, dy⟩ := dxy
      simp only [destOf, hd, bind, Except.bind, Except.ok.injEq, Prod.mk.injEq] at hacc
      obtain ⟨hrr, hacc⟩ := hacc
      simp only [Bool.not_eq_true', Bool.or_eq_false_iff, bne_eq_false_iff_eq, ne_eq, decide_eq_false_iff_not,
        Decidable.not_not] at hacc
      obtain ⟨⟨⟨_, _⟩, hx⟩, hy⟩ := hacc
      have hc := hr5 p5
      rw [← hx, ← hy] at hc
      exact slide_case hs' dx dy hd hc

end Proofs.FPAFrame
