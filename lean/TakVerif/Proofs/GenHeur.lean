import TakVerif.Proofs.GenThreat
import TakVerif.Props.C18_gen

/-! Bridge lemmas for the helpers of `ai.evaluate` regenerated into `Generated/FuncsHeur.lean`: `mobility` (four general loops
with whitelist fuel `height + 1`), `scoreGroups` (the computed weight index `ws[int(Groups)+w]` with Go's index panic),
`scoreThreats` (over the regenerated `CountThreats`).  Each hand-written helper of `Impl/Evaluate.lean` is the regenerated
function for all arguments. -/
namespace GenHeur
open Tak Roads

/-! ### `mobility` -/

theorem mob0 (c : Consts) (height : Int) (stop : W) : ∀ (fuel : Nat) (i : Int) (e m : W),
    (height - i).toNat + 1 ≤ fuel →
    ∃ e' i', Gen.mobility_loop0 c height stop fuel (e, i, m) =
      some (e', i', mobLoop (stop ||| c.R) (fun e => e <<< 1) (height - i).toNat e m) := by
  intro fuel
  induction fuel with
  | zero => intro i e m h; omega
  | succ fuel ih =>
    intro i e m hf
    unfold Gen.mobility_loop0
    by_cases hlt : i < height
    · obtain ⟨k, hk⟩ : ∃ k, (height - i).toNat = k + 1 := ⟨(height - i).toNat - 1, by omega⟩
      have hk' : (height - (i + 1)).toNat = k := by omega
      rw [hk]
      unfold mobLoop
      have hd : decide (i < height) = true := by simpa using hlt
      by_cases hc : (e &&& (stop ||| c.R) == 0#64) = true
      · simp only [hd, hc, Bool.and_self, if_true]
        rw [← hk']
        exact ih (i + 1) (e <<< 1) (m ||| e) (by omega)
      · simp only [hd, hc, Bool.and_false, Bool.false_eq_true, if_false]
        exact ⟨_, _, rfl⟩
    · have h0 : (height - i).toNat = 0 := by omega
      have hd : decide (i < height) = false := by simpa using hlt
      rw [h0]
      simp only [hd, Bool.false_and, Bool.false_eq_true, if_false, mobLoop]
      exact ⟨_, _, rfl⟩

theorem mob1 (c : Consts) (height : Int) (stop : W) : ∀ (fuel : Nat) (i : Int) (e m : W),
    (height - i).toNat + 1 ≤ fuel →
    ∃ e' i', Gen.mobility_loop1 c height stop fuel (e, i, m) =
      some (e', i', mobLoop (stop ||| c.L) (fun e => e >>> 1) (height - i).toNat e m) := by
  intro fuel
  induction fuel with
  | zero => intro i e m h; omega
  | succ fuel ih =>
    intro i e m hf
    unfold Gen.mobility_loop1
    by_cases hlt : i < height
    · obtain ⟨k, hk⟩ : ∃ k, (height - i).toNat = k + 1 := ⟨(height - i).toNat - 1, by omega⟩
      have hk' : (height - (i + 1)).toNat = k := by omega
      rw [hk]
      unfold mobLoop
      have hd : decide (i < height) = true := by simpa using hlt
      by_cases hc : (e &&& (stop ||| c.L) == 0#64) = true
      · simp only [hd, hc, Bool.and_self, if_true]
        rw [← hk']
        exact ih (i + 1) (e >>> 1) (m ||| e) (by omega)
      · simp only [hd, hc, Bool.and_false, Bool.false_eq_true, if_false]
        exact ⟨_, _, rfl⟩
    · have h0 : (height - i).toNat = 0 := by omega
      have hd : decide (i < height) = false := by simpa using hlt
      rw [h0]
      simp only [hd, Bool.false_and, Bool.false_eq_true, if_false, mobLoop]
      exact ⟨_, _, rfl⟩

theorem mob2 (c : Consts) (height : Int) (stop : W) : ∀ (fuel : Nat) (i : Int) (e m : W),
    (height - i).toNat + 1 ≤ fuel →
    ∃ e' i', Gen.mobility_loop2 c height stop fuel (e, i, m) =
      some (e', i', mobLoop stop (fun e => e <<< c.Size) (height - i).toNat e m) := by
  intro fuel
  induction fuel with
  | zero => intro i e m h; omega
  | succ fuel ih =>
    intro i e m hf
    unfold Gen.mobility_loop2
    by_cases hlt : i < height
    · obtain ⟨k, hk⟩ : ∃ k, (height - i).toNat = k + 1 := ⟨(height - i).toNat - 1, by omega⟩
      have hk' : (height - (i + 1)).toNat = k := by omega
      rw [hk]
      unfold mobLoop
      have hd : decide (i < height) = true := by simpa using hlt
      by_cases hc : (e &&& stop == 0#64) = true
      · simp only [hd, hc, Bool.and_self, if_true, Gen.shl_eq]
        rw [← hk']
        exact ih (i + 1) (e <<< c.Size) (m ||| e) (by omega)
      · simp only [hd, hc, Bool.and_false, Bool.false_eq_true, if_false]
        exact ⟨_, _, rfl⟩
    · have h0 : (height - i).toNat = 0 := by omega
      have hd : decide (i < height) = false := by simpa using hlt
      rw [h0]
      simp only [hd, Bool.false_and, Bool.false_eq_true, if_false, mobLoop]
      exact ⟨_, _, rfl⟩

theorem mob3 (c : Consts) (height : Int) (stop : W) : ∀ (fuel : Nat) (i : Int) (e m : W),
    (height - i).toNat + 1 ≤ fuel →
    ∃ e' i', Gen.mobility_loop3 c height stop fuel (e, i, m) =
      some (e', i', mobLoop stop (fun e => e >>> c.Size) (height - i).toNat e m) := by
  intro fuel
  induction fuel with
  | zero => intro i e m h; omega
  | succ fuel ih =>
    intro i e m hf
    unfold Gen.mobility_loop3
    by_cases hlt : i < height
    · obtain ⟨k, hk⟩ : ∃ k, (height - i).toNat = k + 1 := ⟨(height - i).toNat - 1, by omega⟩
      have hk' : (height - (i + 1)).toNat = k := by omega
      rw [hk]
      unfold mobLoop
      have hd : decide (i < height) = true := by simpa using hlt
      by_cases hc : (e &&& stop == 0#64) = true
      · simp only [hd, hc, Bool.and_self, if_true, Gen.shr_eq]
        rw [← hk']
        exact ih (i + 1) (e >>> c.Size) (m ||| e) (by omega)
      · simp only [hd, hc, Bool.and_false, Bool.false_eq_true, if_false]
        exact ⟨_, _, rfl⟩
    · have h0 : (height - i).toNat = 0 := by omega
      have hd : decide (i < height) = false := by simpa using hlt
      rw [h0]
      simp only [hd, Bool.false_and, Bool.false_eq_true, if_false, mobLoop]
      exact ⟨_, _, rfl⟩

/-- **`mobility`**: for all constants, positions, bits and heights (also negative ones) the regenerated function returns
(the whitelist fuel `height + 1` of each of the four loops suffices) the model's mask -/
theorem mobility_eq (c : Consts) (p : Pos) (b : W) (height : Int) :
    genMobility c p b height = some (mobility c p b height) := by
  unfold genMobility Gen.mobility mobility
  have hsub : (height - 0).toNat = height.toNat := by simp
  have hf : (height - 0).toNat + 1 ≤ height.toNat + 1 := by omega
  obtain ⟨e0, i0, h0⟩ := mob0 c height ((p.caps ||| p.standing ||| ~~~c.Mask) &&& ~~~b) (height.toNat + 1) 0 (b <<< 1) b hf
  simp only [h0, hsub]
  obtain ⟨e1, i1, h1⟩ := mob1 c height ((p.caps ||| p.standing ||| ~~~c.Mask) &&& ~~~b) (height.toNat + 1) 0 (b >>> 1)
    (mobLoop ((p.caps ||| p.standing ||| ~~~c.Mask) &&& ~~~b ||| c.R) (fun e => e <<< 1) height.toNat (b <<< 1) b) hf
  simp only [h1, hsub]
  obtain ⟨e2, i2, h2⟩ := mob2 c height ((p.caps ||| p.standing ||| ~~~c.Mask) &&& ~~~b) (height.toNat + 1) 0 (b <<< c.Size)
    (mobLoop ((p.caps ||| p.standing ||| ~~~c.Mask) &&& ~~~b ||| c.L) (fun e => e >>> 1) height.toNat (b >>> 1)
      (mobLoop ((p.caps ||| p.standing ||| ~~~c.Mask) &&& ~~~b ||| c.R) (fun e => e <<< 1) height.toNat (b <<< 1) b)) hf
  simp only [Gen.shl_eq, Gen.shr_eq, h2, hsub]
  obtain ⟨e3, i3, h3⟩ := mob3 c height ((p.caps ||| p.standing ||| ~~~c.Mask) &&& ~~~b) (height.toNat + 1) 0 (b >>> c.Size)
    (mobLoop ((p.caps ||| p.standing ||| ~~~c.Mask) &&& ~~~b) (fun e => e <<< c.Size) height.toNat (b <<< c.Size)
      (mobLoop ((p.caps ||| p.standing ||| ~~~c.Mask) &&& ~~~b ||| c.L) (fun e => e >>> 1) height.toNat (b >>> 1)
        (mobLoop ((p.caps ||| p.standing ||| ~~~c.Mask) &&& ~~~b ||| c.R) (fun e => e <<< 1) height.toNat (b <<< 1) b))) hf
  simp only [h3, hsub]

/-! ### `Weights` as an array -/

/-- a read of the weight array is the model's `Weights.at` -/
theorem arr_getD (w : Weights) (k : Nat) : w.arr.getD k 0 = w.at k := by
  unfold Weights.arr Weights.at
  simp only [Array.getD, List.getD, List.size_toArray]
  split
  · rename_i h; simp [h]
  · rename_i h; simp [List.getElem?_eq_none (Nat.le_of_not_lt h)]

/-! ### `scoreGroups` -/

/-- the `for _, g := range gs` loop of `scoreGroups`: whenever the model's loop returns (no `Dimensions` hang, no index
panic) the regenerated loop returns the same sum and the union of the groups -/
theorem sg_loop (c : Consts) (ws : Weights) : ∀ (l : List W) (allg : W) (sc v : Int), groupDimScore c ws l = .ok v →
    Gen.scoreGroups_loop0 c ws.arr l (allg, sc) = some (l.foldl (fun a g => a ||| g) allg, sc + v) := by
  intro l
  induction l with
  | nil =>
    intro allg sc v h
    simp only [groupDimScore, Except.ok.injEq] at h
    subst h
    simp [Gen.scoreGroups_loop0]
  | cons g l ih =>
    intro allg sc v h
    unfold groupDimScore at h
    cases hd : dimensions c g with
    | none => simp [hd] at h
    | some r =>
      obtain ⟨w, hh⟩ := r
      simp only [hd] at h
      by_cases h1 : Facts.fGroups + w ≥ Facts.maxFeature
      · simp [h1] at h
      · by_cases h2 : Facts.fGroups + hh ≥ Facts.maxFeature
        · simp [h1, h2] at h
        · simp only [h1, h2, if_false] at h
          cases hrec : groupDimScore c ws l with
          | error e => simp [hrec] at h
          | ok rest =>
            simp only [hrec, Except.ok.injEq] at h
            subst h
            have hgd := C18.dimensions_is_source c g (w, hh) hd
            have e1 : Facts.fGroups = 14 := rfl
            have e2 : Facts.maxFeature = 36 := rfl
            rw [e1, e2] at h1 h2
            unfold Gen.scoreGroups_loop0
            simp only [hgd]
            have g1 : (!(decide ((0 : Int) ≤ (14 : Int) + (w : Int)) && decide ((14 : Int) + (w : Int) < (36 : Int)))) = false := by
              simp; omega
            have g2 : (!(decide ((0 : Int) ≤ (14 : Int) + (hh : Int)) && decide ((14 : Int) + (hh : Int) < (36 : Int)))) = false := by
              simp; omega
            have t1 : ((14 : Int) + (w : Int)).toNat = Facts.fGroups + w := by rw [e1]; omega
            have t2 : ((14 : Int) + (hh : Int)).toNat = Facts.fGroups + hh := by rw [e1]; omega
            simp only [g1, g2, Bool.false_eq_true, if_false, t1, t2, arr_getD]
            rw [ih (allg ||| g) _ rest hrec, List.foldl_cons]
            congr 2
            omega

/-- **`scoreGroups`**: whenever the model returns a value the regenerated function returns it -/
theorem scoreGroups_eq (c : Consts) (gs : List W) (ws : Weights) (other : W) (v : Int)
    (h : scoreGroups c gs ws other = .ok v) : Gen.scoreGroups c gs.toArray ws.arr other = some v := by
  unfold scoreGroups at h
  cases hd : groupDimScore c ws gs with
  | error e => simp [hd] at h
  | ok sc =>
    simp only [hd] at h
    unfold Gen.scoreGroups
    simp only [sg_loop c ws gs 0#64 0 sc hd, Int.zero_add, arr_getD]
    have e13 : (13 : Nat) = Facts.fGroupLiberties := rfl
    rw [e13]
    by_cases hl : (ws.at Facts.fGroupLiberties != 0) = true
    · simp only [hl, if_true, Except.ok.injEq] at h ⊢
      rw [← h, ← C02.popcount_is_source]
    · simp only [hl, Bool.false_eq_true, if_false, Except.ok.injEq] at h ⊢
      rw [← h]

/-! ### `scoreThreats` -/

/-- **`scoreThreats`**: for all constants, weights and positions the regenerated function (over the regenerated
`CountThreats`) returns the model's value -/
theorem scoreThreats_eq (c : Consts) (ws : Weights) (p : Pos) :
    genScoreThreats c ws.arr p = some (scoreThreats c ws p) := by
  unfold genScoreThreats Gen.scoreThreats scoreThreats
  simp only [arr_getD]
  by_cases hz : (ws.at Facts.fPotential == 0 && ws.at Facts.fThreat == 0) = true
  · simp only [hz, if_true]
  · simp only [hz, Bool.false_eq_true, if_false]
    have hct := GenThreat.countThreats_eq c p
    unfold genCountThreats at hct
    simp only [hct, C18.toMove_byte]
    have cw : (BitVec.ofNat 8 p.toMove.code == 128#8) = (p.toMove == .white) := C18.colorByte_eq p.toMove .white
    have cb : (BitVec.ofNat 8 p.toMove.code == 64#8) = (p.toMove == .black) := C18.colorByte_eq p.toMove .black
    simp only [cw, cb, Facts.forcedWin]
    generalize countThreats c p = t
    cases hm : p.toMove <;> simp <;> split <;> simp_all <;> omega

end GenHeur
