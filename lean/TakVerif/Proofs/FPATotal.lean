import TakVerif.Impl.FPATotal
import TakVerif.Impl.BotCompose
import TakVerif.Proofs.Glue

/-! Lemmas about the declining scripts (`Impl/FPATotal.lean`, `fixes/C07-fpa-script-declines.diff`):
the scripts never panic (`getMoveD_total`), answer what the scripts with their panics answered wherever those answered
(`getMoveD_of_ok`: every C20 theorem about an opening played by the rule carries over), and `Friendly.GetMove` with them
(`friendlyGetMoveD`) differs from the call before the patch exactly where a script panicked: there it asks the searching
player. -/
namespace Tak.Glue
open Tak Tak.FPA

/-! ### the scripts -/

/-- **the declining scripts never panic**, whatever notes the rule holds and whatever the position shows -/
theorem getMoveD_total (var : Variant) (r : Rule) (v : View) : ∃ y, getMoveD var r v = .ok y := by
  cases var with
  | center =>
    show ∃ y, getMove .center r v = .ok y
    unfold getMove
    dsimp only
    split <;> exact ⟨_, rfl⟩
  | doubleStack =>
    show ∃ y, (match getMove .doubleStack r v with | .ok y => .ok y | .error _ => .ok none : R (Option Move)) = .ok y
    cases getMove .doubleStack r v <;> exact ⟨_, rfl⟩
  | cairn =>
    show ∃ y, (match getMove .cairn r v with | .ok y => .ok y | .error _ => .ok none : R (Option Move)) = .ok y
    cases getMove .cairn r v <;> exact ⟨_, rfl⟩

/-- where the script before the patch answered, the declining one answers the same -/
theorem getMoveD_of_ok {var : Variant} {r : Rule} {v : View} {y : Option Move} (h : getMove var r v = .ok y) :
    getMoveD var r v = .ok y := by
  cases var with
  | center => exact h
  | doubleStack =>
    show (match getMove .doubleStack r v with | .ok y => .ok y | .error _ => .ok none : R (Option Move)) = .ok y
    rw [h]
  | cairn =>
    show (match getMove .cairn r v with | .ok y => .ok y | .error _ => .ok none : R (Option Move)) = .ok y
    rw [h]

/-- what the declining script answers: the old answer, or "no scripted move" where the old script panicked -/
theorem getMoveD_cases (var : Variant) (r : Rule) (v : View) :
    (∃ y, getMove var r v = .ok y ∧ getMoveD var r v = .ok y) ∨
    (∃ e, getMove var r v = .error e ∧ getMoveD var r v = .ok none) := by
  cases hg : getMove var r v with
  | ok y => exact .inl ⟨y, rfl, getMoveD_of_ok hg⟩
  | error e =>
    refine .inr ⟨e, rfl, ?_⟩
    cases var with
    | center =>
      exfalso
      unfold getMove at hg
      dsimp only at hg
      split at hg <;> cases hg
    | doubleStack =>
      show (match getMove .doubleStack r v with | .ok y => .ok y | .error _ => .ok none : R (Option Move)) = .ok none
      rw [hg]
    | cairn =>
      show (match getMove .cairn r v with | .ok y => .ok y | .error _ => .ok none : R (Option Move)) = .ok none
      rw [hg]

theorem fpaScriptD_total (fpa : Option (Variant × Rule)) (p : Pos) : ∃ y, fpaScriptD fpa p = .ok y := by
  cases fpa with
  | none => exact ⟨none, rfl⟩
  | some vr => exact getMoveD_total vr.1 vr.2 _

theorem fpaScriptD_of_ok {fpa : Option (Variant × Rule)} {p : Pos} {y : Option Move} (h : fpaScript fpa p = .ok y) :
    fpaScriptD fpa p = .ok y := by
  cases fpa with
  | none => exact h
  | some vr => exact getMoveD_of_ok h

/-! ### `Friendly.GetMove` with them -/

theorem friendlyD_cases (fpa : Option (Variant × Rule)) (g : GameRec) (p : Pos) (o : CheckOracle) :
  Tak.Glue.friendlyGetMoveD fpa g p o =
    match fpaCheck fpa g p with
    | .error e => .error e
    | .ok (f', some msg) => .ok (f', .resign msg)
    | .ok (f', none) =>
      if p.toMove ≠ g.color then .ok (f', .noMove) else
      match fpaScriptD f' p with
      | .error e => .error e
      | .ok (some m) => .ok (f', .move m)
      | .ok none =>
        match waitUndo g o with
        | .error e => .error e
        | .ok w => .ok (f', .think (some Facts.maxThink) (some (if w then .undo else .minThink))) := by
  unfold Tak.Glue.friendlyGetMoveD
  cases h1 : fpaCheck fpa g p with
  | error e => rfl
  | ok v =>
    obtain ⟨f', rej⟩ := v
    cases rej with
    | some msg => rfl
    | none =>
      show (if p.toMove ≠ g.color then _ else _) = (if p.toMove ≠ g.color then _ else _)
      by_cases ht : p.toMove ≠ g.color
      · rw [if_pos ht, if_pos ht]
      · rw [if_neg ht, if_neg ht]
        cases h2 : fpaScriptD f' p with
        | error e => rfl
        | ok sm =>
          cases sm with
          | some m => rfl
          | none =>
            show (waitUndo g o >>= _) = _
            cases h3 : waitUndo g o with
            | error e => rfl
            | ok w => rfl

/-- **a call that ran through before the patch does the same with it**: same action, same notes -/
theorem friendlyD_of_ok {fpa : Option (Variant × Rule)} {g : GameRec} {p : Pos} {o : CheckOracle}
    {x : Option (Variant × Rule) × Action} (h : Tak.Glue.friendlyGetMove fpa g p o = .ok x) :
    Tak.Glue.friendlyGetMoveD fpa g p o = .ok x := by
  rw [friendly_cases] at h
  rw [friendlyD_cases]
  cases h1 : fpaCheck fpa g p with
  | error e => rw [h1] at h; cases h
  | ok v =>
    obtain ⟨f', rej⟩ := v
    rw [h1] at h
    cases rej with
    | some msg => exact h
    | none =>
      simp only at h ⊢
      by_cases ht : p.toMove ≠ g.color
      · rw [if_pos ht] at h ⊢; exact h
      · rw [if_neg ht] at h ⊢
        cases h2 : fpaScript f' p with
        | error e => rw [h2] at h; cases h
        | ok sm => rw [h2] at h; rw [fpaScriptD_of_ok h2]; exact h

/-- the two calls differ only in the script: with the same first block (`fpaCheck`) they resign alike, answer off turn
alike; `friendlyGetMoveD` is determined by `fpaCheck`, the turn, `fpaScriptD` and `waitUndo` -/
theorem friendlyD_congr {fpa fpa2 : Option (Variant × Rule)} {g : GameRec} {p : Pos} (o : CheckOracle)
    (h : fpaCheck fpa g p = fpaCheck fpa2 g p) :
    Tak.Glue.friendlyGetMoveD fpa g p o = Tak.Glue.friendlyGetMoveD fpa2 g p o := by
  rw [friendlyD_cases, friendlyD_cases, h]

/-- the variant of the rule is not changed by a call -/
theorem friendlyD_fst_of_check {fpa f' : Option (Variant × Rule)} {g : GameRec} {p : Pos} {o : CheckOracle} {a : Action}
    (h : Tak.Glue.friendlyGetMoveD fpa g p o = .ok (f', a)) : ∃ rej, fpaCheck fpa g p = .ok (f', rej) := by
  rw [friendlyD_cases] at h
  cases h1 : fpaCheck fpa g p with
  | error e => rw [h1] at h; cases h
  | ok v =>
    obtain ⟨f1, rej⟩ := v
    rw [h1] at h
    cases rej with
    | some msg => simp only at h; cases h; exact ⟨_, rfl⟩
    | none =>
      simp only at h
      by_cases ht : p.toMove ≠ g.color
      · rw [if_pos ht] at h; cases h; exact ⟨_, rfl⟩
      · rw [if_neg ht] at h
        cases h2 : fpaScriptD f1 p with
        | error e => rw [h2] at h; cases h
        | ok sm =>
          rw [h2] at h
          cases sm with
          | some m => cases h; exact ⟨_, rfl⟩
          | none =>
            simp only at h
            cases h3 : waitUndo g o with
            | error e => rw [h3] at h; cases h
            | ok w => rw [h3] at h; cases h; exact ⟨_, rfl⟩

/-- **where the two calls differ**: a call with the declining scripts that returns `(f', a)` is the call before the patch
returning the same, or the call before the patch panicked INSIDE THE SCRIPT (first block passed without a rejection, the
bot is to move) and the new call asks the searching player -/
theorem friendlyD_ok_cases {fpa f' : Option (Variant × Rule)} {g : GameRec} {p : Pos} {o : CheckOracle} {a : Action}
    (h : Tak.Glue.friendlyGetMoveD fpa g p o = .ok (f', a)) :
    Tak.Glue.friendlyGetMove fpa g p o = .ok (f', a) ∨
    (∃ e lim fl, Tak.Glue.friendlyGetMove fpa g p o = .error e ∧ a = .think lim fl ∧
      fpaCheck fpa g p = .ok (f', none) ∧ p.toMove = g.color ∧ fpaScript f' p = .error e) := by
  rw [friendlyD_cases] at h
  rw [friendly_cases]
  cases h1 : fpaCheck fpa g p with
  | error e => rw [h1] at h; cases h
  | ok v =>
    obtain ⟨f1, rej⟩ := v
    rw [h1] at h
    cases rej with
    | some msg => exact .inl h
    | none =>
      simp only at h ⊢
      by_cases ht : p.toMove ≠ g.color
      · rw [if_pos ht] at h ⊢; exact .inl h
      · rw [if_neg ht] at h ⊢
        have hto : p.toMove = g.color := Classical.not_not.mp ht
        cases h2 : fpaScript f1 p with
        | ok sm => rw [fpaScriptD_of_ok h2] at h; exact .inl h
        | error e =>
          have hD : fpaScriptD f1 p = .ok none := by
            cases f1 with
            | none => cases h2
            | some vr =>
              rcases getMoveD_cases vr.1 vr.2 (viewOfPos p) with ⟨y, hy, _⟩ | ⟨e', _, hd⟩
              · have : fpaScript (some vr) p = .ok y := hy
                rw [this] at h2; cases h2
              · exact hd
          rw [hD] at h
          simp only at h
          cases h3 : waitUndo g o with
          | error e3 => rw [h3] at h; cases h
          | ok w =>
            rw [h3] at h
            injection h with h
            obtain ⟨hf, ha⟩ := Prod.mk.inj h
            subst hf
            exact .inr ⟨e, _, _, rfl, ha.symm, rfl, hto, h2⟩

/-- a resignation is decided by the first block alone: the same iff as `C20.friendly_resigns_iff_rule_rejects` -/
theorem friendlyD_resign_of_check {fpa f' : Option (Variant × Rule)} {g : GameRec} {p : Pos} {o : CheckOracle} {a : Action}
    (h : Tak.Glue.friendlyGetMoveD fpa g p o = .ok (f', a)) (msg : Msg) (ha : a = .resign msg) :
    Tak.Glue.friendlyGetMove fpa g p o = .ok (f', a) := by
  rcases friendlyD_ok_cases h with h1 | ⟨_, _, _, _, h2, _⟩
  · exact h1
  · rw [ha] at h2; cases h2

end Tak.Glue

namespace Tak.Compose
open Tak Tak.FPA Tak.Glue

theorem friendlyOf_of_ok (c : Conf) {fpa : Option (Variant × Rule)} {g : GameRec} {p : Pos} {o : CheckOracle}
    {x : Option (Variant × Rule) × Action} (h : Tak.Glue.friendlyGetMove fpa g p o = .ok x) :
    friendlyOf c fpa g p o = .ok x := by
  unfold friendlyOf
  split
  · exact friendlyD_of_ok h
  · exact h

theorem friendlyOf_ok_cases (c : Conf) {fpa f' : Option (Variant × Rule)} {g : GameRec} {p : Pos} {o : CheckOracle}
    {a : Action} (h : friendlyOf c fpa g p o = .ok (f', a)) :
    Tak.Glue.friendlyGetMove fpa g p o = .ok (f', a) ∨
    (c.decline = true ∧ ∃ e lim fl, Tak.Glue.friendlyGetMove fpa g p o = .error e ∧ a = .think lim fl ∧
      fpaCheck fpa g p = .ok (f', none) ∧ p.toMove = g.color ∧ fpaScript f' p = .error e) := by
  unfold friendlyOf at h
  split at h
  · rename_i hd
    rcases friendlyD_ok_cases h with h1 | h2
    · exact .inl h1
    · exact .inr ⟨hd, h2⟩
  · exact .inl h

theorem friendlyOf_congr (c : Conf) {fpa fpa2 : Option (Variant × Rule)} {g : GameRec} {p : Pos} (o : CheckOracle)
    (h : fpaCheck fpa g p = fpaCheck fpa2 g p) : friendlyOf c fpa g p o = friendlyOf c fpa2 g p o := by
  unfold friendlyOf
  split
  · exact friendlyD_congr o h
  · rw [friendly_cases, friendly_cases, h]

theorem friendlyOf_check (c : Conf) {fpa f' : Option (Variant × Rule)} {g : GameRec} {p : Pos} {o : CheckOracle} {a : Action}
    (h : friendlyOf c fpa g p o = .ok (f', a)) : ∃ rej, fpaCheck fpa g p = .ok (f', rej) := by
  unfold friendlyOf at h
  split at h
  · exact friendlyD_fst_of_check h
  · rw [friendly_cases] at h
    cases h1 : fpaCheck fpa g p with
    | error e => rw [h1] at h; cases h
    | ok v =>
      obtain ⟨f1, rej⟩ := v
      rw [h1] at h
      cases rej with
      | some msg => simp only at h; cases h; exact ⟨_, rfl⟩
      | none =>
        simp only at h
        by_cases ht : p.toMove ≠ g.color
        · rw [if_pos ht] at h; cases h; exact ⟨_, rfl⟩
        · rw [if_neg ht] at h
          cases h2 : fpaScript f1 p with
          | error e => rw [h2] at h; cases h
          | ok sm =>
            rw [h2] at h
            cases sm with
            | some m => cases h; exact ⟨_, rfl⟩
            | none =>
              simp only at h
              cases h3 : waitUndo g o with
              | error e => rw [h3] at h; cases h
              | ok w => rw [h3] at h; cases h; exact ⟨_, rfl⟩

end Tak.Compose
