import TakVerif.Impl.FPATotal
import TakVerif.Proofs.Glue

/-! Lemmas about the declining scripts (`Impl/FPATotal.lean`, `fixes/C07-fpa-script-decline.diff`):
the scripts never panic (`getMoveD_total`), answer what the scripts with their panics answered wherever those answered
(`getMoveD_of_ok`: every C20 theorem about an opening played by the rule carries over), and `Friendly.GetMove` with them
(`friendlyGetMoveD`) differs from the call before the patch exactly where a script panicked: there it asks the searching
player. -/
namespace Tak.Glue
open Tak Tak.FPA

/-! ### the scripts -/

/-- **the declining scripts never panic**, whatever notes the rule holds and whatever the position shows -/
theorem getMoveD_total (var : Variant) (r : Rule) (v : View) : ∃ y, getMoveD var r v = .ok y := by
  cases var with
  | center =>
    show ∃ y, getMove .center r v = .ok y
    unfold getMove
    dsimp only
    split <;> exact ⟨_, rfl⟩
  | doubleStack =>
    show ∃ y, (match getMove .doubleStack r v with | .ok y => .ok y | .error _ => .ok none : R (Option Move)) = .ok y
    cases getMove .doubleStack r v <;> exact ⟨_, rfl⟩
  | cairn =>
    show ∃ y, (match getMove .cairn r v with | .ok y => .ok y | .error _ => .ok none : R (Option Move)) = .ok y
    cases getMove .cairn r v <;> exact ⟨_, rfl⟩

/-- where the script before the patch answered, the declining one answers the same -/
theorem getMoveD_of_ok {var : Variant} {r : Rule} {v : View} {y : Option Move} (h : getMove var r v = .ok y) :
    getMoveD var r v = .ok y := by
  cases var with
  | center => exact h
  | doubleStack =>
    show (match getMove .doubleStack r v with | .ok y => .ok y | .error _ => .ok none : R (Option Move)) = .ok y
    rw [h]
  | cairn =>
    show (match getMove .cairn r v with | .ok y => .ok y | .error _ => .ok none : R (Option Move)) = .ok y
    rw [h]

/-- what the declining script answers: the old answer, or "no scripted move" where the old script panicked -/
theorem getMoveD_cases (var : Variant) (r : Rule) (v : View) :
    (∃ y, getMove var r v = .ok y ∧ getMoveD var r v = .ok y) ∨
    (∃ e, getMove var r v = .error e ∧ getMoveD var r v = .ok none) := by
  cases hg : getMove var r v with
  | ok y => exact .inl ⟨y, rfl, getMoveD_of_ok hg⟩
  | error e =>
    refine .inr ⟨e, rfl, ?_⟩
    cases var with
    | center =>
      exfalso
      unfold getMove at hg
      dsimp only at hg
      split at hg <;> cases hg
    | doubleStack =>
      show (match getMove .doubleStack r v with | .ok y => .ok y | .error _ => .ok none : R (Option Move)) = .ok none
      rw [hg]
    | cairn =>
      show (match getMove .cairn r v with | .ok y => .ok y | .error _ => .ok none : R (Option Move)) = .ok none
      rw [hg]

theorem fpaScriptD_total (fpa : Option (Variant × Rule)) (p : Pos) : ∃ y, fpaScriptD fpa p = .ok y := by
  cases fpa with
  | none => exact ⟨none, rfl⟩
  | some vr => exact getMoveD_total vr.1 vr.2 _

theorem fpaScriptD_of_ok {fpa : Option (Variant × Rule)} {p : Pos} {y : Option Move} (h : fpaScript fpa p = .ok y) :
    fpaScriptD fpa p = .ok y := by
  cases fpa with
  | none => exact h
  | some vr => exact getMoveD_of_ok h

/-! ### `Friendly.GetMove` with them -/

theorem friendlyD_cases (fpa : Option (Variant × Rule)) (g : GameRec) (p : Pos) (o : CheckOracle) :
  Tak.Glue.friendlyGetMoveD fpa g p o =
    match fpaCheck fpa g p with
    | .error e => .error e
    | .ok (f', some msg) => .ok (f', .resign msg)
    | .ok (f', none) =>
      if p.toMove ≠ g.color then .ok (f', .noMove) else
      match fpaScriptD f' p with
      | .error e => .error e
      | .ok (some m) => .ok (f', .move m)
      | .ok none =>
        match waitUndo g o with
        | .error e => .error e
        | .ok w => .ok (f', .think (some Facts.maxThink) (some (if w then .undo else .minThink))) := by
  unfold Tak.Glue.friendlyGetMoveD
  cases h1 : fpaCheck fpa g p with
  | error e => rfl
  | ok v =>
    obtain ⟨f', rej⟩ := v
    cases rej with
    | some msg => rfl
    | none =>
      show (if p.toMove ≠ g.color then _ else _) = (if p.toMove ≠ g.color then _ else _)
      by_cases ht : p.toMove ≠ g.color
      · rw [if_pos ht, if_pos ht]
      · rw [if_neg ht, if_neg ht]
        cases h2 : fpaScriptD f' p with
        | error e => rfl
        | ok sm =>
          cases sm with
          | some m => rfl
          | none =>
            show (waitUndo g o >>= _) = _
            cases h3 : waitUndo g o with
            | error e => rfl
            | ok w => rfl

/-- **a call that ran through before the patch does the same with it**: same action, same notes -/
theorem friendlyD_of_ok {fpa : Option (Variant × Rule)} {g : GameRec} {p : Pos} {o : CheckOracle}
    {x : Option (Variant × Rule) × Action} (h : Tak.Glue.friendlyGetMove fpa g p o = .ok x) :
    Tak.Glue.friendlyGetMoveD fpa g p o = .ok x := by
  rw [friendly_cases] at h
  rw [friendlyD_cases]
  cases h1 : fpaCheck fpa g p with
  | error e => rw [h1] at h; cases h
  | ok v =>
    obtain ⟨f', rej⟩ := v
    rw [h1] at h
    cases rej with
    | some msg => exact h
    | none =>
      simp only at h ⊢
      by_cases ht : p.toMove ≠ g.color
      · rw [if_pos ht] at h ⊢; exact h
      · rw [if_neg ht] at h ⊢
        cases h2 : fpaScript f' p with
        | error e => rw [h2] at h; cases h
        | ok sm => rw [h2] at h; rw [fpaScriptD_of_ok h2]; exact h

/-- the two calls differ only in the script: with the same first block (`fpaCheck`) they resign alike, answer off turn
alike; `friendlyGetMoveD` is determined by `fpaCheck`, the turn, `fpaScriptD` and `waitUndo` -/
theorem friendlyD_congr {fpa fpa2 : Option (Variant × Rule)} {g : GameRec} {p : Pos} (o : CheckOracle)
    (h : fpaCheck fpa g p = fpaCheck fpa2 g p) :
    Tak.Glue.friendlyGetMoveD fpa g p o = Tak.Glue.friendlyGetMoveD fpa2 g p o := by
  rw [friendlyD_cases, friendlyD_cases, h]

/-- the variant of the rule is not changed by a call -/
theorem friendlyD_fst_of_check {fpa f' : Option (Variant × Rule)} {g : GameRec} {p : Pos} {o : CheckOracle} {a : Action}
    (h : Tak.Glue.friendlyGetMoveD fpa g p o = .ok (f', a)) : ∃ rej, fpaCheck fpa g p = .ok (f', rej) := by
  rw [friendlyD_cases] at h
  cases h1 : fpaCheck fpa g p with
  | error e => rw [h1] at h; cases h
  | ok v =>
    obtain ⟨f1, rej⟩ := v
    rw [h1] at h
    cases rej with
    | some msg => simp only at h; cases h; exact ⟨_, rfl⟩
    | none =>
      simp only at h
      by_cases ht : p.toMove ≠ g.color
      · rw [if_pos ht] at h; cases h; exact ⟨_, rfl⟩
      · rw [if_neg ht] at h
        cases h2 : fpaScriptD f1 p with
        | error e => rw [h2] at h; cases h
        | ok sm =>
          rw [h2] at h
          cases sm with
          | some m => cases h; exact ⟨_, rfl⟩
          | none =>
            simp only at h
            cases h3 : waitUndo g o with
            | error e => rw [h3] at h; cases h
            | ok w => rw [h3] at h; cases h; exact ⟨_, rfl⟩

end Tak.Glue
