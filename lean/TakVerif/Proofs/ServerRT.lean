import TakVerif.Proofs.MoveRT
import TakVerif.Proofs.GoBytesLemmas

/-! Lemmas for C11: the playtak wire notation round-trips on every legal move shape. -/
set_option linter.unusedSimpArgs false
namespace Tak
namespace Server
open Go Notation PTN

theorem sqByte_toNat (v : Int) (k : UInt8) (kn : Nat) (hk : k.toNat = kn) (h0 : 0 ≤ v) (h1 : v < 8) (hkn : kn ≤ 200) :
    (byteOfInt v + k).toNat = v.toNat + kn := by
  rw [UInt8.toNat_add, byteOfInt_toNat v h0 (by omega), hk]
  omega

theorem parseSquare_formatSquare (x y : Int) (hx0 : 0 ≤ x) (hx1 : x < 8) (hy0 : 0 ≤ y) (hy1 : y < 8) :
    parseSquare (formatSquare x y) = .ok (x, y) := by
  have ha := sqByte_toNat x 65 65 rfl hx0 hx1 (by omega)
  have hb := sqByte_toNat y 49 49 rfl hy0 hy1 (by omega)
  unfold formatSquare parseSquare
  simp only [ha, hb]
  have h1 : ¬ (x.toNat + 65 < 65 ∨ x.toNat + 65 > 72) := by omega
  have h2 : ¬ (y.toNat + 49 < 49 ∨ y.toNat + 49 > 56) := by omega
  simp only [h1, h2, if_false]
  congr 2 <;> omega

theorem formatSquare_no_space (x y : Int) (hx0 : 0 ≤ x) (hx1 : x < 8) (hy0 : 0 ≤ y) (hy1 : y < 8) :
    ∀ b ∈ formatSquare x y, b ≠ 32 := by
  have ha := sqByte_toNat x 65 65 rfl hx0 hx1 (by omega)
  have hb := sqByte_toNat y 49 49 rfl hy0 hy1 (by omega)
  intro b hb'
  simp only [formatSquare, List.mem_cons, List.mem_nil_iff, or_false] at hb'
  rcases hb' with rfl | rfl <;> intro h32
  · rw [h32] at ha; revert ha; simp
  · rw [h32] at hb; revert hb; simp

theorem itoaNat_digit (e : Nat) (h : e ≤ 9) : itoaNat e = [UInt8.ofNat (48 + e)] := by
  have : e = 0 ∨ e = 1 ∨ e = 2 ∨ e = 3 ∨ e = 4 ∨ e = 5 ∨ e = 6 ∨ e = 7 ∨ e = 8 ∨ e = 9 := by omega
  rcases this with rfl | rfl | rfl | rfl | rfl | rfl | rfl | rfl | rfl | rfl <;> rfl

theorem atoi_digit (e : Nat) (h : e ≤ 9) : atoi [UInt8.ofNat (48 + e)] = some (e : Int) := by
  have : e = 0 ∨ e = 1 ∨ e = 2 ∨ e = 3 ∨ e = 4 ∨ e = 5 ∨ e = 6 ∨ e = 7 ∨ e = 8 ∨ e = 9 := by omega
  rcases this with rfl | rfl | rfl | rfl | rfl | rfl | rfl | rfl | rfl | rfl <;> rfl

theorem digit_ne_space (e : Nat) (h : e ≤ 9) : UInt8.ofNat (48 + e) ≠ 32 := by
  have : e = 0 ∨ e = 1 ∨ e = 2 ∨ e = 3 ∨ e = 4 ∨ e = 5 ∨ e = 6 ∨ e = 7 ∨ e = 8 ∨ e = 9 := by omega
  rcases this with rfl | rfl | rfl | rfl | rfl | rfl | rfl | rfl | rfl | rfl <;> decide

/-- the tail of a server slide: ` d1 d2 …` splits into one word per drop -/
theorem split_drops (w : Bytes) (ds : List Nat) (hw : ∀ b ∈ w, b ≠ 32) (hds : ∀ d ∈ ds, d ≤ 8) :
    split 32 (w ++ ds.flatMap (fun e => 32 :: itoaNat e)) = w :: ds.map (fun e => [UInt8.ofNat (48 + e)]) := by
  induction ds generalizing w with
  | nil => simp only [List.flatMap_nil, List.append_nil, List.map_nil]; exact split_nosep 32 w hw
  | cons d ds ih =>
    have hd := hds d (by simp)
    simp only [List.flatMap_cons, List.cons_append, List.map_cons]
    rw [split_append_sep 32 w _ hw, itoaNat_digit d (by omega)]
    rw [ih [UInt8.ofNat (48 + d)] (by
      intro b hb; simp only [List.mem_singleton] at hb; subst hb; exact digit_ne_space d (by omega))
      (fun e he => hds e (by simp [he]))]

theorem parseDrops_digits (ds : List Nat) (out : List Nat) (hds : ∀ d ∈ ds, d ≤ 8) :
    parseDrops (ds.map (fun e => [UInt8.ofNat (48 + e)])) out = .ok (out ++ ds) := by
  induction ds generalizing out with
  | nil => simp [parseDrops]
  | cons d ds ih =>
    have hd := hds d (by simp)
    simp only [List.map_cons, parseDrops, atoi_digit d (by omega)]
    have : ¬ ((d : Int) < 0 ∨ (d : Int) > 8) := by omega
    simp only [this, if_false, Int.toNat_natCast]
    rw [ih _ (fun e he => hds e (by simp [he]))]
    simp

theorem server_place_rt (size : Nat) (m : Move) (h : LegalShape size m) (hp : isPlaceType m.type = true) :
    parseServer (formatServer m) = .ok m := by
  obtain ⟨hx0, hx1, hy0, hy1, h3, h8⟩ := legalShape_bounds h
  have hz : m.slides = 0#32 := by
    rcases legalShape_kind h with ⟨_, hz⟩ | ⟨hnp, _⟩
    · exact hz
    · rw [hp] at hnp; cases hnp
  obtain ⟨x, y, t, s⟩ := m
  simp only at hx0 hx1 hy0 hy1 hp hz
  subst hz
  have hsq := parseSquare_formatSquare x y hx0 hx1 hy0 hy1
  have hns := formatSquare_no_space x y hx0 hx1 hy0 hy1
  rcases placeType_cases t hp with rfl | rfl | rfl
  · have hf : formatServer ⟨x, y, Facts.mtPlaceFlat, 0#32⟩ = [80] ++ 32 :: formatSquare x y := by
      simp [formatServer]
    have hsp : split 32 ([80] ++ 32 :: formatSquare x y) = [[80], formatSquare x y] := by
      rw [split_append_sep 32 [80] _ (by decide), split_nosep 32 _ hns]
    unfold parseServer
    rw [hf, hsp]
    simp [word, parsePlace, hsq]
  · have hf : formatServer ⟨x, y, Facts.mtPlaceStanding, 0#32⟩ = [80] ++ 32 :: (formatSquare x y ++ 32 :: [87]) := by
      simp [formatServer, Facts.mtPlaceStanding, Facts.mtPlaceFlat, Facts.mtPlaceCapstone]
    have hsp : split 32 ([80] ++ 32 :: (formatSquare x y ++ 32 :: [87])) = [[80], formatSquare x y, [87]] := by
      rw [split_append_sep 32 [80] _ (by decide), split_append_sep 32 _ _ hns, split_nosep 32 _ (by decide)]
    unfold parseServer
    rw [hf, hsp]
    simp [word, parsePlace, hsq]
  · have hf : formatServer ⟨x, y, Facts.mtPlaceCapstone, 0#32⟩ = [80] ++ 32 :: (formatSquare x y ++ 32 :: [67]) := by
      simp [formatServer, Facts.mtPlaceStanding, Facts.mtPlaceFlat, Facts.mtPlaceCapstone]
    have hsp : split 32 ([80] ++ 32 :: (formatSquare x y ++ 32 :: [67])) = [[80], formatSquare x y, [67]] := by
      rw [split_append_sep 32 [80] _ (by decide), split_append_sep 32 _ _ hns, split_nosep 32 _ (by decide)]
    unfold parseServer
    rw [hf, hsp]
    simp [word, parsePlace, hsq]

/-- end square of a slide of `l` squares -/
def endSq (t : Nat) (x y l : Int) : Int × Int :=
  if t == Facts.mtSlideRight then (x + l, y)
  else if t == Facts.mtSlideLeft then (x - l, y)
  else if t == Facts.mtSlideDown then (x, y - l)
  else (x, y + l)

theorem server_slide_rt (size : Nat) (m : Move) (h : LegalShape size m) (hs : isSlideType m.type = true) :
    parseServer (formatServer m) = .ok m := by
  obtain ⟨hx0, hx1, hy0, hy1, h3, h8⟩ := legalShape_bounds h
  rcases legalShape_kind h with ⟨hp, _⟩ | ⟨_, _, hne, hds, hsum, hedge⟩
  · exfalso
    rcases slideType_cases _ hs with h' | h' | h' | h' <;> rw [h'] at hp <;> revert hp <;> decide
  obtain ⟨x, y, t, s⟩ := m
  simp only at hx0 hx1 hy0 hy1 hs hne hds hsum hedge
  have hmk := mkSlides_elems s (fun d hd => (hds d hd).2)
  have hds8 : ∀ d ∈ Slides.elems s, d ≤ 8 := fun d hd => (hds d hd).2
  have hlpos : 1 ≤ (Slides.elems s).length := by
    cases hl : Slides.elems s with
    | nil => exact absurd hl hne
    | cons a b => simp
  -- the end square stays on the board: no int8 wrap-around
  have hend : ∃ ex ey, 0 ≤ ex ∧ ex < 8 ∧ 0 ≤ ey ∧ ey < 8 ∧
      endSq t x y ((Slides.elems s).length : Int) = (ex, ey) ∧ slideDir x y ex ey = .ok t ∧
      formatServer ⟨x, y, t, s⟩ = [77] ++ 32 :: (formatSquare x y ++ 32 :: (formatSquare ex ey ++
        (Slides.elems s).flatMap (fun e => 32 :: itoaNat e))) := by
    generalize hL : ((Slides.elems s).length : Int) = L at hedge
    have hL1 : 1 ≤ L := by omega
    rcases slideType_cases t hs with rfl | rfl | rfl | rfl
    · refine ⟨x - L, y, ?_, ?_, hy0, hy1, ?_, ?_, ?_⟩
      · simp [edgeDist, Facts.mtSlideLeft] at hedge; omega
      · omega
      · simp [endSq, Facts.mtSlideLeft, Facts.mtSlideRight]
      · have a : ¬ (x - L > x ∧ y = y) := by omega
        have b : (x - L < x ∧ y = y) := by omega
        unfold slideDir; rw [if_neg a, if_pos b]
      · have hw : wrap8 (x - L) = x - L := by
          simp [edgeDist, Facts.mtSlideLeft] at hedge
          unfold wrap8; omega
        simp [formatServer, Facts.mtSlideLeft, Facts.mtSlideRight, Facts.mtPlaceFlat, Facts.mtPlaceCapstone,
          Facts.mtPlaceStanding, Slides.len, hL, hw]
    · refine ⟨x + L, y, ?_, ?_, hy0, hy1, ?_, ?_, ?_⟩
      · omega
      · simp [edgeDist, Facts.mtSlideLeft, Facts.mtSlideRight] at hedge; omega
      · simp [endSq, Facts.mtSlideRight]
      · have a : (x + L > x ∧ y = y) := by omega
        unfold slideDir; rw [if_pos a]
      · have hw : wrap8 (x + L) = x + L := by
          simp [edgeDist, Facts.mtSlideLeft, Facts.mtSlideRight] at hedge
          unfold wrap8; omega
        simp [formatServer, Facts.mtSlideRight, Facts.mtPlaceFlat, Facts.mtPlaceCapstone,
          Facts.mtPlaceStanding, Slides.len, hL, hw]
    · refine ⟨x, y + L, hx0, hx1, ?_, ?_, ?_, ?_, ?_⟩
      · omega
      · simp [edgeDist, Facts.mtSlideLeft, Facts.mtSlideRight, Facts.mtSlideUp, Facts.mtSlideDown] at hedge; omega
      · simp [endSq, Facts.mtSlideRight, Facts.mtSlideLeft, Facts.mtSlideUp, Facts.mtSlideDown]
      · have a : ¬ (x > x ∧ y + L = y) := by omega
        have b : ¬ (x < x ∧ y + L = y) := by omega
        have c : (y + L > y ∧ x = x) := by omega
        unfold slideDir; rw [if_neg a, if_neg b, if_pos c]
      · have hw : wrap8 (y + L) = y + L := by
          simp [edgeDist, Facts.mtSlideLeft, Facts.mtSlideRight, Facts.mtSlideUp, Facts.mtSlideDown] at hedge
          unfold wrap8; omega
        simp [formatServer, Facts.mtSlideRight, Facts.mtSlideLeft, Facts.mtSlideUp, Facts.mtSlideDown, Facts.mtPlaceFlat,
          Facts.mtPlaceCapstone, Facts.mtPlaceStanding, Slides.len, hL, hw]
    · refine ⟨x, y - L, hx0, hx1, ?_, ?_, ?_, ?_, ?_⟩
      · simp [edgeDist, Facts.mtSlideLeft, Facts.mtSlideRight, Facts.mtSlideUp, Facts.mtSlideDown] at hedge; omega
      · omega
      · simp [endSq, Facts.mtSlideRight, Facts.mtSlideLeft, Facts.mtSlideUp, Facts.mtSlideDown]
      · have a : ¬ (x > x ∧ y - L = y) := by omega
        have b : ¬ (x < x ∧ y - L = y) := by omega
        have c : ¬ (y - L > y ∧ x = x) := by omega
        have d : (y - L < y ∧ x = x) := by omega
        unfold slideDir; rw [if_neg a, if_neg b, if_neg c, if_pos d]
      · have hw : wrap8 (y - L) = y - L := by
          simp [edgeDist, Facts.mtSlideLeft, Facts.mtSlideRight, Facts.mtSlideUp, Facts.mtSlideDown] at hedge
          unfold wrap8; omega
        simp [formatServer, Facts.mtSlideRight, Facts.mtSlideLeft, Facts.mtSlideUp, Facts.mtSlideDown, Facts.mtPlaceFlat,
          Facts.mtPlaceCapstone, Facts.mtPlaceStanding, Slides.len, hL, hw]
  obtain ⟨ex, ey, hex0, hex1, hey0, hey1, _, hdir, hfmt⟩ := hend
  have hsq1 := parseSquare_formatSquare x y hx0 hx1 hy0 hy1
  have hsq2 := parseSquare_formatSquare ex ey hex0 hex1 hey0 hey1
  have hns1 := formatSquare_no_space x y hx0 hx1 hy0 hy1
  have hns2 := formatSquare_no_space ex ey hex0 hex1 hey0 hey1
  unfold parseServer
  rw [hfmt, split_append_sep 32 [77] _ (by decide), split_append_sep 32 _ _ hns1, split_drops _ _ hns2 hds8]
  have hlen : ¬ ((([77] : Bytes) :: formatSquare x y :: formatSquare ex ey ::
      (Slides.elems s).map (fun e => [UInt8.ofNat (48 + e)])).length < 4) := by
    simp only [List.length_cons, List.length_map]; omega
  simp only [word, List.getElem?_cons_zero]
  have h80 : (([77] : Bytes) == [80]) = false := by decide
  have h77 : (([77] : Bytes) == [77]) = true := by decide
  simp only [h80, h77, if_true, Bool.false_eq_true, if_false]
  unfold parseSlide
  simp only [hlen, if_false, word, List.getElem?_cons_succ, List.getElem?_cons_zero, hsq1, hsq2, hdir,
    List.drop_succ_cons, List.drop_zero, parseDrops_digits _ [] hds8, List.nil_append, hmk]


theorem server_rt (size : Nat) (m : Move) (h : LegalShape size m) : parseServer (formatServer m) = .ok m := by
  rcases legalShape_kind h with ⟨hp, _⟩ | ⟨_, hs, _⟩
  · exact server_place_rt size m h hp
  · exact server_slide_rt size m h hs

end Server
end Tak
