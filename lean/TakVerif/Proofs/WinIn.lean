import TakVerif.Spec.WinIn

/-! Generic facts about forced wins within a number of plies (`Spec/WinIn.lean`): inversion, monotonicity in the
clock, and `PlainWin s ↔ ∃ d, WinIn d s`. -/
namespace Spec.Game
open Tak Tak.PN

variable {S M : Type} {G : Game S M} {att : Color}

theorem winIn_zero_iff {s : S} : WinIn G att 0 s ↔ G.over s = some att := by
  constructor
  · intro w; cases w with
    | terminal ho => exact ho
  · exact fun h => .terminal h

theorem winIn_over_iff {d : Nat} {s : S} {w : Color} (ho : G.over s = some w) : WinIn G att d s ↔ w = att := by
  constructor
  · intro h
    cases h with
    | terminal h => rw [ho] at h; exact Option.some.inj h
    | attacker h => rw [ho] at h; cases h
    | defender h => rw [ho] at h; cases h
  · intro e; exact .terminal (by rw [ho, e])

/-- at an unfinished position where the attacker is to move: some move leads to a position won one ply sooner -/
theorem winIn_succ_attacker_iff {d : Nat} {s : S} (ho : G.over s = none) (ht : G.toMove s = att) :
    WinIn G att (d + 1) s ↔ ∃ s', Succ G s s' ∧ WinIn G att d s' := by
  constructor
  · intro h
    cases h with
    | terminal h => rw [ho] at h; cases h
    | attacker _ _ hs hw => exact ⟨_, hs, hw⟩
    | defender _ hne => exact absurd ht hne
  · rintro ⟨s', hs, hw⟩; exact .attacker ho ht hs hw

/-- at an unfinished position where the defender is to move: every move leads to a position won one ply sooner -/
theorem winIn_succ_defender_iff {d : Nat} {s : S} (ho : G.over s = none) (ht : G.toMove s ≠ att) :
    WinIn G att (d + 1) s ↔ ∀ s', Succ G s s' → WinIn G att d s' := by
  constructor
  · intro h
    cases h with
    | terminal h => rw [ho] at h; cases h
    | attacker _ he => exact absurd he ht
    | defender _ _ hall => exact hall
  · intro hall; exact .defender ho ht hall

theorem WinIn.succ {d : Nat} {s : S} (w : WinIn G att d s) : WinIn G att (d + 1) s := by
  induction w with
  | terminal ho => exact .terminal ho
  | attacker ho ht hs _ ih => exact .attacker ho ht hs ih
  | defender ho ht _ ih => exact .defender ho ht ih

/-- more time does not hurt -/
theorem WinIn.mono {d d' : Nat} {s : S} (h : d ≤ d') (w : WinIn G att d s) : WinIn G att d' s := by
  induction h with
  | refl => exact w
  | step _ ih => exact ih.succ

/-- a win within `d` plies is a forced win -/
theorem WinIn.plain {d : Nat} {s : S} (w : WinIn G att d s) : PlainWin G att s := by
  induction w with
  | terminal ho => exact .terminal ho
  | attacker ho ht hs _ ih => exact .attacker ho ht hs ih
  | defender ho ht _ ih => exact .defender ho ht ih

/-- finitely many things that each happen within some number of plies all happen within one number -/
theorem exists_common_bound {α : Type} (P : Nat → α → Prop) (hmono : ∀ d d' a, d ≤ d' → P d a → P d' a) :
    ∀ l : List α, (∀ a ∈ l, ∃ d, P d a) → ∃ d, ∀ a ∈ l, P d a := by
  intro l
  induction l with
  | nil => intro _; exact ⟨0, fun a ha => by cases ha⟩
  | cons x l ih =>
    intro h
    obtain ⟨d1, h1⟩ := h x List.mem_cons_self
    obtain ⟨d2, h2⟩ := ih (fun a ha => h a (List.mem_cons_of_mem _ ha))
    refine ⟨max d1 d2, ?_⟩
    intro a ha
    rcases List.mem_cons.mp ha with e | e
    · subst e; exact hmono _ _ _ (Nat.le_max_left _ _) h1
    · exact hmono _ _ _ (Nat.le_max_right _ _) (h2 a e)

theorem succ_iff_mem {s s' : S} : Succ G s s' ↔ s' ∈ (G.moves s).filterMap (G.apply s) := by
  rw [List.mem_filterMap]
  rfl

/-- a forced win is a win within some number of plies (a position has finitely many moves) -/
theorem PlainWin.exists_winIn {s : S} (w : PlainWin G att s) : ∃ d, WinIn G att d s := by
  induction w with
  | terminal ho => exact ⟨0, .terminal ho⟩
  | attacker ho ht hs _ ih =>
    obtain ⟨d, hd⟩ := ih
    exact ⟨d + 1, .attacker ho ht hs hd⟩
  | @defender s ho ht _ ih =>
    obtain ⟨d, hd⟩ := exists_common_bound (fun d s' => WinIn G att d s') (fun _ _ _ h w => w.mono h)
      ((G.moves s).filterMap (G.apply s)) (fun s' hs' => ih s' (succ_iff_mem.mpr hs'))
    exact ⟨d + 1, .defender ho ht (fun s' hs' => hd s' (succ_iff_mem.mp hs'))⟩

/-- **forced win = win within some number of plies** -/
theorem plainWin_iff_exists_winIn {s : S} : PlainWin G att s ↔ ∃ d, WinIn G att d s :=
  ⟨PlainWin.exists_winIn, fun ⟨_, w⟩ => w.plain⟩

end Spec.Game
