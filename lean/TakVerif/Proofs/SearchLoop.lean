import TakVerif.Proofs.SearchBasic

/-! Hoare-style rules for the move-generator loops (`tryMove`, `runList`, `iterate`): whatever the
hints contain, the loop body only ever sees pairs `(m, child)` with `g.apply p m = .ok child`, and when the
loop runs to its end every legal child of the position has been handed to the body. -/
namespace Search
open Tak (Err)

variable {P M σ ρ : Type}

/-- postcondition shape of a loop (part): on normal exit the invariant holds, coverage facts about the
initial accumulator are kept, and every child in `K` is covered; `Qb`/`Qr` on `break`/`return`. -/
def LoopPost (Inv : σ → Eng M → Prop) (Cov : σ → P → Prop) (Qb : σ → Eng M → Prop) (Qr : ρ → Eng M → Prop)
    (a0 : σ) (K : P → Prop) : Ctl σ ρ × Eng M → Prop
  | (.next a', s') => Inv a' s' ∧ (∀ c', Cov a0 c' → Cov a' c') ∧ (∀ c, K c → Cov a' c)
  | (.brk a', s') => Qb a' s'
  | (.ret r, s') => Qr r s'

/-- contract of a loop body: called on a legal `(m, c)` in a state satisfying the invariant -/
def BodyOK (g : Game P M) (p : P) (body : M → P → σ → Eng M → Except Err (Ctl σ ρ × Eng M))
    (Inv : σ → Eng M → Prop) (Cov : σ → P → Prop) (Qb : σ → Eng M → Prop) (Qr : ρ → Eng M → Prop) : Prop :=
  ∀ m c a s, g.apply p m = .ok c → Inv a s →
    Sat (body m c a s) (LoopPost Inv Cov Qb Qr a (fun c' => c' = c))

section
variable {g : Game P M} {p : P} {body : M → P → σ → Eng M → Except Err (Ctl σ ρ × Eng M)}
  {Inv : σ → Eng M → Prop} {Cov : σ → P → Prop} {Qb : σ → Eng M → Prop} {Qr : ρ → Eng M → Prop}

theorem LoopPost.weaken {a0 : σ} {K K' : P → Prop} {r : Ctl σ ρ × Eng M}
    (h : LoopPost Inv Cov Qb Qr a0 K r) (hk : ∀ c, K' c → K c) : LoopPost Inv Cov Qb Qr a0 K' r := by
  rcases r with ⟨c, s⟩
  cases c with
  | next a => exact ⟨h.1, h.2.1, fun c hc => h.2.2 c (hk c hc)⟩
  | brk a => exact h
  | ret r => exact h

theorem tryMove_rule (hb : BodyOK g p body Inv Cov Qb Qr) (m : M) (a : σ) (s : Eng M) (hi : Inv a s) :
    Sat (tryMove g p body m a s) (LoopPost Inv Cov Qb Qr a (fun c => g.apply p m = .ok c)) := by
  unfold tryMove
  cases h : g.apply p m with
  | ok c =>
    simp only []
    refine (hb m c a s h hi).mono ?_
    intro r hr
    exact hr.weaken (fun c' hc' => by cases hc'; rfl)
  | error e =>
    cases e with
    | illegal w => exact Sat.ok ⟨hi, fun _ h => h, fun c hc => by cases hc⟩
    | panic w => exact Sat.error
    | hang w => exact Sat.error

theorem andThen_rule {a0 : σ} {K1 K2 : P → Prop}
    {r : Except Err (Ctl σ ρ × Eng M)} {k : σ → Eng M → Except Err (Ctl σ ρ × Eng M)}
    (h1 : Sat r (LoopPost Inv Cov Qb Qr a0 K1))
    (h2 : ∀ a s, Inv a s → Sat (k a s) (LoopPost Inv Cov Qb Qr a K2)) :
    Sat (Ctl.andThen r k) (LoopPost Inv Cov Qb Qr a0 (fun c => K1 c ∨ K2 c)) := by
  unfold Ctl.andThen
  cases r with
  | error e => exact Sat.error
  | ok v =>
    rcases v with ⟨c, s⟩
    have h1' := h1 _ rfl
    cases c with
    | next a =>
      simp only []
      obtain ⟨hinv, hmono, hk1⟩ := h1'
      refine (h2 a s hinv).mono ?_
      intro r2 hr2
      rcases r2 with ⟨c2, s2⟩
      cases c2 with
      | next a2 =>
        obtain ⟨hinv2, hmono2, hk2⟩ := hr2
        refine ⟨hinv2, fun c' hc' => hmono2 c' (hmono c' hc'), ?_⟩
        intro c hc
        rcases hc with hc | hc
        · exact hmono2 c (hk1 c hc)
        · exact hk2 c hc
      | brk a2 => exact hr2
      | ret r => exact hr2
    | brk a => exact Sat.ok h1'
    | ret r => exact Sat.ok h1'

theorem runList_rule (hb : BodyOK g p body Inv Cov Qb Qr) (skip : M → Bool) (ms : List M) :
    ∀ (a : σ) (s : Eng M), Inv a s →
      Sat (runList g p body skip ms a s)
        (LoopPost Inv Cov Qb Qr a (fun c => ∃ m ∈ ms, skip m = false ∧ g.apply p m = .ok c)) := by
  induction ms with
  | nil =>
    intro a s hi
    simp only [runList]
    exact Sat.ok ⟨hi, fun _ h => h, fun c hc => by obtain ⟨m, hm, _⟩ := hc; cases hm⟩
  | cons m ms ih =>
    intro a s hi
    simp only [runList]
    by_cases hs : skip m = true
    · simp only [hs, if_true]
      refine (ih a s hi).mono ?_
      intro r hr
      refine hr.weaken ?_
      intro c hc
      obtain ⟨m', hm', hsk, hap⟩ := hc
      rcases List.mem_cons.mp hm' with h | h
      · subst h; rw [hs] at hsk; cases hsk
      · exact ⟨m', h, hsk, hap⟩
    · simp only [hs, if_false]
      refine (andThen_rule (tryMove_rule hb m a s hi) (fun a' s' hi' => ih a' s' hi')).mono ?_
      intro r hr
      refine hr.weaken ?_
      intro c hc
      obtain ⟨m', hm', hsk, hap⟩ := hc
      rcases List.mem_cons.mp hm' with h | h
      · subst h; exact Or.inl hap
      · exact Or.inr ⟨m', h, hsk, hap⟩


theorem MG.teEq_true {g : Game P M} {mg : MG M} {m : M} (h : mg.teEq g m = true) :
    ∃ e, mg.te = some e ∧ g.moveEq e.m m = true := by
  unfold MG.teEq at h
  split at h
  · exact ⟨_, by assumption, h⟩
  · cases h

theorem MG.pvEq_true {g : Game P M} {mg : MG M} {m : M} (h : mg.pvEq g m = true) :
    ∃ x rest, mg.pv = x :: rest ∧ g.moveEq x m = true := by
  unfold MG.pvEq at h
  split at h
  · exact ⟨_, _, by assumption, h⟩
  · cases h

theorem MG.isTe_true {g : Game P M} {mg : MG M} {m : M} (h : mg.isTe g m = true) :
    ∃ e, mg.te = some e ∧ g.moveEq m e.m = true := by
  unfold MG.isTe at h
  split at h
  · exact ⟨_, by assumption, h⟩
  · cases h

/-- hypotheses on the game under which the generator loop covers every legal child:
`Move.Equal` moves behave alike, and the zero move equals no generated move -/
structure GenOK (g : Game P M) (p : P) : Prop where
  eqSound : ∀ a b, g.moveEq a b = true → g.apply p a = g.apply p b
  zeroNe : ∀ m ∈ g.allMoves p, g.moveEq g.zeroMove m = false

/-- the order oracle permutes (at least: preserves membership of) the generated moves -/
def OrderOK (o : Oracle M) : Prop := ∀ k (l : List M) x, x ∈ o.order k l ↔ x ∈ l

theorem stage3_rule [DecidableEq M] (hb : BodyOK g p body Inv Cov Qb Qr) (cfg : SOpts) (o : Oracle M) (mg : MG M)
    (hord : OrderOK o) (hsorts : ∀ a s k, Inv a s → Inv a { s with sorts := k })
    (r? : Option M) (a : σ) (s : Eng M) (hi : Inv a s) :
    Sat (stage3 g cfg o p mg body r? a s)
      (LoopPost Inv Cov Qb Qr a (fun c => ∃ m ∈ g.allMoves p,
        skipGen g mg (r?.getD g.zeroMove) m = false ∧ g.apply p m = .ok c)) := by
  unfold stage3
  simp only []
  by_cases hso : (decide (mg.depth > 1) && !cfg.noSort) = true
  · simp only [hso, if_true]
    refine (runList_rule hb _ _ a _ (hsorts a s _ hi)).mono ?_
    intro r hr
    refine hr.weaken ?_
    intro c hc
    obtain ⟨m, hm, hsk, hap⟩ := hc
    exact ⟨m, (hord _ _ _).mpr hm, hsk, hap⟩
  · simp only [hso]
    exact runList_rule hb _ _ a s hi

/-- invariant-only version of the loop rule: no assumption on the game or on the order oracle -/
theorem iterate_inv [DecidableEq M] (hb : BodyOK g p body Inv Cov Qb Qr) (cfg : SOpts) (o : Oracle M) (mg : MG M)
    (hsorts : ∀ a s k, Inv a s → Inv a { s with sorts := k })
    (a : σ) (s : Eng M) (hi : Inv a s) :
    Sat (iterate g cfg o p mg body a s) (LoopPost Inv Cov Qb Qr a (fun _ => False)) := by
  unfold iterate
  have nof : ∀ {K : P → Prop} {a : σ} {r : Ctl σ ρ × Eng M},
      LoopPost Inv Cov Qb Qr a K r → LoopPost Inv Cov Qb Qr a (fun _ => False) r :=
    fun h => h.weaken (fun _ hc => absurd hc id)
  have h0 : Sat (stage0 g p mg body a s) (LoopPost Inv Cov Qb Qr a (fun _ => False)) := by
    unfold stage0
    cases mg.te with
    | none => exact Sat.ok ⟨hi, fun _ h => h, fun c hc => absurd hc id⟩
    | some e => exact (tryMove_rule hb e.m a s hi).mono (fun _ h => nof h)
  have h1 : ∀ a s, Inv a s → Sat (stage1 g p mg body a s) (LoopPost Inv Cov Qb Qr a (fun _ => False)) := by
    intro a s hi
    unfold stage1
    cases mg.pv with
    | nil => exact Sat.ok ⟨hi, fun _ h => h, fun c hc => absurd hc id⟩
    | cons m rest =>
      dsimp only
      split
      · exact Sat.ok ⟨hi, fun _ h => h, fun c hc => absurd hc id⟩
      · exact (tryMove_rule hb m a s hi).mono (fun _ h => nof h)
  have h3 : ∀ r? a s, Inv a s → Sat (stage3 g cfg o p mg body r? a s) (LoopPost Inv Cov Qb Qr a (fun _ => False)) := by
    intro r? a s hi
    unfold stage3
    dsimp only
    split
    · exact (runList_rule hb _ _ a _ (hsorts a s _ hi)).mono (fun _ h => nof h)
    · exact (runList_rule hb _ _ a s hi).mono (fun _ h => nof h)
  have h23 : ∀ a s, Inv a s → Sat (stage23 g cfg o p mg body a s) (LoopPost Inv Cov Qb Qr a (fun _ => False)) := by
    intro a s hi
    unfold stage23
    cases respLookup mg.ply s with
    | error e => exact Sat.error
    | ok r? =>
      dsimp only
      have hfirst : Sat (match r? with
          | some r => tryMove g p body r a s
          | none => (.ok (.next a, s) : Except Err (Ctl σ ρ × Eng M)))
          (LoopPost Inv Cov Qb Qr a (fun _ => False)) := by
        cases r? with
        | none => exact Sat.ok ⟨hi, fun _ h => h, fun c hc => absurd hc id⟩
        | some r => exact (tryMove_rule hb r a s hi).mono (fun _ h => nof h)
      exact (andThen_rule hfirst (h3 r?)).mono (fun _ h => h.weaken (fun _ hc => absurd hc id))
  exact (andThen_rule (andThen_rule h0 h1) h23).mono (fun _ h => h.weaken (fun _ hc => absurd hc id))

theorem iterate_rule [DecidableEq M] (hb : BodyOK g p body Inv Cov Qb Qr) (cfg : SOpts) (o : Oracle M) (mg : MG M)
    (hg : GenOK g p) (hord : OrderOK o) (hsorts : ∀ a s k, Inv a s → Inv a { s with sorts := k })
    (a : σ) (s : Eng M) (hi : Inv a s) :
    Sat (iterate g cfg o p mg body a s)
      (LoopPost Inv Cov Qb Qr a (fun c => ∃ m ∈ g.allMoves p, g.apply p m = .ok c)) := by
  unfold iterate
  -- stage 0
  have h0 : Sat (stage0 g p mg body a s)
      (LoopPost Inv Cov Qb Qr a (fun c => ∃ e, mg.te = some e ∧ g.apply p e.m = .ok c)) := by
    unfold stage0
    cases hte : mg.te with
    | none => exact Sat.ok ⟨hi, fun _ h => h, fun c hc => by obtain ⟨e, he, _⟩ := hc; cases he⟩
    | some e =>
      refine (tryMove_rule hb e.m a s hi).mono ?_
      intro r hr
      exact hr.weaken (fun c hc => by obtain ⟨e', he', hap⟩ := hc; cases he'; exact hap)
  -- stage 1
  have h1 : ∀ a s, Inv a s → Sat (stage1 g p mg body a s)
      (LoopPost Inv Cov Qb Qr a (fun c => ∃ m rest, mg.pv = m :: rest ∧
        mg.isTe g m = false ∧ g.apply p m = .ok c)) := by
    intro a s hi
    unfold stage1
    cases hpv : mg.pv with
    | nil => exact Sat.ok ⟨hi, fun _ h => h, fun c hc => by obtain ⟨m, rest, he, _⟩ := hc; cases he⟩
    | cons m rest =>
      simp only []
      by_cases hm : mg.isTe g m = true
      · simp only [hm, if_true]
        refine Sat.ok ⟨hi, fun _ h => h, ?_⟩
        intro c hc
        obtain ⟨m', rest', he, hf, _⟩ := hc
        cases he
        rw [hm] at hf; cases hf
      · simp only [hm]
        refine (tryMove_rule hb m a s hi).mono ?_
        intro r hr
        exact hr.weaken (fun c hc => by obtain ⟨m', rest', he, _, hap⟩ := hc; cases he; exact hap)
  -- stages 2 and 3: every legal generated move that is not `Equal` to the table move or the PV hint
  have h23 : ∀ a s, Inv a s → Sat (stage23 g cfg o p mg body a s)
      (LoopPost Inv Cov Qb Qr a (fun c => ∃ m ∈ g.allMoves p, g.apply p m = .ok c ∧
        mg.teEq g m = false ∧
        mg.pvEq g m = false)) := by
    intro a s hi
    unfold stage23
    cases hr : respLookup mg.ply s with
    | error e => exact Sat.error
    | ok r? =>
      have hfirst : Sat (match r? with
          | some r => tryMove g p body r a s
          | none => (.ok (.next a, s) : Except Err (Ctl σ ρ × Eng M)))
          (LoopPost Inv Cov Qb Qr a (fun c => ∃ r, r? = some r ∧ g.apply p r = .ok c)) := by
        cases r? with
        | none => exact Sat.ok ⟨hi, fun _ h => h, fun c hc => by obtain ⟨r, he, _⟩ := hc; cases he⟩
        | some r =>
          refine (tryMove_rule hb r a s hi).mono ?_
          intro x hx
          exact hx.weaken (fun c hc => by obtain ⟨r', he, hap⟩ := hc; cases he; exact hap)
      refine (andThen_rule hfirst (fun a' s' hi' => stage3_rule hb cfg o mg hord hsorts r? a' s' hi')).mono ?_
      intro x hx
      refine hx.weaken ?_
      intro c hc
      obtain ⟨m, hm, hap, hte, hpv⟩ := hc
      by_cases hrm : g.moveEq (r?.getD g.zeroMove) m = true
      · cases r? with
        | none =>
          simp only [Option.getD_none] at hrm
          rw [hg.zeroNe m hm] at hrm; cases hrm
        | some r =>
          simp only [Option.getD_some] at hrm
          exact Or.inl ⟨r, rfl, by rw [hg.eqSound r m hrm]; exact hap⟩
      · refine Or.inr ⟨m, hm, ?_, hap⟩
        unfold skipGen
        rw [hte, hpv]
        simpa using hrm
  refine (andThen_rule (andThen_rule h0 h1) h23).mono ?_
  intro x hx
  refine hx.weaken ?_
  intro c hc
  obtain ⟨m, hm, hap⟩ := hc
  by_cases hte : mg.teEq g m = true
  · -- the table move stands for m
    obtain ⟨e, he, hem⟩ := MG.teEq_true hte
    exact Or.inl (Or.inl ⟨e, he, by rw [hg.eqSound e.m m hem]; exact hap⟩)
  · by_cases hpv : mg.pvEq g m = true
    · obtain ⟨x, rest, hx', hxm'⟩ := MG.pvEq_true hpv
      have hxm : g.apply p x = .ok c := by rw [hg.eqSound x m hxm']; exact hap
      by_cases hxt : mg.isTe g x = true
      · obtain ⟨e, he, hxe⟩ := MG.isTe_true hxt
        exact Or.inl (Or.inl ⟨e, he, by rw [← hg.eqSound x e.m hxe]; exact hxm⟩)
      · exact Or.inl (Or.inr ⟨x, rest, hx', by simpa using hxt, hxm⟩)
    · exact Or.inr ⟨m, hm, hap, by simpa using hte, by simpa using hpv⟩
end
end Search
