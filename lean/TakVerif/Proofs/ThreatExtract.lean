import TakVerif.Proofs.Road
import TakVerif.Impl.Evaluate

/-! C19, step 1: a positive count of `CountThreats` yields a concrete counted square together with the
group(s) it completes and the way it can be filled.  Pure combinatorics over the model. -/
namespace C19
open Tak Roads

theorem popcount_pos_bit {x : W} (h : 0 < popcount x) : ∃ i, x.getLsbD i = true := by
  apply exists_bit_of_ne_zero
  intro e
  subst e
  simp [popcount, popcountFuel] at h

theorem sum_pos_mem {α : Type} (l : List α) (f : α → Nat) (h : 0 < (l.map f).sum) : ∃ x ∈ l, 0 < f x := by
  induction l with
  | nil => simp at h
  | cons a l ih =>
    simp only [List.map_cons, List.sum_cons] at h
    by_cases ha : 0 < f a
    · exact ⟨a, by simp, ha⟩
    · obtain ⟨x, hx, hfx⟩ := ih (by omega)
      exact ⟨x, by simp [hx], hfx⟩

theorem mem_threatMapsAll (c : Consts) (p : Pos) (e pc sg : W) (prev rest : List W) (m : W × W)
    (h : m ∈ threatMapsAll c p e pc sg prev rest) :
    ∃ pre g post, rest = pre ++ g :: post ∧ m = threatMaps c p e pc sg (prev ++ pre) g := by
  induction rest generalizing prev with
  | nil => simp [threatMapsAll] at h
  | cons g rest ih =>
    unfold threatMapsAll at h
    split at h
    · obtain ⟨pre, g', post, h1, h2⟩ := ih (prev ++ [g]) h
      refine ⟨g :: pre, g', post, by simp [h1], ?_⟩
      rw [h2]; simp
    · rcases List.mem_cons.mp h with h | h
      · exact ⟨[], g, rest, by simp, by simpa using h⟩
      · obtain ⟨pre, g', post, h1, h2⟩ := ih (prev ++ [g]) h
        refine ⟨g :: pre, g', post, by simp [h1], ?_⟩
        rw [h2]; simp

/-- a bit of the place map after the inner loop: from the edge part or from one partner -/
theorem foldl_pairMaps_bit1 (c : Consts) (p : Pos) (e pc g : W) (l : List W) (m0 : W × W) (i : Nat)
    (h : (l.foldl (pairMaps c p e pc g) m0).1.getLsbD i = true) :
    m0.1.getLsbD i = true ∨ ∃ o ∈ l, opposed c g o = true ∧
      (Gen.grow c c.Mask g).getLsbD i = true ∧ (Gen.grow c c.Mask o).getLsbD i = true ∧ e.getLsbD i = true := by
  induction l generalizing m0 with
  | nil => exact Or.inl h
  | cons o l ih =>
    simp only [List.foldl_cons] at h
    rcases ih _ h with h1 | ⟨o', ho', h2⟩
    · unfold pairMaps at h1
      split at h1
      · exact Or.inl h1
      · rename_i hop
        simp only [BitVec.getLsbD_or, BitVec.getLsbD_and, Bool.or_eq_true, Bool.and_eq_true] at h1
        rcases h1 with h1 | ⟨⟨a, b⟩, d⟩
        · exact Or.inl h1
        · exact Or.inr ⟨o, by simp, by simpa using hop, a, b, d⟩
    · exact Or.inr ⟨o', by simp [ho'], h2⟩

/-- a bit of the slide map after the inner loop -/
theorem foldl_pairMaps_bit2 (c : Consts) (p : Pos) (e pc g : W) (l : List W) (m0 : W × W) (i : Nat)
    (h : (l.foldl (pairMaps c p e pc g) m0).2.getLsbD i = true) :
    m0.2.getLsbD i = true ∨ ∃ o ∈ l, opposed c g o = true ∧
      (Gen.grow c c.Mask g).getLsbD i = true ∧ (Gen.grow c c.Mask o).getLsbD i = true ∧
      (slideMap c p pc (g ||| o)).getLsbD i = true := by
  induction l generalizing m0 with
  | nil => exact Or.inl h
  | cons o l ih =>
    simp only [List.foldl_cons] at h
    rcases ih _ h with h1 | ⟨o', ho', h2⟩
    · unfold pairMaps at h1
      split at h1
      · exact Or.inl h1
      · rename_i hop
        simp only [BitVec.getLsbD_or, BitVec.getLsbD_and, Bool.or_eq_true, Bool.and_eq_true] at h1
        rcases h1 with h1 | ⟨⟨a, b⟩, d⟩
        · exact Or.inl h1
        · exact Or.inr ⟨o, by simp, by simpa using hop, a, b, d⟩
    · exact Or.inr ⟨o', by simp [ho'], h2⟩

/-- the four edge-gap shapes: `g` touches an edge and reaches to one step before the opposite edge at `i` -/
def EdgeGap (c : Consts) (g : W) (i : Nat) : Prop :=
  ((g &&& c.L != 0#64) = true ∧ (g >>> 1).getLsbD i = true ∧ c.R.getLsbD i = true) ∨
  ((g &&& c.R != 0#64) = true ∧ (g <<< 1).getLsbD i = true ∧ c.L.getLsbD i = true) ∨
  ((g &&& c.T != 0#64) = true ∧ (g >>> c.Size).getLsbD i = true ∧ c.B.getLsbD i = true) ∨
  ((g &&& c.B != 0#64) = true ∧ (g <<< c.Size).getLsbD i = true ∧ c.T.getLsbD i = true)

theorem ite_or_bit1 (cnd : Prop) [Decidable cnd] (m : W × W) (a b : W) (i : Nat)
    (h : (if cnd then (m.1 ||| a, m.2 ||| b) else m).1.getLsbD i = true) :
    m.1.getLsbD i = true ∨ (cnd ∧ a.getLsbD i = true) := by
  split at h
  · rename_i hc
    simp only [BitVec.getLsbD_or, Bool.or_eq_true] at h
    rcases h with h | h
    · exact Or.inl h
    · exact Or.inr ⟨hc, h⟩
  · exact Or.inl h

theorem ite_or_bit2 (cnd : Prop) [Decidable cnd] (m : W × W) (a b : W) (i : Nat)
    (h : (if cnd then (m.1 ||| a, m.2 ||| b) else m).2.getLsbD i = true) :
    m.2.getLsbD i = true ∨ (cnd ∧ b.getLsbD i = true) := by
  split at h
  · rename_i hc
    simp only [BitVec.getLsbD_or, Bool.or_eq_true] at h
    rcases h with h | h
    · exact Or.inl h
    · exact Or.inr ⟨hc, h⟩
  · exact Or.inl h

theorem and3_bit {a b d : W} {i : Nat} (h : (a &&& b &&& d).getLsbD i = true) :
    a.getLsbD i = true ∧ b.getLsbD i = true ∧ d.getLsbD i = true := by
  simp only [BitVec.getLsbD_and, Bool.and_eq_true] at h
  exact ⟨h.1.1, h.1.2, h.2⟩

theorem edgeMaps_bit1 (c : Consts) (p : Pos) (e pc g : W) (i : Nat)
    (h : (edgeMaps c p e pc g).1.getLsbD i = true) : EdgeGap c g i ∧ e.getLsbD i = true := by
  unfold edgeMaps at h
  simp only [] at h
  unfold EdgeGap
  rcases ite_or_bit1 _ _ _ _ _ h with h | ⟨hc, h⟩
  · rcases ite_or_bit1 _ _ _ _ _ h with h | ⟨hc, h⟩
    · rcases ite_or_bit1 _ _ _ _ _ h with h | ⟨hc, h⟩
      · rcases ite_or_bit1 _ _ _ _ _ h with h | ⟨hc, h⟩
        · simp at h
        · obtain ⟨x, y, z⟩ := and3_bit h
          exact ⟨Or.inl ⟨by simpa using hc, x, z⟩, y⟩
      · obtain ⟨x, y, z⟩ := and3_bit h
        exact ⟨Or.inr (Or.inl ⟨by simpa using hc, x, z⟩), y⟩
    · obtain ⟨x, y, z⟩ := and3_bit h
      exact ⟨Or.inr (Or.inr (Or.inl ⟨by simpa using hc, x, z⟩)), y⟩
  · obtain ⟨x, y, z⟩ := and3_bit h
    exact ⟨Or.inr (Or.inr (Or.inr ⟨by simpa using hc, x, z⟩)), y⟩

theorem edgeMaps_bit2 (c : Consts) (p : Pos) (e pc g : W) (i : Nat)
    (h : (edgeMaps c p e pc g).2.getLsbD i = true) :
    EdgeGap c g i ∧ (slideMap c p pc g).getLsbD i = true := by
  unfold edgeMaps at h
  simp only [] at h
  unfold EdgeGap
  rcases ite_or_bit2 _ _ _ _ _ h with h | ⟨hc, h⟩
  · rcases ite_or_bit2 _ _ _ _ _ h with h | ⟨hc, h⟩
    · rcases ite_or_bit2 _ _ _ _ _ h with h | ⟨hc, h⟩
      · rcases ite_or_bit2 _ _ _ _ _ h with h | ⟨hc, h⟩
        · simp at h
        · obtain ⟨x, y, z⟩ := and3_bit h
          exact ⟨Or.inl ⟨by simpa using hc, x, z⟩, y⟩
      · obtain ⟨x, y, z⟩ := and3_bit h
        exact ⟨Or.inr (Or.inl ⟨by simpa using hc, x, z⟩), y⟩
    · obtain ⟨x, y, z⟩ := and3_bit h
      exact ⟨Or.inr (Or.inr (Or.inl ⟨by simpa using hc, x, z⟩)), y⟩
  · obtain ⟨x, y, z⟩ := and3_bit h
    exact ⟨Or.inr (Or.inr (Or.inr ⟨by simpa using hc, x, z⟩)), y⟩

/-- elements of `lowBits` are single squares of the word -/
theorem mem_lowBits (n : Nat) (s o : W) (h : o ∈ lowBits n s) :
    ∃ k, k < 64 ∧ s.getLsbD k = true ∧ ∀ i, o.getLsbD i = decide (i = k) := by
  induction n generalizing s with
  | zero => simp [lowBits] at h
  | succ n ih =>
    unfold lowBits at h
    split at h
    · simp at h
    · rename_i hs
      have hne : s ≠ 0#64 := by simpa using hs
      obtain ⟨k, hk64, hk, _, hnext, hlow⟩ := exists_lowest s hne
      simp only [] at h
      rcases List.mem_cons.mp h with h | h
      · subst h; exact ⟨k, hk64, hk, hlow⟩
      · obtain ⟨k', h1, h2, h3⟩ := ih _ h
        rw [hnext] at h2
        simp only [Bool.and_eq_true] at h2
        exact ⟨k', h1, h2.1, h3⟩

theorem foldl_andnot_bit (gs : List W) (x : W) (k : Nat)
    (h : (gs.foldl (fun s g => s &&& ~~~g) x).getLsbD k = true) :
    x.getLsbD k = true ∧ ∀ g ∈ gs, g.getLsbD k = false := by
  induction gs generalizing x with
  | nil => exact ⟨h, by simp⟩
  | cons g gs ih =>
    simp only [List.foldl_cons] at h
    obtain ⟨h1, h2⟩ := ih _ h
    simp only [BitVec.getLsbD_and, BitVec.getLsbD_not, Bool.and_eq_true] at h1
    refine ⟨h1.1, ?_⟩
    intro g' hg'
    rcases List.mem_cons.mp hg' with e | e
    · subst e
      have := h1.2
      simp only [Bool.not_eq_true', decide_eq_true_eq] at this
      exact this.2
    · exact h2 g' e

/-- the single flats of a side: its flats outside every group -/
def singlesOf (gs : List W) (pieces : W) : W := gs.foldl (fun s g => s &&& ~~~g) pieces

/-- **What a positive count means.**  Some group `g` of the list and some square `s` such that either `g`
reaches from one edge to one step before the opposite edge at `s`, or `g` and a partner `o` (another group of
the list or a single flat) touch opposite edges and `s` is next to both; and `s` is empty (place map) or
reachable by a one-step slide of a flat of the side that belongs to neither (slide map). -/
theorem countOne_pos (c : Consts) (p : Pos) (gs : List W) (pieces : W)
    (h : 0 < (countOne c p gs pieces).1 + (countOne c p gs pieces).2) :
    ∃ g ∈ gs, ∃ s,
      (EdgeGap c g s ∧
        ((c.Mask &&& ~~~(p.white ||| p.black)).getLsbD s = true ∨ (slideMap c p pieces g).getLsbD s = true)) ∨
      (∃ o, (o ∈ gs ∨ o ∈ lowBits 64 (singlesOf gs pieces)) ∧ opposed c g o = true ∧
        (Gen.grow c c.Mask g).getLsbD s = true ∧ (Gen.grow c c.Mask o).getLsbD s = true ∧
        ((c.Mask &&& ~~~(p.white ||| p.black)).getLsbD s = true ∨
          (slideMap c p pieces (g ||| o)).getLsbD s = true)) := by
  unfold countOne at h
  simp only [] at h
  -- one of the two sums is positive
  have key : ∀ m ∈ threatMapsAll c p (c.Mask &&& ~~~(p.white ||| p.black)) pieces (singlesOf gs pieces) [] gs,
      ∀ s, (m.1.getLsbD s = true ∨ m.2.getLsbD s = true) →
      ∃ g ∈ gs, ∃ s,
      (EdgeGap c g s ∧
        ((c.Mask &&& ~~~(p.white ||| p.black)).getLsbD s = true ∨ (slideMap c p pieces g).getLsbD s = true)) ∨
      (∃ o, (o ∈ gs ∨ o ∈ lowBits 64 (singlesOf gs pieces)) ∧ opposed c g o = true ∧
        (Gen.grow c c.Mask g).getLsbD s = true ∧ (Gen.grow c c.Mask o).getLsbD s = true ∧
        ((c.Mask &&& ~~~(p.white ||| p.black)).getLsbD s = true ∨
          (slideMap c p pieces (g ||| o)).getLsbD s = true)) := by
    intro m hm s hs
    obtain ⟨pre, g, post, hgs, hmeq⟩ := mem_threatMapsAll _ _ _ _ _ _ _ _ hm
    have hg : g ∈ gs := by rw [hgs]; simp
    have hpre : ∀ o, o ∈ ([] ++ pre) ++ lowBits 64 (singlesOf gs pieces) →
        o ∈ gs ∨ o ∈ lowBits 64 (singlesOf gs pieces) := by
      intro o ho
      simp only [List.nil_append, List.mem_append] at ho
      rcases ho with ho | ho
      · left; rw [hgs]; simp [ho]
      · right; exact ho
    refine ⟨g, hg, s, ?_⟩
    subst hmeq
    unfold threatMaps at hs
    rcases hs with hs | hs
    · rcases foldl_pairMaps_bit1 _ _ _ _ _ _ _ _ hs with h1 | ⟨o, ho, hop, a, b, d⟩
      · obtain ⟨x, y⟩ := edgeMaps_bit1 _ _ _ _ _ _ h1
        exact Or.inl ⟨x, Or.inl y⟩
      · exact Or.inr ⟨o, hpre o ho, hop, a, b, Or.inl d⟩
    · rcases foldl_pairMaps_bit2 _ _ _ _ _ _ _ _ hs with h1 | ⟨o, ho, hop, a, b, d⟩
      · obtain ⟨x, y⟩ := edgeMaps_bit2 _ _ _ _ _ _ h1
        exact Or.inl ⟨x, Or.inr y⟩
      · exact Or.inr ⟨o, hpre o ho, hop, a, b, Or.inr d⟩
  by_cases h1 : 0 < ((threatMapsAll c p (c.Mask &&& ~~~(p.white ||| p.black)) pieces
      (List.foldl (fun s g => s &&& ~~~g) pieces gs) [] gs).map (fun m => popcount m.1)).sum
  · obtain ⟨m, hm, hpos⟩ := sum_pos_mem _ _ h1
    obtain ⟨s, hs⟩ := popcount_pos_bit hpos
    exact key m hm s (Or.inl hs)
  · have h2 : 0 < ((threatMapsAll c p (c.Mask &&& ~~~(p.white ||| p.black)) pieces
      (List.foldl (fun s g => s &&& ~~~g) pieces gs) [] gs).map (fun m => popcount m.2)).sum := by omega
    obtain ⟨m, hm, hpos⟩ := sum_pos_mem _ _ h2
    obtain ⟨s, hs⟩ := popcount_pos_bit hpos
    exact key m hm s (Or.inr hs)

end C19
