import TakVerif.Impl.FPATotal

/-! The scripted moves of the FPA rules are flat placements or one-square slides, never the pass
(helper for `Props/C07_fpa2.lean`: the moves of the bot's record are placements or slides). -/
namespace Tak.FPA
open Tak

theorem dir_type {x y ex ey : Int} {ty : Nat} (h : dir x y ex ey = .ok ty) : ty ≠ Facts.mtPass := by
  unfold dir at h
  split at h
  · injection h with h; rw [← h]; decide
  · split at h
    · injection h with h; rw [← h]; decide
    · split at h
      · injection h with h; rw [← h]; decide
      · split at h
        · injection h with h; rw [← h]; decide
        · cases h

theorem place_type (x y : Int) : (place x y).type ≠ Facts.mtPass := by
  show Facts.mtPlaceFlat ≠ Facts.mtPass
  decide

theorem cairnBlackSquare_type (v : View) (wx wy : Int) : ∀ (l : List (Int × Int)) (m : Move),
    cairnBlackSquare v wx wy l = .ok m → m.type ≠ Facts.mtPass
  | [], m, h => by cases h
  | (ox, oy) :: rest, m, h => by
    unfold cairnBlackSquare at h
    dsimp only at h
    split at h
    · exact cairnBlackSquare_type v wx wy rest m h
    · split at h
      · injection h with h; rw [← h]; exact place_type _ _
      · exact cairnBlackSquare_type v wx wy rest m h

theorem cairnWhiteSlide_type (v : View) (r : Rule) : ∀ (l : List Nat) (m : Move), (∀ ty ∈ l, ty ≠ Facts.mtPass) →
    cairnWhiteSlide v r l = .ok m → m.type ≠ Facts.mtPass
  | [], m, _, h => by cases h
  | ty :: rest, m, hl, h => by
    unfold cairnWhiteSlide at h
    dsimp only at h
    split at h
    · cases h
    · split at h
      · injection h with h; rw [← h]; exact hl ty (List.mem_cons_self ..)
      · exact cairnWhiteSlide_type v r rest m (fun t ht => hl t (List.mem_cons_of_mem _ ht)) h

/-- **a scripted move is never the pass** -/
theorem getMove_not_pass {var : Variant} {r : Rule} {v : View} {m : Move} (h : getMove var r v = .ok (some m)) :
    m.type ≠ Facts.mtPass := by
  cases var with
  | center =>
    unfold getMove at h
    dsimp only at h
    split at h
    · cases h
    · injection h with h; injection h with h; rw [← h]; exact place_type _ _
  | doubleStack =>
    unfold getMove at h
    dsimp only at h
    split at h
    · -- ply 2
      cases ha : adjacent v r.whitePlaceX r.whitePlaceY with
      | error e => rw [ha] at h; cases h
      | ok xy =>
        obtain ⟨ex, ey⟩ := xy
        rw [ha] at h
        simp only [bind, Except.bind] at h
        cases hd : dir r.whitePlaceX r.whitePlaceY ex ey with
        | error e => rw [hd] at h; cases h
        | ok ty =>
          rw [hd] at h
          injection h with h; injection h with h; rw [← h]; exact dir_type hd
    · split at h
      · cases ha : adjacentAvoiding v r.blackPlaceX r.blackPlaceY r.whitePlaceX r.whitePlaceY with
        | error e => rw [ha] at h; cases h
        | ok xy =>
          obtain ⟨ex, ey⟩ := xy
          rw [ha] at h
          simp only [bind, Except.bind] at h
          injection h with h; injection h with h; rw [← h]; exact place_type _ _
      · split at h
        · cases hd : dir r.whiteTmpX r.whiteTmpY r.whitePlaceX r.whitePlaceY with
          | error e => rw [hd] at h; cases h
          | ok ty =>
            rw [hd] at h
            simp only [bind, Except.bind] at h
            injection h with h; injection h with h; rw [← h]; exact dir_type hd
        · split at h
          · cases hd : dir r.blackTmpX r.blackTmpY r.blackPlaceX r.blackPlaceY with
            | error e => rw [hd] at h; cases h
            | ok ty =>
              rw [hd] at h
              simp only [bind, Except.bind] at h
              injection h with h; injection h with h; rw [← h]; exact dir_type hd
          · cases h
  | cairn =>
    unfold getMove at h
    dsimp only at h
    split at h
    · cases ha : adjacent v (mid v) (mid v) with
      | error e => rw [ha] at h; cases h
      | ok xy =>
        obtain ⟨ex, ey⟩ := xy
        rw [ha] at h
        simp only [bind, Except.bind] at h
        injection h with h; injection h with h; rw [← h]; exact place_type _ _
    · split at h
      · split at h
        · rename_i m' hm'
          injection h with h; injection h with h; rw [← h]
          exact cairnBlackSquare_type _ _ _ _ _ hm'
        · cases h
      · split at h
        · split at h
          · rename_i m' hm'
            injection h with h; injection h with h; rw [← h]
            exact cairnWhiteSlide_type _ _ _ _ (by decide) hm'
          · cases h
        · split at h
          · cases hd : dir r.blackPlaceX r.blackPlaceY r.whitePlaceX r.whitePlaceY with
            | error e => rw [hd] at h; cases h
            | ok ty =>
              rw [hd] at h
              simp only [bind, Except.bind] at h
              injection h with h; injection h with h; rw [← h]; exact dir_type hd
          · cases h

theorem getMoveD_not_pass {var : Variant} {r : Rule} {v : View} {m : Move} (h : getMoveD var r v = .ok (some m)) :
    m.type ≠ Facts.mtPass := by
  cases var with
  | center =>
    have h' : getMove .center r v = .ok (some m) := h
    exact getMove_not_pass h'
  | doubleStack =>
    have h' : (match getMove .doubleStack r v with | .ok y => .ok y | .error _ => .ok none : R (Option Move)) = .ok (some m) := h
    cases hg : getMove .doubleStack r v with
    | ok y => rw [hg] at h'; exact getMove_not_pass (hg.trans h')
    | error e => rw [hg] at h'; cases h'
  | cairn =>
    have h' : (match getMove .cairn r v with | .ok y => .ok y | .error _ => .ok none : R (Option Move)) = .ok (some m) := h
    cases hg : getMove .cairn r v with
    | ok y => rw [hg] at h'; exact getMove_not_pass (hg.trans h')
    | error e => rw [hg] at h'; cases h'

end Tak.FPA
