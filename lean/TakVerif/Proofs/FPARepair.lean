import TakVerif.Spec.FPARepair
import TakVerif.Proofs.Glue
import TakVerif.Proofs.SpecConserve

/-! The code with `fixes/C07-fpa-record-notes.diff` (notes rebuilt from the record on every call) plays the opening
game of C20 exactly as the code before it did when that was shown every pair of the record once, in order: the
record-based game `Spec.FPA.ReachR` is simulated by the incremental game `Spec.FPA.Reach`, whatever notes the rule value
held at the start.  So `C20.Holds` (the evaluated shards) carries over to the repaired code without evaluating
anything again. -/
namespace Proofs.FPARepair
open Tak Tak.FPA Spec.FPA

/-- `LegalMove` pair after pair without the reset: what the rule value of the code before the patch holds when it was
shown every pair once, in order -/
def chain (var : Variant) : Rule → List (View × Move) → R Rule
  | r, [] => .ok r
  | r, (v, m) :: rest =>
    match legalMove var r v m with
    | .error e => .error e
    | .ok (r', _) => chain var r' rest

/-- the pairs of a record carry the plies `k, k+1, …` -/
def Plies : Int → List (View × Move) → Prop
  | _, [] => True
  | k, (v, _) :: rest => v.ply = k ∧ Plies (k + 1) rest

theorem plies_mem : ∀ (l : List (View × Move)) (k : Int), Plies k l → ∀ x ∈ l, k ≤ x.1.ply
  | [], _, _, _, hx => by cases hx
  | (v, m) :: rest, k, h, x, hx => by
    rcases List.mem_cons.mp hx with rfl | hx
    · exact Int.le_of_eq h.1.symm
    · have := plies_mem rest (k + 1) h.2 x hx; omega

theorem plies_append : ∀ (l : List (View × Move)) (k : Int) (v : View) (m : Move),
    Plies k l → v.ply = k + l.length → Plies k (l ++ [(v, m)])
  | [], k, v, m, _, hv => ⟨by simpa using hv, trivial⟩
  | (w, n) :: rest, k, v, m, h, hv =>
    ⟨h.1, plies_append rest (k + 1) v m h.2 (by simp only [List.length_cons] at hv; omega)⟩

theorem plies_dropLast : ∀ (l : List (View × Move)) (k : Int), Plies k l → Plies k l.dropLast
  | [], _, _ => trivial
  | [_], _, _ => trivial
  | (v, m) :: b :: rest, k, h => ⟨h.1, plies_dropLast (b :: rest) (k + 1) h.2⟩

theorem replay_eq_chain (var : Variant) : ∀ (l : List (View × Move)) (k : Int) (r : Rule), 1 ≤ k → Plies k l →
    replay var r l = chain var r l
  | [], _, _, _, _ => rfl
  | (v, m) :: rest, k, r, hk, h => by
    have hv : ¬ v.ply = 0 := by have := h.1; omega
    unfold replay chain legalMoveR
    rw [if_neg hv]
    cases legalMove var r v m with
    | error e => rfl
    | ok x => exact replay_eq_chain var rest (k + 1) x.1 (by omega) h.2

/-- a replay of a record that starts with the first move of a game does not depend on the notes it starts from -/
theorem replay_first (var : Variant) (X : Rule) (v : View) (m : Move) (rest : List (View × Move))
    (h0 : v.ply = 0) (hp : Plies 1 rest) : replay var X ((v, m) :: rest) = chain var {} ((v, m) :: rest) := by
  unfold replay chain legalMoveR
  rw [if_pos h0]
  cases legalMove var {} v m with
  | error e => rfl
  | ok x => exact replay_eq_chain var rest 1 x.1 (by omega) hp

/-- **the notes the repaired `GetMove` judges the newest pair with** are those of the incremental chain over the older
pairs, whatever the rule value held on entry -/
theorem entryNotes_eq (var : Variant) (X : Rule) (ply : Int) (l : List (View × Move)) (hply : ply > 0)
    (hne : l ≠ []) (hp : Plies 0 l) : entryNotes var X ply l = chain var {} l.dropLast := by
  unfold entryNotes
  rw [if_pos hply]
  match l, hne, hp with
  | [(v, _)], _, hp =>
    have h0 : v.ply = 0 := hp.1
    simp only [List.getLast?_singleton, List.dropLast_singleton, replay, h0, if_true, chain]
  | (v, m) :: b :: rest, _, hp =>
    have h0 : v.ply = 0 := hp.1
    obtain ⟨x, hx⟩ : ∃ x, ((v, m) :: b :: rest).getLast? = some x := by
      cases hl : ((v, m) :: b :: rest).getLast? with
      | none => simp at hl
      | some x => exact ⟨x, rfl⟩
    have hxm : x ∈ b :: rest := by
      rw [List.getLast?_cons_cons] at hx
      exact List.mem_of_getLast? hx
    have hx1 : ¬ x.1.ply = 0 := by
      have := plies_mem (b :: rest) 1 hp.2 x hxm; omega
    rw [hx]
    have hd : ((v, m) :: b :: rest).dropLast = (v, m) :: (b :: rest).dropLast := rfl
    rw [hd, replay_first var X v m _ h0 (plies_dropLast (b :: rest) 1 hp.2)]
    cases chain var {} ((v, m) :: (b :: rest).dropLast) with
    | error e => rfl
    | ok r1 => simp only [hx1, if_false]

theorem chain_append (var : Variant) : ∀ (l : List (View × Move)) (r : Rule) (v : View) (m : Move),
    chain var r (l ++ [(v, m)]) = match chain var r l with
      | .error e => .error e
      | .ok r1 => match legalMove var r1 v m with
        | .error e => .error e
        | .ok (r', _) => .ok r'
  | [], r, v, m => by
    simp only [List.nil_append, chain]
  | (w, n) :: rest, r, v, m => by
    simp only [List.cons_append, chain]
    cases legalMove var r w n with
    | error e => rfl
    | ok x => exact chain_append var rest x.1 v m

/-- at ply 0 no script reads the notes -/
theorem getMove_ply0 (var : Variant) (r : Rule) (v : View) (h : v.ply = 0) : getMove var r v = getMove var {} v := by
  cases var <;> simp [getMove, h]

/-- what a call does to the notes: nothing on a start position, `LegalMove` on the newest pair otherwise -/
theorem turn_rule (var : Variant) (color : Color) (r r' : Rule) (view : View) (toMove : Color)
    (prev : Option (View × Move)) (rep : Reply)
    (h : FPA.friendlyGetMove var color r view toMove prev = .ok (r', rep)) :
    (¬ view.ply > 0 → r' = r) ∧
    (view.ply > 0 → ∃ pv pm ok, prev = some (pv, pm) ∧ legalMove var r pv pm = .ok (r', ok)) := by
  rw [Tak.Glue.fpa_cases] at h
  by_cases hp : view.ply > 0
  · refine ⟨fun hn => absurd hp hn, fun _ => ?_⟩
    simp only [hp, if_true] at h
    cases prev with
    | none => cases h
    | some pq =>
      obtain ⟨pv, pm⟩ := pq
      simp only at h
      cases hl : legalMove var r pv pm with
      | error e => rw [hl] at h; cases h
      | ok x =>
        obtain ⟨r1, ok⟩ := x
        rw [hl] at h
        refine ⟨pv, pm, ok, rfl, ?_⟩
        cases ok with
        | false => simp only at h; cases h; exact hl
        | true =>
          simp only at h
          split at h
          · cases h; exact hl
          · split at h <;> first | (cases h; exact hl) | cases h
  · refine ⟨fun _ => ?_, fun hh => absurd hh hp⟩
    simp only [hp, if_false, pure, Except.pure] at h
    split at h
    · cases h; rfl
    · split at h <;> first | (cases h; rfl) | cases h

/-- on a start position the call does not look at the notes -/
theorem fgm_ply0 (var : Variant) (color : Color) (r : Rule) (view : View) (toMove : Color) (prev : Option (View × Move))
    (h0 : view.ply = 0) :
    FPA.friendlyGetMove var color r view toMove prev =
      match FPA.friendlyGetMove var color {} view toMove prev with
      | .error e => .error e
      | .ok (_, rep) => .ok (r, rep) := by
  have hp : ¬ view.ply > 0 := by omega
  rw [Tak.Glue.fpa_cases, Tak.Glue.fpa_cases]
  simp only [hp, if_false, pure, Except.pure]
  by_cases ht : toMove ≠ color
  · simp only [ht, ne_eq, not_false_eq_true, if_true]
  · simp only [ht, if_false]
    rw [getMove_ply0 var r view h0]
    cases getMove var {} view with
    | error e => rfl
    | ok sm => cases sm <;> rfl

section sim
variable {β : Type} (B : Board β) (var : Variant) (color : Color)

/-- the incremental state `s` (code before the patch, shown every pair once) and the record-based state `t`
(patched code, any notes) are the same game -/
structure Sim (s : St β) (t : StR β) : Prop where
  cur : t.cur = s.cur
  scr : t.lastScripted = s.lastScripted
  prev : s.prev.map (fun (q, m) => (B.view q, m)) = t.hist.getLast?
  ply : (B.view s.cur).ply = t.hist.length
  plies : Plies 0 t.hist
  chain : chain var {} t.hist.dropLast = .ok s.rule

variable {B var}

theorem sim_nil {s : St β} {t : StR β} (h : Sim B var s t) (he : t.hist = []) :
    s.rule = {} ∧ (B.view s.cur).ply = 0 ∧ s.prev.map (fun (q, m) => (B.view q, m)) = none := by
  have h1 := h.chain
  have h2 := h.ply
  have h3 := h.prev
  rw [he] at h1 h2 h3
  simp only [List.dropLast_nil, chain] at h1
  injection h1 with h1
  exact ⟨h1.symm, by simpa using h2, by simpa using h3⟩

/-- **the two calls answer alike** (the notes returned differ only on the start position, where the patched code leaves
the rule value as it found it and nobody reads it) -/
theorem turn_sim {s : St β} {t : StR β} (h : Sim B var s t) :
    turnR B var color t = match turn B var color s with
      | .error e => .error e
      | .ok (r, rep) => .ok (if t.hist.isEmpty then t.notes else r, rep) := by
  unfold turnR turn friendlyGetMoveR
  rw [h.cur]
  cases he : t.hist with
  | nil =>
    obtain ⟨hr, hp, hpv⟩ := sim_nil h he
    rw [hpv, hr]
    have : entryNotes var t.notes (B.view s.cur).ply [] = .ok t.notes := by
      unfold entryNotes; rw [hp]; rfl
    rw [this]
    simp only [List.getLast?_nil, List.isEmpty_nil, if_true]
    exact fgm_ply0 var color t.notes (B.view s.cur) (B.toMove s.cur) none hp
  | cons a rest =>
    have hne : t.hist ≠ [] := by rw [he]; exact List.cons_ne_nil _ _
    have hpl : (B.view s.cur).ply > 0 := by
      rw [h.ply, he]; simp only [List.length_cons]; omega
    have := entryNotes_eq var t.notes (B.view s.cur).ply t.hist hpl hne h.plies
    rw [he] at this
    rw [this]
    have hc := h.chain
    rw [he] at hc
    rw [hc]
    have hpv := h.prev
    rw [he] at hpv
    rw [hpv]
    simp only [List.isEmpty_cons, Bool.false_eq_true, if_false]
    cases FPA.friendlyGetMove var color s.rule (B.view s.cur) (B.toMove s.cur) (a :: rest).getLast? with
    | error e => rfl
    | ok x => rfl

theorem good_sim {s : St β} {t : StR β} (h : Sim B var s t) : goodR B var color t = good B var color s := by
  unfold goodR good
  rw [turn_sim (color := color) h, h.cur, h.scr]
  cases turn B var color s with
  | error e => rfl
  | ok x => obtain ⟨r, rep⟩ := x; cases rep <;> rfl

/-- after the call the chain over the whole record is the notes the call returned -/
theorem chain_full {s : St β} {t : StR β} (h : Sim B var s t) {r : Rule} {rep : Reply}
    (hts : turn B var color s = .ok (r, rep)) : chain var {} t.hist = .ok r := by
  unfold turn at hts
  obtain ⟨h1, h2⟩ := turn_rule var color s.rule r _ _ _ rep hts
  rcases List.eq_nil_or_concat t.hist with he | ⟨L, b, he⟩
  · obtain ⟨hr, hp, _⟩ := sim_nil h he
    rw [he]
    have : r = s.rule := h1 (by omega)
    rw [this, hr]; rfl
  · rw [List.concat_eq_append] at he
    have hpl : (B.view s.cur).ply > 0 := by
      rw [h.ply, he]; simp only [List.length_append, List.length_singleton]; omega
    obtain ⟨pv, pm, ok, hprev, hl⟩ := h2 hpl
    have hp := h.prev
    rw [hprev, he, List.getLast?_concat] at hp
    have hc := h.chain
    rw [he, List.dropLast_concat] at hc
    rw [he]
    obtain ⟨b1, b2⟩ := b
    injection hp with hp
    injection hp with hp1 hp2
    subst hp1 hp2
    rw [chain_append, hc]
    simp only [hl]

/-- the patched code's acceptance of the next move is the old one's -/
theorem accepted_sim {s : St β} {t : StR β} (h : Sim B var s t) {r : Rule} {rep : Reply}
    (hts : turn B var color s = .ok (r, rep)) (m : Move) :
    acceptedR var (if t.hist.isEmpty then t.notes else r) (B.view s.cur) m = accepted var r (B.view s.cur) m := by
  unfold acceptedR accepted legalMoveR
  cases he : t.hist with
  | nil =>
    obtain ⟨hr, hp, _⟩ := sim_nil h he
    unfold turn at hts
    have := (turn_rule var color s.rule r _ _ _ rep hts).1 (by omega)
    rw [hp, this, hr]; rfl
  | cons a rest =>
    have hpl : ¬ (B.view s.cur).ply = 0 := by
      rw [h.ply, he]; simp only [List.length_cons]; omega
    simp only [List.isEmpty_cons, Bool.false_eq_true, if_false, hpl]
    cases legalMove var r (B.view s.cur) m <;> rfl

variable (hply : ∀ b m q, B.step b m = some q → (B.view q).ply = (B.view b).ply + 1)
include hply

theorem sim_succ {s : St β} {t : StR β} (h : Sim B var s t) {r : Rule} {rep : Reply}
    (hts : turn B var color s = .ok (r, rep)) (m : Move) (q : β) (hq : B.step s.cur (Spec.decode m) = some q)
    (sc : Bool) (n : Rule) :
    Sim B var { rule := r, cur := q, prev := some (s.cur, m), lastScripted := sc }
      { notes := n, hist := t.hist ++ [(B.view s.cur, m)], cur := q, lastScripted := sc } := by
  refine ⟨rfl, rfl, ?_, ?_, ?_, ?_⟩
  · simp only [Option.map_some, List.getLast?_concat]
  · simp only [hply _ _ _ hq, h.ply, List.length_append, List.length_singleton]; omega
  · exact plies_append _ _ _ _ h.plies (by rw [h.ply]; omega)
  · simp only [List.dropLast_concat]
    exact chain_full (color := color) h hts

theorem sim_next {s : St β} {t t' : StR β} (h : Sim B var s t) (ht : t' ∈ nextR B var color t) :
    ∃ s' ∈ next B var color s, Sim B var s' t' := by
  unfold nextR at ht
  rw [turn_sim (color := color) h] at ht
  unfold next
  cases hts : turn B var color s with
  | error e => simp [hts] at ht
  | ok x =>
    obtain ⟨r, rep⟩ := x
    rw [hts] at ht
    have key : ∀ (m : Move) (sc : Bool) (q : β), B.step s.cur (Spec.decode m) = some q →
        Sim B var { rule := r, cur := q, prev := some (s.cur, m), lastScripted := sc }
          { notes := (if t.hist.isEmpty then t.notes else r), hist := t.hist ++ [(B.view t.cur, m)], cur := q, lastScripted := sc } := by
      intro m sc q hq
      rw [h.cur]
      exact sim_succ (color := color) hply h hts m q hq sc _
    cases rep with
    | resign => simp at ht
    | scripted m =>
      simp only [h.cur] at ht ⊢
      cases hq : B.step s.cur (Spec.decode m) with
      | none => simp [hq] at ht
      | some q =>
        simp only [hq, List.mem_singleton] at ht ⊢
        subst ht
        have := key m true q hq
        rw [h.cur] at this
        exact ⟨_, rfl, this⟩
    | notMyTurn =>
      simp only [h.cur, List.mem_filterMap] at ht ⊢
      obtain ⟨m, hm, hsome⟩ := ht
      rw [accepted_sim (color := color) h hts m] at hsome
      by_cases ha : accepted var r (B.view s.cur) m = true
      · simp only [ha, if_true, Option.map_eq_some_iff] at hsome
        obtain ⟨q, hq, rfl⟩ := hsome
        have := key m false q hq
        rw [h.cur] at this
        exact ⟨_, ⟨m, hm, by simp [ha, hq]⟩, this⟩
      · simp [ha] at hsome
    | search =>
      simp only [h.cur, List.mem_filterMap] at ht ⊢
      obtain ⟨m, hm, hsome⟩ := ht
      rw [accepted_sim (color := color) h hts m] at hsome
      by_cases ha : accepted var r (B.view s.cur) m = true
      · simp only [ha, if_true, Option.map_eq_some_iff] at hsome
        obtain ⟨q, hq, rfl⟩ := hsome
        have := key m false q hq
        rw [h.cur] at this
        exact ⟨_, ⟨m, hm, by simp [ha, hq]⟩, this⟩
      · simp [ha] at hsome

theorem reach_sim {n : Nat} {t u : StR β} (hr : ReachR B var color n t u) :
    ∀ s, Sim B var s t → ∃ v, Reach B var color n s v ∧ Sim B var v u := by
  induction hr with
  | refl t => intro s h; exact ⟨s, .refl s, h⟩
  | step n t t' u ht _ ih =>
    intro s h
    obtain ⟨s', hs', hsim⟩ := sim_next (color := color) hply h ht
    obtain ⟨v, hv, hvu⟩ := ih s' hsim
    exact ⟨v, .step n s s' v hs' hv, hvu⟩

end sim

theorem sim_init (var : Variant) (size : Nat) (r0 : Rule) : Sim specBoard var (init size) (initR size r0) :=
  ⟨rfl, rfl, rfl, rfl, trivial, rfl⟩

theorem spec_ply : ∀ (b : Spec.State) (m : Spec.Move) (q : Spec.State), specBoard.step b m = some q →
    (specBoard.view q).ply = (specBoard.view b).ply + 1 := by
  intro b m q h
  have := (SpecProofs.step_frame b m q h).1
  show (q.ply : Int) = (b.ply : Int) + 1
  omega

end Proofs.FPARepair
