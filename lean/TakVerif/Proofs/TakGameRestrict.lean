import TakVerif.Proofs.SearchTable

/-! Restriction of a game to a domain of positions and moves, and the proof that the search model cannot tell
the restricted game from the original one.

Why.  The generic search theorems (C04/C05/C16) assume facts about the game for **all** values of the position
type (`GameOK`, `EvalBounded`, `EvalOK`, `HashInj`).  For the Tak instance they hold only on well-formed positions,
and one of them (`GameOK.complete`) is false as stated: `MovePreallocated` accepts the pass move, which `AllMoves`
never generates.  The way out used here does not touch the generic proofs:

* `Game.restrict g S0 IM` is the game on the subtype `{p // S0 p}` that rejects moves outside `IM`.  For it the
  universally quantified hypotheses range over the domain only.
* `Restr g S IM` (the domain is closed under the moves of `IM`, generated moves are in `IM`, …) and `EngGood IM s`
  (no move outside `IM` among the hints stored in the engine state: table entries, response map, PV buffers).
* the simulation theorems (`search_sim`, `analyze_sim`, … in this file and `TakGameRestrictNodes/Analyze.lean`):
  from a position of the domain and a good engine state, every function of the search model returns **the same
  result and the same engine state** for the restricted game and for the original one — for every configuration
  without the null move — and the engine state stays good.

The domain is indexed by a rank, `S k p` = "`p` is in the domain together with everything within `k` plies"; the
search is simulated at rank = number of free frames of `ai.stack`, so a domain that is not closed under moves for
ever (Tak positions with a bound on the ply counter, needed for the terminal scores of C18) can be used. -/
namespace Search
open Tak (Err)

variable {P M : Type}

/-- the hypotheses on the domain -/
structure Restr (g : Game P M) (S : Nat → P → Prop) (IM : M → Prop) : Prop where
  anti : ∀ k p, S (k + 1) p → S k p
  closed : ∀ k p m c, S (k + 1) p → IM m → g.apply p m = .ok c → S k c
  gen : ∀ p, S 0 p → ∀ m ∈ g.allMoves p, IM m
  zero : IM g.zeroMove

theorem Restr.anti_le {g : Game P M} {S : Nat → P → Prop} {IM : M → Prop} (R : Restr g S IM) {j k : Nat} {p : P}
    (h : j ≤ k) (hk : S k p) : S j p := by
  induction h with
  | refl => exact hk
  | step _ ih => exact ih (R.anti _ _ hk)

open Classical in
/-- the game on the domain `S0`, rejecting moves outside `IM` -/
noncomputable def Game.restrict (g : Game P M) (S0 : P → Prop) (IM : M → Prop) : Game {p // S0 p} M where
  over p := g.over p.val
  eval p := g.eval p.val
  apply p m :=
    if IM m then
      match g.apply p.val m with
      | .ok c => if h : S0 c then .ok ⟨c, h⟩ else .error (.illegal "outside the domain")
      | .error e => .error e
    else .error (.illegal "excluded move")
  allMoves p := g.allMoves p.val
  hash p := g.hash p.val
  moveEq := g.moveEq
  zeroMove := g.zeroMove
  passMove := g.passMove
  isPass := g.isPass
  nullOK p := g.nullOK p.val
  reduceSlide m p := g.reduceSlide m p.val
  moveNumber p := g.moveNumber p.val
  symHashes p := g.symHashes p.val

section
variable {g : Game P M} {S0 : P → Prop} {IM : M → Prop}

theorem restrict_apply_ok {p : {p // S0 p}} {m : M} {c : P} (hm : IM m) (h : g.apply p.val m = .ok c) (hc : S0 c) :
    (g.restrict S0 IM).apply p m = .ok ⟨c, hc⟩ := by
  simp only [Game.restrict, hm, if_true, h, hc, dite_true]

theorem restrict_apply_error {p : {p // S0 p}} {m : M} {e : Err} (hm : IM m) (h : g.apply p.val m = .error e) :
    (g.restrict S0 IM).apply p m = .error e := by
  simp only [Game.restrict, hm, if_true, h]

/-- an accepted move of the restricted game is a move of `IM` that the original game accepts, with the same child -/
theorem restrict_apply_inv {p : {p // S0 p}} {m : M} {c : {p // S0 p}} (h : (g.restrict S0 IM).apply p m = .ok c) :
    IM m ∧ g.apply p.val m = .ok c.val := by
  simp only [Game.restrict] at h
  split at h
  · rename_i hm
    refine ⟨hm, ?_⟩
    split at h
    · rename_i c0 hc0
      split at h
      · cases h; exact hc0
      · cases h
    · cases h
  · cases h

end

/-- no move outside `IM` among the hints the engine state carries from call to call -/
structure EngGood (IM : M → Prop) (s : Eng M) : Prop where
  table : ∀ (i : Nat) (e : TEntry M), s.table[i]? = some e → IM e.m
  resp : ∀ kv ∈ s.response, IM kv.2
  pv0 : ∀ (i : Nat) (x : M), s.pv0[i]? = some x → IM x

/-- a returned PV holds moves of `IM` only -/
def PVGood (IM : M → Prop) (pv : PV M) : Prop := ∀ l, pv = some l → ∀ m ∈ l, IM m

theorem PVGood.none {IM : M → Prop} : PVGood IM (none : PV M) := fun _ h => by cases h

theorem PVGood.getD {IM : M → Prop} {pv : PV M} (h : PVGood IM pv) : ∀ m ∈ pv.getD [], IM m := by
  cases pv with
  | none => intro m hm; cases hm
  | some l => exact h l rfl

/-- same result on both sides, and the result satisfies `Q` -/
def Sim {α : Type} (x' x : Except Err α) (Q : α → Prop) : Prop := x' = x ∧ Sat x Q

theorem Sim.refl {α : Type} {x : Except Err α} {Q : α → Prop} (h : Sat x Q) : Sim x x Q := ⟨rfl, h⟩

theorem Sim.ok {α : Type} {a : α} {Q : α → Prop} (h : Q a) : Sim (.ok a : Except Err α) (.ok a) Q := ⟨rfl, Sat.ok h⟩

theorem Sim.pure {α : Type} {a : α} {Q : α → Prop} (h : Q a) : Sim (pure a : Except Err α) (pure a) Q := ⟨rfl, Sat.ok h⟩

theorem Sim.error {α : Type} {e : Err} {Q : α → Prop} : Sim (.error e : Except Err α) (.error e) Q := ⟨rfl, Sat.error⟩

theorem Sim.throw {α : Type} {e : Err} {Q : α → Prop} : Sim (throw e : Except Err α) (throw e) Q := ⟨rfl, Sat.error⟩

theorem Sim.mono {α : Type} {x' x : Except Err α} {Q R : α → Prop} (h : Sim x' x Q) (hqr : ∀ a, Q a → R a) :
    Sim x' x R := ⟨h.1, h.2.mono hqr⟩

theorem Sim.bind {α β : Type} {x' x : Except Err α} {f' f : α → Except Err β} {Q : α → Prop} {R : β → Prop}
    (h : Sim x' x Q) (hf : ∀ a, Q a → Sim (f' a) (f a) R) : Sim (x' >>= f') (x >>= f) R := by
  obtain ⟨rfl, hs⟩ := h
  cases x' with
  | error e => exact ⟨rfl, Sat.error⟩
  | ok a => exact hf a (hs a rfl)

theorem Sim.bind' {α β : Type} {x' x : Except Err α} {f' f : α → Except Err β} {Q : α → Prop} {R : β → Prop}
    (h : Sim x' x Q) (hf : ∀ a, Q a → Sim (f' a) (f a) R) : Sim (x'.bind f') (x.bind f) R :=
  Sim.bind h hf

theorem Sim.ite {α : Type} {c : Prop} [Decidable c] {a' a b' b : Except Err α} {Q : α → Prop}
    (h1 : c → Sim a' a Q) (h2 : ¬c → Sim b' b Q) : Sim (if c then a' else b') (if c then a else b) Q := by
  by_cases h : c
  · simp only [h, if_true]; exact h1 h
  · simp only [h, if_false]; exact h2 h

/-! ### the engine-state operations keep the state good -/

section
variable {IM : M → Prop}

theorem EngGood.of_eq {s s1 : Eng M} (h : EngGood IM s) (ht : s1.table = s.table) (hr : s1.response = s.response)
    (hp : s1.pv0 = s.pv0) : EngGood IM s1 :=
  ⟨by rw [ht]; exact h.table, by rw [hr]; exact h.resp, by rw [hp]; exact h.pv0⟩

theorem EngGood.setEntry {s : Eng M} (h : EngGood IM s) (i : Nat) (e : TEntry M) (he : IM e.m) :
    EngGood IM (s.setEntry i e) := by
  refine ⟨?_, h.resp, h.pv0⟩
  intro j e' hj
  unfold Eng.setEntry at hj
  dsimp only at hj
  rw [Array.getElem?_setIfInBounds] at hj
  split at hj
  · split at hj
    · cases hj; exact he
    · cases hj
  · exact h.table j e' hj

theorem EngGood.evict {s : Eng M} (h : EngGood IM s) (k : H) : EngGood IM (s.evict k) := by
  unfold Eng.evict
  split
  · exact h
  · rename_i e1 he1
    split
    · refine ⟨?_, h.resp, h.pv0⟩
      intro j e' hj
      dsimp only at hj
      rw [Array.getElem?_setIfInBounds] at hj
      split at hj
      · split at hj
        · cases hj; exact h.table _ e1 he1
        · cases hj
      · exact h.table j e' hj
    · exact h

theorem ttGet_engGood {s : Eng M} (h : EngGood IM s) (k : H) :
    Sat (ttGet s k) (fun te => ∀ e, te = some e → IM e.m) := by
  unfold ttGet
  split
  · exact Sat.ok (fun e he => by cases he)
  · split
    · exact Sat.error
    · split
      · rename_i e1 e2 h1 h2
        split
        · refine Sat.ok (fun e he => ?_)
          cases he; exact h.table _ e1 h1
        · split
          · refine Sat.ok (fun e he => ?_)
            cases he; exact h.table _ e2 h2
          · exact Sat.ok (fun e he => by cases he)
      · exact Sat.error

theorem load_engGood (o : Oracle M) {s : Eng M} (h : EngGood IM s) : EngGood IM (load o s).2 :=
  h.of_eq rfl rfl rfl

theorem ttPut_engGood (o : Oracle M) {s : Eng M} (h : EngGood IM s) (k : H) :
    Sat (ttPut o s k) (fun x => EngGood IM x.2) := by
  unfold ttPut
  split
  · exact Sat.ok h
  · dsimp only
    split
    · exact Sat.ok (load_engGood o h)
    · unfold ttSlotIdx
      split
      · exact Sat.error
      · split
        · exact Sat.ok ((load_engGood o h).evict k)
        · exact Sat.error

theorem respGet_mem [DecidableEq M] : ∀ (l : List (M × M)) (k v : M), respGet l k = some v → ∃ kv ∈ l, kv.2 = v := by
  intro l
  induction l with
  | nil => intro k v h; cases h
  | cons x rest ih =>
    intro k v h
    obtain ⟨a, b⟩ := x
    simp only [respGet] at h
    split at h
    · injection h with h; subst h; exact ⟨(a, b), by simp, rfl⟩
    · obtain ⟨kv, hkv, e⟩ := ih k v h
      exact ⟨kv, List.mem_cons_of_mem _ hkv, e⟩

theorem respPut_engGood [DecidableEq M] : ∀ (l : List (M × M)) (k v : M), (∀ kv ∈ l, IM kv.2) → IM v →
    ∀ kv ∈ respPut l k v, IM kv.2 := by
  intro l
  induction l with
  | nil =>
    intro k v _ hv kv hkv
    simp only [respPut, List.mem_cons, List.not_mem_nil, or_false] at hkv
    subst hkv; exact hv
  | cons x rest ih =>
    intro k v hl hv kv hkv
    obtain ⟨a, b⟩ := x
    simp only [respPut] at hkv
    split at hkv
    · rcases List.mem_cons.mp hkv with h | h
      · subst h; exact hv
      · exact hl kv (List.mem_cons_of_mem _ h)
    · rcases List.mem_cons.mp hkv with h | h
      · subst h; exact hl (a, b) (by simp)
      · exact ih k v (fun x hx => hl x (List.mem_cons_of_mem _ hx)) hv kv h

theorem recordCut_engGood [DecidableEq M] {s : Eng M} (h : EngGood IM s) (m : M) (hm : IM m) (mv ply : Nat) :
    Sat (recordCut s m mv ply) (fun s' => EngGood IM s') := by
  unfold recordCut
  dsimp only
  split
  · split
    · exact Sat.error
    · exact Sat.ok ⟨h.table, respPut_engGood _ _ _ h.resp hm, h.pv0⟩
  · exact Sat.ok (h.of_eq rfl rfl rfl)

theorem setA_engGood {a : Array M} (ha : ∀ (i : Nat) (x : M), a[i]? = some x → IM x) (i : Nat) (m : M) (hm : IM m) (site : String) :
    Sat (setA a i m site) (fun a' => ∀ (j : Nat) (x : M), a'[j]? = some x → IM x) := by
  unfold setA
  split
  · refine Sat.ok ?_
    intro j x hj
    rw [Array.getElem?_setIfInBounds] at hj
    split at hj
    · first
        | (cases hj; exact hm)
        | (split at hj
           · cases hj; exact hm
           · cases hj)
    · exact ha j x hj
  · exact Sat.error

theorem getA_engGood {a : Array M} (ha : ∀ (i : Nat) (x : M), a[i]? = some x → IM x) (i : Nat) (site : String) :
    Sat (getA a i site) (fun x => IM x) := by
  unfold getA
  split
  · rename_i x hx; exact Sat.ok (ha i x hx)
  · exact Sat.error

theorem afterChild_engGood {σ : Type} (o : Oracle M) (a : σ) {s : Eng M} (h : EngGood IM s) :
    EngGood IM (afterChild o a s).2 ∧
    ((afterChild o a s).1 = .next a ∨ (afterChild o a s).1 = .ret (none, 0)) := by
  rcases afterChild_cases o a s with e | e <;> rw [e]
  · exact ⟨load_engGood o h, Or.inr rfl⟩
  · exact ⟨load_engGood o h, Or.inl rfl⟩

theorem pvInitBest_engGood (ply : Nat) (pv : List M) (hpv : ∀ m ∈ pv, IM m) {s : Eng M} (h : EngGood IM s) :
    Sat (pvInitBest ply pv s) (fun x => EngGood IM x.2 ∧ ∀ m ∈ x.1, IM m) := by
  unfold pvInitBest
  split
  · rename_i x rest
    apply Sat.bind
    refine (setA_engGood h.pv0 ply x (hpv x (by simp)) _).mono ?_
    intro pv0 hpv0
    exact Sat.pure ⟨⟨h.table, h.resp, hpv0⟩, hpv⟩
  · apply Sat.bind
    refine (getA_engGood h.pv0 ply _).mono ?_
    intro x hx
    refine Sat.pure ⟨h, ?_⟩
    intro m hm
    simp only [List.mem_cons, List.not_mem_nil, or_false] at hm
    subst hm; exact hx

theorem pvStore_engGood (o : Oracle M) (hash : H) (depth β : Int) (a : PvAcc M) (ha : ∀ m ∈ a.best, IM m)
    {s : Eng M} (h : EngGood IM s) :
    Sat (pvStore o hash depth β a s) (fun x => EngGood IM x.2 ∧ PVGood IM x.1.1) := by
  have hpv : PVGood IM (some a.best) := fun l hl => by cases hl; exact ha
  unfold pvStore
  apply Sat.bind
  refine (ttPut_engGood o h hash).mono ?_
  rintro ⟨slot?, s1⟩ hs1
  dsimp only at hs1 ⊢
  split
  · exact Sat.pure ⟨hs1, hpv⟩
  · split
    · rename_i old b0 rest _ hbest
      split
      · refine Sat.pure ⟨?_, hpv⟩
        have hb0 : IM b0 := ha b0 (by rw [hbest]; simp)
        split
        · show EngGood IM (Eng.setEntry _ _ _)
          refine EngGood.setEntry ?_ _ _ ?_
          · exact hs1.of_eq rfl rfl rfl
          · exact hb0
        · show EngGood IM (Eng.setEntry _ _ _)
          refine EngGood.setEntry hs1 _ _ ?_; exact hb0
      · exact Sat.pure ⟨hs1, hpv⟩
    · exact Sat.throw

theorem zwStore_engGood (o : Oracle M) (hash : H) (depth α : Int) (a : ZwAcc M) (ha : ∀ m ∈ a.best, IM m)
    {s : Eng M} (h : EngGood IM s) :
    Sat (zwStore o hash depth α a s) (fun x => EngGood IM x.2 ∧ PVGood IM x.1.1) := by
  have hpv : PVGood IM (some a.best) := fun l hl => by cases hl; exact ha
  unfold zwStore
  dsimp only
  apply Sat.bind
  refine (ttPut_engGood o h hash).mono ?_
  rintro ⟨slot?, s1⟩ hs1
  dsimp only at hs1 ⊢
  split
  · exact Sat.pure ⟨hs1, hpv⟩
  · split
    · rename_i b0 rest hbest
      refine Sat.pure ⟨?_, hpv⟩
      have hb0 : IM b0 := ha b0 (by rw [hbest]; simp)
      split
      · show EngGood IM (Eng.setEntry _ _ _)
        refine EngGood.setEntry hs1 _ _ ?_; exact hb0
      · show EngGood IM (Eng.setEntry _ _ _)
        refine EngGood.setEntry ?_ _ _ ?_
        · exact hs1.of_eq rfl rfl rfl
        · exact hb0
    · exact Sat.throw

end

end Search
