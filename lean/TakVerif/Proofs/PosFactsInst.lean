import TakVerif.Proofs.CanonRefine
import TakVerif.Proofs.Budget
import TakVerif.Proofs.Equal
import TakVerif.Proofs.Groups

/-! The hypotheses `PosFacts2` of the refinement theorems, discharged from C01 (`move_refines_core`,
`new_wf`, the piece budget), C08 (`hash_congr_core`) and C02 (`Roads.analyze_ne_none`) for the default games
on sizes up to 6×6 (at most 62 pieces, so the 64-piece representation limit cannot be reached). -/
namespace Tak
open Spec

/-- C01's invariant with the piece budget -/
def InvB (basis : Array W) (p : Pos) : Prop := WF basis p ∧ budget (Spec.abs p) ≤ 64

/-- C01's side conditions on a move -/
def OkM (p : Pos) (m : Move) : Prop := m.type ≠ Facts.mtPass ∧ StackLimit p m

theorem analyzeTotalInst : AnalyzeTotal := fun p => Roads.analyze_ne_none p

theorem decode_pass {m : Move} (h : m.type = Facts.mtPass) : Spec.decode m = .invalid := by
  simp [Spec.decode, h, Facts.mtPass, Facts.mtPlaceFlat, Facts.mtPlaceStanding, Facts.mtPlaceCapstone,
    Facts.mtSlideLeft, Facts.mtSlideRight, Facts.mtSlideUp, Facts.mtSlideDown]

theorem posFacts2_default (basis : Array W) (size : Nat) (hs : size ≤ 6) :
    PosFacts2 basis size (InvB basis) OkM where
  new := fun p h => ⟨new_wf basis h, by have := new_budget_default size false p hs h; omega⟩
  apply := by
    intro p m p' hi hok ha
    have h := move_refines_core (basis := basis) (p := p) analyzeTotalInst hi.1 m hok.1 hok.2
    rw [ha] at h
    obtain ⟨h1, h2⟩ := h
    have hwf : (Spec.abs p).WF := by simp [State.WF, Spec.abs]
    refine ⟨⟨h2, Nat.le_trans (step_budget h1) hi.2⟩, ?_, h1⟩
    exact (step_WF h1 hwf).2
  complete := by
    intro p m s' hi hok hstep
    have h := move_refines_core (basis := basis) (p := p) analyzeTotalInst hi.1 m hok.1 hok.2
    cases ha : p.apply basis m with
    | ok q => exact ⟨q, rfl⟩
    | error e => rw [ha] at h; simp only at h; rw [h] at hstep; cases hstep
  hash_abs := by
    intro p q hp hq he
    have h1 : p.cfg.size = q.cfg.size := congrArg State.size he
    have h2 : p.move = q.move := congrArg State.ply he
    exact hash_congr_core hp.1 hq.1 h1 (congrArg State.squares he) (by unfold Pos.toMove; rw [h2])
  ok_of_legal := by
    intro p m hi hl
    refine ⟨?_, stackLimit_of_budget m hi.2⟩
    intro e
    rw [decode_pass e] at hl
    simp [Spec.step] at hl

end Tak

namespace Tak
open Spec

/-- the invariant holds along a sequence of accepted moves whose side conditions follow from the invariant -/
theorem foldl_inv {basis : Array W} {size : Nat} {Inv : Pos → Prop} {Ok : Pos → Move → Prop}
    (F : PosFacts basis size Inv Ok) (hok : ∀ p m, Inv p → m.type ≠ Facts.mtPass → Ok p m) :
    ∀ (pre : List Move) (p0 p : Pos), Inv p0 → (∀ m ∈ pre, m.type ≠ Facts.mtPass) →
      pre.foldlM (fun p m => p.apply basis m) p0 = .ok p → Inv p := by
  intro pre
  induction pre with
  | nil => intro p0 p hi _ h; simp [pure, Except.pure] at h; subst h; exact hi
  | cons m rest ih =>
    intro p0 p hi hnp h
    rw [List.foldlM_cons] at h
    cases ha : p0.apply basis m with
    | error e => simp [ha, bind, Except.bind] at h
    | ok p1 =>
      simp only [ha, bind, Except.bind] at h
      exact ih p1 p (F.apply p0 m p1 hi (hok p0 m hi (hnp m (by simp))) ha).1 (fun x hx => hnp x (by simp [hx])) h

/-- along book lines without the internal pass move the side conditions hold, if they follow from the invariant -/
theorem linesOk_of {basis : Array W} {size : Nat} {Inv : Pos → Prop} {Ok : Pos → Move → Prop}
    (F : PosFacts basis size Inv Ok) (hok : ∀ p m, Inv p → m.type ≠ Facts.mtPass → Ok p m)
    (lines : List (List Move)) (hnp : ∀ line ∈ lines, ∀ m ∈ line, m.type ≠ Facts.mtPass) :
    LinesOk basis size lines Ok := by
  intro line hline pre m suf hl p hp
  have hm : m.type ≠ Facts.mtPass := hnp line hline m (by rw [hl]; simp)
  unfold linePos at hp
  cases hn : Pos.new { size := size, pieces := 0, capstones := 0, blackWinsTies := false } with
  | error e => simp [hn, bind, Except.bind] at hp
  | ok p0 =>
    simp only [hn, bind, Except.bind] at hp
    exact hok p m (foldl_inv F hok pre p0 p (F.new p0 hn)
      (fun x hx => hnp line hline x (by rw [hl]; simp [hx])) hp) hm

/-- along book lines without the internal pass move, C01's side conditions hold (default games up to 6×6) -/
theorem linesOk_default (basis : Array W) (size : Nat) (hs : size ≤ 6) (lines : List (List Move))
    (hnp : ∀ line ∈ lines, ∀ m ∈ line, m.type ≠ Facts.mtPass) : LinesOk basis size lines OkM :=
  linesOk_of (posFacts2_default basis size hs).toPosFacts
    (fun _ m hi hm => ⟨hm, stackLimit_of_budget m hi.2⟩) lines hnp

end Tak
