import TakVerif.Proofs.SymBasic

/-! The action of the eight maps on raw move values (`Sym.raw`). -/
namespace Spec

/-! ### raw moves -/

theorem dirOf_dirCode (d : Dir) : dirOf (dirCode d) = some d := by cases d <;> rfl

theorem dirOf_some {t : Nat} {d : Dir} (h : dirOf t = some d) : t = dirCode d := by
  unfold dirOf at h
  simp only [Facts.mtSlideLeft, Facts.mtSlideRight, Facts.mtSlideUp, Facts.mtSlideDown, beq_iff_eq] at h
  split at h
  · cases h; simp [dirCode, Facts.mtSlideLeft, *]
  split at h
  · cases h; simp [dirCode, Facts.mtSlideRight, *]
  split at h
  · cases h; simp [dirCode, Facts.mtSlideUp, *]
  split at h
  · cases h; simp [dirCode, Facts.mtSlideDown, *]
  · cases h

theorem decode_of_dir {m : Tak.Move} {d : Dir} (h : dirOf m.type = some d) :
    decode m = .slide m.x m.y d (Tak.Slides.elems m.slides) := by
  have := dirOf_some h
  cases d <;> simp [decode, this, dirCode, Facts.mtPlaceFlat, Facts.mtPlaceStanding, Facts.mtPlaceCapstone,
    Facts.mtSlideLeft, Facts.mtSlideRight, Facts.mtSlideUp, Facts.mtSlideDown]

theorem decode_of_nodir {m : Tak.Move} (h : dirOf m.type = none) :
    decode m = (if m.type = 2 then .place m.x m.y .flat else if m.type = 3 then .place m.x m.y .standing
      else if m.type = 4 then .place m.x m.y .capstone else .invalid) := by
  unfold dirOf at h
  simp only [Facts.mtSlideLeft, Facts.mtSlideRight, Facts.mtSlideUp, Facts.mtSlideDown, beq_iff_eq] at h
  have h5 : m.type ≠ 5 := by intro e; simp [e] at h
  have h6 : m.type ≠ 6 := by intro e; simp [e] at h
  have h7 : m.type ≠ 7 := by intro e; simp [e] at h
  have h8 : m.type ≠ 8 := by intro e; simp [e] at h
  simp [decode, Facts.mtPlaceFlat, Facts.mtPlaceStanding, Facts.mtPlaceCapstone,
    Facts.mtSlideLeft, Facts.mtSlideRight, Facts.mtSlideUp, Facts.mtSlideDown, h5, h6, h7, h8]

/-- reading the image of a raw move = image of the reading -/
theorem decode_raw (k : Sym) (n : Int) (m : Tak.Move) : decode (k.raw n m) = k.move n (decode m) := by
  unfold Sym.raw
  cases h : dirOf m.type with
  | some d =>
    simp only
    rw [decode_of_dir (m := ⟨_, _, dirCode (k.dir d), m.slides⟩) (dirOf_dirCode _), decode_of_dir h]
    rfl
  | none =>
    simp only
    rw [decode_of_nodir (m := ⟨_, _, m.type, 0#32⟩) h, decode_of_nodir h]
    split
    · rfl
    split
    · rfl
    split
    · rfl
    · rfl

theorem raw_mul (a b : Sym) (n : Int) (m : Tak.Move) : (Sym.mul a b).raw n m = a.raw n (b.raw n m) := by
  unfold Sym.raw
  cases h : dirOf m.type with
  | some d => simp only [dirOf_dirCode, Sym.mul_app, Sym.dir_mul]
  | none => simp only [h, Sym.mul_app]

theorem raw_slides (k : Sym) (n : Int) (m : Tak.Move) :
    (k.raw n m).slides = (match dirOf m.type with | some _ => m.slides | none => 0#32) ∧
    (dirOf (k.raw n m).type).isSome = (dirOf m.type).isSome := by
  unfold Sym.raw
  cases h : dirOf m.type with
  | some d => simp [dirOf_dirCode]
  | none => simp [h]

end Spec
