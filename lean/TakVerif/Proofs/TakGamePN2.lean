import TakVerif.Proofs.SpecConserve

/-! The rule book does not look at the ply counter beyond its parity and "still in the opening":
two rule-book states that differ only in such a counter have the same outcome and the same moves,
leading to states that again differ only so.  (This is what makes `Position.Equal`, which ignores
the counter, a bisimulation on the positions of one game — `Proofs/TakGamePN3.lean`.) -/
namespace C06
open Spec Tak

/-- `b` is `a` with another ply counter of the same parity, both past the opening unless equal -/
def PlySim (a b : State) : Prop :=
  b = { a with ply := b.ply } ∧ a.toMove = b.toMove ∧ (a.ply = b.ply ∨ (2 ≤ a.ply ∧ 2 ≤ b.ply))

theorem hasRoad_ply (a : State) (k : Int) (c : Color) : hasRoad { a with ply := k } c = hasRoad a c := rfl

theorem flatCount_ply (a : State) (k : Int) (c : Color) : flatCount { a with ply := k } c = flatCount a c := rfl

theorem outcome_plySim {a b : State} (h : PlySim a b) : outcome a = outcome b := by
  obtain ⟨hb, htm, _⟩ := h
  rw [hb]
  have htm' : ({ a with ply := b.ply } : State).toMove = a.toMove := by rw [← hb]; exact htm.symm
  unfold outcome
  simp only [hasRoad_ply, flatCount_ply, htm']
  rfl

theorem dropLoop_ply (k : Int) (d : Dir) : ∀ (drops : List Nat) (s : State) (x y : Int) (carried : List Piece),
    dropLoop { s with ply := k } x y d carried drops =
      (dropLoop s x y d carried drops).map (fun s' => { s' with ply := k }) := by
  intro drops
  induction drops with
  | nil => intro s x y carried; simp only [dropLoop]; split <;> rfl
  | cons c cs ih =>
    intro s x y carried
    simp only [dropLoop]
    have e1 : ({ s with ply := k } : State).onBoard (x + d.dx) (y + d.dy) = s.onBoard (x + d.dx) (y + d.dy) := rfl
    have e2 : ({ s with ply := k } : State).at (x + d.dx) (y + d.dy) = s.at (x + d.dx) (y + d.dy) := rfl
    rw [e1, e2]
    split
    · rfl
    split
    · rfl
    split
    · rfl
    · rename_i tg htg
      exact ih (s.setAt (x + d.dx) (y + d.dy) _) _ _ _

theorem reserve_ply (a : State) (k : Int) (c : Color) (cap : Bool) :
    ({ a with ply := k } : State).reserve c cap = a.reserve c cap := by
  cases c <;> cases cap <;> rfl

theorem decReserve_ply (a : State) (k : Int) (c : Color) (cap : Bool) :
    ({ a with ply := k } : State).decReserve c cap = { a.decReserve c cap with ply := k } := by
  cases c <;> cases cap <;> rfl

theorem decReserve_ply_eq (a : State) (c : Color) (cap : Bool) : (a.decReserve c cap).ply = a.ply := by
  cases c <;> cases cap <;> rfl

/-- the rule book with another ply counter: same verdict, same successor up to the counter -/
theorem step_ply (a : State) (k : Int) (hlt : a.ply < 2 ↔ k < 2)
    (htm : ({ a with ply := k } : State).toMove = a.toMove) (m : Spec.Move) :
    step { a with ply := k } m = (step a m).map (fun s' => { s' with ply := k + 1 }) := by
  have e1 : ∀ x y, ({ a with ply := k } : State).onBoard x y = a.onBoard x y := fun _ _ => rfl
  have e2 : ∀ x y, ({ a with ply := k } : State).at x y = a.at x y := fun _ _ => rfl
  have e3 : ({ a with ply := k } : State).size = a.size := rfl
  have e5 : ({ a with ply := k } : State).ply = k := rfl
  cases m with
  | invalid => rfl
  | place x y kd =>
    simp only [step, e1, e2, htm, reserve_ply, decReserve_ply]
    by_cases h2 : a.ply < 2
    · have hk : k < 2 := hlt.mp h2
      simp only [h2, hk, true_and, if_true]
      repeat' split
      all_goals rfl
    · have hk : ¬ k < 2 := fun h => h2 (hlt.mpr h)
      simp only [h2, hk, false_and, if_false]
      repeat' split
      all_goals rfl
  | slide x y d drops =>
    simp only [step, e1, e2, htm]
    by_cases h2 : a.ply < 2
    · have hk : k < 2 := hlt.mp h2
      simp only [h2, hk, if_true]
      rfl
    · have hk : ¬ k < 2 := fun h => h2 (hlt.mpr h)
      simp only [h2, hk, if_false]
      split
      · rfl
      split
      · rfl
      split
      · rfl
      split
      · rfl
      · split
        · rfl
        · have e4 : ∀ sq, ({ a with ply := k } : State).setAt x y sq = { a.setAt x y sq with ply := k } := fun _ => rfl
          rw [e4, dropLoop_ply]
          cases dropLoop (a.setAt x y _) x y d _ drops with
          | none => rfl
          | some s1 => rfl

theorem toMove_succ {a b : State} (h : a.toMove = b.toMove) (a' b' : State) (ha : a'.ply = a.ply + 1)
    (hb : b'.ply = b.ply + 1) : a'.toMove = b'.toMove := by
  unfold State.toMove at h ⊢
  rw [ha, hb]
  have e : ∀ z : Int, ((z + 1) % 2 == 0) = !(z % 2 == 0) := by
    intro z
    have : z % 2 = 0 ∨ z % 2 = 1 := by omega
    rcases this with h0 | h0
    · have : (z + 1) % 2 = 1 := by omega
      simp [h0, this]
    · have : (z + 1) % 2 = 0 := by omega
      simp [h0, this]
  rw [e, e]
  cases h1 : (a.ply % 2 == 0) <;> cases h2 : (b.ply % 2 == 0) <;> simp_all

/-- **the rule book cannot tell apart two states that differ only in an immaterial ply counter**:
a move legal in one is legal in the other, and the successors differ again only so -/
theorem step_plySim {a b a' : State} (h : PlySim a b) (m : Spec.Move) (hs : step a m = some a') :
    ∃ b', step b m = some b' ∧ PlySim a' b' := by
  obtain ⟨hb, htm, hply⟩ := h
  have hlt : a.ply < 2 ↔ b.ply < 2 := by omega
  have htm' : ({ a with ply := b.ply } : State).toMove = a.toMove := by rw [← hb]; exact htm.symm
  have hst := step_ply a b.ply hlt htm' m
  rw [← hb, hs] at hst
  simp only [Option.map_some] at hst
  have hf := (SpecProofs.step_frame a m a' hs).1
  refine ⟨_, hst, rfl, ?_, ?_⟩
  · exact toMove_succ htm a' _ hf rfl
  · show a'.ply = b.ply + 1 ∨ (2 ≤ a'.ply ∧ 2 ≤ b.ply + 1)
    omega

theorem PlySim.symm {a b : State} (h : PlySim a b) : PlySim b a := by
  obtain ⟨hb, htm, hply⟩ := h
  refine ⟨?_, htm.symm, by omega⟩
  rw [hb]

/-- equal squares and equal totals (board + reserve) force equal reserves -/
theorem reserve_eq_of_total {a b : State} (hsq : a.squares = b.squares) (c : Color) (cap : Bool)
    (ht : SpecProofs.total c cap a = SpecProofs.total c cap b) : a.reserve c cap = b.reserve c cap := by
  unfold SpecProofs.total at ht
  rw [hsq] at ht
  omega

theorem plySim_of_fields {a b : State} (h1 : a.size = b.size) (h2 : a.blackWinsTies = b.blackWinsTies)
    (h3 : a.squares = b.squares) (h4 : a.whiteStones = b.whiteStones) (h5 : a.whiteCaps = b.whiteCaps)
    (h6 : a.blackStones = b.blackStones) (h7 : a.blackCaps = b.blackCaps) (htm : a.toMove = b.toMove)
    (hply : a.ply = b.ply ∨ (2 ≤ a.ply ∧ 2 ≤ b.ply)) : PlySim a b := by
  refine ⟨?_, htm, hply⟩
  cases a; cases b
  simp only at h1 h2 h3 h4 h5 h6 h7
  subst h1; subst h2; subst h3; subst h4; subst h5; subst h6; subst h7
  rfl

/-! ### reserves count the placements -/

/-- pieces still in reserve -/
def resSum (s : State) : Nat := s.whiteStones + s.whiteCaps + s.blackStones + s.blackCaps

theorem resSum_decReserve (s : State) (c : Color) (cap : Bool) (hc : c ≠ Color.none) (hpos : s.reserve c cap ≠ 0) :
    resSum (s.decReserve c cap) + 1 = resSum s := by
  cases c <;> cases cap <;> simp_all [State.decReserve, State.reserve, resSum] <;> omega

/-- a legal move takes exactly one piece from the reserves (a placement), or none — and then the
opening is over (a slide) -/
theorem step_resSum (s : State) (m : Spec.Move) (s' : State) (h : step s m = some s') :
    resSum s' + 1 = resSum s ∨ (2 ≤ s.ply ∧ resSum s' = resSum s) := by
  cases m with
  | invalid => simp [step] at h
  | place x y k =>
    left
    simp only [step] at h
    have hcol : (if s.ply < 2 then s.toMove.flip else s.toMove) ≠ Color.none := by
      split
      · exact (SpecProofs.toMove_ne_none s).2
      · exact (SpecProofs.toMove_ne_none s).1
    generalize (if s.ply < 2 then s.toMove.flip else s.toMove) = col at h hcol
    split at h
    · cases h
    split at h
    · cases h
    split at h
    · cases h
    split at h
    · cases h
    · rename_i hres
      cases h
      have := resSum_decReserve s col (k == Kind.capstone) hcol (by simpa using hres)
      exact this
  | slide x y d drops =>
    right
    simp only [step] at h
    split at h
    · cases h
    rename_i hply
    split at h
    · cases h
    split at h
    · cases h
    split at h
    · cases h
    split at h
    · cases h
    · split at h
      · cases h
      · split at h
        · cases h
        · rename_i s1 hdl
          cases h
          obtain ⟨_, _, _, h4, h5, h6, h7, _⟩ := SpecProofs.dropLoop_frame _ _ _ _ _ _ _ hdl
          refine ⟨by omega, ?_⟩
          simp only [resSum, h4, h5, h6, h7]
          rfl

end C06
