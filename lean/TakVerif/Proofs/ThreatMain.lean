import TakVerif.Proofs.ThreatReal

/-! C19, step 5: the theorem for one colour-generic count, then for `CountThreats`. -/
namespace C19
open Tak Roads Spec

theorem reserves_of_not_over (p : Pos) (hno : p.gameOver.1 = false) :
    (p.whiteStones ≠ 0#8 ∨ p.whiteCaps ≠ 0#8) ∧ (p.blackStones ≠ 0#8 ∨ p.blackCaps ≠ 0#8) := by
  unfold Pos.gameOver at hno
  rcases hr : p.hasRoad with ⟨a, b⟩
  rw [hr] at hno
  simp only at hno
  split at hno
  · cases hno
  · split at hno
    · rename_i h
      simp only [Bool.and_eq_true, Bool.or_eq_true, bne_iff_ne, ne_eq] at h
      exact ⟨h.1.1, h.1.2⟩
    · cases hno

/-- from "any set of road squares that contains `s` and keeps the squares of `used` spans the board" to a
winning move -/
theorem conclude (basis : Array W) (p : Pos) (wf : WFBoard p) (hh : HeightsOK p) (hply : 2 ≤ p.move)
    (hno : p.gameOver.1 = false) (col : Color) (hcol : p.toMove = col) (used : W) (s : Nat)
    (hres : stonesOf p col ≠ 0#8 ∨ capsOf p col ≠ 0#8)
    (hfill : (p.c.Mask &&& ~~~(p.white ||| p.black)).getLsbD s = true ∨
      (slideMap p.c p (own p col &&& ~~~(p.standing ||| p.caps)) used).getLsbD s = true)
    (hspanOf : ∀ bits' : W, bits'.getLsbD s = true →
      (∀ k, used.getLsbD k = true → (roadBits p col).getLsbD k = true → bits'.getLsbD k = true) →
      ∃ i k, Conn p.cfg.size (fun x => bits'.getLsbD x = true) i k ∧ Spans p.cfg.size i k) :
    ∃ m q, m.type ≠ Facts.mtPass ∧ p.apply basis m = .ok q ∧ RoadWinFor q col ∧
      (groupsOf q col).any (isRoadGroup q.c) = true ∧ RoadWF q := by
  have hc2 : col = .white ∨ col = .black := by rw [← hcol]; exact toMove_cases p
  obtain ⟨hs, hst, hcase⟩ := fill_cases basis p wf hh hply col hcol used s hres hfill
  rcases hcase with ⟨hown, _⟩ | ⟨m, q, j, hmt, happ, haft, hj⟩
  · -- the square already is a road square of the side: the road exists, the game would be over
    have hbs : (roadBits p col).getLsbD s = true := (roadBits_bit p col s).mpr ⟨hown, hst⟩
    have := over_of_spans p wf col hc2 (hspanOf _ hbs (fun k _ hk => hk))
    rw [hno] at this; cases this
  · have hbs : (roadBits q col).getLsbD s = true := by
      rw [roadBits_bit]
      refine ⟨haft.at_s, ?_⟩
      cases hx : q.standing.getLsbD s with
      | false => rfl
      | true => have := haft.stand s hx; rw [hst] at this; cases this
    have hkeep : ∀ k, used.getLsbD k = true → (roadBits p col).getLsbD k = true →
        (roadBits q col).getLsbD k = true := by
      intro k hu hb
      obtain ⟨ho, hsk⟩ := (roadBits_bit p col k).mp hb
      rw [roadBits_bit]
      have hkj : k ≠ j := by
        rcases hj with hj | ⟨_, hju⟩
        · have : k < 64 := by
            apply Classical.byContradiction; intro hge
            rw [BitVec.getLsbD_of_ge _ _ (by omega)] at ho; cases ho
          omega
        · intro e; subst e; rw [hu] at hju; cases hju
      refine ⟨haft.keep k hkj ho, ?_⟩
      cases hx : q.standing.getLsbD k with
      | false => rfl
      | true => have := haft.stand k hx; rw [hsk] at this; cases this
    have hj' : 64 ≤ j ∨ j < p.cfg.size * p.cfg.size := by
      rcases hj with h | h
      · exact Or.inl h
      · exact Or.inr h.1
    obtain ⟨w1, w2, w3⟩ := win_of_spans p q wf col hcol j s haft hs hj' (hspanOf _ hbs hkeep)
    exact ⟨m, q, hmt, happ, w1, w2, w3⟩

/-- a partner of the inner loop: a group of the list, or a single flat outside all groups -/
theorem partner_props (n : Nat) (bits pieces : W) (gs : List W) (o : W)
    (hmem : ∀ g, g ∈ gs → IsComp n bits g) (hpb : Sub pieces bits) (hbm : Sub bits (Gen.precompute n).Mask)
    (hn : SizeOK n)
    (ho : o ∈ gs ∨ o ∈ lowBits 64 (singlesOf gs pieces)) :
    Sub o bits ∧ ∀ bits' : W, (∀ k, o.getLsbD k = true → bits'.getLsbD k = true) → ConnIn n bits' o := by
  rcases ho with h | h
  · have hc := hmem o h
    exact ⟨hc.sub, fun bits' hk => comp_connIn hc hk⟩
  · obtain ⟨k, _, hsk, hok⟩ := mem_lowBits _ _ _ h
    have hpk := (foldl_andnot_bit gs pieces k hsk).1
    have hbk := hpb k hpk
    refine ⟨?_, ?_⟩
    · intro i hi; rw [hok] at hi; have : i = k := by simpa using hi
      subst this; exact hbk
    · intro bits' hk
      exact single_connIn k (lt_of_mask hn hbm hbk) hok (hk k (by rw [hok]; simp))

/-- **A positive count for one side yields a winning move of that side** (when it is that side's turn). -/
theorem threat_real_core (basis : Array W) (p : Pos) (wf : WFBoard p) (hh : HeightsOK p) (hply : 2 ≤ p.move)
    (hno : p.gameOver.1 = false) (col : Color) (hcol : p.toMove = col)
    (hcount : 0 < (countOne p.c p (groupsOf p col) (own p col &&& ~~~(p.standing ||| p.caps))).1 +
      (countOne p.c p (groupsOf p col) (own p col &&& ~~~(p.standing ||| p.caps))).2) :
    ∃ m q, m.type ≠ Facts.mtPass ∧ p.apply basis m = .ok q ∧ RoadWinFor q col ∧
      (groupsOf q col).any (isRoadGroup q.c) = true ∧ RoadWF q := by
  have hn := wf.size_ok
  have hc2 : col = .white ∨ col = .black := by rw [← hcol]; exact toMove_cases p
  have hbm := roadBits_sub p wf.toRoadWF col
  -- the groups are the big components of the road squares
  obtain ⟨a1, a2⟩ := analyze_groups p wf.analyzed
  have hg : floodGroups (Gen.precompute p.cfg.size) (roadBits p col) = some (groupsOf p col) := by
    rw [← wf.consts]
    rcases hc2 with e | e <;> subst e
    · exact a1
    · exact a2
  obtain ⟨gs, hgs, _, hmem⟩ := groups_spec p.cfg.size hn (roadBits p col) hbm
  rw [hg] at hgs
  have hgs' : groupsOf p col = gs := Option.some.inj hgs
  have hcomp : ∀ g, g ∈ groupsOf p col → IsComp p.cfg.size (roadBits p col) g := by
    intro g hg'; rw [hgs'] at hg'; exact ((hmem g).mp hg').1
  have hpb : Sub (own p col &&& ~~~(p.standing ||| p.caps)) (roadBits p col) := by
    intro k hk
    simp only [BitVec.getLsbD_and, BitVec.getLsbD_not, BitVec.getLsbD_or, Bool.and_eq_true, Bool.not_eq_true',
      decide_eq_true_eq, Bool.or_eq_false_iff] at hk
    exact (roadBits_bit p col k).mpr ⟨hk.1, hk.2.2.1⟩
  -- reserves
  have hres : stonesOf p col ≠ 0#8 ∨ capsOf p col ≠ 0#8 := by
    obtain ⟨r1, r2⟩ := reserves_of_not_over p hno
    rcases hc2 with e | e <;> subst e
    · exact r1
    · exact r2
  obtain ⟨g, hg', s, hcase⟩ := countOne_pos p.c p (groupsOf p col) _ hcount
  have hgc := hcomp g hg'
  rcases hcase with ⟨hgap, hfill⟩ | ⟨o, ho, hop, hgs1, hos1, hfill⟩
  · -- edge gap
    rw [wf.consts] at hgap
    apply conclude basis p wf hh hply hno col hcol g s hres hfill
    intro bits' hs hk
    exact edge_spans hn hgap (comp_connIn hgc (fun k hgk => hk k hgk (hgc.sub k hgk))) hs
  · -- junction
    rw [wf.consts] at hop hgs1 hos1
    obtain ⟨hob, hoc⟩ := partner_props p.cfg.size (roadBits p col) _ (groupsOf p col) o hcomp hpb hbm hn ho
    apply conclude basis p wf hh hply hno col hcol (g ||| o) s hres hfill
    intro bits' hs hk
    have hkg : ∀ k, g.getLsbD k = true → bits'.getLsbD k = true := fun k hgk =>
      hk k (by rw [BitVec.getLsbD_or, hgk]; rfl) (hgc.sub k hgk)
    have hko : ∀ k, o.getLsbD k = true → bits'.getLsbD k = true := fun k hok =>
      hk k (by rw [BitVec.getLsbD_or, hok]; simp) (hob k hok)
    exact junction_spans hn (Sub.trans hgc.sub hbm) (Sub.trans hob hbm) hop hgs1 hos1
      (comp_connIn hgc hkg) (hoc bits' hko) hs

/-- **C19.** -/
theorem threat_real_impl (basis : Array W) (p : Pos) (wf : WFBoard p) (hh : HeightsOK p) (hply : 2 ≤ p.move)
    (hno : p.gameOver.1 = false) (hcount : 0 < (countThreats p.c p).forMover p) :
    ∃ m q, m.type ≠ Facts.mtPass ∧ p.apply basis m = .ok q ∧ RoadWinFor q p.toMove ∧
      (groupsOf q p.toMove).any (isRoadGroup q.c) = true ∧ RoadWF q := by
  unfold Threats.forMover countThreats at hcount
  rcases toMove_cases p with hw | hb
  · rw [hw] at hcount ⊢
    simp only [beq_self_eq_true, if_true] at hcount
    exact threat_real_core basis p wf hh hply hno .white hw hcount
  · rw [hb] at hcount ⊢
    have : (Color.black == Color.white) = false := by decide
    simp only [this, Bool.false_eq_true, if_false] at hcount
    exact threat_real_core basis p wf hh hply hno .black hb hcount

end C19
