import TakVerif.Proofs.PvHeadAnalyze

/-! # `GetMove` keeps the engine's hints of known origin — no hypothesis on the position (helper for
`Props/C07_compose.lean`)

`Search.getMove_prov` also says that the returned move is accepted, and for that it needs a legal move to exist, the
evaluator's bound and `GenOK`.  The bot threads ONE engine through every call of a game, on whatever position a thinker
was started on; for the engine-state invariant alone nothing about the position is needed beyond `N p`. -/
namespace Search
open Tak (Err)

variable {P M : Type} {g : Game P M} {o : Oracle M} {Q : M → Prop} {N D : P → Prop}

theorem gmBody_engOK [DecidableEq M] (hP : Prov g o Q N D) (cfg : Cfg) (p : P) (hN : N p) (depth : Int) (rest : List M)
    (hrest : ∀ x ∈ rest, Q x) (v base : Int) :
    BodyQ g p (gmBody g cfg o depth rest v base) Q
      (fun (a : GmAcc M) s => EngOK g Q D s ∧ Q a.rv) (fun _ _ => False) (fun (_ : Unit) _ => False) := by
  intro m c a s hap hm hI
  unfold gmBody
  apply Sat.bind
  intro sm _
  apply Sat.bind
  refine (pvSearch_q hP cfg.opts 1 c 0 (depth - 1) rest (-v - 1) (-base) _ (hP.closed p m c hN hap) hrest
    (hI.1.of_eq (s1 := { s with stackM := sm }) rfl rfl rfl)).mono ?_
  rintro r ⟨hr1, _⟩
  dsimp only
  split
  · exact Sat.pure ⟨hr1, hI.2⟩
  · split
    · exact Sat.pure ⟨hr1, hI.2⟩
    · split
      · exact Sat.throw
      · refine Sat.pure ⟨hr1.of_eq rfl rfl rfl, ?_⟩
        dsimp only
        split
        · exact hm
        · exact hI.2

theorem getMoveFrom_engOK [DecidableEq M] (hP : Prov g o Q N D) (cfg : Cfg) (p : P) (hN : N p)
    (pv : List M) (hq : ∀ x ∈ pv, Q x) (hz : Q g.zeroMove)
    (v : Int) (st : Stats) (s : Eng M) (hs : EngOK g Q D s) :
    Sat (getMoveFrom g cfg o p pv v st s) (fun x => EngOK g Q D x.2 ∧ Q x.1) := by
  unfold getMoveFrom
  cases pv with
  | nil => exact Sat.ok ⟨hs, hz⟩
  | cons pv0 rest =>
    have h0 : Q pv0 := hq pv0 List.mem_cons_self
    dsimp only
    split
    · exact Sat.ok ⟨hs, h0⟩
    · split
      · exact Sat.ok ⟨hs, h0⟩
      · have hit := iterate_q (gmBody_engOK hP cfg p hN st.depth rest (fun x hx => hq x (List.mem_cons_of_mem _ hx)) v
            (v - cfg.randomizeWindow)) cfg.opts o (rootMG st.depth (pv0 :: rest))
          (fun e he => by cases he) (fun x r h => by cases h; exact h0) (fun _ _ h => h.1.resp) (hP.gen p hN) hP.ord
          (fun _ _ _ h => ⟨h.1.of_eq rfl rfl rfl, h.2⟩) (⟨pv0, 0⟩ : GmAcc M) s ⟨hs, h0⟩
        cases hi : iterate g cfg.opts o p (rootMG st.depth (pv0 :: rest))
            (gmBody g cfg o st.depth rest v (v - cfg.randomizeWindow)) (⟨pv0, 0⟩ : GmAcc M) s with
        | error e => exact Sat.error
        | ok y =>
          obtain ⟨ctl, s2⟩ := y
          have hpost := hit _ hi
          cases ctl with
          | next a => exact Sat.ok hpost
          | brk a => exact absurd hpost id
          | ret r => exact absurd hpost id

/-- **`GetMove` keeps `EngOK`** on every position of `N`, whatever it is (finished, without legal moves, any
evaluator), and returns a `Q`-move -/
theorem getMove_engOK [DecidableEq M] (hP : Prov g o Q N D) (cfg : Cfg) (p : P) (hN : N p) (hz : Q g.zeroMove)
    (s : Eng M) (hs : EngOK g Q D s) :
    Sat (getMove g cfg o p s) (fun x => EngOK g Q D x.2 ∧ Q x.1) := by
  unfold getMove
  have ha := analyze_prov hP cfg p hN s hs
  cases hr : analyze g cfg o p s with
  | error e => exact Sat.error
  | ok x =>
    obtain ⟨⟨pv, v, st⟩, s1⟩ := x
    obtain ⟨h1, h2⟩ := ha _ hr
    exact getMoveFrom_engOK hP cfg p hN pv h2 hz v st s1 h1

end Search
