import TakVerif.Impl.Evaluate

/-! Arithmetic helpers for the C18 bound: absolute values as `Int.natAbs` casts (`omega` understands them),
bounded factor × weight, sums of bounded terms, `popcount ≤ 64`. Core Lean only. -/
namespace C18
open Tak

/-- `|x|` as an integer -/
def ab (x : Int) : Int := (x.natAbs : Int)

theorem ab_nonneg (x : Int) : 0 ≤ ab x := by unfold ab; omega
theorem ab_bounds (x : Int) : -(ab x) ≤ x ∧ x ≤ ab x := by unfold ab; omega

/-- a factor in `[-k, k]` times a weight stays within `k·|w|` -/
theorem mul_bound (a w : Int) (k : Int) (hlo : -k ≤ a) (hhi : a ≤ k) :
    -(k * ab w) ≤ a * w ∧ a * w ≤ k * ab w := by
  have hk : 0 ≤ k := by omega
  have hw := ab_nonneg w
  rcases Int.le_total 0 w with h | h
  · have e : ab w = w := by unfold ab; omega
    rw [e]
    constructor
    · have := Int.mul_le_mul_of_nonneg_right hlo h
      rw [Int.neg_mul] at this; exact this
    · exact Int.mul_le_mul_of_nonneg_right hhi h
  · have e : ab w = -w := by unfold ab; omega
    rw [e]
    have hn : 0 ≤ -w := by omega
    constructor
    · have := Int.mul_le_mul_of_nonneg_right hhi hn
      rw [Int.mul_neg, Int.mul_neg] at this; rw [Int.mul_neg]; omega
    · have := Int.mul_le_mul_of_nonneg_right hlo hn
      rw [Int.mul_neg, Int.mul_neg, Int.neg_mul] at this; rw [Int.mul_neg]; omega

theorem mul_bound' (a w : Int) (k : Int) (hlo : -k ≤ a) (hhi : a ≤ k) :
    -(k * ab w) ≤ w * a ∧ w * a ≤ k * ab w := by
  rw [Int.mul_comm w a]; exact mul_bound a w k hlo hhi

/-- a sign (±1) times a bounded term -/
theorem sign_mul_bound (s x S : Int) (hs : s = 1 ∨ s = -1) (hx : -S ≤ x ∧ x ≤ S) :
    -S ≤ s * x ∧ s * x ≤ S := by
  rcases hs with h | h <;> subst h
  · rw [Int.one_mul]; exact hx
  · rw [Int.neg_mul, Int.one_mul]; omega

/-- a sum of terms each within `[-S, S]` -/
theorem sum_map_bound {α : Type} (l : List α) (f : α → Int) (S : Int)
    (h : ∀ x ∈ l, -S ≤ f x ∧ f x ≤ S) :
    -((l.length : Int) * S) ≤ (l.map f).sum ∧ (l.map f).sum ≤ (l.length : Int) * S := by
  induction l with
  | nil => simp
  | cons a l ih =>
    have ha := h a (by simp)
    have := ih (fun x hx => h x (by simp [hx]))
    simp only [List.map_cons, List.sum_cons, List.length_cons]
    have e : ((l.length + 1 : Nat) : Int) * S = (l.length : Int) * S + S := by
      rw [Int.natCast_add, Int.add_mul]; simp
    rw [e]; omega

theorem popcountFuel_le (n : Nat) (x : W) : popcountFuel n x ≤ n := by
  induction n generalizing x with
  | zero => simp [popcountFuel]
  | succ n ih =>
    unfold popcountFuel
    split
    · omega
    · have := ih (x &&& (x - 1#64)); omega

theorem popcount_le (x : W) : popcount x ≤ 64 := popcountFuel_le 64 x

theorem popcount_int (x : W) : (0 : Int) ≤ (popcount x : Int) ∧ (popcount x : Int) ≤ 64 := by
  have := popcount_le x; omega

/-- sum of natural numbers each `≤ k` -/
theorem sum_map_le_nat {α : Type} (l : List α) (f : α → Nat) (k : Nat) (h : ∀ x ∈ l, f x ≤ k) :
    (l.map f).sum ≤ l.length * k := by
  induction l with
  | nil => simp
  | cons a l ih =>
    have ha := h a (by simp)
    have := ih (fun x hx => h x (by simp [hx]))
    simp only [List.map_cons, List.sum_cons, List.length_cons]
    rw [Nat.add_mul]; omega

end C18
