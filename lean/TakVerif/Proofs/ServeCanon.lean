import TakVerif.Props.C11
import TakVerif.Impl.Serve

/-! Spellings of games as the RPC `Canonicalize` receives and sends them, and the parsing loop of the handler on them
(through C11's round trips). -/
namespace C15
open Tak Tak.Serve Go Notation

/-- a client's spelling `b` of the move `m` on an `n`×`n` board: `FormatMove` or `FormatMoveLong` of a move of legal
shape, optionally followed by annotation marks -/
def Spells (n : Nat) (b : Bytes) (m : Tak.Move) : Prop :=
  LegalShape n m ∧ ∃ (long : Bool) (suffix : Bytes), (∀ c ∈ suffix, c ∈ lit "!?'*") ∧ b = PTN.formatMove m long ++ suffix

/-- `words` spells the game `ms` move by move -/
inductive SpellsAll (n : Nat) : List Bytes → List Tak.Move → Prop
  | nil : SpellsAll n [] []
  | cons {b : Bytes} {m : Tak.Move} {bs : List Bytes} {ms : List Tak.Move} :
      Spells n b m → SpellsAll n bs ms → SpellsAll n (b :: bs) (m :: ms)

/-- the spelling the handler itself produces -/
def shortSpelling (ms : List Tak.Move) : List Bytes := ms.map (fun m => PTN.formatMove m false)

theorem spells_short {n : Nat} {m : Tak.Move} (h : LegalShape n m) : Spells n (PTN.formatMove m false) m :=
  ⟨h, false, [], (by intro c hc; cases hc), (by simp)⟩

/-- the parsing loop of the handler reads every spelling of a game as that game -/
theorem parseMoves_spellings (basis : Array W) (n : Nat) :
    ∀ (words : List Bytes) (ms : List Tak.Move), SpellsAll n words ms →
      parseMoves (takEnv basis) words = .ok ms := by
  intro words ms h
  induction h with
  | nil => rfl
  | @cons b m words ms hb _ ih =>
    obtain ⟨hshape, long, suffix, hsuf, rfl⟩ := hb
    have hp : (takEnv basis).parseMove (PTN.formatMove m long ++ suffix) = .ok m :=
      C11.annotations_ignored n m hshape long suffix hsuf
    simp only [parseMoves, hp, ih]

theorem spellsAll_shortSpelling {n : Nat} :
    ∀ (ms : List Tak.Move), (∀ m ∈ ms, LegalShape n m) → SpellsAll n (shortSpelling ms) ms := by
  intro ms
  induction ms with
  | nil => intro _; exact SpellsAll.nil
  | cons m ms ih =>
    intro h
    exact SpellsAll.cons (spells_short (h m (by simp))) (ih (fun x hx => h x (by simp [hx])))

end C15
