import TakVerif.Impl.Serve
import TakVerif.Proofs.SearchTable

/-! The engine caches of `cmd/internal/serve` (`Impl/Serve.lean`): whatever requests a server has answered, each
cached engine is a *fresh engine of the cache key's configuration after a history of `Analyze` calls* — the object
`C05.verdict_sound` speaks about (`Search.runCalls`). -/
namespace Tak.Serve
open Search

variable {P M : Type} [DecidableEq M]

theorem runCalls_append (g : Game P M) (cfg : Search.Cfg) (h : History P M) (p : P) (o : Oracle M) (s : Eng M) :
    runCalls g cfg (h ++ [(p, o)]) s =
      match runCalls g cfg h s with
      | .error e => .error e
      | .ok (rs, s1) =>
        match Search.analyze g cfg o p s1 with
        | .error e => .error e
        | .ok (r, s2) => .ok (rs ++ [(p, r.2.1)], s2) := by
  induction h generalizing s with
  | nil =>
    simp only [List.nil_append, runCalls]
    cases Search.analyze g cfg o p s with
    | error e => rfl
    | ok x => rfl
  | cons c rest ih =>
    obtain ⟨q, oq⟩ := c
    simp only [List.cons_append, runCalls]
    cases Search.analyze g cfg oq q s with
    | error e => rfl
    | ok x =>
      simp only []
      rw [ih x.2]
      cases runCalls g cfg rest x.2 with
      | error e => rfl
      | ok y =>
        obtain ⟨rs, s1⟩ := y
        simp only []
        cases Search.analyze g cfg o p s1 with
        | error e => rfl
        | ok z => simp only [List.cons_append]

/-- `eng` is what the history `h` of `Analyze` calls (each with an environment satisfying `Ok`, e.g. a
membership-preserving move order) leaves of an engine newly built by `NewMinimax` for `cfg` -/
def EngAfter (Ok : Oracle M → Prop) (g : Game P M) (cfg : Search.Cfg) (h : History P M) (eng : Eng M) : Prop :=
  (∀ x ∈ h, Ok x.2) ∧ ∃ rs, runCalls g cfg h (Eng.new g cfg) = .ok (rs, eng)

/-- invariant of a cache: a cached engine belongs to the remembered key and is a fresh engine of that key's
configuration after some history of calls -/
def CacheInv (Ok : Oracle M → Prop) (env : Env P M) (c : Cache M) : Prop :=
  ∀ pl, c.player = some pl →
    (pl.size : Int) = c.size ∧ pl.cfg = playerCfg env.tableEntries c.depth c.precise ∧
    ∃ h : History P M, EngAfter Ok (env.game pl.size) pl.cfg h pl.eng

theorem cacheInv_empty (Ok : Oracle M → Prop) (env : Env P M) : CacheInv Ok env ({} : Cache M) := by
  intro pl h; cases h

theorem engAfter_new (Ok : Oracle M → Prop) (g : Game P M) (cfg : Search.Cfg) : EngAfter Ok g cfg [] (Eng.new g cfg) :=
  ⟨fun x hx => (by cases hx), [], rfl⟩

/-- `getPlayer` keeps the invariant; afterwards the key is the requested one -/
theorem getPlayer_inv (Ok : Oracle M → Prop) (env : Env P M) (c : Cache M) (size : Nat) (depth : Int) (precise : Bool)
    (hc : CacheInv Ok env c) :
    CacheInv Ok env (c.getPlayer env size depth precise) ∧
    (c.getPlayer env size depth precise).size = size ∧
    (c.getPlayer env size depth precise).depth = depth ∧
    (c.getPlayer env size depth precise).precise = precise := by
  unfold Cache.getPlayer
  by_cases hk : (c.size != (size : Int) || c.depth != depth || c.precise != precise) = true
  · rw [if_pos hk]
    refine ⟨?_, rfl, rfl, rfl⟩
    intro pl hpl
    simp only [Option.some.injEq] at hpl
    subst hpl
    exact ⟨rfl, rfl, [], engAfter_new Ok _ _⟩
  · rw [if_neg hk]
    simp only [Bool.or_eq_true, bne_iff_ne, ne_eq, not_or, Decidable.not_not] at hk
    exact ⟨hc, hk.1.1, hk.1.2, hk.2⟩

/-- one `player.Analyze` on the cached engine extends its history by that call -/
theorem callPlayer_history (Ok : Oracle M → Prop) (env : Env P M) (o : Oracle M) (ho : Ok o) (c : Cache M) (p : P)
    (hc : CacheInv Ok env c) (pv : List M) (v : Int) (c' : Cache M)
    (hcall : callPlayer env o c p = (.ok (pv, v), c')) :
    CacheInv Ok env c' ∧ c'.size = c.size ∧ c'.depth = c.depth ∧ c'.precise = c.precise ∧
    (c.size = (env.size p : Int)) ∧
    ∃ (h : History P M) (rs : List (P × Int)) (eng eng0 : Eng M) (ms : List M) (st : Stats), (∀ x ∈ h, Ok x.2) ∧
      runCalls (env.game (env.size p)) (playerCfg env.tableEntries c.depth c.precise) h
        (Eng.new (env.game (env.size p)) (playerCfg env.tableEntries c.depth c.precise)) = .ok (rs, eng0) ∧
      Search.analyze (env.game (env.size p)) (playerCfg env.tableEntries c.depth c.precise) o p eng0 =
        .ok ((pv, v, st), eng) ∧ ms = pv ∧
      runCalls (env.game (env.size p)) (playerCfg env.tableEntries c.depth c.precise) (h ++ [(p, o)])
        (Eng.new (env.game (env.size p)) (playerCfg env.tableEntries c.depth c.precise)) = .ok (rs ++ [(p, v)], eng) := by
  obtain ⟨size, depth, precise, player⟩ := c
  cases player with
  | none => simp only [callPlayer] at hcall; cases hcall
  | some pl =>
    obtain ⟨psize, cfg, eng⟩ := pl
    simp only [callPlayer] at hcall
    by_cases hsz : (psize != env.size p) = true
    · rw [if_pos hsz] at hcall; cases hcall
    · rw [if_neg hsz] at hcall
      have hsz' : psize = env.size p := by simpa using hsz
      obtain ⟨hsize, hcfg, h, hord, rs, hrun⟩ := hc ⟨psize, cfg, eng⟩ rfl
      simp only at hsize hcfg hrun
      cases ha : Search.analyze (env.game psize) cfg o p eng with
      | error e => rw [ha] at hcall; cases hcall
      | ok x =>
        obtain ⟨⟨pv', v', st⟩, eng'⟩ := x
        rw [ha] at hcall
        simp only [Prod.mk.injEq, Except.ok.injEq] at hcall
        obtain ⟨⟨rfl, rfl⟩, rfl⟩ := hcall
        have hrun' : runCalls (env.game psize) cfg (h ++ [(p, o)]) (Eng.new (env.game psize) cfg) =
            .ok (rs ++ [(p, v')], eng') := by
          rw [runCalls_append, hrun]
          simp only [ha]
        have hord' : ∀ x ∈ h ++ [(p, o)], Ok x.2 := by
          intro x hx
          rcases List.mem_append.mp hx with hx | hx
          · exact hord x hx
          · simp only [List.mem_singleton] at hx; subst hx; exact ho
        refine ⟨?_, rfl, rfl, rfl, ?_, h, rs, eng', eng, pv', st, hord, ?_, ?_, rfl, ?_⟩
        · intro pl hpl
          simp only [Option.some.injEq] at hpl
          subst hpl
          exact ⟨hsize, hcfg, h ++ [(p, o)], hord', rs ++ [(p, v')], hrun'⟩
        · simp only; rw [← hsize, hsz']
        · simp only
          rw [← hcfg, ← hsz']
          exact hrun
        · simp only
          rw [← hcfg, ← hsz']
          exact ha
        · simp only
          rw [← hcfg, ← hsz']
          exact hrun'

/-- `MakePrecise` on the default options is `Search.Precise` (no null move, no slide reduction, no multi-cut, no
symmetry de-duplication) -/
theorem playerCfg_precise (tableEntries : Nat) (depth : Int) :
    Precise (playerCfg tableEntries depth true).opts :=
  ⟨rfl, rfl, rfl, rfl⟩

end Tak.Serve
