import TakVerif.Impl.Serve
import TakVerif.Proofs.SearchTable
import TakVerif.Proofs.SearchPvs

/-! The engine caches of `cmd/internal/serve` (`Impl/Serve.lean`): whatever requests a server has answered, each
cached engine is a *fresh engine of the cache key's configuration after a history of `Analyze` calls* — the object
`C05.verdict_sound` speaks about (`Search.runCalls`). -/
namespace Tak.Serve
open Search

variable {P M : Type} [DecidableEq M]

theorem runCalls_append (g : Game P M) (cfg : Search.Cfg) (h : History P M) (p : P) (o : Oracle M) (s : Eng M) :
    runCalls g cfg (h ++ [(p, o)]) s =
      match runCalls g cfg h s with
      | .error e => .error e
      | .ok (rs, s1) =>
        match Search.analyze g cfg o p s1 with
        | .error e => .error e
        | .ok (r, s2) => .ok (rs ++ [(p, r.2.1)], s2) := by
  induction h generalizing s with
  | nil =>
    simp only [List.nil_append, runCalls]
    cases Search.analyze g cfg o p s with
    | error e => rfl
    | ok x => rfl
  | cons c rest ih =>
    obtain ⟨q, oq⟩ := c
    simp only [List.cons_append, runCalls]
    cases Search.analyze g cfg oq q s with
    | error e => rfl
    | ok x =>
      simp only []
      rw [ih x.2]
      cases runCalls g cfg rest x.2 with
      | error e => rfl
      | ok y =>
        obtain ⟨rs, s1⟩ := y
        simp only []
        cases Search.analyze g cfg o p s1 with
        | error e => rfl
        | ok z => simp only [List.cons_append]

/-- `eng` is what the history `h` of `Analyze` calls (each with an environment satisfying `Ok`, e.g. a
membership-preserving move order) leaves of an engine newly built by `NewMinimax` for `cfg` -/
def EngAfter (Ok : Oracle M → Prop) (g : Game P M) (cfg : Search.Cfg) (h : History P M) (eng : Eng M) : Prop :=
  (∀ x ∈ h, Ok x.2) ∧ ∃ rs, runCalls g cfg h (Eng.new g cfg) = .ok (rs, eng)

/-- invariant of a cache: a cached engine belongs to the remembered key and is a fresh engine of that key's
configuration after some history of calls -/
def CacheInv (Ok : Oracle M → Prop) (env : Env P M) (c : Cache M) : Prop :=
  ∀ pl, c.player = some pl →
    (pl.size : Int) = c.size ∧ pl.cfg = playerCfg env.tableEntries c.depth c.precise ∧
    ∃ h : History P M, EngAfter Ok (env.game pl.size) pl.cfg h pl.eng

theorem cacheInv_empty (Ok : Oracle M → Prop) (env : Env P M) : CacheInv Ok env ({} : Cache M) := by
  intro pl h; cases h

theorem engAfter_new (Ok : Oracle M → Prop) (g : Game P M) (cfg : Search.Cfg) : EngAfter Ok g cfg [] (Eng.new g cfg) :=
  ⟨fun x hx => (by cases hx), [], rfl⟩

/-- `getPlayer` keeps the invariant; afterwards the key is the requested one -/
theorem getPlayer_inv (Ok : Oracle M → Prop) (env : Env P M) (c : Cache M) (size : Nat) (depth : Int) (precise : Bool)
    (hc : CacheInv Ok env c) :
    CacheInv Ok env (c.getPlayer env size depth precise) ∧
    (c.getPlayer env size depth precise).size = size ∧
    (c.getPlayer env size depth precise).depth = depth ∧
    (c.getPlayer env size depth precise).precise = precise := by
  unfold Cache.getPlayer
  by_cases hk : (c.size != (size : Int) || c.depth != depth || c.precise != precise) = true
  · rw [if_pos hk]
    refine ⟨?_, rfl, rfl, rfl⟩
    intro pl hpl
    simp only [Option.some.injEq] at hpl
    subst hpl
    exact ⟨rfl, rfl, [], engAfter_new Ok _ _⟩
  · rw [if_neg hk]
    simp only [Bool.or_eq_true, bne_iff_ne, ne_eq, not_or, Decidable.not_not] at hk
    exact ⟨hc, hk.1.1, hk.1.2, hk.2⟩

/-- one `player.Analyze` on the cached engine extends its history by that call -/
theorem callPlayer_history (Ok : Oracle M → Prop) (env : Env P M) (o : Oracle M) (ho : Ok o) (c : Cache M) (p : P)
    (hc : CacheInv Ok env c) (pv : List M) (v : Int) (c' : Cache M)
    (hcall : callPlayer env o c p = (.ok (pv, v), c')) :
    CacheInv Ok env c' ∧ c'.size = c.size ∧ c'.depth = c.depth ∧ c'.precise = c.precise ∧
    (c.size = (env.size p : Int)) ∧
    ∃ (h : History P M) (rs : List (P × Int)) (eng eng0 : Eng M) (st : Stats), (∀ x ∈ h, Ok x.2) ∧
      runCalls (env.game (env.size p)) (playerCfg env.tableEntries c.depth c.precise) h
        (Eng.new (env.game (env.size p)) (playerCfg env.tableEntries c.depth c.precise)) = .ok (rs, eng0) ∧
      Search.analyze (env.game (env.size p)) (playerCfg env.tableEntries c.depth c.precise) o p eng0 =
        .ok ((pv, v, st), eng) ∧
      runCalls (env.game (env.size p)) (playerCfg env.tableEntries c.depth c.precise) (h ++ [(p, o)])
        (Eng.new (env.game (env.size p)) (playerCfg env.tableEntries c.depth c.precise)) = .ok (rs ++ [(p, v)], eng) := by
  obtain ⟨size, depth, precise, player⟩ := c
  cases player with
  | none => simp only [callPlayer] at hcall; cases hcall
  | some pl =>
    obtain ⟨psize, cfg, eng⟩ := pl
    simp only [callPlayer] at hcall
    by_cases hsz : (psize != env.size p) = true
    · rw [if_pos hsz] at hcall; cases hcall
    · rw [if_neg hsz] at hcall
      have hsz' : psize = env.size p := by simpa using hsz
      obtain ⟨hsize, hcfg, h, hord, rs, hrun⟩ := hc ⟨psize, cfg, eng⟩ rfl
      simp only at hsize hcfg hrun
      cases ha : Search.analyze (env.game psize) cfg o p eng with
      | error e => rw [ha] at hcall; cases hcall
      | ok x =>
        obtain ⟨⟨pv', v', st⟩, eng'⟩ := x
        rw [ha] at hcall
        simp only [Prod.mk.injEq, Except.ok.injEq] at hcall
        obtain ⟨⟨rfl, rfl⟩, rfl⟩ := hcall
        have hrun' : runCalls (env.game psize) cfg (h ++ [(p, o)]) (Eng.new (env.game psize) cfg) =
            .ok (rs ++ [(p, v')], eng') := by
          rw [runCalls_append, hrun]
          simp only [ha]
        have hord' : ∀ x ∈ h ++ [(p, o)], Ok x.2 := by
          intro x hx
          rcases List.mem_append.mp hx with hx | hx
          · exact hord x hx
          · simp only [List.mem_singleton] at hx; subst hx; exact ho
        refine ⟨?_, rfl, rfl, rfl, ?_, h, rs, eng', eng, st, hord, ?_, ?_, ?_⟩
        · intro pl hpl
          simp only [Option.some.injEq] at hpl
          subst hpl
          exact ⟨hsize, hcfg, h ++ [(p, o)], hord', rs ++ [(p, v')], hrun'⟩
        · simp only; rw [← hsize, hsz']
        · simp only
          rw [← hcfg, ← hsz']
          exact hrun
        · simp only
          rw [← hcfg, ← hsz']
          exact ha
        · simp only
          rw [← hcfg, ← hsz']
          exact hrun'

/-- `MakePrecise` on the default options is `Search.Precise` (no null move, no slide reduction, no multi-cut, no
symmetry de-duplication) -/
theorem playerCfg_precise (tableEntries : Nat) (depth : Int) :
    Precise (playerCfg tableEntries depth true).opts :=
  ⟨rfl, rfl, rfl, rfl⟩

/-- the environment of the request's engine call satisfies `Ok` (below: `OrderOK`, the move order of `sort.Sort` keeps
the set of generated moves; for `intak_iff` also `NoCancel`, the request context is not cancelled) -/
def ReqOK (Ok : Oracle M → Prop) : Req M → Prop
  | .analyze _ _ _ o => Ok o
  | .canonicalize _ _ => True
  | .isInTak _ o => Ok o

/-- an answered request, read as the last call of a history of `Analyze` calls on a per-key engine -/
def AnsweredByHistory (Ok : Oracle M → Prop) (env : Env P M) : Req M → Except Err Resp → Prop
  | .analyze position depth precise o, .ok (.analyze _ v) =>
    ∃ p, env.parseTPS position = .ok p ∧
      ∃ (h : History P M) (rs : List (P × Int)) (eng : Eng M), (∀ x ∈ h, Ok x.2) ∧
        runCalls (env.game (env.size p)) (playerCfg env.tableEntries depth precise) (h ++ [(p, o)])
          (Eng.new (env.game (env.size p)) (playerCfg env.tableEntries depth precise)) = .ok (rs ++ [(p, v)], eng)
  | .isInTak position o, .ok (.isInTak inTak _) =>
    ∃ p q v, env.parseTPS position = .ok p ∧ env.pass p = .ok q ∧ inTak = decide (v > Facts.winThreshold) ∧
      ∃ (h : History P M) (rs : List (P × Int)) (eng : Eng M), (∀ x ∈ h, Ok x.2) ∧
        runCalls (env.game (env.size q)) (playerCfg env.tableEntries 1 true) (h ++ [(q, o)])
          (Eng.new (env.game (env.size q)) (playerCfg env.tableEntries 1 true)) = .ok (rs ++ [(q, v)], eng)
  | _, _ => True

/-- both caches satisfy the cache invariant -/
def ServerInv (Ok : Oracle M → Prop) (env : Env P M) (s : Server M) : Prop :=
  CacheInv Ok env s.analyzeCache ∧ CacheInv Ok env s.istakCache

theorem callPlayer_error_inv (Ok : Oracle M → Prop) (env : Env P M) (o : Oracle M) (c : Cache M) (p : P) (e : Err)
    (c' : Cache M) (h : callPlayer env o c p = (.error e, c')) : CacheInv Ok env c' := by
  obtain ⟨size, depth, precise, player⟩ := c
  cases player with
  | none =>
    simp only [callPlayer, Prod.mk.injEq] at h
    rw [← h.2]; intro pl hpl; cases hpl
  | some pl =>
    obtain ⟨psize, cfg, eng⟩ := pl
    simp only [callPlayer] at h
    split at h
    · simp only [Prod.mk.injEq] at h; rw [← h.2]; intro pl hpl; cases hpl
    · split at h
      · simp only [Prod.mk.injEq] at h; rw [← h.2]; intro pl hpl; cases hpl
      · simp only [Prod.mk.injEq] at h; cases h.1

/-- one request: the answer is the last call of a history, and the caches stay histories -/
theorem step_history (Ok : Oracle M → Prop) (env : Env P M) (s : Server M) (r : Req M) (hr : ReqOK Ok r)
    (hs : ServerInv Ok env s) :
    AnsweredByHistory Ok env r (s.step env r).1 ∧ ServerInv Ok env (s.step env r).2 := by
  obtain ⟨ac, ic⟩ := s
  obtain ⟨hac, hic⟩ := hs
  cases r with
  | canonicalize size moves =>
    refine ⟨?_, hac, hic⟩
    simp only [AnsweredByHistory]
  | analyze position depth precise o =>
    simp only [Server.step, Serve.analyze]
    cases hp : env.parseTPS position with
    | error e => exact ⟨trivial, hac, hic⟩
    | ok p =>
      simp only []
      obtain ⟨hinv, hsz, hd, hpr⟩ := getPlayer_inv Ok env ac (env.size p) depth precise hac
      cases hcp : callPlayer env o (ac.getPlayer env (env.size p) depth precise) p with
      | mk out c' =>
        cases out with
        | error e => exact ⟨trivial, callPlayer_error_inv Ok env o _ p e c' hcp, hic⟩
        | ok x =>
          obtain ⟨pv, v⟩ := x
          obtain ⟨hinv', _, _, _, _, h, rs, eng, _, _, hord, _, _, hrun⟩ := callPlayer_history Ok env o hr _ p hinv pv v c' hcp
          rw [hd, hpr] at hrun
          exact ⟨⟨p, hp, h, rs, eng, hord, hrun⟩, hinv', hic⟩
  | isInTak position o =>
    simp only [Server.step, Serve.isPositionInTak]
    cases hp : env.parseTPS position with
    | error e => exact ⟨trivial, hac, hic⟩
    | ok p =>
      simp only []
      obtain ⟨hinv, hsz, hd, hpr⟩ := getPlayer_inv Ok env ic (env.size p) 1 true hic
      cases hq : env.pass p with
      | error e => exact ⟨trivial, hac, hinv⟩
      | ok q =>
        simp only []
        cases hcp : callPlayer env o (ic.getPlayer env (env.size p) 1 true) q with
        | mk out c' =>
          cases out with
          | error e => exact ⟨trivial, hac, callPlayer_error_inv Ok env o _ q e c' hcp⟩
          | ok x =>
            obtain ⟨pv, v⟩ := x
            obtain ⟨hinv', _, _, _, _, h, rs, eng, _, _, hord, _, _, hrun⟩ := callPlayer_history Ok env o hr _ q hinv pv v c' hcp
            rw [hd, hpr] at hrun
            simp only []
            by_cases hv : v > Facts.winThreshold
            · rw [if_pos hv]
              cases pv with
              | nil => exact ⟨trivial, hac, hinv'⟩
              | cons m rest =>
                exact ⟨⟨p, q, v, hp, hq, by simp [hv], h, rs, eng, hord, hrun⟩, hac, hinv'⟩
            · rw [if_neg hv]
              exact ⟨⟨p, q, v, hp, hq, by simp [hv], h, rs, eng, hord, hrun⟩, hac, hinv'⟩

theorem run_history (Ok : Oracle M → Prop) (env : Env P M) :
    ∀ (reqs : List (Req M)) (s : Server M), (∀ r ∈ reqs, ReqOK Ok r) → ServerInv Ok env s →
      (∀ x ∈ reqs.zip (Server.run env s reqs).1, AnsweredByHistory Ok env x.1 x.2) ∧
      ServerInv Ok env (Server.run env s reqs).2 := by
  intro reqs
  induction reqs with
  | nil => intro s _ hs; exact ⟨fun x hx => by simp [Server.run] at hx, hs⟩
  | cons r rest ih =>
    intro s hreq hs
    obtain ⟨hans, hs'⟩ := step_history Ok env s r (hreq r (by simp)) hs
    have hrest := ih (s.step env r).2 (fun r' hr' => hreq r' (by simp [hr'])) hs'
    unfold Server.run
    split
    · rename_i site s' heq
      rw [heq] at hans hs'
      refine ⟨?_, hs'⟩
      intro x hx
      simp only [List.zip_cons_cons, List.zip_nil_right, List.mem_singleton] at hx
      subst hx
      exact hans
    · rename_i out s' hne heq
      rw [heq] at hans hrest
      simp only at hans hrest
      refine ⟨?_, hrest.2⟩
      intro x hx
      simp only [List.zip_cons_cons, List.mem_cons] at hx
      rcases hx with rfl | hx
      · exact hans
      · exact hrest.1 x hx

/-- the request context is never cancelled and `sort.Sort` permutes -/
def Quiet (o : Oracle M) : Prop := OrderOK o ∧ NoCancel o

/-- `playerCfg _ 1 true` is a depth-1 configuration -/
theorem playerCfg_depth1 (tableEntries : Nat) : (playerCfg tableEntries 1 true).depth = 1 := rfl


end Tak.Serve
