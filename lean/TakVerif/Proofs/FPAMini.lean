import TakVerif.Proofs.FPA

/-! A sparse copy of the list-level state (`MB`: only the occupied squares are stored, keyed by the same
index `x + y*size` the rule book uses) with a copy of `Spec.step` on it, and the proof that
`toState : MB → Spec.State` is a homomorphism of boards.  Used only to *evaluate* the opening game
quickly inside the kernel; every statement in `Props/C20.lean` is about `Spec.FPA.specBoard`. -/
set_option linter.unusedSimpArgs false
set_option linter.unusedVariables false
namespace Proofs.FPAMini
open Tak Tak.FPA Spec Spec.FPA Proofs.FPA

def lookup (i : Nat) : List (Nat × Square) → Square
  | [] => []
  | (k, sq) :: rest => if k = i then sq else lookup i rest

structure MB where
  size : Nat
  ply : Int
  stones : List (Nat × Square)
  ws : Nat
  wc : Nat
  bs : Nat
  bc : Nat


def MB.get (b : MB) (i : Nat) : Square := if i < b.size * b.size then lookup i b.stones else []
def MB.set (b : MB) (i : Nat) (sq : Square) : MB := { b with stones := (i, sq) :: b.stones }

def MB.toMove (b : MB) : Color := if b.ply % 2 == 0 then .white else .black
def MB.onBoard (b : MB) (x y : Int) : Bool := 0 ≤ x && x < b.size && 0 ≤ y && y < b.size
def MB.idx (b : MB) (x y : Int) : Nat := (x + y * b.size).toNat
def MB.at (b : MB) (x y : Int) : Square := b.get (b.idx x y)
def MB.setAt (b : MB) (x y : Int) (sq : Square) : MB := b.set (b.idx x y) sq

def MB.reserve (b : MB) (c : Color) (cap : Bool) : Nat :=
  match c, cap with
  | .white, false => b.ws | .white, true => b.wc
  | .black, false => b.bs | .black, true => b.bc
  | .none, _ => 0

def MB.decReserve (b : MB) (c : Color) (cap : Bool) : MB :=
  match c, cap with
  | .white, false => { b with ws := b.ws - 1 }
  | .white, true => { b with wc := b.wc - 1 }
  | .black, false => { b with bs := b.bs - 1 }
  | .black, true => { b with bc := b.bc - 1 }
  | .none, _ => b


/-- copy of `Spec.dropLoop` -/
def mdropLoop (s : MB) (x y : Int) (d : Dir) (carried : List Piece) : List Nat → Option MB
  | [] => if carried.isEmpty then some s else none
  | c :: cs =>
    let x := x + d.dx
    let y := y + d.dy
    if !s.onBoard x y then none else
    if c < 1 ∨ c > carried.length then none else
    let target := s.at x y
    let target? : Option Square :=
      match target with
      | [] => some []
      | t :: rest =>
        match t.kind with
        | .capstone => none
        | .standing =>
          (match carried with
           | [cp] => if cp.kind == .capstone then some (⟨t.color, .flat⟩ :: rest) else none
           | _ => none)
        | .flat => some target
    match target? with
    | none => none
    | some target =>
      let keep := carried.length - c
      let dropped := carried.drop keep
      let s := s.setAt x y (dropped ++ target)
      mdropLoop s x y d (carried.take keep) cs

/-- copy of `Spec.step` -/
def mstep (s : MB) : Spec.Move → Option MB
  | .invalid => none
  | .place x y k =>
    if !s.onBoard x y then none else
    let mover := s.toMove
    if s.ply < 2 ∧ k ≠ .flat then none else
    let col := if s.ply < 2 then mover.flip else mover
    if !(s.at x y).isEmpty then none else
    let cap := k == .capstone
    if s.reserve col cap == 0 then none else
    let s := s.decReserve col cap
    let s := s.setAt x y [⟨col, k⟩]
    some { s with ply := s.ply + 1 }
  | .slide x y d drops =>
    if s.ply < 2 then none else
    if !s.onBoard x y then none else
    if drops.isEmpty ∨ drops.any (· == 0) then none else
    let total := drops.foldl (· + ·) 0
    let sq := s.at x y
    if total > s.size ∨ total > sq.length then none else
    match sq with
    | [] => none
    | t :: _ =>
      if t.color ≠ s.toMove then none else
      let carried := sq.take total
      let s := s.setAt x y (sq.drop total)
      match mdropLoop s x y d carried drops with
      | none => none
      | some s => some { s with ply := s.ply + 1 }

def toState (b : MB) : Spec.State :=
  { size := b.size, blackWinsTies := true
    squares := (List.range (b.size * b.size)).map b.get
    ply := b.ply
    whiteStones := b.ws, whiteCaps := b.wc, blackStones := b.bs, blackCaps := b.bc }

def mview (b : MB) : View :=
  { size := b.size
    ply := b.ply
    empty := fun x y =>
      let i := x + y * (b.size : Int)
      if i < 0 then true else (b.get i.toNat).isEmpty }

def miniBoard : Board MB :=
  { view := mview
    toMove := MB.toMove
    step := mstep
    cands := fun b => candsOf b.size b.toMove b.get }

/-! ### `toState` is a homomorphism -/

theorem getD_squares (b : MB) (i : Nat) : (toState b).squares.getD i [] = b.get i := by
  simp only [toState, List.getD_eq_getElem?_getD, List.getElem?_map]
  by_cases h : i < b.size * b.size
  · simp [List.getElem?_range h]
  · have : (List.range (b.size * b.size))[i]? = none := by simp; omega
    simp [this, MB.get, h]

theorem at_hom (b : MB) (x y : Int) : (toState b).at x y = b.at x y := by
  unfold Spec.State.at Spec.State.idx MB.at MB.idx
  exact getD_squares b _

theorem set_squares (b : MB) (i : Nat) (sq : Square) :
    (toState b).squares.set i sq = (toState (b.set i sq)).squares := by
  apply List.ext_getElem
  · simp [toState, MB.set]
  · intro j h1 h2
    simp only [toState, List.length_set, List.length_map, List.length_range] at h1
    simp only [toState, List.getElem_set, List.getElem_map, List.getElem_range, MB.get, MB.set, h1, if_true, lookup]

theorem setAt_hom (b : MB) (x y : Int) (sq : Square) :
    (toState b).setAt x y sq = toState (b.setAt x y sq) := by
  unfold Spec.State.setAt MB.setAt
  have := set_squares b (b.idx x y) sq
  unfold Spec.State.idx
  unfold MB.idx at this ⊢
  simp only [toState] at this ⊢
  rw [this]
  rfl

theorem onBoard_hom (b : MB) (x y : Int) : (toState b).onBoard x y = b.onBoard x y := rfl
theorem toMove_hom (b : MB) : (toState b).toMove = b.toMove := rfl
theorem reserve_hom (b : MB) (c : Color) (cap : Bool) : (toState b).reserve c cap = b.reserve c cap := by
  cases c <;> cases cap <;> rfl
theorem decReserve_hom (b : MB) (c : Color) (cap : Bool) :
    (toState b).decReserve c cap = toState (b.decReserve c cap) := by
  cases c <;> cases cap <;> rfl

theorem dropLoop_hom (drops : List Nat) : ∀ (b : MB) (x y : Int) (d : Dir) (carried : List Piece),
    Spec.dropLoop (toState b) x y d carried drops = (mdropLoop b x y d carried drops).map toState := by
  induction drops with
  | nil =>
    intro b x y d carried
    simp only [Spec.dropLoop, mdropLoop]
    split <;> rfl
  | cons c cs ih =>
    intro b x y d carried
    simp only [Spec.dropLoop, mdropLoop, onBoard_hom, at_hom]
    by_cases h1 : (!b.onBoard (x + d.dx) (y + d.dy)) = true
    · simp only [h1, if_true, Option.map]
    · by_cases h2 : c < 1 ∨ c > carried.length
      · simp only [h1, h2, if_true, if_false, Option.map]
        simp
      · simp only [h1, h2, if_false]
        cases htgt : b.at (x + d.dx) (y + d.dy) with
        | nil =>
          simp only [setAt_hom]
          exact ih _ _ _ _ _
        | cons t rest =>
          obtain ⟨tc, tk⟩ := t
          cases tk with
          | flat =>
            simp only [setAt_hom]
            exact ih _ _ _ _ _
          | capstone => rfl
          | standing =>
            match carried with
            | [] => rfl
            | [cp] =>
              by_cases hk : (cp.kind == Kind.capstone) = true
              · simp only [hk, if_true, setAt_hom]
                exact ih _ _ _ _ _
              · simp [hk]
            | _ :: _ :: _ => rfl

theorem step_hom (b : MB) (m : Spec.Move) : Spec.step (toState b) m = (mstep b m).map toState := by
  have hply : (toState b).ply = b.ply := rfl
  have hsize : (toState b).size = b.size := rfl
  cases m with
  | invalid => rfl
  | place x y k =>
    simp only [Spec.step, mstep, onBoard_hom, at_hom, toMove_hom, reserve_hom, hply]
    by_cases c1 : (!b.onBoard x y) = true
    · simp [c1]
    by_cases c2 : b.ply < 2 ∧ k ≠ Kind.flat
    · simp [c1, c2]
    by_cases c3 : (!(b.at x y).isEmpty) = true
    · simp [c1, c2, c3]
    by_cases c4 : (b.reserve (if b.ply < 2 then b.toMove.flip else b.toMove) (k == Kind.capstone) == 0) = true
    · simp [c1, c2, c3, c4]
    · rw [if_neg c1, if_neg c2, if_neg c3, if_neg c4, if_neg c1, if_neg c2, if_neg c3, if_neg c4]
      simp only [decReserve_hom, setAt_hom, Option.map]
      rfl
  | slide x y d drops =>
    simp only [Spec.step, mstep, onBoard_hom, at_hom, toMove_hom, hply, hsize]
    by_cases c1 : b.ply < 2
    · rw [if_pos c1, if_pos c1]; rfl
    by_cases c2 : (!b.onBoard x y) = true
    · rw [if_neg c1, if_pos c2, if_neg c1, if_pos c2]; rfl
    by_cases c3 : drops.isEmpty = true ∨ (drops.any (· == 0)) = true
    · rw [if_neg c1, if_neg c2, if_pos c3, if_neg c1, if_neg c2, if_pos c3]; rfl
    by_cases c4 : drops.foldl (· + ·) 0 > b.size ∨ drops.foldl (· + ·) 0 > (b.at x y).length
    · rw [if_neg c1, if_neg c2, if_neg c3, if_pos c4, if_neg c1, if_neg c2, if_neg c3, if_pos c4]; rfl
    rw [if_neg c1, if_neg c2, if_neg c3, if_neg c4, if_neg c1, if_neg c2, if_neg c3, if_neg c4]
    cases hsq : b.at x y with
    | nil => rfl
    | cons t rest =>
      simp only
      by_cases c5 : t.color ≠ b.toMove
      · rw [if_pos c5, if_pos c5]; rfl
      rw [if_neg c5, if_neg c5]
      simp only [setAt_hom, dropLoop_hom]
      cases mdropLoop _ x y d _ drops with
      | none => rfl
      | some s' => rfl

theorem view_hom (b : MB) : viewOf (toState b) = mview b := by
  unfold viewOf mview
  congr 1
  funext x y
  simp only [getD_squares]
  rfl

theorem hom : Hom miniBoard specBoard toState where
  view := view_hom
  toMove := toMove_hom
  step := step_hom
  cands := by
    intro b
    simp only [specBoard, miniBoard]
    congr 1
    funext i
    exact getD_squares b i

/-! ### normal forms -/

def forceStone (e : Nat × Square) (k : Nat × Square → Bool) : Bool :=
  Force.nat e.1 fun i => Force.square e.2 fun sq => k (i, sq)

theorem forceStone_eq (e : Nat × Square) (k : Nat × Square → Bool) : forceStone e k = k e := by
  simp [forceStone, Force.nat_eq, Force.square_eq]

def forceMB (b : MB) (k : MB → Bool) : Bool :=
  Force.nat b.size fun size => Force.int b.ply fun ply => Force.list forceStone b.stones fun st =>
  Force.nat b.ws fun ws => Force.nat b.wc fun wc => Force.nat b.bs fun bs => Force.nat b.bc fun bc =>
  k ⟨size, ply, st, ws, wc, bs, bc⟩

theorem forceMB_eq (b : MB) (k : MB → Bool) : forceMB b k = k b := by
  simp [forceMB, Force.nat_eq, Force.int_eq, Force.list_eq forceStone forceStone_eq]

def FM : Forcer MB := ⟨forceMB, forceMB_eq⟩
def FS : Forcer Spec.State := ⟨Force.state, Force.state_eq⟩

def minit (size : Nat) : St MB :=
  { rule := {}
    cur := { size := size, ply := 0, stones := []
             ws := Facts.defaultPieces.getD size 0, wc := Facts.defaultCaps.getD size 0
             bs := Facts.defaultPieces.getD size 0, bc := Facts.defaultCaps.getD size 0 }
    prev := none
    lastScripted := false }

theorem minit_init (size : Nat) : mapSt toState (minit size) = init size := by
  simp only [mapSt, minit, init, toState, Option.map]
  congr 2
  apply List.ext_getElem
  · simp
  · intro j h1 h2
    simp [MB.get, lookup]

/-- the bridge used by every theorem of `Props/C20.lean`: evaluating the opening game on the sparse
board decides it on the rule book -/
theorem mini_sound (var : Variant) (color : Color) (n size : Nat)
    (h : check miniBoard FM var color n (minit size) = true) :
    ∀ (k : Nat) (t : St Spec.State), k ≤ n → Reach specBoard var color k (init size) t →
      good specBoard var color t = true := by
  have h2 : check specBoard FS var color n (init size) = true := by
    rw [← minit_init, check_hom hom FM FS var color n (minit size)]
    exact h
  exact check_sound specBoard FS var color n (init size) h2

end Proofs.FPAMini
