import TakVerif.Proofs.LegalSet

/-! # What the engine's `Move` demands of an accepted move (C03, part 6a)

Necessary conditions read off the model `Pos.apply` of `MovePreallocated` — the counterpart of
`StepShape.lean` for the bit-level code, so that completeness of the generator can also be stated
directly against the engine, without going through the rule book (and without C01). -/
namespace Tak.Proofs
open Tak Spec

set_option linter.unusedSimpArgs false

theorem slideStep_ok (basis : Array W) (p : Pos) (top : Piece) (stack : W) (dx dy : Int) (st st' : SlideSt) (c : Nat)
    (h : slideStep basis p top stack dx dy st c = .ok st') :
    st'.x = st.x + dx ∧ st'.y = st.y + dy ∧
    0 ≤ st.x + dx ∧ st.x + dx < p.cfg.size ∧ 0 ≤ st.y + dy ∧ st.y + dy < p.cfg.size := by
  unfold slideStep at h
  simp only [] at h
  split at h
  · cases h
  rename_i hob
  split at h
  · cases h
  split at h
  · cases h
  · injection h with h
    subst h
    refine ⟨rfl, rfl, ?_⟩
    omega

theorem slideLoop_end (basis : Array W) (p : Pos) (top : Piece) (stack : W) (dx dy : Int) :
    ∀ (drops : List Nat) (st st' : SlideSt), drops ≠ [] →
      slideLoop basis p top stack dx dy drops st = .ok st' →
      0 ≤ st.x + drops.length * dx ∧ st.x + drops.length * dx < p.cfg.size ∧
      0 ≤ st.y + drops.length * dy ∧ st.y + drops.length * dy < p.cfg.size
  | [], _, _, hne, _ => absurd rfl hne
  | c :: cs, st, st', _, h => by
    unfold slideLoop at h
    cases h1 : slideStep basis p top stack dx dy st c with
    | error e => rw [h1] at h; cases h
    | ok st1 =>
      rw [h1] at h
      obtain ⟨ex, ey, hb⟩ := slideStep_ok basis p top stack dx dy st st1 c h1
      by_cases hcs : cs = []
      · subst hcs
        simp only [List.length_cons, List.length_nil]
        omega
      · have := slideLoop_end basis p top stack dx dy cs st1 st' hcs h
        rw [ex, ey] at this
        simp only [List.length_cons]
        have e1 : st.x + ((cs.length + 1 : Nat) : Int) * dx = st.x + dx + cs.length * dx := by
          rw [Int.natCast_add, Int.add_mul]; omega
        have e2 : st.y + ((cs.length + 1 : Nat) : Int) * dy = st.y + dy + cs.length * dy := by
          rw [Int.natCast_add, Int.add_mul]; omega
        rw [e1, e2]; exact this



theorem types_vals : Facts.mtPass = 1 ∧ Facts.mtPlaceFlat = 2 ∧ Facts.mtPlaceStanding = 3 ∧ Facts.mtPlaceCapstone = 4 ∧
    Facts.mtSlideLeft = 5 ∧ Facts.mtSlideRight = 6 ∧ Facts.mtSlideUp = 7 ∧ Facts.mtSlideDown = 8 := by decide

/-- `MovePreallocated` on a slide type code: opening rule, bounds check, then the slide branch -/
theorem apply_slide_unfold (basis : Array W) (p : Pos) (m : Move) (d : Dir) (ht : m.type = dirCode d) :
    p.apply basis m =
      if p.move < 2 then .error (.illegal "illegal opening")
      else if m.x < 0 ∨ m.x ≥ (p.cfg.size : Int) ∨ m.y < 0 ∨ m.y ≥ (p.cfg.size : Int) then .error (.illegal "off board")
      else slideFrom basis p { p with move := p.move + 1 } m (m.x + m.y * (p.cfg.size : Int)).toNat d.dx d.dy := by
  unfold Pos.apply dispatch openingRule
  by_cases ho : p.move < 2 <;> cases d <;>
    simp [ht, ho, dirCode, Facts.mtPass, Facts.mtPlaceFlat, Facts.mtPlaceStanding, Facts.mtPlaceCapstone,
      Facts.mtSlideLeft, Facts.mtSlideRight, Facts.mtSlideUp, Facts.mtSlideDown, Dir.dx, Dir.dy]

def placeCode : Kind → Nat
  | .flat => Facts.mtPlaceFlat | .standing => Facts.mtPlaceStanding | .capstone => Facts.mtPlaceCapstone

/-- `MovePreallocated` on a placement type code: opening rule, bounds check, then the placement branch -/
theorem apply_place_unfold (basis : Array W) (p : Pos) (m : Move) (k : Kind) (ht : m.type = placeCode k) :
    p.apply basis m =
      if p.move < 2 ∧ k ≠ .flat then .error (.illegal "illegal opening")
      else if m.x < 0 ∨ m.x ≥ (p.cfg.size : Int) ∨ m.y < 0 ∨ m.y ≥ (p.cfg.size : Int) then .error (.illegal "off board")
      else placeOn p { p with move := p.move + 1 } (m.x + m.y * (p.cfg.size : Int)).toNat
        ⟨if p.move < 2 then p.toMove.flip else p.toMove, k⟩ := by
  unfold Pos.apply dispatch openingRule
  by_cases ho : p.move < 2 <;> cases k <;>
    simp [ht, ho, placeCode, Facts.mtPass, Facts.mtPlaceFlat, Facts.mtPlaceStanding, Facts.mtPlaceCapstone]

theorem apply_slide_shape (basis : Array W) (p : Pos) (m : Move) (q : Pos) (d : Dir) (ht : m.type = dirCode d)
    (h : p.apply basis m = .ok q) :
    ¬ p.move < 2 ∧ 0 ≤ m.x ∧ m.x < p.cfg.size ∧ 0 ≤ m.y ∧ m.y < p.cfg.size ∧
    (∀ c ∈ Slides.elems m.slides, c ≠ 0) ∧
    (Slides.elems m.slides).foldl (· + ·) 0 ≤ p.cfg.size ∧ 1 ≤ (Slides.elems m.slides).foldl (· + ·) 0 ∧
    (Slides.elems m.slides).foldl (· + ·) 0 ≤ (p.height.getD (m.x + m.y * p.cfg.size).toNat 0).toNat ∧
    (p.toMove = .white → p.white.getLsbD (m.x + m.y * p.cfg.size).toNat = true) ∧
    (p.toMove = .black → p.black.getLsbD (m.x + m.y * p.cfg.size).toNat = true) ∧
    ∃ top stack st st', st.x = m.x ∧ st.y = m.y ∧
      slideLoop basis p top stack d.dx d.dy (Slides.elems m.slides) st = .ok st' := by
  rw [apply_slide_unfold basis p m d ht] at h
  by_cases hply : p.move < 2
  · rw [if_pos hply] at h; cases h
  rw [if_neg hply] at h
  by_cases hoff : m.x < 0 ∨ m.x ≥ ↑p.cfg.size ∨ m.y < 0 ∨ m.y ≥ ↑p.cfg.size
  · rw [if_pos hoff] at h; cases h
  rw [if_neg hoff] at h
  unfold slideFrom at h
  by_cases hz : ((Slides.elems m.slides).any (· == 0)) = true
  · rw [if_pos hz] at h; cases h
  rw [if_neg hz] at h
  by_cases hct : (Slides.elems m.slides).foldl (· + ·) 0 > p.cfg.size ∨ (Slides.elems m.slides).foldl (· + ·) 0 < 1 ∨
      (Slides.elems m.slides).foldl (· + ·) 0 > (p.height.getD (m.x + m.y * p.cfg.size).toNat 0).toNat
  · rw [if_pos hct] at h; cases h
  rw [if_neg hct] at h
  by_cases hw : p.toMove == .white ∧ (!p.white.getLsbD (m.x + m.y * p.cfg.size).toNat) = true
  · rw [if_pos hw] at h; cases h
  rw [if_neg hw] at h
  by_cases hb : p.toMove == .black ∧ (!p.black.getLsbD (m.x + m.y * p.cfg.size).toNat) = true
  · rw [if_pos hb] at h; cases h
  rw [if_neg hb] at h
  refine ⟨hply, by omega, by omega, by omega, by omega, ?_, by omega, by omega, by omega, ?_, ?_, ?_⟩
  · intro c hc e
    apply hz
    simp only [List.any_eq_true]; exact ⟨c, hc, by simp [e]⟩
  · intro e
    cases hbit : p.white.getLsbD (m.x + m.y * p.cfg.size).toNat
    · exact absurd ⟨by simp [e], by simp [hbit]⟩ hw
    · rfl
  · intro e
    cases hbit : p.black.getLsbD (m.x + m.y * p.cfg.size).toNat
    · exact absurd ⟨by simp [e], by simp [hbit]⟩ hb
    · rfl
  · cases htop : p.topAt (m.x + m.y * p.cfg.size).toNat with
    | none => rw [htop] at h; cases h
    | some top =>
      rw [htop] at h
      simp only [] at h
      split at h <;>
        first
        | cases h
        | exact ⟨_, _, _, _, rfl, rfl, by assumption⟩

theorem apply_place_shape (basis : Array W) (p : Pos) (m : Move) (q : Pos) (k : Kind) (ht : m.type = placeCode k)
    (h : p.apply basis m = .ok q) :
    0 ≤ m.x ∧ m.x < p.cfg.size ∧ 0 ≤ m.y ∧ m.y < p.cfg.size ∧
    (p.white ||| p.black).getLsbD (m.x + m.y * p.cfg.size).toNat = false ∧
    (p.move < 2 → k = .flat) ∧ (k = .capstone → capFlag p = true) := by
  rw [apply_place_unfold basis p m k ht] at h
  by_cases hopen : p.move < 2 ∧ k ≠ .flat
  · rw [if_pos hopen] at h; cases h
  rw [if_neg hopen] at h
  by_cases hoff : m.x < 0 ∨ m.x ≥ ↑p.cfg.size ∨ m.y < 0 ∨ m.y ≥ ↑p.cfg.size
  · rw [if_pos hoff] at h; cases h
  rw [if_neg hoff] at h
  unfold placeOn at h
  by_cases hocc : (p.white ||| p.black).getLsbD (m.x + m.y * p.cfg.size).toNat = true
  · rw [if_pos hocc] at h; cases h
  rw [if_neg hocc] at h
  refine ⟨by omega, by omega, by omega, by omega, by simpa using hocc, ?_, ?_⟩
  · intro hp
    false_or_by_contra
    exact hopen ⟨hp, by assumption⟩
  · intro hk
    subst hk
    have hp2 : ¬ p.move < 2 := fun hp => hopen ⟨hp, by simp⟩
    simp only [] at h
    unfold capFlag
    rcases toMove_cases p with hw | hb
    · simp only [hw] at h ⊢
      by_cases hz : p.whiteCaps = 0#8
      · simp [hz] at h
      · simpa using hz
    · simp only [hb] at h ⊢
      by_cases hz : p.blackCaps = 0#8
      · simp [hz] at h
      · simpa using hz

end Tak.Proofs
