import TakVerif.Proofs.LegalSet

/-! # What the engine's `Move` demands of an accepted move (C03, part 6a)

Necessary conditions read off the model `Pos.apply` of `MovePreallocated` — the counterpart of
`StepShape.lean` for the bit-level code, so that completeness of the generator can also be stated
directly against the engine, without going through the rule book (and without C01). -/
namespace Tak.Proofs
open Tak Spec

set_option linter.unusedSimpArgs false

theorem slideStep_ok (basis : Array W) (p : Pos) (top : Piece) (stack : W) (dx dy : Int) (st st' : SlideSt) (c : Nat)
    (h : slideStep basis p top stack dx dy st c = .ok st') :
    st'.x = st.x + dx ∧ st'.y = st.y + dy ∧
    0 ≤ st.x + dx ∧ st.x + dx < p.cfg.size ∧ 0 ≤ st.y + dy ∧ st.y + dy < p.cfg.size := by
  unfold slideStep at h
  simp only [] at h
  split at h
  · cases h
  rename_i hob
  split at h
  · cases h
  split at h
  · cases h
  · injection h with h
    subst h
    refine ⟨rfl, rfl, ?_⟩
    omega

theorem slideLoop_end (basis : Array W) (p : Pos) (top : Piece) (stack : W) (dx dy : Int) :
    ∀ (drops : List Nat) (st st' : SlideSt), drops ≠ [] →
      slideLoop basis p top stack dx dy drops st = .ok st' →
      0 ≤ st.x + drops.length * dx ∧ st.x + drops.length * dx < p.cfg.size ∧
      0 ≤ st.y + drops.length * dy ∧ st.y + drops.length * dy < p.cfg.size
  | [], _, _, hne, _ => absurd rfl hne
  | c :: cs, st, st', _, h => by
    unfold slideLoop at h
    cases h1 : slideStep basis p top stack dx dy st c with
    | error e => rw [h1] at h; cases h
    | ok st1 =>
      rw [h1] at h
      obtain ⟨ex, ey, hb⟩ := slideStep_ok basis p top stack dx dy st st1 c h1
      by_cases hcs : cs = []
      · subst hcs
        simp only [List.length_cons, List.length_nil]
        omega
      · have := slideLoop_end basis p top stack dx dy cs st1 st' hcs h
        rw [ex, ey] at this
        simp only [List.length_cons]
        have e1 : st.x + ((cs.length + 1 : Nat) : Int) * dx = st.x + dx + cs.length * dx := by
          rw [Int.natCast_add, Int.add_mul]; omega
        have e2 : st.y + ((cs.length + 1 : Nat) : Int) * dy = st.y + dy + cs.length * dy := by
          rw [Int.natCast_add, Int.add_mul]; omega
        rw [e1, e2]; exact this



theorem apply_slide_shape (basis : Array W) (p : Pos) (m : Move) (q : Pos) (d : Dir) (ht : m.type = dirCode d)
    (h : p.apply basis m = .ok q) :
    ¬ p.move < 2 ∧ 0 ≤ m.x ∧ m.x < p.cfg.size ∧ 0 ≤ m.y ∧ m.y < p.cfg.size ∧
    (∀ c ∈ Slides.elems m.slides, c ≠ 0) ∧
    (Slides.elems m.slides).foldl (· + ·) 0 ≤ p.cfg.size ∧ 1 ≤ (Slides.elems m.slides).foldl (· + ·) 0 ∧
    (Slides.elems m.slides).foldl (· + ·) 0 ≤ (p.height.getD (m.x + m.y * p.cfg.size).toNat 0).toNat ∧
    (p.toMove = .white → p.white.getLsbD (m.x + m.y * p.cfg.size).toNat = true) ∧
    (p.toMove = .black → p.black.getLsbD (m.x + m.y * p.cfg.size).toNat = true) ∧
    ∃ top stack st st', st.x = m.x ∧ st.y = m.y ∧
      slideLoop basis p top stack d.dx d.dy (Slides.elems m.slides) st = .ok st' := by
  have tc := types_cases
  unfold Pos.apply at h
  have e1 : (m.type == Facts.mtPass) = false := by cases d <;> simp [ht, dirCode, tc]
  have e2 : (m.type == Facts.mtPlaceFlat) = false := by cases d <;> simp [ht, dirCode, tc]
  have e3 : (m.type == Facts.mtPlaceStanding) = false := by cases d <;> simp [ht, dirCode, tc]
  have e4 : (m.type == Facts.mtPlaceCapstone) = false := by cases d <;> simp [ht, dirCode, tc]
  have hdisp : (if (m.type == Facts.mtSlideLeft) = true then some ((none : Option Piece), (-1 : Int), (0 : Int))
      else if (m.type == Facts.mtSlideRight) = true then some (none, 1, 0)
      else if (m.type == Facts.mtSlideUp) = true then some (none, 0, 1)
      else if (m.type == Facts.mtSlideDown) = true then some (none, 0, -1) else none) = some (none, d.dx, d.dy) := by
    cases d <;> simp [ht, dirCode, tc, Dir.dx, Dir.dy]
  simp only [e1, e2, e3, e4, Bool.false_eq_true, if_false, hdisp] at h
  by_cases hply : p.move < 2
  · simp [hply] at h
  simp only [hply, if_false] at h
  by_cases hoff : m.x < 0 ∨ m.x ≥ ↑p.cfg.size ∨ m.y < 0 ∨ m.y ≥ ↑p.cfg.size
  · rw [if_pos hoff] at h; cases h
  rw [if_neg hoff] at h
  by_cases hz : ((Slides.elems m.slides).any (· == 0)) = true
  · rw [if_pos hz] at h; cases h
  rw [if_neg hz] at h
  by_cases hct : (Slides.elems m.slides).foldl (· + ·) 0 > p.cfg.size ∨ (Slides.elems m.slides).foldl (· + ·) 0 < 1 ∨
      (Slides.elems m.slides).foldl (· + ·) 0 > (p.height.getD (m.x + m.y * p.cfg.size).toNat 0).toNat
  · rw [if_pos hct] at h; cases h
  rw [if_neg hct] at h
  by_cases hw : p.toMove == .white ∧ (!p.white.getLsbD (m.x + m.y * p.cfg.size).toNat) = true
  · rw [if_pos hw] at h; cases h
  rw [if_neg hw] at h
  by_cases hb : p.toMove == .black ∧ (!p.black.getLsbD (m.x + m.y * p.cfg.size).toNat) = true
  · rw [if_pos hb] at h; cases h
  rw [if_neg hb] at h
  refine ⟨hply, by omega, by omega, by omega, by omega, ?_, by omega, by omega, by omega, ?_, ?_, ?_⟩
  · intro c hc e
    apply hz
    simp only [List.any_eq_true]; exact ⟨c, hc, by simp [e]⟩
  · intro e
    cases hbit : p.white.getLsbD (m.x + m.y * p.cfg.size).toNat
    · exact absurd ⟨by simp [e], by simp [hbit]⟩ hw
    · rfl
  · intro e
    cases hbit : p.black.getLsbD (m.x + m.y * p.cfg.size).toNat
    · exact absurd ⟨by simp [e], by simp [hbit]⟩ hb
    · rfl
  · split at h
    · cases h
    · rename_i top _
      split at h
      · cases h
      · rename_i st' hst
        exact ⟨_, _, _, st', rfl, rfl, hst⟩



def placeCode : Kind → Nat
  | .flat => Facts.mtPlaceFlat | .standing => Facts.mtPlaceStanding | .capstone => Facts.mtPlaceCapstone

theorem apply_place_shape (basis : Array W) (p : Pos) (m : Move) (q : Pos) (k : Kind) (ht : m.type = placeCode k)
    (h : p.apply basis m = .ok q) :
    0 ≤ m.x ∧ m.x < p.cfg.size ∧ 0 ≤ m.y ∧ m.y < p.cfg.size ∧
    (p.white ||| p.black).getLsbD (m.x + m.y * p.cfg.size).toNat = false ∧
    (p.move < 2 → k = .flat) ∧ (k = .capstone → capFlag p = true) := by
  have tc := types_cases
  unfold Pos.apply at h
  have e1 : (m.type == Facts.mtPass) = false := by cases k <;> simp [ht, placeCode, tc]
  have hdisp : (if (m.type == Facts.mtPlaceFlat) = true then some (some (⟨p.toMove, .flat⟩ : Piece), (0 : Int), (0 : Int))
      else if (m.type == Facts.mtPlaceStanding) = true then some (some ⟨p.toMove, .standing⟩, 0, 0)
      else if (m.type == Facts.mtPlaceCapstone) = true then some (some ⟨p.toMove, .capstone⟩, 0, 0)
      else if (m.type == Facts.mtSlideLeft) = true then some (none, -1, 0)
      else if (m.type == Facts.mtSlideRight) = true then some (none, 1, 0)
      else if (m.type == Facts.mtSlideUp) = true then some (none, 0, 1)
      else if (m.type == Facts.mtSlideDown) = true then some (none, 0, -1) else none) = some (some ⟨p.toMove, k⟩, 0, 0) := by
    cases k <;> simp [ht, placeCode, tc]
  simp only [e1, Bool.false_eq_true, if_false, hdisp] at h
  by_cases hply : p.move < 2
  · simp only [hply, if_true] at h
    by_cases hk : k ≠ .flat
    · rw [if_pos hk] at h; cases h
    rw [if_neg hk] at h
    simp only [] at h
    have hk' : k = .flat := by simpa using hk
    subst hk'
    by_cases hoff : m.x < 0 ∨ m.x ≥ ↑p.cfg.size ∨ m.y < 0 ∨ m.y ≥ ↑p.cfg.size
    · rw [if_pos hoff] at h; cases h
    rw [if_neg hoff] at h
    by_cases hocc : (p.white ||| p.black).getLsbD (m.x + m.y * p.cfg.size).toNat = true
    · rw [if_pos hocc] at h; cases h
    refine ⟨by omega, by omega, by omega, by omega, by simpa using hocc, fun _ => rfl, fun e => by cases e⟩
  · simp only [hply, if_false] at h
    by_cases hoff : m.x < 0 ∨ m.x ≥ ↑p.cfg.size ∨ m.y < 0 ∨ m.y ≥ ↑p.cfg.size
    · rw [if_pos hoff] at h; cases h
    rw [if_neg hoff] at h
    by_cases hocc : (p.white ||| p.black).getLsbD (m.x + m.y * p.cfg.size).toNat = true
    · rw [if_pos hocc] at h; cases h
    rw [if_neg hocc] at h
    refine ⟨by omega, by omega, by omega, by omega, by simpa using hocc, fun e => absurd e hply, ?_⟩
    intro hk
    subst hk
    simp only [] at h
    unfold capFlag
    rcases toMove_cases p with hw | hb
    · simp only [hw] at h ⊢
      by_cases hz : p.whiteCaps = 0#8
      · simp [hz] at h
      · simpa using hz
    · simp only [hb] at h ⊢
      by_cases hz : p.blackCaps = 0#8
      · simp [hz] at h
      · simpa using hz

end Tak.Proofs
