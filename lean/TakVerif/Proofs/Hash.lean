import TakVerif.Proofs.Bits

/-! The incremental hash field: algebra of the XOR fold and of the bracketed update `Pos.setStack`. -/
namespace Tak

/-- XOR-fold of `f` over a list of indices -/
def xfold (f : Nat → W) (a : W) (l : List Nat) : W := l.foldl (fun h i => h ^^^ f i) a

theorem scratchHash_eq (basis : Array W) (p : Pos) :
    scratchHash basis p = xfold (hashAtRaw basis p.height p.stacks) (BitVec.ofNat 64 Facts.fnvBasis) (List.range p.height.size) := rfl

theorem xfold_range_succ (f : Nat → W) (a : W) (n : Nat) :
    xfold f a (List.range (n+1)) = xfold f a (List.range n) ^^^ f n := by
  simp [xfold, List.range_succ, List.foldl_append]

/-- changing the summand at one index `i` changes the fold by `f i ⊕ g i` (if `i` is in range) -/
theorem xfold_update (f g : Nat → W) (a : W) (i : Nat) (h : ∀ j, j ≠ i → g j = f j) (n : Nat) :
    xfold g a (List.range n) = if i < n then xfold f a (List.range n) ^^^ f i ^^^ g i else xfold f a (List.range n) := by
  induction n with
  | zero => simp [xfold]
  | succ n ih =>
    rw [xfold_range_succ, xfold_range_succ, ih]
    by_cases h1 : i < n
    · have h2 : i < n + 1 := by omega
      have h3 : n ≠ i := by omega
      simp only [h1, h2, if_true, h n h3]
      ac_rfl
    · by_cases h2 : i = n
      · subst h2
        simp only [Nat.lt_irrefl, if_false, Nat.lt_succ_self, if_true]
        rw [BitVec.xor_assoc (xfold f a (List.range i))]
        simp
      · have h3 : ¬ i < n + 1 := by omega
        have h4 : n ≠ i := by omega
        simp only [h1, h3, if_false, h n h4]

/-- the hash field holds the from-scratch value -/
def HashOK (basis : Array W) (p : Pos) : Prop := p.hash = scratchHash basis p

theorem hashAtRaw_oob (basis : Array W) (height : Array U8) (stacks : Array W) (i : Nat) (h : height.size ≤ i) :
    hashAtRaw basis height stacks i = 0#64 := by
  unfold hashAtRaw
  simp [Array.getD_eq_getD_getElem?, h]

theorem hashAtRaw_low (basis : Array W) (height : Array U8) (stacks : Array W) (i : Nat)
    (h : (height.getD i 0).toNat ≤ 1) : hashAtRaw basis height stacks i = 0#64 := by
  unfold hashAtRaw
  simp only [h, if_true]

theorem hashAtRaw_set_ne (basis : Array W) (height : Array U8) (stacks : Array W) (i j : Nat) (s : W) (h : U8) (hj : j ≠ i) :
    hashAtRaw basis (height.setIfInBounds i h) (stacks.setIfInBounds i s) j = hashAtRaw basis height stacks j := by
  unfold hashAtRaw
  rw [getD_setIfInBounds_ne _ _ _ _ _ hj, getD_setIfInBounds_ne _ _ _ _ _ hj]

/-- general transfer: same hash-relevant data → `HashOK` carries over -/
theorem HashOK.congr {basis : Array W} {p q : Pos} (hp : HashOK basis p) (hh : q.hash = p.hash)
    (h1 : q.height = p.height) (h2 : q.stacks = p.stacks) : HashOK basis q := by
  unfold HashOK at *
  rw [hh, hp, scratchHash_eq, scratchHash_eq, h1, h2]

/-- the bracketed update keeps the hash field equal to the from-scratch fold, for ANY basis table,
any index (in or out of range), any new values -/
theorem HashOK.setStack {basis : Array W} {p : Pos} (hp : HashOK basis p) (i : Nat) (s : W) (h : U8) :
    HashOK basis (p.setStack basis i s h) := by
  unfold HashOK at *
  have hup := xfold_update (hashAtRaw basis p.height p.stacks)
    (hashAtRaw basis (p.height.setIfInBounds i h) (p.stacks.setIfInBounds i s)) (BitVec.ofNat 64 Facts.fnvBasis) i
    (fun j hj => hashAtRaw_set_ne basis p.height p.stacks i j s h hj) p.height.size
  simp only [Pos.setStack, Pos.hashAt, scratchHash_eq, Array.size_setIfInBounds]
  rw [hup, hp, scratchHash_eq]
  by_cases hi : i < p.height.size
  · simp only [hi, if_true]
  · simp only [hi, if_false]
    rw [hashAtRaw_oob _ _ _ _ (by omega), hashAtRaw_oob _ _ _ _ (by simp; omega)]
    simp

/-- an unbracketed assignment to `Height[i]` that keeps `hashAt i` (both 0) keeps `HashOK` -/
theorem HashOK.setHeight_low {basis : Array W} {p q : Pos} (hp : HashOK basis p) (i : Nat) (h : U8)
    (hh : q.hash = p.hash) (h1 : q.height = p.height.setIfInBounds i h) (h2 : q.stacks = p.stacks)
    (hold : (p.height.getD i 0).toNat ≤ 1) (hnew : h.toNat ≤ 1) : HashOK basis q := by
  unfold HashOK at *
  have hup := xfold_update (hashAtRaw basis p.height p.stacks)
    (hashAtRaw basis (p.height.setIfInBounds i h) p.stacks) (BitVec.ofNat 64 Facts.fnvBasis) i
    (fun j hj => by unfold hashAtRaw; rw [getD_setIfInBounds_ne _ _ _ _ _ hj]) p.height.size
  rw [hh, hp, scratchHash_eq, scratchHash_eq, h1, h2, Array.size_setIfInBounds, hup]
  have e1 : hashAtRaw basis p.height p.stacks i = 0#64 := hashAtRaw_low _ _ _ _ hold
  have e2 : hashAtRaw basis (p.height.setIfInBounds i h) p.stacks i = 0#64 := by
    apply hashAtRaw_low
    by_cases hi : i < p.height.size
    · rw [getD_setIfInBounds_eq _ _ _ _ hi]; exact hnew
    · have : p.height.setIfInBounds i h = p.height := Array.setIfInBounds_eq_of_size_le (by omega)
      rw [this]; exact hold
  rw [e1, e2]; simp

end Tak
