import TakVerif.Proofs.BotThinkers
import TakVerif.Proofs.BotLock
import TakVerif.Proofs.PvHeadBot
import TakVerif.Impl.BotCompose

/-! # The composed bot refines the bot loop; what its ghost records say (helper for `Props/C07_compose.lean`) -/
namespace Tak.Compose
open Tak Tak.Bot Tak.Glue Tak.FPA

variable {σ χ : Type}

theorem bot_run_append (cfg : Bot.Conf) (b : Bot.St) (e1 e2 : List Bot.Ev) :
    Bot.run cfg (Bot.run cfg b e1) e2 = Bot.run cfg b (e1 ++ e2) := by
  simp [Bot.run, List.foldl_append]

/-! ## refinement: every composed step is a (possibly empty) list of loop events -/

theorem enter_b (c : Conf) (s : St σ χ) (k : Nat) (chk : CheckOracle) :
    (enter c s k chk).b = s.b ∨ (enter c s k chk).b = Bot.run c.bot s.b [.grant k] ∨
      (enter c s k chk).b = Bot.run c.bot s.b [.grant k, .aiReturns k Bot.zeroMove] := by
  unfold enter
  split
  · exact .inl rfl
  · split
    · exact .inl rfl
    · split
      · exact .inr (.inr rfl)
      · split
        · exact .inr (.inl rfl)
        · split
          · exact .inr (.inl rfl)
          · exact .inr (.inl rfl)

theorem leave_b (c : Conf) (S : Searcher σ χ) (s : St σ χ) (k : Nat) (x : χ) :
    (leave c S s k x).b = s.b ∨ ∃ m, (leave c S s k x).b = Bot.run c.bot s.b [.aiReturns k m] := by
  unfold leave
  split
  · exact .inl rfl
  · rename_i call _
    split
    · exact .inl rfl
    · rename_i hk
      have hk' : call.k = k := by simpa using hk
      split
      · exact .inl rfl
      · split
        · exact .inl rfl
        · split
          · split
            · exact .inr ⟨_, by rw [← hk']; rfl⟩
            · exact .inl rfl
          · exact .inr ⟨_, by rw [← hk']; rfl⟩
          · exact .inr ⟨_, by rw [← hk']; rfl⟩
          · split
            · exact .inl rfl
            · exact .inr ⟨_, by rw [← hk']; rfl⟩

/-- **refinement**: the loop part of a composed step is a run of the bot loop (`Impl/Bot.lean`) on the loop part -/
theorem step_b (c : Conf) (S : Searcher σ χ) (s : St σ χ) (e : Ev χ) :
    ∃ evs : List Bot.Ev, (step c S s e).b = Bot.run c.bot s.b evs := by
  unfold step
  split
  · exact ⟨[], rfl⟩
  · cases e with
    | deliver bits parsed => exact ⟨[.deliver bits parsed c.acceptUndo], rfl⟩
    | close => exact ⟨[.close], rfl⟩
    | timerFires => exact ⟨[.timerFires], rfl⟩
    | enter k chk =>
      rcases enter_b c s k chk with h | h | h
      · exact ⟨[], h⟩
      · exact ⟨_, h⟩
      · exact ⟨_, h⟩
    | leave k x =>
      rcases leave_b c S s k x with h | ⟨m, h⟩
      · exact ⟨[], h⟩
      · exact ⟨_, h⟩

theorem run_b (c : Conf) (S : Searcher σ χ) (s : St σ χ) (evs : List (Ev χ)) :
    ∃ bevs : List Bot.Ev, (run c S s evs).b = Bot.run c.bot s.b bevs := by
  induction evs generalizing s with
  | nil => exact ⟨[], rfl⟩
  | cons e es ih =>
    obtain ⟨e1, h1⟩ := step_b c S s e
    obtain ⟨e2, h2⟩ := ih (step c S s e)
    refine ⟨e1 ++ e2, ?_⟩
    show (run c S (step c S s e) es).b = _
    rw [h2, h1, bot_run_append]

/-- any property of loop states that every loop event keeps is kept by the composed system -/
theorem run_b_inv (c : Conf) (S : Searcher σ χ) (I : Bot.St → Prop) (hI : ∀ b e, I b → I (Bot.step c.bot b e))
    (s : St σ χ) (h : I s.b) (evs : List (Ev χ)) : I (run c S s evs).b := by
  obtain ⟨bevs, hb⟩ := run_b c S s evs
  rw [hb]
  clear hb
  induction bevs generalizing s with
  | nil => exact h
  | cons e es ih =>
    have := ih { s with b := Bot.step c.bot s.b e } (hI _ e h)
    exact this

/-! ## what the loop events do to the log -/

theorem log_step_loop (cfg : Bot.Conf) (b : Bot.St) (e : Bot.Ev)
    (he : (∃ bits parsed acc, e = .deliver bits parsed acc) ∨ e = .close ∨ e = .timerFires ∨ ∃ k, e = .grant k) :
    (Bot.step cfg b e).log = b.log := by
  rcases he with ⟨bits, parsed, acc, rfl⟩ | rfl | rfl | ⟨k, rfl⟩
  · simp only [Bot.step]
    split
    · exact log_onLine cfg b bits parsed acc
    · rfl
  · simp only [Bot.step]
    split <;> rfl
  · simp only [Bot.step]
    split <;> rfl
  · simp only [Bot.step, Bot.grant]
    split
    · rfl
    · split
      · rfl
      · split <;> rfl

theorem log_onAnswer_tag (cfg : Bot.Conf) (s : Bot.St) (m : Move) :
    (onAnswer cfg s m).log = s.log ∨
      ((∃ q, s.p.apply cfg.basis m = .ok q) ∧
        ∃ r, r.move = m ∧ r.tag = s.cur.pos ∧ (onAnswer cfg s m).log = s.log ++ [r]) := by
  unfold onAnswer
  cases ha : s.p.apply cfg.basis m with
  | error e =>
    cases e with
    | illegal w => exact Or.inl rfl
    | panic w => exact Or.inl rfl
    | hang w => exact Or.inl rfl
  | ok q =>
    dsimp only
    refine Or.inr ⟨⟨q, rfl⟩, { move := m, recAt := s.p, srvAt := srvCur s, tag := s.cur.pos }, rfl, rfl, ?_⟩
    exact log_of_view (view_srvAccept cfg
      { s with log := s.log ++ [{ move := m, recAt := s.p, srvAt := srvCur s, tag := s.cur.pos }] } m)

/-- `aiReturns k m` appends at most one record: of the move `m` (accepted by `Position.Move`), tagged with the position
of the current thinker, and then `k` is the current thinker -/
theorem log_aiReturns (cfg : Bot.Conf) (b : Bot.St) (k : Nat) (m : Move) :
    (Bot.aiReturns cfg b k m).log = b.log ∨
      (k = b.old.length ∧ (∃ q, b.p.apply cfg.basis m = .ok q) ∧
        ∃ r, r.move = m ∧ r.tag = b.cur.pos ∧ (Bot.aiReturns cfg b k m).log = b.log ++ [r]) := by
  unfold Bot.aiReturns
  split
  · exact .inl rfl
  · split
    · rename_i hk
      split
      · split
        · rcases log_onAnswer_tag cfg { b with cur := { b.cur with st := .done, cancelled := true } } m with h | ⟨hq, r, h1, h2, h3⟩
          · exact .inl h
          · exact .inr ⟨hk, hq, r, h1, h2, h3⟩
        · exact .inl rfl
      · exact .inl rfl
    · exact .inl rfl

/-- a move that `Position.Move` rejects leaves no record -/
theorem log_aiReturns_rejected (cfg : Bot.Conf) (b : Bot.St) (k : Nat) (m : Move)
    (hm : ∀ q, b.p.apply cfg.basis m ≠ .ok q) : (Bot.aiReturns cfg b k m).log = b.log := by
  rcases log_aiReturns cfg b k m with h | ⟨_, ⟨q, hq⟩, _⟩
  · exact h
  · exact absurd hq (hm q)

theorem grant_p (b : Bot.St) (k : Nat) : (Bot.grant b k).p = b.p := by
  unfold Bot.grant
  split
  · rfl
  · split
    · rfl
    · split <;> rfl

theorem grant_log (b : Bot.St) (k : Nat) : (Bot.grant b k).log = b.log := by
  unfold Bot.grant
  split
  · rfl
  · split
    · rfl
    · split <;> rfl

/-! ## the wire -/

/-- the commands sent from inside `GetMove` -/
def glueWire (w : List Wire) : List Wire := w.filter (fun x => match x with | .bot _ => false | _ => true)

theorem glueWire_append (a b : List Wire) : glueWire (a ++ b) = glueWire a ++ glueWire b := by
  simp [glueWire]

theorem glueWire_map_bot (l : List Cmd) : glueWire (l.map .bot) = [] := by
  induction l with
  | nil => rfl
  | cons a l ih => simp [glueWire] at ih ⊢

theorem glueWire_newSent (b b' : Bot.St) : glueWire (newSent b b') = [] := glueWire_map_bot _

theorem glueWire_resignWire (a : Action) : glueWire (resignWire a) = resignWire a := by
  cases a <;> rfl

end Tak.Compose
