import TakVerif.Proofs.SlideSim
import TakVerif.Proofs.HashInv

/-! `Pos.apply` never touches the configuration. -/
namespace Tak

theorem finish_cfg {p q : Pos} (h : finish p = .ok q) : q.cfg = p.cfg := by rw [finish_ok h]

theorem slideStep_cfg {basis : Array W} {p : Pos} {top : Piece} {stack : W} {dx dy : Int} {st st' : SlideSt} {c : Nat}
    (h : slideStep basis p top stack dx dy st c = .ok st') : st'.next.cfg = st.next.cfg := by
  unfold slideStep at h
  dsimp only at h
  split at h
  · cases h
  split at h
  · cases h
  split at h
  · cases h
  · rename_i next he
    cases h
    have := congrArg (·.1) (dropOn_scalars basis next top stack st.ct c
      (st.x + dx + (st.y + dy) * (p.cfg.size : Int)).toNat)
    simp only [Pos.scalars] at this
    rw [this]
    exact enterSquare_cfg he

theorem slideLoop_cfg {basis : Array W} {p : Pos} {top : Piece} {stack : W} {dx dy : Int} (drops : List Nat)
    {st st' : SlideSt} (h : slideLoop basis p top stack dx dy drops st = .ok st') : st'.next.cfg = st.next.cfg := by
  induction drops generalizing st with
  | nil => simp only [slideLoop] at h; cases h; rfl
  | cons c cs ih =>
    simp only [slideLoop] at h
    split at h
    · cases h
    · rename_i st1 h1
      rw [ih h, slideStep_cfg h1]

theorem apply_cfg {basis : Array W} {p q : Pos} {m : Move} (h : Pos.apply basis p m = .ok q) : q.cfg = p.cfg := by
  unfold Pos.apply at h
  dsimp only at h
  split at h
  · rw [finish_cfg h]
  split at h
  · cases h
  split at h
  · cases h
  split at h
  · cases h
  split at h
  · rw [placeOn_eq] at h
    split at h
    · cases h
    split at h
    · cases h
    · rw [finish_cfg h]; rfl
  · unfold slideFrom at h
    dsimp only at h
    split at h
    · cases h
    split at h
    · cases h
    split at h
    · cases h
    split at h
    · cases h
    split at h
    · cases h
    split at h
    · cases h
    · rename_i st hst
      rw [finish_cfg h, slideLoop_cfg _ hst]
      have := congrArg (·.1) (liftFrom_scalars basis { p with move := p.move + 1 }
        ((p.stacks.getD (m.x + m.y * (p.cfg.size : Int)).toNat 0 <<< 1) |||
          (if (‹Piece›).color == Color.black then 1#64 else 0#64))
        (p.height.getD (m.x + m.y * (p.cfg.size : Int)).toNat 0).toNat
        (List.foldl (· + ·) 0 (Slides.elems m.slides)) (m.x + m.y * (p.cfg.size : Int)).toNat)
      simp only [Pos.scalars] at this
      exact this

theorem applyAll_cfg {basis : Array W} (ms : List Move) {p q : Pos} (h : p.applyAll basis ms = .ok q) :
    q.cfg = p.cfg := by
  induction ms generalizing p with
  | nil => simp only [Pos.applyAll] at h; cases h; rfl
  | cons m ms ih =>
    simp only [Pos.applyAll] at h
    split at h
    · rename_i r hr; rw [ih h, apply_cfg hr]
    · cases h

end Tak
