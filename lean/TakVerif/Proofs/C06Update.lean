import TakVerif.Proofs.C06Expand

/-! `updateAncestors` keeps the search state sound. -/
namespace C06
open Tak Tak.PN Spec.Game

variable {S M : Type} (G : Game S M) (att : Color) (root : S)

/-- the invariant does not look at `cfg`, `stats`, `anomaly` -/
theorem ZipOK_congr {st st' : St S M} (hf : st'.focus = st.focus) (hu : st'.up = st.up)
    (hs : st'.stack = st.stack) (hd : st'.depthLimited = st.depthLimited) :
    ZipOK G att root st ↔ ZipOK G att root st' := by
  unfold ZipOK; rw [hf, hu, hs, hd]

/-- renumbering the focus from its children (or from its value) keeps the state sound, unless the
focus is a solved node without children -/
theorem renumber_ok (hsb : SmallFrom G root) (st : St S M) (cur : S) (hs : List S)
    (hz : ZipOK G att root st) (hst : st.stack = cur :: hs)
    (hno : (st.focus.children.isEmpty && (st.focus.phi == 0 || st.focus.delta == 0)) = false) :
    ZipOK G att root { st with focus := setNumbers G cur st.focus } := by
  have hreach := ZipOK.reach G att root hz hst
  obtain ⟨s, hs0, hst0, ht, hc⟩ := hz
  rw [hst] at hst0
  injection hst0 with e1 e2
  subst e1; subst e2
  rw [TreeOK_iff] at ht
  obtain ⟨hnum, hkids, hcov, hnil⟩ := ht
  refine ⟨cur, hs, hst, ?_, ?_⟩
  · show TreeOK G att st.depthLimited hs cur (setNumbers G cur st.focus)
    rw [TreeOK_iff, setNumbers_children, setNumbers_expanded]
    refine ⟨?_, ?_, ?_, hnil⟩
    · cases hx : st.focus.expanded with
      | false =>
        exact setNumbers_leaf_ok G att (hsb cur hreach) hx hnum.valueP hnum.valueD hnum.valueU hnum.side
      | true =>
        have hover : G.over cur = none := by
          rcases hnum.live with h | ⟨h, _⟩
          · exact h
          · rw [hx] at h; exact absurd h (by simp)
        have hcover : Cover G cur st.focus.children := by
          rcases hcov hx with h | ⟨h1, h2⟩
          · exact h
          · rw [h1] at hno
            simp only [List.isEmpty_nil, Bool.true_and, Bool.or_eq_false_iff, beq_eq_false_iff_ne] at hno
            rcases h2 with h2 | h2
            · exact absurd h2 hno.1
            · exact absurd h2 hno.2
        apply setNumbers_expanded_ok G att hx hover hnum.valueP hnum.valueD hnum.valueU hnum.side _ hcover
        intro c hc'
        obtain ⟨s', q1, q2⟩ := hkids c hc'
        rw [TreeOK_iff] at q2
        exact ⟨s', q1, q2.1⟩
    · intro c hc'
      obtain ⟨s', q1, q2⟩ := hkids c hc'
      exact ⟨s', (childOf_congr G (setNumbers_isAnd G cur st.focus)).mp q1, q2⟩
    · intro hx
      rcases hcov hx with h | ⟨h1, h2⟩
      · exact Or.inl h
      · rw [h1] at hno
        simp only [List.isEmpty_nil, Bool.true_and, Bool.or_eq_false_iff, beq_eq_false_iff_ne] at hno
        rcases h2 with h2 | h2
        · exact absurd h2 hno.1
        · exact absurd h2 hno.2
  · show CrumbsOK G att root st.depthLimited st.up hs cur (setNumbers G cur st.focus)
    refine CrumbsOK.replace G att root hc (setNumbers_move G cur st.focus) (setNumbers_isAnd G cur st.focus) ?_
    intro hx hd
    have := hnil hx
    rw [this] at hno
    simp only [List.isEmpty_nil, Bool.true_and, Bool.or_eq_false_iff, beq_eq_false_iff_ne] at hno
    exact absurd hd hno.2

/-- changing the proof depth of the focus, and dropping the children of a solved focus, keeps the state sound -/
theorem focus_adjust_ok (st : St S M) (d : UInt16) (drop : Bool)
    (hz : ZipOK G att root st) (hsolved : drop = true → st.focus.phi = 0 ∨ st.focus.delta = 0) :
    ZipOK G att root
      { st with focus := { st.focus with proofDepth := d, children := (if drop = true then [] else st.focus.children) } } := by
  obtain ⟨s, hs, hst, ht, hc⟩ := hz
  rw [TreeOK_iff] at ht
  obtain ⟨hnum, hkids, hcov, hnil⟩ := ht
  refine ⟨s, hs, hst, ?_, ?_⟩
  · rw [TreeOK_iff]
    refine ⟨⟨hnum.proof, hnum.disproof, hnum.valueP, hnum.valueD, hnum.valueU, hnum.side, hnum.notBoth, hnum.live⟩, ?_, ?_, ?_⟩
    · intro c hc'
      cases drop with
      | true => simp at hc'
      | false =>
        simp only [Bool.false_eq_true, if_false] at hc'
        obtain ⟨s', q1, q2⟩ := hkids c hc'
        exact ⟨s', (childOf_congr G rfl).mp q1, q2⟩
    · intro hx
      cases drop with
      | true => exact Or.inr ⟨by simp, hsolved rfl⟩
      | false => simpa using hcov hx
    · intro hx
      cases drop with
      | true => simp
      | false => simpa using hnil hx
  · exact CrumbsOK.replace G att root hc rfl rfl (fun h1 h2 => ⟨h1, h2⟩)

theorem solvedUpdate_spec (isRoot : Bool) (cfg : PN.Cfg) (stats stats' : Stats) (node node' : Node M)
    (h : solvedUpdate isRoot cfg stats node = .ok (stats', node')) :
    ∃ (d : UInt16) (drop : Bool),
      node' = { node with proofDepth := d, children := if drop = true then [] else node.children } := by
  unfold solvedUpdate at h
  cases hd : solvedDepth node with
  | error e => rw [hd] at h; simp at h
  | ok d =>
    rw [hd] at h
    simp only [Except.ok.injEq, Prod.mk.injEq] at h
    obtain ⟨_, h2⟩ := h
    subst h2
    by_cases hc : (!isRoot && !cfg.preserveSolved) = true
    · exact ⟨d, true, by simp [hc]⟩
    · refine ⟨d, false, ?_⟩
      simp only [hc, if_false, Bool.false_eq_true]


/-- one round of `updateAncestors` -/
theorem updateStep_ok (hsb : SmallFrom G root) (base : Nat) (st st1 : St S M) (b : Bool)
    (hz : ZipOK G att root st) (h : updateStep G base st = .ok (b, st1)) (han : st1.anomaly = false) :
    ZipOK G att root st1 ∧ st.anomaly = false := by
  unfold updateStep at h
  split at h
  · exact absurd h (by simp)
  · rename_i cur rest hst
    simp only at h
    -- the ghost flag of the result is the one computed here
    have key : ∀ (f : Node M) (stt : Stats),
        (({ st with anomaly := st.anomaly || (st.focus.children.isEmpty && (st.focus.phi == 0 || st.focus.delta == 0)),
                    focus := f, stats := stt } : St S M).anomaly = false) →
        st.anomaly = false ∧
          (st.focus.children.isEmpty && (st.focus.phi == 0 || st.focus.delta == 0)) = false := by
      intro f stt hh
      simp only [Bool.or_eq_false_iff] at hh
      exact hh
    have hren : ∀ hno : (st.focus.children.isEmpty && (st.focus.phi == 0 || st.focus.delta == 0)) = false,
        ZipOK G att root { st with focus := setNumbers G cur st.focus } :=
      fun hno => renumber_ok G att root hsb st cur rest hz hst hno
    split at h
    · rename_i hsolved
      split at h
      · exact absurd h (by simp)
      · rename_i stats' node' hsu
        simp only [Except.ok.injEq, Prod.mk.injEq] at h
        obtain ⟨_, h2⟩ := h
        subst h2
        obtain ⟨ha, hno⟩ := key _ _ han
        refine ⟨?_, ha⟩
        obtain ⟨d, drop, hn'⟩ := solvedUpdate_spec _ _ _ _ _ _ hsu
        have hz1 := hren hno
        have hz2 := focus_adjust_ok G att root { st with focus := setNumbers G cur st.focus } d drop hz1 (by
          intro _
          simp only [Bool.or_eq_true, beq_iff_eq] at hsolved
          exact hsolved)
        rw [hn']
        exact (ZipOK_congr G att root rfl rfl rfl rfl).mp hz2
    · split at h
      · simp only [Except.ok.injEq, Prod.mk.injEq] at h
        obtain ⟨_, h2⟩ := h
        subst h2
        obtain ⟨ha, hno⟩ := key _ st.stats han
        exact ⟨(ZipOK_congr G att root rfl rfl rfl rfl).mp (hren hno), ha⟩
      · simp only [Except.ok.injEq, Prod.mk.injEq] at h
        obtain ⟨_, h2⟩ := h
        subst h2
        obtain ⟨ha, hno⟩ := key _ st.stats han
        exact ⟨(ZipOK_congr G att root rfl rfl rfl rfl).mp (hren hno), ha⟩

theorem ascend_same (st st' : St S M) (h : ascend st = some st') : SameRest st st' := by
  unfold ascend at h
  split at h
  · injection h with h; subst h; exact ⟨rfl, rfl, rfl, rfl⟩
  · exact absurd h (by simp)

/-- the ghost flag only grows in `updateStep` -/
theorem updateStep_mono (base : Nat) (st st1 : St S M) (b : Bool)
    (h : updateStep G base st = .ok (b, st1)) (han : st1.anomaly = false) : st.anomaly = false := by
  unfold updateStep at h
  split at h
  · exact absurd h (by simp)
  · simp only at h
    split at h
    · split at h
      · exact absurd h (by simp)
      · simp only [Except.ok.injEq, Prod.mk.injEq] at h
        obtain ⟨_, h2⟩ := h
        subst h2
        simp only [Bool.or_eq_false_iff] at han
        exact han.1
    · split at h <;>
      · simp only [Except.ok.injEq, Prod.mk.injEq] at h
        obtain ⟨_, h2⟩ := h
        subst h2
        simp only [Bool.or_eq_false_iff] at han
        exact han.1

theorem updateAncestors_mono (base : Nat) : ∀ (fuel : Nat) (st st' : St S M),
    updateAncestors G base fuel st = .ok st' → st'.anomaly = false → st.anomaly = false := by
  intro fuel
  induction fuel with
  | zero => intro st st' h; simp [updateAncestors] at h
  | succ fuel ih =>
    intro st st' h han
    simp only [updateAncestors] at h
    split at h
    · exact absurd h (by simp)
    · rename_i st1 hstep
      injection h with h; subst h
      exact updateStep_mono G base st st1 false hstep han
    · rename_i st1 hstep
      split at h
      · exact absurd h (by simp)
      · rename_i st2 hasc
        have h2 := ih st2 st' h han
        have h1 : st1.anomaly = false := by rw [← (ascend_same st1 st2 hasc).2.2.2]; exact h2
        exact updateStep_mono G base st st1 true hstep h1

theorem updateAncestors_ok (hsb : SmallFrom G root) (base : Nat) : ∀ (fuel : Nat) (st st' : St S M),
    ZipOK G att root st → updateAncestors G base fuel st = .ok st' → st'.anomaly = false →
    ZipOK G att root st' := by
  intro fuel
  induction fuel with
  | zero => intro st st' _ h; simp [updateAncestors] at h
  | succ fuel ih =>
    intro st st' hz h han
    simp only [updateAncestors] at h
    split at h
    · exact absurd h (by simp)
    · rename_i st1 hstep
      injection h with h; subst h
      exact (updateStep_ok G att root hsb base st st1 false hz hstep han).1
    · rename_i st1 hstep
      split at h
      · exact absurd h (by simp)
      · rename_i st2 hasc
        have h2 := updateAncestors_mono G base fuel st2 st' h han
        have h1 : st1.anomaly = false := by rw [← (ascend_same st1 st2 hasc).2.2.2]; exact h2
        obtain ⟨hz1, _⟩ := updateStep_ok G att root hsb base st st1 true hz hstep h1
        obtain ⟨hz2, _, _⟩ := ascend_ok G att root st1 st2 hz1 hasc
        exact ih st2 st' hz2 h han

end C06
