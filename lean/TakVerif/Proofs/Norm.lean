import TakVerif.Proofs.Bits

/-! Normal forms of the blocks of `Pos.apply`: each block as ONE record expression, proved equal to the
construct-for-construct mirror in `Impl/Move.lean` by exhausting the (finitely many) branch combinations. -/
namespace Tak

theorem toMove_cases (p : Pos) : p.toMove = .white ∨ p.toMove = .black := by
  unfold Pos.toMove; split
  · exact .inl rfl
  · exact .inr rfl

theorem analyze_eq {p q : Pos} (h : p.analyze = some q) :
    q = { p with wgroups := q.wgroups, bgroups := q.bgroups } := by
  unfold Pos.analyze at h
  dsimp only at h
  split at h
  · cases h; rfl
  · cases h

/-- `analyze` only rewrites the two group lists -/
theorem finish_ok {p q : Pos} (h : finish p = .ok q) :
    q = { p with wgroups := q.wgroups, bgroups := q.bgroups } := by
  unfold finish at h
  split at h
  · cases h; exact analyze_eq ‹_›
  · cases h

/-- `analyze` never runs out of flood fuel.  Proved unconditionally by the roads work package
(`Roads.analyze_ne_none`); taken as a hypothesis here so that this package does not depend on that branch. -/
def AnalyzeTotal : Prop := ∀ p : Pos, p.analyze ≠ none

theorem finish_total (hA : AnalyzeTotal) (p : Pos) : ∃ q, finish p = .ok q := by
  unfold finish
  split
  · exact ⟨_, rfl⟩
  · rename_i h; exact absurd h (hA p)

theorem finish_cases (p : Pos) : (∃ q, finish p = .ok q) ∨ finish p = .error (.hang "analyze") := by
  unfold finish
  split
  · exact .inl ⟨_, rfl⟩
  · exact .inr rfl

/-- the pre-`analyze` successor of a placement -/
def placed (p next : Pos) (i : Nat) (pc : Piece) : Pos :=
  { next with
    white := if pc.color = .white then setBit next.white i else next.white
    black := if pc.color = .white then next.black else setBit next.black i
    standing := if pc.kind = .standing then setBit next.standing i else next.standing
    caps := if pc.kind = .capstone then setBit next.caps i else next.caps
    height := next.height.setIfInBounds i (next.height.getD i 0 + 1)
    whiteStones := if pc.kind ≠ .capstone ∧ pc.color ≠ .black then next.whiteStones - 1 else next.whiteStones
    blackStones := if pc.kind ≠ .capstone ∧ pc.color = .black then next.blackStones - 1 else next.blackStones
    whiteCaps := if pc.kind = .capstone ∧ p.toMove ≠ .black then next.whiteCaps - 1 else next.whiteCaps
    blackCaps := if pc.kind = .capstone ∧ p.toMove = .black then next.blackCaps - 1 else next.blackCaps }

/-- the reserve counter a placement draws on -/
def placeReserve (p next : Pos) (pc : Piece) : U8 :=
  if pc.kind = .capstone then (if p.toMove = .black then next.blackCaps else next.whiteCaps)
  else (if pc.color = .black then next.blackStones else next.whiteStones)

theorem placeOn_eq (p next : Pos) (i : Nat) (pc : Piece) :
    placeOn p next i pc =
      if (p.white ||| p.black).getLsbD i then .error (.illegal "occupied")
      else if placeReserve p next pc == 0#8 then .error (.illegal "no stones")
      else finish (placed p next i pc) := by
  obtain ⟨col, kd⟩ := pc
  cases kd <;> cases col <;> cases hm : p.toMove <;>
    simp [placeOn, placed, placeReserve, hm]

/-- new `Stacks[i]` of a drop -/
def dropS2 (next : Pos) (stack : W) (ct c i : Nat) : W :=
  let s0 := next.stacks.getD i 0
  let s1 : W := if next.white.getLsbD i then s0 <<< 1
            else if next.black.getLsbD i then (s0 <<< 1) ||| 1#64
            else s0
  (s1 <<< (c - 1)) ||| ((stack >>> (ct - (c - 1))) &&& ((1#64 <<< (c - 1)) - 1#64))

theorem dropOn_eq (basis : Array W) (next : Pos) (top : Piece) (stack : W) (ct c i : Nat) :
    dropOn basis next top stack ct c i =
      { next.setStack basis i (dropS2 next stack ct c i) (next.height.getD i 0 + BitVec.ofNat 8 c) with
        black := if stack.getLsbD (ct - c) then setBit next.black i else clrBit next.black i
        white := if stack.getLsbD (ct - c) then clrBit next.white i else setBit next.white i
        caps := if ct - c = 0 ∧ top.kind = .capstone then setBit next.caps i else next.caps
        standing := if ct - c = 0 ∧ top.kind = .standing then setBit next.standing i else next.standing } := by
  obtain ⟨col, kd⟩ := top
  unfold dropOn dropS2
  generalize ct - c = k
  generalize stack.getLsbD k = b
  cases kd <;> cases b <;> cases k <;> simp [Pos.setStack]

theorem liftFrom_eq (basis : Array W) (next : Pos) (stack : W) (h ct i : Nat) :
    liftFrom basis next stack h ct i =
      { next with
          caps := clrBit next.caps i
          standing := clrBit next.standing i
          white := if h = ct then clrBit next.white i else if stack.getLsbD ct then clrBit next.white i else setBit next.white i
          black := if h = ct then clrBit next.black i else if stack.getLsbD ct then setBit next.black i else clrBit next.black i
        }.setStack basis i (next.stacks.getD i 0 >>> ct) (next.height.getD i 0 - BitVec.ofNat 8 ct) := by
  unfold liftFrom
  generalize stack.getLsbD ct = b
  by_cases h1 : h = ct <;> cases b <;> simp [Pos.setStack, Pos.hashAt, h1]

end Tak
