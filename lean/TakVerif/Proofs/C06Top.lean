import TakVerif.Proofs.C06Search

/-! From the invariant to the verdict of `Prover.Prove`. -/
namespace C06
open Tak Tak.PN Spec.Game

variable {S M : Type} (G : Game S M) (att : Color) {pos : S}

/-- the standing assumptions about the game -/
structure GameOK : Prop where
  alt : Alternating G
  att : att = .white ∨ att = .black
  small : SmallBranching G

/-- the standing assumptions about the game, as far as a search from `root` can see: the bound on the
number of moves is asked only of positions reachable from `root` -/
structure GameOKFrom (root : S) : Prop where
  alt : Alternating G
  att : att = .white ∨ att = .black
  small : SmallFrom G root

theorem GameOK.from_root {G : Game S M} {att : Color} (hg : GameOK G att) (root : S) : GameOKFrom G att root :=
  ⟨hg.alt, hg.att, SmallBranching.smallFrom hg.small root⟩

theorem initState_ok [Inhabited M] (hg : GameOKFrom G att pos) (cfg : PN.Cfg) (st0 : St S M)
    (hroot : G.toMove pos = att) (h : initState G att cfg pos = some st0) :
    ZipOK G att pos st0 ∧ st0.anomaly = false ∧ st0.up = [] ∧ st0.stack = [pos] := by
  unfold initState at h
  simp only at h
  split at h
  · exact absurd h (by simp)
  · rename_i st1 hev
    injection h with h
    subst h
    obtain ⟨v, hf, hup, hstk, _, _, han, _, hvp, hvu, hvd⟩ :=
      evaluate_spec G att _ st1 pos [] rfl hev
    simp only at hf hup hstk han
    refine ⟨?_, han, hup, hstk⟩
    refine ⟨pos, [], hstk, ?_, ?_⟩
    · show TreeOK G att st1.depthLimited [] pos (setNumbers G pos st1.focus)
      have hx : st1.focus.expanded = false := by rw [hf]
      have hc : st1.focus.children = [] := by rw [hf]
      have hval : st1.focus.value = v := by rw [hf]
      have hia : st1.focus.isAnd = false := by rw [hf]
      rw [TreeOK_iff, setNumbers_children, setNumbers_expanded, hc, hx]
      refine ⟨?_, by simp, by simp, by simp⟩
      apply setNumbers_leaf_ok G att (hg.small pos .refl) hx
      · intro hv; rw [hval] at hv; exact .terminal (hvp hv)
      · intro hd hv
        rw [hval] at hv
        rcases hvd hv with h1 | ⟨w, ho, hw⟩ | ⟨ho, hr⟩
        · rw [hd] at h1; exact absurd h1 (by simp)
        · exact not_win_of_over G att ho hw
        · exact not_win_of_rep G att ho hr
      · intro hv; rw [hval] at hv; exact hvu hv
      · rw [hia]; simp [hroot]
    · show CrumbsOK G att pos st1.depthLimited st1.up [] pos _
      rw [hup]; exact ⟨rfl, rfl⟩

/-- the state `Prove` reads its result from is sound (unless the ghost flag was raised) -/
theorem proveState_ok_from [Inhabited M] (hg : GameOKFrom G att pos) (fuel : Nat) (cfg : PN.Cfg) (st : St S M)
    (hroot : G.toMove pos = att) (h : proveState G att fuel cfg pos = .ok st) (han : st.anomaly = false) :
    ∃ hs, st.stack = pos :: hs ∧ st.up = [] ∧ TreeOK G att st.depthLimited [] pos st.focus := by
  unfold proveState at h
  simp only at h
  split at h
  · exact absurd h (by simp)
  · rename_i st0 hinit
    obtain ⟨hz0, _, hup0, hstk0⟩ := initState_ok G att hg _ st0 hroot hinit
    obtain ⟨⟨_, hzz⟩, hlen⟩ := (search_all G att pos hg.alt hg.att hg.small fuel).1 0 _ st0 st h
    have hz := hzz hz0 han
    have hup : st.up = [] := List.eq_nil_of_length_eq_zero (hlen hz0 han)
    obtain ⟨s, hs, hst, ht, hc⟩ := hz
    rw [hup] at hc
    simp only [CrumbsOK] at hc
    obtain ⟨h1, h2⟩ := hc
    subst h1; subst h2
    exact ⟨[], hst, hup, ht⟩

theorem proveState_ok [Inhabited M] (hg : GameOK G att) (fuel : Nat) (cfg : PN.Cfg) (pos : S) (st : St S M)
    (hroot : G.toMove pos = att) (h : proveState G att fuel cfg pos = .ok st) (han : st.anomaly = false) :
    ∃ hs, st.stack = pos :: hs ∧ st.up = [] ∧ TreeOK G att st.depthLimited [] pos st.focus :=
  proveState_ok_from G att (hg.from_root pos) fuel cfg st hroot h han

end C06
