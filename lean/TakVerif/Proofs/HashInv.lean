import TakVerif.Proofs.Hash
import TakVerif.Proofs.Norm

/-! The hash invariant is inductive on its own: `HInv` (hash field = from-scratch fold, size ≤ 8, empty squares
have height 0) is preserved by every successful `Pos.apply`, with no stack-limit or other well-formedness
assumption. -/
namespace Tak

structure HInv (basis : Array W) (p : Pos) : Prop where
  hash : HashOK basis p
  size : p.cfg.size ≤ 8
  empty : ∀ i, (p.white ||| p.black).getLsbD i = false → p.height.getD i 0 = 0#8

theorem HInv.finish {basis : Array W} {p q : Pos} (hp : HInv basis p) (h : finish p = .ok q) : HInv basis q := by
  rw [finish_ok h]
  exact ⟨hp.hash.congr rfl rfl rfl, hp.size, hp.empty⟩

theorem HInv.bump {basis : Array W} {p : Pos} (hp : HInv basis p) : HInv basis { p with move := p.move + 1 } :=
  ⟨hp.hash.congr rfl rfl rfl, hp.size, hp.empty⟩

/-- generic preservation: `q` differs from `next` (hash-consistently) only at square `i` -/
theorem HInv.update {basis : Array W} {next q : Pos} (hn : HInv basis next) (hq : HashOK basis q)
    (hc : q.cfg = next.cfg) (i : Nat) (h' : U8) (hh : q.height = next.height.setIfInBounds i h')
    (hne : ∀ j, j ≠ i → (q.white ||| q.black).getLsbD j = (next.white ||| next.black).getLsbD j)
    (hi : (q.white ||| q.black).getLsbD i = false → h' = 0#8) : HInv basis q := by
  refine ⟨hq, by rw [hc]; exact hn.size, ?_⟩
  intro j hj
  rw [hh]
  by_cases hji : j = i
  · subst hji
    by_cases hlt : j < next.height.size
    · rw [getD_setIfInBounds_eq _ _ _ _ hlt]; exact hi hj
    · rw [getD_oob _ _ _ (by simp; omega)]; rfl
  · rw [getD_setIfInBounds_ne _ _ _ _ _ hji]
    apply hn.empty
    rw [← hne j hji]; exact hj

theorem HInv.placed {basis : Array W} {p next : Pos} (hn : HInv basis next) (i : Nat) (pc : Piece)
    (hocc : (next.white ||| next.black).getLsbD i = false) (hi : i < 64) : HInv basis (Tak.placed p next i pc) := by
  have h0 := hn.empty i hocc
  refine hn.update ?_ rfl i (next.height.getD i 0 + 1) rfl ?_ ?_
  · refine hn.hash.setHeight_low i (next.height.getD i 0 + 1) rfl rfl rfl ?_ ?_
    · rw [h0]; decide
    · rw [h0]; decide
  · intro j hji
    simp only [Tak.placed, BitVec.getLsbD_or]
    split <;> simp [-BitVec.getLsbD_eq_getElem, setBit_getLsbD, hji]
  · intro hj
    exfalso
    simp only [Tak.placed, BitVec.getLsbD_or] at hj
    split at hj <;> simp [-BitVec.getLsbD_eq_getElem, setBit_getLsbD, hi] at hj

theorem HInv.setStack_of {basis : Array W} {p : Pos} (hh : HashOK basis p) (hs : p.cfg.size ≤ 8) (i : Nat) (s : W) (h : U8)
    (he : ∀ j, (p.white ||| p.black).getLsbD j = false → (p.height.setIfInBounds i h).getD j 0 = 0#8) :
    HInv basis (p.setStack basis i s h) :=
  ⟨hh.setStack i s h, hs, he⟩

theorem HInv.enterSquare {basis : Array W} {next q : Pos} {top : Piece} {ct i : Nat} (hn : HInv basis next)
    (h : Tak.enterSquare next top ct i = .ok q) : HInv basis q := by
  unfold Tak.enterSquare at h
  split at h
  · cases h
  · split at h
    · split at h
      · cases h
      · cases h; exact ⟨hn.hash.congr rfl rfl rfl, hn.size, hn.empty⟩
    · cases h; exact hn

theorem enterSquare_cfg {next q : Pos} {top : Piece} {ct i : Nat}
    (h : Tak.enterSquare next top ct i = .ok q) : q.cfg = next.cfg := by
  unfold Tak.enterSquare at h
  split at h
  · cases h
  · split at h
    · split at h
      · cases h
      · cases h; rfl
    · cases h; rfl

theorem HInv.dropOn {basis : Array W} {next : Pos} (hn : HInv basis next) (top : Piece) (stack : W) (ct c i : Nat)
    (hi : i < 64) : HInv basis (Tak.dropOn basis next top stack ct c i) := by
  rw [dropOn_eq]
  refine hn.update ((hn.hash.setStack i _ _).congr rfl rfl rfl) rfl i _ rfl ?_ ?_
  · intro j hji
    simp only [BitVec.getLsbD_or]
    split <;> simp [-BitVec.getLsbD_eq_getElem, setBit_getLsbD, clrBit_getLsbD, hji]
  · intro hj
    exfalso
    simp only [BitVec.getLsbD_or] at hj
    split at hj <;> simp [-BitVec.getLsbD_eq_getElem, setBit_getLsbD, clrBit_getLsbD, hi] at hj

theorem HInv.liftFrom {basis : Array W} {next : Pos} (hn : HInv basis next) (stack : W) (ct i : Nat)
    (hi : i < 64) :
    HInv basis (Tak.liftFrom basis next stack (next.height.getD i 0).toNat ct i) := by
  rw [liftFrom_eq]
  refine hn.update (HashOK.setStack (hn.hash.congr rfl rfl rfl) i _ _) rfl i _ rfl ?_ ?_
  · intro j hji
    simp only [Pos.setStack, BitVec.getLsbD_or]
    split
    · simp [-BitVec.getLsbD_eq_getElem, clrBit_getLsbD, hji]
    · split <;> simp [-BitVec.getLsbD_eq_getElem, setBit_getLsbD, clrBit_getLsbD, hji]
  · intro hj
    simp only [Pos.setStack, BitVec.getLsbD_or] at hj
    split at hj
    · rename_i heq
      apply BitVec.eq_of_toNat_eq
      have h8 : (next.height.getD i 0).toNat < 256 := (next.height.getD i 0).isLt
      have : ct % 256 = ct := Nat.mod_eq_of_lt (by omega)
      simp only [BitVec.toNat_sub, BitVec.toNat_ofNat, this]
      omega
    · exfalso
      split at hj <;> simp [-BitVec.getLsbD_eq_getElem, setBit_getLsbD, clrBit_getLsbD, hi] at hj


theorem HInv.slideStep {basis : Array W} {p : Pos} {top : Piece} {stack : W} {dx dy : Int} {st st' : SlideSt} {c : Nat}
    (hs : p.cfg.size ≤ 8) (hn : HInv basis st.next) (h : Tak.slideStep basis p top stack dx dy st c = .ok st') :
    HInv basis st'.next := by
  unfold Tak.slideStep at h
  dsimp only at h
  split at h
  · cases h
  · rename_i hb
    split at h
    · cases h
    · split at h
      · cases h
      · rename_i next he
        cases h
        have hi : (st.x + dx + (st.y + dy) * (p.cfg.size : Int)).toNat < 64 :=
          idx_lt_64 _ _ _ hs (by omega) (by omega) (by omega) (by omega)
        exact (hn.enterSquare he).dropOn top stack st.ct c _ hi

theorem HInv.slideLoop {basis : Array W} {p : Pos} {top : Piece} {stack : W} {dx dy : Int} (hs : p.cfg.size ≤ 8)
    (drops : List Nat) {st st' : SlideSt} (hn : HInv basis st.next)
    (h : Tak.slideLoop basis p top stack dx dy drops st = .ok st') : HInv basis st'.next := by
  induction drops generalizing st with
  | nil => simp only [Tak.slideLoop] at h; cases h; exact hn
  | cons c cs ih =>
    simp only [Tak.slideLoop] at h
    split at h
    · cases h
    · rename_i st1 h1
      exact ih (hn.slideStep hs h1) h

theorem HInv.slideFrom {basis : Array W} {p q : Pos} {m : Move} {i : Nat} {dx dy : Int} (hp : HInv basis p)
    (h : Tak.slideFrom basis p { p with move := p.move + 1 } m i dx dy = .ok q) : HInv basis q := by
  unfold Tak.slideFrom at h
  dsimp only at h
  split at h
  · cases h
  split at h
  · cases h
  split at h
  · cases h
  rename_i hw
  split at h
  · cases h
  rename_i hb
  split at h
  · cases h
  rename_i top htop
  split at h
  · cases h
  rename_i st hst
  -- the origin index is below 64 because the mover's bit is set there
  have hi : i < 64 := by
    cases hm : p.toMove
    · have : p.white.getLsbD i = true := by simpa [hm] using hw
      exact Classical.byContradiction fun hge => by
        rw [BitVec.getLsbD_of_ge _ _ (by omega)] at this; cases this
    · have : p.black.getLsbD i = true := by simpa [hm] using hb
      exact Classical.byContradiction fun hge => by
        rw [BitVec.getLsbD_of_ge _ _ (by omega)] at this; cases this
    · unfold Pos.toMove at hm; split at hm <;> cases hm
  have hl := (hp.bump).liftFrom ((p.stacks.getD i 0 <<< 1) ||| (if top.color == Color.black then 1#64 else 0#64))
    (List.foldl (· + ·) 0 (Slides.elems m.slides)) i hi
  exact (HInv.slideLoop hp.size _ hl hst).finish h

/-- `HInv` is an inductive invariant of `Pos.apply` -/
theorem HInv.apply {basis : Array W} {p q : Pos} {m : Move} (hp : HInv basis p)
    (h : Pos.apply basis p m = .ok q) : HInv basis q := by
  unfold Pos.apply at h
  dsimp only at h
  split at h
  · exact hp.bump.finish h
  split at h
  · cases h
  split at h
  · cases h
  split at h
  · cases h
  rename_i hb
  split at h
  · -- placement
    rw [placeOn_eq] at h
    split at h
    · cases h
    rename_i hocc
    split at h
    · cases h
    have hi : (m.x + m.y * (p.cfg.size : Int)).toNat < 64 :=
      idx_lt_64 _ _ _ hp.size (by omega) (by omega) (by omega) (by omega)
    exact (hp.bump.placed _ _ (by simpa using hocc) hi).finish h
  · exact hp.slideFrom h

end Tak

namespace Tak

theorem xfold_zero (f : Nat → W) (a : W) (l : List Nat) (h : ∀ j, f j = 0#64) : xfold f a l = a := by
  induction l generalizing a with
  | nil => rfl
  | cons x xs ih => simp only [xfold, List.foldl_cons, h x, BitVec.xor_zero] at ih ⊢; exact ih a

theorem new_ok {cfg : Cfg} {p : Pos} (h : Pos.new cfg = .ok p) :
    3 ≤ cfg.size ∧ cfg.size ≤ 8 ∧
    p = { cfg := { cfg with pieces := if cfg.pieces == 0 then Facts.defaultPieces.getD cfg.size 0 else cfg.pieces,
                            capstones := if cfg.capstones == 0 then Facts.defaultCaps.getD cfg.size 0 else cfg.capstones }
          c := Gen.precompute cfg.size
          whiteStones := BitVec.ofNat 8 (if cfg.pieces == 0 then Facts.defaultPieces.getD cfg.size 0 else cfg.pieces)
          whiteCaps := BitVec.ofNat 8 (if cfg.capstones == 0 then Facts.defaultCaps.getD cfg.size 0 else cfg.capstones)
          blackStones := BitVec.ofNat 8 (if cfg.pieces == 0 then Facts.defaultPieces.getD cfg.size 0 else cfg.pieces)
          blackCaps := BitVec.ofNat 8 (if cfg.capstones == 0 then Facts.defaultCaps.getD cfg.size 0 else cfg.capstones)
          move := 0, white := 0, black := 0, standing := 0, caps := 0
          height := Array.replicate (cfg.size * cfg.size) 0#8, stacks := Array.replicate (cfg.size * cfg.size) 0#64
          wgroups := [], bgroups := [], hash := BitVec.ofNat 64 Facts.fnvBasis } := by
  unfold Pos.new at h
  split at h
  · cases h
  · dsimp only at h
    split at h
    · cases h
    · rename_i hs
      cases h
      exact ⟨by omega, by omega, rfl⟩

theorem getD_replicate {α} (n i : Nat) (v : α) : (Array.replicate n v).getD i v = v := by
  simp only [Array.getD_eq_getD_getElem?, Array.getElem?_replicate]
  split <;> rfl

/-- a fresh position satisfies the hash invariant, for any basis table -/
theorem new_hinv (basis : Array W) {cfg : Cfg} {p : Pos} (h : Pos.new cfg = .ok p) : HInv basis p := by
  obtain ⟨h3, h8, rfl⟩ := new_ok h
  refine ⟨?_, h8, ?_⟩
  · unfold HashOK
    rw [scratchHash_eq]
    dsimp only
    rw [xfold_zero]
    intro j
    apply hashAtRaw_low
    have e : (Array.replicate (cfg.size * cfg.size) 0#8).getD j 0 = 0#8 := getD_replicate _ _ _
    rw [e]; decide
  · intro i _
    exact getD_replicate _ _ _

/-- apply a list of moves, stopping at the first rejected one -/
def Pos.applyAll (basis : Array W) : Pos → List Move → R Pos
  | p, [] => .ok p
  | p, m :: ms => match p.apply basis m with
    | .ok q => Pos.applyAll basis q ms
    | .error e => .error e

theorem HInv.applyAll {basis : Array W} {p q : Pos} (ms : List Move) (hp : HInv basis p)
    (h : p.applyAll basis ms = .ok q) : HInv basis q := by
  induction ms generalizing p with
  | nil => simp only [Pos.applyAll] at h; cases h; exact hp
  | cons m ms ih =>
    simp only [Pos.applyAll] at h
    split at h
    · rename_i r hr; exact ih (hp.apply hr) h
    · cases h

end Tak
