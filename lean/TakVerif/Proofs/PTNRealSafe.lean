import TakVerif.Proofs.MoveRT
import TakVerif.Proofs.PTNRender
import TakVerif.Impl.PTNReal

/-! The `moveSafe` hypothesis of the PTN-file round trip, discharged for the byte-level models of
`ptn.FormatMove` / `ptn.ParseMove` (`PTN.realEnv`): every move of legal shape is written as one clean token
(C11 gives the parse-back half). -/
namespace PTN
open Tak Go Notation

/-- the bytes `FormatMove` writes for a move of legal shape: `+ - < >`, `C S`, digits `1`–`8`, files `a`–`h` -/
def mvByte (b : UInt8) : Bool :=
  b.toNat == 43 || b.toNat == 45 || b.toNat == 60 || b.toNat == 62 || b.toNat == 67 || b.toNat == 83 ||
  (49 ≤ b.toNat && b.toNat ≤ 56) || (97 ≤ b.toNat && b.toNat ≤ 104)

theorem forall_uint8 (P : UInt8 → Prop) (h : ∀ n, n < 256 → P (UInt8.ofNat n)) : ∀ b, P b := by
  intro b
  have := h b.toNat b.toNat_lt
  simpa using this

/-- none of these bytes is white space, a bracket, a brace, a dot or an annotation character -/
theorem mvByte_props : ∀ b : UInt8, mvByte b = true →
    isSpace b = false ∧ b ≠ 123 ∧ b ≠ 91 ∧ b ≠ 46 ∧ isModifier b = false := by
  apply forall_uint8
  decide +kernel

/-- result strings are made of `F R 0 1 2 / -` only -/
theorem resultList_lt97 : ∀ t ∈ resultList, t.all (fun b => decide (b.toNat < 97)) = true := by decide

theorem not_matchResult_of_letter (s : Bytes) (b : UInt8) (hb : b ∈ s) (h97 : 97 ≤ b.toNat) : matchResult s = false := by
  cases hm : matchResult s with
  | false => rfl
  | true =>
    have := (List.all_eq_true.mp (resultList_lt97 s (matchResult_mem s hm))) b hb
    simp only [decide_eq_true_eq] at this
    omega

theorem mvByte_of (b : UInt8) (n : Nat) (hn : b.toNat = n)
    (h : n = 43 ∨ n = 45 ∨ n = 60 ∨ n = 62 ∨ n = 67 ∨ n = 83 ∨ (49 ≤ n ∧ n ≤ 56) ∨ (97 ≤ n ∧ n ≤ 104)) :
    mvByte b = true := by
  unfold mvByte
  rw [hn]
  simp only [Bool.or_eq_true, Bool.and_eq_true, beq_iff_eq, decide_eq_true_eq]
  omega

theorem dirChar_mvByte (t : Nat) : mvByte (PTN.dirChar t) = true := by
  unfold PTN.dirChar
  split
  · decide
  · split
    · decide
    · split <;> decide

/-- the text of a move of legal shape: made of `mvByte`s, containing a file letter -/
theorem formatMove_clean (size : Nat) (m : Move) (h : LegalShape size m) :
    (∀ b ∈ Tak.PTN.formatMove m false, mvByte b = true) ∧
    (∃ b ∈ Tak.PTN.formatMove m false, 97 ≤ b.toNat) := by
  obtain ⟨hx0, hx1, hy0, hy1, h3, h8⟩ := PTN.legalShape_bounds h
  have hxc : (byteOfInt (97 + m.x)).toNat = (97 + m.x).toNat := PTN.byteOfInt_toNat _ (by omega) (by omega)
  have hyc : (byteOfInt (49 + m.y)).toNat = (49 + m.y).toNat := PTN.byteOfInt_toNat _ (by omega) (by omega)
  have hxb : mvByte (byteOfInt (97 + m.x)) = true := mvByte_of _ _ hxc (by omega)
  have hyb : mvByte (byteOfInt (49 + m.y)) = true := mvByte_of _ _ hyc (by omega)
  have hx97 : 97 ≤ (byteOfInt (97 + m.x)).toNat := by rw [hxc]; omega
  rcases PTN.legalShape_kind h with ⟨hp, hz⟩ | ⟨_, hs, hne, hds, hsum, _⟩
  · -- placements
    obtain ⟨x, y, t, s⟩ := m
    simp only at hz hp hxb hyb hx97
    subst hz
    have hform : Tak.PTN.formatMove ⟨x, y, t, 0#32⟩ false = [byteOfInt (97 + x), byteOfInt (49 + y)] ∨
        Tak.PTN.formatMove ⟨x, y, t, 0#32⟩ false = [83, byteOfInt (97 + x), byteOfInt (49 + y)] ∨
        Tak.PTN.formatMove ⟨x, y, t, 0#32⟩ false = [67, byteOfInt (97 + x), byteOfInt (49 + y)] := by
      rcases PTN.placeType_cases t hp with rfl | rfl | rfl
      · left
        simp [Tak.PTN.formatMove, Facts.mtPlaceFlat, Facts.mtSlideLeft, Facts.mtSlideRight, Facts.mtSlideUp, Facts.mtSlideDown]
      · right; left
        simp [Tak.PTN.formatMove, Facts.mtPlaceFlat, Facts.mtPlaceStanding, Facts.mtPlaceCapstone, Facts.mtSlideLeft,
          Facts.mtSlideRight, Facts.mtSlideUp, Facts.mtSlideDown]
      · right; right
        simp [Tak.PTN.formatMove, Facts.mtPlaceFlat, Facts.mtPlaceStanding, Facts.mtPlaceCapstone, Facts.mtSlideLeft,
          Facts.mtSlideRight, Facts.mtSlideUp, Facts.mtSlideDown]
    rcases hform with hf | hf | hf <;> rw [hf] <;> refine ⟨?_, ⟨_, by simp, hx97⟩⟩ <;> intro b hb <;>
      simp only [List.mem_cons, List.mem_nil_iff, or_false] at hb
    · rcases hb with rfl | rfl <;> assumption
    · rcases hb with rfl | rfl | rfl
      · decide
      · assumption
      · assumption
    · rcases hb with rfl | rfl | rfl
      · decide
      · assumption
      · assumption
  · -- slides
    obtain ⟨x, y, t, s⟩ := m
    simp only at hs hne hds hsum hxb hyb hx97
    rw [PTN.formatMove_slide x y t s false hs (PTN.elems_ne_nil_ne_zero s hne)]
    have hS1 : 1 ≤ (Slides.elems s).foldl (· + ·) 0 := by
      cases hel : Slides.elems s with
      | nil => exact absurd hel hne
      | cons d ds =>
        simp only [List.foldl_cons]
        rw [PTN.foldl_add]
        have := (hds d (by rw [hel]; simp)).1
        omega
    have hdig : ∀ b ∈ PTN.digitsOf (Slides.elems s), mvByte b = true := by
      intro b hb
      simp only [PTN.digitsOf, List.mem_map] at hb
      obtain ⟨e, he, rfl⟩ := hb
      have := hds e he
      exact mvByte_of _ _ (PTN.toNat_digit e (by omega)) (by omega)
    have hcount : mvByte (UInt8.ofNat (48 + (Slides.elems s).foldl (· + ·) 0)) = true :=
      mvByte_of _ _ (PTN.toNat_digit _ (by omega)) (by omega)
    refine ⟨?_, ⟨byteOfInt (97 + x), by simp, hx97⟩⟩
    intro b hb
    simp only [List.mem_append, List.mem_cons, List.mem_nil_iff, or_false] at hb
    rcases hb with (hb | hb | hb | hb) | hb
    · split at hb
      · simp only [List.mem_singleton] at hb; rw [hb]; exact hcount
      · cases hb
    · rw [hb]; exact hxb
    · rw [hb]; exact hyb
    · rw [hb]; exact dirChar_mvByte t
    · split at hb
      · exact hdig b hb
      · cases hb

/-- **`moveSafe` holds for the real `FormatMove`/`ParseMove` on every move of legal shape** (any board size):
the text is one clean token and parses back to the same move (C11 `ptn_short_rt`) -/
theorem moveSafe_real (basis : Array W) (size : Nat) (m : Move) (h : LegalShape size m) :
    moveSafe (realEnv basis) m = true := by
  obtain ⟨hall, b0, hb0, h97⟩ := formatMove_clean size m h
  have hrt : Tak.PTN.parseMove (Tak.PTN.formatMove m false) = .ok m := by
    have := PTN.ptn_rt size m h false [] (by intro b hb; cases hb)
    simpa using this
  have hfm : (realEnv basis).formatMove m = Tak.PTN.formatMove m false := rfl
  have hpm : (realEnv basis).parseMove = Tak.PTN.parseMove := rfl
  unfold moveSafe
  rw [hfm, hpm]
  dsimp only
  rw [hrt]
  generalize Tak.PTN.formatMove m false = s at *
  have hres := not_matchResult_of_letter s b0 hb0 h97
  cases s with
  | nil => cases hb0
  | cons c cs =>
    have hc := mvByte_props c (hall c (by simp))
    obtain ⟨l, hl⟩ : ∃ l, (c :: cs).getLast? = some l := by
      cases hg : (c :: cs).getLast? with
      | none => simp at hg
      | some l => exact ⟨l, rfl⟩
    have hlp := mvByte_props l (hall l (List.mem_of_getLast? hl))
    have hsp : (c :: cs).all (fun b => !isSpace b) = true :=
      List.all_eq_true.mpr (fun b hb => by simp [(mvByte_props b (hall b hb)).1])
    simp only [List.head?_cons, hl, hsp, hres, Bool.not_false, Bool.and_true, beq_self_eq_true, Bool.and_eq_true,
      bne_iff_ne, ne_eq, Bool.not_eq_true']
    exact ⟨⟨hc.2.1, hc.2.2.1⟩, hlp.2.2.2.1, hlp.2.2.2.2⟩

theorem length_le_sum (l : List Nat) (h : ∀ d ∈ l, 1 ≤ d) : l.length ≤ l.foldl (· + ·) 0 := by
  induction l with
  | nil => simp
  | cons d l ih =>
    simp only [List.foldl_cons, List.length_cons]
    rw [PTN.foldl_add]
    have := h d (by simp)
    have := ih (fun e he => h e (by simp [he]))
    omega

/-- the text of a move of legal shape is at most 12 bytes long (`8a1>11111111`) -/
theorem formatMove_length_le (size : Nat) (m : Move) (h : LegalShape size m) :
    (Tak.PTN.formatMove m false).length ≤ 12 := by
  obtain ⟨_, _, _, _, h3, h8⟩ := PTN.legalShape_bounds h
  rcases PTN.legalShape_kind h with ⟨hp, hz⟩ | ⟨_, hs, hne, hds, hsum, _⟩
  · obtain ⟨x, y, t, s⟩ := m
    simp only at hz hp
    subst hz
    rcases PTN.placeType_cases t hp with rfl | rfl | rfl <;>
      simp [Tak.PTN.formatMove, Facts.mtPlaceFlat, Facts.mtPlaceStanding, Facts.mtPlaceCapstone, Facts.mtSlideLeft,
        Facts.mtSlideRight, Facts.mtSlideUp, Facts.mtSlideDown]
  · obtain ⟨x, y, t, s⟩ := m
    simp only at hs hne hds hsum
    rw [PTN.formatMove_slide x y t s false hs (PTN.elems_ne_nil_ne_zero s hne)]
    have hlen := length_le_sum (Slides.elems s) (fun d hd => (hds d hd).1)
    simp only [List.length_append, List.length_cons, List.length_nil]
    have h1 : (if false = true ∨ (Slides.elems s).foldl (· + ·) 0 ≠ 1 then
        [UInt8.ofNat (48 + (Slides.elems s).foldl (· + ·) 0)] else ([] : Bytes)).length ≤ 1 := by
      split <;> simp
    have h2 : (if false = true ∨ (Slides.elems s).length ≠ 1 then PTN.digitsOf (Slides.elems s) else ([] : Bytes)).length ≤ 8 := by
      split
      · simp only [PTN.digitsOf, List.length_map]; omega
      · simp
    omega

end PTN
