import TakVerif.Impl.TPS
import TakVerif.Proofs.GoBytesLemmas

/-! Text-level lemmas for C10: what `FormatTPS` writes, `ParseTPS` reads back. -/
namespace Tak.TPS
open Go

/-- list-level well-formedness of a square: every piece has a colour, only the top may be a wall or a capstone -/
def ValidSq (sq : List Piece) : Prop := (∀ pc ∈ sq, pc.color ≠ .none) ∧ (∀ pc ∈ sq.tail, pc.kind = .flat)

def codes (sq : List Piece) : List Nat := sq.map Piece.code

def pcByte (pc : Piece) : UInt8 := if pc.color == .white then c1 else c2

/-- the flat piece `parseRow` writes for a colour digit -/
def flatOf (pc : Piece) : Nat := mk pc.color.code Facts.kindFlat

def markOf (k : Kind) : Bytes :=
  match k with
  | .standing => [cS]
  | .capstone => [cC]
  | .flat => []

/-- text of a non-empty square: colour digits bottom first, then the marker of the top piece -/
def sqText (sq : List Piece) : Bytes :=
  sq.reverse.map pcByte ++ (match sq with | [] => [] | top :: _ => markOf top.kind)

theorem tpsSquare_eq (top : Piece) (rest : List Piece) : tpsSquare (top :: rest) = .ok (sqText (top :: rest)) := by
  unfold tpsSquare sqText markOf pcByte
  cases top.kind <;> rfl

theorem set_replicate_last (k : Nat) (done : List Nat) (v : Nat) :
    (List.replicate (k + 1) 0 ++ done).set k v = List.replicate k 0 ++ v :: done := by
  induction k with
  | zero => rfl
  | succ k ih =>
    rw [List.replicate_succ (n := k + 1), List.cons_append, List.set_cons_succ, ih, List.replicate_succ, List.cons_append]

theorem stackLoop_colour (n i : Nat) (b : UInt8) (rest : Bytes) (stack : List Nat)
    (hb : b == c1 ∨ b == c2) (hi : i < stack.length) :
    stackLoop n i (b :: rest) stack = stackLoop n (i + 1) rest (stack.set (stack.length - i - 1)
      (if b == c1 then mk Facts.colorWhite Facts.kindFlat else mk Facts.colorBlack Facts.kindFlat)) := by
  rw [stackLoop.eq_def]
  simp only [hb, hi, if_true]

theorem stackLoop_body (n : Nat) (r : List Piece) (i : Nat) (tail : Bytes) (done : List Nat)
    (hc : ∀ pc ∈ r, pc.color ≠ .none) (hn : i + r.length ≤ n) (hd : done.length = i) :
    stackLoop n i (r.map pcByte ++ tail) (List.replicate (n - i) 0 ++ done) =
      stackLoop n (i + r.length) tail (List.replicate (n - i - r.length) 0 ++ (r.reverse.map flatOf ++ done)) := by
  induction r generalizing i done with
  | nil => simp
  | cons pc r ih =>
    simp only [List.length_cons] at hn
    have hcol := hc pc (by simp)
    have hb : pcByte pc = c1 ∨ pcByte pc = c2 := by
      unfold pcByte; split <;> simp
    have hb' : (pcByte pc == c1 ∨ pcByte pc == c2) := by
      rcases hb with h | h <;> simp [h]
    have hlen : (List.replicate (n - i) 0 ++ done).length = n := by simp [hd]; omega
    simp only [List.map_cons, List.cons_append]
    have hi : i < n := by omega
    rw [stackLoop_colour n i _ _ _ hb' (by rw [hlen]; exact hi), hlen]
    have hk : n - i = (n - i - 1) + 1 := by omega
    have hset : (List.replicate (n - i) 0 ++ done).set (n - i - 1)
        (if pcByte pc == c1 then mk Facts.colorWhite Facts.kindFlat else mk Facts.colorBlack Facts.kindFlat) =
        List.replicate (n - i - 1) 0 ++ flatOf pc :: done := by
      have hv : (if pcByte pc == c1 then mk Facts.colorWhite Facts.kindFlat else mk Facts.colorBlack Facts.kindFlat) = flatOf pc := by
        unfold flatOf pcByte
        cases hcl : pc.color with
        | white => rfl
        | black => rfl
        | none => exact absurd hcl hcol
      rw [hv]
      generalize n - i - 1 = k at hk
      rw [hk]
      exact set_replicate_last k done _
    rw [hset]
    have := ih (i + 1) (flatOf pc :: done) (fun q hq => hc q (by simp [hq])) (by omega) (by simp [hd])
    have e1 : n - (i + 1) = n - i - 1 := by omega
    rw [e1] at this
    rw [this]
    have e2 : i + 1 + r.length = i + (r.length + 1) := by omega
    have e3 : n - i - 1 - r.length = n - i - (r.length + 1) := by omega
    rw [e2, e3]
    simp


theorem flatOf_code (pc : Piece) (h : pc.kind = .flat) : flatOf pc = pc.code := by
  unfold flatOf Piece.code mk; rw [h]; rfl

theorem colour_of_flatOf (pc : Piece) (h : pc.color ≠ .none) : flatOf pc &&& Facts.colorMask = pc.color.code := by
  unfold flatOf mk
  cases hc : pc.color with
  | white => rfl
  | black => rfl
  | none => exact absurd hc h

theorem pcByte_ne_x (pc : Piece) : (pcByte pc == cX) = false := by
  unfold pcByte; split <;> rfl

theorem stackLoop_mark (n i : Nat) (m : UInt8) (z below : Nat) (tl : List Nat)
    (hm : m = cS ∨ m = cC) (hi : i = n - 1) :
    stackLoop n i [m] (z :: below :: tl) =
      .ok ((if m == cS then mk (below &&& Facts.colorMask) Facts.kindStanding
            else mk (below &&& Facts.colorMask) Facts.kindCapstone) :: tl) := by
  rw [stackLoop.eq_def]
  have h1 : ¬ (m == c1 ∨ m == c2) := by rcases hm with rfl | rfl <;> decide
  have h2 : (m == cC ∨ m == cS) := by rcases hm with rfl | rfl <;> decide
  simp only [h1, h2, if_true, if_false, hi, ne_eq, not_true_eq_false]
  rw [stackLoop.eq_def]

theorem parseBit_marked (top : Piece) (rest : List Piece) (m : UInt8)
    (hcol : ∀ pc ∈ top :: rest, pc.color ≠ .none) (hrest : rest.map flatOf = codes rest)
    (hm : m = cS ∨ m = cC)
    (hkc : (if m == cS then mk top.color.code Facts.kindStanding else mk top.color.code Facts.kindCapstone) = top.code) :
    (match stackLoop ((top :: rest).reverse.map pcByte ++ [m]).length 0 ((top :: rest).reverse.map pcByte ++ [m])
        (List.replicate ((top :: rest).reverse.map pcByte ++ [m]).length 0) with
      | .error e => (.error e : R (List (List Nat)))
      | .ok stack => .ok [stack]) = .ok [codes (top :: rest)] := by
  have hrev : ∀ pc ∈ (top :: rest).reverse, pc.color ≠ .none := fun pc h => hcol pc (List.mem_reverse.mp h)
  have hn : ((top :: rest).reverse.map pcByte ++ [m]).length = (top :: rest).reverse.length + 1 := by simp
  rw [hn]
  have := stackLoop_body ((top :: rest).reverse.length + 1) (top :: rest).reverse 0 [m] [] hrev (by simp) rfl
  simp only [Nat.sub_zero, List.append_nil, Nat.zero_add, Nat.add_sub_cancel_left, List.reverse_reverse] at this
  rw [this]
  have h1 : List.replicate 1 0 ++ List.map flatOf (top :: rest) = 0 :: flatOf top :: rest.map flatOf := rfl
  rw [h1, stackLoop_mark _ _ m 0 (flatOf top) _ hm (by simp)]
  simp only [colour_of_flatOf top (hcol top (by simp)), hkc, codes, List.map_cons, hrest]

/-- a cell written by `tpsSquare` is read back by `parseRow` as the same square -/
theorem parseBit_sqText (sq : List Piece) (hne : sq ≠ []) (hv : ValidSq sq) :
    parseBit (sqText sq) = .ok [codes sq] := by
  obtain ⟨hcol, hflat⟩ := hv
  cases sq with
  | nil => exact absurd rfl hne
  | cons top rest =>
    have hrev : ∀ pc ∈ (top :: rest).reverse, pc.color ≠ .none := fun pc h => hcol pc (List.mem_reverse.mp h)
    have hrest : rest.map flatOf = codes rest := by
      unfold codes
      apply List.map_congr_left
      intro pc hpc
      exact flatOf_code pc (hflat pc (by simpa using hpc))
    -- the text is never empty and does not start with 'x'
    have hfirst : ∃ b tl, sqText (top :: rest) = b :: tl ∧ (b == cX) = false := by
      unfold sqText
      cases hr : (top :: rest).reverse with
      | nil => simp at hr
      | cons p ps => exact ⟨pcByte p, ps.map pcByte ++ markOf top.kind, by simp, pcByte_ne_x p⟩
    obtain ⟨b, tl, hbt, hbx⟩ := hfirst
    unfold parseBit
    rw [hbt]
    simp only [hbx, Bool.false_eq_true, if_false]
    rw [← hbt]
    -- run the loop
    have hlen : (sqText (top :: rest)).length = (top :: rest).length + (markOf top.kind).length := by
      simp [sqText]; omega
    cases hk : top.kind with
    | flat =>
      have htext : sqText (top :: rest) = (top :: rest).reverse.map pcByte ++ [] := by simp [sqText, hk, markOf]
      have hn : (sqText (top :: rest)).length = (top :: rest).reverse.length := by rw [htext]; simp
      rw [hn, htext]
      have := stackLoop_body (top :: rest).reverse.length (top :: rest).reverse 0 [] [] hrev (by simp) rfl
      simp only [Nat.sub_zero, List.append_nil, Nat.zero_add, Nat.sub_self, List.replicate_zero, List.nil_append,
        List.reverse_reverse] at this
      simp only [List.append_nil]
      rw [this]
      simp only [stackLoop, List.map_cons, codes, hrest]
      rw [flatOf_code top hk]
    | standing =>
      have htext : sqText (top :: rest) = (top :: rest).reverse.map pcByte ++ [cS] := by simp [sqText, hk, markOf]
      rw [htext]
      exact parseBit_marked top rest cS hcol hrest (Or.inl rfl) (by
        simp only [beq_self_eq_true, if_true]; unfold Piece.code mk; rw [hk]; rfl)
    | capstone =>
      have htext : sqText (top :: rest) = (top :: rest).reverse.map pcByte ++ [cC] := by simp [sqText, hk, markOf]
      rw [htext]
      exact parseBit_marked top rest cC hcol hrest (Or.inr rfl) (by
        have : (cC == cS) = false := by decide
        simp only [this, Bool.false_eq_true, if_false]; unfold Piece.code mk; rw [hk]; rfl)

/-- the cells `tpsRow` writes for a row (pure form of `rowBits`) -/
def cellsOf : Nat → List (List Piece) → List Bytes
  | run, [] => flushRun run
  | run, sq :: rest =>
    if sq.isEmpty then cellsOf (run + 1) rest else flushRun run ++ sqText sq :: cellsOf 0 rest

theorem rowBits_eq (run : Nat) (sqs : List (List Piece)) : rowBits run sqs = .ok (cellsOf run sqs) := by
  induction sqs generalizing run with
  | nil => rfl
  | cons sq rest ih =>
    unfold rowBits cellsOf
    split
    · exact ih _
    · rename_i hne
      cases sq with
      | nil => simp at hne
      | cons top tl => rw [tpsSquare_eq, ih 0]

theorem parseBits_append (a b : List Bytes) (out : List (List Nat)) :
    parseBits (a ++ b) out = (match parseBits a out with | .error e => .error e | .ok o => parseBits b o) := by
  induction a generalizing out with
  | nil => rfl
  | cons c a ih =>
    simp only [List.cons_append, parseBits]
    split
    · rfl
    · exact ih _

theorem parseBits_flushRun (run : Nat) (out : List (List Nat)) (h : run ≤ 9) :
    parseBits (flushRun run) out = .ok (out ++ List.replicate run []) := by
  unfold flushRun
  by_cases h0 : run = 0
  · subst h0; simp [parseBits]
  · by_cases h1 : run = 1
    · subst h1; simp [parseBits, parseBit, cX]
    · have e0 : (run == 0) = false := by simp [h0]
      have e1 : (run == 1) = false := by simp [h1]
      simp only [e0, e1, Bool.false_eq_true, if_false]
      rw [itoaNat_digit run h]
      simp only [parseBits, parseBit, beq_self_eq_true, if_true]
      have : (UInt8.ofNat (48 + run) - 48).toNat = run := by
        have : run = 2 ∨ run = 3 ∨ run = 4 ∨ run = 5 ∨ run = 6 ∨ run = 7 ∨ run = 8 ∨ run = 9 := by omega
        rcases this with rfl | rfl | rfl | rfl | rfl | rfl | rfl | rfl <;> rfl
      rw [this]

theorem replicate_snoc_nil (run : Nat) (l : List (List Nat)) :
    List.replicate (run + 1) ([] : List Nat) ++ l = List.replicate run [] ++ ([] :: l) := by
  rw [List.replicate_succ']; simp

/-- the cells of a row are read back as the squares of the row -/
theorem parseBits_cellsOf (run : Nat) (sqs : List (List Piece)) (out : List (List Nat))
    (hlen : run + sqs.length ≤ 9) (hv : ∀ sq ∈ sqs, ValidSq sq) :
    parseBits (cellsOf run sqs) out = .ok (out ++ List.replicate run [] ++ sqs.map codes) := by
  induction sqs generalizing run out with
  | nil =>
    simp only [cellsOf, List.map_nil, List.append_nil]
    exact parseBits_flushRun run out (by simpa using hlen)
  | cons sq rest ih =>
    simp only [List.length_cons] at hlen
    have hvr : ∀ s ∈ rest, ValidSq s := fun s hs => hv s (by simp [hs])
    unfold cellsOf
    split
    · rename_i he
      have : sq = [] := by simpa using he
      subst this
      rw [ih (run + 1) out (by omega) hvr]
      simp only [List.map_cons, codes, List.map_nil, List.append_assoc]
      rw [replicate_snoc_nil]
    · rename_i hne
      have hne' : sq ≠ [] := by simpa using hne
      rw [parseBits_append, parseBits_flushRun run out (by omega)]
      simp only [parseBits, parseBit_sqText sq hne' (hv sq (by simp))]
      rw [ih 0 _ (by omega) hvr]
      simp

/-- not one of the three separators `,` `/` ` ` -/
def NoSep (b : UInt8) : Prop := b ≠ 44 ∧ b ≠ 47 ∧ b ≠ 32

theorem noSep_of_digit (b : UInt8) (h : isDigit b = true) : NoSep b := by
  refine ⟨?_, ?_, ?_⟩ <;> (intro e; subst e; revert h; decide)

theorem noSep_flushRun (run : Nat) (h : run ≤ 9) : ∀ c ∈ flushRun run, ∀ b ∈ c, NoSep b := by
  intro c hc b hb
  unfold flushRun at hc
  split at hc
  · cases hc
  · split at hc
    · simp only [List.mem_singleton] at hc; subst hc
      simp only [List.mem_singleton] at hb; subst hb
      exact ⟨by decide, by decide, by decide⟩
    · simp only [List.mem_singleton] at hc; subst hc
      rw [itoaNat_digit run h] at hb
      simp only [List.mem_cons, List.mem_nil_iff, or_false] at hb
      rcases hb with rfl | rfl
      · exact ⟨by decide, by decide, by decide⟩
      · exact noSep_of_digit _ (isDigit_digitByte run h)

theorem noSep_sqText (sq : List Piece) : ∀ b ∈ sqText sq, NoSep b := by
  intro b hb
  unfold sqText at hb
  rcases List.mem_append.mp hb with h | h
  · simp only [List.mem_map] at h
    obtain ⟨pc, _, rfl⟩ := h
    unfold pcByte; split <;> exact ⟨by decide, by decide, by decide⟩
  · cases sq with
    | nil => cases h
    | cons top rest =>
      simp only [markOf] at h
      cases hk : top.kind <;> rw [hk] at h <;> simp only [List.mem_singleton, List.mem_nil_iff] at h
      · subst h; exact ⟨by decide, by decide, by decide⟩
      · subst h; exact ⟨by decide, by decide, by decide⟩

theorem noSep_cellsOf (run : Nat) (sqs : List (List Piece)) (hlen : run + sqs.length ≤ 9) :
    ∀ c ∈ cellsOf run sqs, ∀ b ∈ c, NoSep b := by
  induction sqs generalizing run with
  | nil => exact noSep_flushRun run (by simpa using hlen)
  | cons sq rest ih =>
    simp only [List.length_cons] at hlen
    unfold cellsOf
    split
    · exact ih (run + 1) (by omega)
    · intro c hc
      rcases List.mem_append.mp hc with h | h
      · exact noSep_flushRun run (by omega) c h
      · rcases List.mem_cons.mp h with rfl | h
        · exact noSep_sqText sq
        · exact ih 0 (by omega) c h

theorem cellsOf_ne_nil (run : Nat) (sqs : List (List Piece)) (h : 1 ≤ run + sqs.length) : cellsOf run sqs ≠ [] := by
  induction sqs generalizing run with
  | nil =>
    simp only [List.length_nil, Nat.add_zero] at h
    unfold cellsOf flushRun
    have e0 : (run == 0) = false := by simp; omega
    simp only [e0, Bool.false_eq_true, if_false]
    split <;> simp
  | cons sq rest ih =>
    unfold cellsOf
    split
    · exact ih (run + 1) (by omega)
    · simp

/-- text of a row: its cells joined by `,` -/
def rowText (sqs : List (List Piece)) : Bytes := join cComma (cellsOf 0 sqs)

theorem tpsRowText_eq (sqs : List (List Piece)) : tpsRowText sqs = .ok (rowText sqs) := by
  unfold tpsRowText rowText; rw [rowBits_eq]

theorem parseRow_rowText (sqs : List (List Piece)) (h1 : 1 ≤ sqs.length) (h9 : sqs.length ≤ 9)
    (hv : ∀ sq ∈ sqs, ValidSq sq) : parseRow (rowText sqs) = .ok (sqs.map codes) := by
  unfold parseRow rowText
  rw [split_join cComma _ (cellsOf_ne_nil 0 sqs (by omega))
    (fun w hw b hb => (noSep_cellsOf 0 sqs (by omega) w hw b hb).1)]
  rw [parseBits_cellsOf 0 sqs [] (by omega) hv]
  simp

theorem noSep_join_comma (ws : List Bytes) (h : ∀ c ∈ ws, ∀ b ∈ c, NoSep b) :
    ∀ b ∈ join cComma ws, b ≠ 47 ∧ b ≠ 32 := by
  induction ws with
  | nil => intro b hb; cases hb
  | cons w ws ih =>
    cases ws with
    | nil =>
      intro b hb
      simp only [join] at hb
      exact (h w (by simp) b hb).2
    | cons w2 ws2 =>
      intro b hb
      simp only [join] at hb
      rcases List.mem_append.mp hb with hb | hb
      · exact (h w (by simp) b hb).2
      · rcases List.mem_cons.mp hb with rfl | hb
        · exact ⟨by decide, by decide⟩
        · exact ih (fun c hc => h c (by simp [hc])) b hb

theorem rowText_noSlash (sqs : List (List Piece)) (h9 : sqs.length ≤ 9) : ∀ b ∈ rowText sqs, b ≠ 47 ∧ b ≠ 32 :=
  noSep_join_comma _ (noSep_cellsOf 0 sqs (by omega))

/-- `parseRows` over the texts of the rows (top row first) stacks them bottom row first -/
theorem parseRows_rowTexts (rows : List (List (List Piece))) (acc : List (List (List Nat)))
    (h : ∀ r ∈ rows, 1 ≤ r.length ∧ r.length ≤ 9 ∧ ∀ sq ∈ r, ValidSq sq) :
    parseRows (rows.map rowText) acc = .ok (rows.reverse.map (fun r => r.map codes) ++ acc) := by
  induction rows generalizing acc with
  | nil => rfl
  | cons r rows ih =>
    obtain ⟨h1, h9, hv⟩ := h r (by simp)
    simp only [List.map_cons, parseRows, parseRow_rowText r h1 h9 hv]
    rw [ih _ (fun r' hr' => h r' (by simp [hr']))]
    simp

theorem noSpace_join_slash (ws : List Bytes) (h : ∀ w ∈ ws, ∀ b ∈ w, b ≠ 47 ∧ b ≠ 32) :
    ∀ b ∈ join cSlash ws, b ≠ 32 := by
  induction ws with
  | nil => intro b hb; cases hb
  | cons w ws ih =>
    cases ws with
    | nil =>
      intro b hb
      simp only [join] at hb
      exact (h w (by simp) b hb).2
    | cons w2 ws2 =>
      intro b hb
      simp only [join] at hb
      rcases List.mem_append.mp hb with hb | hb
      · exact (h w (by simp) b hb).2
      · rcases List.mem_cons.mp hb with rfl | hb
        · decide
        · exact ih (fun c hc => h c (by simp [hc])) b hb

theorem wrap64_id (v : Int) (h0 : minInt64 ≤ v) (h1 : v ≤ maxInt64) : wrap64 v = v := by
  unfold wrap64; unfold minInt64 at h0; unfold maxInt64 at h1; omega

/-- `ParseTPS` on a text written from rows of valid squares calls `FromSquares` on exactly those squares -/
theorem parseTPS_tpsText (basis : Array W) (rows : List (List (List Piece))) (mv : Int)
    (hn3 : 3 ≤ rows.length) (hn8 : rows.length ≤ 8)
    (hrow : ∀ r ∈ rows, r.length = rows.length ∧ ∀ sq ∈ r, ValidSq sq) (h0 : 0 ≤ mv) (h1 : mv ≤ maxInt64) :
    parseTPS basis (tpsText (rows.map rowText) mv) =
      Pos.fromSquares basis { size := rows.length, pieces := 0, capstones := 0, blackWinsTies := false }
        (rows.reverse.map (fun r => r.map codes)).flatten mv := by
  have hrow' : ∀ r ∈ rows, 1 ≤ r.length ∧ r.length ≤ 9 ∧ ∀ sq ∈ r, ValidSq sq := by
    intro r hr; obtain ⟨a, b⟩ := hrow r hr; exact ⟨by omega, by omega, b⟩
  have hboard : ∀ b ∈ join cSlash (rows.map rowText), b ≠ 32 := by
    apply noSpace_join_slash
    intro w hw
    obtain ⟨r, hr, rfl⟩ := List.mem_map.mp hw
    exact rowText_noSlash r (by have := (hrow r hr).1; omega)
  -- the number
  have hN : 1 ≤ mv.tdiv 2 + 1 := by have := Int.tdiv_nonneg h0 (by omega : (0:Int) ≤ 2); omega
  have hdiv : mv.tdiv 2 = mv / 2 := Int.tdiv_eq_ediv_of_nonneg h0
  have hitoa : itoa (mv.tdiv 2 + 1) = itoaNat (mv.tdiv 2 + 1).toNat := by
    unfold itoa; have : ¬ (mv.tdiv 2 + 1 < 0) := by omega
    simp [this]
  obtain ⟨_, hdig, _, _⟩ := itoaNat_spec (mv.tdiv 2 + 1).toNat
  have hnum : ∀ b ∈ itoa (mv.tdiv 2 + 1), b ≠ 32 := by
    intro b hb; rw [hitoa] at hb; exact (noSep_of_digit b (hdig b hb)).2.2
  have hatoi : atoi (itoa (mv.tdiv 2 + 1)) = some (mv.tdiv 2 + 1) := by
    rw [hitoa, atoi_itoaNat _ (by unfold maxInt64 at *; omega)]
    congr 1; omega
  unfold parseTPS tpsText
  simp only []
  rw [split_append_sep cSpace _ _ hboard]
  have hturn : ∀ b ∈ [if mv % 2 == 0 then c1 else c2], b ≠ cSpace := by
    intro b hb; simp only [List.mem_singleton] at hb; subst hb; split <;> decide
  have e : (if mv % 2 == 0 then c1 else c2) :: cSpace :: itoa (mv.tdiv 2 + 1) =
      [if mv % 2 == 0 then c1 else c2] ++ cSpace :: itoa (mv.tdiv 2 + 1) := rfl
  rw [e, split_append_sep cSpace _ _ hturn, split_nosep cSpace _ hnum]
  simp only []
  have hturnv : atoi [if mv % 2 == 0 then c1 else c2] = some (if mv % 2 == 0 then 1 else 2) := by
    split <;> rfl
  rw [hturnv, hatoi]
  simp only []
  have hnot : ¬ ((if mv % 2 == 0 then (1:Int) else 2) ≠ 1 ∧ (if mv % 2 == 0 then (1:Int) else 2) ≠ 2) := by
    split <;> simp
  simp only [hnot, if_false]
  have hmove : wrap64 (2 * (mv.tdiv 2 + 1 - 1) + ((if mv % 2 == 0 then (1:Int) else 2) - 1)) = mv := by
    rw [hdiv]
    have hm : 2 * (mv / 2 + 1 - 1) + ((if mv % 2 == 0 then (1:Int) else 2) - 1) = mv := by
      split
      · rename_i h; have : mv % 2 = 0 := by simpa using h
        omega
      · rename_i h; have : ¬ mv % 2 = 0 := by simpa using h
        omega
    rw [hm]; exact wrap64_id mv (by unfold minInt64; omega) h1
  rw [hmove]
  have hslash : ∀ w ∈ rows.map rowText, ∀ b ∈ w, b ≠ cSlash := by
    intro w hw b hb
    obtain ⟨r, hr, rfl⟩ := List.mem_map.mp hw
    exact (rowText_noSlash r (by have := (hrow r hr).1; omega) b hb).1
  have hne : rows.map rowText ≠ [] := by
    intro e; have : rows = [] := by simpa using e
    subst this; simp at hn3
  rw [split_join cSlash _ hne hslash, parseRows_rowTexts rows [] hrow']
  simp only [List.append_nil, List.length_map, List.length_reverse]
  have hsz : ¬ (rows.length < 3 ∨ rows.length > 8) := by omega
  simp only [hsz, if_false]
  have hall : (List.map (fun r => List.map codes r) rows.reverse).any (fun r => r.length != rows.length) = false := by
    rw [List.any_eq_false]
    intro r hr
    obtain ⟨r0, hr0, rfl⟩ := List.mem_map.mp hr
    have := (hrow r0 (List.mem_reverse.mp hr0)).1
    simp [this]
  simp only [hall, Bool.false_eq_true, if_false]


end Tak.TPS
