import TakVerif.Proofs.DFPNGen

/-! The recursion of the depth-first proof-number search (`mid` and its loop, `Impl/DFPN.lean`) keeps
the invariant: sound table in, sound table and sound entry out — for any fuel, any thresholds, any
stack, any killer moves, any table size (with replacement). -/
namespace C06
open Tak Tak.PN Tak.DFPN Spec.Game

variable {S M : Type} {G : Game S M} {hash : S → UInt64} {threats : S → Bool × Bool} {att : Color}

/-- a claim about `g` is a claim about every unfinished position of `Dom` with the same hash -/
theorem EOK.transfer {two : Bool} {Dom : S → Prop} (hk : DfpnOK G hash threats att two Dom) {clean : Bool}
    {g p : S} {b : PNs} (hg : Dom g) (hp : Dom p) (hog : G.over g = none) (hop : G.over p = none)
    (hh : hash p = hash g) (h : EOK G att clean g b) : EOK G att clean p b := by
  obtain ⟨htm, hiff⟩ := hk.hashOK p g hp hg hop hog hh
  obtain ⟨hs, h1, h2, h3, h4⟩ := h
  refine ⟨hs, ?_, ?_, ?_, ?_⟩
  · intro ht hz; exact hiff.mpr (h1 (htm ▸ ht) hz)
  · intro ht hz; exact hiff.mpr (h2 (htm ▸ ht) hz)
  · intro hc ht hz w; exact h3 hc (htm ▸ ht) hz (hiff.mp w)
  · intro hc ht hz w; exact h4 hc (htm ▸ ht) hz (hiff.mp w)

/-- `dfpnTable.store` (with its replacement rule) keeps the table sound -/
theorem store_ok {two : Bool} {Dom : S → Prop} {st st' : St M} {e : Entry M}
    (ht : TableOK G hash att two Dom st)
    (he : ∀ p, Dom p → G.over p = none → hash p = e.hash → EOK G att (cleanOf two st) p e.bounds)
    (hrun : store st e = .ok st') : TableOK G hash att two Dom st' ∧ st'.ghostRep = st.ghostRep := by
  unfold store at hrun
  split at hrun
  · cases hrun
  · simp only at hrun
    split at hrun
    · injection hrun with hrun
      subst hrun
      refine ⟨?_, rfl⟩
      intro i p hp ho hh
      have hslot : ({ st with table := st.table.insert (e.hash.toNat % st.tableLen) e } : St M).slot i =
          if compare (e.hash.toNat % st.tableLen) i = .eq then e else st.slot i := by
        simp only [St.slot, Std.TreeMap.getD_insert]
      rw [hslot] at hh ⊢
      show EOK G att (cleanOf two st) p _
      split
      · rename_i hi; rw [if_pos hi] at hh; exact he p hp ho hh
      · rename_i hi; rw [if_neg hi] at hh; exact ht i p hp ho hh
    · injection hrun with hrun
      subst hrun
      exact ⟨ht, rfl⟩

/-- what a call of `mid` (or of its loop) on `g` guarantees -/
structure MidPost (two : Bool) (Dom : S → Prop) (g : S) (st : St M) (h : UInt64) (st' : St M)
    (e : Entry M) : Prop where
  table : TableOK G hash att two Dom st'
  ghost : st.ghostRep = true → st'.ghostRep = true
  hash : e.hash = h
  eok : EOK G att (cleanOf two st') g e.bounds

theorem clean_mono {two : Bool} {st st' : St M} (h : st.ghostRep = true → st'.ghostRep = true) :
    cleanOf two st' = true → cleanOf two st = true := by
  simp only [cleanOf, Bool.and_eq_true, Bool.not_eq_true']
  rintro ⟨h1, h2⟩
  refine ⟨h1, ?_⟩
  cases hg : st.ghostRep
  · rfl
  · rw [h hg] at h2; cases h2

theorem mem_set_cases {α : Type} (a : Array α) (i : Nat) (x c : α) (h : c ∈ (a.setIfInBounds i x).toList) :
    c ∈ a.toList ∨ c = x := by
  rw [Array.toList_setIfInBounds] at h
  exact List.mem_or_eq_of_mem_set h

theorem mem_set_cover {α : Type} (a : Array α) (i : Nat) (x y c : α) (hi : a[i]? = some y) (hc : c ∈ a.toList) :
    c ∈ (a.setIfInBounds i x).toList ∨ (c = y ∧ x ∈ (a.setIfInBounds i x).toList) := by
  rw [Array.toList_setIfInBounds]
  obtain ⟨j, hj, hjc⟩ := List.getElem_of_mem hc
  have hil : i < a.toList.length := by
    simp only [Array.length_toList]
    exact (Array.getElem?_eq_some_iff.mp hi).1
  by_cases hij : i = j
  · subst hij
    right
    constructor
    · have : a.toList[i]? = some y := by rw [Array.getElem?_toList]; exact hi
      rw [List.getElem?_eq_getElem hj, hjc] at this
      exact Option.some.inj this
    · exact List.mem_set (by simpa using hil) _
  · left
    have : (a.toList.set i x)[j]? = some c := by
      rw [List.getElem?_set_ne hij, List.getElem?_eq_getElem hj, hjc]
    exact List.mem_of_getElem? this

/-- the principal-variation move of the entry, if any, is the move of every child with δ = 0 -/
def PvInv (cs : List (Child S M)) (pv : Option M) : Prop :=
  ∀ m, pv = some m → ∀ c ∈ cs, c.data.bounds.delta = 0 → c.move = m

/-- the move stored with a proof for the attacker begins a forced win -/
def PvGood (G : Game S M) (att : Color) (g : S) (e : Entry M) : Prop :=
  G.toMove g = att → e.bounds.phi = 0 → ∀ m, e.pv = some m →
    m ∈ G.moves g ∧ ∃ s', G.apply g m = some s' ∧ PlainWin G att s'

variable [DecidableEq M] (scale : UInt32 → UInt32)

theorem mid_loop_ok {two : Bool} {Dom : S → Prop} (hk : DfpnOK G hash threats att two Dom) (fuel : Nat) :
    (∀ (st : St M) (stack : List (Frame S M)) (g : S) (bounds : PNs) (current : Entry M) (st' : St M)
        (e : Entry M) (w : UInt64),
      Dom g → G.over g = none → TableOK G hash att two Dom st → current.hash = hash g →
      EOK G att (cleanOf two st) g current.bounds → bounds.delta.toNat ≤ 2 ^ 30 →
      mid G hash threats scale att fuel st stack g bounds current = .ok (st', e, w) →
      MidPost (G := G) (hash := hash) (att := att) two Dom g st (hash g) st' e ∧
        (current.pv = none → PvGood G att g e)) ∧
    (∀ (st : St M) (stack : List (Frame S M)) (g : S) (bounds : PNs) (current : Entry M)
        (children : Array (Child S M)) (lw : UInt64) (st' : St M) (e : Entry M) (w : UInt64),
      Dom g → G.over g = none → TableOK G hash att two Dom st → current.hash = hash g →
      (∀ c ∈ children.toList, ChildOK (G := G) (hash := hash) (att := att) (cleanOf two st) g c) →
      DCover (G := G) g children.toList → bounds.delta.toNat ≤ 2 ^ 30 →
      midLoop G hash threats scale att fuel st stack bounds current children lw = .ok (st', e, w) →
      MidPost (G := G) (hash := hash) (att := att) two Dom g st (hash g) st' e ∧
        (SameMove children.toList → PvInv children.toList current.pv → PvGood G att g e)) := by
  induction fuel with
  | zero =>
    constructor
    · intro st stack g bounds current st' e w _ _ _ _ _ _ hrun
      simp only [mid] at hrun
      cases hrun
    · intro st stack g bounds current children lw st' e w _ _ _ _ _ _ _ hrun
      simp only [midLoop] at hrun
      cases hrun
  | succ fuel ih =>
    obtain ⟨ihMid, ihLoop⟩ := ih
    constructor
    · -- `mid`
      intro st stack g bounds current st' e w hg ho ht hh hcur hb hrun
      simp only [mid] at hrun
      split at hrun
      · -- thresholds already exceeded
        simp only [Except.ok.injEq, Prod.mk.injEq] at hrun
        obtain ⟨rfl, rfl, _⟩ := hrun
        exact ⟨⟨ht, fun h => h, hh, hcur⟩, fun hpv _ _ m hm => by rw [hpv] at hm; cases hm⟩
      · split at hrun
        · -- repetition on the path
          simp only [Except.ok.injEq, Prod.mk.injEq] at hrun
          obtain ⟨rfl, rfl, _⟩ := hrun
          refine ⟨⟨ht.taint rfl rfl, fun _ => rfl, hh, ?_⟩, fun hpv _ _ m hm => by
            simp only [hpv] at hm; cases hm⟩
          have : ∀ s : St M, s.ghostRep = true → cleanOf two s = false := by
            intro s h; simp [cleanOf, h]
          rw [this _ rfl]
          exact repetition_eok hk.alt hk.attWB g
        · split at hrun
          · cases hrun
          · rename_i st1 children hgen
            obtain ⟨hsame, hsm, hch, _, hcov⟩ := genChildren_ok hk _ hg (G.moves g) st #[] st1 children
              (fun m hm => hm) ht (fun c hc => by simp at hc) (fun c hc => by simp at hc) hgen
            have ht1 : TableOK G hash att two Dom st1 := ht.congr hsame.1 hsame.2.1
            have hcl := hsame.clean two
            split at hrun
            · cases hrun
            · rename_i st2 cur2 lw2 hloop
              obtain ⟨post, hpv⟩ := ihLoop st1 stack g bounds current children 1 st2 cur2 lw2 hg ho ht1 hh
                (by rw [hcl]; exact hch) hcov hb hloop
              split at hrun
              · cases hrun
              · rename_i st4 hstore
                simp only [Except.ok.injEq, Prod.mk.injEq] at hrun
                obtain ⟨rfl, rfl, _⟩ := hrun
                -- the state handed to `store`: only the killers differ from `st2`
                generalize hst3 : (if (cur2.bounds.phi == 0) = true then
                    ({ st2 with killers := (st2.killers ++ Array.replicate (stack.length + 1 - st2.killers.size) none).setIfInBounds stack.length cur2.pv } : St M) else st2) = st3 at hstore
                have h3t : st3.table = st2.table := by rw [← hst3]; split <;> rfl
                have h3g : st3.ghostRep = st2.ghostRep := by rw [← hst3]; split <;> rfl
                have ht3 : TableOK G hash att two Dom st3 := post.table.congr h3t h3g
                have hc3 : cleanOf two st3 = cleanOf two st2 := by simp only [cleanOf, h3g]
                obtain ⟨ht4, hg4⟩ := store_ok ht3 (fun p hp hop hhp => by
                  rw [hc3]
                  exact post.eok.transfer hk hg hp ho hop (by rw [hhp, post.hash])) hstore
                refine ⟨⟨ht4, fun h => ?_, post.hash, ?_⟩, fun hnone => hpv hsm (fun m hm => by rw [hnone] at hm; cases hm)⟩
                · rw [hg4, h3g]; exact post.ghost (by rw [hsame.2.1]; exact h)
                · have : cleanOf two st4 = cleanOf two st2 := by simp only [cleanOf, hg4, h3g]
                  rw [this]; exact post.eok
    · -- the loop of `mid`
      intro st stack g bounds current children lw st' e w hg ho ht hh hch hcov hb hrun
      simp only [midLoop] at hrun
      have hnode : EOK G att (cleanOf two st) g (computePNs children.toList) :=
        computePNs_eok hk.alt hk.attWB _ ho _ hch hcov
      split at hrun
      · simp only [Except.ok.injEq, Prod.mk.injEq] at hrun
        obtain ⟨rfl, rfl, _⟩ := hrun
        refine ⟨⟨ht, fun h => h, hh, hnode⟩, ?_⟩
        intro _ hpv htm hz m hm
        obtain ⟨c, hc, hcz⟩ := (computePNs_phi_zero children.toList).mp hz
        have hcm := hpv m hm c hc hcz
        have hck := hch c hc
        subst hcm
        exact ⟨hck.mem, c.g, hck.app, hck.eok.2.2.1 ((toMove_child hk.alt hk.attWB hck.app).1 htm) hcz⟩
      · rename_i hnex
        -- not exceeded: δ of the node is below the δ-threshold, hence below ∞
        have hdlt : (computePNs children.toList).delta.toNat < 2 ^ 30 := by
          simp only [PNs.exceeded, Bool.or_eq_true, decide_eq_true_eq, not_or, ge_iff_le,
            UInt32.le_iff_toNat_le, Nat.not_le] at hnex
          omega
        have hphi : ∀ c ∈ children.toList, c.data.bounds.phi.toNat ≤ 2 ^ 30 := fun c hc => (hch c hc).eok.1.1
        obtain ⟨_, hge, _⟩ := computePNs_delta children.toList hphi
        have hphilt : ∀ c ∈ children.toList, c.data.bounds.phi ≠ DFPN.infinity := by
          intro c hc hinf
          rw [u32_eq_inf_iff] at hinf
          have := hge c hc
          omega
        -- so generation did not stop early
        have hcov' : ∀ m ∈ G.moves g, ∀ s', G.apply g m = some s' → ∃ c ∈ children.toList, c.move = m := by
          rcases hcov with hcov | ⟨c, hc, hcz⟩
          · exact hcov
          · exact absurd ((hch c hc).eok.1.2.2 hcz) (hphilt c hc)
        split at hrun
        · cases hrun
        · rename_i best cb hsel
          obtain ⟨hcb, c, hc, hclt, hcmin⟩ := selectChild_spec scale children bounds _ best cb hsel
          simp only [hc] at hrun
          have hcm : c ∈ children.toList := by
            rw [← Array.getElem?_toList] at hc
            exact List.mem_of_getElem? hc
          have hck := hch c hcm
          have hoc : G.over c.g = none := by
            rcases hck.live with h | h | h
            · exact h
            · exact absurd h (hphilt c hcm)
            · rw [u32_eq_inf_iff] at h; omega
          have hdc : Dom c.g := hk.closed g c.g hg ⟨c.move, hck.mem, hck.app⟩
          split at hrun
          · cases hrun
          · rename_i st1 newEntry work hmid
            obtain ⟨post1, _⟩ := ihMid st _ c.g cb c.data st1 newEntry work hdc hoc ht hck.hash hck.eok hcb hmid
            have hmono := clean_mono (two := two) post1.ghost
            have post2 : MidPost (G := G) (hash := hash) (att := att) two Dom g st1 (hash g) st' e ∧
                (SameMove (children.setIfInBounds best { c with data := newEntry }).toList →
                  PvInv (children.setIfInBounds best { c with data := newEntry }).toList (some c.move) →
                  PvGood G att g e) := by
              refine ihLoop st1 stack g bounds _ _ _ st' e w hg ho post1.table ?_ ?_ ?_ hb hrun
              · exact hh
              · intro c' hc'
                rcases mem_set_cases _ _ _ _ hc' with hc' | heq
                · exact (hch c' hc').mono hmono
                · subst heq
                  exact ⟨hck.mem, hck.app, post1.hash, post1.eok, Or.inl hoc⟩
              · left
                intro m hm s' hs'
                obtain ⟨c', hc', hcm'⟩ := hcov' m hm s' hs'
                rcases mem_set_cover children best { c with data := newEntry } c c' hc hc' with h | ⟨heq, h⟩
                · exact ⟨c', h, hcm'⟩
                · rw [heq] at hcm'
                  exact ⟨_, h, hcm'⟩
            obtain ⟨post2, hpv2⟩ := post2
            refine ⟨⟨post2.table, fun h => post2.ghost (post1.ghost h), post2.hash, post2.eok⟩, ?_⟩
            intro hsm _
            -- every child with δ = 0 after the update carries the move just searched
            have hz : ∀ c' ∈ (children.setIfInBounds best { c with data := newEntry }).toList,
                c'.data.bounds.delta = 0 → c'.move = c.move := by
              intro c' hc' hcz'
              rcases mem_set_cases _ _ _ _ hc' with hc' | heq
              · have hcz : c.data.bounds.delta = 0 := by
                  have := hcmin c' hc'
                  rw [u32_eq_zero_iff] at hcz' ⊢
                  omega
                exact hsm c' hc' c hcm hcz' hcz
              · rw [heq]
            exact hpv2 (fun a ha b hb haz hbz => by rw [hz a ha haz, hz b hb hbz])
              (fun m hm c' hc' hcz' => by injection hm with hm; rw [← hm]; exact hz c' hc' hcz')

end C06
