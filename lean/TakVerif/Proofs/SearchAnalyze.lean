import TakVerif.Proofs.SearchPvs

/-! `Analyze` without a table in a precise configuration: the reported value is the exhaustive negamax
value at the reported depth and the first PV move attains it. -/
namespace Search
open Tak (Err)

variable {P M : Type}

/-- evaluations stay inside the root window `(MinEval-1, MaxEval+1)` (C18 for the real evaluators) -/
def EvalBounded (g : Game P M) : Prop := ∀ q, Facts.minEval ≤ g.eval q ∧ g.eval q ≤ Facts.maxEval

theorem negamax_bounds {g : Game P M} (hb : EvalBounded g) :
    ∀ d p, Live g d p → Facts.minEval ≤ negamax g d p ∧ negamax g d p ≤ Facts.maxEval := by
  intro d
  induction d with
  | zero => intro p _; exact hb p
  | succ d ih =>
    intro p hl
    by_cases hov : g.over p = true
    · rw [negamax_over g _ p hov]; exact hb p
    · have hov' : g.over p = false := by simpa using hov
      simp only [Live] at hl
      rcases hl with h | ⟨hne, hall⟩
      · exact absurd h hov
      · rw [negamax_succ g d p hov']
        obtain ⟨x, hx, hmx⟩ := maxOver_attained (fun c => -(negamax g d c.2)) (Facts.minEval - 1) (kids g p) hne
        have := ih x.2 (hall x hx)
        rw [hmx]
        simp only [Facts.minEval, Facts.maxEval] at *
        omega

/-- the root call of one deepening iteration returns the exact value and a PV whose head attains it -/
theorem root_exact [DecidableEq M] {g : Game P M} (hg : GameOK g) (hb : EvalBounded g) {cfg : SOpts} (hpr : Precise cfg)
    {o : Oracle M} (hnc : NoCancel o) (hord : OrderOK o)
    (p : P) (depth : Int) (hd : 1 ≤ depth) (hov : g.over p = false) (hl : Live g depth.toNat p)
    (pv : List M) (D : Int × Bool) (s : Eng M) (hs : NT D s) :
    Sat (pvSearch g cfg o 0 p depth pv (Facts.minEval - 1) (Facts.maxEval + 1) s)
      (fun x => NT D x.2 ∧ x.1.2 = negamax g depth.toNat p ∧ Attains g p depth.toNat x.1) := by
  unfold pvSearch
  have hbd := negamax_bounds hb depth.toNat p hl
  have hab : Facts.minEval - 1 < Facts.maxEval + 1 := by simp only [Facts.minEval, Facts.maxEval]; omega
  refine ((search_ok hg hpr hnc hord _).1 D p 0 depth pv _ _ s hs hab hl).mono ?_
  rintro ⟨r, s'⟩ ⟨hnt, hpc, hat⟩
  dsimp only at hnt hpc hat ⊢
  unfold PC at hpc
  have hv : r.2 = negamax g depth.toNat p := by omega
  refine ⟨hnt, hv, hat (by omega) hov (by omega) (by omega)⟩


/-- the loop state reports the exact value at its depth and a first move attaining it -/
def Good (g : Game P M) (p : P) (a : ALoop M) : Prop :=
  a.v = negamax g a.st.depth.toNat p ∧ Attains g p a.st.depth.toNat (some a.ms, a.v)

/-- what is known of the loop state before iteration `i` (no table: `base = 0`) -/
def LoopInv (g : Game P M) (cfg : Cfg) (p : P) (i : Int) (a : ALoop M) (s : Eng M) : Prop :=
  s.hasTable = false ∧ a.st.depth = i - 1 ∧ a.st.canceled = false ∧
  (2 ≤ i → i - 1 ≤ cfg.depth ∧ Good g p a)

theorem analyzeStep_spec [DecidableEq M] {g : Game P M} (hg : GameOK g) (hb : EvalBounded g) {cfg : Cfg}
    (hpr : Precise cfg.opts) {o : Oracle M} (hnc : NoCancel o) (hord : OrderOK o)
    (p : P) (hov : g.over p = false) (hlive : ∀ d : Nat, 1 ≤ d → (d : Int) ≤ cfg.depth → Live g d p)
    (i : Int) (hi : 1 ≤ i) (hic : i + 0 ≤ cfg.depth) (a : ALoop M) (s : Eng M) (hs : s.hasTable = false) :
    Sat (analyzeStep g cfg o p 0 i a s) (fun x =>
      match x with
      | .go a' s' => LoopInv g cfg p (i + 1) a' s'
      | .done a' s' => s'.hasTable = false ∧ a'.st.canceled = false ∧ a'.st.depth = i ∧ Good g p a'
      | .cancelled _ => False) := by
  unfold analyzeStep
  have hd : (i + 0).toNat = i.toNat := by simp
  have hl : Live g (i + 0).toNat p := by
    rw [hd]; exact hlive i.toNat (by omega) (by omega)
  have hroot := root_exact hg hb hpr hnc hord p (i + 0) (by omega) hov hl a.ms (i + 0, false)
    { s with st := { depth := i + 0 } } ⟨hs, rfl⟩
  cases hr : pvSearch g cfg.opts o 0 p (i + 0) a.ms (Facts.minEval - 1) (Facts.maxEval + 1)
      { s with st := { depth := i + 0 } } with
  | error e => exact Sat.error
  | ok r =>
    obtain ⟨⟨next, nv⟩, s1⟩ := r
    obtain ⟨hnt, hv, hat⟩ := hroot _ hr
    dsimp only at hnt hv hat
    obtain ⟨m, rest, c, hnext, hap, hval⟩ := hat
    dsimp only at hnext hval
    subst hnext
    apply Sat.ok
    unfold iterEnd
    dsimp only
    rw [load_nc hnc]
    simp only [Bool.false_eq_true, if_false]
    have hdep : s1.st.depth = i := by have := congrArg Prod.fst hnt.2; dsimp only at this; omega
    have hcan : s1.st.canceled = false := congrArg Prod.snd hnt.2
    have hgood : Good g p (iterAcc i a (m :: rest) nv { s1 with loads := s1.loads + 1 }) := by
      unfold Good iterAcc
      have h1 : (Stats.merge s1.st a.st).depth = i := hdep
      dsimp only
      rw [h1]
      rw [hd] at hv hval
      exact ⟨hv, m, rest, c, rfl, hap, hval⟩
    have hdm : (iterAcc i a (m :: rest) nv { s1 with loads := s1.loads + 1 }).st.depth = i := hdep
    have hcm : (iterAcc i a (m :: rest) nv { s1 with loads := s1.loads + 1 }).st.canceled = false := hcan
    rcases iterDone_cases cfg 0 i a (m :: rest) nv { s1 with loads := s1.loads + 1 } with h | h
    · rw [h]
      exact ⟨hnt.1, by rw [hdm]; omega, hcm, fun _ => ⟨by omega, hgood⟩⟩
    · rw [h]
      exact ⟨hnt.1, hcm, hdm, hgood⟩

theorem analyzeLoop_spec [DecidableEq M] {g : Game P M} (hg : GameOK g) (hb : EvalBounded g) {cfg : Cfg}
    (hpr : Precise cfg.opts) {o : Oracle M} (hnc : NoCancel o) (hord : OrderOK o)
    (p : P) (hov : g.over p = false) (hlive : ∀ d : Nat, 1 ≤ d → (d : Int) ≤ cfg.depth → Live g d p) :
    ∀ (n : Nat) (i : Int) (a : ALoop M) (s : Eng M), 1 ≤ i → cfg.depth + 1 ≤ i + n → LoopInv g cfg p i a s →
      Sat (analyzeLoop g cfg o p 0 n i a s) (fun x =>
        x.2.hasTable = false ∧ x.1.st.canceled = false ∧
        (1 ≤ cfg.depth → 1 ≤ x.1.st.depth ∧ x.1.st.depth ≤ cfg.depth ∧ Good g p x.1)) := by
  intro n
  induction n with
  | zero =>
    intro i a s hi hfuel hinv
    simp only [analyzeLoop]
    obtain ⟨hs, hd, hc, hgd⟩ := hinv
    refine Sat.ok ⟨hs, hc, fun h1 => ?_⟩
    have := hgd (by omega)
    dsimp only
    exact ⟨by omega, by omega, this.2⟩
  | succ n ih =>
    intro i a s hi hfuel hinv
    simp only [analyzeLoop]
    obtain ⟨hs, hd, hc, hgd⟩ := hinv
    split
    · rename_i hexit
      simp only [Bool.not_eq_true', decide_eq_false_iff_not, Int.not_le] at hexit
      refine Sat.ok ⟨hs, hc, fun h1 => ?_⟩
      have := hgd (by omega)
      dsimp only
      exact ⟨by omega, by omega, this.2⟩
    · rename_i hgo
      simp only [Bool.not_eq_true', decide_eq_false_iff_not, Int.not_le] at hgo
      have hstep := analyzeStep_spec hg hb hpr hnc hord p hov hlive i hi (by omega) a s hs
      cases hr : analyzeStep g cfg o p 0 i a s with
      | error e => exact Sat.error
      | ok x =>
        have hx := hstep x hr
        cases x with
        | cancelled s' => exact absurd hx id
        | done a' s' =>
          dsimp only at hx ⊢
          obtain ⟨h1, h2, h3, h4⟩ := hx
          refine Sat.ok ⟨h1, h2, fun _ => ⟨?_, ?_, h4⟩⟩ <;> dsimp only <;> omega
        | go a' s' =>
          dsimp only at hx ⊢
          exact ih (i + 1) a' s' (by omega) (by omega) hx

/-- **`Analyze` is exact** without a table in a precise configuration, for every move order: the reported value
is the exhaustive negamax value of the position at the reported depth, the reported depth lies in
`1..Cfg.Depth`, the search is not marked cancelled, and the first move of the PV is legal and attains the value. -/
theorem analyze_exact_nt [DecidableEq M] {g : Game P M} (hg : GameOK g) (hb : EvalBounded g) {cfg : Cfg}
    (hpr : Precise cfg.opts) {o : Oracle M} (hnc : NoCancel o) (hord : OrderOK o)
    (p : P) (hov : g.over p = false) (hdepth : 1 ≤ cfg.depth)
    (hlive : ∀ d : Nat, 1 ≤ d → (d : Int) ≤ cfg.depth → Live g d p)
    (s : Eng M) (hs : s.hasTable = false) :
    Sat (analyze g cfg o p s) (fun x =>
      let ms := x.1.1; let v := x.1.2.1; let st := x.1.2.2
      x.2.hasTable = false ∧ st.canceled = false ∧ 1 ≤ st.depth ∧ st.depth ≤ cfg.depth ∧
      v = negamax g st.depth.toNat p ∧
      ∃ m rest c, ms = m :: rest ∧ g.apply p m = .ok c ∧ v = -(negamax g (st.depth.toNat - 1) c)) := by
  unfold analyze
  have hget : ttGet { s with loads := 0, evals := 0, sorts := 0, rnds := 0, wlog := [] } (g.hash p) = .ok none := by
    unfold ttGet; simp [hs]
  rw [hget]
  show Sat (analyzeFrom g cfg o p (seedOf none) { s with loads := 0, evals := 0, sorts := 0, rnds := 0, wlog := [] }) _
  unfold analyzeFrom seedOf
  dsimp only
  have hfuel : cfg.depth + 1 ≤ (1 : Int) + ((cfg.depth - 0).toNat : Nat) := by omega
  have hinv : LoopInv g cfg p 1 (⟨[], 0, { depth := 0 }, 0, 0⟩ : ALoop M)
      { s with loads := 0, evals := 0, sorts := 0, rnds := 0, wlog := [] } :=
    ⟨hs, rfl, rfl, fun h => by omega⟩
  have hloop := analyzeLoop_spec hg hb hpr hnc hord p hov hlive (cfg.depth - 0).toNat 1 _ _ (by omega) hfuel hinv
  cases hr : analyzeLoop g cfg o p 0 (cfg.depth - 0).toNat 1 (⟨[], 0, { depth := 0 }, 0, 0⟩ : ALoop M)
      { s with loads := 0, evals := 0, sorts := 0, rnds := 0, wlog := [] } with
  | error e => exact Sat.error
  | ok x =>
    obtain ⟨a, s'⟩ := x
    obtain ⟨h1, h2, h3⟩ := hloop _ hr
    obtain ⟨h4, h5, hv, m, rest, c, hms, hap, hval⟩ := h3 hdepth
    dsimp only at h1 h2 h4 h5 hv hms hval ⊢
    refine Sat.ok ⟨h1, h2, h4, h5, hv, m, rest, c, ?_, hap, hval⟩
    simpa using hms


/-! ### AnalyzeAll -/

/-- every listed line starts with a legal move whose child attains `v`; the PV itself is listed -/
def AAInv (g : Game P M) (p : P) (dn : Nat) (v : Int) (pv : List M) (K : Int × Bool) (out : List (List M)) (s : Eng M) :
    Prop :=
  NT K s ∧ pv ∈ out ∧
  ∀ line ∈ out, ∃ m rest c, line = m :: rest ∧ g.apply p m = .ok c ∧ v = -(negamax g dn c)

/-- a child that attains `v` is the child of the first move of some listed line -/
def AACov (g : Game P M) (p : P) (dn : Nat) (v : Int) (out : List (List M)) (c : P) : Prop :=
  v = -(negamax g dn c) → ∃ line ∈ out, ∃ m rest, line = m :: rest ∧ g.apply p m = .ok c

theorem aaBody_ok [DecidableEq M] {g : Game P M} (hg : GameOK g) {cfg : SOpts} (hpr : Precise cfg)
    {o : Oracle M} (hnc : NoCancel o) (hord : OrderOK o)
    (p : P) (depth : Int) (pv0 : M) (rest : List M) (v : Int) (K : Int × Bool)
    (hl : ∀ m c, g.apply p m = .ok c → Live g (depth - 1).toNat c) :
    BodyOK g p (aaBody g cfg o depth pv0 rest v) (AAInv g p (depth - 1).toNat v (pv0 :: rest) K)
      (AACov g p (depth - 1).toNat v) (fun _ _ => False) (fun _ _ => False) := by
  intro m c out s hap hinv
  obtain ⟨hnt, hpv, hlines⟩ := hinv
  unfold aaBody
  apply Sat.bind
  intro sm _
  apply Sat.bind
  unfold pvSearch
  refine Sat.mono ((search_ok hg hpr hnc hord _).1 K c 1 (depth - 1) rest (-v - 1) (-v + 1)
    { s with stackM := sm } hnt (by omega) (hl m c hap)) ?_
  rintro ⟨⟨ms, r⟩, s'⟩ ⟨hnt', hpc, _⟩
  dsimp only at hnt' hpc ⊢
  unfold PC at hpc
  by_cases hne : (-r != v) = true
  · rw [if_pos hne]
    apply Sat.pure
    have hne' : -r ≠ v := by simpa using hne
    refine ⟨⟨hnt', hpv, hlines⟩, fun _ h => h, ?_⟩
    intro c' hc'; subst hc'
    intro hv; exfalso; omega
  · rw [if_neg hne]
    have heq : -r = v := by simpa using hne
    have hval : v = -(negamax g (depth - 1).toNat c) := by omega
    by_cases hm : g.moveEq m pv0 = true
    · rw [if_pos hm]
      apply Sat.pure
      refine ⟨⟨hnt', hpv, hlines⟩, fun _ h => h, ?_⟩
      intro c' hc'; subst hc'
      intro _
      exact ⟨pv0 :: rest, hpv, pv0, rest, rfl, by rw [← hg.eqSound p m pv0 hm]; exact hap⟩
    · rw [if_neg hm]
      apply Sat.pure
      refine ⟨⟨hnt', List.mem_append_left _ hpv, ?_⟩, ?_, ?_⟩
      · intro line hline
        rcases List.mem_append.mp hline with h | h
        · exact hlines line h
        · simp only [List.mem_cons, List.not_mem_nil, or_false] at h
          exact ⟨m, ms.getD [], c, h, hap, hval⟩
      · intro c' hc' hv
        obtain ⟨line, hl1, hl2⟩ := hc' hv
        exact ⟨line, List.mem_append_left _ hl1, hl2⟩
      · intro c' hc'; subst hc'
        intro _
        exact ⟨m :: ms.getD [], List.mem_append_right _ (by simp), m, ms.getD [], rfl, hap⟩

/-- **`AnalyzeAll` lists exactly the first moves that attain the value** (no table, precise options, any move
order): the value is the negamax value at the reported depth; every listed line starts with a legal move whose
child has value `-v` one level down; and every legal move whose child has that value leads to the same position
as the first move of some listed line. -/
theorem analyzeAll_exact_nt [DecidableEq M] {g : Game P M} (hg : GameOK g) (hb : EvalBounded g) {cfg : Cfg}
    (hpr : Precise cfg.opts) {o : Oracle M} (hnc : NoCancel o) (hord : OrderOK o)
    (p : P) (hov : g.over p = false) (hdepth : 1 ≤ cfg.depth)
    (hlive : ∀ d : Nat, 1 ≤ d → (d : Int) ≤ cfg.depth → Live g d p)
    (s : Eng M) (hs : s.hasTable = false) :
    Sat (analyzeAll g cfg o p s) (fun x =>
      let lines := x.1.1; let v := x.1.2.1; let st := x.1.2.2
      v = negamax g st.depth.toNat p ∧
      (∀ line ∈ lines, ∃ m rest c, line = m :: rest ∧ g.apply p m = .ok c ∧
        v = -(negamax g (st.depth.toNat - 1) c)) ∧
      (∀ m ∈ g.allMoves p, ∀ c, g.apply p m = .ok c → v = -(negamax g (st.depth.toNat - 1) c) →
        ∃ line ∈ lines, ∃ m' rest, line = m' :: rest ∧ g.apply p m' = .ok c)) := by
  unfold analyzeAll
  have ha := analyze_exact_nt hg hb hpr hnc hord p hov hdepth hlive s hs
  cases hr : analyze g cfg o p s with
  | error e => exact Sat.error
  | ok x =>
    obtain ⟨⟨pv, v, st⟩, s1⟩ := x
    obtain ⟨hs1, hcan, hd1, hd2, hv, m0, rest0, c0, hpv, hap0, hval0⟩ := ha _ hr
    dsimp only at hs1 hcan hd1 hd2 hv hpv hval0 ⊢
    subst hpv
    unfold analyzeAllFrom
    dsimp only
    have hdn : (st.depth - 1).toNat = st.depth.toNat - 1 := by omega
    have hlp : Live g st.depth.toNat p := hlive st.depth.toNat (by omega) (by omega)
    have hlc := (Live.child hg hlp (by omega) hov).2
    have hb' := aaBody_ok hg hpr hnc hord p st.depth m0 rest0 v (s1.st.depth, s1.st.canceled) hlc
    have hinv0 : AAInv g p (st.depth - 1).toNat v (m0 :: rest0) (s1.st.depth, s1.st.canceled)
        [m0 :: rest0] s1 :=
      ⟨⟨hs1, rfl⟩, by simp, fun line hline => by
        simp only [List.mem_cons, List.not_mem_nil, or_false] at hline
        exact ⟨m0, rest0, c0, hline, hap0, by rw [hdn]; exact hval0⟩⟩
    have hit := iterate_rule hb' cfg.opts o (rootMG st.depth (m0 :: rest0)) (hg.gen p) hord
      (fun a s k hi => ⟨hi.1, hi.2.1, hi.2.2⟩) [m0 :: rest0] s1 hinv0
    cases hi : iterate g cfg.opts o p (rootMG st.depth (m0 :: rest0))
        (aaBody g cfg.opts o st.depth m0 rest0 v) [m0 :: rest0] s1 with
    | error e => exact Sat.error
    | ok y =>
      obtain ⟨c, s2⟩ := y
      have hpost := hit _ hi
      cases c with
      | ret r => exact absurd hpost id
      | brk out => exact absurd hpost id
      | next out =>
        obtain ⟨⟨_, _, hlines⟩, _, hcov⟩ := hpost
        refine Sat.ok ⟨hv, ?_, ?_⟩
        · intro line hline
          obtain ⟨m, rest, c, h1, h2, h3⟩ := hlines line hline
          exact ⟨m, rest, c, h1, h2, by rw [← hdn]; exact h3⟩
        · intro m hm c hap hvc
          exact hcov c ⟨m, hm, hap⟩ (by rw [hdn]; exact hvc)

end Search
