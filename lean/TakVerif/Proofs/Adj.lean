import TakVerif.Spec.Tak

/-! Adjacency on the `n×n` board (`Spec.neighbours`) and the connectivity relation `Spec.Conn`:
coordinates of neighbours, symmetry, and the usual closure lemmas.  Any `n`. -/
namespace Roads
open Spec

theorem mem_neighbours {n j k : Nat} : k ∈ Spec.neighbours n j ↔
    (j % n > 0 ∧ k = j - 1) ∨ (j % n + 1 < n ∧ k = j + 1) ∨
    (j / n > 0 ∧ k = j - n) ∨ (j / n + 1 < n ∧ k = j + n) := by
  unfold Spec.neighbours
  simp only [List.mem_append]
  by_cases h1 : j % n > 0 <;> by_cases h2 : j % n + 1 < n <;> by_cases h3 : j / n > 0 <;>
    by_cases h4 : j / n + 1 < n <;> simp [h1, h2, h3, h4, or_assoc]

theorem divmod_of (n q r : Nat) (hr : r < n) : (n * q + r) / n = q ∧ (n * q + r) % n = r := by
  have hn : 0 < n := by omega
  constructor
  · rw [Nat.mul_add_div hn, Nat.div_eq_of_lt hr]; rfl
  · rw [Nat.mul_add_mod, Nat.mod_eq_of_lt hr]

/-- coordinates of a square and of its neighbours -/
theorem neighbours_cases {n j k : Nat} (hj : j < n * n) (h : k ∈ Spec.neighbours n j) :
    k < n * n ∧
    ((k / n = j / n ∧ (k % n + 1 = j % n ∨ k % n = j % n + 1)) ∨
     (k % n = j % n ∧ (k / n + 1 = j / n ∨ k / n = j / n + 1))) ∧
    (k + 1 = j ∨ k = j + 1 ∨ k + n = j ∨ k = j + n) := by
  have hn : 0 < n := by
    rcases Nat.eq_zero_or_pos n with h0 | h0
    · subst h0; simp at hj
    · exact h0
  have hr : j % n < n := Nat.mod_lt _ hn
  have hq : j / n < n := Nat.div_lt_of_lt_mul hj
  have hdm : n * (j / n) + j % n = j := Nat.div_add_mod j n
  have hm := mem_neighbours.mp h
  generalize j / n = q at *
  generalize j % n = r at *
  have hsq : n * (q + 1) ≤ n * n := Nat.mul_le_mul_left n (by omega)
  have hs1 : n * (q + 1) = n * q + n := Nat.mul_succ n q
  rcases hm with ⟨h1, rfl⟩ | ⟨h1, rfl⟩ | ⟨h1, rfl⟩ | ⟨h1, rfl⟩
  · have e : j - 1 = n * q + (r - 1) := by omega
    obtain ⟨d, m⟩ := divmod_of n q (r - 1) (by omega)
    rw [e, d, m]; refine ⟨by omega, ?_, by omega⟩; left; exact ⟨rfl, by omega⟩
  · have e : j + 1 = n * q + (r + 1) := by omega
    obtain ⟨d, m⟩ := divmod_of n q (r + 1) (by omega)
    rw [e, d, m]; refine ⟨by omega, ?_, by omega⟩; left; exact ⟨rfl, by omega⟩
  · have hs2 : n * (q - 1 + 1) = n * (q - 1) + n := Nat.mul_succ n (q - 1)
    have hq1 : q - 1 + 1 = q := by omega
    rw [hq1] at hs2
    have e : j - n = n * (q - 1) + r := by omega
    obtain ⟨d, m⟩ := divmod_of n (q - 1) r hr
    rw [e, d, m]; refine ⟨by omega, ?_, by omega⟩; right; exact ⟨rfl, by omega⟩
  · have hs2 : n * (q + 1 + 1) = n * (q + 1) + n := Nat.mul_succ n (q + 1)
    have hsq2 : n * (q + 1 + 1) ≤ n * n := Nat.mul_le_mul_left n (by omega)
    have e : j + n = n * (q + 1) + r := by omega
    obtain ⟨d, m⟩ := divmod_of n (q + 1) r hr
    rw [e, d, m]; refine ⟨by omega, ?_, by omega⟩; right; exact ⟨rfl, by omega⟩

theorem neighbours_lt {n j k : Nat} (hj : j < n * n) (h : k ∈ Spec.neighbours n j) : k < n * n :=
  (neighbours_cases hj h).1

/-- adjacency is symmetric -/
theorem neighbours_symm {n j k : Nat} (hj : j < n * n) (h : k ∈ Spec.neighbours n j) :
    j ∈ Spec.neighbours n k := by
  obtain ⟨hk, hc, hd⟩ := neighbours_cases hj h
  have hn : 0 < n := by
    rcases Nat.eq_zero_or_pos n with h0 | h0
    · subst h0; simp at hj
    · exact h0
  have hq : j / n < n := Nat.div_lt_of_lt_mul hj
  have hr : j % n < n := Nat.mod_lt _ hn
  have hq' : k / n < n := Nat.div_lt_of_lt_mul hk
  have hr' : k % n < n := Nat.mod_lt _ hn
  have hdm : n * (j / n) + j % n = j := Nat.div_add_mod j n
  have hdm' : n * (k / n) + k % n = k := Nat.div_add_mod k n
  rw [mem_neighbours]
  generalize j / n = q at *
  generalize j % n = r at *
  generalize k / n = q' at *
  generalize k % n = r' at *
  rcases hc with ⟨e, h1 | h1⟩ | ⟨e, h1 | h1⟩
  · right; left; subst e; exact ⟨by omega, by omega⟩
  · left; subst e; exact ⟨by omega, by omega⟩
  · right; right; right
    have hs1 : n * (q' + 1) = n * q' + n := Nat.mul_succ n _
    subst h1; exact ⟨by omega, by omega⟩
  · right; right; left
    have hs1 : n * (q + 1) = n * q + n := Nat.mul_succ n _
    subst h1; exact ⟨by omega, by omega⟩

/-! ### `Conn` -/

theorem _root_.Spec.Conn.lt_left {n : Nat} {ok : Nat → Prop} {i j : Nat} (h : Conn n ok i j) : i < n * n := by
  induction h with
  | refl h _ => exact h
  | step _ _ _ ih => exact ih

theorem _root_.Spec.Conn.lt_right {n : Nat} {ok : Nat → Prop} {i j : Nat} (h : Conn n ok i j) : j < n * n := by
  induction h with
  | refl h _ => exact h
  | step hc hk _ ih => exact neighbours_lt ih hk

theorem _root_.Spec.Conn.ok_left {n : Nat} {ok : Nat → Prop} {i j : Nat} (h : Conn n ok i j) : ok i := by
  induction h with
  | refl _ h => exact h
  | step _ _ _ ih => exact ih

theorem _root_.Spec.Conn.ok_right {n : Nat} {ok : Nat → Prop} {i j : Nat} (h : Conn n ok i j) : ok j := by
  cases h with
  | refl _ h => exact h
  | step _ _ h => exact h

theorem _root_.Spec.Conn.trans {n : Nat} {ok : Nat → Prop} {i j k : Nat} (h1 : Conn n ok i j) (h2 : Conn n ok j k) :
    Conn n ok i k := by
  induction h2 with
  | refl _ _ => exact h1
  | step _ hk hok ih => exact Conn.step ih hk hok

theorem _root_.Spec.Conn.symm {n : Nat} {ok : Nat → Prop} {i j : Nat} (h : Conn n ok i j) : Conn n ok j i := by
  induction h with
  | refl h1 h2 => exact Conn.refl h1 h2
  | step hc hk hok ih =>
    have hj := hc.lt_right
    have hkk := Conn.refl (ok := ok) (neighbours_lt hj hk) hok
    exact (Conn.step hkk (neighbours_symm hj hk) hc.ok_right).trans ih

theorem _root_.Spec.Conn.mono {n : Nat} {ok ok' : Nat → Prop} (hm : ∀ i, ok i → ok' i) {i j : Nat}
    (h : Conn n ok i j) : Conn n ok' i j := by
  induction h with
  | refl h1 h2 => exact Conn.refl h1 (hm _ h2)
  | step _ hk hok ih => exact Conn.step ih hk (hm _ hok)

/-- a set that contains `i`, and is closed under stepping to `ok` neighbours, contains everything connected to `i` -/
theorem _root_.Spec.Conn.closed {n : Nat} {ok : Nat → Prop} (S : Nat → Prop)
    (hS : ∀ j k, S j → j < n * n → k ∈ neighbours n j → ok k → S k) {i j : Nat} (hi : S i)
    (h : Conn n ok i j) : S j := by
  induction h with
  | refl _ _ => exact hi
  | step hc hk hok ih => exact hS _ _ ih hc.lt_right hk hok

/-- connectivity restricted to a set that is closed under `ok`-steps -/
theorem _root_.Spec.Conn.restrict {n : Nat} {ok : Nat → Prop} (S : Nat → Prop)
    (hS : ∀ j k, S j → j < n * n → k ∈ neighbours n j → ok k → S k) {i j : Nat} (hi : S i)
    (h : Conn n ok i j) : Conn n (fun k => ok k ∧ S k) i j := by
  induction h with
  | refl h1 h2 => exact Conn.refl h1 ⟨h2, hi⟩
  | step hc hk hok ih =>
    exact Conn.step ih hk ⟨hok, hS _ _ ih.ok_right.2 hc.lt_right hk hok⟩

end Roads
