import TakVerif.Props.C01_gen2
import TakVerif.Props.C02_gen2
import TakVerif.Props.C08_gen2
import TakVerif.Proofs.GenMove
import TakVerif.Generated.FuncsApply

set_option linter.unusedSimpArgs false

/-! Helper lemmas for the bridge `C01.movePreallocated_is_source` (Props/C01_gen3.lean): the hand-written model
`Tak.Pos.apply` of `Position.MovePreallocated` (Impl/Move.lean) is the function `gen` regenerates from `tak/move.go`
(`Generated/FuncsApply.lean`: `Gen.movePreallocated`, with `Gen.positionAnalyze` for `analyze()`).
This file: the encoding of results, `analyze()` / `finish`, bit and array facts, the first loop (carry count). -/
namespace GenApply
open Tak GenMove

/-- the fields `MovePreallocated` may assign, as the regenerated function returns them (sorted by Go field name) -/
abbrev NextT := BitVec 64 × BitVec 64 × Array (BitVec 8) × Array (BitVec 64) × BitVec 64 × BitVec 64 ×
  Array (BitVec 64) × Array (BitVec 64) × BitVec 8 × BitVec 8 × BitVec 64 × Int × BitVec 8 × BitVec 8

def encNext (q : Pos) : NextT :=
  (q.black, q.caps, q.height, q.stacks, q.standing, q.white, q.bgroups.toArray, q.wgroups.toArray,
   q.blackCaps, q.blackStones, q.hash, q.move, q.whiteCaps, q.whiteStones)

/-- the successor the regenerated function describes: `p` (whose configuration `MovePreallocated` never touches) with the
assigned fields replaced -/
def decNext (p : Pos) (t : NextT) : Pos :=
  let (black, caps, height, stacks, standing, white, bg, wg, blackCaps, blackStones, hash, move, whiteCaps, whiteStones) := t
  { p with black := black, caps := caps, height := height, stacks := stacks, standing := standing, white := white,
           bgroups := bg.toList, wgroups := wg.toList, blackCaps := blackCaps, blackStones := blackStones, hash := hash,
           move := move, whiteCaps := whiteCaps, whiteStones := whiteStones }

/-- outcome classes: `some (.ok ..)` = `return next, nil`, `some (.error ())` = a returned error, `none` = Go panics /
does not terminate (the model's `.panic` / `.hang`) -/
def encR : R Pos → Option (Except Unit NextT)
  | .ok q => some (.ok (encNext q))
  | .error (.illegal _) => some (.error ())
  | .error (.panic _) => none
  | .error (.hang _) => none

/-- `analyze()`: the regenerated function is the model's (`none` = the flood fuel ran out on either side) -/
theorem analyze_is_source (p : Pos) :
    Gen.positionAnalyze p.black p.standing p.white p.c = p.analyze.map (fun q => (q.bgroups.toArray, q.wgroups.toArray)) := by
  unfold Gen.positionAnalyze Pos.analyze
  simp only []
  rw [← C02.floodGroups_is_source, ← C02.floodGroups_is_source]
  cases floodGroups p.c (p.white &&& ~~~p.standing) <;> cases floodGroups p.c (p.black &&& ~~~p.standing) <;> rfl

/-- the tail `next.analyze(); return next, nil` of every successful path -/
theorem finish_is_source (nx : Pos) :
    (match Gen.positionAnalyze nx.black nx.standing nx.white nx.c with
     | none => none
     | some (bg, wg) => some (Except.ok (nx.black, nx.caps, nx.height, nx.stacks, nx.standing, nx.white, bg, wg,
         nx.blackCaps, nx.blackStones, nx.hash, nx.move, nx.whiteCaps, nx.whiteStones))) = encR (finish nx) := by
  rw [analyze_is_source]
  unfold finish Pos.analyze
  simp only []
  cases floodGroups nx.c (nx.white &&& ~~~nx.standing) <;> cases floodGroups nx.c (nx.black &&& ~~~nx.standing) <;> rfl

/-! ### the first loop: `for it := m.Slides.Iterator(); it.Ok(); it = it.Next()` summing the drops, rejecting a zero -/

theorem foldl_add (l : List Nat) (a : Nat) : l.foldl (· + ·) a = a + l.foldl (· + ·) 0 := by
  induction l generalizing a with
  | nil => simp
  | cons x tl ih => simp only [List.foldl_cons]; rw [ih (a + x), ih (0 + x)]; omega

theorem shift_zero_of (s : BitVec 32) (n : Nat) (h : s >>> (4 * (n + 1)) = 0#32) : (s >>> 4) >>> (4 * n) = 0#32 := by
  rw [← BitVec.shiftRight_add]
  have : 4 + 4 * n = 4 * (n + 1) := by omega
  rw [this]; exact h

theorem shift32 (s : BitVec 32) : s >>> (4 * 8) = 0#32 := by
  apply BitVec.eq_of_toNat_eq
  simp [BitVec.toNat_ushiftRight, Nat.shiftRight_eq_div_pow]
  omega

/-- the carry-count loop with fuel `n + 1` on a word of at most `n` nibbles: an error at the first zero nibble,
else the sum (the iterator ends at 0) -/
theorem loop0_eq (n : Nat) (s : BitVec 32) (ct : Nat) (hs : s >>> (4 * n) = 0#32) :
    Gen.movePreallocated_loop0 (n + 1) (ct, s) =
      if (slideElems n s).any (· == 0) then some (.error (Except.error ()))
      else some (.ok (ct + (slideElems n s).foldl (· + ·) 0, 0#32)) := by
  induction n generalizing s ct with
  | zero =>
    have : s = 0#32 := by simpa using hs
    subst this
    simp [Gen.movePreallocated_loop0, Gen.slideIterOk, slideElems]
  | succ n ih =>
    rw [Gen.movePreallocated_loop0, C01.slideElems_is_source]
    cases hok : Gen.slideIterOk s
    · have : s = 0#32 := by simpa [Gen.slideIterOk] using hok
      subst this; simp
    · simp only [↓reduceIte, List.any_cons, List.foldl_cons]
      have hnn : (0 : Int) ≤ Gen.slideIterElem s := by
        unfold Gen.slideIterElem; simp only [Int.ofNat_eq_natCast]; omega
      have hlt : Gen.slideIterElem s < 18446744073709551616 := by
        unfold Gen.slideIterElem
        have := (s &&& 15#32).isLt
        simp only [Int.ofNat_eq_natCast]; omega
      have hmod : Gen.slideIterElem s % 18446744073709551616 = Gen.slideIterElem s := Int.emod_eq_of_lt hnn hlt
      rw [hmod]
      by_cases hz : Gen.slideIterElem s = 0
      · simp [hz]
      · have hz' : ((Gen.slideIterElem s).toNat == 0) = false := by
          have : (Gen.slideIterElem s).toNat ≠ 0 := by omega
          simpa using this
        have hz2 : (Gen.slideIterElem s == 0) = false := by simpa using hz
        simp only [hz', hz2, Bool.false_or, Bool.false_eq_true, ↓reduceIte]
        have hs' : Gen.slideIterNext s >>> (4 * n) = 0#32 := shift_zero_of s n hs
        rw [ih _ _ hs', foldl_add _ (0 + _)]
        split <;> simp <;> omega

end GenApply
