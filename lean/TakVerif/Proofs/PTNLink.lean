import TakVerif.Proofs.TextTotal
import TakVerif.Impl.PTNReal
import TakVerif.Proofs.PTNTotal
import TakVerif.Proofs.Groups

/-! Linking the PTN-file model (`Impl/PTN.lean`, parameters `Env`) to the byte-level models of
`ptn.ParseMove` / `ptn.FormatMove` (`Impl/PTNMove.lean`) and `ptn.ParseTPS` (`Impl/TPS.lean`). -/
namespace PTN
open Tak

theorem mkSlides_noHang (drops : List Nat) (s : String) : Tak.mkSlides drops ≠ .error (.hang s) := by
  unfold Tak.mkSlides
  have : ∀ (l : List Nat) (acc : BitVec 32),
      l.foldlM (fun out d =>
        if d > 8 then (.error (.panic "MkSlides: bad drop") : R (BitVec 32)) else .ok (Slides.prepend out d)) acc
        ≠ .error (.hang s) := by
    intro l
    induction l with
    | nil => intro acc h; cases h
    | cons d l ih =>
      intro acc
      simp only [List.foldlM_cons]
      split
      · intro h; cases h
      · exact ih _
  exact this _ _

theorem dropLoop_noHang (rest : Go.Bytes) : ∀ (slides : List Nat) (stack : Int) (s : String),
    Tak.PTN.dropLoop rest slides stack ≠ .error (.hang s) := by
  induction rest with
  | nil => intro slides stack s h; cases h
  | cons d rest ih =>
    intro slides stack s
    simp only [Tak.PTN.dropLoop]
    split
    · exact ih _ _ s
    · split <;> (intro h; cases h)

theorem parseDrops_noHang (m : Move) (ty stack : Nat) (rest : Go.Bytes) (s : String) :
    Tak.PTN.parseDrops m ty stack rest ≠ .error (.hang s) := by
  unfold Tak.PTN.parseDrops
  simp only []
  split
  · rename_i e he; intro h; cases h; exact dropLoop_noHang _ _ _ s he
  · split
    · rename_i e he2
      intro h; cases h
      split at he2
      · cases he2
      · split at he2 <;> cases he2
    · split
      · rename_i e he3; intro h; cases h; exact mkSlides_noHang _ s he3
      · intro h; cases h

theorem idx_noHang (b : Go.Bytes) (i : Nat) (s : String) : Tak.PTN.idx b i ≠ .error (.hang s) := by
  unfold Tak.PTN.idx; split <;> (intro h; cases h)

theorem parseDir_noHang (b : UInt8) (s : String) : Tak.PTN.parseDir b ≠ .error (.hang s) := by
  unfold Tak.PTN.parseDir
  repeat' split
  all_goals (intro h; cases h)

theorem parseMove_noHang (move : Go.Bytes) (s : String) : Tak.PTN.parseMove move ≠ .error (.hang s) := by
  intro h
  unfold Tak.PTN.parseMove at h
  repeat' split at h
  all_goals first
    | (cases h; done)
    | (exfalso; exact idx_noHang _ _ _ (by assumption))
    | (exfalso; exact parseDir_noHang _ _ (by assumption))
    | (exfalso; exact parseDrops_noHang _ _ _ _ _ h)
    | (exfalso; cases h; exact idx_noHang _ _ _ (by assumption))
    | (exfalso; cases h; exact parseDir_noHang _ _ (by assumption))

/-- the model of `ptn.ParseMove` returns a move or an error value -/
theorem realParseMove_graceful (b : Bytes) : Graceful (Tak.PTN.parseMove b) := by
  intro e he
  cases e with
  | illegal w => exact ⟨w, rfl⟩
  | panic s => exact absurd he (Tak.PTN.parseMove_noPanic b s)
  | hang s => exact absurd he (parseMove_noHang b s)

/-- the model of `ptn.ParseTPS` returns a position or an error value -/
theorem realParseTPS_graceful (basis : Array W) (b : Bytes) : Graceful (Tak.TPS.parseTPS basis b) := by
  intro e he
  cases e with
  | illegal w => exact ⟨w, rfl⟩
  | panic s => exact absurd he (Tak.TPS.parseTPS_noPanic basis b s)
  | hang s => exact absurd he (Tak.TPS.parseTPS_noHang basis b Roads.analyze_ne_none s)

end PTN
