import TakVerif.Proofs.TextTotal
import TakVerif.Impl.PTNReal
import TakVerif.Proofs.PTNTotal
import TakVerif.Proofs.PTNIter
import TakVerif.Proofs.Groups

/-! Linking the PTN-file model (`Impl/PTN.lean`, parameters `Env`) to the byte-level models of
`ptn.ParseMove` / `ptn.FormatMove` (`Impl/PTNMove.lean`) and `ptn.ParseTPS` (`Impl/TPS.lean`). -/
namespace PTN
open Tak

theorem mkSlides_noHang (drops : List Nat) (s : String) : Tak.mkSlides drops ≠ .error (.hang s) := by
  unfold Tak.mkSlides
  have : ∀ (l : List Nat) (acc : BitVec 32),
      l.foldlM (fun out d =>
        if d > 8 then (.error (.panic "MkSlides: bad drop") : R (BitVec 32)) else .ok (Slides.prepend out d)) acc
        ≠ .error (.hang s) := by
    intro l
    induction l with
    | nil => intro acc h; cases h
    | cons d l ih =>
      intro acc
      simp only [List.foldlM_cons]
      split
      · intro h; cases h
      · exact ih _
  exact this _ _

theorem dropLoop_noHang (rest : Go.Bytes) : ∀ (slides : List Nat) (stack : Int) (s : String),
    Tak.PTN.dropLoop rest slides stack ≠ .error (.hang s) := by
  induction rest with
  | nil => intro slides stack s h; cases h
  | cons d rest ih =>
    intro slides stack s
    simp only [Tak.PTN.dropLoop]
    split
    · exact ih _ _ s
    · split <;> (intro h; cases h)

theorem parseDrops_noHang (m : Move) (ty stack : Nat) (rest : Go.Bytes) (s : String) :
    Tak.PTN.parseDrops m ty stack rest ≠ .error (.hang s) := by
  unfold Tak.PTN.parseDrops
  simp only []
  split
  · rename_i e he; intro h; cases h; exact dropLoop_noHang _ _ _ s he
  · split
    · rename_i e he2
      intro h; cases h
      split at he2
      · cases he2
      · split at he2 <;> cases he2
    · split
      · rename_i e he3; intro h; cases h; exact mkSlides_noHang _ s he3
      · intro h; cases h

theorem idx_noHang (b : Go.Bytes) (i : Nat) (s : String) : Tak.PTN.idx b i ≠ .error (.hang s) := by
  unfold Tak.PTN.idx; split <;> (intro h; cases h)

theorem parseDir_noHang (b : UInt8) (s : String) : Tak.PTN.parseDir b ≠ .error (.hang s) := by
  unfold Tak.PTN.parseDir
  repeat' split
  all_goals (intro h; cases h)

theorem parseMove_noHang (move : Go.Bytes) (s : String) : Tak.PTN.parseMove move ≠ .error (.hang s) := by
  intro h
  unfold Tak.PTN.parseMove at h
  repeat' split at h
  all_goals first
    | (cases h; done)
    | (exfalso; exact idx_noHang _ _ _ (by assumption))
    | (exfalso; exact parseDir_noHang _ _ (by assumption))
    | (exfalso; exact parseDrops_noHang _ _ _ _ _ h)
    | (exfalso; cases h; exact idx_noHang _ _ _ (by assumption))
    | (exfalso; cases h; exact parseDir_noHang _ _ (by assumption))

/-- the model of `ptn.ParseMove` returns a move or an error value -/
theorem realParseMove_graceful (b : Bytes) : Graceful (Tak.PTN.parseMove b) := by
  intro e he
  cases e with
  | illegal w => exact ⟨w, rfl⟩
  | panic s => exact absurd he (Tak.PTN.parseMove_noPanic b s)
  | hang s => exact absurd he (parseMove_noHang b s)

/-- the model of `ptn.ParseTPS` returns a position or an error value -/
theorem realParseTPS_graceful (basis : Array W) (b : Bytes) : Graceful (Tak.TPS.parseTPS basis b) := by
  intro e he
  cases e with
  | illegal w => exact ⟨w, rfl⟩
  | panic s => exact absurd he (Tak.TPS.parseTPS_noPanic basis b s)
  | hang s => exact absurd he (Tak.TPS.parseTPS_noHang basis b Roads.analyze_ne_none s)

end PTN

namespace PTN
open Tak

theorem parseDir_ne_zero (b : UInt8) (ty : Nat) (h : Tak.PTN.parseDir b = .ok ty) : ty ≠ 0 := by
  unfold Tak.PTN.parseDir at h
  repeat' split at h
  all_goals first
    | (injection h with h; subst h; decide)
    | cases h

theorem parseDrops_type (m : Move) (ty stack : Nat) (rest : Go.Bytes) (m' : Move)
    (h : Tak.PTN.parseDrops m ty stack rest = .ok m') : m'.type = ty := by
  unfold Tak.PTN.parseDrops at h
  simp only [] at h
  split at h
  · cases h
  · split at h
    · cases h
    · split at h
      · cases h
      · injection h with h; subst h; rfl

theorem parseHead_type (b0 : UInt8) : (Tak.PTN.parseHead b0).1 ≠ 0 ∨ (Tak.PTN.parseHead b0).2.1 ≠ 0 := by
  unfold Tak.PTN.parseHead
  split
  · left; decide
  · split
    · left; decide
    · split
      · left; decide
      · split
        · rename_i h
          right
          simp only [Tak.PTN.is18, Bool.and_eq_true, decide_eq_true_eq] at h
          show b0.toNat - 48 ≠ 0
          omega
        · left; decide

/-- `ParseMove` never returns the zero move type: a placement has its kind, a slide its direction -/
theorem realParseMove_type (b : Bytes) (m : Move) (h : Tak.PTN.parseMove b = .ok m) : m.type ≠ 0 := by
  unfold Tak.PTN.parseMove at h
  split at h
  · cases h
  split at h
  · cases h
  rename_i b0 _
  have hh := parseHead_type b0
  split at h
  rename_i ty stack i hph
  rw [hph] at hh
  dsimp only at hh
  split at h
  · cases h
  split at h
  · cases h
  split at h
  · cases h
  split at h
  · cases h
  split at h
  · cases h
  -- the placement return
  have hplace : ∀ m0 : Move, m0.type = ty →
      (if stack ≠ 0 then (Except.error (Err.illegal "illegal move") : R Move) else .ok m0) = .ok m → m.type ≠ 0 := by
    intro m0 hm0 hp
    split at hp
    · cases hp
    · rename_i hs
      injection hp with hp
      subst hp
      rw [hm0]
      rcases hh with hh | hh
      · exact hh
      · exact absurd hh hs
  dsimp only at h
  split at h
  · exact hplace _ rfl h
  split at h
  · cases h
  split at h
  · exact hplace _ rfl h
  split at h
  · cases h
  · rename_i ty' hdir
    rw [parseDrops_type _ _ _ _ _ h]
    exact parseDir_ne_zero _ _ hdir

/-- every file the linked `ParsePTN` returns is inside the domain of the iterator theorems -/
theorem parsePTN_noZero_linked (basis : Array W) (input : Bytes) (f : File)
    (h : parsePTN (realEnv basis) input = .ok f) : NoZero f.ops :=
  parsePTN_noZero (realEnv basis) realParseMove_type input f h

end PTN
