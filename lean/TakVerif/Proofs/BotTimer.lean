import TakVerif.Impl.BotTimer

/-! helper lemmas for `Props/C07_timer.lean`: runs split at appends; one op of the timed tie is a short timed run -/
namespace Tak.Bot

theorem run_append (cfg : Conf) (s : St) (a b : List Ev) : run cfg s (a ++ b) = run cfg (run cfg s a) b := by
  simp [run, List.foldl_append]

/-- one op of the tie is a short timed run -/
theorem ttieStep_trun (cfg : Conf) (t : Timed) (e : TEv) :
    ∃ l, ttieStep cfg t e = trun cfg t l := by
  cases e with
  | ev e =>
    refine ⟨.ev e :: (settleEvs (tstep cfg t (.ev e)).st).map .ev, ?_⟩
    rfl
  | expire =>
    by_cases hs : 0 < t.stale
    · refine ⟨[.expire], ?_⟩
      simp [ttieStep, hs, trun]
    · refine ⟨.expire :: (settleEvs (tstep cfg t .expire).st).map .ev, ?_⟩
      simp [ttieStep, hs, trun]

theorem trun_append (cfg : Conf) (t : Timed) (a b : List TEv) :
    trun cfg t (a ++ b) = trun cfg (trun cfg t a) b := by
  simp [trun, List.foldl_append]

end Tak.Bot
