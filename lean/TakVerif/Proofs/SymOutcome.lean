import TakVerif.Proofs.SymState
import TakVerif.Proofs.SpecReach

/-! Invariance of `Spec.outcome` under the eight maps: the image board is a permutation of the
board (flat counts, "board full"), and roads are mapped to roads (adjacency is preserved, the pair of
opposite edges a road joins is mapped to a pair of opposite edges). -/
namespace Spec
open Roads

/-- index of the image of square `j` -/
def Sym.idxMap (k : Sym) (n : Nat) (j : Nat) : Nat :=
  ((k.app n ((j % n : Nat) : Int) ((j / n : Nat) : Int)).1 + (k.app n ((j % n : Nat) : Int) ((j / n : Nat) : Int)).2 * n).toNat

theorem onB_of_lt {n j : Nat} (hj : j < n * n) : onB n ((j % n : Nat) : Int) ((j / n : Nat) : Int) := by
  have hn : 0 < n := by
    rcases Nat.eq_zero_or_pos n with h | h
    · rw [h] at hj; simp at hj
    · exact h
  exact ⟨Int.natCast_nonneg _, Int.ofNat_lt.mpr (Nat.mod_lt _ hn), Int.natCast_nonneg _,
    Int.ofNat_lt.mpr (by rw [Nat.div_lt_iff_lt_mul hn]; exact hj)⟩

/-- coordinates of the image index -/
theorem Sym.idxMap_coords (k : Sym) {n j : Nat} (hj : j < n * n) :
    Sym.idxMap k n j < n * n ∧
    (((Sym.idxMap k n j) % n : Nat) : Int) = (k.app n ((j % n : Nat) : Int) ((j / n : Nat) : Int)).1 ∧
    (((Sym.idxMap k n j) / n : Nat) : Int) = (k.app n ((j % n : Nat) : Int) ((j / n : Nat) : Int)).2 := by
  have hb := (Sym.onB_app k n _ _).2 (onB_of_lt hj)
  obtain ⟨a, b, ea, eb, ha, hb'⟩ := onB_nat hb
  unfold Sym.idxMap
  rw [ea, eb, ← Int.natCast_mul, ← Int.natCast_add, Int.toNat_natCast]
  exact ⟨cell_lt ha hb', by rw [cell_mod ha], by rw [cell_div ha]⟩

theorem Sym.idxMap_inv (k : Sym) {n j : Nat} (hj : j < n * n) :
    Sym.idxMap k.inv n (Sym.idxMap k n j) = j := by
  obtain ⟨h1, h2, h3⟩ := Sym.idxMap_coords k hj
  show ((k.inv.app n (((Sym.idxMap k n j) % n : Nat) : Int) (((Sym.idxMap k n j) / n : Nat) : Int)).1 +
    (k.inv.app n (((Sym.idxMap k n j) % n : Nat) : Int) (((Sym.idxMap k n j) / n : Nat) : Int)).2 * n).toNat = j
  rw [h2, h3, Sym.app_inv]
  show ((((j % n : Nat) : Int)) + ((j / n : Nat) : Int) * n).toNat = j
  rw [← Int.natCast_mul, ← Int.natCast_add, Int.toNat_natCast]
  have := Nat.mod_add_div j n
  rw [Nat.mul_comm] at this
  exact this

/-- the image board read at the image index -/
theorem Sym.state_getD_idxMap (k : Sym) (s : State) {j : Nat} (hj : j < s.size * s.size) :
    (k.state s).squares.getD (Sym.idxMap k s.size j) [] = s.squares.getD j [] := by
  have hb := onB_of_lt hj
  have := Sym.state_at k s hb
  unfold State.at at this
  have e2 := (idx_decomp s hj).2
  rw [e2] at this
  exact this

/-- the image board read at any index -/
theorem Sym.state_getD (k : Sym) (s : State) {j : Nat} (hj : j < s.size * s.size) :
    (k.state s).squares.getD j [] = s.squares.getD (Sym.idxMap k.inv s.size j) [] := by
  have h1 := (Sym.idxMap_coords k.inv hj).1
  have := Sym.state_getD_idxMap k s h1
  rw [← this]
  congr 1
  have := Sym.idxMap_inv k.inv hj
  rw [Sym.inv_inv] at this
  exact this.symm

/-! ### the image board is a permutation of the board -/

theorem Sym.idxMap_perm (k : Sym) (n : Nat) : ((List.range (n * n)).map (Sym.idxMap k n)).Perm (List.range (n * n)) := by
  apply (List.perm_ext_iff_of_nodup ?_ List.nodup_range).2
  · intro a
    simp only [List.mem_map, List.mem_range]
    constructor
    · rintro ⟨j, hj, rfl⟩; exact (Sym.idxMap_coords k hj).1
    · intro ha
      refine ⟨Sym.idxMap k.inv n a, (Sym.idxMap_coords k.inv ha).1, ?_⟩
      have := Sym.idxMap_inv k.inv ha
      rw [Sym.inv_inv] at this
      exact this
  · rw [List.Nodup, List.pairwise_map]
    refine List.Pairwise.imp_of_mem ?_ (List.nodup_range (n := n * n))
    intro a b ha hb hne e
    apply hne
    have h1 := Sym.idxMap_inv k (List.mem_range.1 ha)
    have h2 := Sym.idxMap_inv k (List.mem_range.1 hb)
    rw [← h1, ← h2, e]

theorem Sym.state_squares_perm (k : Sym) {s : State} (hs : s.WF) : (k.state s).squares.Perm s.squares := by
  have e1 : (k.state s).squares = ((List.range (s.size * s.size)).map (Sym.idxMap k.inv s.size)).map (fun j => s.squares.getD j []) := by
    apply List.ext_getElem
    · simp [Sym.state]
    · intro i h1 h2
      have hi : i < s.size * s.size := by simpa [Sym.state] using h1
      have := Sym.state_getD k s hi
      simp only [List.getD_eq_getElem?_getD, List.getElem?_eq_getElem h1, Option.getD_some] at this
      rw [this]
      simp
  have e2 : s.squares = (List.range (s.size * s.size)).map (fun j => s.squares.getD j []) := by
    apply List.ext_getElem
    · rw [List.length_map, List.length_range]; exact hs
    · intro i h1 h2
      simp [List.getD_eq_getElem?_getD, h1]
  rw [e1]
  conv => rhs; rw [e2]
  exact (Sym.idxMap_perm k.inv s.size).map _

theorem Sym.flatCount_invariant (k : Sym) {s : State} (hs : s.WF) (c : Tak.Color) :
    flatCount (k.state s) c = flatCount s c := by
  unfold flatCount
  exact ((Sym.state_squares_perm k hs).filter _).length_eq

/-! ### roads -/

/-- neighbours of an on-board square, by direction -/
theorem mem_neighbours_dir {n j k' : Nat} (hj : j < n * n) :
    k' ∈ neighbours n j ↔ ∃ d : Dir,
      onB n (((j % n : Nat) : Int) + d.dx) (((j / n : Nat) : Int) + d.dy) ∧
      (k' : Int) = (((j % n : Nat) : Int) + d.dx) + (((j / n : Nat) : Int) + d.dy) * n := by
  have hn : 0 < n := by
    rcases Nat.eq_zero_or_pos n with h | h
    · rw [h] at hj; simp at hj
    · exact h
  have hr : j % n < n := Nat.mod_lt _ hn
  have hq : j / n < n := by rw [Nat.div_lt_iff_lt_mul hn]; exact hj
  have hdm : j % n + j / n * n = j := by
    have := Nat.mod_add_div j n; rw [Nat.mul_comm] at this; exact this
  rw [mem_neighbours]
  generalize j % n = a at *
  generalize j / n = b at *
  have hbn : ((b * n : Nat) : Int) = (b : Int) * n := Int.natCast_mul _ _
  constructor
  · rintro (⟨h1, rfl⟩ | ⟨h1, rfl⟩ | ⟨h1, rfl⟩ | ⟨h1, rfl⟩)
    · refine ⟨.left, ?_, ?_⟩ <;> simp only [Dir.dx, Dir.dy, onB, Int.add_zero] <;> omega
    · refine ⟨.right, ?_, ?_⟩ <;> simp only [Dir.dx, Dir.dy, onB, Int.add_zero] <;> omega
    · refine ⟨.down, ?_, ?_⟩
      · simp only [Dir.dx, Dir.dy, onB, Int.add_zero]; omega
      · simp only [Dir.dx, Dir.dy, Int.add_zero]
        have : ((b : Int) + -1) * n = (b : Int) * n - n := by rw [Int.add_mul]; omega
        rw [this]
        have hge : n ≤ b * n := Nat.le_mul_of_pos_left n h1
        omega
    · refine ⟨.up, ?_, ?_⟩
      · simp only [Dir.dx, Dir.dy, onB, Int.add_zero]; omega
      · simp only [Dir.dx, Dir.dy, Int.add_zero]
        have : ((b : Int) + 1) * n = (b : Int) * n + n := by rw [Int.add_mul]; omega
        rw [this]; omega
  · rintro ⟨d, hb, he⟩
    cases d <;> simp only [Dir.dx, Dir.dy, onB, Int.add_zero] at hb he
    · left; exact ⟨by omega, by omega⟩
    · right; left; exact ⟨by omega, by omega⟩
    · right; right; right
      have : ((b : Int) + 1) * n = (b : Int) * n + n := by rw [Int.add_mul]; omega
      rw [this] at he
      exact ⟨by omega, by omega⟩
    · right; right; left
      have : ((b : Int) + -1) * n = (b : Int) * n - n := by rw [Int.add_mul]; omega
      rw [this] at he
      have hb0 : 0 < b := by omega
      have hge : n ≤ b * n := Nat.le_mul_of_pos_left n hb0
      exact ⟨hb0, by omega⟩

/-- the maps preserve adjacency -/
theorem Sym.idxMap_neighbours (k : Sym) {n j k' : Nat} (hj : j < n * n) (h : k' ∈ neighbours n j) :
    Sym.idxMap k n k' ∈ neighbours n (Sym.idxMap k n j) := by
  have hk' : k' < n * n := neighbours_lt hj h
  obtain ⟨d, hb, he⟩ := (mem_neighbours_dir hj).1 h
  obtain ⟨hj1, hj2, hj3⟩ := Sym.idxMap_coords k hj
  obtain ⟨hk1, hk2, hk3⟩ := Sym.idxMap_coords k hk'
  rw [mem_neighbours_dir hj1]
  refine ⟨k.dir d, ?_, ?_⟩
  · rw [hj2, hj3]
    have := (Sym.onB_app k n _ _).2 hb
    rw [Sym.app_step] at this
    exact this
  · -- coordinates of k'
    obtain ⟨a, b, ea, eb, ha, hb'⟩ := onB_nat hb
    have hkk : k' = a + b * n := by
      have : (k' : Int) = ((a + b * n : Nat) : Int) := by rw [he, ea, eb]; simp
      exact Int.ofNat.inj this
    have hm : k' % n = a := by rw [hkk]; exact cell_mod ha
    have hd : k' / n = b := by rw [hkk]; exact cell_div ha
    have e3 : k.app n ((k' % n : Nat) : Int) ((k' / n : Nat) : Int) =
        k.app n (((j % n : Nat) : Int) + d.dx) (((j / n : Nat) : Int) + d.dy) := by
      rw [hm, hd, ← ea, ← eb]
    rw [hj2, hj3]
    have hdm : (Sym.idxMap k n k' : Int) = ((Sym.idxMap k n k') % n : Nat) + ((Sym.idxMap k n k') / n : Nat) * (n : Int) := by
      have := Nat.mod_add_div (Sym.idxMap k n k') n
      rw [Nat.mul_comm] at this
      rw [← Int.natCast_mul, ← Int.natCast_add, this]
    rw [hdm, hk2, hk3, e3, Sym.app_step]

theorem Sym.conn_map (k : Sym) {n : Nat} {ok ok' : Nat → Prop}
    (hok : ∀ j, j < n * n → ok j → ok' (Sym.idxMap k n j)) {i j : Nat} (h : Conn n ok i j) :
    Conn n ok' (Sym.idxMap k n i) (Sym.idxMap k n j) := by
  induction h with
  | refl hi hoki => exact Conn.refl (Sym.idxMap_coords k hi).1 (hok _ hi hoki)
  | step hc hn hokk ih =>
    exact Conn.step ih (Sym.idxMap_neighbours k hc.lt_right hn) (hok _ (neighbours_lt hc.lt_right hn) hokk)

/-- a pair of squares on two opposite edges is mapped to a pair of squares on two opposite edges -/
theorem Sym.edges_map (k : Sym) (n xi yi xj yj : Int)
    (hedge : (xi = 0 ∧ xj = n - 1) ∨ (yi = 0 ∧ yj = n - 1)) :
    ((k.app n xi yi).1 = 0 ∧ (k.app n xj yj).1 = n - 1) ∨ ((k.app n xj yj).1 = 0 ∧ (k.app n xi yi).1 = n - 1) ∨
    ((k.app n xi yi).2 = 0 ∧ (k.app n xj yj).2 = n - 1) ∨ ((k.app n xj yj).2 = 0 ∧ (k.app n xi yi).2 = n - 1) := by
  induction k using Sym.cases8 <;> simp only [Sym.app] <;> omega

/-- a road is mapped to a road -/
theorem Sym.roadPath_map (k : Sym) (s : State) (c : Tak.Color) (h : RoadPath s c) : RoadPath (k.state s) c := by
  obtain ⟨i, j, hconn, hedge⟩ := h
  have hi := hconn.lt_left
  have hj := hconn.lt_right
  have hc' : Conn s.size (fun q => roadTop c ((k.state s).squares.getD q []) = true)
      (Sym.idxMap k s.size i) (Sym.idxMap k s.size j) := by
    apply Sym.conn_map k _ hconn
    intro q hq hokq
    rw [Sym.state_getD_idxMap k s hq]; exact hokq
  obtain ⟨-, i1, i2⟩ := Sym.idxMap_coords k hi
  obtain ⟨-, j1, j2⟩ := Sym.idxMap_coords k hj
  have hn : 0 < s.size := by
    rcases Nat.eq_zero_or_pos s.size with h | h
    · rw [h] at hi; simp at hi
    · exact h
  have hedge' : (((i % s.size : Nat) : Int) = 0 ∧ ((j % s.size : Nat) : Int) = (s.size : Int) - 1) ∨
      (((i / s.size : Nat) : Int) = 0 ∧ ((j / s.size : Nat) : Int) = (s.size : Int) - 1) := by
    rcases hedge with ⟨e1, e2⟩ | ⟨e1, e2⟩
    · left; rw [e1, e2]; exact ⟨rfl, by omega⟩
    · right; rw [e1, e2]; exact ⟨rfl, by omega⟩
  have hm := Sym.edges_map k s.size _ _ _ _ hedge'
  rw [← i1, ← i2, ← j1, ← j2] at hm
  have cast0 : ∀ a : Nat, (a : Int) = 0 → a = 0 := fun a h => by omega
  have castn : ∀ a : Nat, (a : Int) = (s.size : Int) - 1 → a = s.size - 1 := fun a h => by omega
  rcases hm with ⟨h1, h2⟩ | ⟨h1, h2⟩ | ⟨h1, h2⟩ | ⟨h1, h2⟩
  · exact ⟨_, _, hc', Or.inl ⟨cast0 _ h1, castn _ h2⟩⟩
  · exact ⟨_, _, hc'.symm, Or.inl ⟨cast0 _ h1, castn _ h2⟩⟩
  · exact ⟨_, _, hc', Or.inr ⟨cast0 _ h1, castn _ h2⟩⟩
  · exact ⟨_, _, hc'.symm, Or.inr ⟨cast0 _ h1, castn _ h2⟩⟩

theorem Sym.state_inv (k : Sym) {s : State} (hs : s.WF) : k.inv.state (k.state s) = s := by
  apply State.ext_at (Sym.state_WF _ _) hs <;> try rfl
  intro x y hb
  have hb' : onB (k.state s).size x y := hb
  rw [Sym.state_at_inv k.inv (k.state s) hb', Sym.inv_inv]
  exact Sym.state_at k s hb

theorem Sym.roadPath_iff (k : Sym) {s : State} (hs : s.WF) (c : Tak.Color) :
    RoadPath (k.state s) c ↔ RoadPath s c := by
  constructor
  · intro h
    have := Sym.roadPath_map k.inv _ c h
    rwa [Sym.state_inv k hs] at this
  · exact Sym.roadPath_map k s c

theorem Sym.hasRoad_invariant (k : Sym) {s : State} (hs : s.WF) (c : Tak.Color) :
    hasRoad (k.state s) c = hasRoad s c := by
  rw [Bool.eq_iff_iff, spec_hasRoad_iff, spec_hasRoad_iff]
  exact Sym.roadPath_iff k hs c

/-- **The outcome is invariant**: game over or not, the winner, road or flat win, and both flat counts
are the same for a position and each of its eight images. -/
theorem Sym.outcome_invariant (k : Sym) {s : State} (hs : s.WF) : outcome (k.state s) = outcome s := by
  unfold outcome
  rw [Sym.hasRoad_invariant k hs, Sym.hasRoad_invariant k hs, Sym.flatCount_invariant k hs,
    Sym.flatCount_invariant k hs, (Sym.state_squares_perm k hs).all_eq]
  rfl

end Spec
