import TakVerif.Impl.Bitboard
import TakVerif.Spec.Tak

/-! Bit-level meaning of the generated `Gen.grow` and `Gen.precompute`. -/
namespace Roads
open Tak

/-- `x ⊆ y` on bitboards, bit by bit -/
def Sub (x y : W) : Prop := ∀ i, x.getLsbD i = true → y.getLsbD i = true

theorem Sub.refl (x : W) : Sub x x := fun _ h => h
theorem Sub.trans {x y z : W} (h1 : Sub x y) (h2 : Sub y z) : Sub x z := fun i h => h2 i (h1 i h)

/-- sizes the engine supports -/
def SizeOK (n : Nat) : Prop := 3 ≤ n ∧ n ≤ 8

theorem SizeOK.cases {n : Nat} (h : SizeOK n) : n = 3 ∨ n = 4 ∨ n = 5 ∨ n = 6 ∨ n = 7 ∨ n = 8 := by
  unfold SizeOK at h; omega

/-- bit-level meaning of `Gen.grow`, for arbitrary constants -/
theorem grow_bit (c : Consts) (w s : W) (i : Nat) (hi : i < 64) :
    (Gen.grow c w s).getLsbD i =
      (( s.getLsbD i
        || (decide (1 ≤ i) && s.getLsbD (i - 1) && !c.R.getLsbD i)
        || (s.getLsbD (i + 1) && !c.L.getLsbD i)
        || s.getLsbD (i + c.Size)
        || (decide (c.Size ≤ i) && s.getLsbD (i - c.Size)) ) && w.getLsbD i) := by
  unfold Gen.grow
  simp only [BitVec.getLsbD_and, BitVec.getLsbD_or, BitVec.getLsbD_shiftLeft,
    BitVec.getLsbD_ushiftRight, BitVec.getLsbD_not, hi, decide_true, Bool.true_and]
  -- congruence closure + linear arithmetic on the shifted indices: robust against harmless rewrites of `Grow`
  -- (operand order, `c.Size + 1 - 1`, …) that would break a syntactic `rw`
  grind

/-! ### the per-size masks, by kernel evaluation over the 64 bit positions.
Naming trap: Go's `c.R` is the column x = 0, `c.L` the column x = size-1. -/

theorem R_bit (n : Nat) (hn : SizeOK n) (i : Fin 64) :
    (Gen.precompute n).R.getLsbD i = (decide (i.val % n = 0) && decide (i.val < n * n)) := by
  rcases hn.cases with h | h | h | h | h | h <;> subst h <;> revert i <;> decide

theorem L_bit (n : Nat) (hn : SizeOK n) (i : Fin 64) :
    (Gen.precompute n).L.getLsbD i = (decide (i.val % n = n - 1) && decide (i.val < n * n)) := by
  rcases hn.cases with h | h | h | h | h | h <;> subst h <;> revert i <;> decide

theorem B_bit (n : Nat) (hn : SizeOK n) (i : Fin 64) :
    (Gen.precompute n).B.getLsbD i = decide (i.val < n) := by
  rcases hn.cases with h | h | h | h | h | h <;> subst h <;> revert i <;> decide

theorem T_bit (n : Nat) (hn : SizeOK n) (i : Fin 64) :
    (Gen.precompute n).T.getLsbD i = (decide (i.val / n = n - 1) && decide (i.val < n * n)) := by
  rcases hn.cases with h | h | h | h | h | h <;> subst h <;> revert i <;> decide

theorem Mask_bit (n : Nat) (hn : SizeOK n) (i : Fin 64) :
    (Gen.precompute n).Mask.getLsbD i = decide (i.val < n * n) := by
  rcases hn.cases with h | h | h | h | h | h <;> subst h <;> revert i <;> decide

theorem precompute_Size (n : Nat) : (Gen.precompute n).Size = n := rfl

/-! ### `grow` in board coordinates -/

theorem sq_le (n : Nat) (hn : SizeOK n) : n * n ≤ 64 := by
  rcases hn.cases with h | h | h | h | h | h <;> subst h <;> decide

theorem Mask_bitN (n : Nat) (hn : SizeOK n) (i : Nat) :
    (Gen.precompute n).Mask.getLsbD i = decide (i < n * n) := by
  by_cases hi : i < 64
  · exact Mask_bit n hn ⟨i, hi⟩
  · have := sq_le n hn
    rw [BitVec.getLsbD_of_ge _ _ (by omega)]
    simp; omega

theorem neighbours_any (n i : Nat) (f : Nat → Bool) :
    (Spec.neighbours n i).any f =
      ((decide (i % n > 0) && f (i - 1)) || (decide (i % n + 1 < n) && f (i + 1)) ||
       (decide (i / n > 0) && f (i - n)) || (decide (i / n + 1 < n) && f (i + n))) := by
  unfold Spec.neighbours
  simp only [List.any_append]
  by_cases h1 : i % n > 0 <;> by_cases h2 : i % n + 1 < n <;> by_cases h3 : i / n > 0 <;>
    by_cases h4 : i / n + 1 < n <;> simp [h1, h2, h3, h4]

theorem board_arith (n i : Nat) (hn : SizeOK n) (hi : i < n * n) :
    ((1 ≤ i ∧ ¬ i % n = 0) ↔ i % n > 0) ∧ (¬ i % n = n - 1 ↔ i % n + 1 < n) ∧
    (n ≤ i ↔ i / n > 0) ∧ (i / n + 1 < n ↔ i + n < n * n) := by
  rcases hn.cases with h | h | h | h | h | h <;> subst h <;>
    refine ⟨⟨?_, ?_⟩, ⟨?_, ?_⟩, ⟨?_, ?_⟩, ⟨?_, ?_⟩⟩ <;> intros <;> omega

theorem grow_spec (n : Nat) (hn : SizeOK n) (w s : W)
    (hw : Sub w (Gen.precompute n).Mask) (hs : Sub s (Gen.precompute n).Mask) (i : Nat) :
    (Gen.grow (Gen.precompute n) w s).getLsbD i =
      (w.getLsbD i && (s.getLsbD i || (Spec.neighbours n i).any (fun j => s.getLsbD j))) := by
  have hsq := sq_le n hn
  by_cases hi : i < n * n
  · have hi64 : i < 64 := by omega
    rw [grow_bit _ _ _ _ hi64, R_bit n hn ⟨i, hi64⟩, L_bit n hn ⟨i, hi64⟩, precompute_Size]
    obtain ⟨a1, a2, a3, a4⟩ := board_arith n i hn hi
    have hup : s.getLsbD (i + n) = (decide (i / n + 1 < n) && s.getLsbD (i + n)) := by
      by_cases h : i / n + 1 < n
      · simp [h]
      · simp only [h, decide_false, Bool.false_and]
        cases hb : s.getLsbD (i + n) with
        | false => rfl
        | true => have := hs _ hb; rw [Mask_bitN n hn] at this; simp at this; omega
    rw [Bool.and_comm]
    congr 1
    rw [neighbours_any, hup]
    simp only [hi, decide_true, Bool.and_true]
    have d1 : (decide (1 ≤ i) && !decide (i % n = 0)) = decide (i % n > 0) := by
      have e : decide (1 ≤ i ∧ ¬ i % n = 0) = decide (i % n > 0) := decide_eq_decide.mpr a1
      rw [← e]; simp
    have d2 : (!decide (i % n = n - 1)) = decide (i % n + 1 < n) := by
      have e : decide (¬ i % n = n - 1) = decide (i % n + 1 < n) := decide_eq_decide.mpr a2
      rw [← e]; simp
    have d3 : decide (n ≤ i) = decide (i / n > 0) := decide_eq_decide.mpr a3
    rw [← d1, ← d2, ← d3]
    cases s.getLsbD i <;> cases decide (1 ≤ i) <;> cases decide (i % n = 0) <;> cases s.getLsbD (i-1)
      <;> cases s.getLsbD (i+1) <;> cases decide (i % n = n - 1) <;> cases decide (n ≤ i) <;> cases s.getLsbD (i - n) <;> simp
  · have hwf : w.getLsbD i = false := by
      cases hb : w.getLsbD i with
      | false => rfl
      | true => have := hw _ hb; rw [Mask_bitN n hn] at this; simp at this; omega
    have : (Gen.grow (Gen.precompute n) w s).getLsbD i = false := by
      unfold Gen.grow; simp [hwf]
    rw [this, hwf]; rfl

end Roads
