import TakVerif.Proofs.GenHeur

/-! Bridge lemmas for `computeInfluence` (an out-parameter function: the ripple-carry counters are assigned in place),
`computeControl` and `scoreControl` of `ai/evaluate.go` as regenerated into `Generated/FuncsHeur.lean`. -/
namespace GenControl
open Tak Roads

/-! ### the ripple loop `for i := 0; carry != 0 && i < len(out); i++` -/

theorem inflCarry_length : ∀ (l : List W) (carry : W), (inflCarry l carry).1.length = l.length := by
  intro l
  induction l with
  | nil => intro carry; rfl
  | cons o os ih =>
    intro carry
    unfold inflCarry
    by_cases hc : (carry == 0#64) = true
    · simp [hc]
    · simp [hc, ih]

/-- the regenerated ripple loop, entered at index `len(pre)` of the counters `pre ++ post`: never panics, never runs out of
fuel `>= len(post) + 1`, leaves `pre` alone and does to `post` what the model's `inflCarry` does -/
theorem ripple : ∀ (fuel : Nat) (pre post : List W) (carry : W), post.length + 1 ≤ fuel →
    ∃ i', Gen.computeInfluence_loop1 fuel (carry, (pre.length : Int), (pre ++ post).toArray) =
      some ((inflCarry post carry).2, i', (pre ++ (inflCarry post carry).1).toArray) := by
  intro fuel
  induction fuel with
  | zero => intro pre post carry h; omega
  | succ fuel ih =>
    intro pre post carry hf
    unfold Gen.computeInfluence_loop1
    cases post with
    | nil =>
      have hd : decide ((pre.length : Int) < Int.ofNat (pre ++ []).toArray.size) = false := by simp
      simp only [hd, Bool.and_false, Bool.false_eq_true, if_false, inflCarry]
      exact ⟨_, rfl⟩
    | cons o os =>
      unfold inflCarry
      by_cases hc : (carry == 0#64) = true
      · have hne : (carry != 0#64) = false := by simpa using hc
        simp only [hne, Bool.false_and, Bool.false_eq_true, if_false, hc, if_true]
        exact ⟨_, rfl⟩
      · have hne : (carry != 0#64) = true := by simpa using hc
        have hd : decide ((pre.length : Int) < Int.ofNat (pre ++ o :: os).toArray.size) = true := by
          simp; omega
        have hget : (pre ++ o :: os).toArray.getD pre.length 0#64 = o := by
          simp [Array.getD]
        have hset : ∀ v, (pre ++ o :: os).toArray.setIfInBounds pre.length v = ((pre ++ [v]) ++ os).toArray := by
          intro v; simp
        have hlen : ((pre.length : Int) + 1) = ((pre ++ [o ^^^ carry]).length : Int) := by simp
        simp only [hne, hd, Bool.and_self, Bool.false_eq_true, if_false, if_true, Int.toNat_natCast, hget, hset, hc, hlen]
        obtain ⟨i', hrec⟩ := ih (pre ++ [o ^^^ carry]) os (o &&& carry) (by simp at hf; omega)
        rw [hrec]
        exact ⟨i', by simp⟩

/-! ### `computeInfluence` on three counters -/

/-- a list of three elements, spelled out -/
theorem three {α} (l : List α) (h : l.length = 3) : ∃ a b c, l = [a, b, c] := by
  match l, h with
  | [a, b, c], _ => exact ⟨a, b, c, rfl⟩

/-- the outer `for mine != 0` loop on three counters: never panics (the final `out[len(out)-1] |= carry` is inside the
slice), the whitelist fuel 65 suffices, and the counters end as the model's fold of `influenceAdd` over the single bits -/
theorem infl_loop (c : Consts) : ∀ (fuel : Nat) (mine a b d : W), cnt mine + 1 ≤ fuel →
    ∃ m', Gen.computeInfluence_loop0 c fuel (mine, #[a, b, d]) =
      some (m', ((lowBits 64 mine).foldl (influenceAdd c) [a, b, d]).toArray) := by
  intro fuel
  induction fuel with
  | zero => intro mine a b d h; omega
  | succ fuel ih =>
    intro mine a b d hf
    unfold Gen.computeInfluence_loop0
    by_cases hm : mine = 0#64
    · subst hm
      simp only [bne_self_eq_false, Bool.false_eq_true, if_false, GenThreat.lowBits_zero, List.foldl_nil]
      exact ⟨_, rfl⟩
    · have hne : (mine != 0#64) = true := by simpa using hm
      have hc := cnt_and_pred mine hm
      simp only [hne, if_true]
      rw [GenThreat.lowBits_cons mine hm, List.foldl_cons]
      generalize hbit : mine &&& ~~~(mine &&& (mine - 1#64)) = bit
      have hsz : (#[a, b, d] : Array W).size + 1 = 4 := rfl
      obtain ⟨i', hr⟩ := ripple 4 [] [a, b, d] (Gen.grow c c.Mask bit &&& ~~~bit) (by simp)
      have h0 : ((([] : List W).length : Nat) : Int) = 0 := rfl
      rw [h0] at hr
      simp only [List.nil_append] at hr
      have harr : ([a, b, d] : List W).toArray = #[a, b, d] := rfl
      rw [harr] at hr
      rw [hsz, hr]
      -- the counters after the ripple, spelled out
      obtain ⟨a', b', d', hl⟩ := three _ ((inflCarry_length [a, b, d] (Gen.grow c c.Mask bit &&& ~~~bit)).trans rfl)
      have hadd : influenceAdd c [a, b, d] bit =
          if (inflCarry [a, b, d] (Gen.grow c c.Mask bit &&& ~~~bit)).2 != 0#64
          then orLast (inflCarry [a, b, d] (Gen.grow c c.Mask bit &&& ~~~bit)).1 (inflCarry [a, b, d] (Gen.grow c c.Mask bit &&& ~~~bit)).2
          else (inflCarry [a, b, d] (Gen.grow c c.Mask bit &&& ~~~bit)).1 := rfl
      rw [hadd, hl]
      generalize (inflCarry [a, b, d] (Gen.grow c c.Mask bit &&& ~~~bit)).2 = carry
      have harr' : ([a', b', d'] : List W).toArray = #[a', b', d'] := rfl
      rw [harr']
      by_cases hcz : (carry != 0#64) = true
      · have hg : (!(decide ((0 : Int) ≤ Int.ofNat (#[a', b', d'] : Array W).size - (1 : Int)) &&
            decide (Int.ofNat (#[a', b', d'] : Array W).size - (1 : Int) < Int.ofNat (#[a', b', d'] : Array W).size))) = false := by
          simp
        have hidx : (Int.ofNat (#[a', b', d'] : Array W).size - (1 : Int)).toNat = 2 := by simp
        have hset : (#[a', b', d'] : Array W).setIfInBounds 2 ((#[a', b', d'] : Array W).getD 2 0#64 ||| carry) = #[a', b', d' ||| carry] := by
          simp [Array.getD]
        simp only [hcz, if_true, hg, Bool.false_eq_true, if_false, hidx, hset, orLast]
        exact ih _ _ _ _ (by omega)
      · simp only [hcz, Bool.false_eq_true, if_false]
        exact ih _ _ _ _ (by omega)

/-- **`computeInfluence`** on three zeroed counters (what `computeControl` passes) -/
theorem computeInfluence_eq (c : Consts) (mine : W) :
    Gen.computeInfluence c mine (Array.replicate 3 0#64) =
      some (computeInfluence c mine [0#64, 0#64, 0#64]).toArray := by
  unfold Gen.computeInfluence computeInfluence
  have hrep : (Array.replicate 3 0#64 : Array W) = #[0#64, 0#64, 0#64] := rfl
  rw [hrep]
  obtain ⟨m', h⟩ := infl_loop c 65 mine 0#64 0#64 0#64 (by have := cnt_le mine; omega)
  rw [h]

/-! ### `computeControl`, `scoreControl` -/

/-- **`computeControl`**: for all constants and positions the regenerated function returns the model's two masks -/
theorem computeControl_eq (c : Consts) (p : Pos) : genComputeControl c p = some (computeControl c p) := by
  unfold genComputeControl Gen.computeControl computeControl
  simp only [computeInfluence_eq]
  obtain ⟨w0, w1, w2, hw⟩ := three (computeInfluence c (p.white &&& ~~~(p.caps ||| p.standing)) [0#64, 0#64, 0#64]) (by
    unfold computeInfluence
    generalize lowBits 64 _ = l
    have : ∀ (l : List W) (o : List W), o.length = 3 → (l.foldl (influenceAdd c) o).length = 3 := by
      intro l
      induction l with
      | nil => intro o h; exact h
      | cons x xs ih =>
        intro o h
        apply ih
        obtain ⟨a, b, d, rfl⟩ := three o h
        unfold influenceAdd
        obtain ⟨a', b', d', hl⟩ := three _ ((inflCarry_length [a, b, d] (Gen.grow c c.Mask x &&& ~~~x)).trans rfl)
        simp only [hl]
        split <;> rfl
    exact this l _ rfl)
  obtain ⟨b0, b1, b2, hb⟩ := three (computeInfluence c (p.black &&& ~~~(p.caps ||| p.standing)) [0#64, 0#64, 0#64]) (by
    unfold computeInfluence
    generalize lowBits 64 _ = l
    have : ∀ (l : List W) (o : List W), o.length = 3 → (l.foldl (influenceAdd c) o).length = 3 := by
      intro l
      induction l with
      | nil => intro o h; exact h
      | cons x xs ih =>
        intro o h
        apply ih
        obtain ⟨a, b, d, rfl⟩ := three o h
        unfold influenceAdd
        obtain ⟨a', b', d', hl⟩ := three _ ((inflCarry_length [a, b, d] (Gen.grow c c.Mask x &&& ~~~x)).trans rfl)
        simp only [hl]
        split <;> rfl
    exact this l _ rfl)
  rw [hw, hb]
  simp [Gen.computeControl_loop0, Array.getD]

/-- **`scoreControl`**: for all constants, weights and positions the regenerated function returns the model's value -/
theorem scoreControl_eq (c : Consts) (ws : Weights) (p : Pos) :
    genScoreControl c ws.arr p = some (scoreControl c ws p) := by
  unfold genScoreControl Gen.scoreControl scoreControl
  simp only [GenHeur.arr_getD]
  by_cases hz : (ws.at Facts.fEmptyControl == 0 && ws.at Facts.fFlatControl == 0) = true
  · simp only [hz, if_true]
  · simp only [hz, Bool.false_eq_true, if_false]
    have hcc := computeControl_eq c p
    unfold genComputeControl at hcc
    simp only [hcc, ← C02.popcount_is_source, Int.zero_add]

end GenControl
