import TakVerif.Spec.Tak

/-! Sanity theorems about the rule book itself (`Spec.step`), so that "the rules-defined successor"
that `C01.move_refines` speaks about is visibly the right object: one ply is added, the board keeps
its shape, and no piece appears or disappears (board + reserves are conserved per colour and kind class). -/
namespace SpecProofs
open Spec Tak

theorem setAt_size (s : State) (x y : Int) (sq : Square) : (s.setAt x y sq).size = s.size := rfl
theorem setAt_ply (s : State) (x y : Int) (sq : Square) : (s.setAt x y sq).ply = s.ply := rfl
theorem setAt_len (s : State) (x y : Int) (sq : Square) :
    (s.setAt x y sq).squares.length = s.squares.length := by
  simp [State.setAt]

theorem dropLoop_frame (s : State) (x y : Int) (d : Dir) (carried : List Piece) (drops : List Nat) (s' : State)
    (h : dropLoop s x y d carried drops = some s') :
    s'.size = s.size ∧ s'.ply = s.ply ∧ s'.squares.length = s.squares.length ∧
    s'.whiteStones = s.whiteStones ∧ s'.whiteCaps = s.whiteCaps ∧
    s'.blackStones = s.blackStones ∧ s'.blackCaps = s.blackCaps ∧ s'.blackWinsTies = s.blackWinsTies := by
  induction drops generalizing s x y carried with
  | nil =>
    simp only [dropLoop] at h
    split at h
    · cases h; exact ⟨rfl, rfl, rfl, rfl, rfl, rfl, rfl, rfl⟩
    · cases h
  | cons c cs ih =>
    simp only [dropLoop] at h
    split at h
    · cases h
    · split at h
      · cases h
      · split at h
        · cases h
        · rename_i tgt htgt
          have := ih _ _ _ _ h
          simpa [State.setAt] using this

theorem decReserve_frame (s : State) (c : Color) (cap : Bool) :
    (s.decReserve c cap).size = s.size ∧ (s.decReserve c cap).ply = s.ply ∧
    (s.decReserve c cap).squares = s.squares ∧ (s.decReserve c cap).blackWinsTies = s.blackWinsTies := by
  cases c <;> cases cap <;> simp [State.decReserve]

/-- a legal move adds exactly one ply and keeps the board's shape and configuration -/
theorem step_frame (s : State) (m : Spec.Move) (s' : State) (h : step s m = some s') :
    s'.ply = s.ply + 1 ∧ s'.size = s.size ∧ s'.squares.length = s.squares.length ∧
    s'.blackWinsTies = s.blackWinsTies := by
  cases m with
  | invalid => simp [step] at h
  | place x y k =>
    simp only [step] at h
    repeat' (split at h)
    all_goals (try (cases h; done))
    all_goals
      cases h
      refine ⟨?_, ?_, ?_, ?_⟩ <;>
        simp [State.setAt, (decReserve_frame s _ _).1, (decReserve_frame s _ _).2.1,
          (decReserve_frame s _ _).2.2.1, (decReserve_frame s _ _).2.2.2]
  | slide x y d drops =>
    simp only [step] at h
    split at h <;> try (cases h; done)
    split at h <;> try (cases h; done)
    split at h <;> try (cases h; done)
    split at h <;> try (cases h; done)
    split at h <;> try (cases h; done)
    split at h <;> try (cases h; done)
    split at h <;> try (cases h; done)
    rename_i s2 hs2
    cases h
    have := dropLoop_frame _ _ _ _ _ _ _ hs2
    simp only [State.setAt, List.length_set] at this
    obtain ⟨h1, h2, h3, _, _, _, _, h8⟩ := this
    exact ⟨by simp [h2], h1, h3, h8⟩

end SpecProofs

namespace SpecProofs
open Spec Tak

/-- pieces of colour `c` in class `cap` (capstone / ordinary stone) in a list -/
def cls (c : Color) (cap : Bool) (p : Piece) : Bool := p.color == c && ((p.kind == Kind.capstone) == cap)

def cnt (c : Color) (cap : Bool) (sqs : List Square) : Nat := (sqs.map (fun q => q.countP (cls c cap))).sum

theorem cnt_set (c : Color) (cap : Bool) (sqs : List Square) (i : Nat) (q : Square) (hi : i < sqs.length) :
    cnt c cap (sqs.set i q) + (sqs.getD i []).countP (cls c cap) = cnt c cap sqs + q.countP (cls c cap) := by
  induction sqs generalizing i with
  | nil => simp at hi
  | cons a as ih =>
    cases i with
    | zero => simp [cnt]; omega
    | succ i =>
      have := ih i (by simpa using hi)
      simp [cnt] at this ⊢
      omega

theorem idx_lt (s : State) (x y : Int) (hl : s.squares.length = s.size * s.size) (hb : s.onBoard x y = true) :
    s.idx x y < s.squares.length := by
  simp only [State.onBoard, Bool.and_eq_true, decide_eq_true_eq] at hb
  obtain ⟨⟨⟨h1, h2⟩, h3⟩, h4⟩ := hb
  have hm : y * (s.size : Int) ≤ ((s.size : Int) - 1) * s.size :=
    Int.mul_le_mul_of_nonneg_right (by omega) (by omega)
  rw [Int.sub_mul] at hm
  rw [hl]
  unfold State.idx
  have hy : 0 ≤ y * (s.size : Int) := Int.mul_nonneg h3 (by omega)
  have key : x + y * (s.size : Int) < ((s.size * s.size : Nat) : Int) := by
    rw [Int.natCast_mul]
    generalize (s.size : Int) * s.size = n at *
    generalize y * (s.size : Int) = e at *
    omega
  generalize s.size * s.size = N at *
  generalize y * (s.size : Int) = e at *
  omega

end SpecProofs

namespace SpecProofs
open Spec Tak

theorem at_eq (s : State) (x y : Int) : s.at x y = s.squares.getD (s.idx x y) [] := rfl

theorem countP_take_drop (f : Piece → Bool) (l : List Piece) (k : Nat) :
    (l.take k).countP f + (l.drop k).countP f = l.countP f := by
  rw [← List.countP_append, List.take_append_drop]

/-- dropping never creates or destroys a piece: afterwards the board holds what it held plus what was carried -/
theorem dropLoop_conserve (c : Color) (cap : Bool) (s : State) (x y : Int) (d : Dir) (carried : List Piece)
    (drops : List Nat) (s' : State) (hl : s.squares.length = s.size * s.size)
    (h : dropLoop s x y d carried drops = some s') :
    cnt c cap s'.squares = cnt c cap s.squares + carried.countP (cls c cap) := by
  induction drops generalizing s x y carried with
  | nil =>
    simp only [dropLoop] at h
    split at h
    · rename_i he
      cases h
      have : carried = [] := by simpa using he
      simp [this]
    · cases h
  | cons k ks ih =>
    simp only [dropLoop] at h
    split at h
    · cases h
    · rename_i hob
      split at h
      · cases h
      · split at h
        · cases h
        · rename_i tgt htgt
          have hob' : s.onBoard (x + d.dx) (y + d.dy) = true := by simpa using hob
          have hi := idx_lt s _ _ hl hob'
          have hset := cnt_set c cap s.squares (s.idx (x + d.dx) (y + d.dy))
            (List.drop (carried.length - k) carried ++ tgt) hi
          have hrec := ih (s.setAt (x + d.dx) (y + d.dy) (List.drop (carried.length - k) carried ++ tgt))
            (x + d.dx) (y + d.dy) (List.take (carried.length - k) carried)
            (by simpa [State.setAt] using hl) h
          have htd := countP_take_drop (cls c cap) carried (carried.length - k)
          -- entering a square keeps its pieces' colours and classes (a flattened wall is still a stone)
          have hflat : tgt.countP (cls c cap) = (s.at (x + d.dx) (y + d.dy)).countP (cls c cap) := by
            revert htgt
            cases hsq : s.at (x + d.dx) (y + d.dy) with
            | nil => intro htgt; simp at htgt; subst htgt; rfl
            | cons t rest =>
              simp only
              cases hk : t.kind with
              | capstone => simp
              | flat => intro htgt; simp at htgt; subst htgt; rfl
              | standing =>
                cases carried with
                | nil => simp
                | cons cp tl =>
                  cases tl with
                  | cons _ _ => simp
                  | nil =>
                    simp only
                    split
                    · intro htgt; simp at htgt; subst htgt
                      have e1 : (Kind.flat == Kind.capstone) = false := rfl
                      have e2 : (Kind.standing == Kind.capstone) = false := rfl
                      simp [List.countP_cons, cls, hk, e1, e2]
                    · simp
          rw [at_eq] at hflat
          simp only [State.setAt, List.countP_append] at hrec hset
          rw [hrec]
          omega

end SpecProofs

namespace SpecProofs
open Spec Tak

/-- pieces of colour `c`, class `cap`, on the board and in reserve -/
def total (c : Color) (cap : Bool) (s : State) : Nat := cnt c cap s.squares + s.reserve c cap

theorem reserve_frame (s : State) (sq : List Square) (p : Int) (c : Color) (cap : Bool) :
    ({ s with squares := sq, ply := p } : State).reserve c cap = s.reserve c cap := by
  cases c <;> cases cap <;> rfl

theorem idx_decReserve (s : State) (c : Color) (cap : Bool) (x y : Int) : (s.decReserve c cap).idx x y = s.idx x y := by
  unfold State.idx; rw [(decReserve_frame s c cap).1]

theorem reserve_decReserve (s : State) (c c' : Color) (cap cap' : Bool) (hc' : c' ≠ Color.none)
    (hpos : s.reserve c' cap' ≠ 0) :
    (s.decReserve c' cap').reserve c cap + (if c' = c ∧ cap' = cap then 1 else 0) = s.reserve c cap := by
  cases c <;> cases c' <;> cases cap <;> cases cap' <;> simp_all [State.decReserve, State.reserve] <;> omega

/-- placing one piece of colour `col` from the reserve onto an empty square conserves every total -/
theorem place_conserves (s : State) (x y : Int) (col : Color) (k : Kind) (c : Color) (cap : Bool)
    (hcol : col ≠ Color.none) (hi : s.idx x y < s.squares.length)
    (hempty : s.squares.getD (s.idx x y) [] = []) (hres : s.reserve col (k == Kind.capstone) ≠ 0) (p : Int) :
    total c cap { ((s.decReserve col (k == Kind.capstone)).setAt x y [⟨col, k⟩]) with ply := p } = total c cap s := by
  have hset := cnt_set c cap s.squares (s.idx x y) [⟨col, k⟩] hi
  have hr := reserve_decReserve s c col cap (k == Kind.capstone) hcol hres
  have hsq : (s.decReserve col (k == Kind.capstone)).squares = s.squares := (decReserve_frame s _ _).2.2.1
  unfold total
  simp only [State.setAt, hsq, idx_decReserve]
  have hrf := reserve_frame (s.decReserve col (k == Kind.capstone))
    (s.squares.set (s.idx x y) [⟨col, k⟩]) p c cap
  simp only [hempty, List.countP_nil, List.countP_cons, cls] at hset
  rw [hrf]
  simp only [Bool.and_eq_true, beq_iff_eq] at hset
  by_cases he : col = c ∧ (k == Kind.capstone) = cap
  · rw [if_pos he] at hset hr
    omega
  · rw [if_neg he] at hset hr
    omega

end SpecProofs

namespace SpecProofs
open Spec Tak

theorem toMove_ne_none (s : State) : s.toMove ≠ Color.none ∧ s.toMove.flip ≠ Color.none := by
  unfold State.toMove; split <;> simp [Color.flip]

/-- **no piece appears or disappears**: a legal move conserves, for each colour, the number of ordinary
stones (flats + walls) and of capstones, counted over board + reserve -/
theorem step_conserves (s : State) (m : Spec.Move) (s' : State) (c : Color) (cap : Bool)
    (hl : s.squares.length = s.size * s.size) (h : step s m = some s') :
    total c cap s' = total c cap s := by
  cases m with
  | invalid => simp [step] at h
  | place x y k =>
    simp only [step] at h
    have hcol : (if s.ply < 2 then s.toMove.flip else s.toMove) ≠ Color.none := by
      split
      · exact (toMove_ne_none s).2
      · exact (toMove_ne_none s).1
    generalize (if s.ply < 2 then s.toMove.flip else s.toMove) = col at h hcol
    split at h
    · cases h
    · rename_i hob
      split at h
      · cases h
      · split at h
        · cases h
        · rename_i hemp
          split at h
          · cases h
          · rename_i hres
            cases h
            have hob' : s.onBoard x y = true := by simpa using hob
            have hi := idx_lt s x y hl hob'
            have hempty : s.squares.getD (s.idx x y) [] = [] := by
              have : (s.at x y).isEmpty = true := by simpa using hemp
              rw [at_eq] at this
              exact List.isEmpty_iff.mp this
            have hres' : s.reserve col (k == Kind.capstone) ≠ 0 := by simpa using hres
            exact place_conserves s x y col k c cap hcol hi hempty hres' _
  | slide x y d drops =>
    simp only [step] at h
    split at h
    · cases h
    · split at h
      · cases h
      · rename_i hob
        split at h
        · cases h
        · split at h
          · cases h
          · split at h
            · cases h
            · rename_i t rest hsq
              split at h
              · cases h
              · split at h
                · cases h
                · rename_i s2 hs2
                  cases h
                  have hob' : s.onBoard x y = true := by simpa using hob
                  have hi := idx_lt s x y hl hob'
                  have hc := dropLoop_conserve c cap _ _ _ _ _ _ _ (by simpa [State.setAt] using hl) hs2
                  have hfr := dropLoop_frame _ _ _ _ _ _ _ hs2
                  have hset := cnt_set c cap s.squares (s.idx x y)
                    (List.drop (List.foldl (· + ·) 0 drops) (s.at x y)) hi
                  have htd := countP_take_drop (cls c cap) (s.at x y) (List.foldl (· + ·) 0 drops)
                  rw [← at_eq] at hset
                  obtain ⟨_, _, _, r1, r2, r3, r4, _⟩ := hfr
                  have hres : total c cap { s2 with ply := s2.ply + 1 } = cnt c cap s2.squares + s.reserve c cap := by
                    unfold total
                    congr 1
                    cases c <;> cases cap <;> simp only [State.reserve, State.setAt] at * <;>
                      first | exact r1 | exact r2 | exact r3 | exact r4 | rfl
                  rw [hres]
                  unfold total
                  simp only [State.setAt] at hc
                  rw [hc]
                  omega

end SpecProofs
