import TakVerif.Proofs.SearchCoverCancel

/-! Completeness of verdicts with a table at the level of `Analyze` and of histories of calls on one engine. -/
namespace Search
open Tak (Err)

variable {P M : Type} [DecidableEq M]

local notation "W" => Facts.winThreshold

/-! ### any call (possibly cancelled) keeps the table good -/

/-- what a deepening step leaves -/
def StepKeeps (g : Game P M) : AOut M → Prop
  | .go _ s' => TableGood g s'
  | .done _ s' => TableGood g s'
  | .cancelled s' => TableGood g s'

theorem analyzeStep_keeps {g : Game P M} (hg : GameOK g) (he : EvalOK g) (hinj : HashOK g)
    {cfg : Cfg} (hpr : Precise cfg.opts) {o : Oracle M} (hm : o.Monotone) (hord : OrderOK o)
    (p : P) (base i : Int) (a : ALoop M) (s : Eng M) (hts : TableGood g s) :
    Sat (analyzeStep g cfg o p base i a s) (StepKeeps g) := by
  unfold analyzeStep pvSearch
  have hab : Facts.minEval - 1 < Facts.maxEval + 1 := by simp only [Facts.minEval, Facts.maxEval]; omega
  have hs := (search_keeps hg he hinj hpr hm hord (Facts.maxDepth - 0)).1 p 0 (i + base) a.ms
    (Facts.minEval - 1) (Facts.maxEval + 1) { s with st := { depth := i + base } } (hts.of_table rfl) hab
  cases hr : (search g cfg.opts o (Facts.maxDepth - 0)).1 p 0 (i + base) a.ms (Facts.minEval - 1)
      (Facts.maxEval + 1) { s with st := { depth := i + base } } with
  | error e => exact Sat.error
  | ok r =>
    obtain ⟨⟨next, nv⟩, s1⟩ := r
    have hts1 : TableGood g s1 := hs _ hr
    apply Sat.ok
    unfold iterEnd
    cases next with
    | none => exact hts1
    | some nx =>
      dsimp only
      have hl : TableGood g (load o s1).2 := hts1.of_table rfl
      cases hc : (load o s1).1 with
      | true => simp only [if_true]; exact hl
      | false =>
        simp only [Bool.false_eq_true, if_false]
        rcases iterDone_cases cfg base i a nx nv (load o s1).2 with h | h
        · rw [h]; exact hl
        · rw [h]; exact hl

theorem analyzeLoop_keeps {g : Game P M} (hg : GameOK g) (he : EvalOK g) (hinj : HashOK g)
    {cfg : Cfg} (hpr : Precise cfg.opts) {o : Oracle M} (hm : o.Monotone) (hord : OrderOK o) (p : P) (base : Int) :
    ∀ (n : Nat) (i : Int) (a : ALoop M) (s : Eng M), TableGood g s →
      Sat (analyzeLoop g cfg o p base n i a s) (fun x => TableGood g x.2) := by
  intro n
  induction n with
  | zero => intro i a s hts; simp only [analyzeLoop]; exact Sat.ok hts
  | succ n ih =>
    intro i a s hts
    simp only [analyzeLoop]
    split
    · exact Sat.ok hts
    · have hstep := analyzeStep_keeps hg he hinj hpr hm hord p base i a s hts
      cases hr : analyzeStep g cfg o p base i a s with
      | error e => exact Sat.error
      | ok x =>
        have hx := hstep x hr
        cases x with
        | cancelled s' => exact Sat.ok hx
        | done a' s' => exact Sat.ok hx
        | go a' s' => exact ih (i + 1) a' s' hx

/-- **`Analyze`, cancelled or not, keeps the table good** (precise options, any table size, any move order, any
oracle whose flag stays set once set) -/
theorem analyze_keeps {g : Game P M} (hg : GameOK g) (he : EvalOK g) (hinj : HashOK g)
    {cfg : Cfg} (hpr : Precise cfg.opts) {o : Oracle M} (hm : o.Monotone) (hord : OrderOK o) (p : P) (s : Eng M)
    (hts : TableGood g s) :
    Sat (analyze g cfg o p s) (fun x => TableGood g x.2) := by
  unfold analyze
  cases hg' : ttGet { s with loads := 0, evals := 0, sorts := 0, rnds := 0, wlog := [] } (g.hash p) with
  | error e => exact Sat.error
  | ok te =>
    show Sat (analyzeFrom g cfg o p (seedOf te) { s with loads := 0, evals := 0, sorts := 0, rnds := 0, wlog := [] }) _
    unfold analyzeFrom
    have hloop := analyzeLoop_keeps hg he hinj hpr hm hord p (seedOf te).1 (cfg.depth - (seedOf te).1).toNat 1
      ⟨(seedOf te).2.1, (seedOf te).2.2, { depth := (seedOf te).1 }, 0, 0⟩
      { s with loads := 0, evals := 0, sorts := 0, rnds := 0, wlog := [] } (hts.of_table rfl)
    cases hr : analyzeLoop g cfg o p (seedOf te).1 (cfg.depth - (seedOf te).1).toNat 1
        ⟨(seedOf te).2.1, (seedOf te).2.2, { depth := (seedOf te).1 }, 0, 0⟩
        { s with loads := 0, evals := 0, sorts := 0, rnds := 0, wlog := [] } with
    | error e => exact Sat.error
    | ok x =>
      obtain ⟨a, s'⟩ := x
      exact Sat.ok (hloop _ hr)

theorem runCalls_keeps {g : Game P M} (hg : GameOK g) (he : EvalOK g) (hinj : HashOK g)
    {cfg : Cfg} (hpr : Precise cfg.opts) :
    ∀ (h : History P M) (s : Eng M), (∀ x ∈ h, OrderOK x.2) → (∀ x ∈ h, x.2.Monotone) → TableGood g s →
      Sat (runCalls g cfg h s) (fun x => TableGood g x.2) := by
  intro h
  induction h with
  | nil => intro s _ _ hts; exact Sat.ok hts
  | cons c rest ih =>
    intro s hord hmono hts
    obtain ⟨p, o⟩ := c
    simp only [runCalls]
    have ha := analyze_keeps hg he hinj hpr (hmono (p, o) (by simp)) (hord (p, o) (by simp)) p s hts
    cases hr : analyze g cfg o p s with
    | error e => exact Sat.error
    | ok x =>
      obtain ⟨r, s1⟩ := x
      have hts1 : TableGood g s1 := ha _ hr
      dsimp only
      have hrest := ih s1 (fun x hx => hord x (List.mem_cons_of_mem _ hx))
        (fun x hx => hmono x (List.mem_cons_of_mem _ hx)) hts1
      cases hr2 : runCalls g cfg rest s1 with
      | error e => exact Sat.error
      | ok y =>
        obtain ⟨rs, s2⟩ := y
        have hts2 : TableGood g s2 := hrest _ hr2
        exact Sat.ok hts2

/-! ### an uncancelled call reports every forced result within its reported depth -/

/-- the value `v` reported with depth `depth` covers that depth: not a win ⇒ no forced win within it, not a loss ⇒
no forced loss within it -/
def VCovers (g : Game P M) (p : P) (v : Int) (depth : Int) : Prop :=
  (v ≤ W → negamax g depth.toNat p ≤ W) ∧ (-W ≤ v → -W ≤ negamax g depth.toNat p)

omit [DecidableEq M] in
theorem seedOf_covers {g : Game P M} (he : EvalOK g) (p : P) (hov : g.over p = false) (te : Option (TEntry M))
    (h : ∀ e, te = some e → GoodE g e p) :
    VCovers g p (seedOf te).2.2 (seedOf te).1 := by
  have hzero : VCovers g p 0 0 := by
    have hin := he.inside p hov
    constructor <;> intro _ <;> (show _ ≤ _; rw [show (0 : Int).toNat = 0 from rfl, negamax_zero])
    · exact hin.2
    · exact hin.1
  unfold seedOf
  cases te with
  | none => exact hzero
  | some e =>
    dsimp only
    split
    · rename_i hb
      have hb' : e.bound = Facts.exactBound := by simpa using hb
      exact ⟨(h e rfl).2.1 (Or.inr hb'), (h e rfl).2.2 (Or.inr hb')⟩
    · exact hzero

/-- what a deepening step of an uncancelled call leaves -/
def StepCovers (g : Game P M) (p : P) : AOut M → Prop
  | .go a' s' => TableGood g s' ∧ VCovers g p a'.v a'.st.depth
  | .done a' s' => TableGood g s' ∧ VCovers g p a'.v a'.st.depth
  | .cancelled s' => TableGood g s'

theorem analyzeStep_covers {g : Game P M} (hg : GameOK g) (he : EvalOK g) (hinj : HashOK g)
    {cfg : Cfg} (hpr : Precise cfg.opts) {o : Oracle M} (hnc : NoCancel o) (hord : OrderOK o)
    (p : P) (base i : Int) (a : ALoop M) (s : Eng M) (hts : TableGood g s) :
    Sat (analyzeStep g cfg o p base i a s) (StepCovers g p) := by
  unfold analyzeStep pvSearch
  have hab : Facts.minEval - 1 < Facts.maxEval + 1 := by simp only [Facts.minEval, Facts.maxEval]; omega
  have hs := (search_good hg he hinj hpr hnc hord (Facts.maxDepth - 0)).1 p 0 (i + base) a.ms
    (Facts.minEval - 1) (Facts.maxEval + 1) { s with st := { depth := i + base } } (hts.of_table rfl) hab
  have hloc := (search_loc (o := o) g cfg.opts (Facts.maxDepth - 0)).1 p 0 (i + base) a.ms
    (Facts.minEval - 1) (Facts.maxEval + 1) { s with st := { depth := i + base } }
  cases hr : (search g cfg.opts o (Facts.maxDepth - 0)).1 p 0 (i + base) a.ms (Facts.minEval - 1)
      (Facts.maxEval + 1) { s with st := { depth := i + base } } with
  | error e => exact Sat.error
  | ok r =>
    obtain ⟨⟨next, nv⟩, s1⟩ := r
    obtain ⟨hts1, hres⟩ := hs _ hr
    obtain ⟨_, _, hd1, _, _⟩ := hloc (next, nv) s1 hr
    dsimp only at hts1 hres hd1
    apply Sat.ok
    unfold iterEnd
    cases next with
    | none => exact hts1
    | some nx =>
      dsimp only
      have hl : TableGood g (load o s1).2 := hts1.of_table rfl
      have hv : VCovers g p nv (i + base) := by
        constructor
        · intro h1; exact hres.noWin (by simp only [Facts.maxEval, Facts.winThreshold] at h1 ⊢; omega) h1
        · intro h1; exact hres.noLoss (by simp only [Facts.minEval, Facts.winThreshold] at h1 ⊢; omega) h1
      have hAd : (iterAcc i a nx nv (load o s1).2).st.depth = i + base := hd1
      have hAv : (iterAcc i a nx nv (load o s1).2).v = nv := rfl
      cases hc : (load o s1).1 with
      | true => simp only [if_true]; exact hl
      | false =>
        simp only [Bool.false_eq_true, if_false]
        rcases iterDone_cases cfg base i a nx nv (load o s1).2 with h | h
        · rw [h]; exact ⟨hl, by rw [hAd, hAv]; exact hv⟩
        · rw [h]; exact ⟨hl, by rw [hAd, hAv]; exact hv⟩

theorem analyzeLoop_covers {g : Game P M} (hg : GameOK g) (he : EvalOK g) (hinj : HashOK g)
    {cfg : Cfg} (hpr : Precise cfg.opts) {o : Oracle M} (hnc : NoCancel o) (hord : OrderOK o) (p : P) (base : Int) :
    ∀ (n : Nat) (i : Int) (a : ALoop M) (s : Eng M), TableGood g s → VCovers g p a.v a.st.depth →
      Sat (analyzeLoop g cfg o p base n i a s) (fun x => TableGood g x.2 ∧ VCovers g p x.1.v x.1.st.depth) := by
  intro n
  induction n with
  | zero => intro i a s hts hv; simp only [analyzeLoop]; exact Sat.ok ⟨hts, hv⟩
  | succ n ih =>
    intro i a s hts hv
    simp only [analyzeLoop]
    split
    · exact Sat.ok ⟨hts, hv⟩
    · have hstep := analyzeStep_covers hg he hinj hpr hnc hord p base i a s hts
      cases hr : analyzeStep g cfg o p base i a s with
      | error e => exact Sat.error
      | ok x =>
        have hx := hstep x hr
        cases x with
        | cancelled s' => exact Sat.ok ⟨hx, hv⟩
        | done a' s' => exact Sat.ok hx
        | go a' s' => exact ih (i + 1) a' s' hx.1 hx.2

/-- **an uncancelled `Analyze` of an unfinished position on an engine whose table is good**: the table stays good
and the reported value covers the reported depth -/
theorem analyze_covers {g : Game P M} (hg : GameOK g) (he : EvalOK g) (hinj : HashOK g)
    {cfg : Cfg} (hpr : Precise cfg.opts) {o : Oracle M} (hnc : NoCancel o) (hord : OrderOK o) (p : P)
    (hov : g.over p = false) (s : Eng M) (hts : TableGood g s) :
    Sat (analyze g cfg o p s) (fun x => TableGood g x.2 ∧ VCovers g p x.1.2.1 x.1.2.2.depth) := by
  unfold analyze
  have hts0 : TableGood g { s with loads := 0, evals := 0, sorts := 0, rnds := 0, wlog := [] } := hts.of_table rfl
  have hget := ttGet_good hts0 p hov
  cases hg' : ttGet { s with loads := 0, evals := 0, sorts := 0, rnds := 0, wlog := [] } (g.hash p) with
  | error e => exact Sat.error
  | ok te =>
    have hte := hget te hg'
    show Sat (analyzeFrom g cfg o p (seedOf te) { s with loads := 0, evals := 0, sorts := 0, rnds := 0, wlog := [] }) _
    unfold analyzeFrom
    have hseed := seedOf_covers he p hov te hte
    have hloop := analyzeLoop_covers hg he hinj hpr hnc hord p (seedOf te).1 (cfg.depth - (seedOf te).1).toNat 1
      ⟨(seedOf te).2.1, (seedOf te).2.2, { depth := (seedOf te).1 }, 0, 0⟩
      { s with loads := 0, evals := 0, sorts := 0, rnds := 0, wlog := [] } hts0 hseed
    cases hr : analyzeLoop g cfg o p (seedOf te).1 (cfg.depth - (seedOf te).1).toNat 1
        ⟨(seedOf te).2.1, (seedOf te).2.2, { depth := (seedOf te).1 }, 0, 0⟩
        { s with loads := 0, evals := 0, sorts := 0, rnds := 0, wlog := [] } with
    | error e => exact Sat.error
    | ok x =>
      obtain ⟨a, s'⟩ := x
      exact Sat.ok (hloop _ hr)

/-- **verdict completeness over histories**: after any history of `Analyze` calls on one engine — any positions, any
table size, every call with its own move order and its own (monotone) cancellation — an uncancelled `Analyze` of an
unfinished position reports every forced win and every forced loss that exists within the depth it reports -/
theorem runCalls_then_complete {g : Game P M} (hg : GameOK g) (he : EvalOK g) (hinj : HashOK g)
    {cfg : Cfg} (hpr : Precise cfg.opts) (h : History P M) (hord : ∀ x ∈ h, OrderOK x.2)
    (hmono : ∀ x ∈ h, x.2.Monotone) (p : P) (hov : g.over p = false) {o : Oracle M} (hnc : NoCancel o)
    (hord' : OrderOK o) (rs : List (P × Int)) (s : Eng M) (r : List M × Int × Stats) (s' : Eng M)
    (h1 : runCalls g cfg h (Eng.new g cfg) = .ok (rs, s)) (h2 : analyze g cfg o p s = .ok (r, s')) :
    (negamax g r.2.2.depth.toNat p > W → r.2.1 > W) ∧ (negamax g r.2.2.depth.toNat p < -W → r.2.1 < -W) := by
  have hts : TableGood g s := runCalls_keeps hg he hinj hpr h _ hord hmono (tableGood_new he cfg) _ h1
  obtain ⟨_, hv1, hv2⟩ := analyze_covers hg he hinj hpr hnc hord' p hov s hts _ h2
  dsimp only at hv1 hv2
  constructor
  · intro hw
    by_cases hle : r.2.1 ≤ W
    · have := hv1 hle; omega
    · omega
  · intro hl
    by_cases hle : -W ≤ r.2.1
    · have := hv2 hle; omega
    · omega

end Search
