import TakVerif.Proofs.ThreatMain
import TakVerif.Proofs.MoveRefine

/-! C19, step 6: from C01's well-formedness (`Tak.WF`) to the hypotheses of `threat_real_impl`, and the winning
move as a *legal move of the rule book* (`Spec.step`) through `C01.move_refines`. -/
namespace C19
open Tak Roads Spec

/-- C01's invariant (cells consistent, heights, hash, frame) plus "the stored groups are the analysed ones"
gives C02's board invariant and the height condition -/
theorem wf_bridge (basis : Array W) (p : Pos) (hwf : WF basis p) (han : p.analyze = some p) :
    WFBoard p ∧ HeightsOK p := by
  have hn : SizeOK p.cfg.size := ⟨hwf.size_ge, hwf.size_le⟩
  have hsub : ∀ (x : W), (∀ j, p.cfg.size * p.cfg.size ≤ j → x.getLsbD j = false) → Sub x p.c.Mask := by
    intro x hx k hk
    rw [hwf.consts, Mask_bitN _ hn]
    simp only [decide_eq_true_eq]
    apply Classical.byContradiction
    intro hge
    rw [hx k (by omega)] at hk; cases hk
  refine ⟨⟨⟨hn, hwf.consts, hsub _ (fun j hj => (hwf.mask j hj).1), hsub _ (fun j hj => (hwf.mask j hj).2.1),
    hwf.white_black_disjoint, han⟩, ?_, hwf.standing_caps_disjoint⟩, ?_⟩
  · intro k hk
    have := (hwf.cell k).kind_occ
    simp only [Pos.cell] at this
    rw [BitVec.getLsbD_or] at hk ⊢
    simp only [Bool.or_eq_true] at hk ⊢
    exact this hk
  · intro i hi
    have hz := (hwf.cell i).h_zero
    simp only [Pos.cell] at hz
    rw [BitVec.getLsbD_or] at hi
    have hne : p.height.getD i 0#8 ≠ 0#8 := by
      intro e
      have := hz.mp e
      rw [this.1, this.2] at hi; cases hi
    have : (p.height.getD i 0#8).toNat ≠ 0 := by
      intro e
      apply hne
      apply BitVec.eq_of_toNat_eq
      rw [e]; rfl
    omega

/-- **C19 with the rule book on both sides.**  `p` well-formed in C01's sense with its analysis up to date, ply ≥ 2,
not over, a positive count for the mover; `hlim`: the documented 64-piece stack limit is respected by the moves
of this position (automatic when the game has at most 64 pieces, `C01.stack_limit_of_budget`).  Then some move is
*legal by the rule book* (`Spec.step (abs p) (decode m) = some s'`) and in `s'` the mover has a `RoadPath`; the
rule book's verdict on `s'` is: over, by a road, won by the mover. -/
theorem threat_real_legal (basis : Array W) (p : Pos) (hwf : WF basis p) (han : p.analyze = some p)
    (hlim : ∀ m, StackLimit p m) (hply : 2 ≤ p.move) (hno : p.gameOver.1 = false)
    (hcount : 0 < (countThreats p.c p).forMover p) :
    ∃ m s', Spec.step (Spec.abs p) (Spec.decode m) = some s' ∧ Spec.RoadPath s' p.toMove ∧
      (Spec.outcome s').over = true ∧ (Spec.outcome s').road = true ∧ (Spec.outcome s').winner = p.toMove := by
  obtain ⟨wfb, hh⟩ := wf_bridge basis p hwf han
  obtain ⟨m, q, hmt, happ, ⟨a, b, c⟩, h3, wfq⟩ := threat_real_impl basis p wfb hh hply hno hcount
  have hA : AnalyzeTotal := fun p => Roads.analyze_ne_none p
  have href := move_refines_core hA hwf m hmt (hlim m)
  rw [happ] at href
  simp only at href
  have hc : p.toMove ≠ .none := by rcases toMove_cases p with h | h <;> rw [h] <;> decide
  have hr := winDetails_refines q wfq
  refine ⟨m, Spec.abs q, href.1, (groups_any_iff_roadPath q wfq p.toMove hc).mp h3, ?_, ?_, ?_⟩
  · rw [← hr]; exact a
  · rw [← hr]; simp [toOutcome, c]
  · rw [← hr]; exact b

end C19
