import TakVerif.Proofs.SymBasic

/-! The canonicalisation algorithm of `symmetry.Canonical` over an abstract game with a symmetry action,
and its three properties: the output is a legal game whose prefixes reach images of the input's prefix
positions; step-wise images of a game (in particular its eight images, and its own canonical form) have
the same canonical form.  Nothing here knows about Tak; `Proofs/CanonTak.lean` instantiates it. -/
namespace Canon
open Spec (Sym)

/-- a game with a symmetry action and a preference order on moves -/
structure Sys where
  S : Type
  M : Type
  decS : DecidableEq S
  act : Sym → S → S
  mact : Sym → M → M
  step : S → M → Option S
  prefer : M → M → Bool
  act_one : ∀ s, act 0 s = s
  act_mul : ∀ a b s, act (Sym.mul a b) s = act a (act b s)
  mact_mul : ∀ a b m, mact (Sym.mul a b) m = mact a (mact b m)
  equiv : ∀ k s m, step (act k s) (mact k m) = (step s m).map (act k)
  pref_irrefl : ∀ m, prefer m m = false
  pref_trans : ∀ a b c, prefer a b = true → prefer b c = true → prefer a c = true
  /-- moves of one orbit that are not strictly ordered are equal -/
  pref_tie : ∀ a b m, prefer (mact a m) (mact b m) = false → prefer (mact b m) (mact a m) = false →
    mact a m = mact b m

variable (Y : Sys)

instance : DecidableEq Y.S := Y.decS

/-- `k` fixes the board -/
def Stab (b : Y.S) (k : Sym) : Prop := Y.act k b = b

theorem stab_one (b : Y.S) : Stab Y b 0 := Y.act_one b

theorem stab_mul {b : Y.S} {a c : Sym} (ha : Stab Y b a) (hc : Stab Y b c) : Stab Y b (Sym.mul a c) := by
  unfold Stab at *; rw [Y.act_mul, hc, ha]

theorem stab_inv {b : Y.S} {a : Sym} (ha : Stab Y b a) : Stab Y b a.inv := by
  unfold Stab at *
  have : Y.act a.inv (Y.act a b) = b := by rw [← Y.act_mul, Sym.inv_mul, Y.act_one]
  rw [ha] at this; exact this

/-- the identity acts trivially on anything that already is an image -/
theorem mact_one_img (k : Sym) (m : Y.M) : Y.mact 0 (Y.mact k m) = Y.mact k m := by
  rw [← Y.mact_mul, Sym.one_mul]

/-- the scan over the boards 1..7 that still equal board 0 -/
def scan (b0 : Y.S) (m : Y.M) : List Sym → Y.M × Option Sym → Y.M × Option Sym
  | [], acc => acc
  | k :: ks, (best, rot) =>
    if Y.act k b0 = b0 then
      if Y.prefer (Y.mact k m) best then scan b0 m ks (Y.mact k m, some k) else scan b0 m ks (best, rot)
    else scan b0 m ks (best, rot)

/-- what the scan has established about its accumulator, relative to the set `P` of candidates seen -/
def ScanInv (b0 : Y.S) (m : Y.M) (acc : Y.M × Option Sym) (P : Y.M → Prop) : Prop :=
  (∃ τ, Stab Y b0 τ ∧ acc.1 = Y.mact τ m ∧ (acc.2 = some τ ∨ (acc.2 = none ∧ τ = 0))) ∧
  ∀ c, P c → Y.prefer c acc.1 = false

theorem scan_spec (b0 : Y.S) (m : Y.M) : ∀ (ks : List Sym) (acc : Y.M × Option Sym) (P : Y.M → Prop),
    ScanInv Y b0 m acc P →
    ScanInv Y b0 m (scan Y b0 m ks acc) (fun c => P c ∨ ∃ k ∈ ks, Stab Y b0 k ∧ c = Y.mact k m) := by
  intro ks
  induction ks with
  | nil =>
    intro acc P h
    refine ⟨h.1, ?_⟩
    intro c hc
    rcases hc with hc | ⟨k, hk, _⟩
    · exact h.2 c hc
    · simp at hk
  | cons k ks ih =>
    intro acc P h
    obtain ⟨best, rot⟩ := acc
    unfold scan
    have widen : ∀ (acc' : Y.M × Option Sym) (P' : Y.M → Prop),
        (∀ c, (P c ∨ ∃ j ∈ k :: ks, Stab Y b0 j ∧ c = Y.mact j m) → (P' c ∨ ∃ j ∈ ks, Stab Y b0 j ∧ c = Y.mact j m)) →
        ScanInv Y b0 m (scan Y b0 m ks acc') (fun c => P' c ∨ ∃ j ∈ ks, Stab Y b0 j ∧ c = Y.mact j m) →
        ScanInv Y b0 m (scan Y b0 m ks acc') (fun c => P c ∨ ∃ j ∈ k :: ks, Stab Y b0 j ∧ c = Y.mact j m) := by
      intro acc' P' hsub hinv
      exact ⟨hinv.1, fun c hc => hinv.2 c (hsub c hc)⟩
    by_cases hst : Y.act k b0 = b0
    · simp only [hst, if_true]
      by_cases hp : Y.prefer (Y.mact k m) best = true
      · simp only [hp, if_true]
        apply widen _ (fun c => P c ∨ c = Y.mact k m)
        · intro c hc
          rcases hc with hc | ⟨j, hj, hjs, hjc⟩
          · exact Or.inl (Or.inl hc)
          · rcases List.mem_cons.1 hj with rfl | hj
            · exact Or.inl (Or.inr hjc)
            · exact Or.inr ⟨j, hj, hjs, hjc⟩
        · apply ih
          refine ⟨⟨k, hst, rfl, Or.inl rfl⟩, ?_⟩
          intro c hc
          rcases hc with hc | rfl
          · -- an older candidate better than the new best would be better than the old best
            cases hcb : Y.prefer c (Y.mact k m) with
            | false => rfl
            | true =>
              have := Y.pref_trans _ _ _ hcb hp
              rw [h.2 c hc] at this; cases this
          · exact Y.pref_irrefl _
      · simp only [hp]
        apply widen _ (fun c => P c ∨ c = Y.mact k m)
        · intro c hc
          rcases hc with hc | ⟨j, hj, hjs, hjc⟩
          · exact Or.inl (Or.inl hc)
          · rcases List.mem_cons.1 hj with rfl | hj
            · exact Or.inl (Or.inr hjc)
            · exact Or.inr ⟨j, hj, hjs, hjc⟩
        · apply ih
          refine ⟨h.1, ?_⟩
          intro c hc
          rcases hc with hc | rfl
          · exact h.2 c hc
          · simpa using hp
    · simp only [hst, if_false]
      apply widen _ P
      · intro c hc
        rcases hc with hc | ⟨j, hj, hjs, hjc⟩
        · exact Or.inl hc
        · rcases List.mem_cons.1 hj with rfl | hj
          · exact absurd hjs hst
          · exact Or.inr ⟨j, hj, hjs, hjc⟩
      · exact ih _ _ h

/-- the candidates 1..7 -/
def others : List Sym := [1, 2, 3, 4, 5, 6, 7]

theorem mem_others (k : Sym) (h : k ≠ 0) : k ∈ others := by
  revert k; decide

/-- result of the full scan for a move that is an image: a stabiliser element `τ`, the move `τ m`, minimal
in the stabiliser orbit of `m` -/
theorem scan_full (b0 : Y.S) (m : Y.M) (himg : Y.mact 0 m = m) :
    ∃ τ, Stab Y b0 τ ∧ (scan Y b0 m others (m, none)).1 = Y.mact τ m ∧
      ((scan Y b0 m others (m, none)).2 = some τ ∨ ((scan Y b0 m others (m, none)).2 = none ∧ τ = 0)) ∧
      ∀ σ, Stab Y b0 σ → Y.prefer (Y.mact σ m) (scan Y b0 m others (m, none)).1 = false := by
  have h0 : ScanInv Y b0 m (m, none) (fun c => c = m) := by
    refine ⟨⟨0, stab_one Y b0, himg.symm, Or.inr ⟨rfl, rfl⟩⟩, ?_⟩
    intro c hc; subst hc; exact Y.pref_irrefl _
  obtain ⟨⟨τ, h1, h2, h3⟩, h4⟩ := scan_spec Y b0 m others (m, none) _ h0
  refine ⟨τ, h1, h2, h3, ?_⟩
  intro σ hσ
  apply h4
  by_cases h : σ = 0
  · left; rw [h, himg]
  · right; exact ⟨σ, mem_others σ h, hσ, rfl⟩

/-- loop state: board 0, the accumulated transform, `boards[0].moves` -/
structure St where
  b0 : Y.S
  tfn : Sym
  out : List Y.M

/-- one iteration of the `for ply, m := range ms` loop -/
def stepA (st : St Y) (m0 : Y.M) : Option (St Y) :=
  let m := Y.mact st.tfn m0
  let r := scan Y st.b0 m others (m, none)
  let tfn' := match r.2 with | some k => Sym.mul k st.tfn | none => st.tfn
  let m' := match r.2 with | some _ => r.1 | none => m
  match Y.step st.b0 m' with
  | none => none
  | some b => some ⟨b, tfn', st.out ++ [Y.mact 0 m']⟩

/-- the chosen move: the best stabiliser image if one was preferred, else the move itself -/
def sel {M : Type} (r : M × Option Sym) (m : M) : M := match r.2 with | some _ => r.1 | none => m

/-- the new accumulated transform -/
def selT {M : Type} (r : M × Option Sym) (t : Sym) : Sym := match r.2 with | some k => Sym.mul k t | none => t

/-- the move played on board 0 in an iteration -/
def pickM (st : St Y) (m0 : Y.M) : Y.M :=
  sel (scan Y st.b0 (Y.mact st.tfn m0) others (Y.mact st.tfn m0, none)) (Y.mact st.tfn m0)

/-- the accumulated transform after an iteration -/
def pickT (st : St Y) (m0 : Y.M) : Sym :=
  selT (scan Y st.b0 (Y.mact st.tfn m0) others (Y.mact st.tfn m0, none)) st.tfn

theorem stepA_eq (st : St Y) (m0 : Y.M) :
    stepA Y st m0 = match Y.step st.b0 (pickM Y st m0) with
      | none => none
      | some b => some ⟨b, pickT Y st m0, st.out ++ [Y.mact 0 (pickM Y st m0)]⟩ := rfl

def runA : St Y → List Y.M → Option (St Y)
  | st, [] => some st
  | st, m :: ms => match stepA Y st m with
    | none => none
    | some st' => runA st' ms

def replay : Y.S → List Y.M → Option Y.S
  | p, [] => some p
  | p, m :: ms => match Y.step p m with
    | none => none
    | some p' => replay p' ms

/-- the canonical form of a game from the start position `s0` -/
def canonA (s0 : Y.S) (ms : List Y.M) : Option (List Y.M) :=
  (runA Y ⟨s0, 0, []⟩ ms).map (·.out)

/-- **One step.**  If board 0 shows the `tfn`-image of the input position `p` and the input move is legal
there, the step succeeds: for some `τ` fixing board 0 the new transform is `τ·tfn`, the emitted move `μ` is
the image of the input move under the new transform, it is legal on board 0, the new board 0 shows the
image of the new input position, and `μ` is minimal among the stabiliser images of `tfn a`. -/
theorem stepA_some (st : St Y) (p p' : Y.S) (a : Y.M) (hb : st.b0 = Y.act st.tfn p)
    (hs : Y.step p a = some p') :
    ∃ τ, Stab Y st.b0 τ ∧
      stepA Y st a = some ⟨Y.act (Sym.mul τ st.tfn) p', Sym.mul τ st.tfn, st.out ++ [Y.mact (Sym.mul τ st.tfn) a]⟩ ∧
      Y.step st.b0 (Y.mact (Sym.mul τ st.tfn) a) = some (Y.act (Sym.mul τ st.tfn) p') ∧
      ∀ σ, Stab Y st.b0 σ → Y.prefer (Y.mact σ (Y.mact st.tfn a)) (Y.mact (Sym.mul τ st.tfn) a) = false := by
  have himg : Y.mact 0 (Y.mact st.tfn a) = Y.mact st.tfn a := mact_one_img Y _ _
  obtain ⟨τ, h1, h2, h3, h4⟩ := scan_full Y st.b0 (Y.mact st.tfn a) himg
  refine ⟨τ, h1, ?_, ?_, ?_⟩
  · -- the step itself
    have hstep : Y.step st.b0 (Y.mact τ (Y.mact st.tfn a)) = some (Y.act (Sym.mul τ st.tfn) p') := by
      have e := Y.equiv τ st.b0 (Y.mact st.tfn a)
      rw [h1] at e
      rw [e, hb, Y.equiv st.tfn p a, hs]
      simp [Y.act_mul]
    unfold stepA
    simp only
    rcases h3 with h3 | ⟨h3, h0⟩
    · rw [h3]
      simp only [h2, hstep]
      rw [mact_one_img, ← Y.mact_mul]
    · rw [h3]
      subst h0
      simp only
      rw [himg] at hstep
      rw [hstep]
      simp [Sym.one_mul, himg]
  · have e := Y.equiv τ st.b0 (Y.mact st.tfn a)
    rw [h1] at e
    rw [Y.mact_mul, e, hb, Y.equiv st.tfn p a, hs]
    simp [Y.act_mul]
  · intro σ hσ
    rw [Y.mact_mul, ← h2]
    exact h4 σ hσ

theorem stepA_none (st : St Y) (p : Y.S) (a : Y.M) (hb : st.b0 = Y.act st.tfn p)
    (hs : Y.step p a = none) : stepA Y st a = none := by
  have himg : Y.mact 0 (Y.mact st.tfn a) = Y.mact st.tfn a := mact_one_img Y _ _
  obtain ⟨τ, h1, h2, h3, -⟩ := scan_full Y st.b0 (Y.mact st.tfn a) himg
  have hstep : Y.step st.b0 (Y.mact τ (Y.mact st.tfn a)) = none := by
    have e := Y.equiv τ st.b0 (Y.mact st.tfn a)
    rw [h1] at e
    rw [e, hb, Y.equiv st.tfn p a, hs]; rfl
  unfold stepA
  simp only
  rcases h3 with h3 | ⟨h3, h0⟩
  · rw [h3]; simp only [h2, hstep]
  · rw [h3]; subst h0; simp only; rw [himg] at hstep; rw [hstep]

/-! ### one run: legality and prefix images -/

/-- invariant of a run against the input game: board 0 is the `tfn`-image of the input position, and it is
what replaying the output so far from the start gives -/
structure RunInv (s0 : Y.S) (st : St Y) (p : Y.S) : Prop where
  img : st.b0 = Y.act st.tfn p
  rep : replay Y s0 st.out = some st.b0

theorem replay_append (p : Y.S) (xs ys : List Y.M) :
    replay Y p (xs ++ ys) = match replay Y p xs with | none => none | some q => replay Y q ys := by
  induction xs generalizing p with
  | nil => rfl
  | cons x xs ih =>
    simp only [List.cons_append, replay]
    cases Y.step p x with
    | none => rfl
    | some p' => exact ih p'

theorem run_spec (s0 : Y.S) : ∀ (ms : List Y.M) (st : St Y) (p pEnd : Y.S),
    RunInv Y s0 st p → replay Y p ms = some pEnd →
    ∃ st', runA Y st ms = some st' ∧ RunInv Y s0 st' pEnd ∧ st'.out.length = st.out.length + ms.length := by
  intro ms
  induction ms with
  | nil =>
    intro st p pEnd inv h
    simp only [replay, Option.some.injEq] at h
    subst h
    exact ⟨st, rfl, inv, rfl⟩
  | cons a ms ih =>
    intro st p pEnd inv h
    simp only [replay] at h
    cases hs : Y.step p a with
    | none => rw [hs] at h; cases h
    | some p' =>
      rw [hs] at h
      obtain ⟨τ, h1, h2, h3, -⟩ := stepA_some Y st p p' a inv.img hs
      have inv' : RunInv Y s0 ⟨Y.act (Sym.mul τ st.tfn) p', Sym.mul τ st.tfn, st.out ++ [Y.mact (Sym.mul τ st.tfn) a]⟩ p' := by
        refine ⟨rfl, ?_⟩
        rw [replay_append, inv.rep]
        simp only [replay, h3]
      obtain ⟨st', r1, r2, r3⟩ := ih _ p' pEnd inv' h
      refine ⟨st', ?_, r2, ?_⟩
      · simp only [runA, h2]; exact r1
      · rw [r3]; simp; omega

theorem runA_append (st : St Y) (xs ys : List Y.M) :
    runA Y st (xs ++ ys) = match runA Y st xs with | none => none | some st' => runA Y st' ys := by
  induction xs generalizing st with
  | nil => rfl
  | cons x xs ih =>
    simp only [List.cons_append, runA]
    cases stepA Y st x with
    | none => rfl
    | some st' => exact ih st'

theorem stepA_out (st st' : St Y) (m : Y.M) (h : stepA Y st m = some st') :
    ∃ μ, st'.out = st.out ++ [μ] := by
  unfold stepA at h
  simp only at h
  split at h
  · cases h
  · cases h; exact ⟨_, rfl⟩

theorem runA_out (ms : List Y.M) : ∀ (st st' : St Y), runA Y st ms = some st' →
    ∃ suf, st'.out = st.out ++ suf ∧ suf.length = ms.length := by
  induction ms with
  | nil => intro st st' h; simp only [runA, Option.some.injEq] at h; subst h; exact ⟨[], by simp, rfl⟩
  | cons m ms ih =>
    intro st st' h
    simp only [runA] at h
    cases hs : stepA Y st m with
    | none => rw [hs] at h; cases h
    | some st1 =>
      rw [hs] at h
      obtain ⟨μ, hμ⟩ := stepA_out Y st st1 m hs
      obtain ⟨suf, h1, h2⟩ := ih st1 st' h
      exact ⟨μ :: suf, by rw [h1, hμ]; simp, by simp [h2]⟩

theorem replay_take (p pEnd : Y.S) (ms : List Y.M) (t : Nat) (h : replay Y p ms = some pEnd) :
    ∃ pt, replay Y p (ms.take t) = some pt := by
  have := replay_append Y p (ms.take t) (ms.drop t)
  rw [List.take_append_drop, h] at this
  cases hr : replay Y p (ms.take t) with
  | none => rw [hr] at this; cases this
  | some pt => exact ⟨pt, rfl⟩

/-- **Legal, same length, prefix-wise images.** -/
theorem canon_legal_prefix_images (s0 pEnd : Y.S) (ms : List Y.M) (h : replay Y s0 ms = some pEnd) :
    ∃ out, canonA Y s0 ms = some out ∧ out.length = ms.length ∧
      ∀ t, t ≤ ms.length → ∃ k pt, replay Y s0 (ms.take t) = some pt ∧
        replay Y s0 (out.take t) = some (Y.act k pt) := by
  have inv0 : RunInv Y s0 ⟨s0, 0, []⟩ s0 := ⟨(Y.act_one s0).symm, rfl⟩
  obtain ⟨st', r1, r2, r3⟩ := run_spec Y s0 ms _ s0 pEnd inv0 h
  refine ⟨st'.out, by simp [canonA, r1], by simpa using r3, ?_⟩
  intro t ht
  obtain ⟨pt, hpt⟩ := replay_take Y s0 pEnd ms t h
  obtain ⟨st1, q1, q2, q3⟩ := run_spec Y s0 (ms.take t) _ s0 pt inv0 hpt
  -- the run on the prefix is a prefix of the run
  have hsplit := runA_append Y ⟨s0, 0, []⟩ (ms.take t) (ms.drop t)
  rw [List.take_append_drop, r1, q1] at hsplit
  obtain ⟨suf, s1, s2⟩ := runA_out Y (ms.drop t) st1 st' hsplit.symm
  have hlen : st1.out.length = t := by
    rw [q3]; simp; omega
  have htake : st'.out.take t = st1.out := by
    rw [s1, List.take_append_of_le_length (by omega), List.take_of_length_le (by omega)]
  refine ⟨st1.tfn, pt, hpt, ?_⟩
  rw [htake, q2.rep, q2.img]

/-! ### two runs on step-wise images -/

/-- `StepImg pA pB as bs`: game `bs` from `pB` is, ply by ply, an image of game `as` from `pA` — each
position of the second game is the image of the corresponding position of the first under some map, and
the move played there is the image of the move under the same map (the map may change from ply to ply) -/
inductive StepImg : Y.S → Y.S → List Y.M → List Y.M → Prop
  | nil (pA pB : Y.S) : StepImg pA pB [] []
  | cons (g : Sym) (pA pB pA' : Y.S) (a : Y.M) (as bs : List Y.M) :
      pB = Y.act g pA → Y.step pA a = some pA' → StepImg pA' (Y.act g pA') as bs →
      StepImg pA pB (a :: as) (Y.mact g a :: bs)

/-- a move minimal in its stabiliser orbit is determined by the orbit -/
theorem orbit_min_unique (b : Y.S) (m₁ : Y.M) (κ τ₁ τ₂ : Sym) (hκ : Stab Y b κ) (h1 : Stab Y b τ₁) (h2 : Stab Y b τ₂)
    (min1 : ∀ σ, Stab Y b σ → Y.prefer (Y.mact σ m₁) (Y.mact τ₁ m₁) = false)
    (min2 : ∀ σ, Stab Y b σ → Y.prefer (Y.mact σ (Y.mact κ m₁)) (Y.mact τ₂ (Y.mact κ m₁)) = false) :
    Y.mact τ₁ m₁ = Y.mact τ₂ (Y.mact κ m₁) := by
  rw [← Y.mact_mul τ₂ κ]
  apply Y.pref_tie
  · -- τ₁ m₁ is in the orbit of κ m₁
    have := min2 (Sym.mul τ₁ κ.inv) (stab_mul Y h1 (stab_inv Y hκ))
    rw [← Y.mact_mul, ← Y.mact_mul, Sym.mul_assoc, Sym.inv_mul, Sym.mul_one] at this
    exact this
  · exact min1 _ (stab_mul Y h2 hκ)

/-- **Simulation.**  Two runs whose boards 0 agree, on games that are step-wise images of each other,
emit the same moves. -/
theorem sim : ∀ (pA pB : Y.S) (as bs : List Y.M), StepImg Y pA pB as bs →
    ∀ (stA stB : St Y), stA.b0 = Y.act stA.tfn pA → stB.b0 = Y.act stB.tfn pB → stA.b0 = stB.b0 →
      stA.out = stB.out →
      ∃ stA' stB', runA Y stA as = some stA' ∧ runA Y stB bs = some stB' ∧ stA'.out = stB'.out := by
  intro pA pB as bs h
  induction h with
  | nil pA pB => intro stA stB _ _ _ ho; exact ⟨stA, stB, rfl, rfl, ho⟩
  | cons g pA pB pA' a as bs hpB hstep _ ih =>
    intro stA stB hA hB hb ho
    obtain ⟨τA, a1, a2, a3, a4⟩ := stepA_some Y stA pA pA' a hA hstep
    have hstepB : Y.step pB (Y.mact g a) = some (Y.act g pA') := by
      rw [hpB, Y.equiv, hstep]; rfl
    obtain ⟨τB, b1, b2, b3, b4⟩ := stepA_some Y stB pB (Y.act g pA') (Y.mact g a) hB hstepB
    -- κ = tfnB · g · tfnA⁻¹ fixes the common board and carries tfnA a to tfnB (g a)
    have hκ : Stab Y stA.b0 (Sym.mul (Sym.mul stB.tfn g) stA.tfn.inv) := by
      show Y.act _ stA.b0 = stA.b0
      calc Y.act (Sym.mul (Sym.mul stB.tfn g) stA.tfn.inv) stA.b0
          = Y.act (Sym.mul (Sym.mul stB.tfn g) stA.tfn.inv) (Y.act stA.tfn pA) := by rw [← hA]
        _ = Y.act (Sym.mul stB.tfn g) pA := by rw [← Y.act_mul, Sym.mul_assoc, Sym.inv_mul, Sym.mul_one]
        _ = stB.b0 := by rw [Y.act_mul, ← hpB, ← hB]
        _ = stA.b0 := hb.symm
    have hκm : Y.mact (Sym.mul (Sym.mul stB.tfn g) stA.tfn.inv) (Y.mact stA.tfn a) = Y.mact stB.tfn (Y.mact g a) := by
      rw [← Y.mact_mul, Sym.mul_assoc, Sym.inv_mul, Sym.mul_one, Y.mact_mul]
    have b1' : Stab Y stA.b0 τB := by rw [hb]; exact b1
    have b4' : ∀ σ, Stab Y stA.b0 σ →
        Y.prefer (Y.mact σ (Y.mact (Sym.mul (Sym.mul stB.tfn g) stA.tfn.inv) (Y.mact stA.tfn a)))
          (Y.mact τB (Y.mact (Sym.mul (Sym.mul stB.tfn g) stA.tfn.inv) (Y.mact stA.tfn a))) = false := by
      intro σ hσ
      rw [hκm, ← Y.mact_mul τB]
      exact b4 σ (by rw [← hb]; exact hσ)
    have a4' : ∀ σ, Stab Y stA.b0 σ → Y.prefer (Y.mact σ (Y.mact stA.tfn a)) (Y.mact τA (Y.mact stA.tfn a)) = false := by
      intro σ hσ; rw [← Y.mact_mul τA]; exact a4 σ hσ
    have hμ : Y.mact (Sym.mul τA stA.tfn) a = Y.mact (Sym.mul τB stB.tfn) (Y.mact g a) := by
      have := orbit_min_unique Y stA.b0 (Y.mact stA.tfn a) _ τA τB hκ a1 b1' a4' b4'
      rw [hκm, ← Y.mact_mul, ← Y.mact_mul] at this
      exact this
    -- the new boards agree: the same move played on the same board
    have hboards : Y.act (Sym.mul τA stA.tfn) pA' = Y.act (Sym.mul τB stB.tfn) (Y.act g pA') := by
      have e1 := a3
      have e2 := b3
      rw [← hb, ← hμ, e1] at e2
      exact Option.some.inj e2
    obtain ⟨stA', stB', r1, r2, r3⟩ := ih
      ⟨Y.act (Sym.mul τA stA.tfn) pA', Sym.mul τA stA.tfn, stA.out ++ [Y.mact (Sym.mul τA stA.tfn) a]⟩
      ⟨Y.act (Sym.mul τB stB.tfn) (Y.act g pA'), Sym.mul τB stB.tfn, stB.out ++ [Y.mact (Sym.mul τB stB.tfn) (Y.mact g a)]⟩
      rfl rfl hboards (by rw [ho, hμ])
    refine ⟨stA', stB', ?_, ?_, r3⟩
    · simp only [runA, a2]; exact r1
    · simp only [runA, b2]; exact r2

/-- a game and its image under one map are step-wise images -/
theorem stepImg_const (g : Sym) : ∀ (ms : List Y.M) (p pEnd : Y.S), replay Y p ms = some pEnd →
    StepImg Y p (Y.act g p) ms (ms.map (Y.mact g)) := by
  intro ms
  induction ms with
  | nil => intro p _ _; exact StepImg.nil _ _
  | cons a ms ih =>
    intro p pEnd h
    simp only [replay] at h
    cases hs : Y.step p a with
    | none => rw [hs] at h; cases h
    | some p' =>
      rw [hs] at h
      exact StepImg.cons g p _ p' a ms _ rfl hs (ih p' pEnd h)

/-- **All images of a game have the same canonical form** (from a start position every map fixes). -/
theorem canon_orbit_invariant (s0 pEnd : Y.S) (hsym : ∀ k, Y.act k s0 = s0) (g : Sym) (ms : List Y.M)
    (h : replay Y s0 ms = some pEnd) :
    canonA Y s0 (ms.map (Y.mact g)) = canonA Y s0 ms := by
  have hi := stepImg_const Y g ms s0 pEnd h
  rw [hsym g] at hi
  obtain ⟨stA', stB', r1, r2, r3⟩ := sim Y s0 s0 _ _ hi ⟨s0, 0, []⟩ ⟨s0, 0, []⟩
    (Y.act_one s0).symm (Y.act_one s0).symm rfl rfl
  simp [canonA, r1, r2, r3]

/-- a game and the output of a run on it are step-wise images -/
theorem stepImg_run : ∀ (ms : List Y.M) (p pEnd : Y.S) (st st' : St Y), st.b0 = Y.act st.tfn p →
    replay Y p ms = some pEnd → runA Y st ms = some st' →
    ∃ suf, st'.out = st.out ++ suf ∧ StepImg Y p st.b0 ms suf := by
  intro ms
  induction ms with
  | nil =>
    intro p pEnd st st' _ _ hr
    simp only [runA, Option.some.injEq] at hr
    subst hr
    exact ⟨[], by simp, StepImg.nil _ _⟩
  | cons a ms ih =>
    intro p pEnd st st' hb h hr
    simp only [replay] at h
    cases hs : Y.step p a with
    | none => rw [hs] at h; cases h
    | some p' =>
      rw [hs] at h
      obtain ⟨τ, t1, t2, t3, -⟩ := stepA_some Y st p p' a hb hs
      simp only [runA, t2] at hr
      obtain ⟨suf, s1, s2⟩ := ih p' pEnd _ st' rfl h hr
      refine ⟨Y.mact (Sym.mul τ st.tfn) a :: suf, by rw [s1]; simp, ?_⟩
      -- board 0 is also the (τ·tfn)-image of p, because τ fixes it
      have hb' : st.b0 = Y.act (Sym.mul τ st.tfn) p := by
        rw [Y.act_mul, ← hb]; exact t1.symm
      exact StepImg.cons (Sym.mul τ st.tfn) p st.b0 p' a ms suf hb' hs s2

/-- **Canonicalising a canonical form changes nothing.** -/
theorem canon_idempotent (s0 pEnd : Y.S) (ms out : List Y.M) (h : replay Y s0 ms = some pEnd)
    (hc : canonA Y s0 ms = some out) : canonA Y s0 out = some out := by
  unfold canonA at hc
  cases hr : runA Y ⟨s0, 0, []⟩ ms with
  | none => rw [hr] at hc; cases hc
  | some stA =>
    rw [hr] at hc
    simp only [Option.map_some, Option.some.injEq] at hc
    obtain ⟨suf, s1, s2⟩ := stepImg_run Y ms s0 pEnd _ stA (Y.act_one s0).symm h hr
    simp only [List.nil_append] at s1
    obtain ⟨stA', stB', r1, r2, r3⟩ := sim Y s0 s0 _ _ s2 ⟨s0, 0, []⟩ ⟨s0, 0, []⟩
      (Y.act_one s0).symm (Y.act_one s0).symm rfl rfl
    rw [hr] at r1
    cases r1
    rw [← hc, s1]
    simp [canonA, r2, ← r3, s1]

end Canon
