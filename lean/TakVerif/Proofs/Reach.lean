import TakVerif.Proofs.MoveRefine
import TakVerif.Proofs.HashInv
import TakVerif.Proofs.NoPanic

/-! `WF` of the start position and along move sequences. -/
namespace Tak
open Spec (abs decode)

theorem new_cell_empty {cfg : Cfg} {p : Pos} (h : Pos.new cfg = .ok p) (j : Nat) : p.cell j = Cell.empty := by
  obtain ⟨_, _, hp⟩ := new_ok h
  rw [hp]
  apply Cell.ext' <;> simp only [Pos.cell, Cell.empty]
  · simp
  · simp
  · simp
  · simp
  · exact getD_replicate _ _ _
  · exact getD_replicate _ _ _

/-- `tak.New` yields a well-formed position for every configuration it accepts (size 3..8) -/
theorem new_wf (basis : Array W) {cfg : Cfg} {p : Pos} (h : Pos.new cfg = .ok p) : WF basis p := by
  have hh := new_hinv basis h
  obtain ⟨h3, h8, hp⟩ := new_ok h
  refine { size_ge := by rw [hp]; exact h3, size_le := by rw [hp]; exact h8, consts := by rw [hp],
           height_size := by rw [hp]; simp, stacks_size := by rw [hp]; simp,
           cell := ?_, hash := hh.hash, move_nonneg := by rw [hp]; simp }
  intro j
  rw [new_cell_empty h j]
  exact Cell.empty_wf

/-- the rule book applied to a list of moves -/
def stepAll : Spec.State → List Spec.Move → Option Spec.State
  | s, [] => some s
  | s, m :: ms => match Spec.step s m with
    | some s' => stepAll s' ms
    | none => none

/-- side conditions of `move_refines` along a sequence: no pass moves, and the 64-piece limit at every step -/
def MovesOK (basis : Array W) : Pos → List Move → Prop
  | _, [] => True
  | p, m :: ms => m.type ≠ Facts.mtPass ∧ StackLimit p m ∧ ∀ q, p.apply basis m = .ok q → MovesOK basis q ms

theorem applyAll_refines {basis : Array W} (hA : AnalyzeTotal) (ms : List Move) {p : Pos} (hwf : WF basis p)
    (hok : MovesOK basis p ms) :
    match p.applyAll basis ms with
    | .error _ => stepAll (abs p) (ms.map decode) = none
    | .ok q => stepAll (abs p) (ms.map decode) = some (abs q) ∧ WF basis q := by
  induction ms generalizing p with
  | nil => exact ⟨rfl, hwf⟩
  | cons m ms ih =>
    obtain ⟨hp, hlim, hrest⟩ := hok
    have hstep := move_refines_core hA hwf m hp hlim
    simp only [Pos.applyAll, List.map_cons, stepAll]
    cases hm : p.apply basis m with
    | error e =>
      rw [hm] at hstep
      simp only at hstep ⊢
      rw [hstep]
    | ok q =>
      rw [hm] at hstep
      simp only at hstep ⊢
      rw [hstep.1]
      exact ih hstep.2 (hrest q hm)

end Tak

namespace Tak
open Spec (abs decode)

theorem abs_square_le {basis : Array W} {p : Pos} (hwf : WF basis p) : ∀ sq ∈ (abs p).squares, sq.length ≤ 64 := by
  intro sq hsq
  simp only [Spec.abs, List.mem_map, List.mem_range] at hsq
  obtain ⟨j, _, rfl⟩ := hsq
  rw [squareAt_cell, Cell.square_length (hwf.cell j)]
  exact (hwf.cell j).h_le

theorem step_place_squares {s s' : Spec.State} {x y : Int} {k : Kind} (h : Spec.step s (.place x y k) = some s') :
    ∃ pc, s'.squares = s.squares.set (s.idx x y) [pc] := by
  simp only [Spec.step] at h
  generalize (if s.ply < 2 then s.toMove.flip else s.toMove) = col at h
  split at h
  · cases h
  split at h
  · cases h
  split at h
  · cases h
  split at h
  · cases h
  cases h
  refine ⟨⟨col, k⟩, ?_⟩
  show List.set _ _ _ = _
  unfold Spec.State.idx
  rw [(decReserve_fields s col (k == .capstone)).1, (decReserve_fields s col (k == .capstone)).2.2.1]

/-- placements never exceed the stack limit -/
theorem StackLimit.place {basis : Array W} {p : Pos} (hwf : WF basis p) (m : Move) (k : Kind) (h : m.type = placeCode k) :
    StackLimit p m := by
  intro s' hs'
  rw [decode_place m k h] at hs'
  obtain ⟨pc, hpc⟩ := step_place_squares hs'
  intro sq hsq
  rw [hpc] at hsq
  rcases List.mem_or_eq_of_mem_set hsq with h1 | h1
  · exact abs_square_le hwf sq h1
  · rw [h1]; simp

/-- a sequence of placements satisfies the side conditions of `reachable_wf` -/
theorem movesOK_places {basis : Array W} (hA : AnalyzeTotal) (ms : List Move) {p : Pos} (hwf : WF basis p)
    (hall : ∀ m ∈ ms, ∃ k, m.type = placeCode k) : MovesOK basis p ms := by
  induction ms generalizing p with
  | nil => trivial
  | cons m ms ih =>
    obtain ⟨k, hk⟩ := hall m (by simp)
    refine ⟨?_, StackLimit.place hwf m k hk, ?_⟩
    · rw [hk]; cases k <;> decide
    · intro q hq
      have := place_refines hA hwf m k hk
      rw [hq] at this
      exact ih this.2 (fun m' hm' => hall m' (by simp [hm']))

end Tak
