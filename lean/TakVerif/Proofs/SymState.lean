import TakVerif.Proofs.SymBasic

/-! The action of the eight maps on list-level states: reading and writing squares. -/
namespace Spec

/-- the board list has one entry per square -/
def State.WF (s : State) : Prop := s.squares.length = s.size * s.size

theorem idx_nat (s : State) (a b : Nat) : s.idx (a : Int) (b : Int) = a + b * s.size := by
  unfold State.idx
  rw [← Int.natCast_mul, ← Int.natCast_add, Int.toNat_natCast]

theorem onB_nat {n : Nat} {x y : Int} (h : onB n x y) :
    ∃ a b : Nat, x = a ∧ y = b ∧ a < n ∧ b < n := by
  obtain ⟨h1, h2, h3, h4⟩ := h
  refine ⟨x.toNat, y.toNat, ?_, ?_, ?_, ?_⟩ <;> omega

theorem cell_lt {n a b : Nat} (ha : a < n) (hb : b < n) : a + b * n < n * n := by
  have : (b + 1) * n ≤ n * n := Nat.mul_le_mul_right n hb
  rw [Nat.add_mul] at this
  omega

theorem cell_mod {n a b : Nat} (ha : a < n) : (a + b * n) % n = a := by
  rw [Nat.add_mul_mod_self_right, Nat.mod_eq_of_lt ha]

theorem cell_div {n a b : Nat} (ha : a < n) : (a + b * n) / n = b := by
  have hn : 0 < n := by omega
  rw [Nat.add_mul_div_right _ _ hn, Nat.div_eq_of_lt ha, Nat.zero_add]

theorem cell_inj {n a b a' b' : Nat} (ha : a < n) (ha' : a' < n) (h : a + b * n = a' + b' * n) :
    a = a' ∧ b = b' := by
  have h1 := congrArg (· % n) h
  have h2 := congrArg (· / n) h
  simp only [cell_mod ha, cell_mod ha', cell_div ha, cell_div ha'] at h1 h2
  exact ⟨h1, h2⟩

theorem idx_lt (s : State) {x y : Int} (h : onB s.size x y) : s.idx x y < s.size * s.size := by
  obtain ⟨a, b, rfl, rfl, ha, hb⟩ := onB_nat h
  rw [idx_nat]; exact cell_lt ha hb

theorem idx_inj (s : State) {x y x' y' : Int} (h : onB s.size x y) (h' : onB s.size x' y')
    (e : s.idx x y = s.idx x' y') : x = x' ∧ y = y' := by
  obtain ⟨a, b, rfl, rfl, ha, hb⟩ := onB_nat h
  obtain ⟨a', b', rfl, rfl, ha', hb'⟩ := onB_nat h'
  rw [idx_nat, idx_nat] at e
  obtain ⟨e1, e2⟩ := cell_inj ha ha' e
  subst e1; subst e2; exact ⟨rfl, rfl⟩

/-- decomposition of an index below `n*n` into on-board coordinates -/
theorem idx_decomp (s : State) {j : Nat} (hj : j < s.size * s.size) :
    onB s.size ((j % s.size : Nat) : Int) ((j / s.size : Nat) : Int) ∧
    s.idx ((j % s.size : Nat) : Int) ((j / s.size : Nat) : Int) = j := by
  have hn : 0 < s.size := by
    rcases Nat.eq_zero_or_pos s.size with h | h
    · rw [h] at hj; simp at hj
    · exact h
  have h1 : j % s.size < s.size := Nat.mod_lt _ hn
  have h2 : j / s.size < s.size := by
    rw [Nat.div_lt_iff_lt_mul hn]; exact hj
  refine ⟨⟨Int.natCast_nonneg _, Int.ofNat_lt.mpr h1, Int.natCast_nonneg _, Int.ofNat_lt.mpr h2⟩, ?_⟩
  rw [idx_nat]
  have := Nat.mod_add_div j s.size
  rw [Nat.mul_comm] at this
  exact this

/-! ### reading the image -/

@[simp] theorem Sym.state_size (k : Sym) (s : State) : (k.state s).size = s.size := rfl
@[simp] theorem Sym.state_ply (k : Sym) (s : State) : (k.state s).ply = s.ply := rfl
@[simp] theorem Sym.state_toMove (k : Sym) (s : State) : (k.state s).toMove = s.toMove := rfl
@[simp] theorem Sym.state_reserve (k : Sym) (s : State) (c : Tak.Color) (cap : Bool) :
    (k.state s).reserve c cap = s.reserve c cap := by
  cases c <;> cases cap <;> rfl
@[simp] theorem Sym.state_onBoard (k : Sym) (s : State) (x y : Int) :
    (k.state s).onBoard x y = s.onBoard x y := rfl

theorem Sym.state_WF (k : Sym) (s : State) : (k.state s).WF := by
  simp [State.WF, Sym.state]

theorem Sym.state_squares_getD (k : Sym) (s : State) {j : Nat} (hj : j < s.size * s.size) :
    (k.state s).squares.getD j [] =
      s.at (k.inv.app s.size ((j % s.size : Nat) : Int) ((j / s.size : Nat) : Int)).1
           (k.inv.app s.size ((j % s.size : Nat) : Int) ((j / s.size : Nat) : Int)).2 := by
  simp [Sym.state, List.getD_eq_getElem?_getD, hj]

/-- the square at `(x', y')` of the image is the square at `k⁻¹(x', y')` of the original -/
theorem Sym.state_at_inv (k : Sym) (s : State) {x' y' : Int} (h : onB s.size x' y') :
    (k.state s).at x' y' = s.at (k.inv.app s.size x' y').1 (k.inv.app s.size x' y').2 := by
  obtain ⟨a, b, rfl, rfl, ha, hb⟩ := onB_nat h
  show (k.state s).squares.getD ((k.state s).idx a b) [] = _
  rw [idx_nat, Sym.state_size, Sym.state_squares_getD k s (cell_lt ha hb), cell_mod ha, cell_div ha]

/-- the square at `k(x, y)` of the image is the square at `(x, y)` of the original -/
theorem Sym.state_at (k : Sym) (s : State) {x y : Int} (h : onB s.size x y) :
    (k.state s).at (k.app s.size x y).1 (k.app s.size x y).2 = s.at x y := by
  rw [Sym.state_at_inv k s ((Sym.onB_app k s.size x y).2 h), Sym.app_inv]

/-! ### extensionality and writing -/

theorem State.ext_at {s t : State} (hs : s.WF) (ht : t.WF)
    (h1 : s.size = t.size) (h2 : s.blackWinsTies = t.blackWinsTies) (h3 : s.ply = t.ply)
    (h4 : s.whiteStones = t.whiteStones) (h5 : s.whiteCaps = t.whiteCaps)
    (h6 : s.blackStones = t.blackStones) (h7 : s.blackCaps = t.blackCaps)
    (hat : ∀ x y, onB s.size x y → s.at x y = t.at x y) : s = t := by
  have hsq : s.squares = t.squares := by
    apply List.ext_getElem
    · rw [hs, ht, h1]
    · intro i hi hi'
      have hi2 : i < s.size * s.size := by rw [← hs]; exact hi
      obtain ⟨hb, hidx⟩ := idx_decomp s hi2
      have := hat _ _ hb
      unfold State.at at this
      have hidx' : t.idx ((i % s.size : Nat) : Int) ((i / s.size : Nat) : Int) = i := by
        unfold State.idx at hidx ⊢; rw [← h1]; exact hidx
      rw [hidx, hidx'] at this
      simpa [List.getD_eq_getElem?_getD, hi, hi'] using this
  cases s; cases t; simp_all

theorem State.setAt_WF {s : State} (hs : s.WF) (x y : Int) (q : Square) : (s.setAt x y q).WF := by
  simp [State.WF, State.setAt] at *; exact hs

@[simp] theorem State.setAt_size (s : State) (x y : Int) (q : Square) : (s.setAt x y q).size = s.size := rfl

theorem State.at_setAt_same {s : State} (hs : s.WF) {x y : Int} (h : onB s.size x y) (q : Square) :
    (s.setAt x y q).at x y = q := by
  have := idx_lt s h
  rw [← hs] at this
  simp [State.at, State.setAt, State.idx, List.getD_eq_getElem?_getD] at *
  simp [this]

theorem State.at_setAt_other {s : State} {x y x' y' : Int} (h : onB s.size x y) (h' : onB s.size x' y')
    (ne : ¬ (x = x' ∧ y = y')) (q : Square) :
    (s.setAt x y q).at x' y' = s.at x' y' := by
  have hne : s.idx x y ≠ s.idx x' y' := fun e => ne (idx_inj s h h' e)
  show (s.squares.set (s.idx x y) q).getD (s.idx x' y') [] = s.squares.getD (s.idx x' y') []
  simp [List.getD_eq_getElem?_getD, List.getElem?_set_ne hne]

/-- writing a square commutes with the map -/
theorem Sym.state_setAt (k : Sym) {s : State} (hs : s.WF) {x y : Int} (h : onB s.size x y) (q : Square) :
    k.state (s.setAt x y q) = (k.state s).setAt (k.app s.size x y).1 (k.app s.size x y).2 q := by
  have hk : onB s.size (k.app s.size x y).1 (k.app s.size x y).2 := (Sym.onB_app k s.size x y).2 h
  apply State.ext_at (Sym.state_WF k _) (State.setAt_WF (Sym.state_WF k s) _ _ q) <;> try rfl
  intro x' y' hb
  have hb' : onB s.size x' y' := hb
  -- write (x', y') as the image of (x0, y0)
  have hinv := Sym.inv_app k s.size x' y'
  generalize hx0 : (k.inv.app s.size x' y').1 = x0 at hinv
  generalize hy0 : (k.inv.app s.size x' y').2 = y0 at hinv
  have h0 : onB s.size x0 y0 := by
    have := (Sym.onB_app k s.size x0 y0).1
    rw [hinv] at this; exact this hb'
  have ex : x' = (k.app s.size x0 y0).1 := by rw [hinv]
  have ey : y' = (k.app s.size x0 y0).2 := by rw [hinv]
  rw [ex, ey]
  rw [show (k.state (s.setAt x y q)).at (k.app s.size x0 y0).1 (k.app s.size x0 y0).2
        = (s.setAt x y q).at x0 y0 from Sym.state_at k (s.setAt x y q) h0]
  by_cases e : x = x0 ∧ y = y0
  · obtain ⟨rfl, rfl⟩ := e
    rw [State.at_setAt_same hs h, State.at_setAt_same (Sym.state_WF k s) hk]
  · rw [State.at_setAt_other h h0 e]
    have e' : ¬ ((k.app s.size x y).1 = (k.app s.size x0 y0).1 ∧ (k.app s.size x y).2 = (k.app s.size x0 y0).2) := by
      intro ⟨e1, e2⟩
      exact e (Sym.app_injective k s.size x y x0 y0 (Prod.ext e1 e2))
    have hk0 : onB s.size (k.app s.size x0 y0).1 (k.app s.size x0 y0).2 := (Sym.onB_app k s.size x0 y0).2 h0
    rw [State.at_setAt_other (s := k.state s) hk hk0 e', Sym.state_at k s h0]

end Spec
