import TakVerif.Proofs.SlideSpec

/-! The simulation relation between a cell of the bit-level position and a square of the rule-book state.
It is exact while the square holds at most 64 pieces; above that only the top piece is tracked
(this is what makes the *rejections* of the model exact without any stack-limit assumption). -/
namespace Tak

def CellSim (c : Cell) (sq : Spec.Square) : Prop :=
  c.TopWF ∧ c.top = sq.head? ∧ (sq.length ≤ 64 → c.WF ∧ c.square = sq)

theorem CellSim.of_wf {c : Cell} (hc : c.WF) : CellSim c c.square :=
  ⟨hc.toTopWF, (Cell.square_head c).symm, fun _ => ⟨hc, rfl⟩⟩

/-- the model's decision in the `switch` at the head of the drop loop -/
def Cell.enterOk (c : Cell) (top : Piece) (ct : Nat) : Bool :=
  !c.c && (!c.s || (decide (ct = 1) && decide (top.kind = .capstone)))

theorem match_singleton_none {α β} (l : List α) (f : α → Option β) (h : l.length ≠ 1) :
    (match l with | [x] => f x | _ => none) = none := by
  cases l with
  | nil => rfl
  | cons a tl =>
    cases tl with
    | nil => simp at h
    | cons _ _ => rfl

theorem Cell.enter_topwf {c : Cell} (h : c.TopWF) : c.enter.TopWF :=
  { wb := h.wb, sc := by simp [Cell.enter], kind_occ := fun hh => by
      simp only [Cell.enter] at hh ⊢
      rcases hh with hh | hh
      · cases hh
      · exact h.kind_occ (.inr hh) }

theorem Cell.enter_wf {c : Cell} (h : c.WF) : c.enter.WF :=
  { toTopWF := Cell.enter_topwf h.toTopWF, h_zero := h.h_zero, h_le := h.h_le, st_hi := h.st_hi }

theorem Cell.enter_of_not_s {c : Cell} (h : c.s = false) : c.enter = c := by
  cases c; simp_all [Cell.enter]

theorem Cell.top_cons {c : Cell} {t : Piece} (h : c.top = some t) :
    c.w = true ∨ c.b = true := by
  cases hw : c.w <;> cases hb : c.b <;> simp_all [Cell.top]

/-- entering a square: the model's decision is the rule book's, and the entered cell simulates the entered square -/
theorem CellSim.enter {c0 : Cell} {target : Spec.Square} (h : CellSim c0 target) (top : Piece) (stack : W) (ct : Nat) :
    (c0.enterOk top ct = false → enterTarget target (carriedList top stack ct) = none) ∧
    (c0.enterOk top ct = true → ∃ target', enterTarget target (carriedList top stack ct) = some target' ∧
        CellSim c0.enter target' ∧ target'.length = target.length ∧ c0.c = false) := by
  obtain ⟨htw, htop, hbody⟩ := h
  cases target with
  | nil =>
    have hnone : c0.top = none := htop
    have ⟨hw, hb⟩ := (c0.top_none_iff).1 hnone
    have hs : c0.s = false := by
      cases hs : c0.s
      · rfl
      · have := htw.kind_occ (.inl hs); simp [hw, hb] at this
    have hc : c0.c = false := by
      cases hs : c0.c
      · rfl
      · have := htw.kind_occ (.inr hs); simp [hw, hb] at this
    constructor
    · intro hf; simp [Cell.enterOk, hs, hc] at hf
    · intro _
      refine ⟨[], rfl, ?_, rfl, hc⟩
      rw [Cell.enter_of_not_s hs]
      exact ⟨htw, htop, hbody⟩
  | cons t rest =>
    have htop' : c0.top = some t := htop
    have hk := Cell.top_kind htop'
    have hocc := Cell.top_cons htop'
    cases hc : c0.c with
    | true =>
      have hs : c0.s = false := by
        cases hs : c0.s
        · rfl
        · exact absurd ⟨hs, hc⟩ htw.sc
      have hkind : t.kind = .capstone := by simp [hk, hs, hc]
      constructor
      · intro _; simp [enterTarget, hkind]
      · intro ht; simp [Cell.enterOk, hc] at ht
    | false =>
      cases hs : c0.s with
      | false =>
        have hkind : t.kind = .flat := by simp [hk, hs, hc]
        constructor
        · intro hf; simp [Cell.enterOk, hs, hc] at hf
        · intro _
          refine ⟨t :: rest, by simp [enterTarget, hkind], ?_, rfl, rfl⟩
          rw [Cell.enter_of_not_s hs]
          exact ⟨htw, htop, hbody⟩
      | true =>
        have hkind : t.kind = .standing := by simp [hk, hs]
        have hcl := carriedList_length top stack ct
        constructor
        · intro hf
          simp only [Cell.enterOk, hs, hc, Bool.not_false, Bool.not_true, Bool.false_or, Bool.true_and,
            Bool.and_eq_false_iff, decide_eq_false_iff_not] at hf
          simp only [enterTarget, hkind]
          by_cases h1 : ct = 1
          · subst h1
            have hkk : ¬ top.kind = .capstone := by rcases hf with hf | hf; exact absurd rfl hf; exact hf
            have : carriedList top stack 1 = [pieceOf top stack 0] := rfl
            rw [this]
            simp [pieceOf, hkk]
          · generalize carriedList top stack ct = l at hcl
            cases l with
            | nil => rfl
            | cons a tl =>
              cases tl with
              | nil => simp at hcl; omega
              | cons _ _ => rfl
        · intro ht
          simp only [Cell.enterOk, hs, hc, Bool.not_false, Bool.not_true, Bool.false_or, Bool.true_and,
            Bool.and_eq_true, decide_eq_true_eq] at ht
          obtain ⟨h1, hkk⟩ := ht
          subst h1
          have : carriedList top stack 1 = [pieceOf top stack 0] := rfl
          refine ⟨⟨t.color, .flat⟩ :: rest, by simp [enterTarget, hkind, this, pieceOf, hkk], ?_, rfl, rfl⟩
          have hetop : c0.enter.top = some ⟨t.color, .flat⟩ := by
            have := Cell.top_isSome_color htop'
            unfold Cell.top
            simp only [Cell.enter, hc]
            rcases this with ⟨h1, h2⟩ | ⟨h1, h2, h3⟩
            · simp [h1, h2]
            · simp [h1, h2, h3]
          refine ⟨Cell.enter_topwf htw, hetop, ?_⟩
          intro hlen
          have ⟨hwf, hsq⟩ := hbody hlen
          refine ⟨Cell.enter_wf hwf, ?_⟩
          rw [Cell.square_cons hetop]
          rw [Cell.square_cons htop'] at hsq
          simp only [List.cons.injEq] at hsq
          simp only [Cell.enter]
          rw [hsq.2]

/-- dropping on an entered square -/
theorem CellSim.drop {c1 : Cell} {target' : Spec.Square} (h : CellSim c1 target') (hs : c1.s = false) (hc : c1.c = false)
    (top : Piece) (stack : W) (ct cnt : Nat) (h1 : 1 ≤ cnt) (h2 : cnt ≤ ct) :
    CellSim (c1.drop top stack ct cnt) ((carriedList top stack ct).drop (ct - cnt) ++ target') := by
  obtain ⟨_, _, hbody⟩ := h
  refine ⟨Cell.drop_topwf c1 top stack ct cnt hs hc, ?_, ?_⟩
  · rw [Cell.drop_top c1 top stack ct cnt hs hc]
    have hlen : 0 < ((carriedList top stack ct).drop (ct - cnt)).length := by
      rw [List.length_drop, carriedList_length]; omega
    rw [List.head?_eq_getElem?, List.getElem?_append_left hlen, List.getElem?_drop,
      List.getElem?_eq_getElem (by rw [carriedList_length]; omega), carriedList_getElem]
    rfl
  · intro hlen
    rw [List.length_append, List.length_drop, carriedList_length] at hlen
    have ⟨hwf, hsq⟩ := hbody (by omega)
    have hh : c1.h.toNat = target'.length := by rw [← hsq]; exact (Cell.square_length hwf).symm
    refine ⟨Cell.drop_wf hwf top stack ct cnt hs hc h1 h2 (by omega), ?_⟩
    rw [Cell.drop_square hwf top stack ct cnt hs hc h1 h2 (by omega), hsq]

end Tak
