import TakVerif.Spec.FPA

/-! The three scripts and the helper as they stand in the **pinned** tree (before
`fixes/C20-doublestack-black.diff`, `fixes/C20-cairn.diff`), kept only to state the counterexamples of
`Props/C20.lean`.  The fixed versions are in `Impl/FPA.lean`. -/
namespace Proofs.FPAPinned
open Tak Tak.FPA

/-- pinned `isCenterAdjacent`: `||` where `&&` was meant, so on even boards every row of the four
middle columns is accepted -/
def isCenterAdjacentPinned (v : View) (x y : Int) : Bool :=
  let m := mid v
  if v.size % 2 == 1 then
    ((x == m - 1 || x == m + 1) && y == m) || ((y == m - 1 || y == m + 1) && x == m)
  else if (x ≥ m - 1 && x ≤ m) && (y ≥ m - 2 || y ≤ m + 1) then true
  else if (x ≥ m - 2 && x ≤ m + 1) && (y ≥ m - 1 || y ≤ m) then true
  else false

/-- pinned `DoubleStack.GetMove` ply 3: any empty neighbour of Black's first stone -/
def doubleStackBlackPinned (v : View) (r : Rule) : R Move := do
  let (ex, ey) ← adjacent v r.blackPlaceX r.blackPlaceY
  .ok (place (wrap8 ex) (wrap8 ey))

/-- pinned `Cairn.GetMove` ply 3: always the diagonal towards the centre -/
def cairnBlackPinned (v : View) (r : Rule) : Move :=
  let wx := r.whitePlaceX
  let wy := r.whitePlaceY
  place (if wx < mid v then wrap8 (wx + 1) else wrap8 (wx - 1)) (if wy < mid v then wrap8 (wy + 1) else wrap8 (wy - 1))

/-- pinned `Cairn.GetMove` ply 4: towards a fixed centre square, whatever Black played -/
def cairnWhitePinned (v : View) (r : Rule) : R Move := do
  let wx := r.whitePlaceX
  let wy := r.whitePlaceY
  let m := mid v
  let ty ← if v.size % 2 == 1 then dir wx wy m m
           else if wx == m || wy == m then dir wx wy m m else dir wx wy (m - 1) (m - 1)
  .ok { x := wrap8 wx, y := wrap8 wy, type := ty, slides := slide1 }

end Proofs.FPAPinned
