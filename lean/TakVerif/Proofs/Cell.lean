import TakVerif.Spec.Tak
import TakVerif.Proofs.Bits

/-! The per-square view of a position: everything `Position` stores about square `j`, and the list of pieces
(`Position.At`) it denotes. -/
namespace Tak

/-- what the position stores about one square: its bit in the four boards, `Height[j]`, `Stacks[j]` -/
structure Cell where
  w : Bool
  b : Bool
  s : Bool
  c : Bool
  h : U8
  st : W
deriving DecidableEq, Repr

def Pos.cell (p : Pos) (j : Nat) : Cell :=
  ⟨p.white.getLsbD j, p.black.getLsbD j, p.standing.getLsbD j, p.caps.getLsbD j, p.height.getD j 0, p.stacks.getD j 0⟩

/-- `Position.Top` read off a cell -/
def Cell.top (c : Cell) : Option Piece :=
  let col := if c.w then some Color.white else if c.b then some Color.black else none
  match col with
  | none => none
  | some col =>
    let k := if c.s then Kind.standing else if c.c then Kind.capstone else Kind.flat
    some ⟨col, k⟩

def flatOf (black : Bool) : Piece := if black then ⟨.black, .flat⟩ else ⟨.white, .flat⟩

/-- the buried flats: bit `j` of `Stacks` is the colour of the `j`-th piece under the top -/
def buried (st : W) (n : Nat) : List Piece := (List.range n).map (fun j => flatOf (st.getLsbD j))

/-- `Position.At` read off a cell -/
def Cell.square (c : Cell) : List Piece :=
  match c.top with
  | none => []
  | some t => t :: buried c.st (c.h.toNat - 1)

theorem topAt_cell (p : Pos) (j : Nat) : p.topAt j = (p.cell j).top := rfl

theorem squareAt_cell (p : Pos) (j : Nat) : p.squareAt j = (p.cell j).square := by
  unfold Pos.squareAt Cell.square
  rw [topAt_cell]
  cases (p.cell j).top <;> rfl

/-- consistency of the four board bits of a square -/
structure Cell.TopWF (c : Cell) : Prop where
  wb : ¬(c.w = true ∧ c.b = true)
  sc : ¬(c.s = true ∧ c.c = true)
  kind_occ : c.s = true ∨ c.c = true → c.w = true ∨ c.b = true

/-- full consistency of a square: boards, height, and no stray bits in `Stacks` (normalisation) -/
structure Cell.WF (c : Cell) : Prop extends c.TopWF where
  h_zero : c.h = 0#8 ↔ (c.w = false ∧ c.b = false)
  h_le : c.h.toNat ≤ 64
  st_hi : ∀ k, c.h.toNat - 1 ≤ k → c.st.getLsbD k = false

def Cell.empty : Cell := ⟨false, false, false, false, 0#8, 0#64⟩

theorem Cell.empty_wf : Cell.empty.WF :=
  { wb := by simp [Cell.empty], sc := by simp [Cell.empty], kind_occ := by simp [Cell.empty]
    h_zero := by simp [Cell.empty], h_le := by simp [Cell.empty]
    st_hi := by intro k _; simp [Cell.empty] }

theorem buried_length (st : W) (n : Nat) : (buried st n).length = n := by simp [buried]

theorem buried_getElem (st : W) (n k : Nat) (h : k < (buried st n).length) :
    (buried st n)[k] = flatOf (st.getLsbD k) := by
  simp [buried]

theorem Cell.top_none_iff (c : Cell) : c.top = none ↔ (c.w = false ∧ c.b = false) := by
  unfold Cell.top
  cases c.w <;> cases c.b <;> simp

theorem Cell.top_isSome_color {c : Cell} {t : Piece} (h : c.top = some t) :
    (t.color = .white ∧ c.w = true) ∨ (t.color = .black ∧ c.w = false ∧ c.b = true) := by
  unfold Cell.top at h
  cases hw : c.w <;> cases hb : c.b <;> simp [hw, hb] at h <;> subst h <;> simp

theorem Cell.top_kind {c : Cell} {t : Piece} (h : c.top = some t) :
    t.kind = (if c.s then Kind.standing else if c.c then Kind.capstone else Kind.flat) := by
  unfold Cell.top at h
  cases hw : c.w <;> cases hb : c.b <;> simp [hw, hb] at h <;> subst h <;> rfl

theorem Cell.square_length {c : Cell} (h : c.WF) : c.square.length = c.h.toNat := by
  unfold Cell.square
  cases ht : c.top with
  | none =>
    have := (c.top_none_iff).1 ht
    have h0 := h.h_zero.2 this
    simp [h0]
  | some t =>
    have hne : ¬ (c.w = false ∧ c.b = false) := fun hh => by
      rw [(c.top_none_iff).2 hh] at ht; cases ht
    have h0 : c.h ≠ 0#8 := fun hh => hne (h.h_zero.1 hh)
    have : c.h.toNat ≠ 0 := fun hh => h0 (BitVec.eq_of_toNat_eq (by simpa using hh))
    simp only [List.length_cons, buried_length]
    omega

theorem Cell.square_head (c : Cell) : c.square.head? = c.top := by
  unfold Cell.square
  cases c.top <;> rfl

end Tak
