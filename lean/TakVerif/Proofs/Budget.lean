import TakVerif.Proofs.Reach

/-! Piece conservation on the rule-book side: pieces on the board + pieces in reserve never increase.
Hence when a position has at most 64 pieces in total (all default configurations up to 6×6: 2·31 = 62),
the 64-piece `StackLimit` holds for every move, and along every continuation. -/
namespace Tak
open Spec (abs decode)

def total (l : List Spec.Square) : Nat := (l.map List.length).sum

/-- pieces on the board plus pieces in reserve -/
def budget (s : Spec.State) : Nat := total s.squares + s.whiteStones + s.whiteCaps + s.blackStones + s.blackCaps

theorem total_set_le (l : List Spec.Square) (i : Nat) (v : Spec.Square) :
    total (l.set i v) + (l.getD i []).length ≤ total l + v.length := by
  induction l generalizing i with
  | nil => simp [total]
  | cons a l ih =>
    cases i with
    | zero => simp [total]; omega
    | succ i =>
      have := ih i
      simp only [total, List.set_cons_succ, List.map_cons, List.sum_cons, List.getD_eq_getElem?_getD,
        List.getElem?_cons_succ] at this ⊢
      omega

theorem mem_le_total (l : List Spec.Square) (sq : Spec.Square) (h : sq ∈ l) : sq.length ≤ total l := by
  induction l with
  | nil => cases h
  | cons a l ih =>
    simp only [List.mem_cons] at h
    simp only [total, List.map_cons, List.sum_cons]
    rcases h with rfl | h
    · omega
    · have := ih h; simp only [total] at this; omega

theorem enterTarget_length {target t' : Spec.Square} {carried : List Piece} (h : enterTarget target carried = some t') :
    t'.length = target.length := by
  unfold enterTarget at h
  cases target with
  | nil => cases h; rfl
  | cons t rest =>
    simp only at h
    cases hk : t.kind <;> rw [hk] at h <;> simp only at h
    · cases h; rfl
    · cases carried with
      | nil => cases h
      | cons cp tl =>
        cases tl with
        | nil => simp only at h; split at h <;> cases h; rfl
        | cons _ _ => cases h
    · cases h

theorem dropStep_total {s s' : Spec.State} {x y x' y' : Int} {d : Spec.Dir} {carried carried' : List Piece} {c : Nat}
    (h : dropStep s x y d carried c = some (s', x', y', carried')) :
    total s'.squares + carried'.length ≤ total s.squares + carried.length := by
  unfold dropStep at h
  dsimp only at h
  split at h
  · cases h
  split at h
  · cases h
  rename_i hc
  split at h
  · cases h
  · rename_i t' ht
    cases h
    have hl := enterTarget_length ht
    have := total_set_le s.squares (s.idx (x + d.dx) (y + d.dy)) (List.drop (carried.length - c) carried ++ t')
    simp only [Spec.State.setAt, List.length_append, List.length_drop, List.length_take]
    simp only [List.length_append, List.length_drop, hl, Spec.State.at] at this
    omega

theorem dropLoop_total (drops : List Nat) {s s' : Spec.State} {x y : Int} {d : Spec.Dir} {carried : List Piece}
    (h : Spec.dropLoop s x y d carried drops = some s') :
    total s'.squares ≤ total s.squares + carried.length ∧ sscalars s' = sscalars s := by
  induction drops generalizing s x y carried with
  | nil =>
    rw [dropLoop_nil] at h
    split at h
    · cases h; exact ⟨by omega, rfl⟩
    · cases h
  | cons c cs ih =>
    rw [dropLoop_cons] at h
    cases hd : dropStep s x y d carried c with
    | none => rw [hd] at h; cases h
    | some r =>
      obtain ⟨s1, x1, y1, c1⟩ := r
      rw [hd] at h
      have h1 := dropStep_total hd
      have ⟨h2, h3⟩ := ih h
      refine ⟨by omega, ?_⟩
      rw [h3]
      unfold dropStep at hd
      dsimp only at hd
      split at hd
      · cases hd
      split at hd
      · cases hd
      split at hd
      · cases hd
      · cases hd; rfl

theorem decReserve_sum (s : Spec.State) (col : Color) (cap : Bool) (h : s.reserve col cap ≠ 0) :
    (s.decReserve col cap).whiteStones + (s.decReserve col cap).whiteCaps + (s.decReserve col cap).blackStones +
      (s.decReserve col cap).blackCaps + 1 = s.whiteStones + s.whiteCaps + s.blackStones + s.blackCaps := by
  cases col <;> cases cap <;> simp [Spec.State.reserve, Spec.State.decReserve] at h ⊢ <;> omega

/-- **conservation**: a legal move never increases (pieces on board + pieces in reserve) -/
theorem step_budget {s s' : Spec.State} {m : Spec.Move} (h : Spec.step s m = some s') : budget s' ≤ budget s := by
  cases m with
  | invalid => simp [Spec.step] at h
  | place x y k =>
    simp only [Spec.step] at h
    generalize (if s.ply < 2 then s.toMove.flip else s.toMove) = col at h
    split at h
    · cases h
    split at h
    · cases h
    split at h
    · cases h
    rename_i hemp
    split at h
    · cases h
    rename_i hres
    cases h
    have hsum := decReserve_sum s col (k == .capstone) (by simpa using hres)
    obtain ⟨d1, _, d3, _, _⟩ := decReserve_fields s col (k == .capstone)
    have := total_set_le s.squares (s.idx x y) [⟨col, k⟩]
    simp only [budget, Spec.State.setAt]
    unfold Spec.State.idx at this ⊢
    rw [d1, d3]
    simp only [List.length_cons, List.length_nil] at this
    omega
  | slide x y d drops =>
    simp only [Spec.step] at h
    split at h
    · cases h
    split at h
    · cases h
    split at h
    · cases h
    split at h
    · cases h
    rename_i hle
    split at h
    · cases h
    · rename_i t tl hat
      split at h
      · cases h
      · split at h
        · cases h
        · rename_i s2 hdl
          cases h
          obtain ⟨h1, h2⟩ := dropLoop_total drops hdl
          simp only [sscalars, Prod.mk.injEq, Spec.State.setAt] at h2
          obtain ⟨_, _, _, e4, e5, e6, e7⟩ := h2
          have hset := total_set_le s.squares (s.idx x y) (List.drop (drops.foldl (· + ·) 0) (s.at x y))
          simp only [budget, e4, e5, e6, e7]
          simp only [Spec.State.setAt, List.length_take, List.length_drop] at h1 hset
          have hat' : (s.squares.getD (s.idx x y) []).length = (s.at x y).length := rfl
          rw [hat'] at hset
          omega

/-- with at most 64 pieces in the game, no stack can exceed the representation limit -/
theorem stackLimit_of_budget {p : Pos} (m : Move) (hb : budget (abs p) ≤ 64) : StackLimit p m := by
  intro s' hs' sq hsq
  have h1 := mem_le_total _ _ hsq
  have h2 := step_budget hs'
  simp only [budget] at h2 hb
  omega

theorem movesOK_of_budget {basis : Array W} (hA : AnalyzeTotal) (ms : List Move) {p : Pos} (hwf : WF basis p)
    (hb : budget (abs p) ≤ 64) (hnp : ∀ m ∈ ms, m.type ≠ Facts.mtPass) : MovesOK basis p ms := by
  induction ms generalizing p with
  | nil => trivial
  | cons m ms ih =>
    have hlim := stackLimit_of_budget (p := p) m hb
    refine ⟨hnp m (by simp), hlim, ?_⟩
    intro q hq
    have := move_refines_core hA hwf m (hnp m (by simp)) hlim
    rw [hq] at this
    exact ih this.2 (Nat.le_trans (step_budget this.1) hb) (fun m' hm' => hnp m' (by simp [hm']))

/-- the default configurations up to 6×6 have at most 62 pieces -/
theorem new_budget_default (size : Nat) (bwt : Bool) (p : Pos) (hs : size ≤ 6)
    (h : Pos.new ⟨size, 0, 0, bwt⟩ = .ok p) : budget (abs p) ≤ 62 := by
  have h3 := (new_ok h).1
  simp only at h3
  have : size = 3 ∨ size = 4 ∨ size = 5 ∨ size = 6 := by omega
  rcases this with rfl | rfl | rfl | rfl <;> cases bwt <;> (cases h; decide +kernel)

end Tak
