import TakVerif.Proofs.CellSim

/-! The loop invariant of the drop loop: the model's `next` simulates the rule-book state, square by square. -/
namespace Tak
open Spec (abs decode)

/-- the fields of a position no slide step touches -/
def Pos.scalars (p : Pos) : Cfg × Consts × U8 × U8 × U8 × U8 × Int :=
  (p.cfg, p.c, p.whiteStones, p.whiteCaps, p.blackStones, p.blackCaps, p.move)

/-- the fields of a rule-book state no drop touches -/
def sscalars (s : Spec.State) : Nat × Bool × Int × Nat × Nat × Nat × Nat :=
  (s.size, s.blackWinsTies, s.ply, s.whiteStones, s.whiteCaps, s.blackStones, s.blackCaps)

structure Sim (basis : Array W) (p next : Pos) (s : Spec.State) : Prop where
  scalars : next.scalars = ({ p with move := p.move + 1 } : Pos).scalars
  height_size : next.height.size = p.cfg.size * p.cfg.size
  stacks_size : next.stacks.size = p.cfg.size * p.cfg.size
  hash : HashOK basis next
  s_scalars : sscalars s = sscalars (abs p)
  s_len : s.squares.length = p.cfg.size * p.cfg.size
  cells : ∀ j, j < p.cfg.size * p.cfg.size → CellSim (next.cell j) (s.squares.getD j [])
  outside : ∀ j, p.cfg.size * p.cfg.size ≤ j → next.cell j = p.cell j

theorem Sim.s_size {basis : Array W} {p next : Pos} {s : Spec.State} (h : Sim basis p next s) : s.size = p.cfg.size :=
  congrArg (·.1) h.s_scalars

theorem dropOn_scalars (basis : Array W) (next : Pos) (top : Piece) (stack : W) (ct c i : Nat) :
    (dropOn basis next top stack ct c i).scalars = next.scalars := by
  rw [dropOn_eq]; rfl

theorem liftFrom_scalars (basis : Array W) (next : Pos) (stack : W) (h ct i : Nat) :
    (liftFrom basis next stack h ct i).scalars = next.scalars := by
  rw [liftFrom_eq]; rfl

/-- `enterSquare` at cell level -/
theorem enterSquare_spec (next : Pos) (top : Piece) (ct i : Nat) :
    ((next.cell i).enterOk top ct = false → ∃ w, enterSquare next top ct i = .error (.illegal w)) ∧
    ((next.cell i).enterOk top ct = true → ∃ q, enterSquare next top ct i = .ok q ∧
        q = { next with standing := q.standing } ∧
        ∀ j, q.cell j = if j = i then (next.cell i).enter else next.cell j) := by
  have hcc : (next.cell i).c = next.caps.getLsbD i := rfl
  have hss : (next.cell i).s = next.standing.getLsbD i := rfl
  unfold enterSquare Cell.enterOk
  rw [hcc, hss]
  cases hc : next.caps.getLsbD i
  · cases hs : next.standing.getLsbD i
    · constructor
      · intro h; simp at h
      · intro _
        refine ⟨next, by simp, rfl, ?_⟩
        intro j
        by_cases hji : j = i
        · subst hji
          simp only [if_true]
          rw [Cell.enter_of_not_s]; exact hs
        · simp [hji]
    · by_cases hok : ct ≠ 1 ∨ top.kind ≠ .capstone
      · constructor
        · intro _; exact ⟨"wall in the way", by simp [hok]⟩
        · intro h
          exfalso
          rcases hok with h1 | h1 <;> simp [h1] at h
      · constructor
        · intro h
          exfalso
          have h1 : ct = 1 := Classical.byContradiction fun hh => hok (.inl hh)
          have h2 : top.kind = .capstone := Classical.byContradiction fun hh => hok (.inr hh)
          simp [h1, h2] at h
        · intro _
          refine ⟨{ next with standing := clrBit next.standing i }, by simp [hok], rfl, ?_⟩
          intro j
          by_cases hji : j = i
          · subst hji
            simp only [if_true]
            apply Cell.ext' <;> simp [-BitVec.getLsbD_eq_getElem, Pos.cell, Cell.enter, clrBit_getLsbD]
          · simp only [hji, if_false]
            apply Cell.ext' <;> simp [-BitVec.getLsbD_eq_getElem, Pos.cell, clrBit_getLsbD, hji]
  · constructor
    · intro _; exact ⟨"capstone in the way", by simp⟩
    · intro h; simp at h

theorem Sim.cfg {basis : Array W} {p next : Pos} {s : Spec.State} (h : Sim basis p next s) : next.cfg = p.cfg :=
  congrArg (·.1) h.scalars

theorem at_eq_getD (s : Spec.State) (x y : Int) (sz : Nat) (hs : s.size = sz) :
    s.at x y = s.squares.getD (x + y * (sz : Int)).toNat [] := by
  unfold Spec.State.at Spec.State.idx; rw [hs]

theorem setAt_squares (s : Spec.State) (x y : Int) (sq : Spec.Square) (sz : Nat) (hs : s.size = sz) :
    (s.setAt x y sq).squares = s.squares.set (x + y * (sz : Int)).toNat sq := by
  unfold Spec.State.setAt Spec.State.idx; rw [hs]

/-- one iteration of the drop loop: the model and the rule book take the same decision and stay in simulation -/
theorem slideStep_sim {basis : Array W} {p : Pos} {top : Piece} {stack : W} {d : Spec.Dir} {st : SlideSt}
    {s : Spec.State} (hp8 : p.cfg.size ≤ 8) (hsim : Sim basis p st.next s) (c : Nat) :
    match slideStep basis p top stack d.dx d.dy st c, dropStep s st.x st.y d (carriedList top stack st.ct) c with
    | .error (.illegal _), none => True
    | .ok st', some (s', x', y', carried') =>
        Sim basis p st'.next s' ∧ x' = st'.x ∧ y' = st'.y ∧ carried' = carriedList top stack st'.ct ∧ st'.ct + c = st.ct
    | _, _ => False := by
  have hsz := hsim.s_size
  unfold slideStep dropStep
  dsimp only
  by_cases hb : st.x + d.dx < 0 ∨ st.x + d.dx ≥ (p.cfg.size : Int) ∨ st.y + d.dy < 0 ∨ st.y + d.dy ≥ (p.cfg.size : Int)
  · rw [if_pos hb]
    have : s.onBoard (st.x + d.dx) (st.y + d.dy) = false := by
      cases hob : s.onBoard (st.x + d.dx) (st.y + d.dy)
      · rfl
      · exact absurd hb (by have := (onBoard_iff s _ _).1 hob; rw [hsz] at this; exact this)
    simp [this]
  · rw [if_neg hb]
    have hob : s.onBoard (st.x + d.dx) (st.y + d.dy) = true := by
      apply (onBoard_iff s _ _).2; rw [hsz]; exact hb
    simp only [hob, Bool.not_true, Bool.false_eq_true, if_false, carriedList_length]
    by_cases hc : c < 1 ∨ c > st.ct
    · rw [if_pos hc, if_pos hc]; trivial
    · rw [if_neg hc, if_neg hc]
      have hi : (st.x + d.dx + (st.y + d.dy) * (p.cfg.size : Int)).toNat < p.cfg.size * p.cfg.size :=
        idx_lt _ _ _ (by omega) (by omega) (by omega) (by omega)
      have h64 : (st.x + d.dx + (st.y + d.dy) * (p.cfg.size : Int)).toNat < 64 :=
        idx_lt_64 _ _ _ hp8 (by omega) (by omega) (by omega) (by omega)
      generalize hidx : (st.x + d.dx + (st.y + d.dy) * (p.cfg.size : Int)).toNat = i at hi h64
      have hat : s.at (st.x + d.dx) (st.y + d.dy) = s.squares.getD i [] := by
        rw [at_eq_getD s _ _ _ hsz, hidx]
      rw [hat]
      have hcs := hsim.cells i hi
      obtain ⟨hno, hyes⟩ := hcs.enter top stack st.ct
      obtain ⟨eno, eyes⟩ := enterSquare_spec st.next top st.ct i
      cases hok : (st.next.cell i).enterOk top st.ct
      · obtain ⟨w, hw⟩ := eno hok
        rw [hw, hno hok]; trivial
      · obtain ⟨next1, hn1, hfr, hcell1⟩ := eyes hok
        obtain ⟨target', ht, hsim1, hlen1, hc0⟩ := hyes hok
        rw [hn1, ht]
        dsimp only
        have hhs : i < next1.height.size := by rw [hfr]; show i < st.next.height.size; rw [hsim.height_size]; exact hi
        have hss : i < next1.stacks.size := by rw [hfr]; show i < st.next.stacks.size; rw [hsim.stacks_size]; exact hi
        have hsc1 : next1.scalars = st.next.scalars := by rw [hfr]; rfl
        refine ⟨?_, rfl, rfl, ?_, by omega⟩
        · refine { scalars := ?_, height_size := ?_, stacks_size := ?_, hash := ?_, s_scalars := ?_, s_len := ?_,
                   cells := ?_, outside := ?_ }
          · rw [dropOn_scalars, hsc1]; exact hsim.scalars
          · rw [dropOn_eq]; simp only [Pos.setStack, Array.size_setIfInBounds]
            rw [hfr]; exact hsim.height_size
          · rw [dropOn_eq]; simp only [Pos.setStack, Array.size_setIfInBounds]
            rw [hfr]; exact hsim.stacks_size
          · rw [dropOn_eq]
            have h1 : HashOK basis next1 := by rw [hfr]; exact hsim.hash.congr rfl rfl rfl
            exact (h1.setStack i _ _).congr rfl rfl rfl
          · exact hsim.s_scalars
          · rw [setAt_squares s _ _ _ _ hsz, List.length_set]; exact hsim.s_len
          · intro j hj
            rw [dropOn_cell basis next1 top stack st.ct c i h64 hhs hss j, setAt_squares s _ _ _ _ hsz, hidx, getD_set]
            by_cases hji : j = i
            · subst hji
              simp only [if_true, true_and]
              rw [if_pos (by rw [hsim.s_len]; exact hi)]
              have := hcell1 j
              simp only [if_true] at this
              rw [this]
              exact hsim1.drop rfl hc0 top stack st.ct c (by omega) (by omega)
            · simp only [hji, if_false, false_and]
              have := hcell1 j
              simp only [hji, if_false] at this
              rw [this]
              exact hsim.cells j hj
          · intro j hj
            have hji : j ≠ i := by omega
            rw [dropOn_cell basis next1 top stack st.ct c i h64 hhs hss j]
            simp only [hji, if_false]
            have := hcell1 j
            simp only [hji, if_false] at this
            rw [this]
            exact hsim.outside j hj
        · exact carriedList_take top stack st.ct (st.ct - c) (by omega)

end Tak
