import TakVerif.Impl.Book
import TakVerif.Proofs.SymStep
import TakVerif.Proofs.SymTransform
import TakVerif.Proofs.SymDedup

/-! Legality of opening-book moves (model of `ai/opening.go`) from equivariance of the rules. -/
namespace Tak
open Spec

/-- the rule book accepts the move in the position as `At`, reserves and ply show it -/
def SLegal (q : Pos) (m : Move) : Prop := (Spec.step (Spec.abs q) (Spec.decode m)).isSome = true

/-- The facts about the bit-level position code the book argument rests on, for the positions satisfying
an invariant `Inv` and the (position, move) pairs satisfying a side condition `Ok` — C01's `move_refines`
proves the second field for `Inv := WF basis` and `Ok p m := m.type ≠ Pass ∧ StackLimit p m` (the internal
pass move is accepted by `Move` but is no move of the rule book; results must respect the 64-piece limit):
a move accepted by `Move` is legal by the rule book and leads to the position the rule book says;
the `k`-th image rebuilt by `Symmetries` shows the list-level image. -/
structure PosFacts (basis : Array W) (size : Nat) (Inv : Pos → Prop) (Ok : Pos → Move → Prop) : Prop where
  new : ∀ p, Pos.new { size := size, pieces := 0, capstones := 0, blackWinsTies := false } = .ok p → Inv p
  apply : ∀ p m p', Inv p → Ok p m → p.apply basis m = .ok p' →
    Inv p' ∧ p'.cfg.size = p.cfg.size ∧ Spec.step (Spec.abs p) (Spec.decode m) = some (Spec.abs p')

/-- the `k`-th image rebuilt by `Symmetries` (`At` + `FromSquares`) shows the list-level image -/
def ImageFact (basis : Array W) (Inv : Pos → Prop) : Prop :=
  ∀ p k q, Inv p → imagePos basis p k = .ok q → Spec.abs q = Sym.state k (Spec.abs p)

theorem decode_place_xy {m : Move} {x y : Int} {kd : Kind} (h : Spec.decode m = .place x y kd) : x = m.x ∧ y = m.y := by
  unfold Spec.decode at h
  repeat' split at h
  all_goals first | (cases h; exact ⟨rfl, rfl⟩) | cases h

theorem decode_slide_xy {m : Move} {x y : Int} {d : Dir} {ds : List Nat} (h : Spec.decode m = .slide x y d ds) :
    x = m.x ∧ y = m.y := by
  unfold Spec.decode at h
  repeat' split at h
  all_goals first | (cases h; exact ⟨rfl, rfl⟩) | cases h

/-- a legal move has its origin on the board -/
theorem legal_onBoard {s : State} {m : Move} (h : (Spec.step s (Spec.decode m)).isSome = true) :
    onB s.size m.x m.y := by
  cases hd : Spec.decode m with
  | invalid => rw [hd] at h; simp [Spec.step] at h
  | place x y kd =>
    rw [hd, step_place] at h
    obtain ⟨rfl, rfl⟩ := decode_place_xy hd
    by_cases hb : s.onBoard m.x m.y = true
    · exact (State.onBoard_iff _ _ _).1 hb
    · simp [hb] at h
  | slide x y d drops =>
    rw [hd, step_slide] at h
    obtain ⟨rfl, rfl⟩ := decode_slide_xy hd
    by_cases h0 : s.ply < 2
    · simp [h0] at h
    by_cases hb : s.onBoard m.x m.y = true
    · exact (State.onBoard_iff _ _ _).1 hb
    · simp [h0, hb] at h

/-- **the image of a legal move is legal in the image position** (bit-level positions, list-level legality) -/
theorem slegal_image {basis : Array W} {Inv : Pos → Prop} (himg : ImageFact basis Inv) {p q : Pos} {k : Fin 8}
    {m sm : Move} (hp : Inv p) (hsz : p.cfg.size ≤ 8) (hq : imagePos basis p k = .ok q)
    (hm : SLegal p m) (hsm : transformMove p.cfg.size [k] m = .ok sm) : SLegal q sm := by
  have hs : (Spec.abs p).WF := by simp [State.WF, Spec.abs]
  -- a legal move starts on the board, so `TransformMove` is the list-level action on it
  have hob : onB (Spec.abs p).size m.x m.y := legal_onBoard hm
  have hrange : (-100 ≤ m.x ∧ m.x ≤ 100) ∧ (-100 ≤ m.y ∧ m.y ≤ 100) := by
    have hsz' : ((Spec.abs p).size : Int) ≤ 8 := by show ((p.cfg.size : Nat) : Int) ≤ 8; omega
    simp only [onB] at hob; omega
  obtain ⟨sm', e1, e2, -⟩ := transformMove_spec hsz [k] m hrange.1 hrange.2
  rw [hsm] at e1
  cases e1
  have hprod : Symm.prod [k] = k := by simp [Symm.prod, Sym.mul_one]
  rw [hprod] at e2
  unfold SLegal
  rw [himg p k q hp hq, e2]
  have := Sym.step_equivariant k (Spec.abs p) hs (Spec.decode m)
  have hn : ((Spec.abs p).size : Int) = (p.cfg.size : Int) := rfl
  rw [hn] at this
  rw [this]
  unfold SLegal at hm
  cases h : Spec.step (Spec.abs p) (Spec.decode m) with
  | none => rw [h] at hm; cases hm
  | some s' => rfl

/-! ### the book invariant -/

/-- every stored reply is legal in some position of the admissible set `P` that has the entry's key -/
def BookOK (P : Pos → Prop) (b : Book) : Prop :=
  ∀ e ∈ b.entries, e.moves ≠ [] ∧ ∀ c ∈ e.moves, 0 < c.weight ∧ ∃ q₀, P q₀ ∧ q₀.hashOf = e.hash ∧ SLegal q₀ c.move

theorem bumpChild_moves (sm : Move) (cs : List BookChild) :
    ∀ c ∈ bumpChild sm cs, c.move = sm ∨ ∃ c' ∈ cs, c'.move = c.move := by
  induction cs with
  | nil => intro c hc; simp [bumpChild] at hc; left; rw [hc]
  | cons a rest ih =>
    intro c hc
    unfold bumpChild at hc
    split at hc
    · rcases List.mem_cons.1 hc with rfl | hc
      · right; exact ⟨a, by simp, rfl⟩
      · right; exact ⟨c, by simp [hc], rfl⟩
    · rcases List.mem_cons.1 hc with rfl | hc
      · right; exact ⟨c, by simp, rfl⟩
      · rcases ih c hc with h | ⟨c', hc', e⟩
        · left; exact h
        · right; exact ⟨c', by simp [hc'], e⟩

theorem bumpChild_pos (sm : Move) (cs : List BookChild) (h : ∀ c ∈ cs, 0 < c.weight) :
    ∀ c ∈ bumpChild sm cs, 0 < c.weight := by
  induction cs with
  | nil => intro c hc; simp [bumpChild] at hc; rw [hc]; exact Nat.one_pos
  | cons a rest ih =>
    intro c hc
    unfold bumpChild at hc
    split at hc
    · rcases List.mem_cons.1 hc with rfl | hc
      · simp
      · exact h c (by simp [hc])
    · rcases List.mem_cons.1 hc with rfl | hc
      · exact h c (by simp)
      · exact ih (fun c hc => h c (by simp [hc])) c hc

theorem bumpChild_ne_nil (sm : Move) (cs : List BookChild) : bumpChild sm cs ≠ [] := by
  cases cs with
  | nil => simp [bumpChild]
  | cons a rest => unfold bumpChild; split <;> simp

theorem addImage_ok {P : Pos → Prop} {size : Nat} {b b' : Book} {q : Pos} {k : Fin 8} {m sm : Move}
    (hb : BookOK P b) (hP : P q) (hsm : transformMove size [k] m = .ok sm) (hl : SLegal q sm)
    (h : Book.addImage size b q k m = .ok b') : BookOK P b' := by
  unfold Book.addImage at h
  simp only [hsm, bind, Except.bind, pure, Except.pure] at h
  cases hf : b.find q.hashOf with
  | some e0 =>
    rw [hf] at h
    simp only at h
    cases h
    intro e he
    simp only [List.mem_map] at he
    obtain ⟨e1, he1, rfl⟩ := he
    by_cases hh : (e1.hash == q.hashOf) = true
    · simp only [hh, if_true]
      refine ⟨bumpChild_ne_nil _ _, ?_⟩
      intro c hc
      refine ⟨bumpChild_pos sm e1.moves (fun c hc => ((hb e1 he1).2 c hc).1) c hc, ?_⟩
      rcases bumpChild_moves sm e1.moves c hc with hcm | ⟨c', hc', e⟩
      · exact ⟨q, hP, (beq_iff_eq.1 hh).symm, by rw [hcm]; exact hl⟩
      · obtain ⟨q₀, h1, h2, h3⟩ := ((hb e1 he1).2 c' hc').2
        exact ⟨q₀, h1, h2, by rw [← e]; exact h3⟩
    · simp only [hh]
      exact hb e1 he1
  | none =>
    rw [hf] at h
    simp only at h
    cases h
    intro e he
    rcases List.mem_append.1 he with he | he
    · exact hb e he
    · simp only [List.mem_singleton] at he
      subst he
      refine ⟨bumpChild_ne_nil _ _, ?_⟩
      intro c hc
      refine ⟨bumpChild_pos sm [] (by simp) c hc, ?_⟩
      rcases bumpChild_moves sm [] c hc with hcm | ⟨c', hc', _⟩
      · exact ⟨q, hP, rfl, by rw [hcm]; exact hl⟩
      · simp at hc'

theorem addImage_ok' {P : Pos → Prop} {size : Nat} {b b' : Book} {q : Pos} {k : Fin 8} {m : Move}
    (hb : BookOK P b) (hP : P q) (hl : ∀ sm, transformMove size [k] m = .ok sm → SLegal q sm)
    (h : Book.addImage size b q k m = .ok b') : BookOK P b' := by
  cases hsm : transformMove size [k] m with
  | error e => unfold Book.addImage at h; simp [hsm, bind, Except.bind] at h
  | ok sm => exact addImage_ok hb hP hsm (hl sm hsm) h

theorem foldImages_ok {P : Pos → Prop} {size : Nat} {m : Move} : ∀ (rs : List (Pos × Fin 8)) (b b' : Book),
    BookOK P b → (∀ qk ∈ rs, P qk.1 ∧ ∀ sm, transformMove size [qk.2] m = .ok sm → SLegal qk.1 sm) →
    rs.foldlM (fun b (qk : Pos × Fin 8) => Book.addImage size b qk.1 qk.2 m) b = .ok b' → BookOK P b' := by
  intro rs
  induction rs with
  | nil => intro b b' hb _ h; simp [pure, Except.pure] at h; subst h; exact hb
  | cons qk rest ih =>
    intro b b' hb hall h
    rw [List.foldlM_cons] at h
    cases h1 : Book.addImage size b qk.1 qk.2 m with
    | error e => simp [h1, bind, Except.bind] at h
    | ok b1 =>
      simp only [h1, bind, Except.bind] at h
      have hq := hall qk (by simp)
      exact ih b1 b' (addImage_ok' hb hq.1 hq.2 h1) (fun x hx => hall x (List.mem_cons_of_mem _ hx)) h

/-- the position a prefix of a book line leads to -/
def linePos (basis : Array W) (size : Nat) (pre : List Move) : R Pos := do
  let p ← Pos.new { size := size, pieces := 0, capstones := 0, blackWinsTies := false }
  pre.foldlM (fun p m => p.apply basis m) p

/-- `q` is one of the eight rebuilt images of a position of a book line at which the line has a reply -/
def BookImg (basis : Array W) (size : Nat) (lines : List (List Move)) (q : Pos) : Prop :=
  ∃ line ∈ lines, ∃ pre m suf, line = pre ++ m :: suf ∧
    ∃ p k, linePos basis size pre = .ok p ∧ imagePos basis p k = .ok q

/-- the side condition `Ok` holds for every move of every line at the position it is played in -/
def LinesOk (basis : Array W) (size : Nat) (lines : List (List Move)) (Ok : Pos → Move → Prop) : Prop :=
  ∀ line ∈ lines, ∀ pre m suf, line = pre ++ m :: suf → ∀ p, linePos basis size pre = .ok p → Ok p m

theorem linePos_snoc {basis : Array W} {size : Nat} {pre : List Move} {p p' : Pos} {m : Move}
    (h : linePos basis size pre = .ok p) (ha : p.apply basis m = .ok p') :
    linePos basis size (pre ++ [m]) = .ok p' := by
  unfold linePos at *
  cases hn : Pos.new { size := size, pieces := 0, capstones := 0, blackWinsTies := false } with
  | error e => simp [hn, bind, Except.bind] at h
  | ok p0 =>
    simp only [hn, bind, Except.bind] at h ⊢
    rw [List.foldlM_append]
    simp only [bind, Except.bind, h, List.foldlM_cons, List.foldlM_nil, ha, pure, Except.pure]

theorem addLine_ok {basis : Array W} {size : Nat} {Inv : Pos → Prop} {Ok : Pos → Move → Prop} (F : PosFacts basis size Inv Ok)
    (himg : ImageFact basis Inv) (hsz : size ≤ 8)
    {lines : List (List Move)} (hOk : LinesOk basis size lines Ok) {line : List Move} (hline : line ∈ lines) :
    ∀ (ms pre : List Move) (p : Pos) (b b' : Book), line = pre ++ ms → linePos basis size pre = .ok p →
      Inv p → p.cfg.size = size → BookOK (BookImg basis size lines) b →
      Book.addLine basis size ms p b = .ok b' → BookOK (BookImg basis size lines) b' := by
  intro ms
  induction ms with
  | nil => intro pre p b b' _ _ _ _ hb h; simp [Book.addLine] at h; subst h; exact hb
  | cons m rest ih =>
    intro pre p b b' hl hp hi hs hb h
    unfold Book.addLine at h
    cases h1 : symmetries basis p with
    | error e => simp [h1, bind, Except.bind] at h
    | ok rs =>
      simp only [h1, bind, Except.bind] at h
      cases h2 : rs.foldlM (fun b (qk : Pos × Fin 8) => Book.addImage size b qk.1 qk.2 m) b with
      | error e => simp [h2] at h
      | ok b1 =>
        simp only [h2] at h
        cases h3 : p.apply basis m with
        | error e => simp [h3] at h
        | ok p' =>
          simp only [h3] at h
          obtain ⟨i1, i2, i3⟩ := F.apply p m p' hi (hOk line hline pre m rest hl p hp) h3
          have hleg : SLegal p m := by unfold SLegal; rw [i3]; rfl
          have hb1 : BookOK (BookImg basis size lines) b1 := by
            apply foldImages_ok rs b b1 hb _ h2
            intro qk hqk
            have himg' := (symmetries_mem basis p rs h1).1 qk hqk
            refine ⟨⟨line, hline, pre, m, rest, hl, p, qk.2, hp, himg'⟩, ?_⟩
            intro sm hsm
            rw [← hs] at hsm
            exact slegal_image himg hi (by rw [hs]; exact hsz) himg' hleg hsm
          exact ih (pre ++ [m]) p' b1 b' (by rw [hl]; simp) (linePos_snoc hp h3) i1 (by rw [i2, hs]) hb1 h

theorem new_size_ok {cfg : Cfg} {p : Pos} (h : Pos.new cfg = .ok p) : p.cfg.size = cfg.size ∧ cfg.size ≤ 8 := by
  unfold Pos.new at h
  by_cases h1 : cfg.size ≥ Facts.defaultPieces.length
  · simp [h1] at h
  · by_cases h2 : cfg.size < 3 ∨ cfg.size > 8
    · simp [h1, h2] at h
    · simp only [h1, h2, if_false] at h
      cases h
      exact ⟨rfl, by omega⟩

/-- **Every reply stored in a successfully built book is legal (by the rule book) in one of the rebuilt
images of a book-line position that has the entry's key; every entry has a reply, all weights are positive.** -/
theorem build_ok {basis : Array W} {size : Nat} {Inv : Pos → Prop} {Ok : Pos → Move → Prop} (F : PosFacts basis size Inv Ok)
    (himg : ImageFact basis Inv)
    {lines : List (List Move)} (hOk : LinesOk basis size lines Ok) {book : Book}
    (h : buildOpeningBook basis size lines = .ok book) :
    BookOK (BookImg basis size lines) book := by
  unfold buildOpeningBook at h
  cases hn : Pos.new { size := size, pieces := 0, capstones := 0, blackWinsTies := false } with
  | error e =>
    cases lines with
    | nil => simp [pure, Except.pure] at h; subst h; intro e he; simp at he
    | cons l rest => rw [List.foldlM_cons] at h; simp [hn, bind, Except.bind] at h
  | ok p =>
    simp only [hn, bind, Except.bind] at h
    obtain ⟨s1, s2⟩ := new_size_ok hn
    have hp : linePos basis size [] = .ok p := by
      simp [linePos, hn, bind, Except.bind, pure, Except.pure]
    have gen : ∀ (ls : List (List Move)) (b b' : Book), (∀ l ∈ ls, l ∈ lines) →
        BookOK (BookImg basis size lines) b →
        ls.foldlM (fun b line => Book.addLine basis size line p b) b = .ok b' →
        BookOK (BookImg basis size lines) b' := by
      intro ls
      induction ls with
      | nil => intro b b' _ hb h; simp [pure, Except.pure] at h; subst h; exact hb
      | cons line rest ih =>
        intro b b' hsub hb h
        rw [List.foldlM_cons] at h
        cases h1 : Book.addLine basis size line p b with
        | error e => simp [h1, bind, Except.bind] at h
        | ok b1 =>
          simp only [h1, bind, Except.bind] at h
          have hb1 := addLine_ok F himg s2 hOk (hsub line (by simp)) line [] p b b1 rfl hp (F.new _ hn) s1 hb h1
          exact ih b1 b' (fun l hl => hsub l (List.mem_cons_of_mem _ hl)) hb1 h
    exact gen lines _ book (fun _ h => h) (by intro e he; simp at he) h

/-! ### `GetMove` -/

theorem pickChild_mem (rnd : Nat → Nat → Nat) : ∀ (cs : List BookChild) (i sum : Nat) (out m : Move),
    pickChild rnd cs i sum out = .ok m → m = out ∨ ∃ c ∈ cs, c.move = m := by
  intro cs
  induction cs with
  | nil => intro i sum out m h; simp [pickChild] at h; left; exact h.symm
  | cons ch rest ih =>
    intro i sum out m h
    unfold pickChild at h
    simp only at h
    split at h
    · cases h
    · rcases ih _ _ _ _ h with h | ⟨c, hc, e⟩
      · by_cases hr : rnd i (sum + ch.weight) < ch.weight
        · simp only [hr, if_true] at h; right; exact ⟨ch, by simp, h.symm⟩
        · simp only [hr, if_false] at h; left; exact h
      · right; exact ⟨c, by simp [hc], e⟩

/-- with an oracle that respects the contract of `Int31n` the answer is one of the stored replies -/
theorem pickChild_first (rnd : Nat → Nat → Nat) (hr : ∀ i n, 0 < n → rnd i n < n) (ch : BookChild)
    (rest : List BookChild) (hw : 0 < ch.weight) (out m : Move)
    (h : pickChild rnd (ch :: rest) 0 0 out = .ok m) : ∃ c ∈ ch :: rest, c.move = m := by
  unfold pickChild at h
  simp only [Nat.zero_add] at h
  split at h
  · cases h
  · simp only [hr 0 ch.weight hw, if_true] at h
    rcases pickChild_mem rnd rest _ _ _ _ h with h | ⟨c, hc, e⟩
    · exact ⟨ch, by simp, h.symm⟩
    · exact ⟨c, by simp [hc], e⟩

/-- **`GetMove` returns a legal move.**  For a book that was built without error, an oracle within the
contract of `Int31n`, and a looked-up position `q` that does not collide with a *different* board among the
rebuilt images of book-line positions (same hash ⇒ same board, reserves and ply as seen through `At`): if
`GetMove` answers, the answer is legal in `q` by the rule book. -/
theorem getMove_legal {basis : Array W} {size : Nat} {Inv : Pos → Prop} {Ok : Pos → Move → Prop} (F : PosFacts basis size Inv Ok)
    (himg : ImageFact basis Inv)
    {lines : List (List Move)} (hOk : LinesOk basis size lines Ok) {book : Book}
    (hb : buildOpeningBook basis size lines = .ok book)
    (q : Pos) (rnd : Nat → Nat → Nat) (hr : ∀ i n, 0 < n → rnd i n < n)
    (hnc : ∀ q₀, BookImg basis size lines q₀ → q₀.hashOf = q.hashOf → Spec.abs q₀ = Spec.abs q)
    (m : Move) (h : book.getMove q rnd = .ok (some m)) : SLegal q m := by
  have ok := build_ok F himg hOk hb
  unfold Book.getMove at h
  cases hf : book.find q.hashOf with
  | none => simp [hf] at h
  | some e =>
    simp only [hf, bind, Except.bind] at h
    have he : e ∈ book.entries := List.mem_of_find?_eq_some hf
    have hk : e.hash = q.hashOf := by
      have := List.find?_some hf
      exact beq_iff_eq.1 this
    obtain ⟨hne, hall⟩ := ok e he
    cases hp : pickChild rnd e.moves 0 0 { x := 0, y := 0, type := 0, slides := 0#32 } with
    | error err => simp [hp] at h
    | ok m' =>
      simp only [hp, pure, Except.pure, Except.ok.injEq, Option.some.injEq] at h
      subst h
      cases hm : e.moves with
      | nil => exact absurd hm hne
      | cons ch rest =>
        rw [hm] at hp
        obtain ⟨c, hc, rfl⟩ := pickChild_first rnd hr ch rest ((hall ch (by simp [hm])).1) _ _ hp
        obtain ⟨-, q₀, h1, h2, h3⟩ := hall c (by rw [hm]; exact hc)
        unfold SLegal at *
        rw [← hnc q₀ h1 (by rw [h2, hk])]
        exact h3

/-! ### every image of a book position is found -/

def HasKey (b : Book) (h : W) : Prop := ∃ e ∈ b.entries, e.hash = h

theorem addImage_keys {size : Nat} {b b' : Book} {q : Pos} {k : Fin 8} {m : Move}
    (h : Book.addImage size b q k m = .ok b') :
    (∀ x, HasKey b x → HasKey b' x) ∧ HasKey b' q.hashOf := by
  unfold Book.addImage at h
  cases hsm : transformMove size [k] m with
  | error e => simp [hsm, bind, Except.bind] at h
  | ok sm =>
    simp only [hsm, bind, Except.bind, pure, Except.pure] at h
    cases hf : b.find q.hashOf with
    | some e0 =>
      rw [hf] at h; simp only at h; cases h
      have keep : ∀ x, HasKey b x → HasKey
          { b with entries := b.entries.map (fun e => if e.hash == q.hashOf then { e with moves := bumpChild sm e.moves } else e) } x := by
        intro x ⟨e, he, hx⟩
        refine ⟨_, List.mem_map.2 ⟨e, he, rfl⟩, ?_⟩
        split <;> exact hx
      refine ⟨keep, keep _ ⟨e0, List.mem_of_find?_eq_some hf, ?_⟩⟩
      have hf' : b.entries.find? (fun e => e.hash == q.hashOf) = some e0 := hf
      have := List.find?_some hf'
      exact beq_iff_eq.1 this
    | none =>
      rw [hf] at h; simp only at h; cases h
      exact ⟨fun x ⟨e, he, hx⟩ => ⟨e, List.mem_append_left _ he, hx⟩,
        ⟨{ hash := q.hashOf, p := q, moves := bumpChild sm [] }, List.mem_append_right _ (by simp), rfl⟩⟩

theorem foldImages_keys {size : Nat} {m : Move} : ∀ (rs : List (Pos × Fin 8)) (b b' : Book),
    rs.foldlM (fun b (qk : Pos × Fin 8) => Book.addImage size b qk.1 qk.2 m) b = .ok b' →
    (∀ x, HasKey b x → HasKey b' x) ∧ ∀ qk ∈ rs, HasKey b' qk.1.hashOf := by
  intro rs
  induction rs with
  | nil => intro b b' h; simp [pure, Except.pure] at h; subst h; exact ⟨fun _ h => h, by simp⟩
  | cons qk rest ih =>
    intro b b' h
    rw [List.foldlM_cons] at h
    cases h1 : Book.addImage size b qk.1 qk.2 m with
    | error e => simp [h1, bind, Except.bind] at h
    | ok b1 =>
      simp only [h1, bind, Except.bind] at h
      obtain ⟨k1, k2⟩ := addImage_keys h1
      obtain ⟨r1, r2⟩ := ih b1 b' h
      refine ⟨fun x hx => r1 x (k1 x hx), ?_⟩
      intro e he
      rcases List.mem_cons.1 he with rfl | he
      · exact r1 _ k2
      · exact r2 e he

theorem addLine_keys {basis : Array W} {size : Nat} :
    ∀ (ms pre : List Move) (p : Pos) (b b' : Book), linePos basis size pre = .ok p →
      Book.addLine basis size ms p b = .ok b' →
      (∀ x, HasKey b x → HasKey b' x) ∧
      ∀ pre' m suf, pre ++ ms = pre' ++ m :: suf → pre.length ≤ pre'.length →
        ∀ p' k q, linePos basis size pre' = .ok p' → imagePos basis p' k = .ok q → HasKey b' q.hashOf := by
  intro ms
  induction ms with
  | nil =>
    intro pre p b b' _ h
    simp [Book.addLine] at h; subst h
    refine ⟨fun _ h => h, ?_⟩
    intro pre' m suf e hl
    have := congrArg List.length e
    simp at this; omega
  | cons m rest ih =>
    intro pre p b b' hp h
    unfold Book.addLine at h
    cases h1 : symmetries basis p with
    | error e => simp [h1, bind, Except.bind] at h
    | ok rs =>
      simp only [h1, bind, Except.bind] at h
      cases h2 : rs.foldlM (fun b (qk : Pos × Fin 8) => Book.addImage size b qk.1 qk.2 m) b with
      | error e => simp [h2] at h
      | ok b1 =>
        simp only [h2] at h
        cases h3 : p.apply basis m with
        | error e => simp [h3] at h
        | ok p1 =>
          simp only [h3] at h
          obtain ⟨f1, f2⟩ := foldImages_keys rs b b1 h2
          obtain ⟨r1, r2⟩ := ih (pre ++ [m]) p1 b1 b' (linePos_snoc hp h3) h
          refine ⟨fun x hx => r1 x (f1 x hx), ?_⟩
          intro pre' m' suf e hl p' k q hp' hq
          by_cases hlen : pre'.length = pre.length
          · -- the position is the current one
            have hpre : pre' = pre := by
              have := List.append_inj e.symm hlen
              exact this.1
            subst hpre
            rw [hp] at hp'; cases hp'
            obtain ⟨e1, he1, hh⟩ := (symmetries_mem basis p rs h1).2 k q hq
            rw [← hh]
            exact r1 _ (f2 e1 he1)
          · exact r2 pre' m' suf (by rw [← e]; simp) (by simp; omega) p' k q hp' hq

/-- **Every rebuilt image of every book-line position that has a reply is a key of the book.** -/
theorem build_keys {basis : Array W} {size : Nat} {lines : List (List Move)} {book : Book}
    (h : buildOpeningBook basis size lines = .ok book) (q : Pos) (hq : BookImg basis size lines q) :
    HasKey book q.hashOf := by
  unfold buildOpeningBook at h
  obtain ⟨line, hline, pre, m, suf, hl, p', k, hp', hi⟩ := hq
  cases hn : Pos.new { size := size, pieces := 0, capstones := 0, blackWinsTies := false } with
  | error e => simp [linePos, hn, bind, Except.bind] at hp'
  | ok p =>
    simp only [hn, bind, Except.bind] at h
    have hp : linePos basis size [] = .ok p := by
      simp [linePos, hn, bind, Except.bind, pure, Except.pure]
    have gen : ∀ (ls : List (List Move)) (b b' : Book),
        ls.foldlM (fun b line => Book.addLine basis size line p b) b = .ok b' →
        (∀ x, HasKey b x → HasKey b' x) ∧ (line ∈ ls → HasKey b' q.hashOf) := by
      intro ls
      induction ls with
      | nil => intro b b' h; simp [pure, Except.pure] at h; subst h; exact ⟨fun _ h => h, by simp⟩
      | cons l rest ih =>
        intro b b' h
        rw [List.foldlM_cons] at h
        cases h1 : Book.addLine basis size l p b with
        | error e => simp [h1, bind, Except.bind] at h
        | ok b1 =>
          simp only [h1, bind, Except.bind] at h
          obtain ⟨a1, a2⟩ := addLine_keys l [] p b b1 hp h1
          obtain ⟨r1, r2⟩ := ih b1 b' h
          refine ⟨fun x hx => r1 x (a1 x hx), ?_⟩
          intro hmem
          rcases List.mem_cons.1 hmem with rfl | hmem
          · exact r1 _ (a2 pre m suf (by simpa using hl) (by simp) p' k q hp' hi)
          · exact r2 hmem
    exact (gen lines _ book h).2 hline

/-- `GetMove` does not hit the `Int31n` panic while the weights of the entry sum to less than 2^31 -/
theorem pickChild_ok (rnd : Nat → Nat → Nat) : ∀ (cs : List BookChild) (i sum : Nat) (out : Move),
    (∀ c ∈ cs, 0 < c.weight) → sum + (cs.map (·.weight)).sum < 2147483648 →
    ∃ m, pickChild rnd cs i sum out = .ok m := by
  intro cs
  induction cs with
  | nil => intro i sum out _ _; exact ⟨out, rfl⟩
  | cons ch rest ih =>
    intro i sum out hw hs
    unfold pickChild
    simp only
    have h1 : 0 < ch.weight := hw ch (by simp)
    simp only [List.map_cons, List.sum_cons] at hs
    have hlt : sum + ch.weight < 2147483648 := by omega
    have hmod : (sum + ch.weight) % 4294967296 = sum + ch.weight := Nat.mod_eq_of_lt (by omega)
    have hc : ¬ ((sum + ch.weight) % 4294967296 = 0 ∨ (sum + ch.weight) % 4294967296 ≥ 2147483648) := by
      rw [hmod]; omega
    simp only [hc, if_false]
    exact ih _ _ _ (fun c hc => hw c (by simp [hc])) (by omega)

end Tak
