import TakVerif.Proofs.SearchTable

/-! Positions related by a bisimulation of the search's game have negamax values of the same three-valued class at
every depth.  This is what turns a no-collision hypothesis about hashes ("equal hashes ⇒ related positions") into the
hypothesis `HashOK` of the table theorems. -/
namespace Search
open Tak (Err)

variable {P M : Type}

/-- a relation on positions that the search cannot see through as far as verdicts go: related positions are both
finished or both unfinished, their evaluations are decisive in the same direction, and every legal child of one is
related to a legal child of the other -/
structure SearchBisim (g : Game P M) (R : P → P → Prop) : Prop where
  symm : ∀ p q, R p q → R q p
  over : ∀ p q, R p q → g.over p = g.over q
  evalHi : ∀ p q, R p q → g.eval p > Facts.winThreshold → g.eval q > Facts.winThreshold
  evalLo : ∀ p q, R p q → g.eval p < -Facts.winThreshold → g.eval q < -Facts.winThreshold
  step : ∀ p q, R p q → ∀ x ∈ kids g p, ∃ y ∈ kids g q, R x.2 y.2

theorem lo_lt : Facts.minEval - 1 < -Facts.winThreshold := by decide
theorem lo_le : ¬ (Facts.minEval - 1 > Facts.winThreshold) := by decide

theorem negamax_cls_imp {g : Game P M} {R : P → P → Prop} (hb : SearchBisim g R) :
    ∀ (d : Nat) (p q : P), R p q →
      (negamax g d p > Facts.winThreshold → negamax g d q > Facts.winThreshold) ∧
      (negamax g d p < -Facts.winThreshold → negamax g d q < -Facts.winThreshold) := by
  intro d
  induction d with
  | zero => intro p q h; exact ⟨hb.evalHi p q h, hb.evalLo p q h⟩
  | succ d ih =>
    intro p q h
    have hov := hb.over p q h
    by_cases hp : g.over p = true
    · rw [negamax_over g _ p hp, negamax_over g _ q (by rw [← hov]; exact hp)]
      exact ⟨hb.evalHi p q h, hb.evalLo p q h⟩
    · have hp' : g.over p = false := by simpa using hp
      have hq' : g.over q = false := by rw [← hov]; exact hp'
      rw [negamax_succ g d p hp', negamax_succ g d q hq']
      constructor
      · intro hw
        by_cases hne : kids g p = []
        · rw [hne] at hw
          simp only [maxOver] at hw
          exact absurd hw lo_le
        · obtain ⟨x, hx, hmx⟩ := maxOver_attained (fun c => -(negamax g d c.2)) (Facts.minEval - 1) (kids g p) hne
          obtain ⟨y, hy, hr⟩ := hb.step p q h x hx
          have h1 := (ih x.2 y.2 hr).2 (by rw [hmx] at hw; omega)
          have h2 := maxOver_ge (fun c => -(negamax g d c.2)) (Facts.minEval - 1) (kids g q) y hy
          omega
      · intro hl
        by_cases hne : kids g q = []
        · rw [hne]
          simp only [maxOver]
          exact lo_lt
        · obtain ⟨y, hy, hmy⟩ := maxOver_attained (fun c => -(negamax g d c.2)) (Facts.minEval - 1) (kids g q) hne
          obtain ⟨x, hx, hr⟩ := hb.step q p (hb.symm p q h) y hy
          have h2 := maxOver_ge (fun c => -(negamax g d c.2)) (Facts.minEval - 1) (kids g p) x hx
          have h1 := (ih x.2 y.2 (hb.symm _ _ hr)).1 (by omega)
          rw [hmy]
          omega

/-- **related positions have the same verdict class at every depth** -/
theorem negamax_cls_congr {g : Game P M} {R : P → P → Prop} (hb : SearchBisim g R) (d : Nat) (p q : P) (h : R p q) :
    (negamax g d p > Facts.winThreshold ↔ negamax g d q > Facts.winThreshold) ∧
    (negamax g d p < -Facts.winThreshold ↔ negamax g d q < -Facts.winThreshold) :=
  ⟨⟨(negamax_cls_imp hb d p q h).1, (negamax_cls_imp hb d q p (hb.symm p q h)).1⟩,
   ⟨(negamax_cls_imp hb d p q h).2, (negamax_cls_imp hb d q p (hb.symm p q h)).2⟩⟩

end Search
