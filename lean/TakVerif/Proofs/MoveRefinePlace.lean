import TakVerif.Proofs.WF

/-! C01, placement moves: `Pos.apply` agrees with `Spec.step` and preserves `WF`. -/
namespace Tak
open Spec (abs decode)

/-- the move-type code of a placement of kind `k` -/
def placeCode : Kind → Nat
  | .flat => Facts.mtPlaceFlat
  | .standing => Facts.mtPlaceStanding
  | .capstone => Facts.mtPlaceCapstone

theorem decode_place (m : Move) (k : Kind) (h : m.type = placeCode k) : decode m = .place m.x m.y k := by
  cases k <;> simp [decode, h, placeCode, Facts.mtPlaceFlat, Facts.mtPlaceStanding, Facts.mtPlaceCapstone]

/-- colour of the piece a placement puts down: the opponent's during the opening -/
def placeColor (p : Pos) : Color := if p.move < 2 then p.toMove.flip else p.toMove

theorem apply_place_eq (basis : Array W) (p : Pos) (m : Move) (k : Kind) (h : m.type = placeCode k) :
    Pos.apply basis p m =
      if p.move < 2 ∧ k ≠ .flat then .error (.illegal "illegal opening")
      else if m.x < 0 ∨ m.x ≥ (p.cfg.size : Int) ∨ m.y < 0 ∨ m.y ≥ (p.cfg.size : Int) then .error (.illegal "off board")
      else placeOn p { p with move := p.move + 1 } (m.x + m.y * (p.cfg.size : Int)).toNat ⟨placeColor p, k⟩ := by
  unfold Pos.apply dispatch openingRule placeColor
  by_cases ho : p.move < 2 <;> cases k <;>
    simp [h, ho, placeCode, Facts.mtPass, Facts.mtPlaceFlat, Facts.mtPlaceStanding, Facts.mtPlaceCapstone]

theorem onBoard_iff (s : Spec.State) (x y : Int) :
    s.onBoard x y = true ↔ ¬(x < 0 ∨ x ≥ (s.size : Int) ∨ y < 0 ∨ y ≥ (s.size : Int)) := by
  simp [Spec.State.onBoard]
  omega

theorem abs_onBoard (p : Pos) (x y : Int) :
    (abs p).onBoard x y = true ↔ ¬(x < 0 ∨ x ≥ (p.cfg.size : Int) ∨ y < 0 ∨ y ≥ (p.cfg.size : Int)) :=
  onBoard_iff (abs p) x y

theorem abs_at (p : Pos) (x y : Int) (hi : (x + y * (p.cfg.size : Int)).toNat < p.cfg.size * p.cfg.size) :
    (abs p).at x y = (p.cell (x + y * (p.cfg.size : Int)).toNat).square := by
  unfold Spec.State.at Spec.State.idx
  exact abs_squares_getD p _ hi

theorem Cell.square_isEmpty (c : Cell) : c.square.isEmpty = (!c.w && !c.b) := by
  unfold Cell.square Cell.top
  cases c.w <;> cases c.b <;> simp

theorem abs_toMove (p : Pos) : (abs p).toMove = p.toMove := rfl

theorem toMove_flip_cases (p : Pos) : p.toMove.flip = .white ∨ p.toMove.flip = .black := by
  rcases toMove_cases p with h | h <;> simp [h, Color.flip]

theorem placeColor_cases (p : Pos) : placeColor p = .white ∨ placeColor p = .black := by
  unfold placeColor
  split
  · exact toMove_flip_cases p
  · exact toMove_cases p

theorem u8_pred_toNat (x : U8) (h : x ≠ 0#8) : (x - 1).toNat = x.toNat - 1 := by
  have h1 : x.toNat ≠ 0 := fun hh => h (BitVec.eq_of_toNat_eq (by simpa using hh))
  have h8 : x.toNat < 256 := x.isLt
  exact u8_sub_toNat x 1 (by omega)

theorem squares_ext {q : Pos} {l : List Spec.Square} (hl : l.length = q.cfg.size * q.cfg.size)
    (h : ∀ j, j < q.cfg.size * q.cfg.size → (q.cell j).square = l.getD j []) : (abs q).squares = l := by
  apply List.ext_getElem
  · rw [abs_squares_length, hl]
  · intro j h1 h2
    rw [abs_squares_length] at h1
    have := abs_squares_getD q j h1
    rw [List.getD_eq_getElem?_getD, List.getElem?_eq_getElem (by rw [abs_squares_length]; exact h1)] at this
    simp only [Option.getD_some] at this
    rw [this, h j h1, List.getD_eq_getElem?_getD, List.getElem?_eq_getElem h2]
    rfl

theorem getD_set (l : List Spec.Square) (i j : Nat) (v : Spec.Square) :
    (l.set i v).getD j [] = if j = i ∧ i < l.length then v else l.getD j [] := by
  simp only [List.getD_eq_getElem?_getD, List.getElem?_set]
  by_cases hji : i = j
  · subst hji
    by_cases hlt : i < l.length
    · simp [hlt]
    · simp [hlt]
  · have : ¬ j = i := fun h => hji h.symm
    simp [hji, this]

theorem Cell.place_wf {c : Cell} (hc : c.WF) (hw : c.w = false) (hb : c.b = false) (pc : Piece)
    (hcol : pc.color = .white ∨ pc.color = .black) : (c.place pc).WF := by
  have hs : c.s = false := by
    cases hs : c.s
    · rfl
    · have := hc.kind_occ (.inl hs); simp [hw, hb] at this
  have hcp : c.c = false := by
    cases hs : c.c
    · rfl
    · have := hc.kind_occ (.inr hs); simp [hw, hb] at this
  have h0 : c.h = 0#8 := hc.h_zero.2 ⟨hw, hb⟩
  obtain ⟨col, kd⟩ := pc
  simp only at hcol
  refine { wb := ?_, sc := ?_, kind_occ := ?_, h_zero := ?_, h_le := ?_, st_hi := ?_ }
  · rcases hcol with rfl | rfl <;> simp [Cell.place, hw, hb]
  · cases kd <;> simp [Cell.place, hs, hcp]
  · intro _; rcases hcol with rfl | rfl <;> simp [Cell.place, hw, hb]
  · simp only [Cell.place, h0]
    rcases hcol with rfl | rfl <;> simp [hw, hb]
  · simp [Cell.place, h0]
  · intro k _
    simp only [Cell.place]
    exact hc.st_hi k (by rw [h0]; simp)

theorem Cell.place_square {c : Cell} (hc : c.WF) (hw : c.w = false) (hb : c.b = false) (pc : Piece)
    (hcol : pc.color = .white ∨ pc.color = .black) : (c.place pc).square = [pc] := by
  have hs : c.s = false := by
    cases hs : c.s
    · rfl
    · have := hc.kind_occ (.inl hs); simp [hw, hb] at this
  have hcp : c.c = false := by
    cases hs : c.c
    · rfl
    · have := hc.kind_occ (.inr hs); simp [hw, hb] at this
  have h0 : c.h = 0#8 := hc.h_zero.2 ⟨hw, hb⟩
  obtain ⟨col, kd⟩ := pc
  simp only at hcol
  unfold Cell.square Cell.top
  rcases hcol with rfl | rfl <;> cases kd <;> simp [Cell.place, hw, hb, hs, hcp, h0, buried]

theorem State_ext {a b : Spec.State} (h1 : a.size = b.size) (h2 : a.blackWinsTies = b.blackWinsTies)
    (h3 : a.squares = b.squares) (h4 : a.ply = b.ply) (h5 : a.whiteStones = b.whiteStones)
    (h6 : a.whiteCaps = b.whiteCaps) (h7 : a.blackStones = b.blackStones) (h8 : a.blackCaps = b.blackCaps) : a = b := by
  cases a; cases b; simp_all

theorem placed_wf {basis : Array W} {p : Pos} (hwf : WF basis p) (i : Nat) (hi : i < p.cfg.size * p.cfg.size)
    (pc : Piece) (hcol : pc.color = .white ∨ pc.color = .black)
    (hw : (p.cell i).w = false) (hb : (p.cell i).b = false) :
    WF basis (placed p { p with move := p.move + 1 } i pc) := by
  have h64 : i < 64 := by have := hwf.toFrame.n_le; omega
  have hh : i < p.height.size := by rw [hwf.height_size]; exact hi
  refine { size_ge := hwf.size_ge, size_le := hwf.size_le, consts := hwf.consts, height_size := ?_,
           stacks_size := hwf.stacks_size, cell := ?_, hash := ?_, move_nonneg := ?_ }
  · simp only [placed, Array.size_setIfInBounds]; exact hwf.height_size
  · intro j
    rw [placed_cell p { p with move := p.move + 1 } i pc h64 hh j]
    by_cases hji : j = i
    · simp only [hji, if_true]
      exact Cell.place_wf (hwf.cell i) hw hb pc hcol
    · simp only [hji, if_false]; exact hwf.cell j
  · have h0 : p.height.getD i 0 = 0#8 := (hwf.cell i).h_zero.2 ⟨hw, hb⟩
    refine HashOK.setHeight_low (p := p) hwf.hash i (p.height.getD i 0 + 1) rfl rfl rfl ?_ ?_
    · rw [h0]; decide
    · rw [h0]; decide
  · show 0 ≤ p.move + 1
    have := hwf.move_nonneg; omega

theorem placed_squares {basis : Array W} {p : Pos} (hwf : WF basis p) (i : Nat) (hi : i < p.cfg.size * p.cfg.size)
    (pc : Piece) (hcol : pc.color = .white ∨ pc.color = .black)
    (hw : (p.cell i).w = false) (hb : (p.cell i).b = false) :
    (abs (placed p { p with move := p.move + 1 } i pc)).squares = (abs p).squares.set i [pc] := by
  have h64 : i < 64 := by have := hwf.toFrame.n_le; omega
  have hh : i < p.height.size := by rw [hwf.height_size]; exact hi
  apply squares_ext
  · rw [List.length_set, abs_squares_length]; rfl
  · intro j hj
    rw [placed_cell p { p with move := p.move + 1 } i pc h64 hh j, getD_set]
    by_cases hji : j = i
    · subst hji
      simp only [if_true, abs_squares_length, true_and]
      rw [if_pos hi]
      exact Cell.place_square (hwf.cell j) hw hb pc hcol
    · simp only [hji, if_false, false_and]
      exact (abs_squares_getD p j hj).symm

theorem decReserve_fields (s : Spec.State) (col : Color) (cap : Bool) :
    (s.decReserve col cap).size = s.size ∧ (s.decReserve col cap).blackWinsTies = s.blackWinsTies ∧
    (s.decReserve col cap).squares = s.squares ∧ (s.decReserve col cap).ply = s.ply ∧
    (s.decReserve col cap).whiteStones = (if col = .white ∧ cap = false then s.whiteStones - 1 else s.whiteStones) ∧
    (s.decReserve col cap).whiteCaps = (if col = .white ∧ cap = true then s.whiteCaps - 1 else s.whiteCaps) ∧
    (s.decReserve col cap).blackStones = (if col = .black ∧ cap = false then s.blackStones - 1 else s.blackStones) ∧
    (s.decReserve col cap).blackCaps = (if col = .black ∧ cap = true then s.blackCaps - 1 else s.blackCaps) := by
  cases col <;> cases cap <;> simp [Spec.State.decReserve]

theorem u8_if_pred_toNat (c : Prop) [Decidable c] (x : U8) (h : c → x ≠ 0#8) :
    (if c then x - 1 else x).toNat = if c then x.toNat - 1 else x.toNat := by
  split
  · exact u8_pred_toNat x (h ‹_›)
  · rfl

theorem abs_placed {basis : Array W} {p : Pos} (hwf : WF basis p) (x y : Int)
    (hi : (x + y * (p.cfg.size : Int)).toNat < p.cfg.size * p.cfg.size) (k : Kind)
    (hopen : ¬(p.move < 2 ∧ k ≠ .flat))
    (hw : (p.cell (x + y * (p.cfg.size : Int)).toNat).w = false)
    (hb : (p.cell (x + y * (p.cfg.size : Int)).toNat).b = false)
    (hres : placeReserve p { p with move := p.move + 1 } ⟨placeColor p, k⟩ ≠ 0#8) :
    abs (placed p { p with move := p.move + 1 } (x + y * (p.cfg.size : Int)).toNat ⟨placeColor p, k⟩) =
      { ((abs p).decReserve (placeColor p) (k == .capstone)).setAt x y [⟨placeColor p, k⟩] with
        ply := (abs p).ply + 1 } := by
  have hcap : k = .capstone → placeColor p = p.toMove := by
    intro hk; unfold placeColor; rw [if_neg]; intro h; exact hopen ⟨h, by rw [hk]; simp⟩
  have hcases := placeColor_cases p
  generalize hcol : placeColor p = col at *
  have hsq := placed_squares hwf _ hi ⟨col, k⟩ hcases hw hb
  obtain ⟨d1, d2, d3, d4, d5, d6, d7, d8⟩ := decReserve_fields (abs p) col (k == .capstone)
  have htm : k = .capstone → p.toMove = col := fun h => (hcap h).symm
  apply State_ext
  · exact d1.symm
  · exact d2.symm
  · rw [hsq]; show _ = List.set _ (Spec.State.idx _ x y) _
    unfold Spec.State.idx; rw [d3, d1]; rfl
  · show p.move + 1 = _; rfl
  · show BitVec.toNat (if k ≠ Kind.capstone ∧ col ≠ Color.black then p.whiteStones - 1 else p.whiteStones) =
      ((abs p).decReserve col (k == Kind.capstone)).whiteStones
    rw [d5, u8_if_pred_toNat]
    · rcases hcases with rfl | rfl <;> cases k <;> simp <;> rfl
    · intro ⟨h1, h2⟩; simpa [placeReserve, h1, h2] using hres
  · show BitVec.toNat (if k = Kind.capstone ∧ p.toMove ≠ Color.black then p.whiteCaps - 1 else p.whiteCaps) =
      ((abs p).decReserve col (k == Kind.capstone)).whiteCaps
    rw [d6, u8_if_pred_toNat]
    · rcases hcases with rfl | rfl <;> cases k <;> simp [htm] <;> rfl
    · intro ⟨h1, h2⟩; simpa [placeReserve, h1, h2] using hres
  · show BitVec.toNat (if k ≠ Kind.capstone ∧ col = Color.black then p.blackStones - 1 else p.blackStones) =
      ((abs p).decReserve col (k == Kind.capstone)).blackStones
    rw [d7, u8_if_pred_toNat]
    · rcases hcases with rfl | rfl <;> cases k <;> simp <;> rfl
    · intro ⟨h1, h2⟩; simpa [placeReserve, h1, h2] using hres
  · show BitVec.toNat (if k = Kind.capstone ∧ p.toMove = Color.black then p.blackCaps - 1 else p.blackCaps) =
      ((abs p).decReserve col (k == Kind.capstone)).blackCaps
    rw [d8, u8_if_pred_toNat]
    · rcases hcases with rfl | rfl <;> cases k <;> simp [htm] <;> rfl
    · intro ⟨h1, h2⟩; simpa [placeReserve, h1, h2] using hres

/-- **placement moves refine the rule book and preserve well-formedness** -/
theorem place_refines {basis : Array W} {p : Pos} (hA : AnalyzeTotal) (hwf : WF basis p) (m : Move) (k : Kind) (h : m.type = placeCode k) :
    match Pos.apply basis p m with
    | .error _ => Spec.step (abs p) (decode m) = none
    | .ok q => Spec.step (abs p) (decode m) = some (abs q) ∧ WF basis q := by
  rw [apply_place_eq basis p m k h, decode_place m k h]
  have hply : (abs p).ply = p.move := rfl
  by_cases ho : p.move < 2 ∧ k ≠ .flat
  · rw [if_pos ho]
    show Spec.step _ _ = none
    simp only [Spec.step]
    split
    · rfl
    · rw [if_pos (by rw [hply]; exact ho)]
  · rw [if_neg ho]
    by_cases hb : m.x < 0 ∨ m.x ≥ (p.cfg.size : Int) ∨ m.y < 0 ∨ m.y ≥ (p.cfg.size : Int)
    · rw [if_pos hb]
      show Spec.step _ _ = none
      simp only [Spec.step]
      have : (abs p).onBoard m.x m.y = false := by
        cases hob : (abs p).onBoard m.x m.y
        · rfl
        · exact absurd hb ((abs_onBoard p m.x m.y).1 hob)
      simp [this]
    · rw [if_neg hb, placeOn_eq]
      have hob : (abs p).onBoard m.x m.y = true := (abs_onBoard p m.x m.y).2 hb
      have hi : (m.x + m.y * (p.cfg.size : Int)).toNat < p.cfg.size * p.cfg.size :=
        idx_lt _ _ _ (by omega) (by omega) (by omega) (by omega)
      have hat := abs_at p m.x m.y hi
      have hempty : ((abs p).at m.x m.y).isEmpty = !(p.white ||| p.black).getLsbD (m.x + m.y * (p.cfg.size : Int)).toNat := by
        rw [hat, Cell.square_isEmpty, BitVec.getLsbD_or]
        simp only [Pos.cell]
        cases p.white.getLsbD _ <;> cases p.black.getLsbD _ <;> rfl
      by_cases hocc : (p.white ||| p.black).getLsbD (m.x + m.y * (p.cfg.size : Int)).toNat = true
      · rw [if_pos hocc]
        show Spec.step _ _ = none
        simp only [Spec.step, hob, hply]
        simp [ho, hempty, hocc]
      · rw [if_neg hocc]
        have hocc' : (p.white ||| p.black).getLsbD (m.x + m.y * (p.cfg.size : Int)).toNat = false := by
          simpa using hocc
        have hw : (p.cell (m.x + m.y * (p.cfg.size : Int)).toNat).w = false := by
          rw [BitVec.getLsbD_or] at hocc'; simp only [Pos.cell]
          cases h1 : p.white.getLsbD _ <;> simp_all
        have hbk : (p.cell (m.x + m.y * (p.cfg.size : Int)).toNat).b = false := by
          rw [BitVec.getLsbD_or] at hocc'; simp only [Pos.cell]
          cases h1 : p.black.getLsbD _ <;> simp_all
        -- the reserve the spec looks at is the one the model looks at
        have hcap : k = .capstone → placeColor p = p.toMove := by
          intro hk; unfold placeColor; rw [if_neg]; intro h; exact ho ⟨h, by rw [hk]; simp⟩
        have hres : (abs p).reserve (placeColor p) (k == .capstone) =
            (placeReserve p { p with move := p.move + 1 } ⟨placeColor p, k⟩).toNat := by
          have hcases := placeColor_cases p
          have htm : k = .capstone → p.toMove = placeColor p := fun h => (hcap h).symm
          generalize placeColor p = col at *
          rcases hcases with rfl | rfl <;> cases k <;>
            first | rfl | (have hh := htm rfl; simp only [placeReserve, hh]; rfl)
        have hcolspec : (if (abs p).ply < 2 then (abs p).toMove.flip else (abs p).toMove) = placeColor p := rfl
        by_cases hz : (placeReserve p { p with move := p.move + 1 } ⟨placeColor p, k⟩ == 0#8) = true
        · rw [if_pos hz]
          show Spec.step _ _ = none
          have hz' : placeReserve p { p with move := p.move + 1 } ⟨placeColor p, k⟩ = 0#8 := by simpa using hz
          simp only [Spec.step, hob, hcolspec, hres, hz']
          simp [ho, hempty, hocc', hply]
        · rw [if_neg hz]
          have hz' : placeReserve p { p with move := p.move + 1 } ⟨placeColor p, k⟩ ≠ 0#8 := by simpa using hz
          have hnz : (placeReserve p { p with move := p.move + 1 } ⟨placeColor p, k⟩).toNat ≠ 0 := fun hh =>
            hz' (BitVec.eq_of_toNat_eq (by simpa using hh))
          have hstep : Spec.step (abs p) (.place m.x m.y k) =
              some { ((abs p).decReserve (placeColor p) (k == .capstone)).setAt m.x m.y [⟨placeColor p, k⟩] with
                     ply := (abs p).ply + 1 } := by
            simp only [Spec.step, hob, hcolspec, hres]
            simp [ho, hempty, hocc', hply, hnz]
            exact (decReserve_fields (abs p) (placeColor p) (k == .capstone)).2.2.2.1
          have hplaced := placed_wf hwf _ hi ⟨placeColor p, k⟩ (placeColor_cases p) hw hbk
          obtain ⟨q, hq⟩ := finish_total hA
            (placed p { p with move := p.move + 1 } (m.x + m.y * (p.cfg.size : Int)).toNat ⟨placeColor p, k⟩)
          rw [hq]
          show _ ∧ _
          refine ⟨?_, hplaced.finish hq⟩
          rw [hstep, abs_finish hq, abs_placed hwf m.x m.y hi k ho hw hbk hz']

end Tak
