import TakVerif.Impl.Alloc

/-! C09, layer 1: Go slices over the store — what `append` may touch.

`Frame h h' a lo hi`: going from `h` to `h'` no array that existed in `h` changed its length, and the
only cells of existing arrays that may have changed lie in array `a` at indices `[lo, hi)`; `h'` may have
additional (fresh) arrays.  `append`/`appendAll` through a slice `s` satisfy
`Frame … s.arr (s.off+s.len) (s.off+s.cap)`: they write only beyond the current length, inside the
capacity, of the slice's own array — or into arrays they allocate themselves. -/
namespace Tak

theorem Array.getD_setIfInBounds' {α} (a : Array α) (i j : Nat) (v d : α) :
    (a.setIfInBounds i v).getD j d = if i = j ∧ i < a.size then v else a.getD j d := by
  simp only [Array.getD_eq_getD_getElem?, Array.getElem?_setIfInBounds]
  by_cases hij : i = j
  · subst hij
    by_cases hi : i < a.size
    · simp [hi]
    · simp [hi]
  · simp [hij]

theorem Array.getD_push' {α} (a : Array α) (j : Nat) (v d : α) :
    (a.push v).getD j d = if j = a.size then v else a.getD j d := by
  simp only [Array.getD_eq_getD_getElem?, Array.getElem?_push]
  by_cases h : j = a.size <;> simp [h]

/-- slice `s` lies inside an existing array -/
structure Heap.InBounds (h : Heap) (s : Slice) : Prop where
  arr : s.arr < h.arrs.size
  cap : s.off + s.cap ≤ h.asize s.arr
  len : s.len ≤ s.cap

structure Heap.Frame (h h' : Heap) (a lo hi : Nat) : Prop where
  size : h.arrs.size ≤ h'.arrs.size
  asize : ∀ x, x < h.arrs.size → h'.asize x = h.asize x
  cell : ∀ x k, x < h.arrs.size → (x ≠ a ∨ k < lo ∨ hi ≤ k) → h'.cell x k = h.cell x k

theorem Heap.Frame.refl (h : Heap) (a lo hi : Nat) : h.Frame h a lo hi :=
  ⟨Nat.le_refl _, fun _ _ => rfl, fun _ _ _ _ => rfl⟩

theorem Heap.Frame.mono {h h' : Heap} {a lo hi lo' hi' : Nat} (f : h.Frame h' a lo hi)
    (hlo : lo' ≤ lo) (hhi : hi ≤ hi') : h.Frame h' a lo' hi' :=
  ⟨f.size, f.asize, fun x k hx hk => f.cell x k hx (by omega)⟩

/-- a later write either stays inside the earlier footprint or happens in an array that did not exist at the start -/
theorem Heap.Frame.trans {h h1 h2 : Heap} {a lo hi a' lo' hi' : Nat} (f : h.Frame h1 a lo hi)
    (g : h1.Frame h2 a' lo' hi') (hsub : (a' = a ∧ lo ≤ lo' ∧ hi' ≤ hi) ∨ h.arrs.size ≤ a') :
    h.Frame h2 a lo hi := by
  refine ⟨Nat.le_trans f.size g.size, fun x hx => ?_, fun x k hx hk => ?_⟩
  · rw [g.asize x (Nat.lt_of_lt_of_le hx f.size), f.asize x hx]
  · rw [g.cell x k (Nat.lt_of_lt_of_le hx f.size) (by omega), f.cell x k hx hk]

theorem Heap.Frame.readSlice {h h' : Heap} {a lo hi : Nat} (f : h.Frame h' a lo hi) (t : Slice)
    (ht : t.arr < h.arrs.size) (hd : t.arr ≠ a ∨ t.off + t.len ≤ lo ∨ hi ≤ t.off) :
    h'.readSlice t = h.readSlice t := by
  unfold Heap.readSlice
  apply List.map_congr_left
  intro k hk
  have := List.mem_range.mp hk
  exact f.cell _ _ ht (by omega)

theorem Heap.Frame.inBounds {h h' : Heap} {a lo hi : Nat} (f : h.Frame h' a lo hi) {t : Slice}
    (ht : h.InBounds t) : h'.InBounds t :=
  ⟨Nat.lt_of_lt_of_le ht.arr f.size, by rw [f.asize _ ht.arr]; exact ht.cap, ht.len⟩

theorem Heap.readSlice_length (h : Heap) (s : Slice) : (h.readSlice s).length = s.len := by
  simp [Heap.readSlice]

theorem Heap.readSlice_len_zero (h : Heap) (s : Slice) (hs : s.len = 0) : h.readSlice s = [] := by
  simp [Heap.readSlice, hs]

/-- reading only depends on arr/off/len of the header -/
theorem Heap.readSlice_congr (h : Heap) (s t : Slice) (ha : s.arr = t.arr) (ho : s.off = t.off) (hl : s.len = t.len) :
    h.readSlice s = h.readSlice t := by
  simp [Heap.readSlice, ha, ho, hl]

/-! ### `append` -/

theorem Heap.cell_write (h : Heap) (a k : Nat) (v : W) (x j : Nat) :
    Heap.cell { h with arrs := h.arrs.setIfInBounds a ((h.arrs.getD a #[]).setIfInBounds k v) } x j =
      if x = a ∧ j = k ∧ a < h.arrs.size ∧ k < h.asize a then v else h.cell x j := by
  simp only [Heap.cell, Heap.asize, Array.getD_setIfInBounds']
  by_cases hx : a = x
  · subst hx
    by_cases ha : a < h.arrs.size
    · by_cases hk : k = j
      · subst hk; simp [ha]
        by_cases hks : k < h.arrs[a].size
        · simp [hks]
        · simp [hks]
      · have : ¬ j = k := fun e => hk e.symm
        simp [ha, hk, this]
    · simp [ha]
  · have : ¬ x = a := fun e => hx e.symm
    simp [hx, this]

theorem Heap.asize_write (h : Heap) (a k : Nat) (v : W) (x : Nat) :
    Heap.asize { h with arrs := h.arrs.setIfInBounds a ((h.arrs.getD a #[]).setIfInBounds k v) } x = h.asize x := by
  simp only [Heap.asize, Array.getD_setIfInBounds']
  by_cases hx : a = x
  · subst hx
    by_cases ha : a < h.arrs.size <;> simp [ha]
  · simp [hx]

theorem Heap.cell_push (h : Heap) (na : Array W) (x j : Nat) :
    Heap.cell { h with arrs := h.arrs.push na } x j = if x = h.arrs.size then na.getD j 0#64 else h.cell x j := by
  simp only [Heap.cell, Array.getD_push']
  by_cases hx : x = h.arrs.size <;> simp [hx]

theorem Heap.asize_push (h : Heap) (na : Array W) (x : Nat) :
    Heap.asize { h with arrs := h.arrs.push na } x = if x = h.arrs.size then na.size else h.asize x := by
  simp only [Heap.asize, Array.getD_push']
  by_cases hx : x = h.arrs.size <;> simp [hx]

/-- pushing a fresh array changes nothing that existed -/
theorem Heap.Frame.push (h : Heap) (na : Array W) (a lo hi : Nat) :
    h.Frame { h with arrs := h.arrs.push na } a lo hi := by
  refine ⟨by simp, fun x hx => ?_, fun x k hx _ => ?_⟩
  · rw [Heap.asize_push]; simp [Nat.ne_of_lt hx]
  · rw [Heap.cell_push]; simp [Nat.ne_of_lt hx]

theorem List.getD_toArray_append_left (l r : List W) (k : Nat) (hk : k < l.length) (d : W) :
    (l ++ r).toArray.getD k d = l.getD k d := by
  simp [Array.getD_eq_getD_getElem?, List.getElem?_append_left hk, List.getD_eq_getElem?_getD]

/-- the result of `append`: where it wrote, what the new slice reads, where the new slice lives -/
structure Heap.AppendPost (h : Heap) (s : Slice) (vs : List W) (r : Heap × Slice) : Prop where
  objs : r.1.objs = h.objs
  frame : h.Frame r.1 s.arr (s.off + s.len) (s.off + s.cap)
  inb : r.1.InBounds r.2
  read : r.1.readSlice r.2 = h.readSlice s ++ vs
  len : r.2.len = s.len + vs.length
  /-- still the same window of the same array, or moved to an array allocated by this very append -/
  place : (r.2.arr = s.arr ∧ r.2.off = s.off ∧ r.2.cap = s.cap) ∨ (h.arrs.size ≤ r.2.arr ∧ r.2.off = 0)

theorem Heap.append_spec (h : Heap) (s : Slice) (v : W) (hb : h.InBounds s) :
    h.AppendPost s [v] (h.append s v) := by
  unfold Heap.append
  by_cases hlt : s.len < s.cap
  · -- within capacity: one cell of the slice's own array, just beyond its length
    simp only [hlt, if_true]
    have hk : s.off + s.len < h.asize s.arr := by have := hb.cap; omega
    refine ⟨rfl, ⟨by simp, fun x _ => Heap.asize_write .., fun x k _ hk' => ?_⟩, ⟨by simpa using hb.arr, ?_, by simp; omega⟩, ?_, rfl, .inl ⟨rfl, rfl, rfl⟩⟩
    · rw [Heap.cell_write]; split
      · omega
      · rfl
    · rw [Heap.asize_write]; exact hb.cap
    · simp only [Heap.readSlice, List.range_succ, List.map_append, List.map_cons, List.map_nil]
      congr 1
      · apply List.map_congr_left
        intro k hk'
        have := List.mem_range.mp hk'
        rw [Heap.cell_write]; split
        · omega
        · rfl
      · rw [Heap.cell_write]; simp [hb.arr, hk]
  · -- at capacity: a fresh array
    simp only [hlt, if_false]
    have hlen : s.len = s.cap := by have := hb.len; omega
    refine ⟨rfl, Heap.Frame.push .., ⟨by simp, ?_, by simp; omega⟩, ?_, rfl, .inr ⟨Nat.le_refl _, rfl⟩⟩
    · rw [Heap.asize_push]; simp [Heap.readSlice_length]; omega
    · simp only [Heap.readSlice, List.range_succ, List.map_append, List.map_cons, List.map_nil]
      have hrl : (h.readSlice s).length = s.len := Heap.readSlice_length ..
      congr 1
      · apply List.ext_getElem
        · simp
        · intro k h1 h2
          have hk : k < s.len := by simpa using h1
          simp only [List.getElem_map, List.getElem_range, Heap.cell_push, if_true, Nat.zero_add]
          rw [List.append_assoc, List.getD_toArray_append_left _ _ _ (by omega)]
          simp [List.getD_eq_getElem?_getD, hk]
      · simp only [Heap.cell_push, if_true, Nat.zero_add, List.cons.injEq, and_true]
        rw [Array.getD_eq_getD_getElem?]
        simp

theorem Heap.AppendPost.nil (h : Heap) (s : Slice) (hb : h.InBounds s) : h.AppendPost s [] (h, s) :=
  ⟨rfl, Heap.Frame.refl .., hb, by simp, by simp, .inl ⟨rfl, rfl, rfl⟩⟩

theorem Heap.AppendPost.trans {h : Heap} {s : Slice} {vs ws : List W} {r1 r2 : Heap × Slice}
    (p1 : h.AppendPost s vs r1) (p2 : r1.1.AppendPost r1.2 ws r2) : h.AppendPost s (vs ++ ws) r2 := by
  refine ⟨p2.objs.trans p1.objs, ?_, p2.inb, ?_, ?_, ?_⟩
  · refine p1.frame.trans p2.frame ?_
    rcases p1.place with ⟨ha, ho, hc⟩ | ⟨hf, _⟩
    · left; have := p1.len; refine ⟨ha, ?_, ?_⟩ <;> omega
    · right; exact hf
  · rw [p2.read, p1.read, List.append_assoc]
  · rw [p2.len, p1.len, List.length_append]; omega
  · rcases p1.place with ⟨ha, ho, hc⟩ | ⟨hf, ho⟩
    · rcases p2.place with ⟨ha', ho', hc'⟩ | ⟨hf', ho'⟩
      · left; exact ⟨ha'.trans ha, ho'.trans ho, hc'.trans hc⟩
      · right; exact ⟨Nat.le_trans p1.frame.size hf', ho'⟩
    · rcases p2.place with ⟨ha', ho', hc'⟩ | ⟨hf', ho'⟩
      · right; exact ⟨by omega, by omega⟩
      · right; exact ⟨Nat.le_trans p1.frame.size hf', ho'⟩

/-- `appendAll` (= FloodGroups' `out = append(out, g)` loop) through an in-bounds slice -/
theorem Heap.appendAll_spec (h : Heap) (s : Slice) (vs : List W) (hb : h.InBounds s) :
    h.AppendPost s vs (h.appendAll s vs) := by
  induction vs generalizing h s with
  | nil => exact Heap.AppendPost.nil h s hb
  | cons v vs ih =>
    have p1 := h.append_spec s v hb
    exact p1.trans (ih _ _ p1.inb)

end Tak
