import TakVerif.Proofs.PvHeadNodes

/-! The provenance induction at the level of `Analyze` / `GetMove` (every configuration, any engine state that is
`EngOK`, any oracle): a rule for the deepening loop (`analyze_rule`), the one fact about a depth-1 root that the
head-legality theorem needs beyond the induction (`pvNode_depth1`: with evaluations above the window floor the first
played move improves), and the three consequences

* `analyze_prov` – every move of the returned PV is a `Q`-move and the engine state is `EngOK` again;
* `analyze_replays` – when the returned value lies in `[MinEval, MaxEval]` (in particular when it is not decisive) the
  whole PV replays from the analysed position;
* `analyze_head` – the head of a non-empty returned PV is accepted in the analysed position;
* `getMove_prov` – the same for the move `GetMove` picks (randomised or not). -/
namespace Search
open Tak (Err)

variable {P M : Type}

section rule
variable {g : Game P M} {o : Oracle M} {Q : M → Prop} {N D : P → Prop}

/-- what is known when one iteration of the deepening loop has ended -/
def StepOutQ (g : Game P M) (Q : M → Prop) (D : P → Prop) (J' : List M → Int → Prop) : AOut M → Prop
  | .cancelled s' => EngOK g Q D s'
  | .done a' s' => EngOK g Q D s' ∧ J' a'.ms a'.v ∧ ∀ x ∈ a'.ms, Q x
  | .go a' s' => EngOK g Q D s' ∧ J' a'.ms a'.v ∧ ∀ x ∈ a'.ms, Q x

/-- how one iteration of the deepening loop ends, given what the root search guarantees -/
theorem analyzeStep_rule [DecidableEq M] (hP : Prov g o Q N D) (cfg : Cfg) (p : P) (hN : N p) (base : Int)
    {J : Int → List M → Int → Prop}
    (hstep : ∀ i ms v s, J i ms v → (∀ x ∈ ms, Q x) → EngOK g Q D s →
      Sat (pvSearch g cfg.opts o 0 p (i + base) ms (Facts.minEval - 1) (Facts.maxEval + 1) s)
        (fun r => ∀ next, r.1.1 = some next →
          PvRes g Q p ms (Facts.minEval - 1) (Facts.maxEval + 1) next r.1.2 → J (i + 1) next r.1.2))
    (i : Int) (a : ALoop M) (s : Eng M) (hJ : J i a.ms a.v) (hq : ∀ x ∈ a.ms, Q x) (hs : EngOK g Q D s) :
    Sat (analyzeStep g cfg o p base i a s) (StepOutQ g Q D (J (i + 1))) := by
  unfold analyzeStep
  have hs' : EngOK g Q D { s with st := { depth := i + base } } := hs.of_eq rfl rfl rfl
  have h1 := pvSearch_q hP cfg.opts 0 p 0 (i + base) a.ms (Facts.minEval - 1) (Facts.maxEval + 1) _ hN hq hs'
  have h2 := hstep i a.ms a.v _ hJ hq hs'
  cases hr : pvSearch g cfg.opts o 0 p (i + base) a.ms (Facts.minEval - 1) (Facts.maxEval + 1)
      { s with st := { depth := i + base } } with
  | error e => exact Sat.error
  | ok r =>
    obtain ⟨hr1, hr2⟩ := h1 r hr
    have hr3 := h2 r hr
    refine Sat.ok ?_
    unfold iterEnd
    cases hn : r.1.1 with
    | none => exact hr1
    | some next =>
      dsimp only
      by_cases hl : (load o r.2).1 = true
      · rw [if_pos hl]; exact hr1.load o
      · rw [if_neg hl]
        have hres := hr2 next hn
        rcases iterDone_cases cfg base i a next r.1.2 (load o r.2).2 with h | h <;> rw [h]
        · exact ⟨hr1.load o, hr3 next hn hres, hres.q⟩
        · exact ⟨hr1.load o, hr3 next hn hres, hres.q⟩

theorem analyzeLoop_rule [DecidableEq M] (hP : Prov g o Q N D) (cfg : Cfg) (p : P) (hN : N p) (base : Int)
    {J : Int → List M → Int → Prop}
    (hstep : ∀ i ms v s, J i ms v → (∀ x ∈ ms, Q x) → EngOK g Q D s →
      Sat (pvSearch g cfg.opts o 0 p (i + base) ms (Facts.minEval - 1) (Facts.maxEval + 1) s)
        (fun r => ∀ next, r.1.1 = some next →
          PvRes g Q p ms (Facts.minEval - 1) (Facts.maxEval + 1) next r.1.2 → J (i + 1) next r.1.2)) :
    ∀ (n : Nat) (i : Int) (a : ALoop M) (s : Eng M), J i a.ms a.v → (∀ x ∈ a.ms, Q x) → EngOK g Q D s →
      Sat (analyzeLoop g cfg o p base n i a s) (fun x =>
        EngOK g Q D x.2 ∧ (∀ m ∈ x.1.ms, Q m) ∧ ∃ j, J j x.1.ms x.1.v) := by
  intro n
  induction n with
  | zero => intro i a s hJ hq hs; exact Sat.ok ⟨hs, hq, i, hJ⟩
  | succ n ih =>
    intro i a s hJ hq hs
    simp only [analyzeLoop]
    split
    · exact Sat.ok ⟨hs, hq, i, hJ⟩
    · have hst := analyzeStep_rule hP cfg p hN base hstep i a s hJ hq hs
      cases hr : analyzeStep g cfg o p base i a s with
      | error e => exact Sat.error
      | ok out =>
        have h := hst out hr
        cases out with
        | cancelled s' => exact Sat.ok ⟨h, hq, i, hJ⟩
        | done a' s' => exact Sat.ok ⟨h.1, h.2.2, i + 1, h.2.1⟩
        | go a' s' => exact ih (i + 1) a' s' h.2.1 h.2.2 h.1

/-- **the rule for `Analyze`**: `J base i ms v` is an invariant of the deepening loop (`ms`, `v` the PV and value of
the last completed iteration, `i` the index of the next one) that holds of the seed read from the root's table entry
and is kept by every completed root search, given what the induction says about the root's PV (`PvRes`) -/
theorem analyze_rule [DecidableEq M] (hP : Prov g o Q N D) (cfg : Cfg) (p : P) (hN : N p)
    {J : Int → Int → List M → Int → Prop}
    (s : Eng M) (hs : EngOK g Q D s)
    (hseed : s.hasTable = true → ∀ e : TEntry M, EntryOK g Q D e → e.hash = g.hash p →
      e.bound = Facts.exactBound → J e.depth 1 [e.m] e.value)
    (hnoseed : J 0 1 [] 0)
    (hstep : ∀ base i ms v s, J base i ms v → (∀ x ∈ ms, Q x) → EngOK g Q D s →
      Sat (pvSearch g cfg.opts o 0 p (i + base) ms (Facts.minEval - 1) (Facts.maxEval + 1) s)
        (fun r => ∀ next, r.1.1 = some next →
          PvRes g Q p ms (Facts.minEval - 1) (Facts.maxEval + 1) next r.1.2 → J base (i + 1) next r.1.2)) :
    Sat (analyze g cfg o p s) (fun x =>
      EngOK g Q D x.2 ∧ (∀ m ∈ x.1.1, Q m) ∧ ∃ base j, J base j x.1.1 x.1.2.1) := by
  unfold analyze
  have hs0 : EngOK g Q D { s with loads := 0, evals := 0, sorts := 0, rnds := 0, wlog := [] } :=
    hs.of_eq rfl rfl rfl
  have hget := ttGet_q hs0 (g.hash p)
  cases hte : ttGet { s with loads := 0, evals := 0, sorts := 0, rnds := 0, wlog := [] } (g.hash p) with
  | error e => exact Sat.error
  | ok te =>
    have hte' := hget te hte
    show Sat (analyzeFrom g cfg o p (seedOf te) _) _
    -- the seed satisfies the invariant
    have hseed' : J (seedOf te).1 1 (seedOf te).2.1 (seedOf te).2.2 ∧ ∀ x ∈ (seedOf te).2.1, Q x := by
      unfold seedOf
      cases te with
      | none => exact ⟨hnoseed, fun x hx => by cases hx⟩
      | some e =>
        dsimp only
        obtain ⟨he1, he2⟩ := hte' e rfl
        have htab : s.hasTable = true := by
          unfold ttGet at hte
          cases hh : s.hasTable with
          | true => rfl
          | false => simp [hh] at hte
        split
        · rename_i hb
          refine ⟨hseed htab e he1 he2 (by simpa using hb), ?_⟩
          intro x hx
          simp only [List.mem_cons, List.not_mem_nil, or_false] at hx
          subst hx; exact he1.1
        · exact ⟨hnoseed, fun x hx => by cases hx⟩
    unfold analyzeFrom
    have hl := analyzeLoop_rule hP cfg p hN (seedOf te).1 (J := J (seedOf te).1) (hstep (seedOf te).1)
      (cfg.depth - (seedOf te).1).toNat 1 ⟨(seedOf te).2.1, (seedOf te).2.2, { depth := (seedOf te).1 }, 0, 0⟩ _
      hseed'.1 hseed'.2 hs0
    cases hr : analyzeLoop g cfg o p (seedOf te).1 (cfg.depth - (seedOf te).1).toNat 1
        ⟨(seedOf te).2.1, (seedOf te).2.2, { depth := (seedOf te).1 }, 0, 0⟩
        { s with loads := 0, evals := 0, sorts := 0, rnds := 0, wlog := [] } with
    | error e => exact Sat.error
    | ok x =>
      obtain ⟨a', s'⟩ := x
      obtain ⟨h1, h2, j, h3⟩ := hl _ hr
      exact Sat.ok ⟨h1, h2, _, j, h3⟩

end rule

/-! ### the degenerate instance: nothing assumed, nothing claimed about provenance -/

/-- with `Q = True` and `D = ∅` every engine state is `EngOK` -/
theorem engOK_trivial (g : Game P M) (s : Eng M) : EngOK g (fun _ => True) (fun _ => False) s :=
  ⟨fun _ _ _ => ⟨trivial, fun _ _ hq => absurd hq id⟩, fun _ _ _ => trivial, fun _ _ _ => trivial⟩

/-- … and `Prov` holds for every game and oracle -/
theorem prov_trivial (g : Game P M) (o : Oracle M) : Prov g o (fun _ => True) (fun _ => True) (fun _ => False) :=
  ⟨fun _ _ _ _ => trivial, fun _ _ _ _ _ => trivial, fun _ _ _ _ _ => trivial, fun _ _ _ _ hq => absurd hq id⟩

/-! ### a depth-1 root improves on its first played move -/

section depth1
variable {g : Game P M} {o : Oracle M}

theorem pvStore_fst (k : H) (depth β : Int) (a : PvAcc M) (s : Eng M) :
    Sat (pvStore o k depth β a s) (fun r => r.1 = (some a.best, a.α)) := by
  unfold pvStore
  apply Sat.bind
  rintro ⟨slot?, s1⟩ _
  dsimp only
  cases slot? with
  | none => exact Sat.pure rfl
  | some slot =>
    dsimp only
    split
    · split
      · exact Sat.pure rfl
      · exact Sat.pure rfl
    · exact Sat.throw

/-- invariant of the child loop of a depth-1 root: once improved, `best` starts with a played move; before that
no child has been looked at -/
def D1Inv (g : Game P M) (p : P) (α : Int) (a : PvAcc M) (_s : Eng M) : Prop :=
  (a.improved = true → ∃ b rest, a.best = b :: rest ∧ Accepts g p b) ∧
  (a.improved = false → a.i = 0 ∧ a.seen = [] ∧ a.α = α)

/-- after the body of the child loop of a depth-1 root ran on a played move, the node has improved -/
def D1Post (g : Game P M) (p : P) : Ctl (PvAcc M) (Res M) × Eng M → Prop
  | (.next a', _) => a'.improved = true ∧ ∃ b rest, a'.best = b :: rest ∧ Accepts g p b
  | (.brk a', _) => ∃ b rest, a'.best = b :: rest ∧ Accepts g p b
  | (.ret r, _) => r.1 = none

theorem pvBodyCore_depth1 [DecidableEq M] {cpv : PvFn P M} {czw : ZwFn P M}
    (hleaf : ∀ c ply pv a b s, cpv c ply 0 pv a b s = .ok (leaf g c (g.over c) s))
    (p : P) (α β : Int) (hev : ∀ m c, g.apply p m = .ok c → α < -(g.eval c)) (ply : Nat)
    (m : M) (c : P) (a : PvAcc M) (s : Eng M) (hap : g.apply p m = .ok c)
    (h1 : a.improved = true → ∃ b rest, a.best = b :: rest ∧ Accepts g p b)
    (h2 : a.improved = false → a.i = 0 ∧ a.α = α) :
    Sat (pvBodyCore o cpv czw ply 1 β m c a s) (D1Post g p) := by
  unfold pvBodyCore
  apply Sat.bind
  intro sm _
  apply Sat.bind
  intro r hr
  dsimp only at hr ⊢
  split
  · apply Sat.bind
    intro pv0 _
    split
    · apply Sat.bind
      intro s2 _
      exact Sat.pure ⟨m, _, rfl, c, hap⟩
    · refine Sat.pure ?_
      unfold afterChild
      dsimp only
      split
      · exact rfl
      · exact ⟨rfl, m, _, rfl, c, hap⟩
  · rename_i hle
    -- no improvement: then some earlier child had improved
    have himp : a.improved = true := by
      cases hi : a.improved with
      | true => rfl
      | false =>
        exfalso
        obtain ⟨hi0, hα⟩ := h2 hi
        rw [hi0] at hr
        unfold pvChild at hr
        simp only [Nat.zero_add, gt_iff_lt, Nat.lt_irrefl, if_false] at hr
        have h10 : (1 : Int) - 1 = 0 := rfl
        rw [h10, hleaf] at hr
        cases hr
        apply hle
        rw [hα]
        exact hev m c hap
    refine Sat.pure ?_
    unfold afterChild
    dsimp only
    split
    · exact rfl
    · exact ⟨himp, h1 himp⟩

theorem pvBody_depth1 [DecidableEq M] {cpv : PvFn P M} {czw : ZwFn P M}
    (hleaf : ∀ c ply pv a b s, cpv c ply 0 pv a b s = .ok (leaf g c (g.over c) s))
    (p : P) (α β : Int) (hev : ∀ m c, g.apply p m = .ok c → α < -(g.eval c)) (ply : Nat) (dedup : Bool) :
    BodyOK g p (pvBody g o cpv czw ply 1 β dedup) (D1Inv g p α) (fun a _ => a.improved = true)
      (fun a _ => ∃ b rest, a.best = b :: rest ∧ Accepts g p b) (fun (r : Res M) _ => r.1 = none) := by
  intro m c a s hap hI
  rw [pvBody_eq]
  split
  · -- skipped as a symmetric duplicate: only possible after some child was searched
    rename_i hskip
    have himp : a.improved = true := by
      cases hi : a.improved with
      | true => rfl
      | false =>
        obtain ⟨_, hseen, _⟩ := hI.2 hi
        rw [hseen] at hskip
        simp at hskip
    exact Sat.pure ⟨hI, fun _ h => h, fun _ _ => himp⟩
  · have hcore := pvBodyCore_depth1 (o := o) (czw := czw) hleaf p α β hev ply m c
      (if dedup = true then { a with seen := a.seen ++ g.symHashes c } else a) s hap
      (by split <;> exact hI.1)
      (by
        split
        · intro h; exact ⟨(hI.2 h).1, (hI.2 h).2.2⟩
        · intro h; exact ⟨(hI.2 h).1, (hI.2 h).2.2⟩)
    refine hcore.mono ?_
    rintro ⟨ctl, s'⟩ hpost
    cases ctl with
    | next a' =>
      obtain ⟨hi', hb'⟩ := hpost
      exact ⟨⟨fun _ => hb', fun h => by rw [hi'] at h; cases h⟩, fun _ _ => hi', fun _ _ => hi'⟩
    | brk a' => exact hpost
    | ret r => exact hpost

/-- **a depth-1 root returns a played move first**: when `-eval` of every child exceeds `α` and the position has an
accepted generated move, the PV a depth-1 `pvSearch` returns starts with an accepted move — whatever the table, the
PV hint, the stale buffers, the options and the cancel oracle -/
theorem pvNode_depth1 [DecidableEq M] (cfg : SOpts) (hord : OrderOK o) {cpv : PvFn P M} {czw : ZwFn P M}
    (hleaf : ∀ c ply pv a b s, cpv c ply 0 pv a b s = .ok (leaf g c (g.over c) s))
    (p : P) (hgen : GenOK g p) (hmove : ∃ m ∈ g.allMoves p, Accepts g p m)
    (α β : Int) (hev : ∀ m c, g.apply p m = .ok c → α < -(g.eval c)) (ply : Nat) (pv : List M) (s : Eng M) :
    Sat (pvNode g cfg o true cpv czw p ply 1 pv α β s)
      (fun r => ∀ l, r.1.1 = some l → ∃ x rest, l = x :: rest ∧ Accepts g p x) := by
  unfold pvNode
  dsimp only
  split
  · exact Sat.pure (fun l hl => by cases hl)
  · split
    · exact Sat.throw
    · apply Sat.bind
      refine (ttProbe_q (Q := fun _ => True) (D := fun _ => False) p ply 1 α β (engOK_trivial g _)).mono ?_
      rintro ⟨probe, s1⟩ ⟨_, hprobe⟩
      dsimp only at hprobe ⊢
      cases probe with
      | inl r =>
        dsimp only at hprobe ⊢
        obtain ⟨m, hr, _, hacc⟩ := hprobe
        refine Sat.pure (fun l hl => ?_)
        rw [hr] at hl; cases hl
        exact ⟨m, [], rfl, hacc⟩
      | inr te =>
        dsimp only
        apply Sat.bind
        rintro ⟨best, s2⟩ _
        dsimp only
        apply Sat.bind
        have hI0 : D1Inv g p α (⟨α, best, false, 0, []⟩ : PvAcc M) s2 :=
          ⟨(fun h => by cases h), fun _ => ⟨rfl, rfl, rfl⟩⟩
        refine (iterate_rule (pvBody_depth1 hleaf p α β hev ply _) cfg o ⟨ply, 1, te, pv⟩ hgen hord
          (fun _ _ _ h => h) _ s2 hI0).mono ?_
        rintro ⟨c, s3⟩ hc
        dsimp only
        have hfin : ∀ a : PvAcc M, (∃ b rest, a.best = b :: rest ∧ Accepts g p b) →
            Sat (pvStore o (g.hash p) 1 β a s3)
              (fun r => ∀ l, r.1.1 = some l → ∃ x rest, l = x :: rest ∧ Accepts g p x) := by
          intro a ha
          refine (pvStore_fst (g.hash p) 1 β a s3).mono ?_
          intro r hr l hl
          rw [hr] at hl; cases hl; exact ha
        cases c with
        | ret r =>
          refine Sat.pure (fun l hl => ?_)
          have : r.1 = none := hc
          rw [this] at hl; cases hl
        | brk a => exact hfin a hc
        | next a =>
          obtain ⟨hI, _, hcov⟩ := hc
          obtain ⟨m, hm, c', hc'⟩ := hmove
          exact hfin a (hI.1 (hcov c' ⟨m, hm, hc'⟩))

/-- every `pvSearch` of the model evaluates at depth 0 -/
theorem search_leaf_pv [DecidableEq M] (cfg : SOpts) (n : Nat) (c : P) (ply : Nat) (pv : List M) (a b : Int) (s : Eng M) :
    (search g cfg o n).1 c ply 0 pv a b s = .ok (leaf g c (g.over c) s) := by
  cases n <;> simp [search, pvNode] <;> rfl

/-- `pvNode_depth1` for the root search of `Analyze` -/
theorem pvSearch_depth1 [DecidableEq M] (cfg : SOpts) (hord : OrderOK o)
    (p : P) (hgen : GenOK g p) (hmove : ∃ m ∈ g.allMoves p, Accepts g p m)
    (α β : Int) (hev : ∀ m c, g.apply p m = .ok c → α < -(g.eval c)) (pv : List M) (s : Eng M) :
    Sat (pvSearch g cfg o 0 p 1 pv α β s)
      (fun r => ∀ l, r.1.1 = some l → ∃ x rest, l = x :: rest ∧ Accepts g p x) := by
  have h15 : Facts.maxDepth - 0 = 14 + 1 := rfl
  unfold pvSearch
  rw [h15]
  exact pvNode_depth1 cfg hord (search_leaf_pv cfg 14) p hgen hmove α β hev 0 pv s

end depth1

/-! ### consequences for `Analyze` -/

section analyze
variable {g : Game P M} {o : Oracle M} {Q : M → Prop} {N D : P → Prop}

/-- **provenance**: every move of the PV `Analyze` returns is a `Q`-move, and the engine state is `EngOK` again —
every configuration, any `EngOK` engine state, any cancel oracle -/
theorem analyze_prov [DecidableEq M] (hP : Prov g o Q N D) (cfg : Cfg) (p : P) (hN : N p) (s : Eng M)
    (hs : EngOK g Q D s) :
    Sat (analyze g cfg o p s) (fun x => EngOK g Q D x.2 ∧ ∀ m ∈ x.1.1, Q m) := by
  refine (analyze_rule hP cfg p hN (J := fun _ _ _ _ => True) s hs (fun _ _ _ _ _ => trivial) trivial
    (fun _ _ _ _ _ _ _ _ => fun _ _ _ _ _ => trivial)).mono ?_
  rintro x ⟨h1, h2, _⟩
  exact ⟨h1, h2⟩

/-- **the whole PV replays** when the returned value lies inside the root window, i.e. in `[MinEval, MaxEval]`.
`hD`: with a table, the analysed position belongs to `D` (so that an exact root entry's move is known to be
accepted there); without a table nothing is asked. -/
theorem analyze_replays [DecidableEq M] (hP : Prov g o Q N D) (cfg : Cfg) (p : P) (hN : N p) (s : Eng M)
    (hs : EngOK g Q D s) (hD : s.hasTable = true → D p) :
    Sat (analyze g cfg o p s) (fun x =>
      Facts.minEval ≤ x.1.2.1 → x.1.2.1 ≤ Facts.maxEval → Replays g p x.1.1) := by
  refine (analyze_rule hP cfg p hN
    (J := fun _ _ ms v => Facts.minEval ≤ v → v ≤ Facts.maxEval → Replays g p ms) s hs ?_ (fun _ _ => trivial) ?_).mono ?_
  · intro ht e he hh hb _ _
    exact Replays.single (he.2 hb p (hD ht) hh.symm)
  · intro base i ms v s' _ _ _ r _ next _ hres h1 h2
    exact hres.inside (by omega) (by omega)
  · rintro x ⟨_, _, _, _, h⟩
    exact h

/-- **the head of the PV is accepted in the analysed position** — every configuration, any `EngOK` engine state, any
cancel oracle, any membership-preserving move order.  Beyond the induction: `GenOK` (`Move.Equal` moves act alike,
the zero move equals no generated move), the position has an accepted generated move, and the evaluation of its
children does not exceed `MaxEval` (so that the first move a depth-1 root plays improves on `MinEval - 1`). -/
theorem analyze_head [DecidableEq M] (hP : Prov g o Q N D) (hord : OrderOK o) (cfg : Cfg) (p : P) (hN : N p)
    (hgen : GenOK g p) (hmove : ∃ m ∈ g.allMoves p, Accepts g p m)
    (hev : ∀ m c, g.apply p m = .ok c → g.eval c ≤ Facts.maxEval)
    (s : Eng M) (hs : EngOK g Q D s) (hD : s.hasTable = true → D p) :
    Sat (analyze g cfg o p s) (fun x =>
      EngOK g Q D x.2 ∧ (∀ m ∈ x.1.1, Q m) ∧ ∀ m rest, x.1.1 = m :: rest → Accepts g p m) := by
  refine (analyze_rule hP cfg p hN
    (J := fun base i ms _ => (∀ x rest, ms = x :: rest → Accepts g p x) ∧ (ms = [] → i + base = 1))
    s hs ?_ ⟨(fun _ _ h => by cases h), fun _ => rfl⟩ ?_).mono ?_
  · intro ht e he hh hb
    refine ⟨fun x rest h => ?_, fun h => by cases h⟩
    cases h
    exact he.2 hb p (hD ht) hh.symm
  · intro base i ms v s' hJ _ _
    cases ms with
    | nil =>
      have h1 : i + base = 1 := hJ.2 rfl
      rw [h1]
      refine (pvSearch_depth1 cfg.opts hord p hgen hmove (Facts.minEval - 1) (Facts.maxEval + 1) ?_ [] s').mono ?_
      · intro m c hap
        have := hev m c hap
        simp only [Facts.minEval, Facts.maxEval] at this ⊢
        omega
      · intro r hr next hn hres
        obtain ⟨x, rest, hx, hacc⟩ := hr next hn
        refine ⟨fun x' rest' h => ?_, fun h => absurd h hres.ne⟩
        rw [hx] at h; cases h; exact hacc
    | cons x rest =>
      intro r _ next _ hres
      obtain ⟨y, ys, hy, hacc⟩ := hres.hint x rest rfl (hJ.1 x rest rfl)
      refine ⟨fun x' rest' h => ?_, fun h => absurd h hres.ne⟩
      rw [hy] at h; cases h; exact hacc
  · rintro x ⟨h1, h2, _, _, h3⟩
    exact ⟨h1, h2, h3.1⟩

/-! ### `GetMove` -/

/-- the randomised choice: the body only replaces the candidate by a played `Q`-move -/
theorem gmBody_q [DecidableEq M] (hP : Prov g o Q N D) (cfg : Cfg) (p : P) (hN : N p) (depth : Int) (rest : List M)
    (hrest : ∀ x ∈ rest, Q x) (v base : Int) :
    BodyQ g p (gmBody g cfg o depth rest v base) Q
      (fun (a : GmAcc M) s => EngOK g Q D s ∧ Q a.rv ∧ Accepts g p a.rv) (fun _ _ => False) (fun (_ : Unit) _ => False) := by
  intro m c a s hap hm hI
  unfold gmBody
  apply Sat.bind
  intro sm _
  apply Sat.bind
  refine (pvSearch_q hP cfg.opts 1 c 0 (depth - 1) rest (-v - 1) (-base) _ (hP.closed p m c hN hap) hrest
    (hI.1.of_eq (s1 := { s with stackM := sm }) rfl rfl rfl)).mono ?_
  rintro r ⟨hr1, _⟩
  dsimp only
  split
  · exact Sat.pure ⟨hr1, hI.2⟩
  · split
    · exact Sat.pure ⟨hr1, hI.2⟩
    · split
      · exact Sat.throw
      · refine Sat.pure ⟨hr1.of_eq rfl rfl rfl, ?_⟩
        dsimp only
        split
        · exact ⟨hm, c, hap⟩
        · exact hI.2

theorem getMoveFrom_q [DecidableEq M] (hP : Prov g o Q N D) (cfg : Cfg) (p : P) (hN : N p)
    (pv0 : M) (rest : List M) (hq : ∀ x ∈ pv0 :: rest, Q x) (hacc : Accepts g p pv0)
    (v : Int) (st : Stats) (s : Eng M) (hs : EngOK g Q D s) :
    Sat (getMoveFrom g cfg o p (pv0 :: rest) v st s) (fun x => EngOK g Q D x.2 ∧ Q x.1 ∧ Accepts g p x.1) := by
  have h0 : Q pv0 := hq pv0 List.mem_cons_self
  unfold getMoveFrom
  dsimp only
  split
  · exact Sat.ok ⟨hs, h0, hacc⟩
  · split
    · exact Sat.ok ⟨hs, h0, hacc⟩
    · have hit := iterate_q (gmBody_q hP cfg p hN st.depth rest (fun x hx => hq x (List.mem_cons_of_mem _ hx)) v
          (v - cfg.randomizeWindow)) cfg.opts o (rootMG st.depth (pv0 :: rest))
        (fun e he => by cases he) (fun x r h => by cases h; exact h0) (fun _ _ h => h.1.resp) (hP.gen p hN) hP.ord
        (fun _ _ _ h => ⟨h.1.of_eq rfl rfl rfl, h.2⟩) (⟨pv0, 0⟩ : GmAcc M) s ⟨hs, h0, hacc⟩
      cases hi : iterate g cfg.opts o p (rootMG st.depth (pv0 :: rest))
          (gmBody g cfg o st.depth rest v (v - cfg.randomizeWindow)) (⟨pv0, 0⟩ : GmAcc M) s with
      | error e => exact Sat.error
      | ok y =>
        obtain ⟨ctl, s2⟩ := y
        have hpost := hit _ hi
        cases ctl with
        | next a => exact Sat.ok hpost
        | brk a => exact absurd hpost id
        | ret r => exact absurd hpost id

/-- **`GetMove`**: under the hypotheses of `analyze_head` the move returned is the zero move (empty PV: the call was
cancelled before the first iteration completed) or an accepted `Q`-move, with and without the randomised choice, for
every random stream; the engine state is `EngOK` again -/
theorem getMove_prov [DecidableEq M] (hP : Prov g o Q N D) (hord : OrderOK o) (cfg : Cfg) (p : P) (hN : N p)
    (hgen : GenOK g p) (hmove : ∃ m ∈ g.allMoves p, Accepts g p m)
    (hev : ∀ m c, g.apply p m = .ok c → g.eval c ≤ Facts.maxEval)
    (s : Eng M) (hs : EngOK g Q D s) (hD : s.hasTable = true → D p) :
    Sat (getMove g cfg o p s) (fun x => EngOK g Q D x.2 ∧ (x.1 = g.zeroMove ∨ (Q x.1 ∧ Accepts g p x.1))) := by
  unfold getMove
  have ha := analyze_head hP hord cfg p hN hgen hmove hev s hs hD
  cases hr : analyze g cfg o p s with
  | error e => exact Sat.error
  | ok x =>
    obtain ⟨⟨pv, v, st⟩, s1⟩ := x
    obtain ⟨h1, h2, h3⟩ := ha _ hr
    dsimp only at h1 h2 h3 ⊢
    cases pv with
    | nil => exact Sat.ok ⟨h1, Or.inl rfl⟩
    | cons pv0 rest =>
      refine (getMoveFrom_q hP cfg p hN pv0 rest h2 (h3 pv0 rest rfl) v st s1 h1).mono ?_
      rintro x ⟨hx1, hx2⟩
      exact ⟨hx1, Or.inr hx2⟩

/-! ### `AnalyzeAll` -/

/-- what is known of a line `AnalyzeAll` lists: `Q`-moves, an accepted head, and — for the lines it adds to the
PV of `Analyze` — the whole line replays (each was searched with the window `(v-1, v+1)` and kept for the value `v`) -/
def LineOK (g : Game P M) (Q : M → Prop) (p : P) (pv : List M) (l : List M) : Prop :=
  (∀ y ∈ l, Q y) ∧ (∃ y ys, l = y :: ys ∧ Accepts g p y) ∧ (l = pv ∨ Replays g p l)

theorem aaBody_q [DecidableEq M] (hP : Prov g o Q N D) (cfg : SOpts) (p : P) (hN : N p) (depth : Int) (pv0 : M)
    (rest : List M) (hrest : ∀ x ∈ rest, Q x) (v : Int) (pv : List M) :
    BodyQ g p (aaBody g cfg o depth pv0 rest v) Q
      (fun (out : List (List M)) s => EngOK g Q D s ∧ ∀ l ∈ out, LineOK g Q p pv l) (fun _ _ => False)
      (fun (_ : Unit) _ => False) := by
  intro m c out s hap hm hI
  unfold aaBody
  apply Sat.bind
  intro sm _
  apply Sat.bind
  refine (pvSearch_q hP cfg 1 c 0 (depth - 1) rest (-v - 1) (-v + 1) _ (hP.closed p m c hN hap) hrest
    (hI.1.of_eq (s1 := { s with stackM := sm }) rfl rfl rfl)).mono ?_
  rintro r ⟨hr1, hr2⟩
  split
  · exact Sat.pure ⟨hr1, hI.2⟩
  · rename_i hv
    split
    · exact Sat.pure ⟨hr1, hI.2⟩
    · refine Sat.pure ⟨hr1, ?_⟩
      intro l hl
      rcases List.mem_append.mp hl with h | h
      · exact hI.2 l h
      · simp only [List.mem_singleton] at h
        subst h
        have hv' : -r.1.2 = v := by simpa using hv
        refine ⟨?_, ⟨m, _, rfl, c, hap⟩, Or.inr ⟨c, hap, ?_⟩⟩
        · intro y hy
          rcases List.mem_cons.mp hy with h | h
          · subst h; exact hm
          · cases hms : r.1.1 with
            | none => rw [hms] at h; cases h
            | some l' => rw [hms] at h; exact (hr2 l' hms).q y h
        · cases hms : r.1.1 with
          | none => exact trivial
          | some l' => exact (hr2 l' hms).inside (by omega) (by omega)

theorem analyzeAllFrom_q [DecidableEq M] (hP : Prov g o Q N D) (cfg : Cfg) (p : P) (hN : N p)
    (pv : List M) (hq : ∀ x ∈ pv, Q x) (hacc : ∀ m rest, pv = m :: rest → Accepts g p m)
    (v : Int) (st : Stats) (s : Eng M) (hs : EngOK g Q D s) :
    Sat (analyzeAllFrom g cfg o p pv v st s) (fun x => EngOK g Q D x.2 ∧ ∀ l ∈ x.1.1, LineOK g Q p pv l) := by
  unfold analyzeAllFrom
  cases pv with
  | nil => exact Sat.ok ⟨hs, fun l hl => by cases hl⟩
  | cons pv0 rest =>
    dsimp only
    have hline : LineOK g Q p (pv0 :: rest) (pv0 :: rest) := ⟨hq, ⟨pv0, rest, rfl, hacc pv0 rest rfl⟩, Or.inl rfl⟩
    have hI0 : EngOK g Q D s ∧ ∀ l ∈ [pv0 :: rest], LineOK g Q p (pv0 :: rest) l := by
      refine ⟨hs, fun l hl => ?_⟩
      simp only [List.mem_singleton] at hl
      subst hl; exact hline
    have hit := iterate_q (aaBody_q hP cfg.opts p hN st.depth pv0 rest (fun x hx => hq x (List.mem_cons_of_mem _ hx)) v
        (pv0 :: rest)) cfg.opts o (rootMG st.depth (pv0 :: rest))
      (fun e he => by cases he) (fun x r h => by cases h; exact hq _ List.mem_cons_self) (fun _ _ h => h.1.resp)
      (hP.gen p hN) hP.ord (fun _ _ _ h => ⟨h.1.of_eq rfl rfl rfl, h.2⟩) [pv0 :: rest] s hI0
    cases hi : iterate g cfg.opts o p (rootMG st.depth (pv0 :: rest)) (aaBody g cfg.opts o st.depth pv0 rest v)
        [pv0 :: rest] s with
    | error e => exact Sat.error
    | ok y =>
      obtain ⟨ctl, s2⟩ := y
      have hpost := hit _ hi
      cases ctl with
      | next a => exact Sat.ok hpost
      | brk a => exact absurd hpost id
      | ret r => exact absurd hpost id

/-- **`AnalyzeAll`**: under the hypotheses of `analyze_head`, every line listed starts with an accepted move, consists
of `Q`-moves, and every line other than the PV of `Analyze` replays in full -/
theorem analyzeAll_lines [DecidableEq M] (hP : Prov g o Q N D) (hord : OrderOK o) (cfg : Cfg) (p : P) (hN : N p)
    (hgen : GenOK g p) (hmove : ∃ m ∈ g.allMoves p, Accepts g p m)
    (hev : ∀ m c, g.apply p m = .ok c → g.eval c ≤ Facts.maxEval)
    (s : Eng M) (hs : EngOK g Q D s) (hD : s.hasTable = true → D p) :
    Sat (analyzeAll g cfg o p s) (fun x => EngOK g Q D x.2 ∧
      ∀ l ∈ x.1.1, (∀ y ∈ l, Q y) ∧ ∃ y ys, l = y :: ys ∧ Accepts g p y) := by
  unfold analyzeAll
  have ha := analyze_head hP hord cfg p hN hgen hmove hev s hs hD
  cases hr : analyze g cfg o p s with
  | error e => exact Sat.error
  | ok x =>
    obtain ⟨⟨pv, v, st⟩, s1⟩ := x
    obtain ⟨h1, h2, h3⟩ := ha _ hr
    dsimp only at h1 h2 h3 ⊢
    refine (analyzeAllFrom_q hP cfg p hN pv h2 h3 v st s1 h1).mono ?_
    rintro x ⟨hx1, hx2⟩
    exact ⟨hx1, fun l hl => ⟨(hx2 l hl).1, (hx2 l hl).2.1⟩⟩

end analyze
end Search
