import TakVerif.Proofs.SearchTotal
import TakVerif.Proofs.PvHeadNodes

/-! # Totality of `pvSearch` (the node of `ai/minimax.go`), every configuration

`PvSpecT n f`: called on a visited position with `Q`-moves as PV hint, an `EngT` engine state, a depth of at most `n`
and a ply with `ply + n ≤ maxDepth` (there are `n` frames of `ai.stack` left), `f` **returns** — and the state is `EngT`
again, the returned PV consists of `Q`-moves.  `pvNode_t`: the node is total when its child searches are. -/
namespace Search
open Tak (Err)

variable {P M : Type}

section
variable (Q : M → Prop) (N : P → Prop)

def PvSpecT (n : Nat) (f : PvFn P M) : Prop :=
  ∀ p ply depth pv α β s, N p → (∀ x ∈ pv, Q x) → EngT Q s → depth ≤ (n : Int) → ply + n ≤ Facts.maxDepth →
    Tot (f p ply depth pv α β s) (fun r => EngT Q r.2 ∧ ∀ l, r.1.1 = some l → ∀ x ∈ l, Q x)

def ZwSpecT (n : Nat) (f : ZwFn P M) : Prop :=
  ∀ p ply depth pv α cut s, N p → (∀ x ∈ pv, Q x) → EngT Q s → depth ≤ (n : Int) → ply + n ≤ Facts.maxDepth →
    Tot (f p ply depth pv α cut s) (fun r => EngT Q r.2 ∧ ∀ l, r.1.1 = some l → ∀ x ∈ l, Q x)

/-- what the table probe hands on -/
def ProbeT : (Res M ⊕ Option (TEntry M)) → Prop
  | .inl r => ∃ m, r.1 = some [m] ∧ Q m
  | .inr te => ∀ e, te = some e → Q e.m

end

section nodes
variable {g : Game P M} {o : Oracle M} {Q : M → Prop} {N : P → Prop}

theorem leaf_t (p : P) (over : Bool) {s : Eng M} (h : EngT Q s) : EngT Q (leaf g p over s).2 := by
  refine h.of_eq rfl rfl rfl rfl rfl ?_
  unfold leaf
  dsimp only
  split <;> rfl

/-- the table probe returns: the table is not empty, `MovePreallocated` on the entry's move does not panic, the PV
buffer of this ply exists -/
theorem ttProbe_t (hG : TGame g o Q N) (p : P) (hN : N p) (ply : Nat) (hply : ply < Facts.maxDepth) (depth α β : Int)
    {s : Eng M} (h : EngT Q s) :
    Tot (ttProbe g p ply depth α β s) (fun x => EngT Q x.2 ∧ ProbeT Q x.1) := by
  unfold ttProbe
  apply Tot.bind
  refine (ttGet_t h (g.hash p)).mono ?_
  intro te hte
  cases te with
  | none => exact Tot.pure ⟨h, fun e he => by cases he⟩
  | some e =>
    have heq : Q e.m := (hte e rfl).1
    dsimp only
    have h1 : EngT Q { s with st := { s.st with ttHits := s.st.ttHits + 1 } } := h.of_eq rfl rfl rfl rfl rfl rfl
    split
    · rcases hG.applyT p e.m hN heq with ⟨c, hc⟩ | ⟨w, hw⟩
      · rw [hc]
        dsimp only
        apply Tot.bind
        have h2 : EngT Q { s with st := { s.st with ttHits := s.st.ttHits + 1, ttShortcut := s.st.ttShortcut + 1 } } :=
          h.of_eq rfl rfl rfl rfl rfl rfl
        refine (h2.setPv0 ply hply e.m heq _).mono ?_
        intro pv0 hpv0
        exact Tot.pure ⟨hpv0, e.m, rfl, heq⟩
      · rw [hw]
        exact Tot.pure ⟨h1, fun e he => by cases he⟩
    · exact Tot.pure ⟨h1, fun e' he' => by cases he'; exact heq⟩

theorem pvInitBest_t (ply : Nat) (hply : ply < Facts.maxDepth) (pv : List M) (hpv : ∀ x ∈ pv, Q x) {s : Eng M}
    (h : EngT Q s) :
    Tot (pvInitBest ply pv s) (fun x => EngT Q x.2 ∧ x.1 ≠ [] ∧ (∀ y ∈ x.1, Q y)) := by
  unfold pvInitBest
  cases pv with
  | nil =>
    dsimp only
    apply Tot.bind
    refine (h.getPv0 ply hply _).mono ?_
    intro x hx
    refine Tot.pure ⟨h, by simp, ?_⟩
    intro y hy
    simp only [List.mem_cons, List.not_mem_nil, or_false] at hy
    subst hy; exact hx
  | cons x rest =>
    dsimp only
    apply Tot.bind
    refine (h.setPv0 ply hply x (hpv x List.mem_cons_self) _).mono ?_
    intro pv0 hpv0
    exact Tot.pure ⟨hpv0, by simp, hpv⟩

/-- the value one child contributes in `pvSearch` -/
theorem pvChild_t {k : Nat} {cpv : PvFn P M} {czw : ZwFn P M} (hp : PvSpecT Q N k cpv) (hz : ZwSpecT Q N k czw)
    (i : Nat) (c : P) (ply : Nat) (depth : Int) (tail : List M) (α β : Int) (s : Eng M)
    (hN : N c) (htail : ∀ x ∈ tail, Q x) (hs : EngT Q s) (hd : depth - 1 ≤ (k : Int))
    (hply : ply + 1 + k ≤ Facts.maxDepth) :
    Tot (pvChild cpv czw i c ply depth tail α β s) (fun r => EngT Q r.2 ∧ ∀ l, r.1.1 = some l → ∀ x ∈ l, Q x) := by
  unfold pvChild
  split
  · apply Tot.bind
    refine (hz c (ply + 1) (depth - 1) tail (-α - 1) true s hN htail hs hd hply).mono ?_
    rintro ⟨⟨ms, v⟩, s1⟩ ⟨h1, h2⟩
    dsimp only at h1 h2 ⊢
    split
    · exact hp c (ply + 1) (depth - 1) tail (-β) (-α) _ hN htail (h1.of_eq rfl rfl rfl rfl rfl rfl) hd hply
    · exact Tot.pure ⟨h1, h2⟩
  · exact hp c (ply + 1) (depth - 1) tail (-β) (-α) s hN htail hs hd hply

/-- the loop invariant of `pvSearch`'s child loop -/
structure PvLIT (Q : M → Prop) (a : PvAcc M) (s : Eng M) : Prop where
  eng : EngT Q s
  bestQ : ∀ x ∈ a.best, Q x
  ne : a.best ≠ []

theorem afterChild_t {σ : Type} {I : σ → Eng M → Prop} {Qb : σ → Eng M → Prop} (a : σ) (s : Eng M)
    (hi : I a (load o s).2) (hs : EngT Q s) :
    LoopOut I Qb (fun (r : Res M) s' => EngT Q s' ∧ r.1 = none) (afterChild o a s) := by
  unfold afterChild
  dsimp only
  split
  · exact ⟨hs.load o, rfl⟩
  · exact hi

theorem getD_q (ms : Option (List M)) (h : ∀ l, ms = some l → ∀ x ∈ l, Q x) : ∀ x ∈ ms.getD [], Q x := by
  intro x hx
  cases hms : ms with
  | none => rw [hms] at hx; cases hx
  | some l => rw [hms] at hx; exact h l hms x hx

theorem pvBodyCore_t [DecidableEq M] (hG : TGame g o Q N) {k : Nat} {cpv : PvFn P M} {czw : ZwFn P M}
    (hp : PvSpecT Q N k cpv) (hz : ZwSpecT Q N k czw) (p : P) (hN : N p) (ply : Nat) (depth β : Int)
    (hd : depth - 1 ≤ (k : Int)) (hply : ply + 1 + k ≤ Facts.maxDepth)
    (m : M) (c : P) (a : PvAcc M) (s : Eng M)
    (hap : g.apply p m = .ok c) (hm : Q m) (hI : PvLIT Q a s) :
    Tot (pvBodyCore o cpv czw ply depth β m c a s)
      (LoopOut (PvLIT Q) (PvLIT Q) (fun (r : Res M) s' => EngT Q s' ∧ r.1 = none)) := by
  have hply' : ply < Facts.maxDepth := by omega
  unfold pvBodyCore
  apply Tot.bind
  refine (hI.eng.setStackM ply hply' m hm _).mono ?_
  intro sm hs1
  apply Tot.bind
  have htail : ∀ x ∈ a.best.drop 1, Q x := fun x hx => hI.bestQ x (List.mem_of_mem_drop hx)
  refine (pvChild_t hp hz _ c ply depth _ _ β _ (hG.closed p m c hN hap) htail hs1 hd hply).mono ?_
  rintro r ⟨hr1, hr2⟩
  dsimp only
  split
  · apply Tot.bind
    refine (hr1.setPv0 ply hply' m hm _).mono ?_
    intro pv0 hpv0
    have hbq : ∀ x ∈ m :: r.1.1.getD [], Q x := by
      intro x hx
      rcases List.mem_cons.mp hx with h | h
      · subst h; exact hm
      · exact getD_q _ hr2 x h
    split
    · apply Tot.bind
      refine (EngT.recordCut hpv0 m hm _ ply hply').mono ?_
      intro s2 hs2
      exact Tot.pure ⟨hs2, hbq, by simp⟩
    · exact Tot.pure (afterChild_t _ _ ⟨hpv0.load o, hbq, by simp⟩ hpv0)
  · exact Tot.pure (afterChild_t _ _ ⟨hr1.load o, hI.bestQ, hI.ne⟩ hr1)

theorem pvBody_t [DecidableEq M] (hG : TGame g o Q N) {k : Nat} {cpv : PvFn P M} {czw : ZwFn P M}
    (hp : PvSpecT Q N k cpv) (hz : ZwSpecT Q N k czw) (p : P) (hN : N p) (ply : Nat) (depth β : Int) (dedup : Bool)
    (hd : depth - 1 ≤ (k : Int)) (hply : ply + 1 + k ≤ Facts.maxDepth) :
    BodyT g p (pvBody g o cpv czw ply depth β dedup) Q (PvLIT Q) (PvLIT Q) (fun (r : Res M) s' => EngT Q s' ∧ r.1 = none) := by
  intro m c a s hap hm hI
  rw [pvBody_eq]
  split
  · exact Tot.pure hI
  · refine pvBodyCore_t hG hp hz p hN ply depth β hd hply m c _ s hap hm ?_
    split
    · exact ⟨hI.eng, hI.bestQ, hI.ne⟩
    · exact hI

/-- the table store at the end of `pvSearch` does not panic: the slot is inside the table, `best` is not empty -/
theorem pvStore_t (k : H) (depth β : Int) (hd : depth ≤ Facts.maxDepth) (a : PvAcc M) (s : Eng M) (hI : PvLIT Q a s) :
    Tot (pvStore o k depth β a s) (fun r => EngT Q r.2 ∧ r.1.1 = some a.best) := by
  unfold pvStore
  apply Tot.bind
  refine (ttPut_t o hI.eng k).mono ?_
  rintro ⟨slot?, s1⟩ ⟨hs1, hslot⟩
  dsimp only at hs1 hslot ⊢
  cases slot? with
  | none => exact Tot.pure ⟨hs1, rfl⟩
  | some slot =>
    dsimp only
    have hlt := hslot slot rfl
    have hsome : s1.table[slot]? = some s1.table[slot] := Array.getElem?_eq_getElem hlt
    split
    · rename_i old b0 rest hold hbest
      split
      · refine Tot.pure ⟨?_, rfl⟩
        have hs1' : EngT Q (if (!a.improved) = true then
            { s1 with st := { s1.st with allNodes := s1.st.allNodes + 1 } } else s1) := by
          split
          · exact hs1.of_eq rfl rfl rfl rfl rfl rfl
          · exact hs1
        exact hs1'.setEntry slot _ (hI.bestQ b0 (by rw [hbest]; exact List.mem_cons_self)) hd
      · exact Tot.pure ⟨hs1, rfl⟩
    · rename_i hno
      exfalso
      cases hbest : a.best with
      | nil => exact hI.ne hbest
      | cons b0 rest => exact hno _ b0 rest hsome hbest

/-- `pvSearch` on the last frame's successor (`ply = maxDepth`): only reached with `depth ≤ 0`, returns at the leaf exit -/
theorem pvNode_t0 [DecidableEq M] (cfg : SOpts) (cpv : PvFn P M) (czw : ZwFn P M) :
    PvSpecT Q N 0 (pvNode g cfg o false cpv czw) := by
  intro p ply depth pv α β s _ _ hs hd _
  unfold pvNode
  dsimp only
  split
  · exact Tot.pure ⟨leaf_t p _ hs, fun l hl => by cases hl⟩
  · rename_i hno
    exfalso
    apply hno
    simp only [Bool.or_eq_true, decide_eq_true_eq]
    exact Or.inl (by simpa using hd)

theorem pvNode_t [DecidableEq M] (hG : TGame g o Q N) (cfg : SOpts) {k : Nat} {cpv : PvFn P M} {czw : ZwFn P M}
    (hp : PvSpecT Q N k cpv) (hz : ZwSpecT Q N k czw) : PvSpecT Q N (k + 1) (pvNode g cfg o true cpv czw) := by
  intro p ply depth pv α β s hN hpv hs hd hply
  have hmd : Facts.maxDepth = 15 := rfl
  have hply' : ply < Facts.maxDepth := by omega
  unfold pvNode
  dsimp only
  split
  · exact Tot.pure ⟨leaf_t p _ hs, fun l hl => by cases hl⟩
  · rw [if_neg (by simp)]
    apply Tot.bind
    refine (ttProbe_t hG p hN ply hply' depth α β (Q := Q) ?_).mono ?_
    · refine hs.of_eq rfl rfl rfl rfl rfl ?_
      dsimp only
      split <;> rfl
    rintro ⟨probe, s1⟩ ⟨hs1, hprobe⟩
    dsimp only at hs1 hprobe ⊢
    cases probe with
    | inl r =>
      dsimp only [ProbeT] at hprobe ⊢
      obtain ⟨m, hr, hqm⟩ := hprobe
      refine Tot.pure ⟨hs1, fun l hl => ?_⟩
      rw [hr] at hl
      cases hl
      intro x hx
      simp only [List.mem_cons, List.not_mem_nil, or_false] at hx
      subst hx; exact hqm
    | inr te =>
      dsimp only [ProbeT] at hprobe ⊢
      apply Tot.bind
      refine (pvInitBest_t ply hply' pv hpv hs1).mono ?_
      rintro ⟨best, s2⟩ ⟨hs2, hne, hbq⟩
      dsimp only at hs2 hne hbq ⊢
      apply Tot.bind
      have hI0 : PvLIT Q (⟨α, best, false, 0, []⟩ : PvAcc M) s2 := ⟨hs2, hbq, hne⟩
      refine (iterate_t hG hN (pvBody_t hG hp hz p hN ply depth β _ (by omega) (by omega)) cfg ⟨ply, depth, te, pv⟩
        hprobe (fun x rest h => hpv x (by dsimp only at h; rw [h]; exact List.mem_cons_self))
        (fun a s h => h.eng.resp) (fun a s h => by rw [h.eng.smSize]; exact Nat.le_of_lt hply')
        (fun a s k h => ⟨h.eng.of_eq rfl rfl rfl rfl rfl rfl, h.bestQ, h.ne⟩) _ s2 hI0).mono ?_
      rintro ⟨c, s3⟩ hc
      dsimp only
      have hfin : ∀ a : PvAcc M, PvLIT Q a s3 →
          Tot (pvStore o (g.hash p) depth β a s3) (fun r => EngT Q r.2 ∧ ∀ l, r.1.1 = some l → ∀ x ∈ l, Q x) := by
        intro a hI
        refine (pvStore_t (g.hash p) depth β (by omega) a s3 hI).mono ?_
        rintro r ⟨hr1, hr2⟩
        refine ⟨hr1, fun l hl => ?_⟩
        rw [hr2] at hl
        cases hl
        exact hI.bestQ
      cases c with
      | ret r =>
        refine Tot.pure ⟨hc.1, fun l hl => ?_⟩
        rw [hc.2] at hl; cases hl
      | next a => exact hfin a hc
      | brk a => exact hfin a hc

end nodes
end Search
