import TakVerif.Proofs.TPSBoard

/-! C10: `FromSquares` read back square by square; `FormatTPS ∘ FromSquares` on a valid board. -/
namespace Tak.TPS
open Go

/-- `New(Config{Size: n})` with the move counter set: where `FromSquares` starts -/
def startPos (n : Nat) (mv : Int) : Pos :=
  { cfg := { size := n, pieces := Facts.defaultPieces.getD n 0, capstones := Facts.defaultCaps.getD n 0, blackWinsTies := false }
    c := Gen.precompute n
    whiteStones := BitVec.ofNat 8 (Facts.defaultPieces.getD n 0), whiteCaps := BitVec.ofNat 8 (Facts.defaultCaps.getD n 0)
    blackStones := BitVec.ofNat 8 (Facts.defaultPieces.getD n 0), blackCaps := BitVec.ofNat 8 (Facts.defaultCaps.getD n 0)
    move := mv, white := 0, black := 0, standing := 0, caps := 0
    height := Array.replicate (n * n) 0#8, stacks := Array.replicate (n * n) 0#64
    wgroups := [], bgroups := [], hash := BitVec.ofNat 64 Facts.fnvBasis }

/-- the position `FromSquares` has built when it calls `analyze()` -/
def fsPure (basis : Array W) (n : Nat) (board : List (List Piece)) (mv : Int) : Pos :=
  goPure basis 0 board (startPos n mv)

theorem fromSquares_eq (basis : Array W) (n : Nat) (board : List (List Piece)) (mv : Int)
    (h3 : 3 ≤ n) (h8 : n ≤ 8) (hlen : board.length = n * n) (hc : ∀ sq ∈ board, ∀ pc ∈ sq, pc.color ≠ .none) :
    Pos.fromSquares basis { size := n, pieces := 0, capstones := 0, blackWinsTies := false } (board.map codes) mv =
      (match (fsPure basis n board mv).analyze with
       | some q => .ok q
       | none => .error (.hang "analyze")) := by
  unfold Pos.fromSquares Pos.new
  have e1 : ¬ n ≥ Facts.defaultPieces.length := by simp [Facts.defaultPieces]; omega
  have e2 : ¬ (n < 3 ∨ n > 8) := by omega
  simp only [e1, e2, if_false, beq_self_eq_true, if_true]
  change (if (board.map codes).length < n * n then _ else _) = _
  have e3 : ¬ (board.map codes).length < n * n := by simp [hlen]
  simp only [e3, if_false]
  have := go_eq basis (n * n) 0 board (startPos n mv) (by omega) hc
  unfold startPos at this
  rw [this]
  rfl

theorem analyze_fields (p q : Pos) (h : p.analyze = some q) :
    q.cfg = p.cfg ∧ q.move = p.move ∧ q.white = p.white ∧ q.black = p.black ∧ q.standing = p.standing ∧
    q.caps = p.caps ∧ q.height = p.height ∧ q.stacks = p.stacks ∧ q.hash = p.hash ∧
    q.whiteStones = p.whiteStones ∧ q.whiteCaps = p.whiteCaps ∧ q.blackStones = p.blackStones ∧ q.blackCaps = p.blackCaps := by
  unfold Pos.analyze at h
  simp only [] at h
  split at h
  · cases h; simp
  · cases h

def blackAt (l : List Piece) (m : Nat) : Bool :=
  match l[m]? with
  | some pc => pc.color == .black
  | none => false

theorem wordFrom_getLsbD (j : Nat) (l : List Piece) (b : Nat) :
    (wordFrom j l).getLsbD b = (decide (b < 64 ∧ j ≤ b + 1) && blackAt l (b + 1 - j)) := by
  induction l generalizing j with
  | nil => simp [wordFrom, blackAt]
  | cons pc l ih =>
    unfold wordFrom
    rw [BitVec.getLsbD_or, ih (j + 1)]
    by_cases hm : b + 1 - j = 0
    · -- the piece itself, if addressed at all
      by_cases hj : j = b + 1
      · subst hj
        have e1 : ¬ (b < 64 ∧ b + 1 + 1 ≤ b + 1) := by omega
        simp only [e1, decide_false, Bool.false_and, Bool.or_false, Nat.sub_self, blackAt, List.getElem?_cons_zero]
        by_cases hc : pc.color = .black
        · simp [hc, bit_getLsbD]
        · simp [hc]
      · have e1 : ¬ (b < 64 ∧ j + 1 ≤ b + 1) := by omega
        have e2 : ¬ (b < 64 ∧ j ≤ b + 1) := by omega
        have e3 : (if j ≠ 0 ∧ pc.color = Color.black then bit (j - 1) else 0#64).getLsbD b = false := by
          split
          · rw [bit_getLsbD]; simp; omega
          · simp
        rw [e3]
        simp only [e1, e2, decide_false, Bool.false_and, Bool.or_false]
    · have e3 : (if j ≠ 0 ∧ pc.color = Color.black then bit (j - 1) else 0#64).getLsbD b = false := by
        split
        · rw [bit_getLsbD]; simp; omega
        · simp
      have e4 : b + 1 - j = (b + 1 - (j + 1)) + 1 := by omega
      have e5 : (b < 64 ∧ j + 1 ≤ b + 1) ↔ (b < 64 ∧ j ≤ b + 1) := by omega
      rw [e3, Bool.false_or, e4]
      simp only [blackAt, List.getElem?_cons_succ, e5]

theorem stepWhite (basis : Array W) (i : Nat) (sq : List Piece) (p : Pos) (h : i < p.stacks.size) :
    (squarePure basis i sq p).white = (p.white ||| if headIs (fun t => t.color == .white) sq then bit i else 0#64) :=
  (squarePure_fields basis i sq p h).2.2.2.1
theorem stepBlack (basis : Array W) (i : Nat) (sq : List Piece) (p : Pos) (h : i < p.stacks.size) :
    (squarePure basis i sq p).black = (p.black ||| if headIs (fun t => t.color == .black) sq then bit i else 0#64) :=
  (squarePure_fields basis i sq p h).2.2.2.2.1
theorem stepStanding (basis : Array W) (i : Nat) (sq : List Piece) (p : Pos) (h : i < p.stacks.size) :
    (squarePure basis i sq p).standing = (p.standing ||| if headIs (fun t => t.kind == .standing) sq then bit i else 0#64) :=
  (squarePure_fields basis i sq p h).2.2.2.2.2.1
theorem stepCaps (basis : Array W) (i : Nat) (sq : List Piece) (p : Pos) (h : i < p.stacks.size) :
    (squarePure basis i sq p).caps = (p.caps ||| if headIs (fun t => t.kind == .capstone) sq then bit i else 0#64) :=
  (squarePure_fields basis i sq p h).2.2.2.2.2.2.1

/-- the four bitboards, heights and buried-colour words of the position `FromSquares` builds, square by square -/
theorem fsPure_fields (basis : Array W) (n : Nat) (board : List (List Piece)) (mv : Int) (hlen : board.length = n * n)
    (j : Nat) :
    let q := fsPure basis n board mv
    q.white.getLsbD j = (decide (j < 64) && headIs (fun t => t.color == .white) (board.getD j [])) ∧
    q.black.getLsbD j = (decide (j < 64) && headIs (fun t => t.color == .black) (board.getD j [])) ∧
    q.standing.getLsbD j = (decide (j < 64) && headIs (fun t => t.kind == .standing) (board.getD j [])) ∧
    q.caps.getLsbD j = (decide (j < 64) && headIs (fun t => t.kind == .capstone) (board.getD j [])) ∧
    q.height[j]?.getD 0 = BitVec.ofNat 8 (board.getD j []).length ∧
    q.stacks[j]?.getD 0 = wordFrom 0 (board.getD j []) ∧
    q.cfg = (startPos n mv).cfg ∧ q.move = mv ∧ q.height.size = n * n ∧ q.stacks.size = n * n := by
  have hs : 0 + board.length ≤ (startPos n mv).stacks.size := by simp [startPos, hlen]
  have hw := goPure_bits basis (·.white) _ (stepWhite basis) 0 board (startPos n mv) hs j
  have hb := goPure_bits basis (·.black) _ (stepBlack basis) 0 board (startPos n mv) hs j
  have hst := goPure_bits basis (·.standing) _ (stepStanding basis) 0 board (startPos n mv) hs j
  have hcp := goPure_bits basis (·.caps) _ (stepCaps basis) 0 board (startPos n mv) hs j
  have hh := goPure_height basis 0 board (startPos n mv) hs (by simp [startPos]) j
  have hsk := goPure_stacks basis 0 board (startPos n mv) hs j
  obtain ⟨f1, _, f3, f4, f5⟩ := goPure_frame basis 0 board (startPos n mv) hs
  simp only [Nat.zero_le, true_and, Nat.sub_zero] at hw hb hst hcp hh hsk
  refine ⟨?_, ?_, ?_, ?_, ?_, ?_, f1, f3, ?_, ?_⟩
  · rw [fsPure, hw]; simp [startPos]
  · rw [fsPure, hb]; simp [startPos]
  · rw [fsPure, hst]; simp [startPos]
  · rw [fsPure, hcp]; simp [startPos]
  · rw [fsPure, hh]
    split
    · rfl
    · rename_i h
      have : board.getD j [] = [] := by simpa using h
      rw [this]
      by_cases hj : j < n * n
      · simp [startPos, hj]
      · simp [startPos, hj]
  · rw [fsPure, hsk]
    by_cases hj : j < n * n
    · simp [startPos, hj]
    · simp [startPos, hj]
  · rw [fsPure, f5]; simp [startPos]
  · rw [fsPure, f4]; simp [startPos]

/-- reading a square back from a position that has exactly the bits `FromSquares` writes for it -/
theorem squareAt_of_fields (q : Pos) (j : Nat) (sq : List Piece) (hv : ValidSq sq) (hl : sq.length ≤ 65)
    (hw : q.white.getLsbD j = headIs (fun t => t.color == .white) sq)
    (hb : q.black.getLsbD j = headIs (fun t => t.color == .black) sq)
    (hs : q.standing.getLsbD j = headIs (fun t => t.kind == .standing) sq)
    (hc : q.caps.getLsbD j = headIs (fun t => t.kind == .capstone) sq)
    (hh : q.height.getD j 0 = BitVec.ofNat 8 sq.length)
    (hk : q.stacks.getD j 0 = wordFrom 0 sq) : q.squareAt j = sq := by
  obtain ⟨hcol, hflat⟩ := hv
  unfold Pos.squareAt Pos.topAt
  rw [hw, hb, hs, hc, hh, hk]
  cases sq with
  | nil => simp [headIs]
  | cons top tl =>
    simp only [headIs]
    have htop := hcol top (by simp)
    have hlen : (BitVec.ofNat 8 (top :: tl).length).toNat - 1 = tl.length := by
      simp only [List.length_cons] at hl ⊢
      rw [BitVec.toNat_ofNat]
      have : (tl.length + 1) % 2 ^ 8 = tl.length + 1 := Nat.mod_eq_of_lt (by omega)
      rw [this]; omega
    have htl : (List.range tl.length).map (fun k => if (wordFrom 0 (top :: tl)).getLsbD k then (⟨.black, .flat⟩ : Piece)
        else ⟨.white, .flat⟩) = tl := by
      apply List.ext_getElem
      · simp
      · intro k h1 h2
        have hk' : k < tl.length := by simpa using h1
        simp only [List.getElem_map, List.getElem_range]
        rw [wordFrom_getLsbD]
        have hk64 : k < 64 := by simp only [List.length_cons] at hl; omega
        simp only [hk64, Nat.zero_le, and_self, decide_true, Bool.true_and, Nat.sub_zero, blackAt,
          List.getElem?_cons_succ, List.getElem?_eq_getElem hk']
        have hpc := hcol tl[k] (by simp)
        have hfl := hflat tl[k] (by simp)
        generalize tl[k] = pc at hpc hfl
        obtain ⟨c, kd⟩ := pc
        simp only at hpc hfl
        subst hfl
        cases c
        · rfl
        · rfl
        · exact absurd rfl hpc
    obtain ⟨c, kd⟩ := top
    simp only at htop
    cases c <;> cases kd <;> first
      | exact absurd rfl htop
      | (simp only [hlen, htl]; rfl)

theorem flatten_getD {α : Type} (n : Nat) (L : List (List α)) (hL : ∀ r ∈ L, r.length = n) (x y : Nat) (d : α)
    (hx : x < n) (hy : y < L.length) : L.flatten.getD (x + y * n) d = (L.getD y []).getD x d := by
  induction L generalizing y with
  | nil => simp at hy
  | cons r L ih =>
    have hr : r.length = n := hL r (by simp)
    cases y with
    | zero =>
      simp only [Nat.zero_mul, Nat.add_zero, List.flatten_cons, List.getD_eq_getElem?_getD]
      rw [List.getElem?_append_left (by omega)]
      simp
    | succ y =>
      simp only [List.flatten_cons, List.getD_cons_succ]
      have e : x + (y + 1) * n = r.length + (x + y * n) := by rw [Nat.add_mul, hr]; omega
      have := ih (fun r' hr' => hL r' (by simp [hr'])) y (by simpa using hy)
      rw [← this, e]
      simp only [List.getD_eq_getElem?_getD]
      rw [List.getElem?_append_right (by omega)]
      simp only [Nat.add_sub_cancel_left]

theorem map_range_getD {α : Type} (l : List α) (d : α) : (List.range l.length).map (fun x => l.getD x d) = l := by
  apply List.ext_getElem
  · simp
  · intro k h1 h2
    simp only [List.getElem_map, List.getElem_range, List.getD_eq_getElem?_getD, List.getElem?_eq_getElem h2,
      Option.getD_some]

theorem reverse_range_map_getD {α : Type} (L : List (List α)) :
    (List.range L.length).reverse.map (fun y => L.getD y []) = L.reverse := by
  rw [List.map_reverse, map_range_getD]

/-- a board given as rows (top row first) of `n` valid squares each, stacks at most 64 high -/
def ValidRows (n : Nat) (rows : List (List (List Piece))) : Prop :=
  rows.length = n ∧ ∀ r ∈ rows, r.length = n ∧ ∀ sq ∈ r, ValidSq sq ∧ sq.length ≤ 64

/-- row-major squares, a1 first, as `FromSquares` receives them -/
def flatBoard (rows : List (List (List Piece))) : List (List Piece) := rows.reverse.flatten

theorem flatBoard_length (n : Nat) (rows : List (List (List Piece))) (h : ValidRows n rows) :
    (flatBoard rows).length = n * n := by
  unfold flatBoard
  have : ∀ (L : List (List (List Piece))), (∀ r ∈ L, r.length = n) → L.flatten.length = L.length * n := by
    intro L hL
    induction L with
    | nil => simp
    | cons r L ih =>
      simp only [List.flatten_cons, List.length_append, List.length_cons]
      rw [ih (fun r' hr' => hL r' (by simp [hr'])), hL r (by simp), Nat.add_mul]; omega
  rw [this _ (fun r hr => (h.2 r (List.mem_reverse.mp hr)).1)]
  simp [h.1]

theorem flatBoard_mem (n : Nat) (rows : List (List (List Piece))) (h : ValidRows n rows) :
    ∀ sq ∈ flatBoard rows, ValidSq sq ∧ sq.length ≤ 64 := by
  intro sq hsq
  unfold flatBoard at hsq
  obtain ⟨r, hr, hs⟩ := List.mem_flatten.mp hsq
  exact (h.2 r (List.mem_reverse.mp hr)).2 sq hs

theorem getD_mem_or_nil {α : Type} (l : List (List α)) (j : Nat) : l.getD j [] ∈ l ∨ l.getD j [] = [] := by
  rw [List.getD_eq_getElem?_getD]
  cases h : l[j]? with
  | none => right; rfl
  | some x => left; exact List.mem_of_getElem? h

/-- `FormatTPS` of what `FromSquares` builds from a valid board is the text of that board -/
theorem formatTPS_fsPure (basis : Array W) (n : Nat) (rows : List (List (List Piece))) (mv : Int) (q' : Pos)
    (h8 : n ≤ 8) (hv : ValidRows n rows)
    (hq : (fsPure basis n (flatBoard rows) mv).analyze = some q') :
    formatTPS q' = .ok (tpsText (rows.map rowText) mv) := by
  have hlen := flatBoard_length n rows hv
  have hmem := flatBoard_mem n rows hv
  obtain ⟨a1, a2, a3, a4, a5, a6, a7, a8, _⟩ := analyze_fields _ _ hq
  have hnn : n * n ≤ 64 := by
    have : n * n ≤ 8 * 8 := Nat.mul_le_mul h8 h8
    omega
  have hsize : q'.size = n := by
    obtain ⟨_, _, _, _, _, _, f7, _⟩ := fsPure_fields basis n (flatBoard rows) mv hlen 0
    unfold Pos.size; rw [a1, f7]; rfl
  have hmv : q'.move = mv := by
    obtain ⟨_, _, _, _, _, _, _, f8, _⟩ := fsPure_fields basis n (flatBoard rows) mv hlen 0
    rw [a2, f8]
  -- every square reads back
  have hsq : ∀ j, j < n * n → q'.squareAt j = (flatBoard rows).getD j [] := by
    intro j hj
    obtain ⟨f1, f2, f3, f4, f5, f6, _⟩ := fsPure_fields basis n (flatBoard rows) mv hlen j
    have hj64 : j < 64 := by omega
    simp only [hj64, decide_true, Bool.true_and] at f1 f2 f3 f4
    have hval : ValidSq ((flatBoard rows).getD j []) ∧ ((flatBoard rows).getD j []).length ≤ 64 := by
      rcases getD_mem_or_nil (flatBoard rows) j with h | h
      · exact hmem _ h
      · rw [h]; exact ⟨⟨by simp, by simp⟩, by simp⟩
    apply squareAt_of_fields q' j _ hval.1 (by omega)
    · rw [a3]; exact f1
    · rw [a4]; exact f2
    · rw [a5]; exact f3
    · rw [a6]; exact f4
    · rw [a7, Array.getD_eq_getD_getElem?]; exact f5
    · rw [a8, Array.getD_eq_getD_getElem?]; exact f6
  have hok : HeightsOK q' := by
    intro j hj htop
    rw [hsize] at hj
    obtain ⟨f1, f2, _, _, f5, _⟩ := fsPure_fields basis n (flatBoard rows) mv hlen j
    have hj64 : j < 64 := by omega
    simp only [hj64, decide_true, Bool.true_and] at f1 f2
    have hne : (flatBoard rows).getD j [] ≠ [] := by
      intro he
      rw [he] at f1 f2
      simp only [headIs] at f1 f2
      unfold Pos.topAt at htop
      rw [a3, a4, f1, f2] at htop
      simp at htop
    have hval : ((flatBoard rows).getD j []).length ≤ 64 := by
      rcases getD_mem_or_nil (flatBoard rows) j with h | h
      · exact (hmem _ h).2
      · exact absurd h hne
    rw [a7, Array.getD_eq_getD_getElem?, f5, BitVec.toNat_ofNat]
    have : ((flatBoard rows).getD j []).length % 2 ^ 8 = ((flatBoard rows).getD j []).length :=
      Nat.mod_eq_of_lt (by omega)
    rw [this]
    intro h0
    exact hne (List.length_eq_zero_iff.mp h0)
  rw [formatTPS_eq q' hok, hmv]
  congr 2
  -- the rows read back
  unfold boardRows
  rw [hsize]
  have hrow : ∀ y ∈ (List.range n).reverse, rowOf q' y = rows.reverse.getD y [] := by
    intro y hy
    have hy' : y < n := by simpa using hy
    unfold rowOf
    rw [hsize]
    have hL : ∀ r ∈ rows.reverse, r.length = n := fun r hr => (hv.2 r (List.mem_reverse.mp hr)).1
    have hyl : y < rows.reverse.length := by simp [hv.1, hy']
    have hrl : (rows.reverse.getD y []).length = n := by
      rw [List.getD_eq_getElem?_getD, List.getElem?_eq_getElem hyl]
      exact hL _ (List.getElem_mem _)
    have : (List.range n).map (fun x => q'.squareAt (x + y * n)) =
        (List.range n).map (fun x => (rows.reverse.getD y []).getD x []) := by
      apply List.map_congr_left
      intro x hx
      have hx' : x < n := by simpa using hx
      have hj : x + y * n < n * n := by
        calc x + y * n < n + y * n := by omega
          _ = (y + 1) * n := by rw [Nat.add_mul]; omega
          _ ≤ n * n := Nat.mul_le_mul_right _ (by omega)
      rw [hsq _ hj]
      exact flatten_getD n rows.reverse hL x y [] hx' hyl
    rw [this]
    conv => lhs; rw [← hrl]
    exact map_range_getD _ _
  rw [List.map_congr_left hrow]
  have : n = rows.reverse.length := by simp [hv.1]
  rw [this, reverse_range_map_getD, List.reverse_reverse]


end Tak.TPS
